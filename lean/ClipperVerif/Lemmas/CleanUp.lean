/-
Helper definitions and lemmas for the clean-up pipeline model (`Model/CleanUp.lean`, property C03):
cyclic predicates on rings, rotation/reversal transfer, `cleanLoop` fuel and invariant, `pushDedup`.
Core Lean only.
-/
import ClipperVerif.Model.CleanUp
namespace Clipper.Lemmas.CleanUp
open Clipper Clipper.Model.CleanUp

/-! ## linear and cyclic neighbour predicates -/

/-- `Q` holds for every two linearly consecutive elements -/
def LinPairs (Q : Pt → Pt → Prop) : List Pt → Prop
  | a :: b :: rest => Q a b ∧ LinPairs Q (b :: rest)
  | _ => True

/-- `P` holds for every three linearly consecutive elements -/
def LinTriples (P : Pt → Pt → Pt → Prop) : List Pt → Prop
  | a :: b :: c :: rest => P a b c ∧ LinTriples P (b :: c :: rest)
  | _ => True

/-- `Q cur next` for every node of the ring and its cyclic successor (`n` pairs for `n ≥ 1` nodes) -/
def CycPairs (Q : Pt → Pt → Prop) : List Pt → Prop
  | [] => True
  | a :: rest => LinPairs Q (a :: rest ++ [a])

/-- `P prev cur next` for every node of the ring with its cyclic neighbours (`n` triples for `n ≥ 1` nodes):
the linear triples of `last :: ring ++ [first]`. -/
def CycTriples (P : Pt → Pt → Pt → Prop) : List Pt → Prop
  | [] => True
  | a :: rest => LinTriples P ((a :: rest).getLast (List.cons_ne_nil _ _) :: a :: rest ++ [a])

/-- no node of the ring equals its cyclic successor -/
def CycNoDup (r : List Pt) : Prop := CycPairs (fun a b => a ≠ b) r

instance decLinPairs (Q : Pt → Pt → Prop) [DecidableRel Q] : (l : List Pt) → Decidable (LinPairs Q l)
  | [] => isTrue trivial
  | [_] => isTrue trivial
  | a :: b :: rest =>
    have := decLinPairs Q (b :: rest)
    inferInstanceAs (Decidable (Q a b ∧ LinPairs Q (b :: rest)))

instance decLinTriples (P : Pt → Pt → Pt → Prop) [∀ a b c, Decidable (P a b c)] :
    (l : List Pt) → Decidable (LinTriples P l)
  | [] => isTrue trivial
  | [_] => isTrue trivial
  | [_, _] => isTrue trivial
  | a :: b :: c :: rest =>
    have := decLinTriples P (b :: c :: rest)
    inferInstanceAs (Decidable (P a b c ∧ LinTriples P (b :: c :: rest)))

instance (Q : Pt → Pt → Prop) [DecidableRel Q] (l : List Pt) : Decidable (CycPairs Q l) := by
  cases l <;> unfold CycPairs <;> infer_instance
instance (P : Pt → Pt → Pt → Prop) [∀ a b c, Decidable (P a b c)] (l : List Pt) :
    Decidable (CycTriples P l) := by
  cases l <;> unfold CycTriples <;> infer_instance
instance (l : List Pt) : Decidable (CycNoDup l) := by unfold CycNoDup; infer_instance

example : CycNoDup [⟨0,0⟩,⟨5,0⟩,⟨10,0⟩,⟨10,10⟩,⟨0,10⟩] := by decide
example : ¬ CycNoDup [⟨0,0⟩,⟨5,0⟩,⟨10,0⟩,⟨10,10⟩,⟨0,0⟩] := by decide
example : CycTriples (fun a b c => cross a b c ≥ 0) [⟨0,0⟩,⟨5,0⟩,⟨10,0⟩,⟨10,10⟩,⟨0,10⟩] := by decide
example : ¬ CycTriples (fun a b c => cross a b c ≠ 0) [⟨0,0⟩,⟨5,0⟩,⟨10,0⟩,⟨10,10⟩,⟨0,10⟩] := by decide

/-! ## snoc, reversal, rotation -/


theorem linTriples_snoc (P : Pt → Pt → Pt → Prop) (x y z : Pt) :
    ∀ l, LinTriples P (l ++ [x, y, z]) ↔ LinTriples P (l ++ [x, y]) ∧ P x y z
  | [] => by simp [LinTriples]
  | [a] => by simp [LinTriples]
  | [a, b] => by simp [LinTriples, and_assoc]
  | a :: b :: c :: rest => by
    have := linTriples_snoc P x y z (b :: c :: rest)
    simp only [List.cons_append, LinTriples] at this ⊢
    rw [this, and_assoc]

theorem linPairs_snoc (Q : Pt → Pt → Prop) (x y : Pt) :
    ∀ l, LinPairs Q (l ++ [x, y]) ↔ LinPairs Q (l ++ [x]) ∧ Q x y
  | [] => by simp [LinPairs]
  | [a] => by simp [LinPairs]
  | a :: b :: rest => by
    have := linPairs_snoc Q x y (b :: rest)
    simp only [List.cons_append, LinPairs] at this ⊢
    rw [this, and_assoc]

theorem linTriples_reverse (P : Pt → Pt → Pt → Prop) :
    ∀ l, LinTriples P l.reverse ↔ LinTriples (fun a b c => P c b a) l
  | [] => by simp [LinTriples]
  | [a] => by simp [LinTriples]
  | [a, b] => by simp [LinTriples]
  | a :: b :: c :: rest => by
    have ih := linTriples_reverse P (b :: c :: rest)
    have e : (a :: b :: c :: rest).reverse = rest.reverse ++ [c, b, a] := by simp
    have e2 : (b :: c :: rest).reverse = rest.reverse ++ [c, b] := by simp
    rw [e, linTriples_snoc, ← e2, ih]
    simp only [LinTriples]; exact And.comm

theorem linPairs_reverse (Q : Pt → Pt → Prop) :
    ∀ l, LinPairs Q l.reverse ↔ LinPairs (fun a b => Q b a) l
  | [] => by simp [LinPairs]
  | [a] => by simp [LinPairs]
  | a :: b :: rest => by
    have ih := linPairs_reverse Q (b :: rest)
    have e : (a :: b :: rest).reverse = rest.reverse ++ [b, a] := by simp
    have e2 : (b :: rest).reverse = rest.reverse ++ [b] := by simp
    rw [e, linPairs_snoc, ← e2, ih]
    simp only [LinPairs]; exact And.comm

theorem cycTriples_iff (P : Pt → Pt → Pt → Prop) {r : List Pt} (hne : r ≠ []) :
    CycTriples P r ↔ LinTriples P (r.getLast hne :: r ++ [r.head hne]) := by
  cases r with
  | nil => exact absurd rfl hne
  | cons a rest => rfl

theorem cycPairs_iff (Q : Pt → Pt → Prop) {r : List Pt} (hne : r ≠ []) :
    CycPairs Q r ↔ LinPairs Q (r ++ [r.head hne]) := by
  cases r with
  | nil => exact absurd rfl hne
  | cons a rest => rfl

theorem cycTriples_reverse (P : Pt → Pt → Pt → Prop) (r : List Pt) :
    CycTriples P r.reverse ↔ CycTriples (fun a b c => P c b a) r := by
  cases r with
  | nil => simp [CycTriples]
  | cons a rest =>
    have hne : (a :: rest).reverse ≠ [] := by simp
    rw [cycTriples_iff P hne, cycTriples_iff _ (List.cons_ne_nil a rest), ← linTriples_reverse P]
    have h1 : (a :: rest).reverse.getLast hne = a := by simp
    have h2 : (a :: rest).reverse.head hne = (a :: rest).getLast (List.cons_ne_nil _ _) := by
      rw [List.head_reverse]
    rw [h1, h2]; simp

theorem cycPairs_reverse (Q : Pt → Pt → Prop) (r : List Pt) :
    CycPairs Q r.reverse ↔ CycPairs (fun a b => Q b a) r := by
  cases r with
  | nil => simp [CycPairs]
  | cons a rest =>
    rw [cycPairs_iff _ (List.cons_ne_nil a rest), ← linPairs_reverse Q]
    rcases List.eq_nil_or_concat rest with rfl | ⟨rest0, z, rfl⟩
    · simp [CycPairs]
    · have e : (a :: rest0.concat z).reverse = z :: (rest0.reverse ++ [a]) := by simp
      rw [e]
      simp only [CycPairs]
      have e2 : (z :: (rest0.reverse ++ [a]) ++ [z]) = (z :: rest0.reverse) ++ [a, z] := by simp
      rw [e2, linPairs_snoc]
      simp [LinPairs, And.comm]


theorem linTriples_mono {P P' : Pt → Pt → Pt → Prop} (h : ∀ a b c, P a b c → P' a b c) :
    ∀ l, LinTriples P l → LinTriples P' l
  | [] => by simp [LinTriples]
  | [a] => by simp [LinTriples]
  | [a, b] => by simp [LinTriples]
  | a :: b :: c :: rest => by
    simp only [LinTriples]
    exact fun ⟨h1, h2⟩ => ⟨h _ _ _ h1, linTriples_mono h _ h2⟩

theorem cycTriples_mono {P P' : Pt → Pt → Pt → Prop} (h : ∀ a b c, P a b c → P' a b c)
    (l : List Pt) : CycTriples P l → CycTriples P' l := by
  cases l with
  | nil => simp [CycTriples]
  | cons a rest => exact linTriples_mono h _

theorem linPairs_mono {Q Q' : Pt → Pt → Prop} (h : ∀ a b, Q a b → Q' a b) :
    ∀ l, LinPairs Q l → LinPairs Q' l
  | [] => by simp [LinPairs]
  | [a] => by simp [LinPairs]
  | a :: b :: rest => by
    simp only [LinPairs]
    exact fun ⟨h1, h2⟩ => ⟨h _ _ h1, linPairs_mono h _ h2⟩

theorem linTriples_pairs (Q : Pt → Pt → Prop) (x : Pt) :
    ∀ l, LinTriples (fun _ b c => Q b c) (x :: l) ↔ LinPairs Q l
  | [] => by simp [LinTriples, LinPairs]
  | [a] => by simp [LinTriples, LinPairs]
  | a :: b :: rest => by
    simp only [LinTriples, LinPairs]
    rw [linTriples_pairs Q a (b :: rest)]

/-- the cyclic pair predicate is the cyclic triple predicate that ignores `prev` -/
theorem cycPairs_iff_cycTriples (Q : Pt → Pt → Prop) (r : List Pt) :
    CycPairs Q r ↔ CycTriples (fun _ b c => Q b c) r := by
  cases r with
  | nil => simp [CycPairs, CycTriples]
  | cons a rest => simp only [CycPairs, CycTriples, List.cons_append]; rw [linTriples_pairs]

theorem getLast_of_eq_snoc {l m : List Pt} {z : Pt} (h : l ≠ []) (e : l = m ++ [z]) :
    l.getLast h = z := by subst e; simp

/-- generic rotation principle -/
theorem rot_swap (Φ : List Pt → Prop) (h1 : ∀ a rest, Φ (a :: rest) → Φ (rest ++ [a])) :
    ∀ u v, Φ (u ++ v) → Φ (v ++ u) := by
  intro u
  induction u with
  | nil => intro v h; simpa using h
  | cons a u ih =>
    intro v h
    have h2 := h1 a (u ++ v) h
    rw [List.append_assoc] at h2
    have h3 := ih (v ++ [a]) h2
    simpa using h3

theorem rot_rotl (Φ : List Pt → Prop) (h1 : ∀ a rest, Φ (a :: rest) → Φ (rest ++ [a]))
    (l : List Pt) (k : Nat) (h : Φ l) : Φ (rotl l k) := by
  unfold rotl
  apply rot_swap Φ h1
  rw [List.take_append_drop]; exact h

theorem cycTriples_rot1 (P : Pt → Pt → Pt → Prop) (a : Pt) (rest : List Pt) :
    CycTriples P (a :: rest) → CycTriples P (rest ++ [a]) := by
  rcases List.eq_nil_or_concat rest with rfl | ⟨rest0, z, rfl⟩
  · simp
  · rw [List.concat_eq_append]
    cases rest0 with
    | nil => simp [CycTriples, LinTriples, And.comm]
    | cons b r1 =>
      intro h
      have e : (b :: r1 ++ [z] ++ [a]) = b :: (r1 ++ [z] ++ [a]) := by simp
      rw [e]
      simp only [CycTriples] at h ⊢
      have g1 : (a :: (b :: r1 ++ [z])).getLast (List.cons_ne_nil _ _) = z :=
        getLast_of_eq_snoc (m := a :: b :: r1) _ (by simp)
      have g2 : (b :: (r1 ++ [z] ++ [a])).getLast (List.cons_ne_nil _ _) = a :=
        getLast_of_eq_snoc (m := b :: r1 ++ [z]) _ (by simp)
      rw [g1] at h; rw [g2]
      have e3 : a :: b :: (r1 ++ [z] ++ [a]) ++ [b] = (a :: b :: r1) ++ [z, a, b] := by simp
      have e4 : z :: a :: (b :: r1 ++ [z]) ++ [a] = z :: a :: b :: (r1 ++ [z, a]) := by simp
      rw [e3, linTriples_snoc]; rw [e4] at h
      simp only [LinTriples] at h
      refine ⟨?_, h.1⟩
      have := h.2; simpa using this

theorem cycTriples_rotl (P : Pt → Pt → Pt → Prop) (l : List Pt) (k : Nat) (h : CycTriples P l) :
    CycTriples P (rotl l k) := rot_rotl _ (cycTriples_rot1 P) l k h

theorem cycPairs_rot1 (Q : Pt → Pt → Prop) (a : Pt) (rest : List Pt) :
    CycPairs Q (a :: rest) → CycPairs Q (rest ++ [a]) := by
  rw [cycPairs_iff_cycTriples, cycPairs_iff_cycTriples]; exact cycTriples_rot1 _ a rest

theorem cycPairs_rotl (Q : Pt → Pt → Prop) (l : List Pt) (k : Nat) (h : CycPairs Q l) :
    CycPairs Q (rotl l k) := rot_rotl _ (cycPairs_rot1 Q) l k h

/-! ## geometry of the removal test -/

theorem isCollinear_iff (a b c : Pt) :
    isCollinear a b c = true ↔ (b.x - a.x) * (c.y - b.y) = (b.y - a.y) * (c.x - b.x) := by
  simp [isCollinear, Gen.IsCollinear, Gen.ProductsAreEqual]

theorem cross_eq (a b c : Pt) :
    cross a b c = (b.x - a.x) * (c.y - b.y) - (b.y - a.y) * (c.x - b.x) := by
  unfold cross; grind

/-- the generated `IsCollinear` is the vanishing of the Spec-level cross product -/
theorem isCollinear_iff_cross (a b c : Pt) : isCollinear a b c = true ↔ cross a b c = 0 := by
  rw [isCollinear_iff, cross_eq]; omega

theorem isCollinear_false_iff_cross (a b c : Pt) : isCollinear a b c = false ↔ cross a b c ≠ 0 := by
  rw [Ne, ← isCollinear_iff_cross]; simp

theorem isCollinear_left (a c : Pt) : isCollinear a a c = true := by
  rw [isCollinear_iff]; simp
theorem isCollinear_right (a c : Pt) : isCollinear a c c = true := by
  rw [isCollinear_iff]; simp

theorem isCollinear_symm (a b c : Pt) : isCollinear c b a = isCollinear a b c := by
  rw [Bool.eq_iff_iff, isCollinear_iff, isCollinear_iff]
  constructor <;> intro h <;> grind

theorem dot_symm (a b c : Pt) : dot c b a = dot a b c := by
  unfold dot; grind

theorem removable_symm (pc : Bool) (a b c : Pt) : removable pc c b a = removable pc a b c := by
  unfold removable
  rw [isCollinear_symm, dot_symm]
  cases isCollinear a b c <;> cases (b == a) <;> cases (b == c) <;> simp

/-- a node that survives the removal test differs from both neighbours -/
theorem removable_false_ne {pc : Bool} {a b c : Pt} (h : removable pc a b c = false) :
    b ≠ a ∧ b ≠ c := by
  constructor
  · intro e; subst e
    simp [removable, isCollinear_left] at h
  · intro e; subst e
    simp [removable, isCollinear_right] at h

theorem removable_false_pcFalse {a b c : Pt} (h : removable false a b c = false) :
    isCollinear a b c = false := by
  simpa [removable] using h

theorem sq_sum_zero {x y : Int} (h : x * x + y * y = 0) : x = 0 ∧ y = 0 := by
  have hx : 0 ≤ x * x := by rw [← Int.natAbs_mul_self]; omega
  have hy : 0 ≤ y * y := by rw [← Int.natAbs_mul_self]; omega
  have hx0 : x * x = 0 := by omega
  have hy0 : y * y = 0 := by omega
  exact ⟨by rcases Int.mul_eq_zero.mp hx0 with h | h <;> exact h,
    by rcases Int.mul_eq_zero.mp hy0 with h | h <;> exact h⟩

/-- for a collinear triple whose middle point differs from both ends, the dot product is not zero -/
theorem dot_ne_zero_of_collinear {a b c : Pt} (hc : isCollinear a b c = true) (h1 : b ≠ a) (h2 : b ≠ c) :
    dot a b c ≠ 0 := by
  rw [isCollinear_iff] at hc
  unfold dot
  intro hd
  generalize hu1 : b.x - a.x = u1 at hc hd
  generalize hu2 : b.y - a.y = u2 at hc hd
  generalize hv1 : c.x - b.x = v1 at hc hd
  generalize hv2 : c.y - b.y = v2 at hc hd
  have lag : (u1 * u1 + u2 * u2) * (v1 * v1 + v2 * v2) = 0 := by
    have : (u1 * u1 + u2 * u2) * (v1 * v1 + v2 * v2)
        = (u1 * v1 + u2 * v2) * (u1 * v1 + u2 * v2) + (u1 * v2 - u2 * v1) * (u1 * v2 - u2 * v1) := by grind
    rw [this, hd, hc]; simp
  rcases Int.mul_eq_zero.mp lag with h | h
  · have := sq_sum_zero h
    apply h1
    cases a; cases b; simp at *; omega
  · have := sq_sum_zero h
    apply h2
    cases c; cases b; simp at *; omega

/-- with `preserveCollinear`, a surviving collinear node is not a spike: the dot product is positive -/
theorem removable_false_pcTrue {a b c : Pt} (h : removable true a b c = false)
    (hc : isCollinear a b c = true) : dot a b c > 0 := by
  have hne := removable_false_ne h
  have hd := dot_ne_zero_of_collinear hc hne.1 hne.2
  have : ¬ dot a b c < 0 := by
    intro hlt
    simp [removable, hc, hlt] at h
  omega

/-! ## fuel -/

theorem fuel_step (n t : Nat) (hn : n ≥ 1) (ht : t ≥ 1) :
    (n - 1) * (n - 1) + (n - 1) + 1 < n * n + t + 1 := by
  have h : (n - 1) * (n - 1) ≤ n * n := Nat.mul_le_mul (by omega) (by omega)
  obtain ⟨m, rfl⟩ : ∃ m, n = m + 1 := ⟨n - 1, by omega⟩
  simp only [Nat.add_sub_cancel]
  have : (m + 1) * (m + 1) = m * m + 2 * m + 1 := by grind
  omega

/-- `op2->prev->pt` in the loop state `(done, todo)` with `todo = cur :: _` -/
def prevOf (done todo : List Pt) (cur : Pt) : Pt :=
  match done with
  | p :: _ => p
  | [] => todo.getLastD cur

/-- `op2->next->pt` in the loop state `(done, cur :: rest)` -/
def nextOf (done rest : List Pt) (cur : Pt) : Pt :=
  match rest with
  | q :: _ => q
  | [] => done.getLastD cur

/-- the position of `outrec->pts` in the ring `rest ++ done.reverse` after `cur` has been removed -/
def ptsAfter (done rest : List Pt) (pts : Nat) : Nat :=
  let d := done.length
  let n := d + (rest.length + 1)
  let pts1 := if pts = d then (if d > 0 then d - 1 else n - 1) else pts
  if pts1 > d then pts1 - d - 1 else pts1 + rest.length

theorem cleanLoop_nil (pc : Bool) (fuel : Nat) (done : List Pt) (pts : Nat) :
    cleanLoop pc (fuel + 1) done [] pts = some (some (rotl done.reverse pts)) := rfl

theorem cleanLoop_cons (pc : Bool) (fuel : Nat) (done : List Pt) (cur : Pt) (rest : List Pt) (pts : Nat) :
    cleanLoop pc (fuel + 1) done (cur :: rest) pts =
      if removable pc (prevOf done (cur :: rest) cur) cur (nextOf done rest cur) = true then
        if (!isValidClosedPath (rest ++ done.reverse)) = true then some none
        else cleanLoop pc fuel [] (rest ++ done.reverse) (ptsAfter done rest pts)
      else cleanLoop pc fuel (cur :: done) rest pts := rfl

theorem cleanLoop_fuel_aux (pc : Bool) : ∀ (fuel : Nat) (done todo : List Pt) (pts : Nat),
    fuel ≥ (done.length + todo.length) * (done.length + todo.length) + todo.length + 1 →
    cleanLoop pc fuel done todo pts ≠ none := by
  intro fuel
  induction fuel with
  | zero => intro done todo pts h; omega
  | succ fuel ih =>
    intro done todo pts h
    cases todo with
    | nil => simp [cleanLoop]
    | cons cur rest =>
      rw [cleanLoop_cons]
      split
      · split
        · simp
        · apply ih
          simp only [List.length_append, List.length_reverse, List.length_nil, List.length_cons] at h ⊢
          have := fuel_step (done.length + (rest.length + 1)) (rest.length + 1) (by omega) (by omega)
          have e : done.length + (rest.length + 1) - 1 = rest.length + done.length := by omega
          rw [e] at this
          simp only [Nat.zero_add]
          omega
      · apply ih
        simp only [List.length_cons] at h ⊢
        have e : done.length + 1 + rest.length = done.length + (rest.length + 1) := by omega
        rw [e]; omega

/-! ## validity is a cyclic notion -/

theorem ptsReallyClose_iff (a b : Pt) :
    ptsReallyClose a b = true ↔ (-2 < a.x - b.x ∧ a.x - b.x < 2) ∧ (-2 < a.y - b.y ∧ a.y - b.y < 2) := by
  have iabs_lt : ∀ x : Int, Gen.iabs x < 2 ↔ (-2 < x ∧ x < 2) := by
    intro x; unfold Gen.iabs; split <;> omega
  simp only [ptsReallyClose, Gen.PtsReallyClose, Bool.and_eq_true, decide_eq_true_eq, iabs_lt]

theorem ptsReallyClose_symm (a b : Pt) : ptsReallyClose a b = ptsReallyClose b a := by
  rw [Bool.eq_iff_iff, ptsReallyClose_iff, ptsReallyClose_iff]; omega

theorem isValid_length {r : List Pt} (h : isValidClosedPath r = true) : r.length ≥ 3 := by
  match r, h with
  | _ :: _ :: _ :: _, _ => simp

theorem isValid_of_length4 {r : List Pt} (h : r.length ≥ 4) : isValidClosedPath r = true := by
  match r, h with
  | _ :: _ :: _ :: _ :: _, _ => simp [isValidClosedPath, isVerySmallTriangle]

theorem isVST_rot3 (a b c : Pt) : isVerySmallTriangle [b, c, a] = isVerySmallTriangle [a, b, c] := by
  simp only [isVerySmallTriangle]
  rw [ptsReallyClose_symm a c, ptsReallyClose_symm b c, ptsReallyClose_symm b a]
  cases ptsReallyClose c a <;> cases ptsReallyClose c b <;> cases ptsReallyClose a b <;> rfl

theorem isValid_rot1 (a : Pt) (rest : List Pt) :
    isValidClosedPath (a :: rest) = true → isValidClosedPath (rest ++ [a]) = true := by
  intro h
  have h3 := isValid_length h
  match rest, h, h3 with
  | [b, c], h, _ =>
    simp only [isValidClosedPath, List.cons_append, List.nil_append] at h ⊢
    rw [isVST_rot3]; exact h
  | b :: c :: d :: rest', _, _ => exact isValid_of_length4 (by simp)

theorem isValid_rotl (l : List Pt) (k : Nat) (h : isValidClosedPath l = true) :
    isValidClosedPath (rotl l k) = true :=
  rot_rotl (fun l => isValidClosedPath l = true) isValid_rot1 l k h

theorem rotl_perm (l : List Pt) (k : Nat) : (rotl l k).Perm l := by
  unfold rotl
  have h := List.perm_append_comm (l₁ := l.drop (k % l.length)) (l₂ := l.take (k % l.length))
  rw [List.take_append_drop] at h; exact h

theorem length_rotl (l : List Pt) (k : Nat) : (rotl l k).length = l.length := (rotl_perm l k).length_eq
theorem count_rotl (l : List Pt) (k : Nat) (x : Pt) : (rotl l k).count x = l.count x :=
  (rotl_perm l k).count_eq x
theorem mem_rotl (l : List Pt) (k : Nat) (x : Pt) : x ∈ rotl l k ↔ x ∈ l := (rotl_perm l k).mem_iff

/-! ## the invariant of `cleanLoop` -/

/-- the node survives the removal test of `CleanCollinear` -/
def Kept (pc : Bool) (a b c : Pt) : Prop := removable pc a b c = false

instance (pc : Bool) (a b c : Pt) : Decidable (Kept pc a b c) := by unfold Kept; infer_instance

theorem kept_symm {pc : Bool} {a b c : Pt} (h : Kept pc a b c) : Kept pc c b a := by
  unfold Kept at *; rw [removable_symm]; exact h

/-- every node visited since the last restart (`done`, most recent first) survives the removal test with
respect to its neighbours in the ring `done.reverse ++ todo`; read on the reversed ring
`next :: done ++ [last]`. -/
def Inv (pc : Bool) (done todo : List Pt) : Prop :=
  ∀ nx lst, (todo ++ done.reverse).head? = some nx → (done.reverse ++ todo).getLast? = some lst →
    LinTriples (Kept pc) (nx :: done ++ [lst])

theorem nextOf_spec (done rest : List Pt) (cur : Pt) :
    (rest ++ (cur :: done).reverse).head? = some (nextOf done rest cur) := by
  cases rest with
  | cons q _ => simp [nextOf]
  | nil =>
    simp only [List.nil_append, List.head?_reverse, nextOf]
    cases done with
    | nil => simp
    | cons d ds =>
      rw [List.getLastD_eq_getLast?, List.getLast?_eq_some_getLast (List.cons_ne_nil cur (d :: ds)),
        List.getLast?_eq_some_getLast (List.cons_ne_nil d ds)]
      simp

theorem prevOf_spec (done rest : List Pt) (cur lst : Pt)
    (h : (done.reverse ++ cur :: rest).getLast? = some lst) :
    (done ++ [lst]).head? = some (prevOf done (cur :: rest) cur) := by
  cases done with
  | cons d ds => simp [prevOf]
  | nil =>
    simp only [List.reverse_nil, List.nil_append] at h
    simp [prevOf, List.getLastD_eq_getLast?, h]

theorem inv_nil (pc : Bool) (todo : List Pt) : Inv pc [] todo := by
  intro nx lst _ _; simp [LinTriples]

theorem inv_advance (pc : Bool) (done rest : List Pt) (cur : Pt) (hinv : Inv pc done (cur :: rest))
    (hk : removable pc (prevOf done (cur :: rest) cur) cur (nextOf done rest cur) = false) :
    Inv pc (cur :: done) rest := by
  intro nx lst h1 h2
  have e : (cur :: done).reverse ++ rest = done.reverse ++ cur :: rest := by simp
  rw [e] at h2
  have I := hinv cur lst (by simp) h2
  have hn := nextOf_spec done rest cur
  rw [h1] at hn
  have hnx : nx = nextOf done rest cur := by simpa using hn
  have hp := prevOf_spec done rest cur lst h2
  subst hnx
  have hk' : Kept pc (nextOf done rest cur) cur (prevOf done (cur :: rest) cur) := kept_symm hk
  cases done with
  | nil =>
    simp only [List.nil_append, List.head?_cons, Option.some.injEq] at hp
    simp only [List.cons_append, List.nil_append, LinTriples, and_true]
    rw [hp]; exact hk'
  | cons d ds =>
    simp only [List.cons_append, List.head?_cons, Option.some.injEq] at hp
    simp only [List.cons_append, LinTriples] at I ⊢
    rw [hp]; exact ⟨hk', I⟩

theorem inv_final (pc : Bool) (done : List Pt) (hne : done ≠ []) (hinv : Inv pc done []) :
    CycTriples (Kept pc) done.reverse := by
  rw [cycTriples_reverse]
  apply cycTriples_mono (P := Kept pc) (fun a b c h => kept_symm h)
  cases done with
  | nil => exact absurd rfl hne
  | cons d ds =>
    have := hinv ((d :: ds).getLast (List.cons_ne_nil _ _)) d
      (by rw [List.nil_append, List.head?_reverse, List.getLast?_eq_some_getLast (List.cons_ne_nil d ds)])
      (by simp)
    exact this

theorem cleanLoop_inv (pc : Bool) : ∀ (fuel : Nat) (done todo : List Pt) (pts : Nat) (r : Ring),
    isValidClosedPath (done.reverse ++ todo) = true → Inv pc done todo →
    cleanLoop pc fuel done todo pts = some (some r) →
    isValidClosedPath r = true ∧ CycTriples (Kept pc) r ∧ r.length ≤ done.length + todo.length ∧
      ∀ x, r.count x ≤ done.count x + todo.count x := by
  intro fuel
  induction fuel with
  | zero => intro done todo pts r _ _ h; simp [cleanLoop] at h
  | succ fuel ih =>
    intro done todo pts r hv hinv h
    cases todo with
    | nil =>
      rw [cleanLoop_nil] at h
      simp only [Option.some.injEq] at h
      subst h
      rw [List.append_nil] at hv
      have hne : done ≠ [] := by
        intro e; subst e; simp [isValidClosedPath] at hv
      refine ⟨isValid_rotl _ _ hv, cycTriples_rotl _ _ _ (inv_final pc done hne hinv), ?_, ?_⟩
      · rw [length_rotl]; simp
      · intro x; rw [count_rotl]; simp
    | cons cur rest =>
      rw [cleanLoop_cons] at h
      split at h
      · split at h
        · simp at h
        · rename_i hv'
          have hv2 : isValidClosedPath ([].reverse ++ (rest ++ done.reverse)) = true := by
            simpa using hv'
          obtain ⟨h1, h2, h3, h4⟩ := ih [] (rest ++ done.reverse) _ r hv2 (inv_nil pc _) h
          refine ⟨h1, h2, ?_, ?_⟩
          · simp only [List.length_nil, List.length_append, List.length_reverse, List.length_cons] at h3 ⊢
            omega
          · intro x
            have := h4 x
            simp only [List.count_nil, List.count_append, List.count_reverse, List.count_cons] at this ⊢
            omega
      · rename_i hk
        have hk' : removable pc (prevOf done (cur :: rest) cur) cur (nextOf done rest cur) = false := by
          simpa using hk
        have hv2 : isValidClosedPath ((cur :: done).reverse ++ rest) = true := by
          have e : (cur :: done).reverse ++ rest = done.reverse ++ cur :: rest := by simp
          rw [e]; exact hv
        obtain ⟨h1, h2, h3, h4⟩ := ih (cur :: done) rest pts r hv2 (inv_advance pc done rest cur hinv hk') h
        refine ⟨h1, h2, ?_, ?_⟩
        · simp only [List.length_cons] at h3 ⊢; omega
        · intro x
          have := h4 x
          simp only [List.count_cons] at this ⊢
          omega

/-! ## `pushDedup` and `buildPath64` -/

theorem mem_pushDedup (x : Pt) : ∀ (ss : List Pt) (s : Pt), x ∈ pushDedup s ss → x ∈ ss := by
  intro ss
  induction ss with
  | nil => intro s h; simp [pushDedup] at h
  | cons p ps ih =>
    intro s h
    simp only [pushDedup] at h
    split at h
    · rcases List.mem_cons.mp h with h | h
      · exact h ▸ List.mem_cons_self
      · exact List.mem_cons_of_mem _ (ih _ h)
    · exact List.mem_cons_of_mem _ (ih _ h)

theorem linPairs_pushDedup : ∀ (ss : List Pt) (s : Pt), LinPairs (fun a b => a ≠ b) (s :: pushDedup s ss) := by
  intro ss
  induction ss with
  | nil => intro s; simp [pushDedup, LinPairs]
  | cons p ps ih =>
    intro s
    simp only [pushDedup]
    split
    · rename_i hne
      simp only [LinPairs]
      exact ⟨fun e => hne e.symm, ih p⟩
    · exact ih s

theorem pushDedup_eq_self : ∀ (ss : List Pt) (s : Pt), LinPairs (fun a b => a ≠ b) (s :: ss) →
    pushDedup s ss = ss := by
  intro ss
  induction ss with
  | nil => intro s _; rfl
  | cons p ps ih =>
    intro s h
    simp only [LinPairs] at h
    simp only [pushDedup]
    rw [if_pos (fun e => h.1 e.symm), ih p h.2]

theorem length_pushDedup_le : ∀ (ss : List Pt) (s : Pt), (pushDedup s ss).length ≤ ss.length := by
  intro ss
  induction ss with
  | nil => intro s; simp [pushDedup]
  | cons p ps ih =>
    intro s
    simp only [pushDedup]
    split
    · simp only [List.length_cons]; have := ih p; omega
    · simp only [List.length_cons]; have := ih s; omega

/-- index reading of `LinPairs` -/
theorem linPairs_iff_getElem (Q : Pt → Pt → Prop) : ∀ l : List Pt,
    LinPairs Q l ↔ ∀ i (h : i + 1 < l.length), Q (l[i]'(by omega)) (l[i + 1]'h)
  | [] => by simp [LinPairs]
  | [a] => by simp [LinPairs]
  | a :: b :: rest => by
    simp only [LinPairs]
    rw [linPairs_iff_getElem Q (b :: rest)]
    constructor
    · intro ⟨h1, h2⟩ i hi
      cases i with
      | zero => exact h1
      | succ j => exact h2 j (by simpa using hi)
    · intro h
      exact ⟨h 0 (by simp), fun i hi => h (i + 1) (by simpa using hi)⟩

/-- index reading of `LinTriples` -/
theorem linTriples_iff_getElem (P : Pt → Pt → Pt → Prop) : ∀ l : List Pt,
    LinTriples P l ↔ ∀ i (h : i + 2 < l.length), P (l[i]'(by omega)) (l[i + 1]'(by omega)) (l[i + 2]'h)
  | [] => by simp [LinTriples]
  | [a] => by simp [LinTriples]
  | [a, b] => by
    simp only [LinTriples, true_iff]; intro i h; exact absurd h (by simp)
  | a :: b :: c :: rest => by
    simp only [LinTriples]
    rw [linTriples_iff_getElem P (b :: c :: rest)]
    constructor
    · intro ⟨h1, h2⟩ i hi
      cases i with
      | zero => exact h1
      | succ j => exact h2 j (by simpa using hi)
    · intro h
      exact ⟨h 0 (by simp), fun i hi => h (i + 1) (by simpa using hi)⟩

/-- what `buildPath64` returns on a ring without equal cyclic neighbours (when it does not reject it) -/
def builtPath (ring : Ring) (reverse : Bool) : Path :=
  if reverse then
    match ring with
    | [] => []
    | op :: rest => op :: rest.reverse
  else rotl ring 1

theorem rotl_one (a b : Pt) (rest : List Pt) : rotl (a :: b :: rest) 1 = b :: rest ++ [a] := by
  unfold rotl
  have : 1 % (a :: b :: rest).length = 1 := Nat.mod_eq_of_lt (by simp)
  rw [this]; simp

theorem buildPath_unfold (op a : Pt) (rest : List Pt) (rev isOpen : Bool) :
    buildPath64 (op :: a :: rest) rev isOpen =
      if (!isOpen && (a :: rest).length == 1) = true then none
      else
        let ring' : Ring := if rev then op :: a :: rest else (a :: rest) ++ [op]
        let seq : List Pt := if rev then op :: (a :: rest).reverse else (a :: rest) ++ [op]
        match seq with
        | [] => none
        | s :: ss =>
          let path := s :: pushDedup s ss
          if (!isOpen && path.length == 3 && isVerySmallTriangle ring') = true then none else some path := rfl

theorem buildPath_fwd (op a : Pt) (rest : List Pt) (isOpen : Bool) :
    buildPath64 (op :: a :: rest) false isOpen =
      if (!isOpen && (a :: rest).length == 1) = true then none
      else if (!isOpen && (a :: pushDedup a (rest ++ [op])).length == 3 &&
          isVerySmallTriangle (a :: rest ++ [op])) = true then none
      else some (a :: pushDedup a (rest ++ [op])) := rfl

theorem buildPath_rev (op a : Pt) (rest : List Pt) (isOpen : Bool) :
    buildPath64 (op :: a :: rest) true isOpen =
      if (!isOpen && (a :: rest).length == 1) = true then none
      else if (!isOpen && (op :: pushDedup op (a :: rest).reverse).length == 3 &&
          isVerySmallTriangle (op :: a :: rest)) = true then none
      else some (op :: pushDedup op (a :: rest).reverse) := rfl

theorem buildPath_shape_aux (ring : Ring) (rev isOpen : Bool) (p : Path)
    (h : buildPath64 ring rev isOpen = some p) :
    p ≠ [] ∧ (∀ x, x ∈ p → x ∈ ring) ∧ LinPairs (fun a b => a ≠ b) p ∧ p.length ≤ ring.length ∧
      ring.length ≥ 2 ∧ (isOpen = false → ring.length ≥ 3) := by
  match ring, h with
  | [], h => simp [buildPath64] at h
  | [_], h => simp [buildPath64] at h
  | op :: a :: rest, h =>
    have hlen : isOpen = false → (op :: a :: rest).length ≥ 3 := by
      intro ho; subst ho
      cases rest with
      | nil => cases rev <;> simp [buildPath_fwd, buildPath_rev] at h
      | cons _ _ => simp
    cases rev with
    | false =>
      rw [buildPath_fwd] at h
      split at h
      · simp at h
      · split at h
        · simp at h
        · simp only [Option.some.injEq] at h
          subst h
          refine ⟨by simp, ?_, linPairs_pushDedup _ _, ?_, by simp, hlen⟩
          · intro x hx
            rcases List.mem_cons.mp hx with hx | hx
            · subst hx; simp
            · have := mem_pushDedup x _ _ hx
              simp only [List.mem_append, List.mem_cons, List.not_mem_nil, or_false] at this ⊢
              rcases this with h | h
              · exact Or.inr (Or.inr h)
              · exact Or.inl h
          · have := length_pushDedup_le (rest ++ [op]) a
            simp only [List.length_cons, List.length_append, List.length_nil] at this ⊢; omega
    | true =>
      rw [buildPath_rev] at h
      split at h
      · simp at h
      · split at h
        · simp at h
        · simp only [Option.some.injEq] at h
          subst h
          refine ⟨by simp, ?_, linPairs_pushDedup _ _, ?_, by simp, hlen⟩
          · intro x hx
            rcases List.mem_cons.mp hx with hx | hx
            · subst hx; simp
            · have := mem_pushDedup x _ _ hx
              rw [List.mem_reverse] at this
              exact List.mem_cons_of_mem _ this
          · have := length_pushDedup_le (a :: rest).reverse op
            simp only [List.length_cons, List.length_reverse] at this ⊢; omega

theorem linPairs_append_left (Q : Pt → Pt → Prop) (m : List Pt) :
    ∀ l, LinPairs Q (l ++ m) → LinPairs Q l
  | [] => by simp [LinPairs]
  | [a] => by simp [LinPairs]
  | a :: b :: rest => by
    simp only [List.cons_append, LinPairs]
    exact fun ⟨h1, h2⟩ => ⟨h1, linPairs_append_left Q m (b :: rest) h2⟩

theorem cycPairs_mono {Q Q' : Pt → Pt → Prop} (h : ∀ a b, Q a b → Q' a b)
    (l : List Pt) : CycPairs Q l → CycPairs Q' l := by
  cases l with
  | nil => simp [CycPairs]
  | cons a rest => exact linPairs_mono h _

theorem builtPath_rev_eq (op : Pt) (rest : List Pt) :
    builtPath (op :: rest) true = (rest ++ [op]).reverse := by simp [builtPath]

theorem builtPath_perm (ring : Ring) (rev : Bool) : (builtPath ring rev).Perm ring := by
  cases rev with
  | false => exact rotl_perm ring 1
  | true =>
    cases ring with
    | nil => simp [builtPath]
    | cons op rest =>
      simp only [builtPath, if_true]
      exact List.Perm.cons _ (List.reverse_perm _)

theorem length_builtPath (ring : Ring) (rev : Bool) : (builtPath ring rev).length = ring.length :=
  (builtPath_perm ring rev).length_eq
theorem mem_builtPath (ring : Ring) (rev : Bool) (x : Pt) : x ∈ builtPath ring rev ↔ x ∈ ring :=
  (builtPath_perm ring rev).mem_iff

theorem cycTriples_builtPath_fwd (P : Pt → Pt → Pt → Prop) (ring : Ring) (h : CycTriples P ring) :
    CycTriples P (builtPath ring false) := cycTriples_rotl P ring 1 h

theorem cycTriples_builtPath_rev (P : Pt → Pt → Pt → Prop) (ring : Ring) (h : CycTriples P ring) :
    CycTriples (fun a b c => P c b a) (builtPath ring true) := by
  cases ring with
  | nil => simp [builtPath, CycTriples]
  | cons op rest =>
    rw [builtPath_rev_eq, cycTriples_reverse]
    exact cycTriples_rot1 P op rest h

theorem cycNoDup_builtPath (ring : Ring) (rev : Bool) (h : CycNoDup ring) : CycNoDup (builtPath ring rev) := by
  unfold CycNoDup at *
  cases rev with
  | false => exact cycPairs_rotl _ ring 1 h
  | true =>
    cases ring with
    | nil => simp [builtPath, CycPairs]
    | cons op rest =>
      rw [builtPath_rev_eq, cycPairs_reverse]
      exact cycPairs_mono (fun a b hab => Ne.symm hab) _ (cycPairs_rot1 _ op rest h)

theorem buildPath_of_clean_aux (ring : Ring) (rev : Bool) (h3 : ring.length ≥ 3) (hc : CycNoDup ring) :
    buildPath64 ring rev false =
      if ring.length = 3 ∧ isVerySmallTriangle ring = true then none else some (builtPath ring rev) := by
  match ring, h3 with
  | op :: a :: b :: rest, _ =>
    have hc' : LinPairs (fun a b => a ≠ b) (op :: a :: b :: rest ++ [op]) := hc
    cases rev with
    | false =>
      have hp : pushDedup a (b :: rest ++ [op]) = b :: rest ++ [op] := by
        apply pushDedup_eq_self
        simp only [List.cons_append, LinPairs] at hc' ⊢
        exact hc'.2
      rw [buildPath_fwd, hp]
      have e : builtPath (op :: a :: b :: rest) false = a :: (b :: rest ++ [op]) := by
        simp only [builtPath]; rw [rotl_one]; simp
      rw [e]
      cases rest with
      | nil =>
        have := isVST_rot3 op a b
        simp only [List.cons_append, List.nil_append] at this ⊢
        simp [this]
      | cons c rest' => simp
    | true =>
      have hp : pushDedup op (a :: b :: rest).reverse = (a :: b :: rest).reverse := by
        apply pushDedup_eq_self
        have h1 := (linPairs_reverse _ _).mpr
          (linPairs_mono (Q' := fun x y => (fun a b : Pt => a ≠ b) y x) (fun a b hab => Ne.symm hab) _ hc')
        have e : (op :: a :: b :: rest ++ [op]).reverse = (op :: (a :: b :: rest).reverse) ++ [op] := by simp
        rw [e] at h1
        exact linPairs_append_left _ _ _ h1
      rw [buildPath_rev, hp]
      have e : builtPath (op :: a :: b :: rest) true = op :: (a :: b :: rest).reverse := by
        simp [builtPath]
      rw [e]
      cases rest with
      | nil => simp
      | cons c rest' => simp

/-! ## index readings of the cyclic predicates -/

theorem getElem_snoc_head_succ (a : Pt) (rest : List Pt) (i : Nat) (h : i < (a :: rest).length) :
    ((a :: rest) ++ [a])[i + 1]'(by simp at h ⊢; omega) =
      (a :: rest)[(i + 1) % (a :: rest).length]'(Nat.mod_lt _ (by simp)) := by
  by_cases h1 : i + 1 < (a :: rest).length
  · have e : (i + 1) % (a :: rest).length = i + 1 := Nat.mod_eq_of_lt h1
    simp only [e]
    exact List.getElem_append_left h1
  · have e : i + 1 = (a :: rest).length := by omega
    have e2 : (i + 1) % (a :: rest).length = 0 := by rw [e]; exact Nat.mod_self _
    simp only [e2]
    rw [List.getElem_append_right (by omega)]
    simp [e]

/-- index reading of `CycPairs`: `Q r[i] r[(i+1) % n]` for every `i < n` -/
theorem cycPairs_iff_getElem (Q : Pt → Pt → Prop) (r : List Pt) :
    CycPairs Q r ↔ ∀ i (h : i < r.length),
      Q r[i] (r[(i + 1) % r.length]'(Nat.mod_lt _ (by omega))) := by
  cases r with
  | nil => simp [CycPairs]
  | cons a rest =>
    show LinPairs Q (a :: rest ++ [a]) ↔ _
    rw [linPairs_iff_getElem]
    constructor
    · intro H i h
      have := H i (by simp at h ⊢; omega)
      rw [getElem_snoc_head_succ a rest i h, List.getElem_append_left h] at this
      exact this
    · intro H i h
      have hi : i < (a :: rest).length := by simp at h ⊢; omega
      have := H i hi
      rw [getElem_snoc_head_succ a rest i hi, List.getElem_append_left hi]
      exact this

/-- index reading of `CycNoDup` -/
theorem cycNoDup_iff_getElem (r : List Pt) :
    CycNoDup r ↔ ∀ i (h : i < r.length), r[i] ≠ r[(i + 1) % r.length]'(Nat.mod_lt _ (by omega)) :=
  cycPairs_iff_getElem _ r

theorem getElem_pred_cyc (a : Pt) (rest : List Pt) (i : Nat) (h : i < (a :: rest).length) :
    ((a :: rest).getLast (List.cons_ne_nil _ _) :: (a :: rest))[i]'(by simp at h ⊢; omega) =
      (a :: rest)[(i + (a :: rest).length - 1) % (a :: rest).length]'(Nat.mod_lt _ (by simp)) := by
  cases i with
  | zero =>
    have e : (0 + (a :: rest).length - 1) % (a :: rest).length = (a :: rest).length - 1 := by
      rw [Nat.zero_add]; exact Nat.mod_eq_of_lt (by simp)
    simp only [e]
    rw [List.getLast_eq_getElem]; rfl
  | succ j =>
    have e : (j + 1 + (a :: rest).length - 1) % (a :: rest).length = j := by
      have : j + 1 + (a :: rest).length - 1 = j + (a :: rest).length := by omega
      rw [this, Nat.add_mod_right]; exact Nat.mod_eq_of_lt (by omega)
    simp only [e]
    rfl

/-- index reading of `CycTriples`: `P r[(i-1) mod n] r[i] r[(i+1) mod n]` for every `i < n` -/
theorem cycTriples_iff_getElem (P : Pt → Pt → Pt → Prop) (r : List Pt) :
    CycTriples P r ↔ ∀ i (h : i < r.length),
      P (r[(i + r.length - 1) % r.length]'(Nat.mod_lt _ (by omega))) r[i]
        (r[(i + 1) % r.length]'(Nat.mod_lt _ (by omega))) := by
  cases r with
  | nil => simp [CycTriples]
  | cons a rest =>
    show LinTriples P ((a :: rest).getLast _ :: a :: rest ++ [a]) ↔ _
    rw [linTriples_iff_getElem]
    have key : ∀ i (hi : i < (a :: rest).length),
        P (((a :: rest).getLast (List.cons_ne_nil _ _) :: a :: rest ++ [a])[i]'(by simp at hi ⊢; omega))
          (((a :: rest).getLast (List.cons_ne_nil _ _) :: a :: rest ++ [a])[i + 1]'(by simp at hi ⊢; omega))
          (((a :: rest).getLast (List.cons_ne_nil _ _) :: a :: rest ++ [a])[i + 2]'(by simp at hi ⊢; omega)) ↔
        P ((a :: rest)[(i + (a :: rest).length - 1) % (a :: rest).length]'(Nat.mod_lt _ (by simp)))
          (a :: rest)[i]
          ((a :: rest)[(i + 1) % (a :: rest).length]'(Nat.mod_lt _ (by simp))) := by
      intro i hi
      have e1 : ((a :: rest).getLast (List.cons_ne_nil _ _) :: a :: rest ++ [a])[i]'(by simp at hi ⊢; omega)
          = (a :: rest)[(i + (a :: rest).length - 1) % (a :: rest).length]'(Nat.mod_lt _ (by simp)) := by
        rw [← getElem_pred_cyc a rest i hi]
        show ((_ :: (a :: rest)) ++ [a])[i]'_ = _
        exact List.getElem_append_left (by simp at hi ⊢; omega)
      have e2 : ((a :: rest).getLast (List.cons_ne_nil _ _) :: a :: rest ++ [a])[i + 1]'(by simp at hi ⊢; omega)
          = (a :: rest)[i] := by
        show ((a :: rest) ++ [a])[i]'_ = _
        exact List.getElem_append_left hi
      have e3 : ((a :: rest).getLast (List.cons_ne_nil _ _) :: a :: rest ++ [a])[i + 2]'(by simp at hi ⊢; omega)
          = (a :: rest)[(i + 1) % (a :: rest).length]'(Nat.mod_lt _ (by simp)) := by
        rw [← getElem_snoc_head_succ a rest i hi]; rfl
      rw [e1, e2, e3]
    constructor
    · intro H i h
      exact (key i h).mp (H i (by simp at h ⊢; omega))
    · intro H i h
      have hi : i < (a :: rest).length := by simp at h ⊢; omega
      exact (key i hi).mpr (H i hi)

/-! ## the hypothesis on `FixSelfIntersects` -/

/-- `FixSelfIntersects`, applied to a ring of at least three nodes without equal cyclic neighbours, does not
create equal cyclic neighbours (whenever it leaves a ring of at least three nodes). -/
def FixOk (fix : Ring → Option Ring) : Prop :=
  ∀ r r', r.length ≥ 3 → CycNoDup r → fix r = some r' → r'.length ≥ 3 → CycNoDup r'

theorem fixOk_some : FixOk some := by
  intro r r' _ hc h _; cases h; exact hc

/-- a ring whose nodes all survive the removal test has no equal cyclic neighbours -/
theorem cycNoDup_of_kept (pc : Bool) (r : Ring) (h : CycTriples (Kept pc) r) : CycNoDup r := by
  unfold CycNoDup
  rw [cycPairs_iff_cycTriples]
  exact cycTriples_mono (fun a b c hk => (removable_false_ne hk).2) r h

/-- the removal test is mirror symmetric, so "all nodes kept" transfers to the built path in both directions -/
theorem cycTriples_kept_builtPath (pc : Bool) (ring : Ring) (rev : Bool) (h : CycTriples (Kept pc) ring) :
    CycTriples (Kept pc) (builtPath ring rev) := by
  cases rev with
  | false => exact cycTriples_builtPath_fwd _ ring h
  | true =>
    exact cycTriples_mono (fun a b c hk => kept_symm hk) _ (cycTriples_builtPath_rev _ ring h)

/-! ## a cleaned ring is not contained in a horizontal or vertical line -/

theorem removable_extreme_x (pc : Bool) {a b c : Pt} (hy1 : a.y = b.y) (hy2 : c.y = b.y)
    (ha : a.x ≤ b.x) (hc : c.x ≤ b.x) : removable pc a b c = true := by
  have hcol : isCollinear a b c = true := by rw [isCollinear_iff, hy1, hy2]; simp
  by_cases e1 : b = a
  · simp [removable, e1, isCollinear_left]
  by_cases e2 : b = c
  · simp [removable, e2, isCollinear_right]
  have h1 : a.x < b.x := by
    rcases Int.lt_or_eq_of_le ha with h | h
    · exact h
    · exact absurd (by cases a; cases b; simp_all) e1
  have h2 : c.x < b.x := by
    rcases Int.lt_or_eq_of_le hc with h | h
    · exact h
    · exact absurd (by cases c; cases b; simp_all) e2
  have hd : dot a b c < 0 := by
    unfold dot
    rw [hy2]; simp only [Int.sub_self, Int.mul_zero, Int.add_zero]
    exact Int.mul_neg_of_pos_of_neg (by omega) (by omega)
  simp [removable, hcol, hd]

theorem removable_extreme_y (pc : Bool) {a b c : Pt} (hx1 : a.x = b.x) (hx2 : c.x = b.x)
    (ha : a.y ≤ b.y) (hc : c.y ≤ b.y) : removable pc a b c = true := by
  have hcol : isCollinear a b c = true := by rw [isCollinear_iff, hx1, hx2]; simp
  by_cases e1 : b = a
  · simp [removable, e1, isCollinear_left]
  by_cases e2 : b = c
  · simp [removable, e2, isCollinear_right]
  have h1 : a.y < b.y := by
    rcases Int.lt_or_eq_of_le ha with h | h
    · exact h
    · exact absurd (by cases a; cases b; simp_all) e1
  have h2 : c.y < b.y := by
    rcases Int.lt_or_eq_of_le hc with h | h
    · exact h
    · exact absurd (by cases c; cases b; simp_all) e2
  have hd : dot a b c < 0 := by
    unfold dot
    rw [hx2]; simp only [Int.sub_self, Int.mul_zero, Int.zero_add]
    exact Int.mul_neg_of_pos_of_neg (by omega) (by omega)
  simp [removable, hcol, hd]

theorem exists_max (f : Pt → Int) : ∀ l : List Pt, l ≠ [] → ∃ m, m ∈ l ∧ ∀ p, p ∈ l → f p ≤ f m := by
  intro l
  induction l with
  | nil => intro h; exact absurd rfl h
  | cons a rest ih =>
    intro _
    cases rest with
    | nil => exact ⟨a, by simp, by intro p hp; simp at hp; subst hp; exact Int.le_refl _⟩
    | cons b rest' =>
      obtain ⟨m, hm, hmax⟩ := ih (by simp)
      by_cases h : f a ≤ f m
      · refine ⟨m, List.mem_cons_of_mem _ hm, ?_⟩
        intro p hp
        rcases List.mem_cons.mp hp with hp | hp
        · subst hp; exact h
        · exact hmax p hp
      · refine ⟨a, List.mem_cons_self, ?_⟩
        intro p hp
        rcases List.mem_cons.mp hp with hp | hp
        · subst hp; exact Int.le_refl _
        · have := hmax p hp; omega

/-- a ring all of whose nodes survive the removal test is not contained in a horizontal line -/
theorem kept_not_all_y (pc : Bool) (r : Ring) (hne : r ≠ []) (hk : CycTriples (Kept pc) r) (y0 : Int) :
    ¬ ∀ p, p ∈ r → p.y = y0 := by
  intro hall
  obtain ⟨m, hm, hmax⟩ := exists_max (fun p => p.x) r hne
  obtain ⟨i, hi, rfl⟩ := List.getElem_of_mem hm
  have hK := (cycTriples_iff_getElem _ r).mp hk i hi
  have hn : r.length > 0 := by omega
  have m1 := List.getElem_mem (l := r) (Nat.mod_lt (i + r.length - 1) hn)
  have m2 := List.getElem_mem (l := r) (Nat.mod_lt (i + 1) hn)
  have := removable_extreme_x pc (a := r[(i + r.length - 1) % r.length]'(Nat.mod_lt _ hn)) (b := r[i])
    (c := r[(i + 1) % r.length]'(Nat.mod_lt _ hn))
    (by rw [hall _ m1, hall _ hm]) (by rw [hall _ m2, hall _ hm]) (hmax _ m1) (hmax _ m2)
  unfold Kept at hK
  rw [this] at hK; exact absurd hK (by simp)

/-- a ring all of whose nodes survive the removal test is not contained in a vertical line -/
theorem kept_not_all_x (pc : Bool) (r : Ring) (hne : r ≠ []) (hk : CycTriples (Kept pc) r) (x0 : Int) :
    ¬ ∀ p, p ∈ r → p.x = x0 := by
  intro hall
  obtain ⟨m, hm, hmax⟩ := exists_max (fun p => p.y) r hne
  obtain ⟨i, hi, rfl⟩ := List.getElem_of_mem hm
  have hK := (cycTriples_iff_getElem _ r).mp hk i hi
  have hn : r.length > 0 := by omega
  have m1 := List.getElem_mem (l := r) (Nat.mod_lt (i + r.length - 1) hn)
  have m2 := List.getElem_mem (l := r) (Nat.mod_lt (i + 1) hn)
  have := removable_extreme_y pc (a := r[(i + r.length - 1) % r.length]'(Nat.mod_lt _ hn)) (b := r[i])
    (c := r[(i + 1) % r.length]'(Nat.mod_lt _ hn))
    (by rw [hall _ m1, hall _ hm]) (by rw [hall _ m2, hall _ hm]) (hmax _ m1) (hmax _ m2)
  unfold Kept at hK
  rw [this] at hK; exact absurd hK (by simp)

end Clipper.Lemmas.CleanUp
