/-
`ProcessHorzJoins` keeps a heap well formed (both branches, paths and polytree mode).
Helper file of `Props/C02Horz.lean`.  Core Lean only.
-/
import ClipperVerif.Lemmas.HorzJoinsSplit
namespace Clipper.Model.HorzJoins
open Clipper

/-- every ring of the listing `rs'` is a ring of `rs`, possibly listed from another node -/
def Relist (rs rs' : List (List Nat)) : Prop := ∀ c' ∈ rs', ∃ c ∈ rs, c'.Perm c

theorem Relist.refl (rs : List (List Nat)) : Relist rs rs := fun c hc => ⟨c, hc, List.Perm.refl _⟩

theorem Relist.trans {a b c : List (List Nat)} (h1 : Relist a b) (h2 : Relist b c) : Relist a c := by
  intro x hx
  obtain ⟨y, hy, p1⟩ := h2 x hx
  obtain ⟨z, hz, p2⟩ := h1 y hy
  exact ⟨z, hz, p1.trans p2⟩

/-- `RecsOK` does not depend on how the rings are listed -/
theorem RecsOK.relist {H : Heap} {rs rs' : List (List Nat)} (K : RecsOK H rs) (h : Relist rs rs') : RecsOK H rs' := by
  constructor
  · intro c' hc'
    obtain ⟨c, hc, hm⟩ := h c' hc'
    obtain ⟨r, p, a, b, d⟩ := K.ring_rec c hc
    exact ⟨r, p, a, hm.mem_iff.2 b, fun i hi => d i (hm.mem_iff.1 hi)⟩
  · exact K.rec_ring

theorem Rings.focus_relist {H : Heap} {rs : List (List Nat)} (R : Rings H rs) {x : Nat} (hx : x < H.ops.size) :
    ∃ t rest, Rings H ((x :: t) :: rest) ∧ Relist rs ((x :: t) :: rest) := by
  obtain ⟨c, hc, hxc⟩ := R.exists_ring hx
  obtain ⟨A, B, rfl⟩ := List.append_of_mem hc
  obtain ⟨pre, post, rfl⟩ := List.append_of_mem hxc
  have h1 : Rings H ((pre ++ x :: post) :: (A ++ B)) := R.perm' List.perm_middle
  have h2 := h1.rot_head
  refine ⟨post ++ pre, A ++ B, by simpa using h2, ?_⟩
  intro c' hc'
  rcases List.mem_cons.1 hc' with rfl | hc'
  · exact ⟨pre ++ x :: post, by simp, by
      have : x :: (post ++ pre) = (x :: post) ++ pre := by simp
      rw [this]; exact List.perm_append_comm⟩
  · exact ⟨c', by
      rcases List.mem_append.1 hc' with h | h
      · exact List.mem_append_left _ h
      · exact List.mem_append_right _ (List.mem_cons_of_mem _ h), List.Perm.refl _⟩

theorem Rings.focus2_relist {H : Heap} {rs : List (List Nat)} (R : Rings H rs) {x y : Nat} (hx : x < H.ops.size) (hy : y < H.ops.size)
    (hxy : x ≠ y) :
    (∃ X Y rest, Rings H ((x :: X ++ y :: Y) :: rest) ∧ Relist rs ((x :: X ++ y :: Y) :: rest)) ∨
    (∃ X Y rest, Rings H ((x :: X) :: (y :: Y) :: rest) ∧ Relist rs ((x :: X) :: (y :: Y) :: rest)) := by
  obtain ⟨t, rest, R1, L1⟩ := R.focus_relist hx
  by_cases hyt : y ∈ t
  · left
    obtain ⟨X, Y, rfl⟩ := List.append_of_mem hyt
    exact ⟨X, Y, rest, by simpa using R1, by simpa using L1⟩
  · right
    have hyf : y ∈ ((x :: t) :: rest).flatten := R1.perm.mem_iff.2 (List.mem_range.2 hy)
    have hyr : y ∈ rest.flatten := by
      simp only [List.flatten_cons, List.mem_append, List.mem_cons] at hyf
      rcases hyf with (h | h) | h
      · exact absurd h.symm hxy
      · exact absurd h hyt
      · exact h
    obtain ⟨c, hc, hyc⟩ := List.mem_flatten.1 hyr
    obtain ⟨A, B, rfl⟩ := List.append_of_mem hc
    obtain ⟨pre, post, rfl⟩ := List.append_of_mem hyc
    have p1 : ((x :: t) :: (A ++ (pre ++ y :: post) :: B)).Perm ((pre ++ y :: post) :: (x :: t) :: (A ++ B)) := by
      have : (A ++ (pre ++ y :: post) :: B).Perm ((pre ++ y :: post) :: (A ++ B)) := List.perm_middle
      exact (List.Perm.cons _ this).trans (List.Perm.swap _ _ _)
    have R2 := (R1.perm' p1).rot_head
    have p2 : ((y :: post ++ pre) :: (x :: t) :: (A ++ B)).Perm ((x :: t) :: (y :: (post ++ pre)) :: (A ++ B)) := by
      have : (y :: post ++ pre) = y :: (post ++ pre) := by simp
      rw [this]; exact List.Perm.swap _ _ _
    refine ⟨t, post ++ pre, A ++ B, R2.perm' p2, L1.trans ?_⟩
    intro c' hc'
    simp only [List.mem_cons, List.mem_append] at hc'
    rcases hc' with rfl | rfl | h | h
    · exact ⟨x :: t, by simp, List.Perm.refl _⟩
    · exact ⟨pre ++ y :: post, by simp, by
        have : y :: (post ++ pre) = (y :: post) ++ pre := by simp
        rw [this]; exact List.perm_append_comm⟩
    · exact ⟨c', by simp [h], List.Perm.refl _⟩
    · exact ⟨c', by simp [h], List.Perm.refl _⟩

/-- **one iteration of `ProcessHorzJoins` keeps a heap well formed**, in paths and in polytree mode, whatever
`Path1InsidePath2` answers — provided the join is not the degenerate one with `op1->next == op2` (after which two records would
share one ring). -/
theorem processJoin_wf {inside : List Pt → List Pt → Bool} {tree : Bool} {H H' : Heap} {j : HorzJoin}
    (W : WF H) (h1 : j.op1 < H.ops.size) (h2 : j.op2 < H.ops.size) (hne : j.op1 ≠ j.op2)
    (hnd : nextOf H j.op1 ≠ some j.op2) (h : processJoin inside tree H j = .ok H') : WF H' := by
  obtain ⟨rs, R, K⟩ := W
  rcases R.focus2_relist h1 h2 hne with ⟨X, Y, rest, R1, L⟩ | ⟨X, Y, rest, R1, L⟩
  · cases X with
    | nil =>
      exfalso
      have := (R1.ring _ (by simp)).next_head (a := j.op1) (b := j.op2) (t := Y)
      exact hnd this.1
    | cons x0 X' =>
      have K1 := K.relist L
      exact ⟨_, (processJoin_split_rings R1 (by simp) h).1, processJoin_split_wf R1 K1 h⟩
  · have K1 := K.relist L
    exact ⟨_, (processJoin_merge_rings R1 h).1, processJoin_merge_wf R1 K1 h⟩

/-- no join of the list is degenerate when its turn comes -/
def NonDegenerate (inside : List Pt → List Pt → Bool) (tree : Bool) : Heap → List HorzJoin → Prop
  | _, [] => True
  | H, j :: js => nextOf H j.op1 ≠ some j.op2 ∧ ∀ H1, processJoin inside tree H j = .ok H1 → NonDegenerate inside tree H1 js

/-- **`ProcessHorzJoins` keeps a heap well formed** -/
theorem processHorzJoins_wf {inside : List Pt → List Pt → Bool} {tree : Bool} :
    ∀ (js : List HorzJoin) (H H' : Heap), WF H → JoinsOK H js → NonDegenerate inside tree H js →
      processHorzJoins inside tree H js = .ok H' → WF H'
  | [], H, H', W, _, _, h => by simp only [processHorzJoins, Except.ok.injEq] at h; subst h; exact W
  | j :: js, H, H', W, ok, nd, h => by
    unfold processHorzJoins at h
    cases h1 : processJoin inside tree H j with
    | error e => simp [h1] at h
    | ok H1 =>
      simp only [h1] at h
      obtain ⟨hv1, hv2, hne⟩ := ok.2.2 j (by simp)
      have W1 := processJoin_wf W hv1 hv2 hne nd.1 h1
      obtain ⟨rs, R, _⟩ := W
      obtain ⟨_, _, _, es1, _⟩ := processJoin_keeps R hv1 hv2 hne h1
      have ok1 : JoinsOK H1 js := by
        refine ⟨?_, ?_, ?_⟩
        · have := ok.1; simp only [List.map_cons, List.nodup_cons] at this; exact this.2
        · have := ok.2.1; simp only [List.map_cons, List.nodup_cons] at this; exact this.2
        · intro m hm; rw [es1]; exact ok.2.2 m (List.mem_cons_of_mem _ hm)
      exact processHorzJoins_wf js H1 H' W1 ok1 (nd.2 H1 h1) h

end Clipper.Model.HorzJoins
