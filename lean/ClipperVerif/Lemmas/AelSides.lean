/-
Lemmas for the side-bookkeeping model (`Model/AelSides.lean`): the automaton view of the invariant, the Boolean cores of the
`IntersectEdges` decision, `Split`, and invariant preservation for every event.  Property theorems are in `Props/C11Sides.lean`.
-/
import ClipperVerif.Model.AelSides
import ClipperVerif.Props.C01
namespace Clipper.Model
open Clipper

/-! ## list surgery -/

theorem getElem?_splice {α} (l : List α) (i : Nat) (a b : α) (rest : List α) (h : l.drop i = a :: b :: rest)
    (a' b' : α) (k : Nat) :
    (l.take i ++ a' :: b' :: rest)[k]? = if k = i then some a' else if k = i + 1 then some b' else l[k]? := by
  have hl : l = l.take i ++ a :: b :: rest := by rw [← h, List.take_append_drop]
  have hlen : (l.take i).length = i := by
    have : i < l.length := by
      apply Decidable.byContradiction; intro hc
      rw [List.drop_eq_nil_of_le (by omega)] at h; cases h
    simp [List.length_take]; omega
  conv => rhs; rw [hl]
  simp only [List.getElem?_append, hlen]
  by_cases h1 : k < i
  · have e1 : k ≠ i := by omega
    have e2 : k ≠ i + 1 := by omega
    simp [h1, e1, e2]
  · simp only [h1, if_false]
    by_cases h2 : k = i
    · subst h2; simp
    · by_cases h3 : k = i + 1
      · subst h3; simp
      · simp only [h2, h3, if_false]
        obtain ⟨m, rfl⟩ : ∃ m, k = i + 2 + m := ⟨k - i - 2, by omega⟩
        have : i + 2 + m - i = m + 2 := by omega
        simp [this]

theorem drop_lt_length {α} (l : List α) (i : Nat) (a : α) (tl : List α) (h : l.drop i = a :: tl) : i < l.length := by
  apply Decidable.byContradiction; intro hc
  rw [List.drop_eq_nil_of_le (by omega)] at h; cases h

theorem take_length_of_drop {α} (l : List α) (i : Nat) (a : α) (tl : List α) (h : l.drop i = a :: tl) :
    (l.take i).length = i := by
  have := drop_lt_length l i a tl h
  simp [List.length_take]; omega

/-- a decomposition `l = pre ++ tl` is the `take`/`drop` at `pre.length` -/
theorem take_drop_of_append {α} (pre tl : List α) : (pre ++ tl).take pre.length = pre ∧ (pre ++ tl).drop pre.length = tl := by
  simp

/-! ## the invariant as three automata over the list -/

/-- state of the join automaton after a prefix (`none` = the prefix is already ill-formed) -/
def joinRun : Bool → List SEdge → Option Bool
  | p, [] => some p
  | p, x :: xs =>
    if p then (if x.join = .left then joinRun false xs else none)
    else
      match x.join with
      | .none => joinRun false xs
      | .right => joinRun true xs
      | .left => none

theorem joinOK_append (xs ys : List SEdge) : ∀ p, joinOKFrom p (xs ++ ys) =
    match joinRun p xs with
    | some q => joinOKFrom q ys
    | none => false := by
  induction xs with
  | nil => intro p; simp [joinRun]
  | cons x xs ih =>
    intro p
    cases p <;> cases hj : x.join <;> simp [joinOKFrom, joinRun, hj, ih]

theorem joinRun_append (xs ys : List SEdge) : ∀ p, joinRun p (xs ++ ys) =
    match joinRun p xs with
    | some q => joinRun q ys
    | none => none := by
  induction xs with
  | nil => intro p; simp [joinRun]
  | cons x xs ih =>
    intro p
    cases p <;> cases hj : x.join <;> simp [joinRun, hj, ih]

/-- the state after a well-formed prefix says whether its last edge is joined to the right -/
theorem joinRun_last (xs : List SEdge) (p q : Bool) (h : joinRun p xs = some q) :
    q = match xs.getLast? with
        | some x => x.join == .right
        | none => p := by
  rcases List.eq_nil_or_concat xs with rfl | ⟨ys, y, rfl⟩
  · simp [joinRun] at h; simp [h]
  · rw [List.concat_eq_append] at h ⊢
    rw [joinRun_append] at h
    simp only [List.getLast?_append, List.getLast?_singleton]
    cases h1 : joinRun p ys with
    | none => simp [h1] at h
    | some p1 =>
      simp only [h1] at h
      cases p1 <;> cases hj : y.join <;> simp [joinRun, hj] at h <;> simp [h, hj]

/-- state of the alternation automaton after a prefix: the side expected of the next hot closed edge -/
def altRun : Bool → List SEdge → Option Bool
  | b, [] => some b
  | b, x :: xs =>
    match tracked x with
    | some f => if f = b then altRun (!b) xs else none
    | none => altRun b xs

theorem alt_append (xs ys : List SEdge) : ∀ b, altFrom b (xs ++ ys) =
    match altRun b xs with
    | some q => altFrom q ys
    | none => false := by
  induction xs with
  | nil => intro b; simp [altRun]
  | cons x xs ih =>
    intro b
    cases ht : tracked x with
    | none => simp [altFrom, altRun, ht, ih]
    | some f =>
      by_cases hf : f = b
      · simp [altFrom, altRun, ht, ih, hf]
      · simp [altFrom, altRun, ht, hf]

theorem prevHot_append (xs ys : List SEdge) : prevHot (xs ++ ys) =
    match prevHot xs with
    | some f => some f
    | none => prevHot ys := by
  induction xs with
  | nil => simp [prevHot]
  | cons x xs ih =>
    cases ht : tracked x <;> simp [prevHot, ht, ih]

/-- **what `GetPrevHotEdge` + `OutrecIsAscending` see**: after a well-formed prefix the expected side is the opposite of the nearest hot
closed edge's side (and the start value when there is none) -/
theorem altRun_prevHot (pre : List SEdge) : ∀ b q, altRun b pre = some q →
    q = match prevHot pre.reverse with
        | some pf => !pf
        | none => b := by
  induction pre with
  | nil => intro b q h; simp [altRun] at h; simp [prevHot, h]
  | cons x xs ih =>
    intro b q h
    rw [List.reverse_cons, prevHot_append]
    cases ht : tracked x with
    | none =>
      simp only [altRun, ht] at h
      have := ih b q h
      cases hp : prevHot xs.reverse <;> simp [hp] at this ⊢ <;> simp [prevHot, ht, this]
    | some f =>
      simp only [altRun, ht] at h
      split at h
      case isFalse => cases h
      case isTrue hf =>
        have := ih (!b) q h
        cases hp : prevHot xs.reverse <;> simp [hp] at this ⊢ <;> simp [prevHot, ht, this, hf]

/-! ## maps that keep the shape (base edge, join flag, side) of every edge: `JoinOutrecPaths` on third edges -/

def ShapePres (g : SEdge → SEdge) : Prop :=
  ∀ x, (g x).e = x.e ∧ (g x).join = x.join ∧ (g x).orec.map (·.front) = x.orec.map (·.front)

theorem shapePres_id : ShapePres id := fun _ => ⟨rfl, rfl, rfl⟩

theorem shapePres_relabel (B : Nat) (f : Bool) (A : Nat) : ShapePres (relabelFn B f A) := by
  intro x
  unfold relabelFn
  cases hr : x.orec with
  | none => simp [hr]
  | some r =>
    by_cases hc : r.id = B ∧ r.front = f
    · simp [hc]
    · simp [hc, hr]

theorem tracked_shape {g : SEdge → SEdge} (hg : ShapePres g) (x : SEdge) : tracked (g x) = tracked x := by
  obtain ⟨h1, _, h3⟩ := hg x
  simp only [tracked, h1]
  split
  · rfl
  · exact h3

theorem isSome_shape {g : SEdge → SEdge} (hg : ShapePres g) (x : SEdge) : (g x).orec.isSome = x.orec.isSome := by
  obtain ⟨_, _, h3⟩ := hg x
  have := congrArg Option.isSome h3
  simpa using this

theorem localOK_shape {g : SEdge → SEdge} (hg : ShapePres g) (x : SEdge) : localOK (g x) = localOK x := by
  obtain ⟨h1, h2, _⟩ := hg x
  have h4 := isSome_shape hg x
  have h5 : (g x).orec.isNone = x.orec.isNone := by
    cases h : (g x).orec <;> cases h' : x.orec <;> simp [h, h'] at h4 ⊢
  simp only [localOK, h1, h2, h4, h5]

theorem erase_map_shape {g : SEdge → SEdge} (hg : ShapePres g) (l : List SEdge) : erase (l.map g) = erase l := by
  simp only [erase, List.map_map]
  apply List.map_congr_left
  intro x _
  exact (hg x).1

theorem altFrom_map_shape {g : SEdge → SEdge} (hg : ShapePres g) (l : List SEdge) : ∀ b, altFrom b (l.map g) = altFrom b l := by
  induction l with
  | nil => intro b; rfl
  | cons x xs ih => intro b; simp only [List.map_cons, altFrom, tracked_shape hg, ih]

theorem altRun_map_shape {g : SEdge → SEdge} (hg : ShapePres g) (l : List SEdge) : ∀ b, altRun b (l.map g) = altRun b l := by
  induction l with
  | nil => intro b; rfl
  | cons x xs ih => intro b; simp only [List.map_cons, altRun, tracked_shape hg, ih]

theorem joinOKFrom_map_shape {g : SEdge → SEdge} (hg : ShapePres g) (l : List SEdge) : ∀ p, joinOKFrom p (l.map g) = joinOKFrom p l := by
  induction l with
  | nil => intro p; rfl
  | cons x xs ih => intro p; simp only [List.map_cons, joinOKFrom, (hg x).2.1, ih]

theorem joinRun_map_shape {g : SEdge → SEdge} (hg : ShapePres g) (l : List SEdge) : ∀ p, joinRun p (l.map g) = joinRun p l := by
  induction l with
  | nil => intro p; rfl
  | cons x xs ih => intro p; simp only [List.map_cons, joinRun, (hg x).2.1, ih]

theorem prevHot_map_shape {g : SEdge → SEdge} (hg : ShapePres g) (l : List SEdge) : prevHot (l.map g) = prevHot l := by
  induction l with
  | nil => rfl
  | cons x xs ih => simp only [List.map_cons, prevHot, tracked_shape hg, ih]

theorem all_localOK_map_shape {g : SEdge → SEdge} (hg : ShapePres g) (l : List SEdge) :
    (l.map g).all localOK = l.all localOK := by
  induction l with
  | nil => rfl
  | cons x xs ih => simp only [List.map_cons, List.all_cons, localOK_shape hg, ih]

theorem addLocalMaxFn_shape (ra rb : Rec) (g : SEdge → SEdge) (h : addLocalMaxFn ra rb = .ok g) : ShapePres g := by
  unfold addLocalMaxFn at h
  split at h
  · cases h
  · split at h
    · cases h; exact shapePres_id
    · split at h
      · cases h; exact shapePres_relabel _ _ _
      · cases h; exact shapePres_relabel _ _ _

theorem addLocalMaxFn_ok (ra rb : Rec) (h : ra.front ≠ rb.front) : ∃ g, addLocalMaxFn ra rb = .ok g := by
  unfold addLocalMaxFn
  simp only [h, if_false]
  split
  · exact ⟨_, rfl⟩
  · split <;> exact ⟨_, rfl⟩

/-! ## the invariant -/

/-- the part of the invariant that is about the new fields -/
def Side (l : List SEdge) : Prop :=
  l.all localOK = true ∧ joinOKFrom false l = true ∧ altFrom true l = true

/-- **the side invariant** of an AEL: the C01 invariant on the erased list; a closed edge is hot iff it owns a record or is joined, never both;
joined edges come as adjacent pairs; the sides of the hot closed edges alternate front, back, front, … from the left -/
structure LInv (cfg : Cfg) (l : List SEdge) : Prop where
  inv : Inv cfg (erase l)
  side : Side l

def SInv (cfg : Cfg) (s : SState) : Prop := LInv cfg s.ael

/-- what the invariant says about a window `mid` of the list: the automaton states before and after it -/
theorem side_ctx (pre mid rest : List SEdge) : Side (pre ++ mid ++ rest) ↔
    ∃ p q p2 q2, joinRun false pre = some p ∧ altRun true pre = some q ∧ joinRun p mid = some p2 ∧ altRun q mid = some q2 ∧
      joinOKFrom p2 rest = true ∧ altFrom q2 rest = true ∧
      pre.all localOK = true ∧ mid.all localOK = true ∧ rest.all localOK = true := by
  unfold Side
  rw [List.append_assoc, joinOK_append, alt_append, List.all_append, List.all_append]
  constructor
  · intro ⟨h1, h2, h3⟩
    cases hp : joinRun false pre with
    | none => simp [hp] at h2
    | some p =>
      cases hq : altRun true pre with
      | none => simp [hq] at h3
      | some q =>
        simp only [hp, hq] at h2 h3
        rw [joinOK_append] at h2
        rw [alt_append] at h3
        cases hp2 : joinRun p mid with
        | none => simp [hp2] at h2
        | some p2 =>
          cases hq2 : altRun q mid with
          | none => simp [hq2] at h3
          | some q2 =>
            simp only [hp2, hq2] at h2 h3
            simp only [Bool.and_eq_true] at h1
            exact ⟨p, q, p2, q2, rfl, rfl, hp2, hq2, h2, h3, h1.1, h1.2.1, h1.2.2⟩
  · intro ⟨p, q, p2, q2, hp, hq, hp2, hq2, h2, h3, l1, l2, l3⟩
    simp only [hp, hq]
    rw [joinOK_append, alt_append]
    simp [hp2, hq2, h2, h3, l1, l2, l3]

/-- replacing a window by one with the same automaton behaviour (and relabelling records elsewhere) keeps `Side` -/
theorem side_replace (pre mid rest mid' : List SEdge) (g : SEdge → SEdge) (hg : ShapePres g)
    (h : Side (pre ++ mid ++ rest))
    (hmid : ∀ p q p2 q2, joinRun false pre = some p → altRun true pre = some q → joinRun p mid = some p2 → altRun q mid = some q2 →
      mid.all localOK = true →
      joinRun p mid' = some p2 ∧ altRun q mid' = some q2 ∧ mid'.all localOK = true) :
    Side (pre.map g ++ mid' ++ rest.map g) := by
  obtain ⟨p, q, p2, q2, hp, hq, hp2, hq2, h2, h3, l1, l2, l3⟩ := (side_ctx pre mid rest).mp h
  obtain ⟨m1, m2, m3⟩ := hmid p q p2 q2 hp hq hp2 hq2 l2
  refine (side_ctx _ _ _).mpr ⟨p, q, p2, q2, ?_, ?_, m1, m2, ?_, ?_, ?_, m3, ?_⟩
  · rw [joinRun_map_shape hg]; exact hp
  · rw [altRun_map_shape hg]; exact hq
  · rw [joinOKFrom_map_shape hg]; exact h2
  · rw [altFrom_map_shape hg]; exact h3
  · rw [all_localOK_map_shape hg]; exact l1
  · rw [all_localOK_map_shape hg]; exact l3

theorem side_replace_id (pre mid rest mid' : List SEdge)
    (h : Side (pre ++ mid ++ rest))
    (hmid : ∀ p q p2 q2, joinRun false pre = some p → altRun true pre = some q → joinRun p mid = some p2 → altRun q mid = some q2 →
      mid.all localOK = true →
      joinRun p mid' = some p2 ∧ altRun q mid' = some q2 ∧ mid'.all localOK = true) :
    Side (pre ++ mid' ++ rest) := by
  have := side_replace pre mid rest mid' id shapePres_id h hmid
  simpa using this

/-- the expected side after a prefix, as `AddLocalMinPoly` computes it from `GetPrevHotEdge` -/
theorem minFront1_new (pre : List SEdge) (q : Bool) (h : altRun true pre = some q) :
    minFront1 (prevHot pre.reverse) true = q := by
  have := altRun_prevHot pre true q h
  cases hp : prevHot pre.reverse with
  | none => simp [hp] at this; simp [minFront1, this]
  | some pf => simp [hp] at this; cases pf <;> simp [minFront1, this]

theorem minFront1_old (pre : List SEdge) (q : Bool) (h : altRun true pre = some q) :
    minFront1 (prevHot pre.reverse) false = !q := by
  have := altRun_prevHot pre true q h
  cases hp : prevHot pre.reverse with
  | none => simp [hp] at this; simp [minFront1, this]
  | some pf => simp [hp] at this; cases pf <;> simp [minFront1, this]

/-! ## faithfulness of the edge-centric representation: `(id, side)` keys are unique and below `next` -/

def keyOf (x : SEdge) : Option (Nat × Bool) := x.orec.map (fun r => (r.id, r.front))

/-- how many edges of `l` claim side `k.2` of record `k.1` -/
def cnt (k : Nat × Bool) : List SEdge → Nat
  | [] => 0
  | x :: xs => (if keyOf x = some k then 1 else 0) + cnt k xs

/-- all record ids in use are below `n` and no two edges claim the same side of the same record -/
def RecsOK (n : Nat) (l : List SEdge) : Prop :=
  ∀ k : Nat × Bool, cnt k l ≤ 1 ∧ (n ≤ k.1 → cnt k l = 0)

theorem cnt_append (k : Nat × Bool) (l1 l2 : List SEdge) : cnt k (l1 ++ l2) = cnt k l1 + cnt k l2 := by
  induction l1 with
  | nil => simp [cnt]
  | cons x xs ih => simp only [List.cons_append, cnt, ih]; omega

theorem cnt_eq_count (k : Nat × Bool) (l : List SEdge) : cnt k l = (recKeys l).count k := by
  induction l with
  | nil => rfl
  | cons x xs ih =>
    unfold recKeys at ih ⊢
    cases hx : x.orec with
    | none => simp [cnt, keyOf, hx, ih]
    | some r =>
      simp only [cnt, keyOf, hx, Option.map_some, Option.some.injEq, List.filterMap_cons, List.count_cons, ih]
      by_cases hk : (r.id, r.front) = k
      · simp [hk]; omega
      · simp [hk]

theorem checkRecs_iff (s : SState) : checkRecs s = true ↔ RecsOK s.next s.ael := by
  unfold checkRecs RecsOK
  simp only [Bool.and_eq_true, List.all_eq_true, decide_eq_true_eq, List.nodup_iff_count]
  constructor
  · intro ⟨h1, h2⟩ k
    rw [cnt_eq_count]
    refine ⟨h2 k, fun hk => ?_⟩
    apply List.count_eq_zero.mpr
    intro hm; have := h1 k hm; omega
  · intro h
    refine ⟨fun k hk => ?_, fun k => by rw [← cnt_eq_count]; exact (h k).1⟩
    apply Decidable.byContradiction; intro hc
    have := (h k).2 (by omega)
    rw [cnt_eq_count] at this
    exact (List.count_eq_zero.mp this) hk

theorem recsOK_mono (n n' : Nat) (l : List SEdge) (hn : n ≤ n') (h : RecsOK n l) : RecsOK n' l :=
  fun k => ⟨(h k).1, fun hk => (h k).2 (by omega)⟩

theorem cnt_pair_le_of_keys (k : Nat × Bool) (x y a b : SEdge)
    (h : (keyOf x = keyOf b ∧ keyOf y = keyOf a) ∨ (keyOf x = keyOf a ∧ keyOf y = keyOf b)) : cnt k [x, y] ≤ cnt k [a, b] := by
  simp only [cnt]
  rcases h with ⟨h1, h2⟩ | ⟨h1, h2⟩ <;> rw [h1, h2] <;> omega

/-- window replacement by a window whose keys are dominated, key by key -/
theorem recsOK_window (n : Nat) (pre mid mid' rest : List SEdge) (h : RecsOK n (pre ++ mid ++ rest))
    (hm : ∀ k, cnt k mid' ≤ cnt k mid) : RecsOK n (pre ++ mid' ++ rest) := by
  intro k
  have := h k
  have := hm k
  simp only [cnt_append] at *
  omega

/-- a window with two fresh keys `(n, f)`, `(n, !f)` in place of one without keys -/
theorem recsOK_fresh (n : Nat) (pre mid rest : List SEdge) (x y : SEdge) (f : Bool) (h : RecsOK n (pre ++ mid ++ rest))
    (hm : ∀ k, cnt k mid = 0) (hx : x.orec = some ⟨n, f⟩) (hy : y.orec = some ⟨n, !f⟩) :
    RecsOK (n + 1) (pre ++ [x, y] ++ rest) := by
  intro k
  have h1 := h k
  have h2 := hm k
  simp only [cnt_append, cnt, keyOf, hx, hy, Option.map_some, Option.some.injEq] at *
  have hk1 : (n, f) = k → k.1 = n := fun e => by rw [← e]
  have hk2 : (n, !f) = k → k.1 = n := fun e => by rw [← e]
  have hne : ¬((n, f) = k ∧ (n, !f) = k) := by intro ⟨e1, e2⟩; rw [← e1] at e2; simp at e2
  by_cases e1 : (n, f) = k <;> by_cases e2 : (n, !f) = k <;> simp only [e1, e2, if_true, if_false]
  · exact absurd ⟨e1, e2⟩ hne
  · have := hk1 e1; have := h1.2 (by omega); exact ⟨by omega, fun hk' => by omega⟩
  · have := hk2 e2; have := h1.2 (by omega); exact ⟨by omega, fun hk' => by omega⟩
  · exact ⟨by omega, fun hk' => by have := h1.2 (by omega); omega⟩

theorem recsOK_fresh2 (n : Nat) (pre rest : List SEdge) (x y : SEdge) (f : Bool) (h : RecsOK n (pre ++ rest))
    (hx : x.orec = some ⟨n, f⟩) (hy : y.orec = some ⟨n, !f⟩) : RecsOK (n + 1) (pre ++ x :: y :: rest) := by
  have h' : RecsOK n (pre ++ [] ++ rest) := by simpa using h
  have := recsOK_fresh n pre [] rest x y f h' (by intro k; simp [cnt]) hx hy
  simpa using this

theorem recsOK_add2 (n : Nat) (pre rest : List SEdge) (x y : SEdge) (h : RecsOK n (pre ++ rest))
    (hx : x.orec = none) (hy : y.orec = none) : RecsOK n (pre ++ x :: y :: rest) := by
  have h' : RecsOK n (pre ++ [] ++ rest) := by simpa using h
  have := recsOK_window n pre [] [x, y] rest h' (by intro k; simp [cnt, keyOf, hx, hy])
  simpa using this

theorem recsOK_add1 (n : Nat) (pre rest : List SEdge) (x : SEdge) (h : RecsOK n (pre ++ rest))
    (hx : x.orec = none) : RecsOK n (pre ++ x :: rest) := by
  have h' : RecsOK n (pre ++ [] ++ rest) := by simpa using h
  have := recsOK_window n pre [] [x] rest h' (by intro k; simp [cnt, keyOf, hx])
  simpa using this

theorem keyOf_relabel (B : Nat) (f : Bool) (A : Nat) (x : SEdge) :
    keyOf (relabelFn B f A x) = if keyOf x = some (B, f) then some (A, f) else keyOf x := by
  unfold relabelFn keyOf
  cases hx : x.orec with
  | none => simp [hx]
  | some r =>
    by_cases hc : r.id = B ∧ r.front = f
    · simp [hc]
    · have : ¬ (r.id, r.front) = (B, f) := by intro e; simp at e; exact hc e
      simp [hc, hx, this]

theorem cnt_relabel (B : Nat) (f : Bool) (A : Nat) (hAB : A ≠ B) (k : Nat × Bool) (l : List SEdge) :
    cnt k (l.map (relabelFn B f A)) =
      if k = (A, f) then cnt (A, f) l + cnt (B, f) l else if k = (B, f) then 0 else cnt k l := by
  induction l with
  | nil => simp [cnt]
  | cons x xs ih =>
    simp only [List.map_cons, cnt, ih, keyOf_relabel]
    have hne : (A, f) ≠ (B, f) := by intro e; simp at e; exact hAB e
    by_cases h1 : keyOf x = some (B, f)
    · simp only [h1, if_true, Option.some.injEq]
      by_cases k1 : k = (A, f)
      · subst k1; simp [hne.symm]; omega
      · by_cases k2 : k = (B, f)
        · subst k2; simp [hne.symm, hAB]
        · simp [k1, k2, Ne.symm k1, Ne.symm k2]
    · simp only [h1, if_false]
      by_cases k1 : k = (A, f)
      · subst k1
        simp; omega
      · by_cases k2 : k = (B, f)
        · subst k2; simp [h1, k1]
        · simp [k1, k2]

/-- `AddLocalMaxPoly` on the window `[a, b]`: the two edges lose their records, the surviving record inherits the other edge of the dying one -/
theorem recsOK_localMax (n : Nat) (pre rest mid' : List SEdge) (a b : SEdge) (ra rb : Rec) (g : SEdge → SEdge)
    (hra : a.orec = some ra) (hrb : b.orec = some rb) (hne : ra.front ≠ rb.front) (hg : addLocalMaxFn ra rb = .ok g)
    (hm : ∀ k, cnt k mid' = 0) (h : RecsOK n (pre ++ [a, b] ++ rest)) :
    RecsOK n (pre.map g ++ mid' ++ rest.map g) := by
  have hka : keyOf a = some (ra.id, ra.front) := by simp [keyOf, hra]
  have hkb : keyOf b = some (rb.id, rb.front) := by simp [keyOf, hrb]
  unfold addLocalMaxFn at hg
  simp only [hne, if_false] at hg
  split at hg
  next hid =>
    cases hg
    simp only [List.map_id]
    intro k
    have := h k; have := hm k
    simp only [cnt_append] at *
    omega
  next hid =>
    have gen : ∀ (A B : Nat) (fa fb : Bool), A ≠ B → fa ≠ fb →
        (∀ k : Nat × Bool, cnt k pre + ((if (A, fa) = k then 1 else 0) + ((if (B, fb) = k then 1 else 0) + 0)) + cnt k rest ≤ 1 ∧
          (n ≤ k.1 → cnt k pre + ((if (A, fa) = k then 1 else 0) + ((if (B, fb) = k then 1 else 0) + 0)) + cnt k rest = 0)) →
        RecsOK n (pre.map (relabelFn B fa A) ++ mid' ++ rest.map (relabelFn B fa A)) := by
      intro A B fa fb hAB hf hh k
      have hmk := hm k
      simp only [cnt_append, cnt_relabel B fa A hAB, hmk]
      have hA := hh (A, fa)
      have hB := hh (B, fa)
      have hk := hh k
      have e1 : ¬ (B, fb) = (A, fa) := by intro e; simp at e; exact hAB e.1.symm
      have e2 : ¬ (A, fa) = (B, fa) := by intro e; simp at e; exact hAB e
      have e3 : ¬ (B, fb) = (B, fa) := by intro e; simp at e; exact hf e.symm
      simp only [e1, e2, e3, if_true, if_false] at hA hB
      by_cases k1 : k = (A, fa)
      · subst k1
        simp only [if_true]
        refine ⟨by omega, fun hk' => ?_⟩
        have := hA.2 hk'; omega
      · by_cases k2 : k = (B, fa)
        · subst k2; simp [k1]
        · simp only [k1, k2, if_false]
          refine ⟨by omega, fun hk' => ?_⟩
          have := hk.2 hk'; omega
    have hh : ∀ k : Nat × Bool, cnt k pre + ((if (ra.id, ra.front) = k then 1 else 0) + ((if (rb.id, rb.front) = k then 1 else 0) + 0)) + cnt k rest ≤ 1 ∧
          (n ≤ k.1 → cnt k pre + ((if (ra.id, ra.front) = k then 1 else 0) + ((if (rb.id, rb.front) = k then 1 else 0) + 0)) + cnt k rest = 0) := by
      intro k
      have := h k
      simpa only [cnt_append, cnt, hka, hkb, Option.some.injEq] using this
    split at hg
    next hlt =>
      cases hg
      exact gen ra.id rb.id ra.front rb.front hid hne hh
    next hlt =>
      cases hg
      refine gen rb.id ra.id rb.front ra.front (Ne.symm hid) (Ne.symm hne) ?_
      intro k
      have := hh k
      omega

/-! ## `Split` -/

theorem splitPair_eq (i : Nat) (s : SState) (a b : SEdge) (rest : List SEdge) (h : s.ael.drop i = a :: b :: rest) :
    splitPair i s = .ok
      { ael := s.ael.take i ++ { a with join := .none, orec := some (minRecs (s.ael.take i) true s.next).1 } ::
                { b with join := .none, orec := some (minRecs (s.ael.take i) true s.next).2 } :: rest,
        next := s.next + 1 } := by
  have hlen := take_length_of_drop _ _ _ _ h
  simp only [splitPair, h, addLocalMin, List.drop_left' hlen, List.take_left' hlen]

theorem splitPair_side (i : Nat) (l : List SEdge) (n : Nat) (a b : SEdge) (rest : List SEdge) (h : l.drop i = a :: b :: rest)
    (ha : a.join = .right) (hs : Side l) :
    Side (l.take i ++ { a with join := .none, orec := some (minRecs (l.take i) true n).1 } ::
                { b with join := .none, orec := some (minRecs (l.take i) true n).2 } :: rest) := by
  have hl : l = l.take i ++ [a, b] ++ rest := by
    rw [List.append_assoc]; exact drop_split l i _ h
  rw [hl] at hs
  have := side_replace_id (l.take i) [a, b] rest
    [{ a with join := .none, orec := some (minRecs (l.take i) true n).1 }, { b with join := .none, orec := some (minRecs (l.take i) true n).2 }] hs ?_
  · simpa using this
  · intro p q p2 q2 hp hq hp2 hq2 hloc
    have hf := minFront1_new _ q hq
    simp only [List.all_cons, List.all_nil, Bool.and_true, Bool.and_eq_true] at hloc
    obtain ⟨la, lb⟩ := hloc
    cases p <;> cases hb : b.join <;> simp [joinRun, ha, hb] at hp2
    subst hp2
    have hao : a.e.isOpen = false := by
      cases ho : a.e.isOpen
      · rfl
      · simp [localOK, ho, ha] at la
    have hbo : b.e.isOpen = false := by
      cases ho : b.e.isOpen
      · rfl
      · simp [localOK, ho, hb] at lb
    simp only [localOK, hao, hbo, ha, hb] at la lb
    simp at la lb
    simp [altRun, tracked, hao, hbo, la.2, lb.2] at hq2
    subst hq2
    simp [joinRun, altRun, tracked, hao, hbo, minRecs, hf, localOK, la.1, lb.1]

/-- the representation invariant is carried from `s` to `s'` -/
def Recs (s s' : SState) : Prop := RecsOK s.next s.ael → RecsOK s'.next s'.ael

def JoinNoneAt (l : List SEdge) (k : Nat) : Prop := ∀ x, l[k]? = some x → x.join = .none

/-- what a successful `Split` guarantees -/
structure SplitPost (i : Nat) (s s' : SState) : Prop where
  side : Side s'.ael
  era : erase s'.ael = erase s.ael
  here : JoinNoneAt s'.ael i
  mono : ∀ k, JoinNoneAt s.ael k → JoinNoneAt s'.ael k
  recs : RecsOK s.next s.ael → RecsOK s'.next s'.ael

/-- the two edges of a joined pair own no record -/
theorem joined_pair_norec (j : Nat) (l : List SEdge) (a b : SEdge) (rest : List SEdge) (h : l.drop j = a :: b :: rest)
    (ha : a.join = .right) (hs : Side l) : a.orec = none ∧ b.orec = none := by
  have hl : l = l.take j ++ [a, b] ++ rest := by rw [List.append_assoc]; exact drop_split l j _ h
  rw [hl] at hs
  obtain ⟨p, q, p2, q2, hp, hq, hp2, hq2, h2, h3, l1, l2, l3⟩ := (side_ctx _ _ _).mp hs
  simp only [List.all_cons, List.all_nil, Bool.and_true, Bool.and_eq_true] at l2
  obtain ⟨la, lb⟩ := l2
  have hb : b.join = .left := by
    cases p <;> cases hb : b.join <;> simp [joinRun, ha, hb] at hp2 ⊢
  constructor
  · cases ho : a.e.isOpen <;> simp [localOK, ho, ha] at la
    cases hr : a.orec <;> simp [hr] at la ⊢
  · cases ho : b.e.isOpen <;> simp [localOK, ho, hb] at lb
    cases hr : b.orec <;> simp [hr] at lb ⊢

theorem splitPair_post (i j : Nat) (s : SState) (a b : SEdge) (rest : List SEdge) (h : s.ael.drop j = a :: b :: rest)
    (ha : a.join = .right) (hs : Side s.ael) (hij : i = j ∨ i = j + 1) :
    ∃ s', splitPair j s = .ok s' ∧ SplitPost i s s' := by
  refine ⟨_, splitPair_eq j s a b rest h, ?_, ?_, ?_, ?_, ?_⟩
  rotate_right
  · intro hr
    obtain ⟨na, nb⟩ := joined_pair_norec j s.ael a b rest h ha hs
    have hl : s.ael = s.ael.take j ++ [a, b] ++ rest := by rw [List.append_assoc]; exact drop_split _ j _ h
    rw [hl] at hr
    have := recsOK_fresh s.next (s.ael.take j) [a, b] rest
      { a with join := .none, orec := some (minRecs (s.ael.take j) true s.next).1 }
      { b with join := .none, orec := some (minRecs (s.ael.take j) true s.next).2 }
      (minRecs (s.ael.take j) true s.next).1.front hr (by intro k; simp [cnt, keyOf, na, nb]) rfl rfl
    simpa using this
  · exact splitPair_side j s.ael s.next a b rest h ha hs
  · simp only [erase, List.map_append, List.map_cons]
    conv => rhs; rw [drop_split s.ael j _ h]
    simp
  · intro x hx
    simp only [getElem?_splice _ _ _ _ _ h] at hx
    rcases hij with rfl | rfl
    · simp at hx; subst hx; rfl
    · simp at hx; subst hx; rfl
  · intro k hk x hx
    simp only [getElem?_splice _ _ _ _ _ h] at hx
    split at hx
    · cases hx; rfl
    · split at hx
      · cases hx; rfl
      · exact hk x hx

/-- under the invariant `if (IsJoined(e)) Split(e, pt)` never faults -/
theorem splitAt_spec (i : Nat) (s : SState) (hs : Side s.ael) (hi : i < s.ael.length) :
    ∃ s', splitAt i s = .ok s' ∧ SplitPost i s s' := by
  unfold splitAt
  rw [List.getElem?_eq_getElem hi]
  simp only
  by_cases hj : s.ael[i].join = .none
  · simp only [hj, if_true]
    refine ⟨s, rfl, hs, rfl, ?_, fun k hk => hk, fun h => h⟩
    intro x hx
    rw [List.getElem?_eq_getElem hi] at hx
    cases hx; exact hj
  · simp only [hj, if_false]
    have hd : s.ael.drop i = s.ael[i] :: s.ael.drop (i + 1) := List.drop_eq_getElem_cons hi
    cases hjj : s.ael[i].join with
    | none => exact absurd hjj hj
    | right =>
      simp only [splitJoined]
      -- the partner is the next edge
      have hl : s.ael = s.ael.take i ++ [s.ael[i]] ++ s.ael.drop (i + 1) := by
        rw [List.append_assoc]; exact drop_split _ _ _ hd
      have hs' := hs; rw [hl] at hs'
      obtain ⟨p, q, p2, q2, hp, hq, hp2, hq2, h2, h3, l1, l2, l3⟩ := (side_ctx _ _ _).mp hs'
      cases p <;> simp [joinRun, hjj] at hp2
      subst hp2
      cases hr : s.ael.drop (i + 1) with
      | nil => rw [hr] at h2; simp [joinOKFrom] at h2
      | cons b rest =>
        rw [hr] at hd
        exact splitPair_post i i s _ b rest hd hjj hs (Or.inl rfl)
    | left =>
      simp only [splitJoined]
      have hl : s.ael = s.ael.take i ++ [s.ael[i]] ++ s.ael.drop (i + 1) := by
        rw [List.append_assoc]; exact drop_split _ _ _ hd
      have hs' := hs; rw [hl] at hs'
      obtain ⟨p, q, p2, q2, hp, hq, hp2, hq2, h2, h3, l1, l2, l3⟩ := (side_ctx _ _ _).mp hs'
      cases p <;> simp [joinRun, hjj] at hp2
      have hlast := joinRun_last _ _ _ hp
      cases hg : (s.ael.take i).getLast? with
      | none => simp [hg] at hlast
      | some y =>
        simp only [hg] at hlast
        obtain ⟨ys, hys⟩ := List.getLast?_eq_some_iff.mp hg
        have hlen : (s.ael.take i).length = i := take_length_of_drop _ _ _ _ hd
        have hi0 : i ≠ 0 := by
          intro h0; rw [hys] at hlen; simp at hlen; omega
        simp only [hi0, if_false]
        have hyl : ys.length = i - 1 := by rw [hys] at hlen; simp at hlen; omega
        have hd2 : s.ael.drop (i - 1) = y :: s.ael[i] :: s.ael.drop (i + 1) := by
          conv => lhs; rw [hl, hys]
          simp only [List.append_assoc]
          rw [List.drop_left' hyl]; rfl
        have hyr : y.join = .right := by simpa using hlast.symm
        exact splitPair_post i (i - 1) s y _ _ hd2 hyr hs (Or.inr (by omega))

theorem side_rebuild (pre mid' rest : List SEdge) (g : SEdge → SEdge) (hg : ShapePres g) (p q p2 q2 : Bool)
    (hp : joinRun false pre = some p) (hq : altRun true pre = some q)
    (m1 : joinRun p mid' = some p2) (m2 : altRun q mid' = some q2)
    (h2 : joinOKFrom p2 rest = true) (h3 : altFrom q2 rest = true)
    (l1 : pre.all localOK = true) (m3 : mid'.all localOK = true) (l3 : rest.all localOK = true) :
    Side (pre.map g ++ mid' ++ rest.map g) := by
  refine (side_ctx _ _ _).mpr ⟨p, q, p2, q2, ?_, ?_, m1, m2, ?_, ?_, ?_, m3, ?_⟩
  · rw [joinRun_map_shape hg]; exact hp
  · rw [altRun_map_shape hg]; exact hq
  · rw [joinOKFrom_map_shape hg]; exact h2
  · rw [altFrom_map_shape hg]; exact h3
  · rw [all_localOK_map_shape hg]; exact l1
  · rw [all_localOK_map_shape hg]; exact l3

/-! ## Boolean cores of the `IntersectEdges` decision -/

/-- the new `IsHotEdge` flags of `(e1, e2)` after each continuation -/
def actHot (a : Act) (h1 h2 : Bool) : Bool × Bool :=
  match a with
  | .nothing => (h1, h2)
  | .localMax => (false, false)
  | .maxThenMin => (true, true)
  | .swap => (h2, h1)
  | .localMin => (true, true)

theorem decideHotB_eq_act : ∀ (h1 h2 i1 i2 q1 q2 dt nx go f1 sr : Bool),
    decideHotB h1 h2 i1 i2 q1 q2 dt nx go = actHot (decideActB h1 h2 i1 i2 q1 q2 dt nx go f1 sr) h1 h2 := by decide

theorem act_nothing : ∀ (h1 h2 i1 i2 q1 q2 dt nx go f1 sr : Bool),
    decideActB h1 h2 i1 i2 q1 q2 dt nx go f1 sr = .nothing → (h1 && h2) = false := by decide
theorem act_localMax : ∀ (h1 h2 i1 i2 q1 q2 dt nx go f1 sr : Bool),
    decideActB h1 h2 i1 i2 q1 q2 dt nx go f1 sr = .localMax → h1 = true ∧ h2 = true := by decide
theorem act_maxThenMin : ∀ (h1 h2 i1 i2 q1 q2 dt nx go f1 sr : Bool),
    decideActB h1 h2 i1 i2 q1 q2 dt nx go f1 sr = .maxThenMin → h1 = true ∧ h2 = true := by decide
theorem act_swap : ∀ (h1 h2 i1 i2 q1 q2 dt nx go f1 sr : Bool),
    decideActB h1 h2 i1 i2 q1 q2 dt nx go f1 sr = .swap → (h1 || h2) = true := by decide
theorem act_localMin : ∀ (h1 h2 i1 i2 q1 q2 dt nx go f1 sr : Bool),
    decideActB h1 h2 i1 i2 q1 q2 dt nx go f1 sr = .localMin → h1 = false ∧ h2 = false := by decide

theorem updateWinds_hot (fr : FillRule) (e1 e2 : Edge) :
    (updateWinds fr e1 e2).1.hot = e1.hot ∧ (updateWinds fr e1 e2).2.hot = e2.hot ∧
    (updateWinds fr e1 e2).1.pt = e1.pt ∧ (updateWinds fr e1 e2).2.pt = e2.pt := by
  unfold updateWinds
  split <;> split <;> simp

/-- the hot flags computed by the old model are those implied by the continuation chosen here -/
theorem intersectPair_hot (cfg : Cfg) (a b : SEdge) (ha : a.e.isOpen = false) (hb : b.e.isOpen = false)
    (hha : a.e.hot = a.orec.isSome) (hhb : b.e.hot = b.orec.isSome) :
    ((intersectPair cfg a.e b.e).1.hot, (intersectPair cfg a.e b.e).2.hot) =
      actHot (decideAct cfg (updateWinds cfg.fr a.e b.e).1 (updateWinds cfg.fr a.e b.e).2 a.orec b.orec) a.orec.isSome b.orec.isSome := by
  obtain ⟨u1, u2, u3, u4⟩ := updateWinds_hot cfg.fr a.e b.e
  simp only [intersectPair, ha, hb, Bool.or_self, Bool.false_eq_true, if_false, intersectClosed, decideHot, decideAct, u1, u2, hha, hhb]
  rw [decideHotB_eq_act _ _ _ _ _ _ _ _ _ (recFront a.orec) (sameRec a.orec b.orec)]

/-! ## `IntersectEdges`, closed branch -/

/-- the alternation automaton on a window of two edges, as a function of what `tracked` says -/
def alt2 (q : Bool) (tx ty : Option Bool) : Option Bool :=
  match tx with
  | some f => if f = q then (match ty with | some f' => if f' = !q then some q else none | none => some (!q)) else none
  | none => match ty with | some f' => if f' = q then some (!q) else none | none => some q

theorem altRun_two (q : Bool) (x y : SEdge) : altRun q [x, y] = alt2 q (tracked x) (tracked y) := by
  cases hx : tracked x <;> cases hy : tracked y <;> simp [altRun, alt2, hx, hy]

theorem tracked_closed (x : SEdge) (ho : x.e.isOpen = false) : tracked x = x.orec.map (·.front) := by
  simp [tracked, ho]

theorem localOK_closed_unjoined (x : SEdge) (ho : x.e.isOpen = false) (hj : x.join = .none) :
    localOK x = (x.e.hot == x.orec.isSome) := by
  simp [localOK, ho, hj]

/-- facts about a window of two closed, unjoined edges -/
theorem pair_facts (a b : SEdge) (p p2 : Bool) (ha : a.e.isOpen = false) (hb : b.e.isOpen = false)
    (hja : a.join = .none) (hjb : b.join = .none)
    (hp2 : joinRun p [a, b] = some p2) (hloc : [a, b].all localOK = true) :
    p = false ∧ p2 = false ∧ a.e.hot = a.orec.isSome ∧ b.e.hot = b.orec.isSome := by
  simp only [List.all_cons, List.all_nil, Bool.and_true, Bool.and_eq_true] at hloc
  obtain ⟨la, lb⟩ := hloc
  rw [localOK_closed_unjoined a ha hja] at la
  rw [localOK_closed_unjoined b hb hjb] at lb
  cases p <;> simp [joinRun, hja, hjb] at hp2
  exact ⟨rfl, hp2, by simpa using la, by simpa using lb⟩

theorem pair_rebuild (pre rest : List SEdge) (g : SEdge → SEdge) (hg : ShapePres g) (x y : SEdge) (q q2 : Bool)
    (hp : joinRun false pre = some false) (hq : altRun true pre = some q)
    (h2 : joinOKFrom false rest = true) (h3 : altFrom q2 rest = true)
    (l1 : pre.all localOK = true) (l3 : rest.all localOK = true)
    (hxo : x.e.isOpen = false) (hyo : y.e.isOpen = false) (hxj : x.join = .none) (hyj : y.join = .none)
    (halt : alt2 q (x.orec.map (·.front)) (y.orec.map (·.front)) = some q2)
    (hxh : x.e.hot = x.orec.isSome) (hyh : y.e.hot = y.orec.isSome) :
    Side (pre.map g ++ x :: y :: rest.map g) := by
  have := side_rebuild pre [x, y] rest g hg false q false q2 hp hq (by simp [joinRun, hxj, hyj])
    (by rw [altRun_two, tracked_closed x hxo, tracked_closed y hyo]; exact halt) h2 h3 l1
    (by simp [localOK_closed_unjoined x hxo hxj, localOK_closed_unjoined y hyo hyj, hxh, hyh]) l3
  simpa using this

theorem minRecs_map_shape {g : SEdge → SEdge} (hg : ShapePres g) (pre : List SEdge) (isNew : Bool) (n : Nat) :
    minRecs (pre.map g) isNew n = minRecs pre isNew n := by
  simp only [minRecs, ← List.map_reverse, prevHot_map_shape hg]

theorem erase_pair (pre rest : List SEdge) (g : SEdge → SEdge) (hg : ShapePres g) (x y : SEdge) :
    erase (pre.map g ++ x :: y :: rest.map g) = erase pre ++ x.e :: y.e :: erase rest := by
  have h1 := erase_map_shape hg pre
  have h2 := erase_map_shape hg rest
  simp only [erase] at h1 h2 ⊢
  simp [h1, h2]

theorem intersectCore_spec (cfg : Cfg) (pre : List SEdge) (a b : SEdge) (rest : List SEdge) (n : Nat)
    (hs : Side (pre ++ [a, b] ++ rest)) (ha : a.e.isOpen = false) (hb : b.e.isOpen = false)
    (hja : a.join = .none) (hjb : b.join = .none) :
    ∃ s', intersectCore cfg pre a b rest n = .ok s' ∧ Side s'.ael ∧
      erase s'.ael = erase pre ++ (intersectPair cfg a.e b.e).2 :: (intersectPair cfg a.e b.e).1 :: erase rest ∧
      (RecsOK n (pre ++ [a, b] ++ rest) → RecsOK s'.next s'.ael) := by
  obtain ⟨p, q, p2, q2, hp, hq, hp2, hq2, h2, h3, l1, l2, l3⟩ := (side_ctx _ _ _).mp hs
  obtain ⟨rfl, rfl, hha, hhb⟩ := pair_facts a b p p2 ha hb hja hjb hp2 l2
  have hh := intersectPair_hot cfg a b ha hb hha hhb
  obtain ⟨f1, f2, f3, f4, f5, f6⟩ := intersectPair_fields cfg a.e b.e
  rw [ha] at f2; rw [hb] at f5
  rw [altRun_two, tracked_closed a ha, tracked_closed b hb] at hq2
  unfold intersectCore
  simp only
  cases hact : decideAct cfg (updateWinds cfg.fr a.e b.e).1 (updateWinds cfg.fr a.e b.e).2 a.orec b.orec with
  | nothing =>
    rw [hact] at hh
    simp only [actHot, Prod.mk.injEq] at hh
    have hnb := act_nothing _ _ _ _ _ _ _ _ _ _ _ hact
    refine ⟨_, rfl, ?_, ?_, ?_⟩
    · have := pair_rebuild pre rest id shapePres_id { b with e := (intersectPair cfg a.e b.e).2 } { a with e := (intersectPair cfg a.e b.e).1 }
        q q2 hp hq h2 h3 l1 l3 f5 f2 hjb hja ?_ hh.2 hh.1
      · simpa using this
      · revert hq2 hnb
        cases a.orec <;> cases b.orec <;> simp [alt2]
    · have := erase_pair pre rest id shapePres_id { b with e := (intersectPair cfg a.e b.e).2 } { a with e := (intersectPair cfg a.e b.e).1 }
      simpa using this
    · intro hr
      have := recsOK_window n pre [a, b] [{ b with e := (intersectPair cfg a.e b.e).2 }, { a with e := (intersectPair cfg a.e b.e).1 }] rest hr
        (fun k => cnt_pair_le_of_keys k _ _ _ _ (Or.inl ⟨rfl, rfl⟩))
      simpa using this
  | swap =>
    rw [hact] at hh
    simp only [actHot, Prod.mk.injEq] at hh
    have hnb := act_swap _ _ _ _ _ _ _ _ _ _ _ hact
    refine ⟨_, rfl, ?_, ?_, ?_⟩
    · have := pair_rebuild pre rest id shapePres_id { b with e := (intersectPair cfg a.e b.e).2, orec := (swapOutrecs a.orec b.orec).2 }
          { a with e := (intersectPair cfg a.e b.e).1, orec := (swapOutrecs a.orec b.orec).1 }
        q q2 hp hq h2 h3 l1 l3 f5 f2 hjb hja ?_ ?_ ?_
      · simpa using this
      · revert hq2 hnb
        cases hra : a.orec <;> cases hrb : b.orec <;> simp [alt2, swapOutrecs]
        rename_i ra rb
        by_cases hid : ra.id = rb.id <;> simp [hid] <;> cases ra.front <;> cases rb.front <;> cases q <;> simp
      · rw [hh.2]
        cases hra : a.orec <;> cases hrb : b.orec <;> simp [swapOutrecs]
        rename_i ra rb
        by_cases hid : ra.id = rb.id <;> simp [hid]
      · rw [hh.1]
        cases hra : a.orec <;> cases hrb : b.orec <;> simp [swapOutrecs]
        rename_i ra rb
        by_cases hid : ra.id = rb.id <;> simp [hid]
    · have := erase_pair pre rest id shapePres_id { b with e := (intersectPair cfg a.e b.e).2, orec := (swapOutrecs a.orec b.orec).2 }
          { a with e := (intersectPair cfg a.e b.e).1, orec := (swapOutrecs a.orec b.orec).1 }
      simpa using this
    · intro hr
      have := recsOK_window n pre [a, b] [{ b with e := (intersectPair cfg a.e b.e).2, orec := (swapOutrecs a.orec b.orec).2 },
          { a with e := (intersectPair cfg a.e b.e).1, orec := (swapOutrecs a.orec b.orec).1 }] rest hr ?_
      · simpa using this
      · intro k
        refine cnt_pair_le_of_keys k _ _ _ _ (Or.inr ?_)
        revert hq2
        cases hra : a.orec <;> cases hrb : b.orec <;> simp only [keyOf, swapOutrecs, hra, hrb, Option.map_none, Option.map_some, alt2] <;> first | (intro _; exact ⟨trivial, trivial⟩) | (intro _; exact ⟨rfl, rfl⟩) | skip
        rename_i ra rb
        by_cases hid : ra.id = rb.id
        · simp only [hid, if_true, Option.map_some]
          cases hfa : ra.front <;> cases hfb : rb.front <;> cases q <;> simp
        · simp only [hid, if_false, Option.map_some]
          intro _; exact ⟨trivial, trivial⟩
  | localMin =>
    rw [hact] at hh
    simp only [actHot, Prod.mk.injEq] at hh
    have hnb := act_localMin _ _ _ _ _ _ _ _ _ _ _ hact
    have hf := minFront1_old pre q hq
    refine ⟨_, rfl, ?_, ?_, ?_⟩
    · have := pair_rebuild pre rest id shapePres_id { b with e := (intersectPair cfg a.e b.e).2, orec := some (minRecs pre false n).2 }
          { a with e := (intersectPair cfg a.e b.e).1, orec := some (minRecs pre false n).1 }
        q q2 hp hq h2 h3 l1 l3 f5 f2 hjb hja ?_ (by simp [hh.2]) (by simp [hh.1])
      · simpa using this
      · revert hq2 hnb
        cases a.orec <;> cases b.orec <;> simp [alt2, minRecs, hf]
    · have := erase_pair pre rest id shapePres_id { b with e := (intersectPair cfg a.e b.e).2, orec := some (minRecs pre false n).2 }
          { a with e := (intersectPair cfg a.e b.e).1, orec := some (minRecs pre false n).1 }
      simpa using this
    · intro hr
      have hna : a.orec = none := by cases h : a.orec <;> simp [h] at hnb ⊢
      have hnb' : b.orec = none := by cases h : b.orec <;> simp [h] at hnb ⊢
      have := recsOK_fresh n pre [a, b] rest { b with e := (intersectPair cfg a.e b.e).2, orec := some (minRecs pre false n).2 }
          { a with e := (intersectPair cfg a.e b.e).1, orec := some (minRecs pre false n).1 } (minRecs pre false n).2.front hr
          (by intro k; simp [cnt, keyOf, hna, hnb']) rfl (by simp [minRecs])
      simpa using this
  | localMax =>
    rw [hact] at hh
    simp only [actHot, Prod.mk.injEq] at hh
    have hnb := act_localMax _ _ _ _ _ _ _ _ _ _ _ hact
    cases hra : a.orec with
    | none => simp [hra] at hnb
    | some ra =>
      cases hrb : b.orec with
      | none => simp [hrb] at hnb
      | some rb =>
        simp only [hra, hrb, Option.map_some, alt2] at hq2
        have hne : ra.front ≠ rb.front := by
          revert hq2; cases ra.front <;> cases rb.front <;> cases q <;> simp
        obtain ⟨g, hg⟩ := addLocalMaxFn_ok ra rb hne
        have hgs := addLocalMaxFn_shape ra rb g hg
        simp only [hg]
        refine ⟨_, rfl, ?_, ?_, ?_⟩
        · refine pair_rebuild pre rest g hgs { b with e := (intersectPair cfg a.e b.e).2, orec := none }
            { a with e := (intersectPair cfg a.e b.e).1, orec := none }
            q q2 hp hq h2 h3 l1 l3 f5 f2 hjb hja ?_ (by simp [hh.2]) (by simp [hh.1])
          revert hq2; cases ra.front <;> cases rb.front <;> cases q <;> simp [alt2]
        · exact erase_pair pre rest g hgs _ _
        · intro hr
          have := recsOK_localMax n pre rest [{ b with e := (intersectPair cfg a.e b.e).2, orec := none }, { a with e := (intersectPair cfg a.e b.e).1, orec := none }]
            a b ra rb g hra hrb hne hg (by intro k; simp [cnt, keyOf]) hr
          simpa using this
  | maxThenMin =>
    rw [hact] at hh
    simp only [actHot, Prod.mk.injEq] at hh
    have hnb := act_maxThenMin _ _ _ _ _ _ _ _ _ _ _ hact
    have hf := minFront1_old pre q hq
    cases hra : a.orec with
    | none => simp [hra] at hnb
    | some ra =>
      cases hrb : b.orec with
      | none => simp [hrb] at hnb
      | some rb =>
        simp only [hra, hrb, Option.map_some, alt2] at hq2
        have hne : ra.front ≠ rb.front := by
          revert hq2; cases ra.front <;> cases rb.front <;> cases q <;> simp
        obtain ⟨g, hg⟩ := addLocalMaxFn_ok ra rb hne
        have hgs := addLocalMaxFn_shape ra rb g hg
        simp only [hg, minRecs_map_shape hgs]
        refine ⟨_, rfl, ?_, ?_, ?_⟩
        · refine pair_rebuild pre rest g hgs { b with e := (intersectPair cfg a.e b.e).2, orec := some (minRecs pre false n).2 }
            { a with e := (intersectPair cfg a.e b.e).1, orec := some (minRecs pre false n).1 }
            q q2 hp hq h2 h3 l1 l3 f5 f2 hjb hja ?_ (by simp [hh.2]) (by simp [hh.1])
          revert hq2; cases ra.front <;> cases rb.front <;> cases q <;> simp [alt2, minRecs, hf]
        · exact erase_pair pre rest g hgs _ _
        · intro hr
          have h1 := recsOK_localMax n pre rest [] a b ra rb g hra hrb hne hg (by intro k; simp [cnt]) hr
          have := recsOK_fresh n (pre.map g) [] (rest.map g) { b with e := (intersectPair cfg a.e b.e).2, orec := some (minRecs pre false n).2 }
            { a with e := (intersectPair cfg a.e b.e).1, orec := some (minRecs pre false n).1 } (minRecs pre false n).2.front h1
            (by intro k; simp [cnt]) rfl (by simp [minRecs])
          simpa using this

/-! ## the events -/

/-- outcome of a step: `ok` states satisfy `P`, a rejected event says nothing, a fault never happens -/
def StepOK (r : Except Err SState) (P : SState → Prop) : Prop :=
  match r with
  | .ok s' => P s'
  | .error .reject => True
  | .error (.fault _) => False

theorem stepOK_bind (r : Except Err SState) (f : SState → Except Err SState) (P Q : SState → Prop)
    (h : StepOK r P) (hf : ∀ s1, P s1 → StepOK (f s1) Q) : StepOK (r >>= f) Q := by
  cases r with
  | ok s1 => exact hf s1 h
  | error e => cases e with
    | reject => trivial
    | fault f => exact h.elim

theorem stepOK_mono (r : Except Err SState) (P Q : SState → Prop) (h : StepOK r P) (hpq : ∀ s, P s → Q s) : StepOK r Q := by
  cases r with
  | ok s1 => exact hpq s1 h
  | error e => cases e with
    | reject => trivial
    | fault f => exact h.elim

theorem splitAt_stepOK (i : Nat) (s : SState) (hs : Side s.ael) : StepOK (splitAt i s) (SplitPost i s) := by
  by_cases hi : i < s.ael.length
  · obtain ⟨s', h1, h2⟩ := splitAt_spec i s hs hi
    rw [h1]; exact h2
  · have : s.ael[i]? = none := List.getElem?_eq_none (by omega)
    simp [splitAt, this, StepOK]

theorem erase_length (l : List SEdge) : (erase l).length = l.length := by simp [erase]

theorem erase_window (l : List SEdge) (i : Nat) (a b : SEdge) (rest : List SEdge) (h : l.drop i = a :: b :: rest) :
    (erase l).drop i = a.e :: b.e :: erase rest ∧ (erase l).take i = erase (l.take i) := by
  simp only [erase, ← List.map_drop, ← List.map_take, h, List.map_cons, and_self]

theorem window_elems {α} (l : List α) (i : Nat) (a b : α) (rest : List α) (h : l.drop i = a :: b :: rest) :
    l[i]? = some a ∧ l[i + 1]? = some b := by
  have h1 := getElem?_splice l i a b rest h a b i
  have h2 := getElem?_splice l i a b rest h a b (i + 1)
  rw [← drop_split l i _ h] at h1 h2
  simp at h1 h2
  exact ⟨h1, h2⟩

theorem window_exists {α} (l : List α) (i : Nat) (h : i + 1 < l.length) : ∃ a b rest, l.drop i = a :: b :: rest := by
  refine ⟨l[i], l[i + 1], l.drop (i + 2), ?_⟩
  rw [List.drop_eq_getElem_cons (by omega), List.drop_eq_getElem_cons (by omega)]

theorem window_length {α} (l : List α) (i : Nat) (a b : α) (rest : List α) (h : l.drop i = a :: b :: rest) : i + 1 < l.length := by
  have := congrArg List.length h
  simp at this; omega

/-- after any number of `Split`s (which keep the erased list) the window at `i` is still there, with the same base edges -/
theorem after_splits (i : Nat) (l l2 : List SEdge) (a0 b0 : SEdge) (rest0 : List SEdge) (h0 : l.drop i = a0 :: b0 :: rest0)
    (hera : erase l2 = erase l) :
    ∃ a b rest, l2.drop i = a :: b :: rest ∧ a.e = a0.e ∧ b.e = b0.e ∧ erase rest = erase rest0 ∧
      erase (l2.take i) = erase (l.take i) := by
  have hlen : l2.length = l.length := by rw [← erase_length l2, hera, erase_length]
  obtain ⟨a, b, rest, h2⟩ := window_exists l2 i (by rw [hlen]; exact window_length l i _ _ _ h0)
  obtain ⟨e1, e2⟩ := erase_window l i _ _ _ h0
  obtain ⟨e3, e4⟩ := erase_window l2 i _ _ _ h2
  rw [hera, e1] at e3
  rw [hera, e2] at e4
  simp only [List.cons.injEq] at e3
  exact ⟨a, b, rest, h2, e3.1.symm, e3.2.1.symm, e3.2.2.symm, e4.symm⟩

theorem intersectOpen_isOpen (cfg : Cfg) (eo ec : Edge) : (intersectOpen cfg eo ec).isOpen = eo.isOpen := by
  unfold intersectOpen
  split <;> (try split) <;> (try split) <;> rfl

theorem localOK_congr_open (x : SEdge) (e' : Edge) (h : e'.isOpen = true) (hx : x.e.isOpen = true) :
    localOK { x with e := e' } = localOK x := by simp [localOK, h, hx]

theorem intersectPair_open_localOK (cfg : Cfg) (a b : SEdge) (h : (a.e.isOpen || b.e.isOpen) = true) :
    localOK { b with e := (intersectPair cfg a.e b.e).2 } = localOK b ∧ localOK { a with e := (intersectPair cfg a.e b.e).1 } = localOK a := by
  cases hao : a.e.isOpen <;> cases hbo : b.e.isOpen <;> simp [hao, hbo] at h
  · simp only [intersectPair, hao, hbo, Bool.false_or, Bool.false_and, if_true, Bool.false_eq_true, if_false]
    exact ⟨localOK_congr_open b _ (by rw [intersectOpen_isOpen]; exact hbo) hbo, trivial⟩
  · simp only [intersectPair, hao, hbo, Bool.true_or, Bool.and_false, if_true, Bool.false_eq_true, if_false]
    exact ⟨trivial, localOK_congr_open a _ (by rw [intersectOpen_isOpen]; exact hao) hao⟩
  · simp only [intersectPair, hao, hbo, Bool.or_self, Bool.and_self, if_true]
    exact ⟨trivial, trivial⟩

/-- **`IntersectEdges` + `SwapPositionsInAEL`** keeps the side part of the invariant, never faults, and erases to the old model's step -/
theorem intersectS_spec (cfg : Cfg) (i : Nat) (s : SState) (hs : Side s.ael) :
    StepOK (intersectS cfg i s) (fun s' => Side s'.ael ∧ intersect cfg i (erase s.ael) = some (erase s'.ael) ∧ Recs s s') := by
  unfold intersectS
  split
  next a0 b0 rest0 h0 =>
    obtain ⟨w1, w2⟩ := erase_window _ _ _ _ _ h0
    have hsim : ∀ l', l' = (erase s.ael).take i ++ (intersectPair cfg a0.e b0.e).2 :: (intersectPair cfg a0.e b0.e).1 :: erase rest0 →
        intersect cfg i (erase s.ael) = some l' := by
      intro l' hl'; simp only [intersect, w1, hl']
    split
    next hopen =>
      -- open branch
      refine stepOK_bind _ _ (fun s1 => Side s1.ael ∧ erase s1.ael = erase s.ael ∧
          ((a0.e.isOpen = false → JoinNoneAt s1.ael i) ∧ (b0.e.isOpen = false → JoinNoneAt s1.ael (i + 1))) ∧ Recs s s1) _ ?_ ?_
      · split
        next hboth =>
          simp only [Bool.and_eq_true] at hboth
          refine ⟨hs, rfl, ⟨fun h => ?_, fun h => ?_⟩, fun h => h⟩
          · rw [h] at hboth; simp at hboth
          · rw [h] at hboth; simp at hboth
        next hboth =>
          split
          next hao =>
            refine stepOK_mono _ _ _ (splitAt_stepOK (i + 1) s hs) ?_
            intro s1 hp; exact ⟨hp.side, hp.era, ⟨fun h => by rw [h] at hao; simp at hao, fun _ => hp.here⟩, hp.recs⟩
          next hao =>
            refine stepOK_mono _ _ _ (splitAt_stepOK i s hs) ?_
            intro s1 hp
            refine ⟨hp.side, hp.era, ⟨fun _ => hp.here, fun h => ?_⟩, hp.recs⟩
            simp only [Bool.or_eq_true] at hopen
            rcases hopen with h' | h'
            · exact absurd h' hao
            · rw [h] at h'; simp at h'
      · intro s1 ⟨hs1, hera, hj, hrec1⟩
        obtain ⟨a, b, rest, h2, ea, eb, er, et⟩ := after_splits i s.ael s1.ael a0 b0 rest0 h0 hera
        simp only [h2, StepOK]
        have hl : s1.ael = s1.ael.take i ++ [a, b] ++ rest := by rw [List.append_assoc]; exact drop_split _ _ _ h2
        rw [hl] at hs1
        obtain ⟨we1, we2⟩ := window_elems _ _ _ _ _ h2
        obtain ⟨p, q, p2, q2, hp, hq, hp2, hq2, h2', h3, l1, l2, l3⟩ := (side_ctx _ _ _).mp hs1
        obtain ⟨f1, f2, f3, f4, f5, f6⟩ := intersectPair_fields cfg a.e b.e
        simp only [List.all_cons, List.all_nil, Bool.and_true, Bool.and_eq_true] at l2
        -- both edges are unjoined: the open one by `localOK`, the closed one because it has been split
        have hja : a.join = .none := by
          cases hao : a.e.isOpen
          · exact hj.1 (ea ▸ hao) a we1
          · have := l2.1; simp [localOK, hao] at this; exact this.2
        have hjb : b.join = .none := by
          cases hbo : b.e.isOpen
          · exact hj.2 (eb ▸ hbo) b we2
          · have := l2.2; simp [localOK, hbo] at this; exact this.2
        have hp2' : p = false ∧ p2 = false := by
          cases p <;> simp [joinRun, hja, hjb] at hp2 <;> simp [hp2]
        obtain ⟨rfl, rfl⟩ := hp2'
        refine ⟨?_, ?_, ?_⟩
        · have := side_rebuild (s1.ael.take i) [{ b with e := (intersectPair cfg a.e b.e).2 }, { a with e := (intersectPair cfg a.e b.e).1 }] rest id shapePres_id
            false q false q2 hp hq (by simp [joinRun, hja, hjb]) ?_ h2' h3 l1 ?_ l3
          · simpa using this
          · -- alternation: one of the two is open, hence untracked; the closed one is unchanged
            rw [altRun_two] at hq2 ⊢
            simp only [Bool.or_eq_true] at hopen
            simp only [intersectPair] at *
            rcases hopen with h' | h'
            · have hao : a.e.isOpen = true := ea ▸ h'
              cases hbo : b.e.isOpen
              · simp [hao, hbo, tracked, intersectOpen] at hq2 ⊢
                revert hq2; split <;> (try split) <;> (try split) <;> simp [alt2] <;> cases b.orec <;> simp
              · simp [hao, hbo, tracked, alt2] at hq2 ⊢; exact hq2
            · have hbo : b.e.isOpen = true := eb ▸ h'
              cases hao : a.e.isOpen
              · simp [hao, hbo, tracked, intersectOpen] at hq2 ⊢
                revert hq2; split <;> (try split) <;> (try split) <;> simp [alt2] <;> cases a.orec <;> simp
              · simp [hao, hbo, tracked, alt2] at hq2 ⊢; exact hq2
          · obtain ⟨o1, o2⟩ := intersectPair_open_localOK cfg a b (by rw [ea, eb]; exact hopen)
            simp only [List.all_cons, List.all_nil, Bool.and_true, Bool.and_eq_true, o1, o2]
            exact ⟨l2.2, l2.1⟩
        · apply hsim
          rw [ea, eb]
          simp only [erase, List.map_append, List.map_cons] at et er ⊢
          rw [et, er, List.map_take]
        · intro hr
          have h1 := hrec1 hr
          rw [hl] at h1
          have := recsOK_window s1.next (s1.ael.take i) [a, b] [{ b with e := (intersectPair cfg a.e b.e).2 }, { a with e := (intersectPair cfg a.e b.e).1 }] rest h1
            (fun k => cnt_pair_le_of_keys k _ _ _ _ (Or.inl ⟨rfl, rfl⟩))
          simpa using this
    next hopen =>
      simp only [Bool.or_eq_true, not_or, Bool.not_eq_true] at hopen
      refine stepOK_bind _ _ (SplitPost i s) _ (splitAt_stepOK i s hs) ?_
      intro s1 hp1
      refine stepOK_bind _ _ (fun s2 => Side s2.ael ∧ erase s2.ael = erase s.ael ∧ JoinNoneAt s2.ael i ∧ JoinNoneAt s2.ael (i + 1) ∧ Recs s s2) _ ?_ ?_
      · refine stepOK_mono _ _ _ (splitAt_stepOK (i + 1) s1 hp1.side) ?_
        intro s2 hp2; exact ⟨hp2.side, hp2.era.trans hp1.era, hp2.mono i hp1.here, hp2.here, fun h => hp2.recs (hp1.recs h)⟩
      · intro s2 ⟨hs2, hera, hj1, hj2, hrec2⟩
        obtain ⟨a, b, rest, h2, ea, eb, er, et⟩ := after_splits i s.ael s2.ael a0 b0 rest0 h0 hera
        simp only [h2]
        have hl : s2.ael = s2.ael.take i ++ [a, b] ++ rest := by rw [List.append_assoc]; exact drop_split _ _ _ h2
        rw [hl] at hs2
        obtain ⟨we1, we2⟩ := window_elems _ _ _ _ _ h2
        obtain ⟨s', e1, e2, e3⟩ := intersectCore_spec cfg (s2.ael.take i) a b rest s2.next hs2
          (ea ▸ hopen.1) (eb ▸ hopen.2) (hj1 a we1) (hj2 b we2)
        rw [e1]
        refine ⟨e2, hsim _ ?_, fun hr => e3.2 (by rw [← hl]; exact hrec2 hr)⟩
        rw [e3.1, ea, eb, et, er, w2]
  next => trivial

/-- under the C01 invariant the two edges of a closed maxima pair are both hot or both cold -/
theorem inv_pair_hot (cfg : Cfg) (l : Ael) (i : Nat) (e1 e2 : Edge) (rest : List Edge) (hd : l.drop i = e1 :: e2 :: rest)
    (hc : e1.pt = e2.pt ∧ e1.isOpen = e2.isOpen ∧ e1.dx + e2.dx = 0) (ho : e1.isOpen = false) (h : Inv cfg l) :
    e1.hot = e2.hot := by
  obtain ⟨hpt, hop, hdx⟩ := hc
  unfold Model.Inv at h
  rw [drop_split l i _ hd, invFrom_append] at h
  have h2 := h.2
  simp only [InvFrom] at h2
  obtain ⟨k1, k2, _⟩ := h2
  have ho2 : e2.isOpen = false := hop ▸ ho
  obtain ⟨d1, w1, hh1⟩ := k1 ho
  obtain ⟨d2, w2, hh2⟩ := k2 ho2
  rw [hh1, hh2, ← hpt]
  have c1 : contrib e1.pt e1 = e1.dx := contrib_own e1 ho
  have c2 : contrib (other e1.pt) e1 = 0 := contrib_other e1
  have hdx2 : e2.dx = -e1.dx := by omega
  rw [← hpt] at w2
  generalize sumT PathType.subject (List.take i l) = S at *
  generalize sumT PathType.clip (List.take i l) = C at *
  have o1 : own e1.pt (0 + S + contrib .subject e1) (0 + C + contrib .clip e1) = own e1.pt (0 + S) (0 + C) + e1.dx := by
    cases hp : e1.pt <;> simp only [own, contrib, hp, ho] <;> simp
  have o2 : own (other e1.pt) (0 + S + contrib .subject e1) (0 + C + contrib .clip e1) = own (other e1.pt) (0 + S) (0 + C) := by
    cases hp : e1.pt <;> simp only [own, other, contrib, hp, ho] <;> simp
  rw [o1, o2, hdx2] at w2
  generalize own e1.pt (0 + S) (0 + C) = A at *
  generalize own (other e1.pt) (0 + S) (0 + C) = B at *
  cases hfr : cfg.fr <;> simp only [hfr, WcOK] at w1 w2
  · -- evenOdd: `pre` is true whatever the count
    simp only [isContributingClosed, pre, w1.2, w2.2]
  all_goals
    have := maxabs_back A e1.dx d1
    rw [← this] at w2
    rw [w1.1, w1.2, w2.1, w2.2]

theorem erase_remove (pre rest : List SEdge) (g : SEdge → SEdge) (hg : ShapePres g) :
    erase (pre.map g ++ rest.map g) = erase pre ++ erase rest := by
  have h1 := erase_map_shape hg pre
  have h2 := erase_map_shape hg rest
  simp only [erase] at h1 h2 ⊢
  simp [h1, h2]

/-- **`DoMaxima` / `DoHorizontal` pair removal** never faults under the invariant -/
theorem removePairS_spec (cfg : Cfg) (i : Nat) (s : SState) (hs : Side s.ael) (hinv : Inv cfg (erase s.ael)) :
    StepOK (removePairS i s) (fun s' => Side s'.ael ∧ removePair i (erase s.ael) = some (erase s'.ael) ∧ Recs s s') := by
  unfold removePairS
  split
  next a0 b0 rest0 h0 =>
    obtain ⟨w1, w2⟩ := erase_window _ _ _ _ _ h0
    split
    next hc =>
      have hsim : ∀ l', l' = (erase s.ael).take i ++ erase rest0 → removePair i (erase s.ael) = some l' := by
        intro l' hl'; simp only [removePair, w1, hc, and_self, if_true, hl']
      split
      next hao =>
        -- open pair: neither edge is tracked or joined
        have hbo : b0.e.isOpen = true := hc.2.1 ▸ hao
        have hl : s.ael = s.ael.take i ++ [a0, b0] ++ rest0 := by rw [List.append_assoc]; exact drop_split _ _ _ h0
        rw [hl] at hs
        refine ⟨?_, hsim _ (by simp [erase, ← List.map_take]), ?_⟩
        rotate_left
        · intro hr
          have hl' : s.ael = s.ael.take i ++ [a0, b0] ++ rest0 := by rw [List.append_assoc]; exact drop_split _ _ _ h0
          rw [hl'] at hr
          have := recsOK_window s.next (s.ael.take i) [a0, b0] [] rest0 hr (by intro k; simp [cnt])
          simpa using this
        have := side_replace_id (s.ael.take i) [a0, b0] rest0 [] hs ?_
        · simpa using this
        · intro p q p2 q2 _ _ hp2 hq2 hloc
          simp only [List.all_cons, List.all_nil, Bool.and_true, Bool.and_eq_true] at hloc
          have la := hloc.1; have lb := hloc.2
          simp [localOK, hao] at la
          simp [localOK, hbo] at lb
          rw [altRun_two] at hq2
          simp [tracked, hao, hbo, alt2] at hq2
          cases p <;> simp [joinRun, la.2, lb.2] at hp2 <;> simp [joinRun, altRun, hp2, hq2]
      next hao =>
        simp only [Bool.not_eq_true] at hao
        have hbo : b0.e.isOpen = false := hc.2.1 ▸ hao
        refine stepOK_bind _ _ (SplitPost i s) _ (splitAt_stepOK i s hs) ?_
        intro s1 hp1
        refine stepOK_bind _ _ (fun s2 => Side s2.ael ∧ erase s2.ael = erase s.ael ∧ JoinNoneAt s2.ael i ∧ JoinNoneAt s2.ael (i + 1) ∧ Recs s s2) _ ?_ ?_
        · refine stepOK_mono _ _ _ (splitAt_stepOK (i + 1) s1 hp1.side) ?_
          intro s2 hp2; exact ⟨hp2.side, hp2.era.trans hp1.era, hp2.mono i hp1.here, hp2.here, fun h => hp2.recs (hp1.recs h)⟩
        · intro s2 ⟨hs2, hera, hj1, hj2, hrec2⟩
          obtain ⟨a, b, rest, h2, ea, eb, er, et⟩ := after_splits i s.ael s2.ael a0 b0 rest0 h0 hera
          simp only [h2]
          have hl : s2.ael = s2.ael.take i ++ [a, b] ++ rest := by rw [List.append_assoc]; exact drop_split _ _ _ h2
          rw [hl] at hs2
          obtain ⟨we1, we2⟩ := window_elems _ _ _ _ _ h2
          have hja := hj1 a we1
          have hjb := hj2 b we2
          have ha : a.e.isOpen = false := ea ▸ hao
          have hb : b.e.isOpen = false := eb ▸ hbo
          obtain ⟨p, q, p2, q2, hp, hq, hp2, hq2, h2', h3, l1, l2, l3⟩ := (side_ctx _ _ _).mp hs2
          obtain ⟨rfl, rfl, hha, hhb⟩ := pair_facts a b p p2 ha hb hja hjb hp2 l2
          rw [altRun_two, tracked_closed a ha, tracked_closed b hb] at hq2
          -- both hot or both cold (C01 invariant)
          have hhot : a.e.hot = b.e.hot := by
            rw [ea, eb]
            exact inv_pair_hot cfg (erase s.ael) i a0.e b0.e (erase rest0) w1 hc hao hinv
          have hera' : (erase s.ael).take i ++ erase rest0 = erase (s2.ael.take i) ++ erase rest := by rw [w2, et, er]
          cases hra : a.orec with
          | none =>
            cases hrb : b.orec with
            | none =>
              simp only [StepOK]
              refine ⟨?_, hsim _ (by rw [hera']; simp [erase]), ?_⟩
              rotate_left
              · intro hr
                have h1 := hrec2 hr
                rw [hl] at h1
                have := recsOK_window s2.next (s2.ael.take i) [a, b] [] rest h1 (by intro k; simp [cnt])
                simpa using this
              have := side_rebuild (s2.ael.take i) [] rest id shapePres_id false q false q2 hp hq rfl ?_ h2' h3 l1 rfl l3
              · simpa using this
              · simp [hra, hrb, alt2] at hq2; simp [altRun, hq2]
            | some rb => rw [hha, hhb, hra, hrb] at hhot; simp at hhot
          | some ra =>
            cases hrb : b.orec with
            | none => rw [hha, hhb, hra, hrb] at hhot; simp at hhot
            | some rb =>
              simp only [hra, hrb, Option.map_some, alt2] at hq2
              have hne : ra.front ≠ rb.front := by
                revert hq2; cases ra.front <;> cases rb.front <;> cases q <;> simp
              obtain ⟨g, hg⟩ := addLocalMaxFn_ok ra rb hne
              have hgs := addLocalMaxFn_shape ra rb g hg
              simp only [hg, StepOK]
              refine ⟨?_, hsim _ (by rw [hera', erase_remove _ _ g hgs]), ?_⟩
              rotate_left
              · intro hr
                have h1 := hrec2 hr
                rw [hl] at h1
                have := recsOK_localMax s2.next (s2.ael.take i) rest [] a b ra rb g hra hrb hne hg (by intro k; simp [cnt]) h1
                simpa using this
              have := side_rebuild (s2.ael.take i) [] rest g hgs false q false q2 hp hq rfl ?_ h2' h3 l1 rfl l3
              · simpa using this
              · revert hq2; cases ra.front <;> cases rb.front <;> cases q <;> simp [altRun]
    next => trivial
  next => trivial

/-- **`CheckJoinLeft/Right`** never call `JoinOutrecPaths` on two edges of the same side -/
theorem joinS_spec (i : Nat) (s : SState) (hs : Side s.ael) :
    StepOK (joinS i s) (fun s' => Side s'.ael ∧ erase s'.ael = erase s.ael ∧ Recs s s') := by
  unfold joinS
  split
  next a b rest h0 =>
    split
    next => trivial
    next hopen =>
      simp only [Bool.or_eq_true, not_or, Bool.not_eq_true] at hopen
      have hl : s.ael = s.ael.take i ++ [a, b] ++ rest := by rw [List.append_assoc]; exact drop_split _ _ _ h0
      have hs' := hs; rw [hl] at hs'
      obtain ⟨p, q, p2, q2, hp, hq, hp2, hq2, h2', h3, l1, l2, l3⟩ := (side_ctx _ _ _).mp hs'
      cases hra : a.orec with
      | none => trivial
      | some ra =>
        cases hrb : b.orec with
        | none => trivial
        | some rb =>
          simp only
          simp only [List.all_cons, List.all_nil, Bool.and_true, Bool.and_eq_true] at l2
          have la := l2.1; have lb := l2.2
          simp [localOK, hopen.1, hra] at la
          simp [localOK, hopen.2, hrb] at lb
          obtain ⟨rfl, rfl⟩ : p = false ∧ p2 = false := by
            cases p <;> simp [joinRun, la.2, lb.2] at hp2 <;> simp [hp2]
          rw [altRun_two, tracked_closed a hopen.1, tracked_closed b hopen.2] at hq2
          simp only [hra, hrb, Option.map_some, alt2] at hq2
          have hne : ra.front ≠ rb.front := by
            revert hq2; cases ra.front <;> cases rb.front <;> cases q <;> simp
          obtain ⟨g, hg⟩ := addLocalMaxFn_ok ra rb hne
          have hgs := addLocalMaxFn_shape ra rb g hg
          have hnn : ¬(ra.id ≠ rb.id ∧ ra.front = rb.front) := fun h => hne h.2
          simp only [hnn, if_false, hg, StepOK]
          refine ⟨?_, ?_, ?_⟩
          rotate_right
          · intro hr
            rw [hl] at hr
            have := recsOK_localMax s.next (s.ael.take i) rest [{ a with join := .right, orec := none }, { b with join := .left, orec := none }]
              a b ra rb g hra hrb hne hg (by intro k; simp [cnt, keyOf]) hr
            simpa using this
          · have := side_rebuild (s.ael.take i) [{ a with join := .right, orec := none }, { b with join := .left, orec := none }] rest g hgs
              false q false q2 hp hq (by simp [joinRun]) ?_ h2' h3 l1 ?_ l3
            · simpa using this
            · rw [altRun_two]
              revert hq2; cases ra.front <;> cases rb.front <;> cases q <;> simp [tracked, alt2]
            · simp [localOK, hopen.1, hopen.2, la.1, lb.1]
          · rw [erase_pair _ _ g hgs]
            conv => rhs; rw [hl]
            simp [erase]
  next => trivial

theorem splitS_spec (i : Nat) (s : SState) (hs : Side s.ael) :
    StepOK (splitS i s) (fun s' => Side s'.ael ∧ erase s'.ael = erase s.ael ∧ Recs s s') := by
  by_cases hi : i < s.ael.length
  · obtain ⟨s', h1, h2⟩ := splitAt_spec i s hs hi
    unfold splitS
    unfold splitAt at h1
    rw [List.getElem?_eq_getElem hi] at h1 ⊢
    simp only at h1 ⊢
    split
    · trivial
    next hj =>
      simp only [hj, if_false] at h1
      rw [h1]; exact ⟨h2.side, h2.era, h2.recs⟩
  · have : s.ael[i]? = none := List.getElem?_eq_none (by omega)
    simp [splitS, this, StepOK]

theorem addLocalMin_eq (i : Nat) (isNew : Bool) (pre : List SEdge) (a b : SEdge) (rest : List SEdge) (n : Nat) (hlen : pre.length = i) :
    addLocalMin i isNew ⟨pre ++ a :: b :: rest, n⟩ =
      ⟨pre ++ { a with orec := some (minRecs pre isNew n).1 } :: { b with orec := some (minRecs pre isNew n).2 } :: rest, n + 1⟩ := by
  simp only [addLocalMin, List.drop_left' hlen, List.take_left' hlen]

/-- the automaton states at an insertion point that does not separate a joined pair -/
theorem insert_ctx (pos : Nat) (l : List SEdge) (hs : Side l) (hsep : separatesJoin pos l = false) :
    ∃ q, joinRun false (l.take pos) = some false ∧ altRun true (l.take pos) = some q ∧
      joinOKFrom false (l.drop pos) = true ∧ altFrom q (l.drop pos) = true ∧
      (l.take pos).all localOK = true ∧ (l.drop pos).all localOK = true := by
  have hl : l = l.take pos ++ [] ++ l.drop pos := by simp
  rw [hl] at hs
  obtain ⟨p, q, p2, q2, hp, hq, hp2, hq2, h2, h3, l1, _, l3⟩ := (side_ctx _ _ _).mp hs
  simp [joinRun] at hp2
  simp [altRun] at hq2
  subst hp2 hq2
  have hlast := joinRun_last _ _ _ hp
  unfold separatesJoin at hsep
  have hpf : p = false := by
    revert hlast hsep
    cases (l.take pos).getLast? with
    | none => intro _ h1; simpa using h1
    | some x => intro h2 h1; exact h1.trans h2
  subst hpf
  exact ⟨q, hp, hq, h2, h3, l1, l3⟩

theorem side_rebuild2 (pre rest : List SEdge) (x y : SEdge) (q q2 : Bool)
    (hp : joinRun false pre = some false) (hq : altRun true pre = some q)
    (m1 : joinRun false [x, y] = some false) (m2 : altRun q [x, y] = some q2)
    (h2 : joinOKFrom false rest = true) (h3 : altFrom q2 rest = true)
    (l1 : pre.all localOK = true) (m3 : [x, y].all localOK = true) (l3 : rest.all localOK = true) :
    Side (pre ++ x :: y :: rest) := by
  have := side_rebuild pre [x, y] rest id shapePres_id false q false q2 hp hq m1 m2 h2 h3 l1 m3 l3
  simpa using this

theorem side_rebuild1 (pre rest : List SEdge) (x : SEdge) (q q2 : Bool)
    (hp : joinRun false pre = some false) (hq : altRun true pre = some q)
    (m1 : joinRun false [x] = some false) (m2 : altRun q [x] = some q2)
    (h2 : joinOKFrom false rest = true) (h3 : altFrom q2 rest = true)
    (l1 : pre.all localOK = true) (m3 : [x].all localOK = true) (l3 : rest.all localOK = true) :
    Side (pre ++ x :: rest) := by
  have := side_rebuild pre [x] rest id shapePres_id false q false q2 hp hq m1 m2 h2 h3 l1 m3 l3
  simpa using this

theorem insertPairS_spec (cfg : Cfg) (pos : Nat) (pt : PathType) (isOpen : Bool) (dxLeft : Int) (s : SState) (hs : Side s.ael) :
    StepOK (insertPairS cfg pos pt isOpen dxLeft s)
      (fun s' => Side s'.ael ∧ insertPair cfg pos pt isOpen dxLeft (erase s.ael) = some (erase s'.ael) ∧ Recs s s') := by
  unfold insertPairS
  split
  next hc =>
    obtain ⟨hpos, hdx, hsep⟩ := hc
    obtain ⟨q, hp, hq, h2, h3, l1, l3⟩ := insert_ctx pos s.ael hs hsep
    have hlen : (s.ael.take pos).length = pos := by simp [List.length_take]; omega
    have hsim : ∀ (x y : SEdge),
        x.e = { (newLeft cfg (erase (s.ael.take pos)) pt isOpen dxLeft).1 with hot := (newLeft cfg (erase (s.ael.take pos)) pt isOpen dxLeft).2 } →
        y.e = { pt := pt, isOpen := isOpen, dx := -dxLeft, wc := (newLeft cfg (erase (s.ael.take pos)) pt isOpen dxLeft).1.wc,
                wc2 := (newLeft cfg (erase (s.ael.take pos)) pt isOpen dxLeft).1.wc2, hot := (newLeft cfg (erase (s.ael.take pos)) pt isOpen dxLeft).2 } →
        insertPair cfg pos pt isOpen dxLeft (erase s.ael) = some (erase (s.ael.take pos ++ x :: y :: s.ael.drop pos)) := by
      intro x y hx hy
      have : pos ≤ (erase s.ael).length := by rw [erase_length]; exact hpos
      simp only [insertPair, this, hdx, and_self, if_true]
      simp only [erase, List.map_append, List.map_cons, hx, hy, List.map_take, List.map_drop]
    obtain ⟨g1, g2, g3⟩ := newLeft_fields cfg (erase (s.ael.take pos)) pt isOpen dxLeft
    simp only [StepOK]
    split
    next hcon =>
      simp only [Bool.and_eq_true, Bool.not_eq_true'] at hcon
      obtain ⟨hcon, hclosed⟩ := hcon
      subst hclosed
      rw [addLocalMin_eq pos true _ _ _ _ _ hlen]
      have hf := minFront1_new _ q hq
      refine ⟨?_, hsim _ _ rfl rfl, ?_⟩
      rotate_left
      · intro hr
        exact recsOK_fresh2 _ _ _ _ _ _ (by rw [List.take_append_drop]; exact hr) rfl rfl
      refine side_rebuild2 _ _ _ _ q q hp hq ?_ ?_ h2 h3 l1 ?_ l3
      · simp [joinRun]
      · rw [altRun_two]; simp [tracked, g2, minRecs, hf, alt2]
      · simp [localOK, g2, hcon]
    next hcon =>
      refine ⟨?_, hsim _ _ rfl rfl, ?_⟩
      rotate_left
      · intro hr
        exact recsOK_add2 _ _ _ _ _ (by rw [List.take_append_drop]; exact hr) rfl rfl
      refine side_rebuild2 _ _ _ _ q q hp hq ?_ ?_ h2 h3 l1 ?_ l3
      · simp [joinRun]
      · rw [altRun_two]; simp [tracked, alt2]
      · simp only [Bool.and_eq_true, Bool.not_eq_true', not_and, Bool.not_eq_false] at hcon
        rcases Bool.eq_false_or_eq_true isOpen with ho | ho <;> subst ho
        · simp [localOK, g2]
        · cases hr : (newLeft cfg (erase (s.ael.take pos)) pt false dxLeft).2
          · simp [localOK, g2]
          · exact absurd (hcon hr) (by simp)
  next => trivial

theorem insertOneS_spec (cfg : Cfg) (pos : Nat) (pt : PathType) (dx : Int) (s : SState) (hs : Side s.ael) :
    StepOK (insertOneS cfg pos pt dx s)
      (fun s' => Side s'.ael ∧ insertOne cfg pos pt dx (erase s.ael) = some (erase s'.ael) ∧ Recs s s') := by
  unfold insertOneS
  split
  next hc =>
    obtain ⟨hpos, hdx, hsep⟩ := hc
    obtain ⟨q, hp, hq, h2, h3, l1, l3⟩ := insert_ctx pos s.ael hs hsep
    obtain ⟨g1, g2, g3⟩ := newLeft_fields cfg (erase (s.ael.take pos)) pt true dx
    simp only [StepOK]
    refine ⟨?_, ?_, ?_⟩
    rotate_right
    · intro hr
      exact recsOK_add1 _ _ _ _ (by rw [List.take_append_drop]; exact hr) rfl
    · refine side_rebuild1 _ _ _ q q hp hq ?_ ?_ h2 h3 l1 ?_ l3
      · simp [joinRun]
      · simp [altRun, tracked, g2]
      · simp [localOK, g2]
    · have : pos ≤ (erase s.ael).length := by rw [erase_length]; exact hpos
      simp only [insertOne, this, hdx, and_self, if_true]
      simp only [erase, List.map_append, List.map_cons, List.map_take, List.map_drop]
  next => trivial

theorem removeOneS_spec (i : Nat) (s : SState) (hs : Side s.ael) :
    StepOK (removeOneS i s) (fun s' => Side s'.ael ∧ removeOne i (erase s.ael) = some (erase s'.ael) ∧ Recs s s') := by
  unfold removeOneS
  split
  next x rest h0 =>
    split
    next ho =>
      simp only [StepOK]
      have hl : s.ael = s.ael.take i ++ [x] ++ rest := by rw [List.append_assoc]; exact drop_split _ _ _ h0
      have hs' := hs; rw [hl] at hs'
      refine ⟨?_, ?_, ?_⟩
      rotate_right
      · intro hr
        rw [hl] at hr
        have := recsOK_window s.next (s.ael.take i) [x] [] rest hr (by intro k; simp [cnt])
        simpa using this
      · have := side_replace_id (s.ael.take i) [x] rest [] hs' ?_
        · simpa using this
        · intro p q p2 q2 _ _ hp2 hq2 hloc
          simp [localOK, ho] at hloc
          simp [altRun, tracked, ho] at hq2
          cases p <;> simp [joinRun, hloc.2] at hp2 <;> simp [joinRun, altRun, hp2, hq2]
      · have : (erase s.ael).drop i = x.e :: erase rest := by simp only [erase, ← List.map_drop, h0, List.map_cons]
        simp only [removeOne, this, ho, if_true]
        simp [erase, List.map_take]
    next => trivial
  next => trivial

/-! ## what front / back mean geometrically -/

theorem par_succ (n : Nat) : ((1 + n) % 2 == 1) = !(n % 2 == 1) := by
  rcases Nat.mod_two_eq_zero_or_one n with h | h
  · have : (1 + n) % 2 = 1 := by omega
    simp [h, this]
  · have : (1 + n) % 2 = 0 := by omega
    simp [h, this]

theorem par_zero (n : Nat) : ((0 + n) % 2 == 1) = (n % 2 == 1) := by simp

/-- parity of the hot closed edges of a stretch of the AEL, read off the two automata: every edge that owns a record flips the
alternation state, every joined edge flips the join state, and under `localOK` these are exactly the hot closed edges -/
theorem hot_parity (l : List SEdge) : ∀ (p b p' b' : Bool), joinRun p l = some p' → altRun b l = some b' → l.all localOK = true →
    (hotCount (erase l) % 2 == 1) = ((b != b') != (p != p')) := by
  induction l with
  | nil =>
    intro p b p' b' h1 h2 _
    simp [joinRun] at h1; simp [altRun] at h2; subst h1 h2
    simp [erase, hotCount]
  | cons x xs ih =>
    intro p b p' b' h1 h2 hl
    simp only [List.all_cons, Bool.and_eq_true] at hl
    obtain ⟨lx, lxs⟩ := hl
    simp only [erase, List.map_cons, hotCount] at ih ⊢
    cases ho : x.e.isOpen
    · -- closed edge
      simp only [localOK, ho, Bool.false_eq_true, if_false, Bool.and_eq_true, beq_iff_eq] at lx
      cases hj : x.join <;> cases hr : x.orec <;> simp [hj, hr] at lx
      all_goals
        simp only [altRun, tracked, ho, hr, Bool.false_eq_true, if_false, Option.map_none, Option.map_some] at h2
        simp only [joinRun, hj] at h1
      · -- cold
        cases p <;> simp at h1
        have hc : (if false = false ∧ x.e.hot = true then 1 else 0) = 0 := by simp [lx]
        rw [hc, par_zero, ih _ _ _ _ h1 h2 lxs]
      · -- owns a record
        cases p <;> simp at h1
        split at h2
        next hf =>
          have hc : (if false = false ∧ x.e.hot = true then 1 else 0) = 1 := by simp [lx]
          rw [hc, par_succ, ih _ _ _ _ h1 h2 lxs]
          cases b <;> cases b' <;> cases p' <;> rfl
        next => cases h2
      · -- joined left
        cases p <;> simp at h1
        have hc : (if false = false ∧ x.e.hot = true then 1 else 0) = 1 := by simp [lx]
        rw [hc, par_succ, ih _ _ _ _ h1 h2 lxs]
        cases b <;> cases b' <;> cases p' <;> rfl
      · -- joined right
        cases p <;> simp at h1
        have hc : (if false = false ∧ x.e.hot = true then 1 else 0) = 1 := by simp [lx]
        rw [hc, par_succ, ih _ _ _ _ h1 h2 lxs]
        cases b <;> cases b' <;> cases p' <;> rfl
    · -- open edge: not counted, not tracked, not joined
      simp only [localOK, ho, if_true, Bool.and_eq_true, beq_iff_eq] at lx
      simp only [altRun, tracked, ho, if_true] at h2
      simp only [joinRun, lx.2] at h1
      cases p <;> simp at h1
      have hc : (if true = false ∧ x.e.hot = true then 1 else 0) = 0 := by simp
      rw [hc, par_zero, ih _ _ _ _ h1 h2 lxs]

end Clipper.Model
