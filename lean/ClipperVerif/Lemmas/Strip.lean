/- StripDuplicates / StripNearEqual / GetBounds helper lemmas for Props/C20.lean. -/
import ClipperVerif.Lemmas.PathUtil
namespace Clipper.Lemmas.PathUtil
open Clipper Clipper.Model.PathUtil

/-- no vertex is `eqv` to the vertex before it -/
def NoAdj (eqv : Pt → Pt → Bool) : List Pt → Prop
  | u :: v :: t => eqv v u = false ∧ NoAdj eqv (v :: t)
  | _ => True

theorem stripAux_noAdj (eqv : Pt → Pt → Bool) (last : Pt) (l : List Pt) :
    NoAdj eqv (last :: stripAux eqv last l) := by
  induction l generalizing last with
  | nil => simp [stripAux, NoAdj]
  | cons b rest ih =>
    simp only [stripAux]
    split
    · exact ih last
    · rename_i h
      exact ⟨by simpa using h, ih b⟩

theorem stripAux_sublist (eqv : Pt → Pt → Bool) (last : Pt) (l : List Pt) :
    List.Sublist (stripAux eqv last l) l := by
  induction l generalizing last with
  | nil => simp [stripAux]
  | cons b rest ih =>
    simp only [stripAux]
    split
    · exact List.Sublist.cons _ (ih last)
    · exact List.Sublist.cons_cons _ (ih b)

theorem popBackRev_suffix (eqv : Pt → Pt → Bool) (first : Pt) (l : List Pt) :
    popBackRev eqv first l <:+ l := by
  fun_induction popBackRev eqv first l with
  | case1 z y rest h ih => exact List.IsSuffix.trans ih (List.suffix_cons _ _)
  | case2 z y rest h => exact List.suffix_refl _
  | case3 l h => exact List.suffix_refl _

theorem popBackRev_getLast (eqv : Pt → Pt → Bool) (first : Pt) (l : List Pt) :
    (popBackRev eqv first l).getLast? = l.getLast? := by
  fun_induction popBackRev eqv first l with
  | case1 z y rest h ih => rw [ih, List.getLast?_cons_cons]
  | case2 z y rest h => rfl
  | case3 l h => rfl

/-- after the closing loop either at most one vertex is left or the last vertex is not `eqv` to the first -/
theorem popBackRev_head (eqv : Pt → Pt → Bool) (first : Pt) (l : List Pt) :
    (popBackRev eqv first l).length ≤ 1 ∨
      ∃ z, (popBackRev eqv first l).head? = some z ∧ eqv z first = false := by
  fun_induction popBackRev eqv first l with
  | case1 z y rest h ih => exact ih
  | case2 z y rest h => exact Or.inr ⟨z, rfl, by simpa using h⟩
  | case3 l h =>
    match l, h with
    | [], _ => exact Or.inl (by simp)
    | [a], _ => exact Or.inl (by simp)
    | z :: y :: rest, h => exact absurd rfl (h z y rest)

theorem NoAdj_prefix (eqv : Pt → Pt → Bool) (l₁ l₂ : List Pt) (h : l₁ <+: l₂) (hn : NoAdj eqv l₂) :
    NoAdj eqv l₁ := by
  obtain ⟨t, rfl⟩ := h
  induction l₁ with
  | nil => simp [NoAdj]
  | cons a l ih =>
    cases l with
    | nil => simp [NoAdj]
    | cons b l' =>
      simp only [List.cons_append, NoAdj] at hn ⊢
      exact ⟨hn.1, ih hn.2⟩

theorem stripGen_prefix (eqv : Pt → Pt → Bool) (a : Pt) (rest : List Pt) :
    stripGen eqv (a :: rest) true <+: stripGen eqv (a :: rest) false := by
  simp only [stripGen, if_true, Bool.false_eq_true, if_false]
  have := popBackRev_suffix eqv a (a :: stripAux eqv a rest).reverse
  rw [← List.reverse_prefix, List.reverse_reverse] at this
  exact this

/-! ### the defining equation of StripDuplicates -/

theorem stripAux_eq_filterMap (last : Pt) (l : List Pt) :
    stripAux (fun a b => decide (a = b)) last l
      = ((last :: l).zip l).filterMap (fun q => if q.1 != q.2 then some q.2 else none) := by
  induction l generalizing last with
  | nil => simp [stripAux]
  | cons b rest ih =>
    simp only [stripAux, List.zip_cons_cons, List.filterMap_cons]
    by_cases h : b = last
    · subst h; simp [ih]
    · have h' : (last != b) = true := by simp; exact fun e => h e.symm
      simp [h, h', ih]

theorem popBackRev_eq_dropWhile (a : Pt) (r : List Pt) (h : r.getLast? = some a) :
    popBackRev (fun x y => decide (x = y)) a r
      = if (r.dropWhile (· == a)).isEmpty then [a] else r.dropWhile (· == a) := by
  fun_induction popBackRev (fun x y => decide (x = y)) a r with
  | case1 z y rest hz ih =>
    have hz' : z = a := by simpa using hz
    rw [ih (by rw [← h, List.getLast?_cons_cons])]
    subst hz'; simp [List.dropWhile_cons]
  | case2 z y rest hz =>
    have hz' : ¬ z = a := by simpa using hz
    simp [hz']
  | case3 l hl =>
    match l, hl, h with
    | [], _, h => simp at h
    | [b], _, h =>
      simp only [List.getLast?_singleton, Option.some.injEq] at h
      subst h; simp
    | z :: y :: rest, hl, _ => exact absurd rfl (hl z y rest)

/-! ### GetBounds -/

theorem bounds_fold_le (p : List Pt) (r0 : Rect) :
    ((p.foldl boundsStep r0).left ≤ r0.left ∧ r0.right ≤ (p.foldl boundsStep r0).right ∧
      (p.foldl boundsStep r0).top ≤ r0.top ∧ r0.bottom ≤ (p.foldl boundsStep r0).bottom) ∧
    (∀ q ∈ p, (p.foldl boundsStep r0).left ≤ q.x ∧ q.x ≤ (p.foldl boundsStep r0).right ∧
      (p.foldl boundsStep r0).top ≤ q.y ∧ q.y ≤ (p.foldl boundsStep r0).bottom) := by
  induction p generalizing r0 with
  | nil => simp
  | cons a t ih =>
    simp only [List.foldl_cons]
    obtain ⟨⟨h1, h2, h3, h4⟩, hall⟩ := ih (boundsStep r0 a)
    have e1 : (boundsStep r0 a).left = if a.x < r0.left then a.x else r0.left := rfl
    have e2 : (boundsStep r0 a).right = if a.x > r0.right then a.x else r0.right := rfl
    have e3 : (boundsStep r0 a).top = if a.y < r0.top then a.y else r0.top := rfl
    have e4 : (boundsStep r0 a).bottom = if a.y > r0.bottom then a.y else r0.bottom := rfl
    refine ⟨⟨by omega, by omega, by omega, by omega⟩, ?_⟩
    intro q hq
    cases List.mem_cons.mp hq with
    | inl h => subst h; exact ⟨by omega, by omega, by omega, by omega⟩
    | inr h => exact hall q h

theorem bounds_fold_left (p : List Pt) (r0 : Rect) :
    (p.foldl boundsStep r0).left = r0.left ∨ ∃ q ∈ p, q.x = (p.foldl boundsStep r0).left := by
  induction p generalizing r0 with
  | nil => simp
  | cons a t ih =>
    simp only [List.foldl_cons]
    have e1 : (boundsStep r0 a).left = if a.x < r0.left then a.x else r0.left := rfl
    cases ih (boundsStep r0 a) with
    | inl h =>
      by_cases hc : a.x < r0.left
      · exact Or.inr ⟨a, List.mem_cons_self, by rw [h, e1, if_pos hc]⟩
      · exact Or.inl (by rw [h, e1, if_neg hc])
    | inr h => obtain ⟨q, hq, he⟩ := h; exact Or.inr ⟨q, List.mem_cons_of_mem _ hq, he⟩

theorem bounds_fold_right (p : List Pt) (r0 : Rect) :
    (p.foldl boundsStep r0).right = r0.right ∨ ∃ q ∈ p, q.x = (p.foldl boundsStep r0).right := by
  induction p generalizing r0 with
  | nil => simp
  | cons a t ih =>
    simp only [List.foldl_cons]
    have e1 : (boundsStep r0 a).right = if a.x > r0.right then a.x else r0.right := rfl
    cases ih (boundsStep r0 a) with
    | inl h =>
      by_cases hc : a.x > r0.right
      · exact Or.inr ⟨a, List.mem_cons_self, by rw [h, e1, if_pos hc]⟩
      · exact Or.inl (by rw [h, e1, if_neg hc])
    | inr h => obtain ⟨q, hq, he⟩ := h; exact Or.inr ⟨q, List.mem_cons_of_mem _ hq, he⟩

theorem bounds_fold_top (p : List Pt) (r0 : Rect) :
    (p.foldl boundsStep r0).top = r0.top ∨ ∃ q ∈ p, q.y = (p.foldl boundsStep r0).top := by
  induction p generalizing r0 with
  | nil => simp
  | cons a t ih =>
    simp only [List.foldl_cons]
    have e1 : (boundsStep r0 a).top = if a.y < r0.top then a.y else r0.top := rfl
    cases ih (boundsStep r0 a) with
    | inl h =>
      by_cases hc : a.y < r0.top
      · exact Or.inr ⟨a, List.mem_cons_self, by rw [h, e1, if_pos hc]⟩
      · exact Or.inl (by rw [h, e1, if_neg hc])
    | inr h => obtain ⟨q, hq, he⟩ := h; exact Or.inr ⟨q, List.mem_cons_of_mem _ hq, he⟩

theorem bounds_fold_bottom (p : List Pt) (r0 : Rect) :
    (p.foldl boundsStep r0).bottom = r0.bottom ∨ ∃ q ∈ p, q.y = (p.foldl boundsStep r0).bottom := by
  induction p generalizing r0 with
  | nil => simp
  | cons a t ih =>
    simp only [List.foldl_cons]
    have e1 : (boundsStep r0 a).bottom = if a.y > r0.bottom then a.y else r0.bottom := rfl
    cases ih (boundsStep r0 a) with
    | inl h =>
      by_cases hc : a.y > r0.bottom
      · exact Or.inr ⟨a, List.mem_cons_self, by rw [h, e1, if_pos hc]⟩
      · exact Or.inl (by rw [h, e1, if_neg hc])
    | inr h => obtain ⟨q, hq, he⟩ := h; exact Or.inr ⟨q, List.mem_cons_of_mem _ hq, he⟩

end Clipper.Lemmas.PathUtil
