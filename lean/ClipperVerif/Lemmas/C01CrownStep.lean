/-
Helper lemmas for `Props/C01Crown.lean`, part 3: THE ACCOUNT OF ONE EVENT.  For each of the four events of a sweep without joins
(`insertPair`, `intersect`, `removePair`, `update`; `Plain` states): the ray sum `phi` of the output side grows by exactly the emissions on the
edges the event touches (`emit`: weight of the pair (end point of the ring end the edge holds, event point), read in the direction of that
end), every OTHER edge holds afterwards a ring end with the same side and the same end point (`info`), and a touched edge either keeps its
ring end untouched (`IntersectEdges` returning early) or holds afterwards a ring end that ends in the event's point (`Tch`).
The structure of the proofs follows `Lemmas/C01OutputStep.lean` (`Carry`), with equalities instead of inclusions.  Core Lean only.
-/
import ClipperVerif.Lemmas.C01CrownLive
namespace Clipper.Lemmas.C01Crown
open Clipper Clipper.Model Clipper.Lemmas.C01Output

/-- what the event does to a touched edge `x` (afterwards `x'`), `δ` = its contribution to the ray sum -/
def Tch (c : Pt → Pt → Int) (pt : Pt) (o o' : Out) (x x' : Model.SEdge) (δ : Int) : Prop :=
  (δ = 0 ∧ info o' x' = info o x) ∨ (δ = emit c o x pt ∧ ∀ f e, info o' x' = some (f, e) → e = pt)

theorem tch_emit {c : Pt → Pt → Int} {pt : Pt} {o o' : Out} {x x' : Model.SEdge} (h : ∀ k, x'.orec = some k → endOf o' k = some pt) :
    Tch c pt o o' x x' (emit c o x pt) := by
  right
  refine ⟨rfl, ?_⟩
  intro f e hi
  unfold info at hi
  cases hx : x'.orec with
  | none => simp [hx] at hi
  | some k =>
    simp only [hx, Option.bind_some, h k hx, Option.map_some, Option.some.injEq, Prod.mk.injEq] at hi
    exact hi.2.symm

theorem hotN_window (pre rest : List Model.SEdge) (a b : Model.SEdge) :
    hotN (pre ++ a :: b :: rest) = hotN pre + hv a + hv b + hotN rest := by
  simp only [hotN_append, hotN_cons]; omega

theorem hotN_mapShape {g : Model.SEdge → Model.SEdge} (hg : ShapePres g) (l : List Model.SEdge) : hotN (l.map g) = hotN l :=
  hotN_map g l (fun x _ => shape_isSome hg x)

/-- **a third edge through `AddLocalMaxPoly`**: same side, same end point -/
theorem localMax_third_info (kind : SegKind) (ra rb : Rec) (pt : Pt) (o : Out) (g : Model.SEdge → Model.SEdge)
    (hg : addLocalMaxFn ra rb = .ok g) (hA : LiveAt o.rings ra.id) (hB : LiveAt o.rings rb.id) (x : Model.SEdge)
    (hna : x.orec ≠ some ra) (hnb : x.orec ≠ some rb) (hl : ∀ k, x.orec = some k → LiveAt o.rings k.id) :
    info (localMaxOut kind ra rb pt o) (g x) = info o x := by
  cases hxo : x.orec with
  | none => rw [info_none hxo, info_none (localMax_third_none ra rb g hg x hxo)]
  | some k =>
    obtain ⟨k2, hk2, he⟩ := localMaxOut_third kind ra rb pt o g hg hA hB x k hxo (fun e => hna (by rw [hxo, e]))
      (fun e => hnb (by rw [hxo, e])) (hl k hxo)
    have hfr := (addLocalMaxFn_shape ra rb g hg x).2.2
    rw [hk2, hxo] at hfr
    simp only [Option.map_some, Option.some.injEq] at hfr
    simp only [info, hk2, hxo, Option.bind_some, he, hfr]

/-- **`IntersectEdges(e1, e2, pt)` + `SwapPositionsInAEL`, closed unjoined edges** -/
theorem core_acct {c : Pt → Pt → Int} (hw : Wt c) (cfg : Cfg) (pre : List Model.SEdge) (a b : Model.SEdge) (rest : List Model.SEdge)
    (n : Nat) (pt : Pt) (o : Out) (s' : SState)
    (h : OInv n (pre ++ a :: b :: rest) o) (hr : RecsOK n (pre ++ a :: b :: rest))
    (hc : intersectCore cfg pre a b rest n = .ok s') :
    ∃ (g : Model.SEdge → Model.SEdge) (a' b' : Model.SEdge), s'.ael = pre.map g ++ b' :: a' :: rest.map g ∧
      (∀ x ∈ pre ++ rest, info (coreOut cfg a b pt o) (g x) = info o x) ∧
      (2 * liveN (coreOut cfg a b pt o) - hotN s'.ael = 2 * liveN o - hotN (pre ++ a :: b :: rest)) ∧
      ∃ δa δb, phi c (coreOut cfg a b pt o) = phi c o + δa + δb ∧
        Tch c pt o (coreOut cfg a b pt o) a a' δa ∧ Tch c pt o (coreOut cfg a b pt o) b b' δb := by
  have hal : a ∈ pre ++ a :: b :: rest := List.mem_append_right _ List.mem_cons_self
  have hbl : b ∈ pre ++ a :: b :: rest := List.mem_append_right _ (List.mem_cons_of_mem _ List.mem_cons_self)
  have hthird : ∀ x ∈ pre ++ rest, ∀ k, x.orec = some k → a.orec ≠ some k ∧ b.orec ≠ some k ∧ LiveAt o.rings k.id :=
    fun x hx k hk => ⟨(recs_no_dup n pre rest a b hr x hx k hk).1, (recs_no_dup n pre rest a b hr x hx k hk).2,
      h.hot x (mem_pre_rest hx) k hk⟩
  unfold intersectCore at hc
  unfold coreOut
  simp only at hc ⊢
  cases hact : decideAct cfg (updateWinds cfg.fr a.e b.e).1 (updateWinds cfg.fr a.e b.e).2 a.orec b.orec with
  | nothing =>
    simp only [hact] at hc ⊢
    cases hc
    refine ⟨id, { a with e := (intersectPair cfg a.e b.e).1 }, { b with e := (intersectPair cfg a.e b.e).2 }, by simp,
      fun x _ => rfl, by simp only [hotN_window, hv]; omega, 0, 0, by omega, Or.inl ⟨rfl, rfl⟩, Or.inl ⟨rfl, rfl⟩⟩
  | swap =>
    simp only [hact] at hc ⊢
    cases hc
    rw [swapOutrecs_keys cfg _ _ a.orec b.orec hact]
    have hne : ∀ k, a.orec = some k → b.orec ≠ some k := fun k hk => recs_ab_ne n pre rest a b hr k hk
    have hl1 : ∀ k, a.orec = some k → LiveAt o.rings k.id := fun k hk => h.hot a hal k hk
    have hl2 : ∀ k, b.orec = some k → LiveAt o.rings k.id := fun k hk => h.hot b hbl k hk
    obtain ⟨e1, e2, _⟩ := swapOut_ends a.orec b.orec pt o hne hl1 hl2
    refine ⟨id, { a with e := (intersectPair cfg a.e b.e).1, orec := b.orec }, { b with e := (intersectPair cfg a.e b.e).2, orec := a.orec },
      by simp, ?_, by simp only [hotN_window, hv, liveN_swapOut],
      emit c o a pt, emit c o b pt, phi_swapOut hw a b pt o hne hl1 hl2, ?_, ?_⟩
    · intro x hx
      cases hxo : x.orec with
      | none => simp [info, hxo]
      | some k =>
        obtain ⟨n1, n2, hl⟩ := hthird x hx k hxo
        simp only [info, id, hxo, Option.bind_some, e2 k n1 n2 hl]
    · exact tch_emit (fun k hk => e1 k (Or.inr hk))
    · exact tch_emit (fun k hk => e1 k (Or.inl hk))
  | localMin =>
    simp only [hact] at hc ⊢
    cases hc
    obtain ⟨m1, m2⟩ := minRecs_ids pre false n
    unfold decideAct at hact
    obtain ⟨c1, c2⟩ := act_localMin _ _ _ _ _ _ _ _ _ _ _ hact
    have ha0 : a.orec = none := by cases h' : a.orec with | none => rfl | some _ => simp [h'] at c1
    have hb0 : b.orec = none := by cases h' : b.orec with | none => rfl | some _ => simp [h'] at c2
    refine ⟨id, { a with e := (intersectPair cfg a.e b.e).1, orec := some (minRecs pre false n).1 },
      { b with e := (intersectPair cfg a.e b.e).2, orec := some (minRecs pre false n).2 },
      by simp, ?_, by simp only [hotN_window, hv, liveN_newRec, ha0, hb0, Option.isSome_some, Option.isSome_none, if_true,
        Bool.false_eq_true, if_false]; omega, emit c o a pt, emit c o b pt, ?_, ?_, ?_⟩
    · intro x hx
      cases hxo : x.orec with
      | none => simp [info, hxo]
      | some k =>
        obtain ⟨_, _, hl⟩ := hthird x hx k hxo
        simp only [info, id, hxo, Option.bind_some, endOf, endAt_newRec_old pt o _ _ (lt_of_liveAt hl)]
    · rw [phi_newRec, emit_none ha0, emit_none hb0]; omega
    · refine tch_emit (fun k hk => ?_)
      simp only [Option.some.injEq] at hk
      subst hk
      rw [endOf, m1, ← h.len, endAt_newRec_new]
    · refine tch_emit (fun k hk => ?_)
      simp only [Option.some.injEq] at hk
      subst hk
      rw [endOf, m2, ← h.len, endAt_newRec_new]
  | localMax =>
    simp only [hact] at hc ⊢
    cases ha : a.orec with
    | none => simp [ha] at hc
    | some ra =>
      cases hb : b.orec with
      | none => simp [ha, hb] at hc
      | some rb =>
        simp only [ha, hb] at hc ⊢
        cases hg : addLocalMaxFn ra rb with
        | error f => simp [hg] at hc
        | ok g =>
          simp only [hg] at hc
          cases hc
          have hA := h.hot a hal ra ha
          have hB := h.hot b hbl rb hb
          have hf : ra.front ≠ rb.front := by
            intro e; unfold addLocalMaxFn at hg; simp [e] at hg
          obtain ⟨ea, hea⟩ := endAt_some_of_live hA ra.front
          obtain ⟨eb, heb⟩ := endAt_some_of_live hB rb.front
          refine ⟨g, { a with e := (intersectPair cfg a.e b.e).1, orec := none }, { b with e := (intersectPair cfg a.e b.e).2, orec := none },
            rfl, ?_, ?_, emit c o a pt, emit c o b pt, ?_, tch_emit (fun k hk => by simp at hk), tch_emit (fun k hk => by simp at hk)⟩
          · intro x hx
            refine localMax_third_info .meet ra rb pt o g hg hA hB x ?_ ?_ (fun k hk => (hthird x hx k hk).2.2)
            · intro e; exact (hthird x hx ra e).1 ha
            · intro e; exact (hthird x hx rb e).2.1 hb
          · have hsh := addLocalMaxFn_shape ra rb g hg
            simp only [hotN_window, hotN_mapShape hsh, liveN_localMaxOut .meet ra rb pt o hA hB, hv, ha, hb, Option.isSome_some,
              Option.isSome_none, if_true, Bool.false_eq_true, if_false]
            omega
          · rw [phi_localMaxOut hw .meet ra rb pt o ea eb hA hB hf hea heb, emit_some ha hea, emit_some hb heb]
  | maxThenMin =>
    simp only [hact] at hc ⊢
    cases ha : a.orec with
    | none => simp [ha] at hc
    | some ra =>
      cases hb : b.orec with
      | none => simp [ha, hb] at hc
      | some rb =>
        simp only [ha, hb] at hc ⊢
        cases hg : addLocalMaxFn ra rb with
        | error f => simp [hg] at hc
        | ok g =>
          simp only [hg] at hc
          cases hc
          have hA := h.hot a hal ra ha
          have hB := h.hot b hbl rb hb
          have hf : ra.front ≠ rb.front := by
            intro e; unfold addLocalMaxFn at hg; simp [e] at hg
          obtain ⟨ea, hea⟩ := endAt_some_of_live hA ra.front
          obtain ⟨eb, heb⟩ := endAt_some_of_live hB rb.front
          have hlen : (localMaxOut .meet ra rb pt o).rings.length = n := by rw [localMaxOut_len, h.len]
          obtain ⟨m1, m2⟩ := minRecs_ids (pre.map g) false n
          have hm := localMaxOut_spec .meet ra rb pt o hA hB hf h.nolost h.segs
          have hkeys := localMax_keys n pre rest a b ra rb g hr ha hb hg
          refine ⟨g, { a with e := (intersectPair cfg a.e b.e).1, orec := some (minRecs (pre.map g) false n).1 },
            { b with e := (intersectPair cfg a.e b.e).2, orec := some (minRecs (pre.map g) false n).2 },
            rfl, ?_, ?_, emit c o a pt, emit c o b pt, ?_, ?_, ?_⟩
          · intro x hx
            have h3 := localMax_third_info .meet ra rb pt o g hg hA hB x (fun e => (hthird x hx ra e).1 ha)
              (fun e => (hthird x hx rb e).2.1 hb) (fun k hk => (hthird x hx k hk).2.2)
            rw [← h3]
            cases hgo : (g x).orec with
            | none => simp [info, hgo]
            | some k' =>
              have hxg : g x ∈ pre.map g ++ rest.map g := by
                rw [← List.map_append]; exact List.mem_map_of_mem hx
              obtain ⟨hdead, y, hy, ky, hky, hid⟩ := hkeys (g x) hxg k' hgo
              have hlive : LiveAt (localMaxOut .meet ra rb pt o).rings k'.id :=
                hm.live _ (by rw [← hid]; exact h.hot y hy ky hky) hdead
              simp only [info, hgo, Option.bind_some, endOf, endAt_newRec_old pt _ _ _ (lt_of_liveAt hlive)]
          · have hsh := addLocalMaxFn_shape ra rb g hg
            simp only [hotN_window, hotN_mapShape hsh, liveN_newRec, liveN_localMaxOut .meet ra rb pt o hA hB, hv, ha, hb,
              Option.isSome_some, if_true]
            omega
          · rw [phi_newRec, phi_localMaxOut hw .meet ra rb pt o ea eb hA hB hf hea heb, emit_some ha hea, emit_some hb heb]
          · refine tch_emit (fun k hk => ?_)
            simp only [Option.some.injEq] at hk
            subst hk
            rw [endOf, m1, ← hlen, endAt_newRec_new]
          · refine tch_emit (fun k hk => ?_)
            simp only [Option.some.injEq] at hk
            subst hk
            rw [endOf, m2, ← hlen, endAt_newRec_new]

/-- **`intersect i pt`** -/
theorem intersect_acct {c : Pt → Pt → Int} (hw : Wt c) (cfg : Cfg) (i : Nat) (pt : Pt) (r r' : RState) (hP : Plain r.s.ael)
    (hO : OInv r.s.next r.s.ael r.o) (hR : RecsOK r.s.next r.s.ael) (hs : stepR cfg r (.base (.intersect i) pt) = .ok r') :
    ∃ (pre : List Model.SEdge) (a b : Model.SEdge) (rest : List Model.SEdge) (g : Model.SEdge → Model.SEdge) (a' b' : Model.SEdge),
      r.s.ael = pre ++ a :: b :: rest ∧ pre.length = i ∧ r'.s.ael = pre.map g ++ b' :: a' :: rest.map g ∧
      (∀ x ∈ pre ++ rest, info r'.o (g x) = info r.o x) ∧
      (2 * liveN r'.o - hotN r'.s.ael = 2 * liveN r.o - hotN r.s.ael) ∧
      ∃ δa δb, phi c r'.o = phi c r.o + δa + δb ∧ Tch c pt r.o r'.o a a' δa ∧ Tch c pt r.o r'.o b b' δb := by
  obtain ⟨h1, h2⟩ := Clipper.Props.C01Rings.erase_ring_step cfg r r' _ hs
  simp only [ROp.erase, stepS] at h1
  simp only [outStep] at h2
  unfold intersectS at h1
  unfold intersectOut at h2
  match hd0 : r.s.ael.drop i with
  | [] => simp [hd0] at h1
  | [_] => simp [hd0] at h1
  | a :: b :: rest =>
    simp only [hd0] at h1 h2
    have hl := window_split _ _ _ _ _ hd0
    obtain ⟨_, _, hlen⟩ := window_get _ _ _ _ _ hd0
    have hP' := hP
    rw [hl] at hP'
    obtain ⟨pa, pb, prest⟩ := plain_window hP'
    have hopen : (a.e.isOpen || b.e.isOpen) = false := by simp [pa.2, pb.2]
    obtain ⟨s1, s2, ts⟩ := twoSplits_plain i pt r.s r.o a b rest hd0 pa.1 pb.1
    simp only [hopen, Bool.false_eq_true, if_false, s1, s2, bind, Except.bind, hd0, ts] at h1 h2
    rw [hl] at hO hR
    obtain ⟨g, a', b', e1, e2, e2b, e3⟩ := core_acct hw cfg _ a b rest _ pt r.o r'.s hO hR h1
    rw [← h2] at e2 e2b e3
    rw [← hl] at e2b
    exact ⟨r.s.ael.take i, a, b, rest, g, a', b', hl, hlen, e1, e2, e2b, e3⟩

/-- **`removePair i pt`** (`DoMaxima`) -/
theorem removePair_acct {c : Pt → Pt → Int} (hw : Wt c) (cfg : Cfg) (i : Nat) (pt : Pt) (r r' : RState) (hP : Plain r.s.ael)
    (hO : OInv r.s.next r.s.ael r.o) (hR : RecsOK r.s.next r.s.ael) (hs : stepR cfg r (.base (.removePair i) pt) = .ok r') :
    ∃ (pre : List Model.SEdge) (a b : Model.SEdge) (rest : List Model.SEdge) (g : Model.SEdge → Model.SEdge),
      r.s.ael = pre ++ a :: b :: rest ∧ pre.length = i ∧ r'.s.ael = pre.map g ++ rest.map g ∧
      (∀ x ∈ pre ++ rest, info r'.o (g x) = info r.o x) ∧
      (2 * liveN r'.o - hotN r'.s.ael = 2 * liveN r.o - hotN r.s.ael) ∧
      phi c r'.o = phi c r.o + emit c r.o a pt + emit c r.o b pt := by
  obtain ⟨s', o'⟩ := r'
  obtain ⟨h1, h2⟩ := Clipper.Props.C01Rings.erase_ring_step cfg r _ _ hs
  simp only at h1 h2 ⊢
  simp only [ROp.erase, stepS] at h1
  simp only [outStep] at h2
  unfold removePairS at h1
  unfold removePairOut at h2
  match hd0 : r.s.ael.drop i with
  | [] => simp [hd0] at h1
  | [_] => simp [hd0] at h1
  | a :: b :: rest =>
    simp only [hd0] at h1 h2
    have hl := window_split _ _ _ _ _ hd0
    obtain ⟨_, _, hlen⟩ := window_get _ _ _ _ _ hd0
    have hP' := hP
    rw [hl] at hP'
    obtain ⟨pa, pb, prest⟩ := plain_window hP'
    obtain ⟨s1, s2, ts⟩ := twoSplits_plain i pt r.s r.o a b rest hd0 pa.1 pb.1
    have hal : a ∈ r.s.ael := by rw [hl]; simp
    have hbl : b ∈ r.s.ael := by rw [hl]; simp
    split at h1
    · simp only [pa.2, Bool.false_eq_true, if_false, s1, s2, bind, Except.bind, hd0, ts] at h1 h2
      have hthird : ∀ x ∈ r.s.ael.take i ++ rest, ∀ k, x.orec = some k → a.orec ≠ some k ∧ b.orec ≠ some k ∧ LiveAt r.o.rings k.id := by
        intro x hx k hk
        have hr' := hR; rw [hl] at hr'
        exact ⟨(recs_no_dup _ _ rest a b hr' x hx k hk).1, (recs_no_dup _ _ rest a b hr' x hx k hk).2,
          hO.hot x (by rw [hl]; exact mem_pre_rest hx) k hk⟩
      cases hao : a.orec with
      | none =>
        cases hbo : b.orec with
        | none =>
          simp only [hao, hbo] at h1 h2
          cases h1
          refine ⟨r.s.ael.take i, a, b, rest, id, hl, hlen, by simp, ?_, ?_, ?_⟩
          · intro x _; rw [h2]; rfl
          · rw [h2]
            conv => rhs; rw [hl]
            simp only [hotN_append, hotN_cons, hv, hao, hbo, Option.isSome_none, Bool.false_eq_true, if_false]
            omega
          · rw [h2, emit_none hao, emit_none hbo]; omega
        | some rb => simp [hao, hbo] at h1
      | some ra =>
        cases hbo : b.orec with
        | none => simp [hao, hbo] at h1
        | some rb =>
          simp only [hao, hbo] at h1 h2
          cases hg : addLocalMaxFn ra rb with
          | error f => simp [hg] at h1
          | ok g =>
            simp only [hg] at h1
            cases h1
            have hA := hO.hot a hal ra hao
            have hB := hO.hot b hbl rb hbo
            have hf : ra.front ≠ rb.front := by
              intro e; unfold addLocalMaxFn at hg; simp [e] at hg
            obtain ⟨ea, hea⟩ := endAt_some_of_live hA ra.front
            obtain ⟨eb, heb⟩ := endAt_some_of_live hB rb.front
            refine ⟨r.s.ael.take i, a, b, rest, g, hl, hlen, rfl, ?_, ?_, ?_⟩
            · intro x hx
              rw [h2]
              exact localMax_third_info .meet ra rb pt r.o g hg hA hB x (fun e => (hthird x hx ra e).1 hao)
                (fun e => (hthird x hx rb e).2.1 hbo) (fun k hk => (hthird x hx k hk).2.2)
            · have hsh := addLocalMaxFn_shape ra rb g hg
              rw [h2]
              conv => rhs; rw [hl]
              simp only [hotN_append, hotN_cons, hotN_mapShape hsh, liveN_localMaxOut .meet ra rb pt r.o hA hB, hv, hao, hbo,
                Option.isSome_some, if_true]
              omega
            · rw [h2, phi_localMaxOut hw .meet ra rb pt r.o ea eb hA hB hf hea heb, emit_some hao hea, emit_some hbo heb]
    · cases h1

/-- **`insertPair pos t false dx` with the point `pt`** (`InsertLocalMinimaIntoAEL`, closed path) -/
theorem insertPair_acct (c : Pt → Pt → Int) (cfg : Cfg) (pos : Nat) (t : PathType) (dx : Int) (pt : Pt) (r r' : RState)
    (hO : OInv r.s.next r.s.ael r.o) (hs : stepR cfg r (.base (.insertPair pos t false dx) pt) = .ok r') :
    ∃ (pre post : List Model.SEdge) (l' r'' : Model.SEdge),
      r.s.ael = pre ++ post ∧ pre.length = pos ∧ r'.s.ael = pre ++ l' :: r'' :: post ∧
      (∀ x ∈ pre ++ post, info r'.o x = info r.o x) ∧
      (∀ f e, info r'.o l' = some (f, e) → e = pt) ∧ (∀ f e, info r'.o r'' = some (f, e) → e = pt) ∧
      (2 * liveN r'.o - hotN r'.s.ael = 2 * liveN r.o - hotN r.s.ael) ∧
      phi c r'.o = phi c r.o := by
  obtain ⟨s', o'⟩ := r'
  obtain ⟨h1, h2⟩ := Clipper.Props.C01Rings.erase_ring_step cfg r _ _ hs
  simp only [ROp.erase, stepS] at h1
  simp only [outStep] at h2
  simp only
  unfold insertPairS at h1
  unfold insertPairOut at h2
  have ends : ∀ (x : Model.SEdge) (o : Out), (∀ k, x.orec = some k → endOf o k = some pt) → ∀ f e, info o x = some (f, e) → e = pt := by
    intro x o h f e hi
    unfold info at hi
    cases hx : x.orec with
    | none => simp [hx] at hi
    | some k =>
      simp only [hx, Option.bind_some, h k hx, Option.map_some, Option.some.injEq, Prod.mk.injEq] at hi
      exact hi.2.symm
  split at h1
  · next hc =>
    simp only at h1 h2
    have hlen : (r.s.ael.take pos).length = pos := by rw [List.length_take]; omega
    have hsplit : r.s.ael = r.s.ael.take pos ++ r.s.ael.drop pos := (List.take_append_drop _ _).symm
    by_cases hcon : ((newLeft cfg (erase (r.s.ael.take pos)) t false dx).2 && !false) = true
    · simp only [hcon, if_true] at h1 h2
      rw [addLocalMin_eq pos true (r.s.ael.take pos) _ _ (r.s.ael.drop pos) r.s.next hlen] at h1
      cases h1
      obtain ⟨m1, m2⟩ := minRecs_ids (r.s.ael.take pos) true r.s.next
      refine ⟨r.s.ael.take pos, r.s.ael.drop pos, _, _, hsplit, hlen, rfl, ?_, ?_, ?_, ?_, by rw [h2, phi_newRec]⟩
      · intro x hx
        rw [← hsplit] at hx
        cases hxo : x.orec with
        | none => simp [info, hxo]
        | some k =>
          have hl := hO.hot x hx k hxo
          simp only [info, hxo, Option.bind_some, h2, endOf, endAt_newRec_old pt r.o _ _ (lt_of_liveAt hl)]
      · refine ends _ _ (fun k hk => ?_)
        simp only [Option.some.injEq] at hk
        subst hk
        rw [h2, endOf, m1, ← hO.len, endAt_newRec_new]
      · refine ends _ _ (fun k hk => ?_)
        simp only [Option.some.injEq] at hk
        subst hk
        rw [h2, endOf, m2, ← hO.len, endAt_newRec_new]
      · rw [h2]
        conv => rhs; rw [hsplit]
        simp only [hotN_append, hotN_cons, hv, liveN_newRec, Option.isSome_some, if_true]
        omega
    · simp only [hcon] at h1 h2
      cases h1
      refine ⟨r.s.ael.take pos, r.s.ael.drop pos, _, _, hsplit, hlen, rfl, ?_, ?_, ?_, ?_, by rw [h2]; simp⟩
      · intro x _; rw [h2]; simp
      · exact ends _ _ (fun k hk => by simp at hk)
      · exact ends _ _ (fun k hk => by simp at hk)
      · rw [h2]
        conv => rhs; rw [hsplit]
        simp only [hotN_append, hotN_cons, hv, Option.isSome_none, Bool.false_eq_true, if_false]
        omega
  · cases h1

/-- **`update i pt`** (`if (IsHotEdge(*e)) AddOutPt(*e, e->top)` before `UpdateEdgeIntoAEL`) -/
theorem update_acct {c : Pt → Pt → Int} (hw : Wt c) (cfg : Cfg) (i : Nat) (pt : Pt) (r r' : RState) (hP : Plain r.s.ael)
    (hO : OInv r.s.next r.s.ael r.o) (hR : RecsOK r.s.next r.s.ael) (hs : stepR cfg r (.update i pt) = .ok r') :
    ∃ (pre post : List Model.SEdge) (x : Model.SEdge),
      r.s.ael = pre ++ x :: post ∧ pre.length = i ∧ r'.s = r.s ∧
      (∀ y ∈ pre ++ post, info r'.o y = info r.o y) ∧ (∀ f e, info r'.o x = some (f, e) → e = pt) ∧
      (2 * liveN r'.o - hotN r'.s.ael = 2 * liveN r.o - hotN r.s.ael) ∧
      phi c r'.o = phi c r.o + emit c r.o x pt := by
  obtain ⟨h1, h2⟩ := Clipper.Props.C01Rings.erase_ring_step cfg r r' _ hs
  simp only [ROp.erase] at h1
  simp only [outStep] at h2
  have hi : i < r.s.ael.length := by
    unfold stepR at hs
    simp only [ROp.erase] at hs
    split at hs
    · assumption
    · cases hs
  have hsplit : r.s.ael = r.s.ael.take i ++ r.s.ael[i] :: r.s.ael.drop (i + 1) := by
    rw [List.getElem_cons_drop hi, List.take_append_drop]
  have hlen : (r.s.ael.take i).length = i := by rw [List.length_take]; omega
  have hx : r.s.ael[i]? = some r.s.ael[i] := List.getElem?_eq_getElem hi
  have hxm : r.s.ael[i] ∈ r.s.ael := List.getElem_mem hi
  have ho : r'.o = addOn r.s.ael[i].orec pt r.o := by
    rw [h2]; unfold updateOut
    simp only [hx, (hP _ hxm).2, Bool.false_eq_true, if_false]
  refine ⟨r.s.ael.take i, r.s.ael.drop (i + 1), r.s.ael[i], hsplit, hlen, h1, ?_, ?_, by rw [h1, ho, liveN_addOn], ?_⟩
  · intro y hy
    cases hyo : y.orec with
    | none => simp [info, hyo]
    | some k' =>
      have hym : y ∈ r.s.ael := by
        rw [hsplit]
        simp only [List.mem_append, List.mem_cons] at hy ⊢
        rcases hy with h | h
        · exact Or.inl h
        · exact Or.inr (Or.inr h)
      have hne : r.s.ael[i].orec ≠ some k' := by
        intro e
        have h1c := (hR (k'.id, k'.front)).1
        rw [hsplit, cnt_append] at h1c
        simp only [cnt, keyOf_of_orec _ k' e, if_true] at h1c
        have : 1 ≤ cnt (k'.id, k'.front) (r.s.ael.take i) + cnt (k'.id, k'.front) (r.s.ael.drop (i + 1)) := by
          rw [← cnt_append]
          exact cnt_pos_of_mem _ _ y hy (keyOf_of_orec y k' hyo)
        omega
      simp only [info, hyo, Option.bind_some, ho, endOf_addOn_other _ pt r.o k' hne (hO.hot y hym k' hyo)]
  · intro f e hinfo
    unfold info at hinfo
    cases hk : r.s.ael[i].orec with
    | none => simp [hk] at hinfo
    | some k =>
      rw [ho] at hinfo
      simp only [hk, Option.bind_some, endOf_addOn_self k pt r.o (hO.hot _ hxm k hk), Option.map_some, Option.some.injEq,
        Prod.mk.injEq] at hinfo
      exact hinfo.2.symm
  · rw [ho, phi_addOn hw _ pt r.o (fun k hk => hO.hot _ hxm k hk)]
    rfl

end Clipper.Lemmas.C01Crown
