/- `RunFine` for every path under sign-exact arithmetic, and the order / completeness structure of the `Add` calls of
`RectClip64::ExecuteInternal` (helper lemmas of Props/C08Complete.lean).  Core Lean only. -/
import ClipperVerif.Lemmas.RectClipCompleteArms
namespace Clipper.Lemmas.RCC
open Clipper Clipper.Model.RC Clipper.Lemmas.RC Clipper.Lemmas.RCA Clipper.Lemmas.RCE Clipper.Lemmas.RCG

/-! ### `GetIntersection` for sign-exact arithmetic, any side -/

/-- **readiness of the reported location.**  `cur` is consumed from `L` (`Ready r L cur`) and `GetIntersection(cur, prv, L)`
succeeds: then `cur` is also consumed from the location the call reports — except in the configuration `Special`, in
which the reversed call from `specialFrom L` reports the same point. -/
theorem getIntersection_ready_exact {A : Arith} (hA : SignExact A) (ht : IsectTotal A) (r : Rect)
    (hw : r.left < r.right) (hh : r.top < r.bottom) (L : Location) (hL : L ≠ .inside) (cur prv ip : Pt)
    (hx : (getIntersection A r cur prv L ip).1 = true) (hr : Ready r L cur) :
    Ready r (getIntersection A r cur prv L ip).2.1 cur ∨
    (Special r L cur prv ∧ ∀ ip', (getIntersection A r cur prv L ip).2.2 =
      (getIntersection A r prv cur (specialFrom L) ip').2.2) := by
  simp only [getIntersection_exact hA] at hx ⊢
  cases L
  · exact (side_left ht r hw hh cur prv ip).1 hx hr
  · exact (side_top ht r hw hh cur prv ip).1 hx hr
  · exact (side_right ht r hw hh cur prv ip).1 hx hr
  · exact (side_bottom ht r hw hh cur prv ip).1 hx hr
  · exact absurd rfl hL

theorem outsideLoc_some {r : Rect} {q : Pt} {L : Location} (h : outsideLoc r q = some L) :
    (L = .left ∧ q.x < r.left) ∨ (L = .right ∧ q.x > r.right) ∨ (L = .bottom ∧ q.y > r.bottom) ∨
    (L = .top ∧ q.y < r.top) := by
  unfold outsideLoc at h
  split at h
  · cases h; exact Or.inl ⟨rfl, ‹_›⟩
  · split at h
    · cases h; exact Or.inr (Or.inl ⟨rfl, ‹_›⟩)
    · split at h
      · cases h; exact Or.inr (Or.inr (Or.inl ⟨rfl, ‹_›⟩))
      · split at h
        · cases h; exact Or.inr (Or.inr (Or.inr ⟨rfl, ‹_›⟩))
        · cases h

/-- **exit completeness.**  A segment from a vertex of the closed rectangle to a vertex strictly outside it, classified
`L` by the `Inside` case of `GetNextLocation`: `GetIntersection(cur, prv, L)` finds the crossing. -/
theorem getIntersection_exit_exact {A : Arith} (hA : SignExact A) (ht : IsectTotal A) (r : Rect)
    (hw : r.left < r.right) (hh : r.top < r.bottom) (L : Location) (cur prv ip : Pt)
    (hout : outsideLoc r cur = some L) (hin : inRect r prv = true) :
    (getIntersection A r cur prv L ip).1 = true := by
  rw [getIntersection_exact hA]
  rcases outsideLoc_some hout with ⟨rfl, h⟩ | ⟨rfl, h⟩ | ⟨rfl, h⟩ | ⟨rfl, h⟩
  · exact (side_left ht r hw hh cur prv ip).2 h hin
  · exact (side_right ht r hw hh cur prv ip).2 h hin
  · exact (side_bottom ht r hw hh cur prv ip).2 h hin
  · exact (side_top ht r hw hh cur prv ip).2 h hin

theorem special_inRect {r : Rect} (hw : r.left < r.right) (hh : r.top < r.bottom) {L : Location} {cur prv : Pt}
    (h : Special r L cur prv) : inRect r cur = true := by
  rw [inRect_iff]
  cases L <;> simp only [Special] at h <;> omega

/-- in the special configuration the automaton comes from `specialFrom L` -/
theorem special_from {r : Rect} (hw : r.left < r.right) (hh : r.top < r.bottom) {L L0 : Location} {cur prv : Pt}
    (h : Special r L cur prv) (h0 : L0 ≠ .inside) (hp : Ready r L0 prv) (hc : ¬ Ready r L0 cur) :
    L0 = specialFrom L := by
  cases L <;> cases L0 <;> simp only [Special, Ready, specialFrom] at * <;> first | rfl | omega | exact absurd rfl h0

/-! ### `GetNextLocation`: what it skips and where it stops -/

/-- the vertex before the one `GetNextLocation` stops at was consumed (if the scan moved at all), from any location -/
theorem gnl_prev_ready_all (r : Rect) (path : Path) (loc : Location) (i : Nat) (q : Pt)
    (hlt : i < (getNextLocation r path loc i).2.1)
    (hq : path[(getNextLocation r path loc i).2.1 - 1]? = some q) : Ready r loc q := by
  by_cases h : loc = .inside
  · subst h
    rw [gnl_idx_inside] at hq hlt
    simp only [Ready]
    generalize hlen : ((path.drop i).takeWhile (fun p => (outsideLoc r p).isNone)).length = len at hlt hq
    have := takeWhile_getElem_cond (fun p => (outsideLoc r p).isNone) (path.drop i) (len - 1) q (by omega)
      (by rw [List.getElem?_drop]
          have e : i + (len - 1) = i + len - 1 := by omega
          rw [e]; exact hq)
    simpa using this
  · exact gnl_prev_ready r path loc i q h hlt hq

/-- the vertex `GetNextLocation` stops at is not consumed from the old location -/
theorem gnl_stop (r : Rect) (path : Path) (loc : Location) (i : Nat) (q : Pt)
    (hq : path[(getNextLocation r path loc i).2.1]? = some q) : ¬ Ready r loc q := by
  cases loc
  case inside =>
    intro hr
    have := (gnl_from_inside r path i q hq).2
    simp only [Ready] at hr
    rw [hr] at this; cases this
  case left =>
    have hj : (getNextLocation r path .left i).2.1 = skipWhile (fun p => decide (p.x ≤ r.left)) path i := by
      simp only [getNextLocation]; split <;> rfl
    rw [hj] at hq
    simpa [Ready] using skipWhile_stop _ path i q hq
  case top =>
    have hj : (getNextLocation r path .top i).2.1 = skipWhile (fun p => decide (p.y ≤ r.top)) path i := by
      simp only [getNextLocation]; split <;> rfl
    rw [hj] at hq
    simpa [Ready] using skipWhile_stop _ path i q hq
  case right =>
    have hj : (getNextLocation r path .right i).2.1 = skipWhile (fun p => decide (p.x ≥ r.right)) path i := by
      simp only [getNextLocation]; split <;> rfl
    rw [hj] at hq
    simpa [Ready] using skipWhile_stop _ path i q hq
  case bottom =>
    have hj : (getNextLocation r path .bottom i).2.1 = skipWhile (fun p => decide (p.y ≥ r.bottom)) path i := by
      simp only [getNextLocation]; split <;> rfl
    rw [hj] at hq
    simpa [Ready] using skipWhile_stop _ path i q hq

/-! ### one iteration, in detail -/

/-- where one iteration leaves `i` and `loc`, branch by branch -/
theorem astep_next_cases {A : Arith} {r : Rect} {path : Path} {c c' : Ctl} {es : List AEmit} {sl : List Location}
    (h : astep A r path c = .next es sl c') :
    ∃ cur prv, path[(getNextLocation r path c.loc c.i).2.1]? = some cur ∧
      prevPt path (getNextLocation r path c.loc c.i).2.1 = some prv ∧
      (((getIntersection A r cur prv (getNextLocation r path c.loc c.i).1 ⟨0, 0⟩).1 = false ∧
          c'.i = (getNextLocation r path c.loc c.i).2.1 + 1 ∧ c'.loc = (getNextLocation r path c.loc c.i).1) ∨
       ((getIntersection A r cur prv (getNextLocation r path c.loc c.i).1 ⟨0, 0⟩).1 = true ∧
          (getNextLocation r path c.loc c.i).1 = .inside ∧
          c'.i = (getNextLocation r path c.loc c.i).2.1 ∧ c'.loc = .inside) ∨
       ((getIntersection A r cur prv (getNextLocation r path c.loc c.i).1 ⟨0, 0⟩).1 = true ∧
          (getNextLocation r path c.loc c.i).1 ≠ .inside ∧ c.loc ≠ .inside ∧
          (getIntersection A r cur prv (getNextLocation r path c.loc c.i).1 ⟨0, 0⟩).2.2 =
            (getIntersection A r prv cur c.loc ⟨0, 0⟩).2.2 ∧
          c'.i = (getNextLocation r path c.loc c.i).2.1 ∧
          c'.loc = (getLocation r cur
            (getIntersection A r cur prv (getNextLocation r path c.loc c.i).1 ⟨0, 0⟩).2.1).2) ∨
       ((getIntersection A r cur prv (getNextLocation r path c.loc c.i).1 ⟨0, 0⟩).1 = true ∧
          (getNextLocation r path c.loc c.i).1 ≠ .inside ∧
          (c.loc ≠ .inside → (getIntersection A r cur prv (getNextLocation r path c.loc c.i).1 ⟨0, 0⟩).2.2 ≠
            (getIntersection A r prv cur c.loc ⟨0, 0⟩).2.2) ∧
          c'.i = (getNextLocation r path c.loc c.i).2.1 ∧
          c'.loc = (getIntersection A r cur prv (getNextLocation r path c.loc c.i).1 ⟨0, 0⟩).2.1)) := by
  unfold astep at h
  simp only at h
  split at h
  · rename_i hj
    obtain ⟨prv, hprv, _⟩ := prevPt_isSome path _ hj
    refine ⟨_, prv, List.getElem?_eq_getElem hj, hprv, ?_⟩
    rw [List.getElem?_eq_getElem hj, hprv] at h
    simp only at h
    split at h
    · rename_i hx
      left
      refine ⟨by simpa using hx, ?_⟩
      unfold stepOutside at h
      simp only at h
      repeat' split at h
      all_goals first | (cases h; exact ⟨rfl, rfl⟩) | cases h
    · rename_i hx
      have hx' : (getIntersection A r path[(getNextLocation r path c.loc c.i).2.1] prv
          (getNextLocation r path c.loc c.i).1 ⟨0, 0⟩).1 = true := by simpa using hx
      right
      split at h
      · rename_i hli
        left
        unfold stepEnter at h
        simp only at h
        repeat' split at h
        all_goals first | (cases h; exact ⟨hx', hli, rfl, rfl⟩) | cases h
      · rename_i hli
        right
        split at h
        · rename_i hc
          unfold stepThrough at h
          simp only at h
          split at h
          · cases h
          · split at h
            · rename_i heq
              split at h
              · cases h
              · cases h
                exact Or.inl ⟨hx', hli, hc, heq, rfl, rfl⟩
            · rename_i hne
              cases h
              exact Or.inr ⟨hx', hli, fun _ => hne, rfl, rfl⟩
        · rename_i hc
          unfold stepExit at h
          cases h
          exact Or.inr ⟨hx', hli, fun h => absurd h hc, rfl, rfl⟩
  · cases h

/-! ### the loop invariant and `StepFine` -/

/-- invariant of the main loop: the vertex at `i` will be consumed from `loc`, or the vertex before it would have been -/
def InvC (r : Rect) (path : Path) (c : Ctl) : Prop :=
  ReadyAt r path c.loc c.i ∨ ∀ prv, prevPt path c.i = some prv → Ready r c.loc prv

/-- under the invariant the vertex before the one `GetNextLocation` stops at is consumed from the old location -/
theorem prv_ready {r : Rect} {path : Path} {c : Ctl} (hinv : InvC r path c) {cur prv : Pt}
    (hcur : path[(getNextLocation r path c.loc c.i).2.1]? = some cur)
    (hprv : prevPt path (getNextLocation r path c.loc c.i).2.1 = some prv) : Ready r c.loc prv := by
  have g := gnl_spec r path c.loc c.i
  have hstop := gnl_stop r path c.loc c.i cur hcur
  by_cases hlt : c.i < (getNextLocation r path c.loc c.i).2.1
  · rw [prevPt_pos _ _ (by omega)] at hprv
    exact gnl_prev_ready_all r path c.loc c.i prv hlt hprv
  · have hge := g.ge
    have heq : (getNextLocation r path c.loc c.i).2.1 = c.i := by omega
    rw [heq] at hprv hcur
    rcases hinv with h | h
    · exact absurd (h cur hcur) hstop
    · exact h prv hprv

/-- with exact signs the location a successful `GetIntersection` call reports consumes `cur`, unless this is the
`ip == ip2` case of the passing-right-through branch -/
theorem ready_after {A : Arith} (hA : SignExact A) (ht : IsectTotal A) {r : Rect} (hw : r.left < r.right)
    (hh : r.top < r.bottom) {path : Path} {c : Ctl} (hinv : InvC r path c) {cur prv : Pt}
    (hcur : path[(getNextLocation r path c.loc c.i).2.1]? = some cur)
    (hprv : prevPt path (getNextLocation r path c.loc c.i).2.1 = some prv)
    (hx : (getIntersection A r cur prv (getNextLocation r path c.loc c.i).1 ⟨0, 0⟩).1 = true)
    (hl : (getNextLocation r path c.loc c.i).1 ≠ .inside)
    (hne : c.loc ≠ .inside → (getIntersection A r cur prv (getNextLocation r path c.loc c.i).1 ⟨0, 0⟩).2.2 ≠
      (getIntersection A r prv cur c.loc ⟨0, 0⟩).2.2) :
    Ready r (getIntersection A r cur prv (getNextLocation r path c.loc c.i).1 ⟨0, 0⟩).2.1 cur := by
  have g := gnl_spec r path c.loc c.i
  have hr : Ready r (getNextLocation r path c.loc c.i).1 cur := g.ready cur hcur
  rcases getIntersection_ready_exact hA ht r hw hh _ hl cur prv ⟨0, 0⟩ hx hr with h | ⟨hs, hpt⟩
  · exact h
  · exfalso
    have hstop := gnl_stop r path c.loc c.i cur hcur
    by_cases hc : c.loc = .inside
    · apply hstop
      rw [hc]
      exact (outsideLoc_none_iff r cur).mpr (special_inRect hw hh hs)
    · have hp := prv_ready hinv hcur hprv
      have hfrom := special_from hw hh hs hc hp hstop
      have e := hpt ⟨0, 0⟩
      rw [← hfrom] at e
      exact hne hc e

/-- **`StepFine` follows from the invariant** for sign-exact arithmetic and a non-empty rectangle -/
theorem stepFine_of_inv {A : Arith} (hA : SignExact A) (ht : IsectTotal A) {r : Rect} (hw : r.left < r.right)
    (hh : r.top < r.bottom) {path : Path} {c : Ctl} (hinv : InvC r path c) : StepFine A r path c := by
  intro cur prv hcur hprv
  have hp := prv_ready hinv hcur hprv
  constructor
  · intro hx
    constructor
    · intro hli
      have hc : c.loc ≠ .inside := by
        intro hc
        have h1 : path[(getNextLocation r path .inside c.i).2.1]? = some cur := by rw [← hc]; exact hcur
        have h2 := hli
        rw [hc] at h2
        exact (gnl_from_inside r path c.i cur h1).1 h2
      have hstrict := gnl_inside_strict r path c.loc c.i cur hc hcur hli
      have hnsi : NSI r prv := ready_nsi hp hc
      have := getIntersection_from_inside hA ht ⟨hw, hh, hstrict.1, hstrict.2.1, hstrict.2.2.1, hstrict.2.2.2⟩ hnsi ⟨0, 0⟩
      rw [hli] at hx
      rw [this] at hx
      cases hx
    · intro hc
      have h1 : path[(getNextLocation r path .inside c.i).2.1]? = some cur := by rw [← hc]; exact hcur
      have hout := (gnl_from_inside r path c.i cur h1).2
      have hin : inRect r prv = true := by
        rw [hc] at hp
        exact (outsideLoc_none_iff r prv).mp hp
      have := getIntersection_exit_exact hA ht r hw hh _ cur prv ⟨0, 0⟩ hout hin
      rw [hc] at hx
      rw [this] at hx
      cases hx
  · intro hx hl _ hne
    exact ready_after hA ht hw hh hinv hcur hprv hx hl hne

theorem invC_step {A : Arith} (hA : SignExact A) (ht : IsectTotal A) {r : Rect} (hw : r.left < r.right)
    (hh : r.top < r.bottom) {path : Path} {c c' : Ctl} {es : List AEmit} {sl : List Location}
    (hinv : InvC r path c) (h : astep A r path c = .next es sl c') : InvC r path c' := by
  obtain ⟨cur, prv, hcur, hprv, hcases⟩ := astep_next_cases h
  have g := gnl_spec r path c.loc c.i
  unfold InvC
  rcases hcases with ⟨_, hi, hl⟩ | ⟨_, hli, hi, hl⟩ | ⟨_, hli, hc, heq, hi, hl⟩ | ⟨hx, hli, hne, hi, hl⟩
  · right
    intro q hq
    rw [hi, prevPt_succ, hcur] at hq
    cases hq
    rw [hl]
    exact g.ready _ hcur
  · left
    intro q hq
    rw [hi, hcur] at hq
    cases hq
    rw [hl]
    have := g.ready _ hcur
    rw [hli] at this
    exact this
  · left
    intro q hq
    rw [hi, hcur] at hq
    cases hq
    rw [hl]
    exact getLocation_ready r _ _
  · left
    intro q hq
    rw [hi, hcur] at hq
    cases hq
    rw [hl]
    exact ready_after hA ht hw hh hinv hcur hprv hx hli hne

theorem invC_reach {A : Arith} (hA : SignExact A) (ht : IsectTotal A) {r : Rect} (hw : r.left < r.right)
    (hh : r.top < r.bottom) {path : Path} {c0 c : Ctl} (h0 : InvC r path c0) (hr : Reach A r path c0 c) :
    InvC r path c := by
  induction hr with
  | init => exact h0
  | next _ _ hst ih => exact invC_step hA ht hw hh ih hst

theorem invC_init {r : Rect} {path : Path} {last : Pt} {loc0 : Location} (hne : r.isEmpty = false)
    (hl : path.getLast? = some last) (hs : startLoc r path last = .inr loc0) :
    InvC r path ⟨0, loc0, .inside, .inside⟩ := by
  right
  intro prv hprv
  have : prevPt path 0 = some last := by
    unfold prevPt; rw [if_pos rfl, ← List.getLast?_eq_getElem?]; exact hl
  rw [this] at hprv
  cases hprv
  show Ready r loc0 last
  unfold startLoc at hs
  simp only at hs
  split at hs
  · rename_i hg
    split at hs
    · cases hs
    · simp only [Sum.inr.injEq] at hs
      split at hs
      · subst hs
        exact (outsideLoc_none_iff r last).mpr
          (onBoundary_inRect ((getLocation_fst r last .inside).mp (by simpa using hg)) hne)
      · subst hs
        exact getLocation_ready r last .inside
  · simp only [Sum.inr.injEq] at hs
    subst hs
    exact getLocation_ready r last .inside

theorem nonempty_dims {r : Rect} (hne : r.isEmpty = false) : r.left < r.right ∧ r.top < r.bottom := by
  unfold Rect.isEmpty at hne
  simp only [Bool.or_eq_false_iff, decide_eq_false_iff_not] at hne
  omega

/-- **`RunFine` holds for every path** (stated without the definition from Props/C08.lean) -/
theorem runFine_exact {A : Arith} (hA : SignExact A) (ht : IsectTotal A) (r : Rect) (hne : r.isEmpty = false)
    (path : Path) (last : Pt) (loc0 : Location) (hl : path.getLast? = some last)
    (hs : startLoc r path last = .inr loc0) (c : Ctl) (hr : Reach A r path ⟨0, loc0, .inside, .inside⟩ c) :
    StepFine A r path c :=
  stepFine_of_inv hA ht (nonempty_dims hne).1 (nonempty_dims hne).2
    (invC_reach hA ht (nonempty_dims hne).1 (nonempty_dims hne).2 (invC_init hne hl hs) hr)

/-! ### shape of the `Add` calls of one iteration -/

/-- `adds` = the vertices `GetNextLocation` added, `j` = the index it stopped at, `n` = the path length -/
def StepShape (adds : List AEmit) (j n : Nat) : AStep → Prop
  | .done es _ => es = adds ∧ n ≤ j
  | .next es _ c' => ∃ rest, es = adds ++ rest ∧ (∀ e ∈ rest, e.k = j ∧ e.kind ≠ .vertex) ∧ j < n ∧
      (c'.i = j ∨ c'.i = j + 1)
  | .fault _ => True

theorem cornerEmits_shape (k : Nat) (pts : List Pt) : ∀ e ∈ cornerEmits k pts, e.k = k ∧ e.kind ≠ .vertex := by
  intro e he
  simp only [cornerEmits, List.mem_map] at he
  obtain ⟨p, _, rfl⟩ := he
  exact ⟨rfl, by simp⟩

theorem single_shape {j : Nat} {e0 : AEmit} (h : e0.k = j ∧ e0.kind ≠ .vertex) :
    ∀ e ∈ [e0], e.k = j ∧ e.kind ≠ .vertex := by
  intro e he; simp only [List.mem_singleton] at he; subst he; exact h

theorem stepOutside_shape {A : Arith} {r : Rect} (c : Ctl) (loc : Location) (i n : Nat) (adds : List AEmit)
    (cur prv : Pt) (hi : i < n) : StepShape adds i n (stepOutside A r c loc i adds cur prv) := by
  unfold stepOutside
  simp only
  split
  · split
    · trivial
    · exact ⟨[], (List.append_nil _).symm, by simp, hi, Or.inr rfl⟩
  · split
    · split
      · trivial
      · exact ⟨_, rfl, cornerEmits_shape i _, hi, Or.inr rfl⟩
    · exact ⟨[], (List.append_nil _).symm, by simp, hi, Or.inr rfl⟩

theorem stepEnter_shape {A : Arith} {r : Rect} (c : Ctl) (i n : Nat) (adds : List AEmit) (cur prv : Pt)
    (cl : Location) (ip : Pt) (hi : i < n) : StepShape adds i n (stepEnter A r c i adds cur prv cl ip) := by
  unfold stepEnter
  simp only
  split
  · exact ⟨_, rfl, single_shape ⟨rfl, by simp⟩, hi, Or.inl rfl⟩
  · split
    · split
      · trivial
      · exact ⟨_, List.append_assoc _ _ _, all_append (cornerEmits_shape i _) (single_shape ⟨rfl, by simp⟩), hi,
          Or.inl rfl⟩
    · exact ⟨_, rfl, single_shape ⟨rfl, by simp⟩, hi, Or.inl rfl⟩

theorem stepThrough_shape {A : Arith} {r : Rect} (c : Ctl) (i n : Nat) (adds : List AEmit) (cur prv : Pt)
    (cl : Location) (ip : Pt) (hi : i < n) : StepShape adds i n (stepThrough A r c i adds cur prv cl ip) := by
  unfold stepThrough
  simp only
  split
  · trivial
  · split
    · split
      · trivial
      · exact ⟨_, List.append_assoc _ _ _,
          all_append (cornerEmits_shape i _) (all_pair ⟨rfl, by simp⟩ ⟨rfl, by simp⟩), hi, Or.inl rfl⟩
    · exact ⟨_, List.append_assoc _ _ _,
        all_append (cornerEmits_shape i _) (all_pair ⟨rfl, by simp⟩ ⟨rfl, by simp⟩), hi, Or.inl rfl⟩

theorem stepExit_shape (c : Ctl) (i n : Nat) (adds : List AEmit) (cl : Location) (ip : Pt) (hi : i < n) :
    StepShape adds i n (stepExit c i adds cl ip) := by
  unfold stepExit
  exact ⟨_, rfl, single_shape ⟨rfl, by simp⟩, hi, Or.inl rfl⟩

theorem astep_shape (A : Arith) (r : Rect) (path : Path) (c : Ctl) :
    StepShape (vtxEmits (getNextLocation r path c.loc c.i).2.2) (getNextLocation r path c.loc c.i).2.1 path.length
      (astep A r path c) := by
  unfold astep
  simp only
  split
  · rename_i hj
    split
    · split
      · exact stepOutside_shape c _ _ _ _ _ _ hj
      · split
        · exact stepEnter_shape c _ _ _ _ _ _ _ hj
        · split
          · exact stepThrough_shape c _ _ _ _ _ _ _ hj
          · exact stepExit_shape c _ _ _ _ _ hj
    · trivial
  · rename_i hj
    exact ⟨rfl, by omega⟩

/-! ### what `GetNextLocation` passes over -/

theorem takeWhile_getElem?_lt (c : Pt → Bool) (l : List Pt) (m : Nat) (h : m < (l.takeWhile c).length) :
    (l.takeWhile c)[m]? = l[m]? := by
  induction l generalizing m with
  | nil => simp at h
  | cons a l ih =>
    rw [List.takeWhile_cons] at h ⊢
    split at h
    · rename_i ha
      rw [if_pos ha]
      cases m with
      | zero => simp
      | succ m => simpa using ih m (by simpa using h)
    · simp at h

theorem indexFrom_mem (i : Nat) (l : List Pt) (m : Nat) (q : Pt) (h : l[m]? = some q) : (i + m, q) ∈ indexFrom i l := by
  induction l generalizing i m with
  | nil => simp at h
  | cons a l ih =>
    cases m with
    | zero => simp at h; subst h; simp [indexFrom]
    | succ m =>
      simp only [indexFrom, List.mem_cons]
      right
      have := ih (i + 1) m (by simpa using h)
      have e : i + 1 + m = i + (m + 1) := by omega
      rw [e] at this; exact this

theorem gnl_adds_inside (r : Rect) (path : Path) (i : Nat) :
    (getNextLocation r path .inside i).2.2 =
      indexFrom i ((path.drop i).takeWhile (fun p => (outsideLoc r p).isNone)) := by
  simp only [getNextLocation]; split <;> rfl

theorem skip_cond (c : Pt → Bool) (path : Path) (i k : Nat) (q : Pt) (h1 : i ≤ k) (h2 : k < skipWhile c path i)
    (hq : path[k]? = some q) : c q = true := by
  unfold skipWhile at h2
  apply takeWhile_getElem_cond c (path.drop i) (k - i) q (by omega)
  rw [List.getElem?_drop]
  have e : i + (k - i) = k := by omega
  rw [e]; exact hq

/-- every vertex `GetNextLocation` passes over is consumed from the old location; from `Inside` it is added -/
theorem gnl_skipped (r : Rect) (path : Path) (loc : Location) (i k : Nat) (q : Pt) (h1 : i ≤ k)
    (h2 : k < (getNextLocation r path loc i).2.1) (hq : path[k]? = some q) :
    Ready r loc q ∧ (loc = .inside → (k, q) ∈ (getNextLocation r path loc i).2.2) := by
  cases loc
  case inside =>
    rw [gnl_idx_inside] at h2
    rw [gnl_adds_inside]
    have hk : k - i < ((path.drop i).takeWhile (fun p => (outsideLoc r p).isNone)).length := by omega
    have hq' : (path.drop i)[k - i]? = some q := by
      rw [List.getElem?_drop]
      have e : i + (k - i) = k := by omega
      rw [e]; exact hq
    constructor
    · have := takeWhile_getElem_cond (fun p => (outsideLoc r p).isNone) (path.drop i) (k - i) q hk hq'
      simpa [Ready] using this
    · intro _
      have := indexFrom_mem i _ (k - i) q (by rw [takeWhile_getElem?_lt _ _ _ hk]; exact hq')
      have e : i + (k - i) = k := by omega
      rw [e] at this; exact this
  case left =>
    have hj : (getNextLocation r path .left i).2.1 = skipWhile (fun p => decide (p.x ≤ r.left)) path i := by
      simp only [getNextLocation]; split <;> rfl
    rw [hj] at h2
    exact ⟨by simpa [Ready] using skip_cond _ path i k q h1 h2 hq, fun h => by cases h⟩
  case top =>
    have hj : (getNextLocation r path .top i).2.1 = skipWhile (fun p => decide (p.y ≤ r.top)) path i := by
      simp only [getNextLocation]; split <;> rfl
    rw [hj] at h2
    exact ⟨by simpa [Ready] using skip_cond _ path i k q h1 h2 hq, fun h => by cases h⟩
  case right =>
    have hj : (getNextLocation r path .right i).2.1 = skipWhile (fun p => decide (p.x ≥ r.right)) path i := by
      simp only [getNextLocation]; split <;> rfl
    rw [hj] at h2
    exact ⟨by simpa [Ready] using skip_cond _ path i k q h1 h2 hq, fun h => by cases h⟩
  case bottom =>
    have hj : (getNextLocation r path .bottom i).2.1 = skipWhile (fun p => decide (p.y ≥ r.bottom)) path i := by
      simp only [getNextLocation]; split <;> rfl
    rw [hj] at h2
    exact ⟨by simpa [Ready] using skip_cond _ path i k q h1 h2 hq, fun h => by cases h⟩

/-! ### nothing strictly inside is lost -/

/-- strictly inside the rectangle -/
def SI (r : Rect) (q : Pt) : Prop := r.left < q.x ∧ q.x < r.right ∧ r.top < q.y ∧ q.y < r.bottom

theorem lt_of_getElem? {l : List Pt} {k : Nat} {q : Pt} (h : l[k]? = some q) : k < l.length := by
  obtain ⟨h', _⟩ := List.getElem?_eq_some_iff.mp h
  exact h'

/-- from any state satisfying the invariant, the main loop passes every vertex strictly inside the rectangle whose
index is at least `i` to `Add` -/
theorem aloop_keeps {A : Arith} (hA : SignExact A) (ht : IsectTotal A) {r : Rect} (hw : r.left < r.right)
    (hh : r.top < r.bottom) {path : Path} :
    ∀ (fuel : Nat) (c : Ctl) (o : LoopOut), InvC r path c → aloop A r path fuel c = .ok o →
      ∀ k q, c.i ≤ k → path[k]? = some q → SI r q → (⟨k, q, .vertex⟩ : AEmit) ∈ o.es := by
  intro fuel
  induction fuel with
  | zero => intro c o _ h; simp [aloop] at h
  | succ fuel ih =>
    intro c o hinv h k q hk hq hsi
    have hkn := lt_of_getElem? hq
    unfold aloop at h
    split at h
    · have hshape := astep_shape A r path c
      have g := gnl_spec r path c.loc c.i
      have below : k < (getNextLocation r path c.loc c.i).2.1 →
          (⟨k, q, .vertex⟩ : AEmit) ∈ vtxEmits (getNextLocation r path c.loc c.i).2.2 := by
        intro hkj
        obtain ⟨hr, hadd⟩ := gnl_skipped r path c.loc c.i k q hk hkj hq
        by_cases hc : c.loc = .inside
        · exact List.mem_map.mpr ⟨(k, q), hadd hc, rfl⟩
        · exact absurd hsi (ready_nsi hr hc)
      split at h
      · rename_i es loc hst
        rw [hst] at hshape
        simp only [Except.ok.injEq] at h
        subst h
        obtain ⟨hes, hnj⟩ := hshape
        rw [hes]
        exact below (by omega)
      · rename_i es sl c' hst
        rw [hst] at hshape
        obtain ⟨rest, hes, _, _, hci⟩ := hshape
        split at h
        · rename_i o' ho'
          simp only [Except.ok.injEq] at h
          subst h
          by_cases hkc : c'.i ≤ k
          · exact List.mem_append_right _ (ih c' o' (invC_step hA ht hw hh hinv hst) ho' k q hkc hq hsi)
          · apply List.mem_append_left
            rw [hes]
            apply List.mem_append_left
            by_cases hkj : k < (getNextLocation r path c.loc c.i).2.1
            · exact below hkj
            · exfalso
              obtain ⟨cur, prv, hcur, hprv, hcases⟩ := astep_next_cases hst
              rcases hcases with ⟨hx, hi, _⟩ | ⟨_, _, hi, _⟩ | ⟨_, _, _, _, hi, _⟩ | ⟨_, _, _, hi, _⟩
              · have hf := (stepFine_of_inv hA ht hw hh hinv cur prv hcur hprv).1 hx
                have hr := g.ready cur hcur
                have hkj' : k = (getNextLocation r path c.loc c.i).2.1 := by omega
                rw [hkj', hcur] at hq
                cases hq
                exact ready_nsi hr hf.1 hsi
              · omega
              · omega
              · omega
        · simp at h
      · simp at h
    · omega

/-! ### the `Add` calls come in the order of the path -/

/-- order of two `Add` calls: indices do not decrease, and an input vertex is strictly before whatever follows it -/
def EOrd (e1 e2 : AEmit) : Prop := e1.k ≤ e2.k ∧ (e1.kind = .vertex → e1.k < e2.k)

theorem vtxEmits_sorted {l : List (Nat × Pt)} (h : l.Pairwise (fun a b => a.1 < b.1)) : (vtxEmits l).Pairwise EOrd := by
  unfold vtxEmits
  rw [List.pairwise_map]
  exact h.imp (fun hab => ⟨Nat.le_of_lt hab, fun _ => hab⟩)

theorem aloop_sorted (A : Arith) (r : Rect) (path : Path) :
    ∀ (fuel : Nat) (c : Ctl) (o : LoopOut), c.i ≤ path.length → aloop A r path fuel c = .ok o →
      (∀ e ∈ o.es, c.i ≤ e.k ∧ e.k ≤ path.length ∧ (e.kind = .vertex → e.k < path.length)) ∧
      o.es.Pairwise EOrd := by
  intro fuel
  induction fuel with
  | zero => intro c o _ h; simp [aloop] at h
  | succ fuel ih =>
    intro c o hle h
    unfold aloop at h
    split at h
    · have hshape := astep_shape A r path c
      have g := gnl_spec r path c.loc c.i
      have hjle := g.le hle
      have hv : ∀ e ∈ vtxEmits (getNextLocation r path c.loc c.i).2.2,
          e.kind = .vertex ∧ c.i ≤ e.k ∧ e.k < (getNextLocation r path c.loc c.i).2.1 := by
        intro e he
        simp only [vtxEmits, List.mem_map] at he
        obtain ⟨⟨k, q⟩, hm, rfl⟩ := he
        have := g.adds k q hm
        exact ⟨rfl, this.2.2.1, this.2.2.2⟩
      have hvs := vtxEmits_sorted g.sorted
      split at h
      · rename_i es loc hst
        rw [hst] at hshape
        simp only [Except.ok.injEq] at h
        subst h
        obtain ⟨hes, _⟩ := hshape
        simp only
        rw [hes]
        refine ⟨fun e he => ?_, hvs⟩
        have := hv e he
        exact ⟨this.2.1, by omega, fun _ => by omega⟩
      · rename_i es sl c' hst
        rw [hst] at hshape
        obtain ⟨rest, hes, hrest, hjn, hci⟩ := hshape
        split at h
        · rename_i o' ho'
          simp only [Except.ok.injEq] at h
          subst h
          obtain ⟨hb', hs'⟩ := ih c' o' (by omega) ho'
          simp only
          have hge := g.ge
          have hb : ∀ e ∈ es, c.i ≤ e.k ∧ e.k ≤ (getNextLocation r path c.loc c.i).2.1 ∧
              (e.kind = .vertex → e.k < (getNextLocation r path c.loc c.i).2.1) := by
            intro e he
            rw [hes] at he
            rcases List.mem_append.mp he with he | he
            · have := hv e he; exact ⟨this.2.1, by omega, fun _ => this.2.2⟩
            · have := hrest e he; exact ⟨by omega, by omega, fun hk => absurd hk this.2⟩
          refine ⟨fun e he => ?_, ?_⟩
          · rcases List.mem_append.mp he with he | he
            · have := hb e he; exact ⟨this.1, by omega, fun hk => by have := this.2.2 hk; omega⟩
            · have := hb' e he; exact ⟨by omega, this.2.1, this.2.2⟩
          · rw [List.pairwise_append]
            refine ⟨?_, hs', ?_⟩
            · rw [hes, List.pairwise_append]
              refine ⟨hvs, ?_, ?_⟩
              · apply List.pairwise_of_forall_mem_list
                intro a ha b hb2
                have h1 := hrest a ha
                have h2 := hrest b hb2
                exact ⟨by omega, fun hk => absurd hk h1.2⟩
              · intro a ha b hb2
                have h1 := hv a ha
                have h2 := hrest b hb2
                exact ⟨by omega, fun _ => by omega⟩
            · intro a ha b hb2
              have h1 := hb a ha
              have h2 := hb' b hb2
              exact ⟨by omega, fun hk => by have := h1.2.2 hk; omega⟩
        · simp at h
      · simp at h
    · simp only [Except.ok.injEq] at h
      subst h
      simp

/-! ### the closing logic and the whole call -/

theorem afinish_shape (pip : Pt → Path → Option PipResult) (r : Rect) (path : Path) (sloc : Location) (o : LoopOut)
    (fin : List AEmit) (h : afinish pip r path sloc o = .ok fin) :
    ∀ e ∈ fin, e.k = path.length ∧ e.kind ≠ .vertex := by
  unfold afinish at h
  simp only at h
  split at h
  · split at h
    · split at h
      · split at h
        · simp at h
        · simp only [Except.ok.injEq] at h; subst h; exact cornerEmits_shape _ _
        · simp only [Except.ok.injEq] at h; subst h; simp
      · simp only [Except.ok.injEq] at h; subst h; simp
    · simp only [Except.ok.injEq] at h; subst h; simp
  · split at h
    · split at h
      · simp at h
      · split at h
        · split at h
          · simp at h
          · simp only [Except.ok.injEq] at h; subst h; exact cornerEmits_shape _ _
        · simp only [Except.ok.injEq] at h; subst h; exact cornerEmits_shape _ _
    · simp only [Except.ok.injEq] at h; subst h; simp

/-- the three ways `ExecuteInternal` can return -/
theorem exec_cases {A : Arith} {pip : Pt → Path → Option PipResult} {r : Rect} {path : Path} {res : AResult}
    (h : executeInternalA A pip r path = .ok res) :
    (path.getLast? = none ∧ res.es = []) ∨
    (∃ last, path.getLast? = some last ∧ startLoc r path last = .inl res.es) ∨
    (∃ last loc0 o fin, path.getLast? = some last ∧ startLoc r path last = .inr loc0 ∧
      aloop A r path (afuel path) ⟨0, loc0, .inside, .inside⟩ = .ok o ∧ afinish pip r path loc0 o = .ok fin ∧
      res.es = o.es ++ fin) := by
  unfold executeInternalA at h
  cases hl : path.getLast? with
  | none => rw [hl] at h; simp only [Except.ok.injEq] at h; subst h; exact Or.inl ⟨rfl, rfl⟩
  | some last =>
    rw [hl] at h
    simp only at h
    cases hs : startLoc r path last with
    | inl es =>
      rw [hs] at h
      simp only [Except.ok.injEq] at h
      subst h
      exact Or.inr (Or.inl ⟨last, rfl, hs⟩)
    | inr loc0 =>
      rw [hs] at h
      simp only at h
      cases hlo : aloop A r path (afuel path) ⟨0, loc0, .inside, .inside⟩ with
      | error f => rw [hlo] at h; cases h
      | ok o =>
        rw [hlo] at h
        simp only at h
        cases hfin : afinish pip r path loc0 o with
        | error f => rw [hfin] at h; cases h
        | ok fin =>
          rw [hfin] at h
          simp only [Except.ok.injEq] at h
          subst h
          exact Or.inr (Or.inr ⟨last, loc0, o, fin, rfl, hs, hlo, hfin, rfl⟩)

/-! ### the ring `results_[0]` -/

theorem mem_foldl_addRing (p : Pt) : ∀ (l acc : List Pt), (p ∈ acc ∨ p ∈ l) → p ∈ l.foldl addRing acc := by
  intro l
  induction l with
  | nil => intro acc h; rcases h with h | h
           · exact h
           · simp at h
  | cons a l ih =>
    intro acc h
    simp only [List.foldl_cons]
    apply ih
    rcases h with h | h
    · left
      cases acc with
      | nil => simp at h
      | cons last tl =>
        simp only [addRing]
        split
        · exact h
        · exact List.mem_cons_of_mem _ h
    · rcases List.mem_cons.mp h with rfl | h
      · left
        cases acc with
        | nil => simp [addRing]
        | cons last tl =>
          simp only [addRing]
          split
          · rename_i e; rw [e]; simp
          · simp
      · exact Or.inr h

/-- every point passed to `Add` is on the raw ring -/
theorem mem_ringOf_of_mem {es : List AEmit} {e : AEmit} (h : e ∈ es) : e.pt ∈ ringOf es := by
  unfold ringOf
  rw [List.mem_reverse]
  exact mem_foldl_addRing e.pt _ [] (Or.inr (List.mem_map.mpr ⟨e, h, rfl⟩))

theorem foldl_addRing_sublist : ∀ (l acc : List Pt), (l.foldl addRing acc).reverse.Sublist (acc.reverse ++ l) := by
  intro l
  induction l with
  | nil => intro acc; simp
  | cons a l ih =>
    intro acc
    simp only [List.foldl_cons]
    refine (ih (addRing acc a)).trans ?_
    cases acc with
    | nil => simp [addRing]
    | cons last tl =>
      simp only [addRing]
      split
      · simp only [List.reverse_cons, List.append_assoc]
        apply List.Sublist.append_left
        apply List.Sublist.append_left
        exact (List.sublist_cons_self a l)
      · simp

/-- the raw ring lists the points passed to `Add` in the order of the calls (`Add` only drops a point equal to its
predecessor) -/
theorem ringOf_sublist (es : List AEmit) : (ringOf es).Sublist (es.map (·.pt)) := by
  unfold ringOf
  simpa using foldl_addRing_sublist (es.map (·.pt)) []

/-! ### no first crossing of a through-going segment is lost -/

/-- **entry completeness.**  `prv` is consumed from the side `L0`, `cur` is not, and some `GetIntersection` call for the
segment (in the direction `cur → prv`, from any location) succeeds: then `GetIntersection(prv, cur, L0)` succeeds too. -/
theorem getIntersection_through_exact {A : Arith} (hA : SignExact A) (ht : IsectTotal A) (r : Rect)
    (hw : r.left < r.right) (hh : r.top < r.bottom) (L0 : Location) (h0 : L0 ≠ .inside) (cur prv : Pt)
    (hp : Ready r L0 prv) (hc : ¬ Ready r L0 cur) (L : Location) (ip ip' : Pt)
    (hx : (getIntersection A r cur prv L ip).1 = true) : (getIntersection A r prv cur L0 ip').1 = true := by
  rw [getIntersection_exact hA] at hx ⊢
  have hhit := hits_swap (hits_of_getIntersection ht r hw hh cur prv L ip hx)
  cases L0
  · exact through_left ht r hw hh prv cur ip' hp (by simp only [Ready] at hc; omega) hhit
  · exact through_top ht r hw hh prv cur ip' hp (by simp only [Ready] at hc; omega) hhit
  · exact through_right ht r hw hh prv cur ip' hp (by simp only [Ready] at hc; omega) hhit
  · exact through_bottom ht r hw hh prv cur ip' hp (by simp only [Ready] at hc; omega) hhit
  · exact absurd rfl h0

/-- not the point of a failed second `GetIntersection` call of a passing-right-through step -/
def NotLost (e : AEmit) : Prop := e.kind ≠ .thru1 false

theorem nl_corners (k : Nat) (pts : List Pt) : ∀ e ∈ cornerEmits k pts, NotLost e := by
  intro e he
  simp only [cornerEmits, List.mem_map] at he
  obtain ⟨p, _, rfl⟩ := he
  simp [NotLost]

theorem nl_vtx (l : List (Nat × Pt)) : ∀ e ∈ vtxEmits l, NotLost e := by
  intro e he
  simp only [vtxEmits, List.mem_map] at he
  obtain ⟨p, _, rfl⟩ := he
  simp [NotLost]

theorem stepOutside_nl {A : Arith} {r : Rect} (c : Ctl) (loc : Location) (i : Nat) (adds : List AEmit) (cur prv : Pt)
    (ha : ∀ e ∈ adds, NotLost e) : StepAll NotLost (stepOutside A r c loc i adds cur prv) := by
  unfold stepOutside
  simp only
  split
  · split
    · trivial
    · exact ha
  · split
    · split
      · trivial
      · exact all_append ha (nl_corners i _)
    · exact ha

theorem stepEnter_nl {A : Arith} {r : Rect} (c : Ctl) (i : Nat) (adds : List AEmit) (cur prv : Pt) (cl : Location)
    (ip : Pt) (ha : ∀ e ∈ adds, NotLost e) : StepAll NotLost (stepEnter A r c i adds cur prv cl ip) := by
  have hx : NotLost ⟨i, ip, .cross⟩ := by simp [NotLost]
  unfold stepEnter
  simp only
  split
  · exact all_append ha (all_single hx)
  · split
    · split
      · trivial
      · exact all_append (all_append ha (nl_corners i _)) (all_single hx)
    · exact all_append ha (all_single hx)

theorem stepThrough_nl {A : Arith} {r : Rect} (c : Ctl) (i : Nat) (adds : List AEmit) (cur prv : Pt) (cl : Location)
    (ip : Pt) (ha : ∀ e ∈ adds, NotLost e) (hy : (getIntersection A r prv cur c.loc ⟨0, 0⟩).1 = true) :
    StepAll NotLost (stepThrough A r c i adds cur prv cl ip) := by
  have hx : NotLost ⟨i, ip, .cross⟩ := by simp [NotLost]
  unfold stepThrough
  simp only
  rw [hy]
  split
  · trivial
  · split
    · split
      · trivial
      · exact all_append (all_append ha (nl_corners i _)) (all_pair (by simp [NotLost]) (by simp [NotLost]))
    · exact all_append (all_append ha (nl_corners i _)) (all_pair (by simp [NotLost]) hx)

theorem stepExit_nl (c : Ctl) (i : Nat) (adds : List AEmit) (cl : Location) (ip : Pt)
    (ha : ∀ e ∈ adds, NotLost e) : StepAll NotLost (stepExit c i adds cl ip) := by
  unfold stepExit
  exact all_append ha (all_single (by simp [NotLost]))

theorem astep_no_lost {A : Arith} (hA : SignExact A) (ht : IsectTotal A) {r : Rect} (hw : r.left < r.right)
    (hh : r.top < r.bottom) {path : Path} {c : Ctl} (hinv : InvC r path c) :
    StepAll NotLost (astep A r path c) := by
  have key : ∀ cur prv, path[(getNextLocation r path c.loc c.i).2.1]? = some cur →
      prevPt path (getNextLocation r path c.loc c.i).2.1 = some prv →
      (getIntersection A r cur prv (getNextLocation r path c.loc c.i).1 ⟨0, 0⟩).1 = true → c.loc ≠ .inside →
      (getIntersection A r prv cur c.loc ⟨0, 0⟩).1 = true := by
    intro cur prv hcur hprv hx hc
    exact getIntersection_through_exact hA ht r hw hh c.loc hc cur prv (prv_ready hinv hcur hprv)
      (gnl_stop r path c.loc c.i cur hcur) _ ⟨0, 0⟩ ⟨0, 0⟩ hx
  unfold astep
  simp only
  have ha := nl_vtx (getNextLocation r path c.loc c.i).2.2
  split
  · split
    · rename_i cur prv hcur hprv
      split
      · exact stepOutside_nl c _ _ _ cur prv ha
      · rename_i hx
        split
        · exact stepEnter_nl c _ _ cur prv _ _ ha
        · split
          · rename_i hc
            exact stepThrough_nl c _ _ cur prv _ _ ha (key cur prv hcur hprv (by simpa using hx) hc)
          · exact stepExit_nl c _ _ _ _ ha
    · trivial
  · exact ha

theorem aloop_no_lost {A : Arith} (hA : SignExact A) (ht : IsectTotal A) {r : Rect} (hw : r.left < r.right)
    (hh : r.top < r.bottom) {path : Path} :
    ∀ (fuel : Nat) (c : Ctl) (o : LoopOut), InvC r path c → aloop A r path fuel c = .ok o →
      ∀ e ∈ o.es, NotLost e := by
  intro fuel
  induction fuel with
  | zero => intro c o _ h; simp [aloop] at h
  | succ fuel ih =>
    intro c o hinv h
    unfold aloop at h
    split at h
    · have hs := astep_no_lost hA ht hw hh hinv
      split at h
      · rename_i es loc hst
        rw [hst] at hs
        simp only [Except.ok.injEq] at h
        subst h
        exact hs
      · rename_i es sl c' hst
        rw [hst] at hs
        split at h
        · rename_i o' ho'
          simp only [Except.ok.injEq] at h
          subst h
          exact all_append hs (ih c' o' (invC_step hA ht hw hh hinv hst) ho')
        · simp at h
      · simp at h
    · simp only [Except.ok.injEq] at h
      subst h
      simp

theorem afinish_nl (pip : Pt → Path → Option PipResult) (r : Rect) (path : Path) (sloc : Location) (o : LoopOut)
    (fin : List AEmit) (h : afinish pip r path sloc o = .ok fin) : ∀ e ∈ fin, NotLost e := by
  unfold afinish at h
  simp only at h
  split at h
  · split at h
    · split at h
      · split at h
        · simp at h
        · simp only [Except.ok.injEq] at h; subst h; exact nl_corners _ _
        · simp only [Except.ok.injEq] at h; subst h; simp
      · simp only [Except.ok.injEq] at h; subst h; simp
    · simp only [Except.ok.injEq] at h; subst h; simp
  · split at h
    · split at h
      · simp at h
      · split at h
        · split at h
          · simp at h
          · simp only [Except.ok.injEq] at h; subst h; exact nl_corners _ _
        · simp only [Except.ok.injEq] at h; subst h; exact nl_corners _ _
    · simp only [Except.ok.injEq] at h; subst h; simp

/-- with exact signs no `Add` call of `ExecuteInternal` passes the point of a failed `GetIntersection` call -/
theorem exec_no_lost {A : Arith} (hA : SignExact A) (ht : IsectTotal A) {pip : Pt → Path → Option PipResult}
    {r : Rect} (hne : r.isEmpty = false) {path : Path} {res : AResult}
    (h : executeInternalA A pip r path = .ok res) : ∀ e ∈ res.es, NotLost e := by
  rcases exec_cases h with ⟨_, hes⟩ | ⟨last, hl, hs⟩ | ⟨last, loc0, o, fin, hl, hs, hlo, hfin, hes⟩
  · rw [hes]; simp
  · obtain ⟨hes, _⟩ := startLoc_inl hl hs
    rw [hes]; exact nl_vtx _
  · rw [hes]
    exact all_append
      (aloop_no_lost hA ht (nonempty_dims hne).1 (nonempty_dims hne).2 _ _ o (invC_init hne hl hs) hlo)
      (afinish_nl pip r path loc0 o fin hfin)

/-! ### the kept vertices as a sublist -/

instance (r : Rect) (q : Pt) : Decidable (SI r q) := by unfold SI; exact inferInstance

/-- two lists strictly sorted by a key, one contained in the other as a set: it is a sublist -/
theorem sublist_of_sorted_subset {α : Type} (key : α → Nat) :
    ∀ (K I : List α), I.Pairwise (fun a b => key a < key b) → K.Pairwise (fun a b => key a < key b) →
      (∀ a ∈ I, a ∈ K) → I.Sublist K := by
  intro K
  induction K with
  | nil =>
    intro I _ _ hsub
    cases I with
    | nil => exact List.Sublist.slnil
    | cons a _ => exact absurd (hsub a (List.mem_cons_self ..)) (by simp)
  | cons k K ih =>
    intro I hI hK hsub
    cases I with
    | nil => exact List.nil_sublist _
    | cons i I' =>
      have hk := List.pairwise_cons.mp hK
      have hi := List.pairwise_cons.mp hI
      rcases List.mem_cons.mp (hsub i (List.mem_cons_self ..)) with rfl | hik
      · apply List.Sublist.cons_cons
        apply ih I' hi.2 hk.2
        intro a ha
        rcases List.mem_cons.mp (hsub a (List.mem_cons_of_mem _ ha)) with rfl | h
        · exact absurd (hi.1 a ha) (Nat.lt_irrefl _)
        · exact h
      · apply List.Sublist.cons
        apply ih (i :: I') hI hk.2
        intro a ha
        rcases List.mem_cons.mp (hsub a ha) with rfl | h
        · exfalso
          have h1 := hk.1 i hik
          rcases List.mem_cons.mp ha with rfl | ha'
          · exact Nat.lt_irrefl _ h1
          · have h2 := hi.1 a ha'
            omega
        · exact h

theorem indexFrom_filter_snd (p : Pt → Bool) (i : Nat) (l : List Pt) :
    ((indexFrom i l).filter (fun kp => p kp.2)).map (·.2) = l.filter p := by
  induction l generalizing i with
  | nil => rfl
  | cons a l ih =>
    simp only [indexFrom, List.filter_cons]
    split
    · simp [ih]
    · exact ih (i + 1)

/-- if every vertex strictly inside is recorded as a `vertex` call with its index, and the calls are in path order,
then the strictly-inside vertices, in input order, form a sublist of the points passed to `Add` -/
theorem kept_sublist {r : Rect} {path : Path} {es : List AEmit}
    (hkept : ∀ k q, path[k]? = some q → SI r q → (⟨k, q, .vertex⟩ : AEmit) ∈ es) (hord : es.Pairwise EOrd) :
    (path.filter (fun q => decide (SI r q))).Sublist (es.map (·.pt)) := by
  let V := es.filter (fun e => decide (e.kind = .vertex))
  have hVsub : (V.map (·.pt)).Sublist (es.map (·.pt)) := List.Sublist.map _ List.filter_sublist
  refine List.Sublist.trans ?_ hVsub
  have hI : ((indexFrom 0 path).filter (fun kp => decide (SI r kp.2))).Pairwise (fun a b => a.1 < b.1) :=
    (indexFrom_pairwise 0 path).filter _
  have hK : (V.map (fun e => (e.k, e.pt))).Pairwise (fun a b => a.1 < b.1) := by
    rw [List.pairwise_map]
    have hV : V.Pairwise EOrd := hord.filter _
    refine hV.imp_of_mem ?_
    intro a b ha _ hab
    have : a.kind = .vertex := by simpa [V] using (List.mem_filter.mp ha).2
    exact hab.2 this
  have hsub : ∀ a ∈ (indexFrom 0 path).filter (fun kp => decide (SI r kp.2)), a ∈ V.map (fun e => (e.k, e.pt)) := by
    intro a ha
    obtain ⟨hm, hs⟩ := List.mem_filter.mp ha
    obtain ⟨k, q⟩ := a
    have hq := (mem_indexFrom 0 path k q hm).2.2
    rw [Nat.sub_zero] at hq
    have hsi : SI r q := by simpa using hs
    exact List.mem_map.mpr ⟨⟨k, q, .vertex⟩, List.mem_filter.mpr ⟨hkept k q hq hsi, by simp⟩, rfl⟩
  have hsl := sublist_of_sorted_subset (fun kp : Nat × Pt => kp.1) _ _ hI hK hsub
  have := List.Sublist.map (fun kp : Nat × Pt => kp.2) hsl
  rw [indexFrom_filter_snd (fun q => decide (SI r q)) 0 path] at this
  simpa [List.map_map, Function.comp_def] using this

/-! ### what a recorded `Add` call is when no crossing is lost -/

theorem crossZeroExact_of_signExact {A : Arith} (hA : SignExact A) : CrossZeroExact A :=
  fun a b c _ => (hA a b c).1

/-- `e` is a rectangle corner, or the point a successful `GetIntersection` call (in either direction) reported for the
segment ending in `path[e.k]` -/
def CornerOrCrossing (A : Arith) (r : Rect) (path : Path) (e : AEmit) : Prop :=
  e.pt ∈ r.asPath ∨
  ∃ cur prv loc, path[e.k]? = some cur ∧ prevPt path e.k = some prv ∧
    (((getIntersection A r cur prv loc ⟨0, 0⟩).1 = true ∧ (getIntersection A r cur prv loc ⟨0, 0⟩).2.2 = e.pt) ∨
     ((getIntersection A r prv cur loc ⟨0, 0⟩).1 = true ∧ (getIntersection A r prv cur loc ⟨0, 0⟩).2.2 = e.pt))

/-- `e` is the input vertex `path[e.k]`, lying in the closed rectangle, or a corner, or a crossing -/
def VertexCornerOrCrossing (A : Arith) (r : Rect) (path : Path) (e : AEmit) : Prop :=
  (e.kind = .vertex ∧ path[e.k]? = some e.pt ∧ inRect r e.pt = true) ∨ CornerOrCrossing A r path e

theorem agood_not_lost {A : Arith} {r : Rect} {path : Path} {e : AEmit} (hg : AGood A r path e)
    (hl : e.kind ≠ .thru1 false) : VertexCornerOrCrossing A r path e := by
  unfold AGood at hg
  split at hg
  · rename_i hk; exact Or.inl ⟨hk, hg⟩
  · exact Or.inr (Or.inl hg)
  · obtain ⟨cur, prv, loc, hc, hp, h1, h2⟩ := hg
    exact Or.inr (Or.inr ⟨cur, prv, loc, hc, hp, Or.inl ⟨h1, h2⟩⟩)
  · rename_i f hk
    obtain ⟨cur, prv, loc, hc, hp, h1, h2⟩ := hg
    cases f with
    | false => exact absurd hk hl
    | true => exact Or.inr (Or.inr ⟨cur, prv, loc, hc, hp, Or.inr ⟨h1, h2⟩⟩)

end Clipper.Lemmas.RCC
