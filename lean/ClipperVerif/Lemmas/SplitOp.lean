/-
Helper lemmas for the model of `FixSelfIntersects` / `DoSplitOp` (`Model/SplitOp.lean`, property C03):
normal form of `doSplitOp`, what a proper intersection says about the four end points, a generic invariant
principle for the loop, the fuel measure.  Core Lean only.
-/
import ClipperVerif.Model.SplitOp
import ClipperVerif.Lemmas.CleanUp
namespace Clipper.Lemmas.SplitOp
open Clipper Clipper.Model Clipper.Model.CleanUp Clipper.Model.SplitOp Clipper.Lemmas.CleanUp

/-! ## proper intersection and distinct end points -/

theorem crossProduct_self_left (c d : Pt) : crossProduct c c d = 0 := by
  unfold crossProduct; simp

theorem crossProduct_self_outer (c d : Pt) : crossProduct d c d = 0 := by
  unfold crossProduct; grind

/-- a point with non-zero `CrossProduct(p, c, d)` is neither `c` nor `d` -/
theorem csX_ne_zero {p c d : Pt} (h : csX p c d ≠ 0) : p ≠ c ∧ p ≠ d := by
  constructor
  · intro e; subst e; apply h; simp [csX, crossProduct_self_left]
  · intro e; subst e; apply h; simp [csX, crossProduct_self_outer]

/-- what the theorems need of the cross-product sign: it vanishes when the first point is one of the other two.
True for exact arithmetic (`csSound_csX`); true for the compiled doubles as well, because for `p = c` both products
are `0 * _` and for `p = d` the expression is `x*(-y) - y*(-x)` whose two rounded products are equal (IEEE rounding is
symmetric under negation) — provided the `int64_t` differences do not overflow. -/
def CsSound (cs : Pt → Pt → Pt → Int) : Prop := ∀ p c d, cs p c d ≠ 0 → p ≠ c ∧ p ≠ d

/-- what the theorems need of the area decision: a triangle that becomes a new outrec has three different corners
(`absArea2 >= 1` excludes the value 0 that `AreaTriangle` returns, exactly also in doubles, when two corners coincide) -/
def AdecSound (adec : Ring → Pt → Pt → Pt → AreaDec) : Prop :=
  ∀ ring ip s sn, adec ring ip s sn = .newRing → ip ≠ s ∧ s ≠ sn ∧ sn ≠ ip

theorem csSound_csX : CsSound csX := fun _ _ _ h => csX_ne_zero h

theorem mul_neg_ne_zero {x y : Int} (h : x * y < 0) : x ≠ 0 ∧ y ≠ 0 := by
  constructor
  · intro e; subst e; simp at h
  · intro e; subst e; simp at h

/-- `SegmentsIntersect(a, b, c, d)` implies that no end point of one segment is an end point of the other -/
theorem segsInt_ne {cs : Pt → Pt → Pt → Int} (hcs : CsSound cs) {a b c d : Pt} (h : segsInt cs a b c d = true) :
    a ≠ c ∧ a ≠ d ∧ b ≠ c ∧ b ≠ d := by
  unfold segsInt at h
  simp only [Bool.and_eq_true, decide_eq_true_eq] at h
  obtain ⟨h1, _⟩ := h
  obtain ⟨ha, hb⟩ := mul_neg_ne_zero h1
  exact ⟨(hcs _ _ _ ha).1, (hcs _ _ _ ha).2, (hcs _ _ _ hb).1, (hcs _ _ _ hb).2⟩

/-- the first test of the loop is false on rings of fewer than four nodes -/
theorem view_short {cs : Pt → Pt → Pt → Int} (hcs : CsSound cs) {r : Ring} {pv o nx nn nnn : Pt}
    (hv : view r = some (pv, o, nx, nn, nnn)) (h : segsInt cs pv o nx nn = true) : r.length ≥ 4 := by
  have hne := segsInt_ne hcs h
  match r, hv with
  | [a], hv => simp [view] at hv; obtain ⟨rfl, rfl, rfl, rfl, rfl⟩ := hv; exact absurd rfl hne.1
  | [a, b], hv => simp [view] at hv; obtain ⟨rfl, rfl, rfl, rfl, rfl⟩ := hv; exact absurd rfl hne.1
  | [a, b, c], hv => simp [view] at hv; obtain ⟨rfl, rfl, rfl, rfl, rfl⟩ := hv; exact absurd rfl hne.2.1
  | _ :: _ :: _ :: _ :: _, _ => simp

/-! ## normal forms -/

/-- every ring of at least four nodes is `s :: sn :: nn :: (mid ++ [pv])` -/
theorem ring4_form (d : Pt) (rest : List Pt) :
    ∃ mid pv, d :: rest = mid ++ [pv] ∧ (d :: rest).getLast (List.cons_ne_nil _ _) = pv ∧
      (d :: rest).dropLast = mid :=
  ⟨(d :: rest).dropLast, (d :: rest).getLast (List.cons_ne_nil _ _),
    (List.dropLast_concat_getLast (List.cons_ne_nil _ _)).symm, rfl, rfl⟩

theorem view_four (s sn nn pv : Pt) (mid : List Pt) :
    view (s :: sn :: nn :: (mid ++ [pv])) = some (pv, s, sn, nn, (mid ++ [pv]).head (by simp)) := by
  cases mid with
  | nil => simp [view]
  | cons d rest =>
    have e1 : (d :: (rest ++ [pv])).getLast (List.cons_ne_nil _ _) = pv :=
      getLast_of_eq_snoc (m := d :: rest) _ (by simp)
    simp [view, e1]

/-- the value of `doSplitOp` on a ring in normal form -/
def splitVal (isect : Pt → Pt → Pt → Pt → Pt) (adec : Ring → Pt → Pt → Pt → AreaDec)
    (s sn nn pv : Pt) (mid : List Pt) : SplitRes :=
  let ip := isect pv s sn nn
  let dec := adec (pv :: s :: sn :: nn :: mid) ip s sn
  if dec = .dispose then ⟨none, none⟩
  else ⟨some (if ip = pv ∨ ip = nn then pv :: nn :: mid else pv :: ip :: nn :: mid),
        if dec = .newRing then some [ip, s, sn] else none⟩

theorem doSplitOp_four (isect : Pt → Pt → Pt → Pt → Pt) (adec : Ring → Pt → Pt → Pt → AreaDec)
    (s sn nn pv : Pt) (mid : List Pt) :
    doSplitOp isect adec (s :: sn :: nn :: (mid ++ [pv])) = some (splitVal isect adec s sn nn pv mid) := by
  cases mid with
  | nil => simp only [List.nil_append, doSplitOp, splitVal]; split <;> simp_all
  | cons d rest =>
    have e1 : (d :: rest ++ [pv]).getLast (List.cons_ne_nil _ _) = pv :=
      getLast_of_eq_snoc (m := d :: rest) _ (by simp)
    have e2 : (d :: rest ++ [pv]).dropLast = d :: rest := by
      rw [show d :: rest ++ [pv] = (d :: rest) ++ [pv] from rfl, List.dropLast_concat]
    simp only [List.cons_append] at e1 e2 ⊢
    simp only [doSplitOp, splitVal, e1, e2]
    split <;> simp_all

/-- a ring on which `view` and the first test succeed is in normal form -/
theorem ring_form_of_len {r : Ring} (h : r.length ≥ 4) :
    ∃ s sn nn mid pv, r = s :: sn :: nn :: (mid ++ [pv]) := by
  match r, h with
  | s :: sn :: nn :: d :: rest, _ =>
    obtain ⟨mid, pv, e, _, _⟩ := ring4_form d rest
    exact ⟨s, sn, nn, mid, pv, by rw [e]⟩

theorem doSplitOp_none_iff {isect : Pt → Pt → Pt → Pt → Pt} {adec : Ring → Pt → Pt → Pt → AreaDec} {r : Ring}
    (h : r.length ≥ 4) : doSplitOp isect adec r ≠ none := by
  obtain ⟨s, sn, nn, mid, pv, rfl⟩ := ring_form_of_len h
  rw [doSplitOp_four]; simp

theorem length_rot1 (r : Ring) : (rot1 r).length = r.length := by
  cases r <;> simp [rot1]

theorem mem_rot1 (r : Ring) (x : Pt) : x ∈ rot1 r ↔ x ∈ r := by
  cases r <;> simp [rot1, or_comm]

theorem cycNoDup_rot1 (r : Ring) (h : CycNoDup r) : CycNoDup (rot1 r) := by
  cases r with
  | nil => exact h
  | cons a rest => exact cycPairs_rot1 _ a rest h

/-! ## unfolding of the loop -/

theorem fsiLoop_zero (cs : Pt → Pt → Pt → Int) (isect : Pt → Pt → Pt → Pt → Pt) (adec : Ring → Pt → Pt → Pt → AreaDec)
    (r : Ring) (pts : Nat) (acc : List Ring) (k : Nat) :
    fsiLoop cs isect adec 0 r pts acc k = .outOfFuel k := rfl

/-- one iteration, as a case distinction on the two tests -/
inductive Step (cs : Pt → Pt → Pt → Int) (isect : Pt → Pt → Pt → Pt → Pt) (adec : Ring → Pt → Pt → Pt → AreaDec)
    (r : Ring) : Prop
  | fault : view r = none → Step cs isect adec r
  | dup (pv o nx nn nnn : Pt) : view r = some (pv, o, nx, nn, nnn) → segsInt cs pv o nx nn = true →
      segsInt cs pv o nn nnn = true → Step cs isect adec r
  | split (pv o nx nn nnn : Pt) : view r = some (pv, o, nx, nn, nnn) → segsInt cs pv o nx nn = true →
      segsInt cs pv o nn nnn = false → Step cs isect adec r
  | next (pv o nx nn nnn : Pt) : view r = some (pv, o, nx, nn, nnn) → segsInt cs pv o nx nn = false →
      Step cs isect adec r

theorem step_cases (cs : Pt → Pt → Pt → Int) (isect : Pt → Pt → Pt → Pt → Pt) (adec : Ring → Pt → Pt → Pt → AreaDec)
    (r : Ring) : Step cs isect adec r := by
  cases hv : view r with
  | none => exact .fault hv
  | some t =>
    obtain ⟨pv, o, nx, nn, nnn⟩ := t
    cases h1 : segsInt cs pv o nx nn with
    | false => exact .next pv o nx nn nnn hv h1
    | true =>
      cases h2 : segsInt cs pv o nn nnn with
      | false => exact .split pv o nx nn nnn hv h1 h2
      | true => exact .dup pv o nx nn nnn hv h1 h2

variable (cs : Pt → Pt → Pt → Int) (isect : Pt → Pt → Pt → Pt → Pt) (adec : Ring → Pt → Pt → Pt → AreaDec)

theorem fsiLoop_fault (fuel : Nat) (r : Ring) (pts : Nat) (acc : List Ring) (k : Nat) (hv : view r = none) :
    fsiLoop cs isect adec (fuel + 1) r pts acc k = .fault := by
  simp [fsiLoop, hv]

theorem fsiLoop_dup (fuel : Nat) (r : Ring) (pts : Nat) (acc : List Ring) (k : Nat) {pv o nx nn nnn : Pt}
    (hv : view r = some (pv, o, nx, nn, nnn)) (h1 : segsInt cs pv o nx nn = true)
    (h2 : segsInt cs pv o nn nnn = true) :
    fsiLoop cs isect adec (fuel + 1) r pts acc k =
      if pts = 0 then .done (some (r ++ [nn])) acc (k + 1)
      else fsiLoop cs isect adec fuel (r ++ [nn]) pts acc (k + 1) := by
  simp [fsiLoop, hv, h1, h2]

theorem fsiLoop_split_fault (fuel : Nat) (r : Ring) (pts : Nat) (acc : List Ring) (k : Nat) {pv o nx nn nnn : Pt}
    (hv : view r = some (pv, o, nx, nn, nnn)) (h1 : segsInt cs pv o nx nn = true)
    (h2 : segsInt cs pv o nn nnn = false) (hs : doSplitOp isect adec r = none) :
    fsiLoop cs isect adec (fuel + 1) r pts acc k = .fault := by
  simp [fsiLoop, hv, h1, h2, hs]

theorem fsiLoop_split_dispose (fuel : Nat) (r : Ring) (pts : Nat) (acc : List Ring) (k : Nat) {pv o nx nn nnn : Pt}
    (hv : view r = some (pv, o, nx, nn, nnn)) (h1 : segsInt cs pv o nx nn = true)
    (h2 : segsInt cs pv o nn nnn = false) {nr : Option Ring} (hs : doSplitOp isect adec r = some ⟨none, nr⟩) :
    fsiLoop cs isect adec (fuel + 1) r pts acc k = .done none acc k := by
  simp [fsiLoop, hv, h1, h2, hs]

theorem fsiLoop_split_some (fuel : Nat) (r : Ring) (pts : Nat) (acc : List Ring) (k : Nat) {pv o nx nn nnn : Pt}
    (hv : view r = some (pv, o, nx, nn, nnn)) (h1 : segsInt cs pv o nx nn = true)
    (h2 : segsInt cs pv o nn nnn = false) {m : Ring} {nr : Option Ring}
    (hs : doSplitOp isect adec r = some ⟨some m, nr⟩) :
    fsiLoop cs isect adec (fuel + 1) r pts acc k =
      if m.length = 3 then .done (some m) (acc ++ nr.toList) k
      else fsiLoop cs isect adec fuel m 0 (acc ++ nr.toList) k := by
  simp [fsiLoop, hv, h1, h2, hs]

theorem fsiLoop_next (fuel : Nat) (r : Ring) (pts : Nat) (acc : List Ring) (k : Nat) {pv o nx nn nnn : Pt}
    (hv : view r = some (pv, o, nx, nn, nnn)) (h1 : segsInt cs pv o nx nn = false) :
    fsiLoop cs isect adec (fuel + 1) r pts acc k =
      if (if pts = 0 then r.length - 1 else pts - 1) = 0 then .done (some (rot1 r)) acc k
      else fsiLoop cs isect adec fuel (rot1 r) (if pts = 0 then r.length - 1 else pts - 1) acc k := by
  simp [fsiLoop, hv, h1]


/-! ## what `doSplitOp` returns -/

theorem doSplitOp_some_len {r : Ring} {res : SplitRes} (h : doSplitOp isect adec r = some res) : r.length ≥ 4 := by
  match r, h with
  | [], h => simp [doSplitOp] at h
  | [_], h => simp [doSplitOp] at h
  | [_, _], h => simp [doSplitOp] at h
  | [_, _, _], h => simp [doSplitOp] at h
  | _ :: _ :: _ :: _ :: _, _ => simp

/-- the shape of a successful, non-disposing `doSplitOp` -/
theorem doSplitOp_main {r m : Ring} {nr : Option Ring} (h : doSplitOp isect adec r = some ⟨some m, nr⟩) :
    ∃ s sn nn mid pv, r = s :: sn :: nn :: (mid ++ [pv]) ∧
      adec (pv :: s :: sn :: nn :: mid) (isect pv s sn nn) s sn ≠ .dispose ∧
      m = (if isect pv s sn nn = pv ∨ isect pv s sn nn = nn then pv :: nn :: mid
           else pv :: isect pv s sn nn :: nn :: mid) ∧
      nr = (if adec (pv :: s :: sn :: nn :: mid) (isect pv s sn nn) s sn = .newRing
            then some [isect pv s sn nn, s, sn] else none) := by
  obtain ⟨s, sn, nn, mid, pv, rfl⟩ := ring_form_of_len (doSplitOp_some_len isect adec h)
  rw [doSplitOp_four] at h
  simp only [splitVal, Option.some.injEq] at h
  refine ⟨s, sn, nn, mid, pv, rfl, ?_⟩
  split at h
  · simp at h
  · rename_i hd
    simp only [SplitRes.mk.injEq, Option.some.injEq] at h
    exact ⟨hd, h.1.symm, h.2.symm⟩

theorem doSplitOp_length {r m : Ring} {nr : Option Ring} (h : doSplitOp isect adec r = some ⟨some m, nr⟩) :
    m.length + 1 ≤ r.length ∧ r.length ≤ m.length + 2 := by
  obtain ⟨s, sn, nn, mid, pv, rfl, _, hm, _⟩ := doSplitOp_main isect adec h
  subst hm
  split <;> simp <;> omega

/-! ## generic invariant principle -/

/-- If `I` (a property of the ring seen from `op2`) is preserved by stepping, by the `DuplicateOp` branch and by
`DoSplitOp`, and every ring `DoSplitOp` splits off satisfies `J`, then the ring the loop leaves satisfies `I` and
all split-off rings satisfy `J`. -/
theorem fsiLoop_inv (I J : Ring → Prop)
    (hrot : ∀ r, I r → I (rot1 r))
    (hdup : ∀ r pv o nx nn nnn, view r = some (pv, o, nx, nn, nnn) → segsInt cs pv o nx nn = true →
      segsInt cs pv o nn nnn = true → I r → I (r ++ [nn]))
    (hsplit : ∀ r pv o nx nn nnn m nr, view r = some (pv, o, nx, nn, nnn) → segsInt cs pv o nx nn = true →
      doSplitOp isect adec r = some ⟨some m, nr⟩ → I r → I m ∧ ∀ q, nr = some q → J q) :
    ∀ fuel r pts acc k m sp k', fsiLoop cs isect adec fuel r pts acc k = .done m sp k' → I r →
      (∀ q, q ∈ acc → J q) → (∀ m', m = some m' → I m') ∧ ∀ q, q ∈ sp → J q := by
  intro fuel
  induction fuel with
  | zero => intro r pts acc k m sp k' h; simp [fsiLoop_zero] at h
  | succ fuel ih =>
    intro r pts acc k m sp k' h hI hacc
    rcases step_cases cs isect adec r with hv | ⟨pv, o, nx, nn, nnn, hv, h1, h2⟩ |
      ⟨pv, o, nx, nn, nnn, hv, h1, h2⟩ | ⟨pv, o, nx, nn, nnn, hv, h1⟩
    · rw [fsiLoop_fault cs isect adec fuel r pts acc k hv] at h; cases h
    · rw [fsiLoop_dup cs isect adec fuel r pts acc k hv h1 h2] at h
      have hI' := hdup r pv o nx nn nnn hv h1 h2 hI
      split at h
      · cases h
        exact ⟨fun m' e => by cases e; exact hI', hacc⟩
      · exact ih _ _ _ _ _ _ _ h hI' hacc
    · cases hs : doSplitOp isect adec r with
      | none => rw [fsiLoop_split_fault cs isect adec fuel r pts acc k hv h1 h2 hs] at h; cases h
      | some res =>
        obtain ⟨mo, nr⟩ := res
        cases mo with
        | none =>
          rw [fsiLoop_split_dispose cs isect adec fuel r pts acc k hv h1 h2 hs] at h; cases h
          exact ⟨fun m' e => (by cases e), hacc⟩
        | some m1 =>
          rw [fsiLoop_split_some cs isect adec fuel r pts acc k hv h1 h2 hs] at h
          obtain ⟨hIm, hJ⟩ := hsplit r pv o nx nn nnn m1 nr hv h1 hs hI
          have hacc' : ∀ q, q ∈ acc ++ nr.toList → J q := by
            intro q hq
            rcases List.mem_append.mp hq with hq | hq
            · exact hacc q hq
            · exact hJ q (by simpa using hq)
          split at h
          · cases h
            exact ⟨fun m' e => by cases e; exact hIm, hacc'⟩
          · exact ih _ _ _ _ _ _ _ h hIm hacc'
    · rw [fsiLoop_next cs isect adec fuel r pts acc k hv h1] at h
      generalize (if pts = 0 then r.length - 1 else pts - 1) = pts' at h
      split at h
      · cases h
        exact ⟨fun m' e => by cases e; exact hrot r hI, hacc⟩
      · exact ih _ _ _ _ _ _ _ h (hrot r hI) hacc

/-! ## fuel -/

/-- the measure: `W·(2W+3) + (steps left in the current pass) + K` with `W = n + K`, `K` the number of
`DuplicateOp` executions still allowed -/
def mu (n pts K : Nat) : Nat := (n + K) * (2 * (n + K) + 3) + (if pts = 0 then n else pts) + K

theorem mu_split (W W' : Nat) (h : W' + 1 ≤ W) : W' * (2 * W' + 3) + W' < W * (2 * W + 3) := by
  have h1 := Nat.mul_le_mul h (show 2 * (W' + 1) + 3 ≤ 2 * W + 3 by omega)
  have e : (W' + 1) * (2 * (W' + 1) + 3) = W' * (2 * W' + 3) + 4 * W' + 5 := by
    simp only [Nat.add_mul, Nat.mul_add]; omega
  omega

/-- the `DuplicateOp` counter never decreases -/
theorem fsiLoop_mono : ∀ fuel r pts acc k k', fsiLoop cs isect adec fuel r pts acc k = .outOfFuel k' → k ≤ k' := by
  intro fuel
  induction fuel with
  | zero => intro r pts acc k k' h; simp [fsiLoop_zero] at h; omega
  | succ fuel ih =>
    intro r pts acc k k' h
    rcases step_cases cs isect adec r with hv | ⟨pv, o, nx, nn, nnn, hv, h1, h2⟩ |
      ⟨pv, o, nx, nn, nnn, hv, h1, h2⟩ | ⟨pv, o, nx, nn, nnn, hv, h1⟩
    · rw [fsiLoop_fault cs isect adec fuel r pts acc k hv] at h; cases h
    · rw [fsiLoop_dup cs isect adec fuel r pts acc k hv h1 h2] at h
      split at h
      · cases h
      · have := ih _ _ _ _ _ h; omega
    · cases hs : doSplitOp isect adec r with
      | none => rw [fsiLoop_split_fault cs isect adec fuel r pts acc k hv h1 h2 hs] at h; cases h
      | some res =>
        obtain ⟨mo, nr⟩ := res
        cases mo with
        | none => rw [fsiLoop_split_dispose cs isect adec fuel r pts acc k hv h1 h2 hs] at h; cases h
        | some m1 =>
          rw [fsiLoop_split_some cs isect adec fuel r pts acc k hv h1 h2 hs] at h
          split at h
          · cases h
          · exact ih _ _ _ _ _ h
    · rw [fsiLoop_next cs isect adec fuel r pts acc k hv h1] at h
      generalize (if pts = 0 then r.length - 1 else pts - 1) = pts' at h
      split at h
      · cases h
      · exact ih _ _ _ _ _ h

/-- If the loop runs out of fuel although `fuel > mu n pts K`, it has executed the `DuplicateOp` branch more than
`K` times.  (Every `DoSplitOp` shortens the ring by one or two nodes, every `DuplicateOp` lengthens it by one and
is followed by a step; a pass visits every node at most once.) -/
theorem fsiLoop_fuel_aux : ∀ fuel r pts acc k K k', fuel > mu r.length pts K →
    fsiLoop cs isect adec fuel r pts acc k = .outOfFuel k' → k' > k + K := by
  intro fuel
  induction fuel with
  | zero => intro r pts acc k K k' hf; omega
  | succ fuel ih =>
    intro r pts acc k K k' hf h
    rcases step_cases cs isect adec r with hv | ⟨pv, o, nx, nn, nnn, hv, h1, h2⟩ |
      ⟨pv, o, nx, nn, nnn, hv, h1, h2⟩ | ⟨pv, o, nx, nn, nnn, hv, h1⟩
    · rw [fsiLoop_fault cs isect adec fuel r pts acc k hv] at h; cases h
    · rw [fsiLoop_dup cs isect adec fuel r pts acc k hv h1 h2] at h
      split at h
      · cases h
      · rename_i hp
        cases K with
        | zero => have := fsiLoop_mono cs isect adec _ _ _ _ _ _ h; omega
        | succ K =>
          have hf' : fuel > mu (r ++ [nn]).length pts K := by
            simp only [mu, List.length_append, List.length_cons, List.length_nil, if_neg hp] at hf ⊢
            have e : r.length + 1 + K = r.length + (K + 1) := by omega
            rw [e]; omega
          have := ih _ _ _ _ K _ hf' h; omega
    · cases hs : doSplitOp isect adec r with
      | none => rw [fsiLoop_split_fault cs isect adec fuel r pts acc k hv h1 h2 hs] at h; cases h
      | some res =>
        obtain ⟨mo, nr⟩ := res
        cases mo with
        | none => rw [fsiLoop_split_dispose cs isect adec fuel r pts acc k hv h1 h2 hs] at h; cases h
        | some m1 =>
          rw [fsiLoop_split_some cs isect adec fuel r pts acc k hv h1 h2 hs] at h
          split at h
          · cases h
          · have hl := (doSplitOp_length isect adec hs).1
            have hf' : fuel > mu m1.length 0 K := by
              have := mu_split (r.length + K) (m1.length + K) (by omega)
              simp only [mu, if_true] at hf ⊢
              omega
            exact ih _ _ _ _ K _ hf' h
    · rw [fsiLoop_next cs isect adec fuel r pts acc k hv h1] at h
      generalize hpe : (if pts = 0 then r.length - 1 else pts - 1) = pts' at h
      split at h
      · cases h
      · rename_i hp
        have hf' : fuel > mu (rot1 r).length pts' K := by
          rw [length_rot1]
          simp only [mu, if_neg hp] at hf ⊢
          by_cases h0 : pts = 0
          · rw [if_pos h0] at hf hpe; omega
          · rw [if_neg h0] at hf hpe; omega
        exact ih _ _ _ _ K _ hf' h


/-! ## no equal neighbours -/

/-- inserting `x` between the last and the first node of a ring keeps `CycNoDup` if `x` differs from both -/
theorem cycNoDup_snoc (a : Pt) (rest : List Pt) (pv x : Pt) (h : CycNoDup (a :: (rest ++ [pv])))
    (h1 : pv ≠ x) (h2 : x ≠ a) : CycNoDup (a :: (rest ++ [pv]) ++ [x]) := by
  unfold CycNoDup CycPairs at h ⊢
  have e : a :: (rest ++ [pv]) ++ [x] ++ [a] = (a :: rest) ++ [pv, x] ++ [a] := by simp
  have e' : (a :: rest) ++ [pv, x] ++ [a] = ((a :: rest) ++ [pv]) ++ [x, a] := by simp
  have e2 : a :: (rest ++ [pv]) ++ [a] = ((a :: rest) ++ [pv]) ++ [a] := by simp
  show LinPairs _ (a :: (rest ++ [pv]) ++ [x] ++ [a])
  rw [e, e', linPairs_snoc]
  refine ⟨?_, h2⟩
  have e3 : (a :: rest) ++ [pv] ++ [x] = (a :: rest) ++ [pv, x] := by simp
  rw [e3, linPairs_snoc]
  refine ⟨?_, h1⟩
  have h' : LinPairs (fun a b => a ≠ b) (((a :: rest) ++ [pv]) ++ [a]) := by rw [← e2]; exact h
  exact linPairs_append_left _ [a] _ h'

/-- the chain from `nextNextOp` to `prevOp` keeps its linear pairs -/
theorem linPairs_mid (s sn nn pv : Pt) (mid : List Pt) (h : CycNoDup (s :: sn :: nn :: (mid ++ [pv]))) :
    LinPairs (fun a b => a ≠ b) (nn :: (mid ++ [pv])) := by
  unfold CycNoDup CycPairs at h
  simp only [List.cons_append, LinPairs] at h
  exact linPairs_append_left _ [s] _ h.2.2

/-- `DoSplitOp` without insertion: `prevOp` is linked to `nextNextOp` -/
theorem cycNoDup_split_link (s sn nn pv : Pt) (mid : List Pt) (h : CycNoDup (s :: sn :: nn :: (mid ++ [pv])))
    (hne : pv ≠ nn) : CycNoDup (pv :: nn :: mid) := by
  have hm := linPairs_mid s sn nn pv mid h
  unfold CycNoDup CycPairs
  simp only [List.cons_append, LinPairs]
  exact ⟨hne, hm⟩

/-- `DoSplitOp` with insertion of `ip` between `prevOp` and `nextNextOp`: this is where both halves of the guard
`ip == prevOp->pt || ip == nextNextOp->pt` are needed -/
theorem cycNoDup_split_insert (s sn nn pv ip : Pt) (mid : List Pt)
    (h : CycNoDup (s :: sn :: nn :: (mid ++ [pv]))) (h1 : ip ≠ pv) (h2 : ip ≠ nn) :
    CycNoDup (pv :: ip :: nn :: mid) := by
  have hm := linPairs_mid s sn nn pv mid h
  unfold CycNoDup CycPairs
  simp only [List.cons_append, LinPairs]
  exact ⟨fun e => h1 e.symm, h2, hm⟩

theorem areaTriX_eq12 (p q : Pt) : areaTriX p p q = 0 := by unfold areaTriX; grind
theorem areaTriX_eq23 (p q : Pt) : areaTriX p q q = 0 := by unfold areaTriX; grind
theorem areaTriX_eq13 (p q : Pt) : areaTriX p q p = 0 := by unfold areaTriX; grind

theorem cycNoDup_tri' {ip s sn : Pt} (h : ip ≠ s ∧ s ≠ sn ∧ sn ≠ ip) : CycNoDup [ip, s, sn] := by
  simp [CycNoDup, CycPairs, LinPairs, h.1, h.2.1, h.2.2]

/-- a triangle that `adecX` turns into a new outrec has non-zero area -/
theorem adecX_newRing {ring : Ring} {ip s sn : Pt} (h : adecX ring ip s sn = .newRing) : areaTriX ip s sn ≠ 0 := by
  unfold adecX at h
  simp only at h
  split at h
  · cases h
  · split at h
    · rename_i h2; intro e; rw [e] at h2; simp at h2
    · cases h

theorem cycNoDup_tri {ip s sn : Pt} (h : areaTriX ip s sn ≠ 0) : CycNoDup [ip, s, sn] := by
  have h1 : ip ≠ s := by intro e; subst e; exact h (areaTriX_eq12 _ _)
  have h2 : s ≠ sn := by intro e; subst e; exact h (areaTriX_eq23 _ _)
  have h3 : sn ≠ ip := by intro e; subst e; exact h (areaTriX_eq13 _ _)
  simp [CycNoDup, CycPairs, LinPairs, h1, h2, h3]

theorem adecSound_adecX : AdecSound adecX := by
  intro ring ip s sn h
  have h0 := adecX_newRing h
  exact ⟨fun e => by subst e; exact h0 (areaTriX_eq12 _ _), fun e => by subst e; exact h0 (areaTriX_eq23 _ _),
    fun e => by subst e; exact h0 (areaTriX_eq13 _ _)⟩

/-- a ring on which the first test succeeds, in normal form with the view resolved -/
theorem ring_form_of_view {cs : Pt → Pt → Pt → Int} (hcs : CsSound cs) {r : Ring} {pv o nx nn nnn : Pt}
    (hv : view r = some (pv, o, nx, nn, nnn))
    (h1 : segsInt cs pv o nx nn = true) : ∃ mid, r = o :: nx :: nn :: (mid ++ [pv]) := by
  obtain ⟨s, sn, nn', mid, pv', rfl⟩ := ring_form_of_len (view_short hcs hv h1)
  rw [view_four] at hv
  simp only [Option.some.injEq, Prod.mk.injEq] at hv
  obtain ⟨rfl, rfl, rfl, rfl, _⟩ := hv
  exact ⟨mid, rfl⟩

/-- the `DuplicateOp` branch creates no equal neighbours: the new node carries `nextNext`'s point, which differs
from `prev`'s and `op2`'s because `prev → op2` properly crosses `next → nextNext` -/
theorem cycNoDup_dup {cs : Pt → Pt → Pt → Int} (hcs : CsSound cs) {r : Ring} {pv o nx nn nnn : Pt}
    (hv : view r = some (pv, o, nx, nn, nnn))
    (h1 : segsInt cs pv o nx nn = true) (h : CycNoDup r) : CycNoDup (r ++ [nn]) := by
  obtain ⟨mid, rfl⟩ := ring_form_of_view hcs hv h1
  obtain ⟨_, hpn, _, hon⟩ := segsInt_ne hcs h1
  have := cycNoDup_snoc o (nx :: nn :: mid) pv nn (by simpa using h) hpn (fun e => hon e.symm)
  simpa using this

/-- `DoSplitOp` creates no equal neighbours in the outrec's own ring, and the split-off triangle has none either -/
theorem cycNoDup_doSplitOp {cs : Pt → Pt → Pt → Int} (hcs : CsSound cs) {adec : Ring → Pt → Pt → Pt → AreaDec}
    (had : AdecSound adec) {r : Ring} {pv o nx nn nnn : Pt} {m : Ring} {nr : Option Ring}
    (hv : view r = some (pv, o, nx, nn, nnn)) (h1 : segsInt cs pv o nx nn = true)
    (hs : doSplitOp isect adec r = some ⟨some m, nr⟩) (h : CycNoDup r) :
    CycNoDup m ∧ ∀ q, nr = some q → CycNoDup q ∧ q.length = 3 := by
  obtain ⟨s, sn, nn', mid, pv', rfl, _, hm, hnr⟩ := doSplitOp_main isect adec hs
  rw [view_four] at hv
  simp only [Option.some.injEq, Prod.mk.injEq] at hv
  obtain ⟨rfl, rfl, rfl, rfl, _⟩ := hv
  obtain ⟨_, hpn, _, _⟩ := segsInt_ne hcs h1
  constructor
  · subst hm
    split
    · exact cycNoDup_split_link _ _ _ _ _ h hpn
    · rename_i hg
      exact cycNoDup_split_insert _ _ _ _ _ _ h (fun e => hg (Or.inl e)) (fun e => hg (Or.inr e))
  · intro q hq
    subst hnr
    split at hq
    · rename_i hd
      cases hq
      exact ⟨cycNoDup_tri' (had _ _ _ _ hd), rfl⟩
    · cases hq

/-! ## no fault -/

theorem rot1_ne_nil {r : Ring} (h : r ≠ []) : rot1 r ≠ [] := by
  cases r with
  | nil => exact absurd rfl h
  | cons a rest => simp [rot1]

theorem view_ne_none {r : Ring} (h : r ≠ []) : view r ≠ none := by
  match r, h with
  | [_], _ => simp [view]
  | [_, _], _ => simp [view]
  | [_, _, _], _ => simp [view]
  | _ :: _ :: _ :: _ :: _, _ => simp [view]

/-- the loop never dereferences a null ring and never calls `DoSplitOp` on a ring of fewer than four nodes -/
theorem fsiLoop_no_fault_aux {cs : Pt → Pt → Pt → Int} (hcs : CsSound cs) (adec : Ring → Pt → Pt → Pt → AreaDec) :
    ∀ fuel r pts acc k, r ≠ [] → fsiLoop cs isect adec fuel r pts acc k ≠ .fault := by
  intro fuel
  induction fuel with
  | zero => intro r pts acc k _ h; simp [fsiLoop_zero] at h
  | succ fuel ih =>
    intro r pts acc k hne h
    rcases step_cases cs isect adec r with hv | ⟨pv, o, nx, nn, nnn, hv, h1, h2⟩ |
      ⟨pv, o, nx, nn, nnn, hv, h1, h2⟩ | ⟨pv, o, nx, nn, nnn, hv, h1⟩
    · exact view_ne_none hne hv
    · rw [fsiLoop_dup cs isect adec fuel r pts acc k hv h1 h2] at h
      split at h
      · cases h
      · exact ih _ _ _ _ (by simp) h
    · cases hs : doSplitOp isect adec r with
      | none => exact doSplitOp_none_iff (view_short hcs hv h1) hs
      | some res =>
        obtain ⟨mo, nr⟩ := res
        cases mo with
        | none => rw [fsiLoop_split_dispose cs isect adec fuel r pts acc k hv h1 h2 hs] at h; cases h
        | some m1 =>
          rw [fsiLoop_split_some cs isect adec fuel r pts acc k hv h1 h2 hs] at h
          split at h
          · cases h
          · refine ih _ _ _ _ ?_ h
            obtain ⟨s, sn, nn', mid, pv', _, _, hm, _⟩ := doSplitOp_main isect adec hs
            subst hm; split <;> simp
    · rw [fsiLoop_next cs isect adec fuel r pts acc k hv h1] at h
      generalize (if pts = 0 then r.length - 1 else pts - 1) = pts' at h
      split at h
      · cases h
      · exact ih _ _ _ _ (rot1_ne_nil hne) h

end Clipper.Lemmas.SplitOp
