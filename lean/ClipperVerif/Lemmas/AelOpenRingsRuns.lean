/-
Runs of the open-path assembly model: the ghost run id of an end of an open record follows one `Active` through the AEL
(helper lemmas for `Props/C05Rings.lean`, theorem `open_run_follows_active`).  Reuses `Follows`, `holderRun`, `trackPos` of `Lemmas/AelRingsRuns.lean`.
-/
import ClipperVerif.Lemmas.AelOpenRings
namespace Clipper.Model

/-- where the `Active` at position `p` of the AEL is after the event -/
def OOp.track (op : OOp) : Nat → Option Nat := trackPos op.erase

/-- an in-place stage that keeps every run id -/
theorem follows_rings (n0 : Nat) (l : List SEdge) (rings rings' : List Ring) (h : ∀ x ∈ l, ∀ k, x.orec = some k → runOf rings' k = runOf rings k) :
    Follows n0 some l rings l rings' := by
  intro p' ρ hh
  obtain ⟨x, k, hx, hk, hr⟩ := holderRun_some _ _ _ _ hh
  right
  refine ⟨p', rfl, ?_⟩
  rw [holderRun_of_get _ _ p' x k hx hk, ← h x (mem_of_get _ _ _ hx) k hk]; exact hr

theorem follows_insert1' (n0 : Nat) (pre post : List SEdge) (x : SEdge) (rings rings' : List Ring)
    (hctx : ∀ z ∈ pre ++ post, ∀ k, z.orec = some k → runOf rings' k = runOf rings k)
    (hx : ∀ k ρ, x.orec = some k → runOf rings' k = some ρ → n0 ≤ ρ) :
    Follows n0 (insert1At pre.length) (pre ++ post) rings (pre ++ x :: post) rings' := by
  intro p' ρ h
  obtain ⟨z, k, hz, hk, hr⟩ := holderRun_some _ _ _ _ h
  rw [getElem?_window1] at hz
  by_cases h1 : p' < pre.length
  · rw [if_pos h1] at hz
    right
    refine ⟨p', by simp [insert1At, h1], ?_⟩
    rw [holderRun_of_get _ _ p' z k (by rw [List.getElem?_append_left h1]; exact hz) hk,
      ← hctx z (List.mem_append_left _ (mem_of_get _ _ _ hz)) k hk]; exact hr
  · rw [if_neg h1] at hz
    by_cases h2 : p' = pre.length
    · rw [if_pos h2] at hz; cases hz; left; exact hx k ρ hk hr
    · rw [if_neg h2] at hz
      right
      refine ⟨p' - 1, ?_, ?_⟩
      · have e1 : ¬ p' - 1 < pre.length := by omega
        have e2 : p' - 1 + 1 = p' := by omega
        simp [insert1At, e1, e2]
      · have e4 : p' - 1 - pre.length = p' - pre.length - 1 := by omega
        rw [holderRun_of_get _ _ (p' - 1) z k (by rw [List.getElem?_append_right (by omega), e4]; exact hz) hk,
          ← hctx z (List.mem_append_right _ (mem_of_get _ _ _ hz)) k hk]; exact hr

/-- a held record index is below the number of records -/
theorem held_lt (c : Nat × Bool → Nat) (o : Out) (om : List EndMarks) (h : RecInv c o om) (key : Nat × Bool) (hk : 1 ≤ c key) : key.1 < o.rings.length := by
  rcases Nat.lt_or_ge key.1 o.rings.length with h' | h'
  · exact h'
  · have := (h.uniq key).2 h'; omega

theorem holder_cnt (l : List SEdge) (x : SEdge) (k : Rec) (hx : x ∈ l) (hk : x.orec = some k) : 1 ≤ cnt (k.id, k.front) l :=
  cnt_pos_of_mem _ l x hx (keyOf_of_orec x k hk)

/-- run ids through `openBranch`: every holder of the AEL keeps its run; the open edge's new record end is its old one, or a new run -/
theorem runs_openBranch (l : List SEdge) (eo : SEdge) (pt : Pt) (oo : Out) (om : List EndMarks) (r : Option Rec × Out × List EndMarks)
    (h : RecInv (fun key => cnt key l) oo om)
    (heff : r = (eo.orec, oo, om) ∨
      (∃ k, eo.orec = some k ∧ r = (none, addOutPt k.id k.front pt oo, setMark k.id k.front (some ⟨pt, .cutStop⟩) om)) ∨
      (eo.orec = none ∧ r = (some ⟨oo.rings.length, isFrontDx eo.e.dx⟩, newRec pt oo, om ++ [EndMarks.put ⟨none, none⟩ (!isFrontDx eo.e.dx) (some ⟨pt, .cutStart⟩)])) ∨
      (eo.orec = none ∧ ∃ (j : Nat) (e3 : SEdge) (rr : Rec), l[j]? = some e3 ∧ e3.orec = some rr ∧ rr.front = !isFrontDx eo.e.dx ∧ (markAt om rr.id (isFrontDx eo.e.dx)).isSome = true ∧
        r = (some ⟨rr.id, isFrontDx eo.e.dx⟩, handOver rr.id (isFrontDx eo.e.dx) oo, setMark rr.id (isFrontDx eo.e.dx) none om))) :
    (∀ x ∈ l, ∀ k, x.orec = some k → runOf r.2.1.rings k = runOf oo.rings k) ∧
    (∀ k' ρ, r.1 = some k' → runOf r.2.1.rings k' = some ρ → oo.nrun ≤ ρ ∨ (eo.orec = some k' ∧ runOf oo.rings k' = some ρ)) := by
  rcases heff with rfl | ⟨k, hk, rfl⟩ | ⟨hn, rfl⟩ | ⟨hn, j, e3, rr, he3, hrr, hfr, hfree, rfl⟩
  · exact ⟨fun _ _ _ _ => rfl, fun k' ρ h1 h2 => Or.inr ⟨h1, h2⟩⟩
  · exact ⟨fun _ _ k' _ => runOf_addOutPt _ _ _ _ k', fun k' ρ h1 _ => by cases h1⟩
  · refine ⟨fun x hx k hk => runOf_newRec_old pt oo k (held_lt _ oo om h (k.id, k.front) (holder_cnt l x k hx hk)), ?_⟩
    intro k' ρ h1 h2
    simp only [Option.some.injEq] at h1
    left; exact runOf_fresh_of_new pt oo k' ρ (by rw [← h1]) h2
  · have hlive := h.live (rr.id, !isFrontDx eo.e.dx) (cnt_pos_get _ l j e3 rr he3 hrr (by rw [hfr]))
    have hc0 : cnt (rr.id, isFrontDx eo.e.dx) l = 0 := by
      obtain ⟨g, hg, hgl, _⟩ := hlive
      have := (h.marks rr.id g hg hgl (isFrontDx eo.e.dx)).1
      cases hm : markAt om rr.id (isFrontDx eo.e.dx) with
      | none => rw [hm] at hfree; cases hfree
      | some m =>
        rw [hm] at this
        rcases Nat.eq_zero_or_pos (cnt (rr.id, isFrontDx eo.e.dx) l) with e | e
        · exact e
        · have := this.mpr e; cases this
    refine ⟨?_, ?_⟩
    · intro x hx k hk
      refine runOf_handOver_other _ _ _ k ?_
      rintro ⟨e1, e2⟩
      have := holder_cnt l x k hx hk
      rw [e1, e2] at this; omega
    · intro k' ρ h1 h2
      simp only [Option.some.injEq] at h1
      left
      rw [← h1] at h2
      rw [runOf_handOver_self _ _ _ ρ h2]; exact Nat.le_refl _

theorem follows_oIntersect (cfg : Cfg) (i : Nat) (pt : Pt) (lm : Option (Option Nat)) (x x' : OX) (h : XInv x) (hs : oIntersect cfg i pt lm x = some x') :
    Follows x.oo.nrun (swapAt i) x.ol x.oo.rings x'.ol x'.oo.rings := by
  unfold oIntersect at hs
  split at hs
  · next a b rest hd =>
    have hl := window_split _ _ _ _ _ hd
    have hlen : (x.ol.take i).length = i := take_length_of_drop _ _ _ _ hd
    have ha : OLocal a := h.loc a (by rw [hl]; simp)
    have hb : OLocal b := h.loc b (by rw [hl]; simp)
    have htr : ∀ p, p ≠ (x.ol.take i).length → p ≠ (x.ol.take i).length + 1 → swapAt i p = some p := by
      intro p h1 h2; rw [hlen] at h1 h2; simp [swapAt, h1, h2]
    have hmem : ∀ y ∈ x.ol.take i ++ rest, y ∈ x.ol := by
      intro y hy; rw [hl]; exact mem_window_of _ _ _ _ _ hy
    have posA : swapAt i (x.ol.take i).length = some ((x.ol.take i).length + 1) := by rw [hlen]; simp [swapAt]
    have posB : swapAt i ((x.ol.take i).length + 1) = some (x.ol.take i).length := by rw [hlen]; simp [swapAt]
    simp only at hs
    split at hs
    · next hsame =>
      cases hs
      have := follows_window x.oo.nrun (swapAt i) (x.ol.take i) rest a b { b with e := (intersectPair cfg a.e b.e).2 } { a with e := (intersectPair cfg a.e b.e).1 } id
        x.oo.rings x.oo.rings htr (fun y _ k' hk' => ⟨k', hk', rfl⟩)
        (fun k' ρ hk' hr => Or.inr ⟨(x.ol.take i).length + 1, posB, by rw [holderRun_window_b (x.ol.take i) rest a b x.oo.rings k' hk']; exact hr⟩)
        (fun k' ρ hk' hr => Or.inr ⟨(x.ol.take i).length, posA, by rw [holderRun_window_a (x.ol.take i) rest a b x.oo.rings k' hk']; exact hr⟩)
      simp only [List.map_id] at this
      rw [← hl] at this; exact this
    · next hdiff =>
      split at hs
      · next hao =>
        have hbo : b.e.isOpen = false := by cases hb' : b.e.isOpen <;> simp [hao, hb'] at hdiff ⊢
        split at hs
        · next r hr =>
          cases hs
          obtain ⟨_, heff⟩ := openBranch_spec cfg x.ol i a b pt lm x.oo x.om r ha hao hr
          obtain ⟨r1, r2⟩ := runs_openBranch x.ol a pt x.oo x.om r h.recs heff
          have := follows_window x.oo.nrun (swapAt i) (x.ol.take i) rest a b { b with e := (intersectPair cfg a.e b.e).2 } { a with e := (intersectPair cfg a.e b.e).1, orec := r.1 } id
            x.oo.rings r.2.1.rings htr (fun y hy k' hk' => ⟨k', hk', r1 y (hmem y hy) k' hk'⟩)
            (fun k' ρ hk' _ => by simp only at hk'; rw [hb.2.1 hbo] at hk'; cases hk')
            (fun k' ρ hk' hrr => by
              simp only at hk'
              rcases r2 k' ρ hk' hrr with h1 | ⟨h1, h2⟩
              · exact Or.inl h1
              · exact Or.inr ⟨(x.ol.take i).length, posA, by rw [holderRun_window_a (x.ol.take i) rest a b x.oo.rings k' h1]; exact h2⟩)
          simp only [List.map_id] at this
          rw [← hl] at this; exact this
        · cases hs
      · next hao =>
        have hao' : a.e.isOpen = false := by cases ha' : a.e.isOpen <;> simp [ha'] at hao ⊢
        have hbo : b.e.isOpen = true := by cases hb' : b.e.isOpen <;> simp [hao', hb'] at hdiff ⊢
        split at hs
        · next r hr =>
          cases hs
          obtain ⟨_, heff⟩ := openBranch_spec cfg x.ol (i + 1) b a pt lm x.oo x.om r hb hbo hr
          obtain ⟨r1, r2⟩ := runs_openBranch x.ol b pt x.oo x.om r h.recs heff
          have := follows_window x.oo.nrun (swapAt i) (x.ol.take i) rest a b { b with e := (intersectPair cfg a.e b.e).2, orec := r.1 } { a with e := (intersectPair cfg a.e b.e).1 } id
            x.oo.rings r.2.1.rings htr (fun y hy k' hk' => ⟨k', hk', r1 y (hmem y hy) k' hk'⟩)
            (fun k' ρ hk' hrr => by
              simp only at hk'
              rcases r2 k' ρ hk' hrr with h1 | ⟨h1, h2⟩
              · exact Or.inl h1
              · exact Or.inr ⟨(x.ol.take i).length + 1, posB, by rw [holderRun_window_b (x.ol.take i) rest a b x.oo.rings k' h1]; exact h2⟩)
            (fun k' ρ hk' _ => by simp only at hk'; rw [ha.2.1 hao'] at hk'; cases hk')
          simp only [List.map_id] at this
          rw [← hl] at this; exact this
        · cases hs
  · cases hs

theorem follows_oInsertPair (cfg : Cfg) (pos : Nat) (t : PathType) (isOpen : Bool) (dx : Int) (bot : Pt) (x x' : OX) (h : XInv x)
    (hs : oInsertPair cfg pos t isOpen dx bot x = some x') : Follows x.oo.nrun (insert2At pos) x.ol x.oo.rings x'.ol x'.oo.rings := by
  unfold oInsertPair at hs
  split at hs
  · next hc =>
    have hlen : (x.ol.take pos).length = pos := by rw [List.length_take]; omega
    have hl : x.ol = x.ol.take pos ++ x.ol.drop pos := (List.take_append_drop pos x.ol).symm
    have e : insert2At pos = insert2At (x.ol.take pos).length := by rw [hlen]
    simp only at hs
    split at hs
    · cases hs
      rw [e]
      conv => arg 3; rw [hl]
      apply follows_insert2
      · intro z hz k hk
        exact runOf_newRec_old bot x.oo k (held_lt _ x.oo x.om h.recs (k.id, k.front) (holder_cnt x.ol z k (by rw [hl]; exact hz) hk))
      · intro k ρ hk hr
        simp only [Option.some.injEq] at hk; exact runOf_fresh_of_new bot x.oo k ρ (by rw [← hk]) hr
      · intro k ρ hk hr
        simp only [Option.some.injEq] at hk; exact runOf_fresh_of_new bot x.oo k ρ (by rw [← hk]) hr
    · cases hs
      rw [e]
      conv => arg 3; rw [hl]
      apply follows_insert2
      · intro z hz k hk; rfl
      · intro k ρ hk hr; cases hk
      · intro k ρ hk hr; cases hk
  · cases hs

theorem follows_oInsertOne (cfg : Cfg) (pos : Nat) (t : PathType) (dx : Int) (bot : Pt) (x x' : OX) (h : XInv x)
    (hs : oInsertOne cfg pos t dx bot x = some x') : Follows x.oo.nrun (insert1At pos) x.ol x.oo.rings x'.ol x'.oo.rings := by
  unfold oInsertOne at hs
  split at hs
  · next hc =>
    have hlen : (x.ol.take pos).length = pos := by rw [List.length_take]; omega
    have hl : x.ol = x.ol.take pos ++ x.ol.drop pos := (List.take_append_drop pos x.ol).symm
    have e : insert1At pos = insert1At (x.ol.take pos).length := by rw [hlen]
    simp only at hs
    split at hs
    · cases hs
      rw [e]
      conv => arg 3; rw [hl]
      apply follows_insert1'
      · intro z hz k hk
        exact runOf_newRec_old bot x.oo k (held_lt _ x.oo x.om h.recs (k.id, k.front) (holder_cnt x.ol z k (by rw [hl]; exact hz) hk))
      · intro k ρ hk hr
        simp only [startOpen, Option.some.injEq] at hk; exact runOf_fresh_of_new bot x.oo k ρ (by rw [← hk]) hr
    · cases hs
      rw [e]
      conv => arg 3; rw [hl]
      apply follows_insert1
      rfl
  · cases hs

theorem follows_oRemoveOne (i : Nat) (top : Pt) (x x' : OX) (hs : oRemoveOne i top x = some x') :
    Follows x.oo.nrun (remove1At i) x.ol x.oo.rings x'.ol x'.oo.rings := by
  unfold oRemoveOne at hs
  split at hs
  · next a rest hd =>
    have hl : x.ol = x.ol.take i ++ a :: rest := drop_split _ _ _ hd
    have hlen : (x.ol.take i).length = i := take_length_of_drop _ _ _ _ hd
    have base := follows_remove1 x.oo.nrun (x.ol.take i) rest a
    split at hs
    · split at hs
      · next k hk =>
        cases hs
        have s1 := follows_rings x.oo.nrun x.ol x.oo.rings (addOutPt k.id k.front top x.oo).rings (fun _ _ k' _ => runOf_addOutPt _ _ _ _ k')
        have s2 := base (addOutPt k.id k.front top x.oo).rings
        rw [hlen, ← hl] at s2
        have := follows_trans _ _ _ _ _ _ _ _ _ _ s1 s2 (Nat.le_refl _)
        exact follows_mono _ _ _ _ _ _ _ this (fun p p' hp => by simpa using hp)
      · cases hs
        have s2 := base x.oo.rings
        rw [hlen, ← hl] at s2; exact s2
    · cases hs
  · cases hs

theorem follows_oUpdate (i : Nat) (top : Pt) (x x' : OX) (hs : oUpdate i top x = some x') :
    Follows x.oo.nrun some x.ol x.oo.rings x'.ol x'.oo.rings := by
  unfold oUpdate at hs
  split at hs
  · split at hs
    · split at hs
      · cases hs; exact follows_rings _ _ _ _ (fun _ _ k' _ => runOf_addOutPt _ _ _ _ k')
      · cases hs; exact follows_refl _ _ _
    · cases hs; exact follows_refl _ _ _
  · cases hs

theorem follows_oRemovePair (i : Nat) (top : Pt) (x x' : OX) (h : XInv x) (hs : oRemovePair i top x = some x') :
    Follows x.oo.nrun (remove2At i) x.ol x.oo.rings x'.ol x'.oo.rings := by
  unfold oRemovePair at hs
  split at hs
  · next a b rest hd =>
    have hl := window_split _ _ _ _ _ hd
    have hlen : (x.ol.take i).length = i := take_length_of_drop _ _ _ _ hd
    have plain : Follows x.oo.nrun (remove2At i) x.ol x.oo.rings (x.ol.take i ++ rest) x.oo.rings := by
      have := follows_remove2 x.oo.nrun (x.ol.take i) rest a b id x.oo.rings x.oo.rings (fun y _ k' hk' => ⟨k', hk', rfl⟩)
      simp only [List.map_id] at this
      rw [hlen, ← hl] at this; exact this
    have hcnt : ∀ key, cnt key x.ol = cnt key (x.ol.take i ++ rest) + kc a.orec key + kc b.orec key := by
      intro key; conv => lhs; rw [hl]
      rw [cnt_append, cnt_cons_kc, cnt_cons_kc, cnt_append]; omega
    split at hs
    · split at hs
      · split at hs
        · cases hs; exact plain
        · next ra rb hra hrb =>
          split at hs
          · cases hs; exact plain
          · next hfne =>
            split at hs
            · cases hs
            · next hid =>
              cases hs
              -- the two records are live in `o1`
              have hA : 1 ≤ cnt (ra.id, ra.front) x.ol := by rw [hcnt, hra, kc_some]; simp <;> omega
              have hB : 1 ≤ cnt (rb.id, rb.front) x.ol := by rw [hcnt, hrb, kc_some]; simp <;> omega
              have h0 := recInv_update _ x.oo x.om ra top h.recs hA
              have h1 := recInv_logSeg _ _ x.om .meet rb.id rb.front ra.id ra.front h0
              have hu : ∀ key, cnt key x.ol ≤ 1 := fun key => (h.recs.uniq key).1
              have hbf : rb.front = !ra.front := by revert hfne; cases ra.front <;> cases rb.front <;> simp
              have haf : ra.front = !rb.front := by rw [hbf]; simp
              -- generic argument for survivor `X`, emptied `Y`
              have gen : ∀ X Y : Rec, X.id ≠ Y.id → Y.front = !X.front → 1 ≤ cnt (X.id, X.front) x.ol → 1 ≤ cnt (Y.id, Y.front) x.ol →
                  cnt (X.id, X.front) (x.ol.take i ++ rest) = 0 →
                  Follows x.oo.nrun (remove2At i) x.ol x.oo.rings ((x.ol.take i ++ rest).map (relabelFn Y.id X.front X.id))
                    (joinPaths X.id Y.id X.front (logSeg .meet rb.id rb.front ra.id ra.front (addOutPt ra.id ra.front top x.oo))).rings := by
                intro X Y hXY hfy hX hY hX0
                obtain ⟨gx, hgx, hxl, _⟩ := h1.live _ hX
                obtain ⟨gy, hgy, hyl, _⟩ := h1.live _ hY
                have := follows_remove2 x.oo.nrun (x.ol.take i) rest a b (relabelFn Y.id X.front X.id) x.oo.rings
                  (joinPaths X.id Y.id X.front (logSeg .meet rb.id rb.front ra.id ra.front (addOutPt ra.id ra.front top x.oo))).rings ?_
                · rw [hlen, ← hl, ← List.map_append] at this; exact this
                · intro y hy k' hk'
                  unfold relabelFn at hk'
                  cases hyo : y.orec with
                  | none => simp [hyo] at hk'
                  | some r0 =>
                    simp only [hyo] at hk'
                    split at hk'
                    · next hc =>
                      simp only [Option.some.injEq] at hk'
                      refine ⟨r0, rfl, ?_⟩
                      rw [← hk']
                      have e0 : r0 = ⟨Y.id, X.front⟩ := by cases r0; simp at hc; simp [hc.1, hc.2]
                      rw [runOf_joinPaths_moved X.id Y.id X.front _ gx gy hgx hgy hXY hxl hyl, runOf_logSeg, runOf_addOutPt, e0]
                    · next hc =>
                      rw [hyo] at hk'; simp only [Option.some.injEq] at hk'
                      refine ⟨r0, rfl, ?_⟩
                      rw [← hk', runOf_joinPaths_other _ _ _ _ r0 ?_, runOf_logSeg, runOf_addOutPt]
                      rintro ⟨e1, e2⟩
                      have := holder_cnt (x.ol.take i ++ rest) y r0 hy hyo
                      rw [e1, e2] at this; omega
              have hP0 : ∀ key, 1 ≤ kc a.orec key + kc b.orec key → cnt key (x.ol.take i ++ rest) = 0 := by
                intro key hk; have := hcnt key; have := hu key; omega
              by_cases hdx : a.e.dx < 0
              · simp only [hdx, if_true]
                exact gen ra rb hid hbf hA hB (hP0 _ (by rw [hra, kc_some]; simp))
              · simp only [hdx, if_false]
                exact gen rb ra (Ne.symm hid) haf hB hA (hP0 _ (by rw [hrb, kc_some]; simp))
        · cases hs; exact plain
      · cases hs; exact plain
    · cases hs
  · cases hs

/-- **a run never passes from one `Active` to another, for open records too**: every run id held after an event by the edge at `p'` is new or was held
before the event by the same edge (at the position `op.track` maps to `p'`) -/
theorem follows_openStep (cfg : Cfg) (x x' : OX) (op : OOp) (h : XInv x) (hs : openStep cfg x op = some x') :
    Follows x.oo.nrun op.track x.ol x.oo.rings x'.ol x'.oo.rings := by
  cases op with
  | locMinX i p e3 => exact follows_oIntersect cfg i p _ x x' h hs
  | ev o =>
    cases o with
    | join i p => simp only [openStep] at hs; cases hs; exact follows_refl _ _ _
    | split i p => simp only [openStep] at hs; cases hs; exact follows_refl _ _ _
    | update i p => exact follows_oUpdate i p x x' hs
    | base b p =>
      cases b with
      | intersect i => exact follows_oIntersect cfg i p _ x x' h hs
      | insertPair pos t isOpen dx => exact follows_oInsertPair cfg pos t isOpen dx p x x' h hs
      | insertOne pos t dx => exact follows_oInsertOne cfg pos t dx p x x' h hs
      | removePair i => exact follows_oRemovePair i p x x' h hs
      | removeOne i => exact follows_oRemoveOne i p x x' hs

end Clipper.Model
