/-
Helper lemmas for Props/C08Tidy.lean, part 5: `GetPath` (its collinear-removal loop and the loop that copies the points) and the
loop over all `results_` slots, on well-formed heaps.
Core Lean only.
-/
import ClipperVerif.Lemmas.RectClipTidyCheck
namespace Clipper.Lemmas.RCT
open Clipper Clipper.Model.RC Clipper.Model.RCT

/-- a node of a cycle that is its own successor is the whole cycle -/
theorem cyc_self_loop {nx pv : Nat → Nat} {c : List Nat} {x : Nat} (h : Cyc nx pv c) (hnd : c.Nodup) (hx : x ∈ c)
    (hs : nx x = x) : ∀ y ∈ c, y = x := by
  obtain ⟨W, hW, hp⟩ := cyc_rotate_first h hx
  have hndW : (x :: W).Nodup := hp.nodup_iff.mpr hnd
  cases W with
  | nil => intro y hy; simpa using hp.mem_iff.mpr hy
  | cons a W =>
    have hl : Linked nx pv (x :: a :: (W ++ [x])) := hW
    have : a = x := by rw [← hl.1]; exact hs
    subst this
    exact absurd (List.mem_cons_self) (List.nodup_cons.mp hndW).1

/-- **The collinear pass of `GetPath`** (`while (op2 && op2 != op)`), any fuel; `results_[i]` is the reference parameter `op` -/
theorem getPathLoop_wf (i : Nat) : ∀ (fuel : Nat) (h : Heap) (op op2 : Nat) (ring : Nat → List Nat),
    RingsWF (withSlot h i (some op)) ring → i < h.results.length → op2 ∈ ring i →
    (∀ h1 r, getPathLoop fuel h op op2 = .ok (h1, r) → CollFrame h h1 ∧
      ∃ o L, r = some o ∧ L.Sublist (ring i) ∧ o ∈ L ∧ RingsWF (withSlot h1 i (some o)) (upd ring i L)) ∧
    (∀ f, getPathLoop fuel h op op2 = .error f → f = .fuel)
  | 0, h, op, op2, ring, _, _, _ => by
    constructor
    · intro h1 r e; simp [getPathLoop] at e
    · intro f e; simp only [getPathLoop, Except.error.injEq] at e; exact e.symm
  | fuel + 1, h, op, op2, ring, w, hi, h2 => by
    have hop : op ∈ ring i := w.slot_some i op (withSlot_get h i _ hi)
    unfold getPathLoop
    split
    · rename_i hne
      split
      · -- collinear: op = op2->prev; op2 = UnlinkOp(op2)
        rw [unlinkOp_spec]
        have hself : h.next op2 ≠ op2 := by
          intro e
          have := cyc_self_loop (w.cyc i (List.ne_nil_of_mem h2)) (w.nodup i) h2 e op hop
          exact hne this.symm
        simp only [hself, if_false]
        have hp : h.prev op2 ∈ ring i := (w.prev_mem h2).1
        have w0 : RingsWF (withSlot h i (some (h.prev op2))) ring := withSlot_move w hi hp
        have hneq : h.prev op2 ≠ op2 := by
          intro e
          have : h.next (h.prev op2) = op2 := (w.prev_mem h2).2
          rw [e] at this
          exact hself this
        have hslot : (withSlot h i (some (h.prev op2))).results[i]? ≠ some (some op2) := by
          rw [withSlot_get h i _ hi]
          intro e; simp only [Option.some.injEq] at e; exact hneq e
        obtain ⟨w1, mp, mn⟩ := unlink_wf w0 h2 hself hslot
        have w1' : RingsWF (withSlot (h.unlink op2) i (some (h.prev op2))) (upd ring i ((ring i).erase op2)) := w1
        have hi' : i < (h.unlink op2).results.length := hi
        have sub : ((ring i).erase op2).Sublist (ring i) := List.erase_sublist
        have ih := getPathLoop_wf i fuel (h.unlink op2) (h.prev op2) (h.next op2) _ w1' hi'
          (by simp only [upd_same]; exact mn)
        refine ⟨?_, ih.2⟩
        intro h1 r e
        obtain ⟨fr, o, L, er, hL, hm, wL⟩ := ih.1 h1 r e
        simp only [upd_same, upd_upd] at hL wL
        exact ⟨(collFrame_unlink h op2).trans fr, o, L, er, hL.trans sub, hm, wL⟩
      · exact getPathLoop_wf i fuel h op (h.next op2) ring w hi (w.next_mem h2).1
    · rename_i heq
      have heq' : op2 = op := by
        apply Classical.byContradiction; intro e; exact heq e
      constructor
      · intro h1 r e
        simp only [Except.ok.injEq, Prod.mk.injEq] at e
        obtain ⟨rfl, rfl⟩ := e
        refine ⟨CollFrame.refl _, op2, ring i, rfl, List.Sublist.refl _, h2, ?_⟩
        rw [upd_self_eq, heq']; exact w
      · intro f e; cases e

/-- `while (op2 != op) { result.emplace_back(op2->pt); op2 = op2->next; }` along a linked list that ends in `op` -/
theorem collectLoop_spec (h : Heap) (o : Nat) : ∀ (W : List Nat) (fuel : Nat) (op2 : Nat),
    o ∉ W → Linked h.next h.prev (W ++ [o]) → op2 = (W ++ [o]).headD o → W.length < fuel →
    collectLoop h o fuel op2 = .ok (W.map h.pt)
  | [], fuel, op2, _, _, ho, hf => by
    cases fuel with
    | zero => omega
    | succ f =>
      simp only [List.nil_append, List.headD_cons] at ho
      subst ho
      simp [collectLoop]
  | y :: W, fuel, op2, hx, hl, ho, hf => by
    cases fuel with
    | zero => simp at hf
    | succ f =>
      simp only [List.cons_append, List.headD_cons] at ho
      subst ho
      have hne : op2 ≠ o := by
        intro e; exact hx (by simp [e])
      simp only [collectLoop, ne_eq, hne, not_false_eq_true, if_true]
      have hx' : o ∉ W := fun m => hx (List.mem_cons_of_mem _ m)
      have hl' : Linked h.next h.prev (W ++ [o]) := linked_tail hl
      have hnext : h.next op2 = (W ++ [o]).headD o := by
        cases W with
        | nil => simpa using hl.1
        | cons z W => simpa using hl.1
      rw [collectLoop_spec h o W f (h.next op2) hx' hl' hnext (by simp at hf; omega)]
      simp

/-- a cycle can be rotated so that a given member comes first (with the rotation made explicit) -/
theorem cyc_rotate_first' {nx pv : Nat → Nat} {c : List Nat} {k : Nat} (h : Cyc nx pv c) (hk : k ∈ c) :
    ∃ X Y, c = X ++ k :: Y ∧ Cyc nx pv (k :: (Y ++ X)) := by
  obtain ⟨X, Y, rfl⟩ := List.append_of_mem hk
  refine ⟨X, Y, rfl, ?_⟩
  cases X with
  | nil => simpa using h
  | cons x X =>
    have := cyc_rotate (X := x :: X) (Y := k :: Y) (by simp) (by simp) h
    simpa using this

/-- in a duplicate-free cycle, `next x = prev x` only for cycles of one or two nodes -/
theorem cyc_next_eq_prev {nx pv : Nat → Nat} {c : List Nat} {x : Nat} (h : Cyc nx pv c) (hnd : c.Nodup) (hx : x ∈ c)
    (hs : nx x = pv x) : c.length ≤ 2 := by
  obtain ⟨W, hW, hp⟩ := cyc_rotate_first h hx
  have hndW : (x :: W).Nodup := hp.nodup_iff.mpr hnd
  rw [← hp.length_eq]
  cases W with
  | nil => simp
  | cons a W =>
    cases W with
    | nil => simp
    | cons b W =>
      exfalso
      have hl : Linked nx pv (x :: a :: b :: (W ++ [x])) := hW
      have e1 : nx x = a := hl.1
      -- prev x is the last element of a :: b :: W
      rcases List.eq_nil_or_concat (b :: W) with e | ⟨l, z, e⟩
      · cases e
      · have e' : b :: W = l ++ [z] := by simpa using e
        have : x :: a :: b :: (W ++ [x]) = (x :: a :: l) ++ z :: x :: [] := by
          have : b :: (W ++ [x]) = (l ++ [z]) ++ [x] := by rw [← e']; simp
          simp [this]
        rw [this] at hl
        have e2 := (linked_next hl).2
        have : a = z := by rw [← e1, hs, e2]
        have hz : z ∈ b :: W := by rw [e']; simp
        exact (List.nodup_cons.mp (List.nodup_cons.mp hndW).2).1 (this ▸ hz)

/-- what `GetPath` does not touch -/
def PathFrame (h h2 : Heap) : Prop :=
  h2.n = h.n ∧ h2.pt = h.pt ∧ h2.owner = h.owner ∧ h2.edge = h.edge ∧ h2.edges = h.edges ∧
    h2.results.length = h.results.length

/-- **`GetPath(results_[i])`** on a well-formed heap: the heap stays well-formed with the ring of slot `i` replaced by a
subsequence `L` of it, and the path is empty or consists of the points of `L`, in ring order, starting at some node `o` of `L`. -/
theorem getPath_wf (h : Heap) (i : Nat) (ring : Nat → List Nat) (w : RingsWF h ring) (hi : i < h.results.length) :
    (∀ p h2, getPath h i = .ok (p, h2) → PathFrame h h2 ∧ ∃ L, L.Sublist (ring i) ∧ RingsWF h2 (upd ring i L) ∧
      (p = [] ∨ ∃ X o Y, L = X ++ o :: Y ∧ p = (o :: (Y ++ X)).map h.pt)) ∧
    (∀ f, getPath h i = .error f → f = .fuel) := by
  unfold getPath
  have same : ∀ p h2, (Except.ok (([] : Path), h) : Except TFault (Path × Heap)) = .ok (p, h2) →
      PathFrame h h2 ∧ ∃ L, L.Sublist (ring i) ∧ RingsWF h2 (upd ring i L) ∧
      (p = [] ∨ ∃ X o Y, L = X ++ o :: Y ∧ p = (o :: (Y ++ X)).map h.pt) := by
    intro p h2 e
    simp only [Except.ok.injEq, Prod.mk.injEq] at e
    obtain ⟨rfl, rfl⟩ := e
    refine ⟨⟨rfl, rfl, rfl, rfl, rfl, rfl⟩, ring i, List.Sublist.refl _, ?_, Or.inl rfl⟩
    rw [upd_self_eq]; exact w
  cases hr : h.results[i]? with
  | none => exact absurd (List.getElem?_eq_none_iff.mp hr) (by omega)
  | some v =>
    cases v with
    | none => exact ⟨same, by intro f e; cases e⟩
    | some op =>
      simp only
      split
      · exact ⟨same, by intro f e; cases e⟩
      · have w0 : RingsWF (withSlot h i (some op)) ring := by rw [withSlot_self h i _ hr]; exact w
        have hop : op ∈ ring i := w.slot_some i op hr
        have gl := getPathLoop_wf i (collFuel h) h op (h.next op) ring w0 hi (w.next_mem hop).1
        cases hc : getPathLoop (collFuel h) h op (h.next op) with
        | error f =>
          simp only
          refine ⟨?_, ?_⟩
          · intro p h2 e; cases e
          · intro f' e; cases e; exact gl.2 f hc
        | ok res =>
          obtain ⟨h1, rr⟩ := res
          obtain ⟨fr, o, L, er, hL, hm, wL⟩ := gl.1 h1 rr hc
          subst er
          obtain ⟨f1, f2, f3, f4, f5, f6⟩ := fr
          have hi1 : i < h1.results.length := by rw [f6]; exact hi
          simp only
          rw [setResult_ok h1 i (some o) hi1]
          simp only
          -- the copy loop
          have hcyc : Cyc (withSlot h1 i (some o)).next (withSlot h1 i (some o)).prev L := by
            have := wL.cyc i (by simp only [upd_same]; exact List.ne_nil_of_mem hm)
            simpa only [upd_same] using this
          have hndL : L.Nodup := by have := wL.nodup i; simpa only [upd_same] using this
          have hltL : ∀ k ∈ L, k < h1.n := by
            intro k hk; have := wL.lt i k (by simp only [upd_same]; exact hk); exact this
          obtain ⟨X, Y, eL, cR⟩ := cyc_rotate_first' hcyc hm
          have hperm : (o :: (Y ++ X)).Perm L := by
            rw [eL]
            have := List.perm_append_comm (l₁ := o :: Y) (l₂ := X)
            simpa using this
          have hndR : (o :: (Y ++ X)).Nodup := hperm.nodup_iff.mpr hndL
          have hlen : (o :: (Y ++ X)).length ≤ h1.n :=
            nodup_bound h1.n _ hndR (fun k hk => hltL k (hperm.mem_iff.mp hk))
          have hl : Linked (withSlot h1 i (some o)).next (withSlot h1 i (some o)).prev (o :: ((Y ++ X) ++ [o])) := cR
          have hnext : (withSlot h1 i (some o)).next o = ((Y ++ X) ++ [o]).headD o := by
            cases hyx : Y ++ X with
            | nil => rw [hyx] at hl; simpa using hl.1
            | cons z Z => rw [hyx] at hl; simpa using hl.1
          have hcol := collectLoop_spec (withSlot h1 i (some o)) o (Y ++ X) ((withSlot h1 i (some o)).n + 1)
            ((withSlot h1 i (some o)).next o) (List.nodup_cons.mp hndR).1 (linked_tail hl) hnext
            (by simp only [List.length_cons] at hlen; show (Y ++ X).length < h1.n + 1; omega)
          rw [hcol]
          simp only
          constructor
          · intro p h2 e
            simp only [Except.ok.injEq, Prod.mk.injEq] at e
            obtain ⟨rfl, rfl⟩ := e
            refine ⟨⟨f1, f2, f3, f4, f5, by simp [withSlot, f6]⟩, L, hL, wL, Or.inr ⟨X, o, Y, eL, ?_⟩⟩
            show h1.pt o :: List.map h1.pt (Y ++ X) = _
            rw [f2]; rfl
          · intro f e; cases e

/-- `p` is empty or the points of a subsequence of `c`, rotated -/
def PathOf (pt : Nat → Pt) (c : List Nat) (p : Path) : Prop :=
  p = [] ∨ ∃ L X o Y, L.Sublist c ∧ L = X ++ o :: Y ∧ p = (o :: (Y ++ X)).map pt

/-- **The loop over `results_`**: one `GetPath` per slot, in slot order, each on its own ring; empty paths are dropped. -/
theorem getPaths_wf : ∀ (k i : Nat) (h : Heap) (ring : Nat → List Nat), RingsWF h ring → i + k ≤ h.results.length →
    (∀ ps h2, getPaths k i h = .ok (ps, h2) → h2.n = h.n ∧ h2.pt = h.pt ∧
      ∃ g : Nat → Path, (∀ s, PathOf h.pt (ring s) (g s)) ∧ ps = ((List.range' i k).map g).filter (fun p => !p.isEmpty)) ∧
    (∀ f, getPaths k i h = .error f → f = .fuel)
  | 0, i, h, ring, _, _ => by
    constructor
    · intro ps h2 e
      simp only [Model.RCT.getPaths, Except.ok.injEq, Prod.mk.injEq] at e
      obtain ⟨rfl, rfl⟩ := e
      exact ⟨rfl, rfl, fun _ => [], fun _ => Or.inl rfl, by simp⟩
    · intro f e; simp [Model.RCT.getPaths] at e
  | k + 1, i, h, ring, w, hk => by
    have gp := getPath_wf h i ring w (by omega)
    unfold Model.RCT.getPaths
    cases hg : getPath h i with
    | error f =>
      simp only
      refine ⟨?_, ?_⟩
      · intro ps h2 e; cases e
      · intro f' e; cases e; exact gp.2 f hg
    | ok res =>
      obtain ⟨p, h1⟩ := res
      obtain ⟨⟨f1, f2, _, _, _, f6⟩, L, hL, wL, hp⟩ := gp.1 p h1 hg
      have ih := getPaths_wf k (i + 1) h1 (upd ring i L) wL (by rw [f6]; omega)
      simp only
      cases hr : getPaths k (i + 1) h1 with
      | error f =>
        simp only
        refine ⟨?_, ?_⟩
        · intro ps h2 e; cases e
        · intro f' e; cases e; exact ih.2 f hr
      | ok res2 =>
        obtain ⟨ps', h2'⟩ := res2
        obtain ⟨e1, e2, g, hg', eps⟩ := ih.1 ps' h2' hr
        simp only
        constructor
        · intro ps h2 e
          simp only [Except.ok.injEq, Prod.mk.injEq] at e
          obtain ⟨rfl, rfl⟩ := e
          refine ⟨by rw [e1, f1], by rw [e2, f2], fun s => if s = i then p else g s, ?_, ?_⟩
          · intro s
            by_cases hs : s = i
            · subst hs
              simp only [if_true]
              rcases hp with hp | ⟨X, o, Y, eL, ep⟩
              · exact Or.inl hp
              · exact Or.inr ⟨L, X, o, Y, hL, eL, ep⟩
            · simp only [hs, if_false]
              have := hg' s
              rw [upd_ne _ _ hs, f2] at this
              exact this
          · rw [List.range'_succ]
            simp only [List.map_cons, if_true, List.filter_cons]
            have hmap : (List.range' (i + 1) k).map (fun s => if s = i then p else g s) = (List.range' (i + 1) k).map g := by
              apply List.map_congr_left
              intro s hs
              have : s ≠ i := by
                have := List.mem_range'.mp hs
                omega
              simp [this]
            rw [hmap, ← eps]
            cases p with
            | nil => simp
            | cons a l => simp
        · intro f e; cases e

end Clipper.Lemmas.RCT
