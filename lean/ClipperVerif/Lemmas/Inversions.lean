/-!
# Inversions of a list of keys (model of the intersect list of `ProcessIntersectList`)

`π : List Nat` is the current left-to-right order of the active edges, each edge named by its rank in the order
the edges must have at the top of the scanbeam (the *target* order).  An intersect node is an *inversion* of `π`:
a pair `(a, b)` with `a` before `b` in `π` and `b < a`.  `invPairs π` lists them, `invCount π` counts them.
Core Lean only.
-/
namespace Clipper.Lemmas.Inversions

/-- the inversions whose left member is the head, then those of the tail -/
def invPairs : List Nat → List (Nat × Nat)
  | [] => []
  | a :: l => (l.filter (· < a)).map (fun b => (a, b)) ++ invPairs l

/-- explicit inversion count -/
def invCount : List Nat → Nat
  | [] => 0
  | a :: l => (l.filter (· < a)).length + invCount l

theorem invCount_eq_length (π : List Nat) : invCount π = (invPairs π).length := by
  induction π with
  | nil => rfl
  | cons a l ih => simp [invCount, invPairs, ih]

/-- membership: `(x, y)` is listed iff `x` occurs before `y` in `π` (as a subsequence) and `y < x` -/
theorem mem_invPairs (π : List Nat) (x y : Nat) :
    (x, y) ∈ invPairs π ↔ (y < x ∧ [x, y].Sublist π) := by
  induction π with
  | nil => simp [invPairs]
  | cons a l ih =>
    simp only [invPairs, List.mem_append, List.mem_map, List.mem_filter, decide_eq_true_eq, Prod.mk.injEq, ih]
    rw [List.sublist_cons_iff]
    constructor
    · rintro (⟨b, ⟨hb, hlt⟩, hx, hy⟩ | ⟨hlt, hs⟩)
      · subst hx; subst hy
        exact ⟨hlt, Or.inr ⟨[b], rfl, List.singleton_sublist.mpr hb⟩⟩
      · exact ⟨hlt, Or.inl hs⟩
    · rintro ⟨hlt, hs | ⟨r, hr, hs⟩⟩
      · exact Or.inr ⟨hlt, hs⟩
      · simp only [List.cons.injEq] at hr
        obtain ⟨rfl, rfl⟩ := hr
        exact Or.inl ⟨y, ⟨List.singleton_sublist.mp hs, hlt⟩, rfl, rfl⟩

/-- no inversion iff sorted -/
theorem invPairs_eq_nil_iff (π : List Nat) : invPairs π = [] ↔ π.Pairwise (· ≤ ·) := by
  induction π with
  | nil => simp [invPairs]
  | cons a l ih =>
    simp only [invPairs, List.append_eq_nil_iff, List.map_eq_nil_iff, List.filter_eq_nil_iff, decide_eq_true_eq,
      List.pairwise_cons, ih]
    constructor
    · rintro ⟨h, hp⟩; exact ⟨fun y hy => Nat.le_of_not_lt (h y hy), hp⟩
    · rintro ⟨h, hp⟩; exact ⟨fun y hy => Nat.not_lt.mpr (h y hy), hp⟩

/-- **some inversion is adjacent**: a list that has an inversion has two neighbours in the wrong order -/
theorem exists_adjacent_inversion (π : List Nat) (h : invPairs π ≠ []) :
    ∃ l₁ a b l₂, π = l₁ ++ a :: b :: l₂ ∧ b < a := by
  induction π with
  | nil => exact absurd rfl h
  | cons a l ih =>
    cases l with
    | nil => exact absurd (by simp [invPairs]) h
    | cons b l =>
      by_cases hba : b < a
      · exact ⟨[], a, b, l, rfl, hba⟩
      · by_cases ht : invPairs (b :: l) = []
        · exfalso; apply h
          have hs := (invPairs_eq_nil_iff (b :: l)).mp ht
          have hb : ∀ y ∈ l, b ≤ y := (List.pairwise_cons.mp hs).1
          simp only [invPairs, List.append_eq_nil_iff, List.map_eq_nil_iff, List.filter_eq_nil_iff, decide_eq_true_eq]
          refine ⟨?_, ?_⟩
          · intro y hy
            rcases List.mem_cons.mp hy with rfl | hy
            · exact hba
            · have := hb y hy; omega
          · simpa [invPairs] using ht
        · obtain ⟨l₁, x, y, l₂, he, hlt⟩ := ih ht
          exact ⟨a :: l₁, x, y, l₂, by simp [he], hlt⟩

/-- filtering does not see the order of two neighbours -/
theorem filter_swap_perm (p : Nat → Bool) (l₁ l₂ : List Nat) (a b : Nat) :
    ((l₁ ++ b :: a :: l₂).filter p).Perm ((l₁ ++ a :: b :: l₂).filter p) :=
  List.Perm.filter p (List.Perm.append_left l₁ (List.Perm.swap a b l₂))

/-- **swapping an adjacent inverted pair removes exactly that inversion**: the inversions of the list before the swap
are the pair itself plus the inversions of the list after the swap (as multisets). -/
theorem invPairs_swap_perm (l₁ l₂ : List Nat) (a b : Nat) (hba : b < a) :
    (invPairs (l₁ ++ a :: b :: l₂)).Perm ((a, b) :: invPairs (l₁ ++ b :: a :: l₂)) := by
  induction l₁ with
  | nil =>
    have hab : ¬ a < b := by omega
    simp only [List.nil_append, invPairs, List.filter_cons, hba, hab, decide_true, decide_false, if_true,
      List.map_cons, List.cons_append]
    refine List.Perm.cons _ ?_
    -- X ++ (Y ++ Z)  ~  Y ++ (X ++ Z)
    rw [← List.append_assoc, ← List.append_assoc]
    exact List.Perm.append_right _ List.perm_append_comm
  | cons x l₁ ih =>
    simp only [List.cons_append, invPairs]
    have h1 := (filter_swap_perm (fun y => decide (y < x)) l₁ l₂ a b).symm.map (fun y => (x, y))
    exact (List.Perm.append h1 ih).trans List.perm_middle

/-- the count drops by exactly one -/
theorem invCount_swap (l₁ l₂ : List Nat) (a b : Nat) (hba : b < a) :
    invCount (l₁ ++ a :: b :: l₂) = invCount (l₁ ++ b :: a :: l₂) + 1 := by
  rw [invCount_eq_length, invCount_eq_length, (invPairs_swap_perm l₁ l₂ a b hba).length_eq]; simp

/-- in a list of distinct keys two keys cannot occur in both orders -/
theorem nodup_not_both_orders (l : List Nat) (a b : Nat) (hnd : l.Nodup)
    (h1 : [a, b].Sublist l) (h2 : [b, a].Sublist l) : False := by
  induction l with
  | nil => simp at h1
  | cons c t ih =>
    obtain ⟨hc, ht⟩ := List.nodup_cons.mp hnd
    rw [List.sublist_cons_iff] at h1 h2
    rcases h1 with h1 | ⟨r1, hr1, hs1⟩ <;> rcases h2 with h2 | ⟨r2, hr2, hs2⟩
    · exact ih ht h1 h2
    · simp only [List.cons.injEq] at hr2
      obtain ⟨rfl, rfl⟩ := hr2
      exact hc (h1.subset (by simp))
    · simp only [List.cons.injEq] at hr1
      obtain ⟨rfl, rfl⟩ := hr1
      exact hc (h2.subset (by simp))
    · simp only [List.cons.injEq] at hr1 hr2
      obtain ⟨rfl, rfl⟩ := hr1
      obtain ⟨rfl, _⟩ := hr2
      exact hc (List.singleton_sublist.mp hs1)

/-- with distinct keys the swapped list has no inversion `(a, b)` any more (so "exactly that pair" is a set statement) -/
theorem swapped_pair_gone (l₁ l₂ : List Nat) (a b : Nat) (hnd : (l₁ ++ a :: b :: l₂).Nodup) :
    (a, b) ∉ invPairs (l₁ ++ b :: a :: l₂) := by
  intro hm
  have hs := ((mem_invPairs _ a b).mp hm).2
  have hnd' : (l₁ ++ b :: a :: l₂).Nodup :=
    (List.Perm.nodup_iff (List.Perm.append_left l₁ (List.Perm.swap a b l₂))).mpr hnd
  have hba : [b, a].Sublist (l₁ ++ b :: a :: l₂) :=
    List.Sublist.trans (List.Sublist.cons_cons b (List.Sublist.cons_cons a (List.nil_sublist l₂))) (List.sublist_append_right l₁ _)
  exact nodup_not_both_orders _ a b hnd' hs hba

end Clipper.Lemmas.Inversions
