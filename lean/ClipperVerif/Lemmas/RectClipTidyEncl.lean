/-
Helper lemmas for Props/C08Tidy.lean, part 7: the "path encloses the rectangle" case of `ExecuteInternal`.  When the closing logic
adds the four corners (`first_cross_ == Inside`), the main loop has added nothing, so the raw ring consists of exactly the four
corners — no node of it is collinear with its neighbours, and `CheckEdges` leaves the four pre-registered edge entries alone.
Core Lean only.
-/
import ClipperVerif.Lemmas.RectClipTidyRaw
import ClipperVerif.Lemmas.RectClipAuto
import ClipperVerif.Lemmas.CleanUp
namespace Clipper.Lemmas.RCT
open Clipper Clipper.Model.RC Clipper.Model.RCT Clipper.Lemmas.RC Clipper.Lemmas.RCA

/-! ### `first_cross_` never goes back to `Inside`; while it is `Inside` nothing is added -/

theorem startLocsLoop_inside (cw : Bool) (prev : Location) (hp : prev ≠ .inside) :
    startLocsLoop .inside cw 4 prev = none := by
  cases prev <;> cases cw <;> first | exact absurd rfl hp | rfl

/-- one iteration: `first_cross_`, once set, stays; if it is still unset (`Inside`) after an iteration that started outside
with `crossing_loc == Inside`, the iteration added nothing and left the same situation -/
theorem astep_firstCross (A : Arith) (r : Rect) (path : Path) (c : Ctl) (es : List AEmit) (sl : List Location) (c' : Ctl)
    (h : astep A r path c = .next es sl c') :
    (c.firstCross ≠ .inside → c'.firstCross ≠ .inside) ∧
    (c.loc ≠ .inside → c.crossingLoc = .inside → c.firstCross = .inside → c'.firstCross = .inside →
      es = [] ∧ c'.loc ≠ .inside ∧ c'.crossingLoc = .inside) := by
  unfold astep at h
  simp only at h
  split at h
  · split at h
    · rename_i cur prv hcur hprv
      split at h
      · -- remaining outside
        unfold stepOutside at h
        simp only at h
        split at h
        · rename_i hcl
          split at h
          · cases h
          · rename_i sl' hsl
            simp only [AStep.next.injEq] at h
            obtain ⟨rfl, rfl, rfl⟩ := h
            refine ⟨fun x => x, ?_⟩
            intro hloc _ _ _
            refine ⟨?_, ?_, hcl⟩
            · rw [gnl_adds_nil r path c.loc c.i hloc]; rfl
            · intro e
              simp only at e
              rw [e, startLocsLoop_inside _ _ hloc] at hsl
              cases hsl
        · rename_i hcl
          split at h
          · split at h
            · cases h
            · simp only [AStep.next.injEq] at h
              obtain ⟨rfl, rfl, rfl⟩ := h
              exact ⟨fun x => x, fun _ hc => absurd hc hcl⟩
          · simp only [AStep.next.injEq] at h
            obtain ⟨rfl, rfl, rfl⟩ := h
            exact ⟨fun x => x, fun _ hc => absurd hc hcl⟩
      · rename_i hx
        have hx' : (getIntersection A r cur prv (getNextLocation r path c.loc c.i).1 ⟨0, 0⟩).1 = true := by
          simpa using hx
        split at h
        · -- entering
          unfold stepEnter at h
          simp only at h
          split at h
          · rename_i hfc
            simp only [AStep.next.injEq] at h
            obtain ⟨rfl, rfl, rfl⟩ := h
            have := (getIntersection_loc A r cur prv _ ⟨0, 0⟩).1 hx'
            exact ⟨fun _ => this, fun _ _ _ e => absurd e this⟩
          · rename_i hfc
            split at h
            · split at h
              · cases h
              · simp only [AStep.next.injEq] at h
                obtain ⟨rfl, rfl, rfl⟩ := h
                exact ⟨fun x => x, fun _ _ e => absurd e hfc⟩
            · simp only [AStep.next.injEq] at h
              obtain ⟨rfl, rfl, rfl⟩ := h
              exact ⟨fun x => x, fun _ _ e => absurd e hfc⟩
        · split at h
          · -- passing right through
            rename_i hcloc
            unfold stepThrough at h
            simp only at h
            have hl2 := getIntersection_loc_ne A r prv cur c.loc ⟨0, 0⟩ hcloc
            split at h
            · cases h
            · split at h
              · split at h
                · cases h
                · simp only [AStep.next.injEq] at h
                  obtain ⟨rfl, rfl, rfl⟩ := h
                  refine ⟨?_, ?_⟩
                  · intro hf; simp only [hf, if_false]; exact hf
                  · intro _ _ hf e; simp only [hf, if_true] at e; exact absurd e hl2
              · simp only [AStep.next.injEq] at h
                obtain ⟨rfl, rfl, rfl⟩ := h
                refine ⟨?_, ?_⟩
                · intro hf; simp only [hf, if_false]; exact hf
                · intro _ _ hf e; simp only [hf, if_true] at e; exact absurd e hl2
          · -- exiting
            rename_i hcloc
            unfold stepExit at h
            simp only [AStep.next.injEq] at h
            obtain ⟨rfl, rfl, rfl⟩ := h
            refine ⟨?_, ?_⟩
            · intro hf; simp only [hf, if_false]; exact hf
            · intro hl; exact absurd (by simpa using hcloc) hl
    · cases h
  · cases h

theorem stepOutside_not_done (A : Arith) (r : Rect) (c : Ctl) (loc : Location) (i : Nat) (adds : List AEmit) (cur prv : Pt)
    (es : List AEmit) (l : Location) : stepOutside A r c loc i adds cur prv ≠ .done es l := by
  unfold stepOutside
  simp only
  repeat' split
  all_goals (intro h; cases h)

theorem stepEnter_not_done (A : Arith) (r : Rect) (c : Ctl) (i : Nat) (adds : List AEmit) (cur prv : Pt) (cl : Location)
    (ip : Pt) (es : List AEmit) (l : Location) : stepEnter A r c i adds cur prv cl ip ≠ .done es l := by
  unfold stepEnter
  simp only
  repeat' split
  all_goals (intro h; cases h)

theorem stepThrough_not_done (A : Arith) (r : Rect) (c : Ctl) (i : Nat) (adds : List AEmit) (cur prv : Pt) (cl : Location)
    (ip : Pt) (es : List AEmit) (l : Location) : stepThrough A r c i adds cur prv cl ip ≠ .done es l := by
  unfold stepThrough
  simp only
  repeat' split
  all_goals (intro h; cases h)

theorem astep_done_adds (A : Arith) (r : Rect) (path : Path) (c : Ctl) (es : List AEmit) (loc : Location)
    (h : astep A r path c = .done es loc) (hloc : c.loc ≠ .inside) : es = [] := by
  unfold astep at h
  simp only at h
  split at h
  · split at h
    · split at h
      · exact absurd h (stepOutside_not_done _ _ _ _ _ _ _ _ _ _)
      · split at h
        · exact absurd h (stepEnter_not_done _ _ _ _ _ _ _ _ _ _ _)
        · exact absurd h (stepThrough_not_done _ _ _ _ _ _ _ _ _ _ _)
    · cases h
  · simp only [AStep.done.injEq] at h
    rw [← h.1, gnl_adds_nil r path c.loc c.i hloc]; rfl

theorem aloop_firstCross_stays (A : Arith) (r : Rect) (path : Path) : ∀ (fuel : Nat) (c : Ctl) (o : LoopOut),
    c.firstCross ≠ .inside → aloop A r path fuel c = .ok o → o.firstCross ≠ .inside
  | 0, _, _, _, h => by simp [aloop] at h
  | fuel + 1, c, o, hc, h => by
    unfold aloop at h
    split at h
    · split at h
      · simp only [Except.ok.injEq] at h; rw [← h]; exact hc
      · rename_i es sl c' hs
        split at h
        · rename_i o' ho'
          simp only [Except.ok.injEq] at h
          rw [← h]
          exact aloop_firstCross_stays A r path fuel c' o' ((astep_firstCross A r path c es sl c' hs).1 hc) ho'
        · cases h
      · cases h
    · simp only [Except.ok.injEq] at h; rw [← h]; exact hc

/-- if `first_cross_` is still `Inside` when the main loop ends (path started outside), the loop has added nothing -/
theorem aloop_no_cross_no_adds (A : Arith) (r : Rect) (path : Path) : ∀ (fuel : Nat) (c : Ctl) (o : LoopOut),
    c.loc ≠ .inside → c.crossingLoc = .inside → c.firstCross = .inside → aloop A r path fuel c = .ok o →
    o.firstCross = .inside → o.es = []
  | 0, _, _, _, _, _, h, _ => by simp [aloop] at h
  | fuel + 1, c, o, hl, hcl, hfc, h, ho => by
    unfold aloop at h
    split at h
    · split at h
      · rename_i es loc hs
        simp only [Except.ok.injEq] at h; rw [← h]
        exact astep_done_adds A r path c es loc hs hl
      · rename_i es sl c' hs
        split at h
        · rename_i o' ho'
          simp only [Except.ok.injEq] at h
          rw [← h] at ho ⊢
          simp only at ho ⊢
          have st := astep_firstCross A r path c es sl c' hs
          have hc' : c'.firstCross = .inside := by
            apply Classical.byContradiction
            intro hne
            exact aloop_firstCross_stays A r path fuel c' o' hne ho' ho
          obtain ⟨e1, e2, e3⟩ := st.2 hl hcl hfc hc'
          rw [e1, aloop_no_cross_no_adds A r path fuel c' o' e2 e3 hc' ho' ho]
          rfl
        · cases h
      · cases h
    · simp only [Except.ok.injEq] at h; rw [← h]

/-- **the enclosing case adds exactly the four corners** -/
theorem enclosing_es (A : Arith) (pip : Pt → Path → Option PipResult) (r : Rect) (path : Path) (res : AResult)
    (h : executeInternalA A pip r path = .ok res) (henc : enclosing pip r path res = true) :
    res.es = cornerEmits path.length (if startLocsAreClockwise res.startLocs then r.asPath else r.asPath.reverse) := by
  unfold enclosing at henc
  simp only [Bool.and_eq_true, beq_iff_eq, bne_iff_ne, ne_eq] at henc
  obtain ⟨⟨⟨hfc, hsl⟩, hcont⟩, hp⟩ := henc
  unfold executeInternalA at h
  split at h
  · simp only [Except.ok.injEq] at h; rw [← h] at hsl; exact absurd rfl hsl
  · split at h
    · simp only [Except.ok.injEq] at h; rw [← h] at hsl; exact absurd rfl hsl
    · rename_i loc0 hs
      split at h
      · cases h
      · rename_i o ho
        split at h
        · cases h
        · rename_i fin hfin
          simp only [Except.ok.injEq] at h
          rw [← h] at hfc hsl ⊢
          simp only at hfc hsl ⊢
          have hes := aloop_no_cross_no_adds A r path (afuel path) ⟨0, loc0, .inside, .inside⟩ o hsl rfl rfl ho hfc
          unfold afinish at hfin
          simp only [hfc, if_true, ne_eq, hsl, not_false_eq_true, hcont, hp] at hfin
          simp only [Except.ok.injEq] at hfin
          rw [hes, ← hfin]
          rfl

/-! ### the ring of the four corners has no collinear node -/

/-- one `Add(q); AddToEdge(edges_[2c], results_[0])` with a point different from the previous one -/
theorem addCorner_step (h : Heap) (p : Pt) (c : Nat) (inv : RawInv h) (hnew : h.n = 0 ∨ h.pt (h.n - 1) ≠ p) :
    ∃ h1, (∀ rest, addCorners h ((p, c) :: rest) = addCorners h1 rest) ∧ RawInv h1 ∧ h1.n = h.n + 1 ∧
      (∀ k, k < h.n → h1.pt k = h.pt k) ∧ h1.pt h.n = p ∧
      ((∀ k, k < h.n → h.edge k ≠ none) → ∀ k, k < h1.n → h1.edge k ≠ none) ∧
      (∀ m, h1.edges (m * 2 + 1) = h.edges (m * 2 + 1)) := by
  obtain ⟨h1, e1, inv1, ed1, n1, n1', o1, p1, nn, hedge⟩ := add_rawInv h p inv
  have hn1 : h1.n = h.n + 1 := nn hnew
  have hr : h1.results = [some (h1.n - 1)] := by rw [inv1.res]; simp [hn1]
  have sr := sameRings_addToEdge h1 (c * 2) (h1.n - 1)
  refine ⟨h1.addToEdge (c * 2) (h1.n - 1), ?_, addToEdge_rawInv h1 _ _ inv1 (by omega), by rw [sr.1]; exact hn1, ?_, ?_, ?_, ?_⟩
  · intro rest; simp [addCorners, e1, hr]
  · intro k hk; rw [sr.2.1]; exact o1 k hk
  · rw [sr.2.1]; exact p1 h.n (Nat.le_refl _) (by omega)
  · intro hall k hk
    rw [sr.1, hn1] at hk
    unfold Heap.addToEdge
    have hlast : h1.n - 1 = h.n := by omega
    rw [hlast]
    split
    · rename_i e0 he0
      by_cases e : k = h.n
      · subst e; rw [he0]; simp
      · rw [hedge k (by omega)]; exact hall k (by omega)
    · by_cases e : k = h.n
      · subst e; simp
      · simp only [upd_ne _ _ e]; rw [hedge k (by omega)]; exact hall k (by omega)
  · intro m
    unfold Heap.addToEdge
    split
    · rw [ed1]
    · simp only [upd_apply]
      have : m * 2 + 1 ≠ c * 2 := by omega
      simp only [this, if_false]; rw [ed1]

/-- an axis-parallel corner is not collinear -/
theorem cross_corner (a b c : Pt)
    (h : (a.x = b.x ∧ b.y = c.y ∧ a.y ≠ b.y ∧ b.x ≠ c.x) ∨ (a.y = b.y ∧ b.x = c.x ∧ a.x ≠ b.x ∧ b.y ≠ c.y)) :
    isCollinear a b c = false := by
  rw [Clipper.Lemmas.CleanUp.isCollinear_false_iff_cross]
  unfold cross
  rcases h with ⟨h1, h2, h3, h4⟩ | ⟨h1, h2, h3, h4⟩
  · rw [h1, ← h2]
    have : (b.x - b.x) * (b.y - a.y) - (b.y - a.y) * (c.x - b.x) = -((b.y - a.y) * (c.x - b.x)) := by simp
    rw [this]
    have := Int.mul_ne_zero (a := b.y - a.y) (b := c.x - b.x) (by omega) (by omega)
    omega
  · rw [← h1, ← h2]
    have : (b.x - a.x) * (c.y - a.y) - (a.y - a.y) * (b.x - a.x) = (b.x - a.x) * (c.y - a.y) := by simp
    rw [this]
    exact Int.mul_ne_zero (by omega) (by rw [h1]; omega)

/-- four points added in a row, each an axis-parallel corner with its neighbours (cyclically): a ring of four nodes none of
which is collinear with its neighbours -/
theorem four_corners_heap (q0 q1 q2 q3 : Pt) (k0 k1 k2 k3 : Nat)
    (hc : ∀ a b c, (a, b, c) ∈ [(q3, q0, q1), (q0, q1, q2), (q1, q2, q3), (q2, q3, q0)] → isCollinear a b c = false)
    (d01 : q0 ≠ q1) (d12 : q1 ≠ q2) (d23 : q2 ≠ q3) :
    ∃ h, addCorners Heap.empty [(q0, k0), (q1, k1), (q2, k2), (q3, k3)] = .ok h ∧ RawInv h ∧
      (∀ x, x < h.n → h.collinearAt x = false) ∧ (∀ k, k < h.n → h.pt k ∈ [q0, q1, q2, q3]) ∧
      (∀ k, k < h.n → h.edge k ≠ none) ∧ (∀ m, h.edges (m * 2 + 1) = []) := by
  obtain ⟨h1, s1, i1, n1, _, p1, g1, l1⟩ := addCorner_step Heap.empty q0 k0 rawInv_empty (Or.inl rfl)
  have n1' : h1.n = 1 := n1
  obtain ⟨h2, s2, i2, n2, o2, p2, g2, l2⟩ := addCorner_step h1 q1 k1 i1 (Or.inr (by rw [n1']; exact fun e => d01 (p1.symm.trans e)))
  have n2' : h2.n = 2 := by rw [n2, n1']
  have a0 : h2.pt 0 = q0 := by rw [o2 0 (by omega)]; exact p1
  have a1 : h2.pt 1 = q1 := by rw [← n1']; exact p2
  obtain ⟨h3, s3, i3, n3, o3, p3, g3, l3⟩ := addCorner_step h2 q2 k2 i2 (Or.inr (by rw [n2']; exact fun e => d12 (a1.symm.trans e)))
  have n3' : h3.n = 3 := by rw [n3, n2']
  have b0 : h3.pt 0 = q0 := by rw [o3 0 (by omega)]; exact a0
  have b1 : h3.pt 1 = q1 := by rw [o3 1 (by omega)]; exact a1
  have b2 : h3.pt 2 = q2 := by rw [← n2']; exact p3
  obtain ⟨h4, s4, i4, n4, o4, p4, g4, l4⟩ := addCorner_step h3 q3 k3 i3 (Or.inr (by rw [n3']; exact fun e => d23 (b2.symm.trans e)))
  have n4' : h4.n = 4 := by rw [n4, n3']
  have c0 : h4.pt 0 = q0 := by rw [o4 0 (by omega)]; exact b0
  have c1 : h4.pt 1 = q1 := by rw [o4 1 (by omega)]; exact b1
  have c2 : h4.pt 2 = q2 := by rw [o4 2 (by omega)]; exact b2
  have c3 : h4.pt 3 = q3 := by rw [← n3']; exact p4
  refine ⟨h4, by rw [s1, s2, s3, s4]; rfl, i4, ?_, ?_,
    g4 (g3 (g2 (g1 (fun k hk => absurd hk (Nat.not_lt_zero k))))), fun m => by rw [l4, l3, l2, l1]; rfl⟩
  · have hl := i4.link (by omega)
    rw [n4'] at hl
    have hl' : Linked h4.next h4.prev [0, 1, 2, 3, 0] := hl
    simp only [Linked] at hl'
    obtain ⟨x0, y1, x1, y2, x2, y3, x3, y0, _⟩ := hl'
    intro x hx
    rw [n4'] at hx
    unfold Heap.collinearAt
    have : x = 0 ∨ x = 1 ∨ x = 2 ∨ x = 3 := by omega
    rcases this with rfl | rfl | rfl | rfl
    · rw [y0, x0, c3, c0, c1]; exact hc _ _ _ (by simp)
    · rw [y1, x1, c0, c1, c2]; exact hc _ _ _ (by simp)
    · rw [y2, x2, c1, c2, c3]; exact hc _ _ _ (by simp)
    · rw [y3, x3, c2, c3, c0]; exact hc _ _ _ (by simp)
  · intro k hk
    rw [n4'] at hk
    have : k = 0 ∨ k = 1 ∨ k = 2 ∨ k = 3 := by omega
    rcases this with rfl | rfl | rfl | rfl
    · rw [c0]; simp
    · rw [c1]; simp
    · rw [c2]; simp
    · rw [c3]; simp

/-- **In the enclosing case the raw heap is the ring of the four corners, none of them collinear with its neighbours.** -/
theorem rawHeap_enclosing (A : Arith) (pip : Pt → Path → Option PipResult) (r : Rect) (hne : r.isEmpty = false)
    (path : Path) (res : AResult) (h : executeInternalA A pip r path = .ok res) (henc : enclosing pip r path res = true) :
    ∃ hp, rawHeap pip r path res = .ok hp ∧ (∀ x, x < hp.n → hp.collinearAt x = false) ∧
      (∀ k, k < hp.n → hp.edge k ≠ none) ∧ (∀ m, hp.edges (m * 2 + 1) = []) := by
  have hes := enclosing_es A pip r path res h henc
  unfold Rect.isEmpty at hne
  simp only [Bool.or_eq_false_iff, decide_eq_false_iff_not] at hne
  have hraw : rawHeap pip r path res = addCorners Heap.empty
      ((if startLocsAreClockwise res.startLocs then r.asPath else r.asPath.reverse).zip
        (if startLocsAreClockwise res.startLocs then [0, 1, 2, 3] else [3, 2, 1, 0])) := by
    unfold rawHeap
    simp only [henc, if_true, hes]
    cases startLocsAreClockwise res.startLocs <;>
      simp [cornerEmits, Rect.asPath, Heap.addAll]
  rw [hraw]
  cases startLocsAreClockwise res.startLocs
  · simp only [Bool.false_eq_true, if_false, Rect.asPath, List.reverse_cons, List.reverse_nil, List.nil_append,
      List.cons_append, List.zip_cons_cons, List.zip_nil_right]
    obtain ⟨hp, e, _, nc, _, g, l⟩ := four_corners_heap r.c3 r.c2 r.c1 r.c0 3 2 1 0 (by
        intro a b c hm
        simp only [List.mem_cons, Prod.mk.injEq, List.not_mem_nil, or_false] at hm
        rcases hm with ⟨rfl, rfl, rfl⟩ | ⟨rfl, rfl, rfl⟩ | ⟨rfl, rfl, rfl⟩ | ⟨rfl, rfl, rfl⟩ <;>
          (apply cross_corner
           first
             | (left; exact ⟨rfl, rfl, by simp only [Rect.c0, Rect.c1, Rect.c2, Rect.c3]; omega,
                  by simp only [Rect.c0, Rect.c1, Rect.c2, Rect.c3]; omega⟩)
             | (right; exact ⟨rfl, rfl, by simp only [Rect.c0, Rect.c1, Rect.c2, Rect.c3]; omega,
                  by simp only [Rect.c0, Rect.c1, Rect.c2, Rect.c3]; omega⟩)))
      (by simp only [Rect.c3, Rect.c2, ne_eq, Pt.mk.injEq]; omega)
      (by simp only [Rect.c2, Rect.c1, ne_eq, Pt.mk.injEq]; omega)
      (by simp only [Rect.c1, Rect.c0, ne_eq, Pt.mk.injEq]; omega)
    exact ⟨hp, e, nc, g, l⟩
  · simp only [if_true, Rect.asPath, List.zip_cons_cons, List.zip_nil_right]
    obtain ⟨hp, e, _, nc, _, g, l⟩ := four_corners_heap r.c0 r.c1 r.c2 r.c3 0 1 2 3 (by
        intro a b c hm
        simp only [List.mem_cons, Prod.mk.injEq, List.not_mem_nil, or_false] at hm
        rcases hm with ⟨rfl, rfl, rfl⟩ | ⟨rfl, rfl, rfl⟩ | ⟨rfl, rfl, rfl⟩ | ⟨rfl, rfl, rfl⟩ <;>
          (apply cross_corner
           first
             | (left; exact ⟨rfl, rfl, by simp only [Rect.c0, Rect.c1, Rect.c2, Rect.c3]; omega,
                  by simp only [Rect.c0, Rect.c1, Rect.c2, Rect.c3]; omega⟩)
             | (right; exact ⟨rfl, rfl, by simp only [Rect.c0, Rect.c1, Rect.c2, Rect.c3]; omega,
                  by simp only [Rect.c0, Rect.c1, Rect.c2, Rect.c3]; omega⟩)))
      (by simp only [Rect.c0, Rect.c1, ne_eq, Pt.mk.injEq]; omega)
      (by simp only [Rect.c1, Rect.c2, ne_eq, Pt.mk.injEq]; omega)
      (by simp only [Rect.c2, Rect.c3, ne_eq, Pt.mk.injEq]; omega)
    exact ⟨hp, e, nc, g, l⟩

end Clipper.Lemmas.RCT
