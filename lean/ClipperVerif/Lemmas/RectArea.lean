/-
Discrete Green theorem for rectilinear closed paths: twice the shoelace area equals the sum over the bounded
grid cells of (winding number at the cell centre) · 2 · (cell area).
-/
import ClipperVerif.Lemmas.RectCheck
namespace Clipper.RectCheck
open Clipper Clipper.WindSpec

def ind (b : Bool) : Int := if b then 1 else 0

theorem crossB_ind (lx ly : Int → Bool) (a b : Pt) :
    crossB lx ly a b = ind (lx a.x) * (ind (ly b.y) - ind (ly a.y)) := by
  unfold crossB ind
  cases lx a.x <;> cases ly a.y <;> cases ly b.y <;> rfl

/-- `Σ` over the bounded cells of `F centre · 2 · width · height` (centres in doubled coordinates) -/
def cellSum (F : Pt → Int) (xs ys : List Int) : Int :=
  ((gaps xs).map (fun gx => ((gaps ys).map (fun gy => F ⟨gx.1, gy.1⟩ * (2 * (gx.2 * gy.2)))).sum)).sum

theorem cellSum_zero (xs ys : List Int) : cellSum (fun _ => 0) xs ys = 0 := by
  unfold cellSum
  simp only [Int.zero_mul, sum_map_zero]

theorem cellSum_add (F G : Pt → Int) (xs ys : List Int) :
    cellSum (fun c => F c + G c) xs ys = cellSum F xs ys + cellSum G xs ys := by
  unfold cellSum
  rw [← sum_map_add]
  congr 1
  apply List.map_congr_left
  intro gx _
  rw [← sum_map_add]
  congr 1
  apply List.map_congr_left
  intro gy _
  exact Int.add_mul _ _ _

theorem cellSum_list {α : Type} (L : List α) (F : α → Pt → Int) (xs ys : List Int) :
    cellSum (fun c => (L.map (fun i => F i c)).sum) xs ys = (L.map (fun i => cellSum (F i) xs ys)).sum := by
  induction L with
  | nil => simp only [List.map_nil, List.sum_nil]; exact cellSum_zero xs ys
  | cons i r ih =>
    simp only [List.map_cons, List.sum_cons]
    rw [cellSum_add, ih]

/-! ### widths of the gaps left of a grid value add up to the distance from the first grid value -/

theorem gapsum_zero (X : Int) : ∀ (r : List Int) (b : Int), (b :: r).Pairwise (· < ·) → X ≤ b →
    ((gaps (b :: r)).map (fun g => ind (decide (g.1 < 2 * X)) * g.2)).sum = 0 := by
  intro r
  induction r with
  | nil => intro b _ _; rfl
  | cons c r ih =>
    intro b hs hX
    rw [List.pairwise_cons] at hs
    have hbc : b < c := hs.1 c List.mem_cons_self
    simp only [gaps, List.map_cons, List.sum_cons]
    rw [ih c hs.2 (by omega)]
    have : decide (b + c < 2 * X) = false := by simp; omega
    rw [this]; simp [ind]

theorem gapsum (X : Int) : ∀ (r : List Int) (x0 : Int), (x0 :: r).Pairwise (· < ·) → X ∈ x0 :: r →
    ((gaps (x0 :: r)).map (fun g => ind (decide (g.1 < 2 * X)) * g.2)).sum = X - x0 := by
  intro r
  induction r with
  | nil =>
    intro x0 _ hX
    simp only [List.mem_singleton] at hX
    subst hX
    simp [gaps]
  | cons c r ih =>
    intro x0 hs hX
    have hs' := List.pairwise_cons.mp hs
    have h0c : x0 < c := hs'.1 c List.mem_cons_self
    rcases List.mem_cons.mp hX with rfl | hX'
    · have := gapsum_zero X (c :: r) X hs (Int.le_refl _)
      rw [this]; omega
    · simp only [gaps, List.map_cons, List.sum_cons]
      rw [ih c hs'.2 hX']
      have hcX : c ≤ X := by
        rcases List.mem_cons.mp hX' with rfl | h
        · exact Int.le_refl _
        · exact Int.le_of_lt ((List.pairwise_cons.mp hs'.2).1 X h)
      have : decide (x0 + c < 2 * X) = true := by simp; omega
      rw [this]; simp only [ind, if_true]; omega

/-! ### one edge -/

theorem cellSum_edge {x0 y0 : Int} {rx ry : List Int} (hx : (x0 :: rx).Pairwise (· < ·))
    (hy : (y0 :: ry).Pairwise (· < ·)) {a b : Pt} (ax : a.x ∈ x0 :: rx) (ay : a.y ∈ y0 :: ry)
    (bY : b.y ∈ y0 :: ry) :
    cellSum (fun c => crossB (locX 2 c) (locY 2 c) a b) (x0 :: rx) (y0 :: ry)
      = 2 * ((a.x - x0) * (b.y - a.y)) := by
  unfold cellSum
  have inner : ∀ gx : Int × Int,
      ((gaps (y0 :: ry)).map (fun gy => crossB (locX 2 ⟨gx.1, gy.1⟩) (locY 2 ⟨gx.1, gy.1⟩) a b * (2 * (gx.2 * gy.2)))).sum
      = (ind (decide (gx.1 < 2 * a.x)) * gx.2) * (2 * (b.y - a.y)) := by
    intro gx
    have e : ∀ gy : Int × Int,
        crossB (locX 2 ⟨gx.1, gy.1⟩) (locY 2 ⟨gx.1, gy.1⟩) a b * (2 * (gx.2 * gy.2))
        = (2 * (ind (decide (gx.1 < 2 * a.x)) * gx.2)) *
            (ind (decide (gy.1 < 2 * b.y)) * gy.2 - ind (decide (gy.1 < 2 * a.y)) * gy.2) := by
      intro gy
      rw [crossB_ind]
      simp only [locX, locY]
      grind
    rw [List.map_congr_left (fun gy _ => e gy), sum_map_mul_left, sum_map_sub,
        gapsum b.y ry y0 hy bY, gapsum a.y ry y0 hy ay]
    grind
  rw [List.map_congr_left (fun gx _ => inner gx), sum_map_mul_right, gapsum a.x rx x0 hx ax]
  grind

/-! ### the shoelace sum of a rectilinear closed path -/

/-- potential whose increments account for the difference between the shoelace term and the cell term -/
def Gf (x0 : Int) (v : Pt) : Int := -(v.x * v.y) + 2 * x0 * v.y

theorem edge_shoelace (x0 : Int) {a b : Pt} (h : a.x = b.x ∨ a.y = b.y) :
    a.x * b.y - b.x * a.y = 2 * ((a.x - x0) * (b.y - a.y)) + (Gf x0 b - Gf x0 a) := by
  unfold Gf
  rcases h with h | h
  · rw [← h]; grind
  · rw [← h]; grind

theorem shoelace_rect (x0 : Int) {path : Path} (h : isRectPath path = true) :
    shoelace2 path = ((edgesOf path).map (fun e => 2 * ((e.1.x - x0) * (e.2.y - e.1.y)))).sum := by
  unfold shoelace2
  have e : ∀ e ∈ edgesOf path, e.1.x * e.2.y - e.2.x * e.1.y
      = 2 * ((e.1.x - x0) * (e.2.y - e.1.y)) + (Gf x0 e.2 - Gf x0 e.1) := by
    intro e he
    exact edge_shoelace x0 (axisEdge_weak (List.all_eq_true.mp h e he))
  rw [List.map_congr_left e, sum_map_add, edges_telescope]
  omega

theorem cellSum_path {xs ys : List Int} (hx : xs.Pairwise (· < ·)) (hy : ys.Pairwise (· < ·))
    {path : Path} (hr : isRectPath path = true)
    (vx : ∀ v ∈ path, v.x ∈ xs) (vy : ∀ v ∈ path, v.y ∈ ys) :
    cellSum (fun c => windPathB (locX 2 c) (locY 2 c) path) xs ys = shoelace2 path := by
  cases path with
  | nil => simp only [windPathB, edgesOf, List.map_nil, List.sum_nil, shoelace2]; exact cellSum_zero xs ys
  | cons v rest =>
    have hvx := vx v List.mem_cons_self
    have hvy := vy v List.mem_cons_self
    cases xs with
    | nil => simp at hvx
    | cons x0 rx =>
      cases ys with
      | nil => simp at hvy
      | cons y0 ry =>
        rw [shoelace_rect x0 hr]
        unfold windPathB
        rw [cellSum_list]
        apply congrArg
        apply List.map_congr_left
        intro e he
        obtain ⟨m1, m2⟩ := mem_edgesOf he
        exact cellSum_edge hx hy (vx _ m1) (vy _ m1) (vy _ m2)

theorem cellSum_paths {xs ys : List Int} (hx : xs.Pairwise (· < ·)) (hy : ys.Pairwise (· < ·))
    {ps : Paths} (hr : isRectilinear ps = true)
    (vx : ∀ g ∈ xsOf ps, g ∈ xs) (vy : ∀ g ∈ ysOf ps, g ∈ ys) :
    cellSum (fun c => wind (scalePaths 2 ps) c) xs ys = shoelace2s ps := by
  have e : (fun c => wind (scalePaths 2 ps) c) = (fun c => windB (locX 2 c) (locY 2 c) ps) := by
    funext c; exact wind_scale_rect 2 c hr
  rw [e]
  unfold windB shoelace2s
  rw [cellSum_list]
  apply congrArg
  apply List.map_congr_left
  intro path hp
  exact cellSum_path hx hy (List.all_eq_true.mp hr path hp)
    (fun v hv => vx v.x (mem_xsOf.mpr ⟨path, hp, v, hv, rfl⟩))
    (fun v hv => vy v.y (mem_ysOf.mpr ⟨path, hp, v, hv, rfl⟩))

end Clipper.RectCheck
