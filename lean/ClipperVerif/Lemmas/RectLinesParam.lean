/-
The integer separating-axis predicate `Meets` (Lemmas/RectLinesMeet.lean) is what it is meant to be: the closed
segment `p q` and the closed rectangle have a common point — a point `p + (s/t)(q - p)` with a rational parameter
`0 ≤ s/t ≤ 1` inside the rectangle.  Core Lean only.
-/
import ClipperVerif.Lemmas.RectLinesSegGeo
namespace Clipper.Lemmas.RLV
open Clipper Clipper.Model.RC Clipper.Lemmas.RC Clipper.Lemmas.RLC Clipper.Lemmas.RLG

/-- in offsets from `p`: some point `(s/t)·(dx, dy)`, `0 ≤ s ≤ t`, lies in `[u0, u1] × [a0, a1]` -/
def ParamO (u0 u1 a0 a1 dx dy : Int) : Prop :=
  ∃ s t : Int, 0 < t ∧ 0 ≤ s ∧ s ≤ t ∧ t * u0 ≤ s * dx ∧ s * dx ≤ t * u1 ∧ t * a0 ≤ s * dy ∧ s * dy ≤ t * a1

/-- **The closed segment `p q` and the closed rectangle have a common point**: the point with parameter `s/t`. -/
def MeetsParam (r : Rect) (p q : Pt) : Prop :=
  ∃ s t : Int, 0 < t ∧ 0 ≤ s ∧ s ≤ t ∧
    t * r.left ≤ t * p.x + s * (q.x - p.x) ∧ t * p.x + s * (q.x - p.x) ≤ t * r.right ∧
    t * r.top ≤ t * p.y + s * (q.y - p.y) ∧ t * p.y + s * (q.y - p.y) ≤ t * r.bottom

theorem paramO_transpose {u0 u1 a0 a1 dx dy : Int} : ParamO a0 a1 u0 u1 dy dx ↔ ParamO u0 u1 a0 a1 dx dy := by
  constructor <;> rintro ⟨s, t, h1, h2, h3, h4, h5, h6, h7⟩ <;> exact ⟨s, t, h1, h2, h3, h6, h7, h4, h5⟩

theorem sep_of_param {s t u dx : Int} (ht : 0 < t) (hs : 0 ≤ s) (hst : s ≤ t) (h : t * u ≤ s * dx) :
    ¬ (0 < u ∧ dx < u) := by
  rintro ⟨hu, hd⟩
  have f1 := mle' (a := u) (by omega) hst
  have f3 := mpp ht hu
  rcases Int.lt_or_eq_of_le hs with hs' | hs'
  · have f2 := mlt hs' hd
    omega
  · subst hs'; simp at h; omega

theorem sep_of_param' {s t u dx : Int} (ht : 0 < t) (hs : 0 ≤ s) (hst : s ≤ t) (h : s * dx ≤ t * u) :
    ¬ (u < 0 ∧ u < dx) := by
  rintro ⟨hu, hd⟩
  have f1 := mle' (a := -u) (by omega) hst
  simp only [Int.mul_neg] at f1
  have f3 := mpn ht hu
  rcases Int.lt_or_eq_of_le hs with hs' | hs'
  · have f2 := mlt hs' hd
    omega
  · subst hs'; simp at h; omega

/-- a common point excludes every separating axis -/
theorem paramO_meets {u0 u1 a0 a1 dx dy : Int} (h : ParamO u0 u1 a0 a1 dx dy) : MeetsO u0 u1 a0 a1 dx dy := by
  obtain ⟨s, t, ht, hs, hst, h1, h2, h3, h4⟩ := h
  unfold MeetsO AllSame
  refine ⟨sep_of_param ht hs hst h1, sep_of_param' ht hs hst h2, sep_of_param ht hs hst h3,
    sep_of_param' ht hs hst h4, ?_⟩
  have e00 : t * (u0 * dy - a0 * dx) = (t * u0 - s * dx) * dy - (t * a0 - s * dy) * dx := by grind
  have e10 : t * (u1 * dy - a0 * dx) = (t * u1 - s * dx) * dy - (t * a0 - s * dy) * dx := by grind
  have e11 : t * (u1 * dy - a1 * dx) = (t * u1 - s * dx) * dy - (t * a1 - s * dy) * dx := by grind
  have e01 : t * (u0 * dy - a1 * dx) = (t * u0 - s * dx) * dy - (t * a1 - s * dy) * dx := by grind
  have s1 := msgn (t * u0 - s * dx) dy
  have s2 := msgn (t * u1 - s * dx) dy
  have s3 := msgn (t * a0 - s * dy) dx
  have s4 := msgn (t * a1 - s * dy) dx
  have p00 := mul_pos_sign (x := u0 * dy - a0 * dx) ht
  have p10 := mul_pos_sign (x := u1 * dy - a0 * dx) ht
  have p11 := mul_pos_sign (x := u1 * dy - a1 * dx) ht
  have p01 := mul_pos_sign (x := u0 * dy - a1 * dx) ht
  have c00 := Int.mul_comm t (u0 * dy - a0 * dx)
  have c10 := Int.mul_comm t (u1 * dy - a0 * dx)
  have c11 := Int.mul_comm t (u1 * dy - a1 * dx)
  have c01 := Int.mul_comm t (u0 * dy - a1 * dx)
  have n00 := mnp (a := u0 * dy - a0 * dx) (b := t)
  have n10 := mnp (a := u1 * dy - a0 * dx) (b := t)
  have n11 := mnp (a := u1 * dy - a1 * dx) (b := t)
  have n01 := mnp (a := u0 * dy - a1 * dx) (b := t)
  by_cases hx : 0 ≤ dx <;> by_cases hy : 0 ≤ dy
  · have := s2.1 (by omega) hy; have := s3.2.2.1 (by omega) hx
    have := s1.2.2.1 (by omega) hy; have := s4.1 (by omega) hx
    rintro (⟨_, g, _, g'⟩ | ⟨_, g, _, g'⟩)
    · have := p01.2.mpr g'; omega
    · have := n10 g ht; omega
  · have := s1.2.2.2 (by omega) (by omega); have := s3.2.2.1 (by omega) hx
    have := s2.2.1 (by omega) (by omega); have := s4.1 (by omega) hx
    rintro (⟨g, _, g', _⟩ | ⟨g, _, g', _⟩)
    · have := p11.2.mpr g'; omega
    · have := n00 g ht; omega
  · have := s2.1 (by omega) hy; have := s4.2.1 (by omega) (by omega)
    have := s1.2.2.1 (by omega) hy; have := s3.2.2.2 (by omega) (by omega)
    rintro (⟨g, _, g', _⟩ | ⟨g, _, g', _⟩)
    · have := p00.2.mpr g; omega
    · have := n11 g' ht; omega
  · have := s1.2.2.2 (by omega) (by omega); have := s4.2.1 (by omega) (by omega)
    have := s2.2.1 (by omega) (by omega); have := s3.2.2.2 (by omega) (by omega)
    rintro (⟨_, g, _, g'⟩ | ⟨_, g, _, g'⟩)
    · have := p10.2.mpr g; omega
    · have := n01 g' ht; omega

/-- hitting an edge `{c} × [a0, a1]` with `u0 ≤ c ≤ u1` yields a common point -/
theorem hitO_param {u0 u1 a0 a1 c dx dy : Int} (ha : a0 < a1) (hc0 : u0 ≤ c) (hc1 : c ≤ u1)
    (h : HitO c a0 a1 dx dy) : ParamO u0 u1 a0 a1 dx dy := by
  rcases h with ⟨h1, _, h3, h4⟩ | ⟨_, h2, h3, h4⟩ | ⟨hs, hw⟩
  · exact ⟨0, 1, by omega, by omega, by omega, by omega, by omega, by omega, by omega⟩
  · exact ⟨1, 1, by omega, by omega, by omega, by omega, by omega, by omega, by omega⟩
  · unfold WOpp at hw
    rcases hs with ⟨p1, p2⟩ | ⟨p1, p2⟩
    · have hdx : 0 < dx := by omega
      have f0 := mlt' hdx ha
      have f1 := mle (a := dx) (by omega) hc0
      have f2 := mle (a := dx) (by omega) hc1
      have c1 := Int.mul_comm dx c
      have c2 := Int.mul_comm dx a0
      have c3 := Int.mul_comm dx a1
      exact ⟨c, dx, hdx, by omega, by omega, by omega, by omega, by omega, by omega⟩
    · have hdx : 0 < -dx := by omega
      have f0 := mlt' hdx ha
      have f1 := mle (a := -dx) (by omega) hc0
      have f2 := mle (a := -dx) (by omega) hc1
      simp only [Int.neg_mul, Int.mul_neg] at f0 f1 f2
      have c1 := Int.mul_comm dx c
      have c2 := Int.mul_comm dx a0
      have c3 := Int.mul_comm dx a1
      refine ⟨-c, -dx, hdx, by omega, by omega, ?_, ?_, ?_, ?_⟩ <;> simp only [Int.neg_mul] <;> omega

/-- if no axis separates them, segment and rectangle have a common point -/
theorem meetsO_param {u0 u1 a0 a1 dx dy : Int} (hu : u0 < u1) (ha : a0 < a1) (M : MeetsO u0 u1 a0 a1 dx dy) :
    ParamO u0 u1 a0 a1 dx dy := by
  have three : ∀ {c1 c2 c3 : Int}, (HitO c1 a0 a1 dx dy ∨ (0 < a0 ∧ HitO a0 u0 u1 dy dx) ∨ HitO a1 u0 u1 dy dx) →
      u0 ≤ c1 → c1 ≤ u1 → ParamO u0 u1 a0 a1 dx dy := by
    intro c1 _ _ h h1 h2
    rcases h with h | ⟨_, h⟩ | h
    · exact hitO_param ha h1 h2 h
    · exact paramO_transpose.mp (hitO_param hu (by omega) (by omega) h)
    · exact paramO_transpose.mp (hitO_param hu (by omega) (by omega) h)
  have threeT : ∀ {c1 : Int}, (HitO c1 u0 u1 dy dx ∨ (0 < u0 ∧ HitO u0 a0 a1 dx dy) ∨ HitO u1 a0 a1 dx dy) →
      a0 ≤ c1 → c1 ≤ a1 → ParamO u0 u1 a0 a1 dx dy := by
    intro c1 h h1 h2
    rcases h with h | ⟨_, h⟩ | h
    · exact paramO_transpose.mp (hitO_param hu h1 h2 h)
    · exact hitO_param ha (by omega) (by omega) h
    · exact hitO_param ha (by omega) (by omega) h
  by_cases h1 : 0 < u0
  · exact three (c2 := 0) (c3 := 0) ((low_iff hu ha (by omega) (by omega)).mpr M) (by omega) (by omega)
  · by_cases h2 : u1 < 0
    · exact three (c2 := 0) (c3 := 0) ((high_iff hu ha (by omega) (by omega)).mpr M) (by omega) (by omega)
    · by_cases h3 : 0 < a0
      · exact threeT ((lowT_iff hu ha (by omega) (by omega)).mpr M) (by omega) (by omega)
      · by_cases h4 : a1 < 0
        · exact threeT ((highT_iff hu ha (by omega) (by omega)).mpr M) (by omega) (by omega)
        · exact ⟨0, 1, by omega, by omega, by omega, by omega, by omega, by omega, by omega⟩

/-- **`Meets` is the existence of a common point** of the closed segment and the closed (non-empty) rectangle. -/
theorem meets_iff_param {r : Rect} (hw : r.left < r.right) (hh : r.top < r.bottom) (p q : Pt) :
    Meets r p q ↔ MeetsParam r p q := by
  have bridge : MeetsParam r p q ↔
      ParamO (r.left - p.x) (r.right - p.x) (r.top - p.y) (r.bottom - p.y) (q.x - p.x) (q.y - p.y) := by
    unfold MeetsParam ParamO
    constructor <;> rintro ⟨s, t, h1, h2, h3, h4, h5, h6, h7⟩ <;>
      refine ⟨s, t, h1, h2, h3, ?_, ?_, ?_, ?_⟩ <;>
      simp only [Int.mul_sub] at * <;> omega
  rw [bridge]
  unfold Meets
  exact ⟨meetsO_param (by omega) (by omega), paramO_meets⟩

end Clipper.Lemmas.RLV
