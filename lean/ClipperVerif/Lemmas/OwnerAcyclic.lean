/-
The owner graph of an outrec table: reachability, acyclicity, soundness of `IsValidOwner`,
preservation of acyclicity by the three kinds of owner update, and fuel sufficiency for the owner-chain walks.
-/
import ClipperVerif.Model.Owner
namespace Clipper.Model.Owner
open Clipper

/-- `Reach T j k`: `k` is on the owner chain of `j` (reflexive) -/
inductive Reach (T : Table) : Nat → Nat → Prop
  | refl (j : Nat) : Reach T j j
  | step {j k o : Nat} {r : OutRec} : T[j]? = some r → r.owner = some o → Reach T o k → Reach T j k

/-- `ReachP T j k`: `k` is on the owner chain of `j` after at least one step -/
def ReachP (T : Table) (j k : Nat) : Prop :=
  ∃ (r : OutRec) (o : Nat), T[j]? = some r ∧ r.owner = some o ∧ Reach T o k

/-- `rank` strictly decreases along every owner link -/
def RankOK (T : Table) (rank : Nat → Nat) : Prop :=
  ∀ (j : Nat) (r : OutRec) (o : Nat), T[j]? = some r → r.owner = some o → rank o < rank j

/-- The owner graph has no cycle. -/
def Acyclic (T : Table) : Prop := ∃ rank : Nat → Nat, RankOK T rank

/-- every stored owner index is an index of the table -/
def OwnersInRange (T : Table) : Prop :=
  ∀ (j : Nat) (r : OutRec) (o : Nat), T[j]? = some r → r.owner = some o → o < T.size

theorem Reach.trans {T : Table} {a b c : Nat} (h1 : Reach T a b) (h2 : Reach T b c) : Reach T a c := by
  induction h1 with
  | refl => exact h2
  | step hj ho _ ih => exact Reach.step hj ho (ih h2)

theorem Reach.tail {T : Table} {a b o : Nat} {r : OutRec} (h1 : Reach T a b) (hb : T[b]? = some r)
    (ho : r.owner = some o) : Reach T a o :=
  h1.trans (Reach.step hb ho (Reach.refl o))

theorem Reach.rank_le {T : Table} {rank : Nat → Nat} (hr : RankOK T rank) {a b : Nat} (h : Reach T a b) :
    rank b ≤ rank a := by
  induction h with
  | refl => exact Nat.le_refl _
  | step hj ho _ ih => have := hr _ _ _ hj ho; omega

theorem ReachP.rank_lt {T : Table} {rank : Nat → Nat} (hr : RankOK T rank) {a b : Nat} (h : ReachP T a b) :
    rank b < rank a := by
  obtain ⟨r, o, hj, ho, h⟩ := h
  have := hr _ _ _ hj ho
  have := h.rank_le hr
  omega

theorem Reach.cases_head {T : Table} {a b : Nat} (h : Reach T a b) : a = b ∨ ReachP T a b := by
  cases h with
  | refl => exact Or.inl rfl
  | step hj ho h => exact Or.inr ⟨_, _, hj, ho, h⟩

theorem ReachP.reach {T : Table} {a b : Nat} (h : ReachP T a b) : Reach T a b := by
  obtain ⟨r, o, hj, ho, h⟩ := h
  exact Reach.step hj ho h

theorem ReachP.trans_reach {T : Table} {a b c : Nat} (h1 : ReachP T a b) (h2 : Reach T b c) : ReachP T a c := by
  obtain ⟨r, o, hj, ho, h⟩ := h1
  exact ⟨r, o, hj, ho, h.trans h2⟩

theorem Acyclic.not_reachP_self {T : Table} (h : Acyclic T) (a : Nat) : ¬ ReachP T a a := by
  obtain ⟨rank, hr⟩ := h
  intro hp
  have := hp.rank_lt hr
  omega

/-- if every owner link of `T'` is a non-empty owner path of `T`, acyclicity carries over (same rank) -/
theorem RankOK.of_edges {T T' : Table} {rank : Nat → Nat} (hr : RankOK T rank)
    (h : ∀ (j : Nat) (r' : OutRec) (o : Nat), T'[j]? = some r' → r'.owner = some o → ReachP T j o) : RankOK T' rank :=
  fun j r' o hj ho => (h j r' o hj ho).rank_lt hr

theorem Acyclic.of_edges {T T' : Table} (hA : Acyclic T)
    (h : ∀ (j : Nat) (r' : OutRec) (o : Nat), T'[j]? = some r' → r'.owner = some o → ReachP T j o) : Acyclic T' := by
  obtain ⟨rank, hr⟩ := hA
  exact ⟨rank, hr.of_edges h⟩

/-- a table whose records have the same owner fields -/
theorem Acyclic.of_same_owner {T T' : Table} (hA : Acyclic T)
    (h : ∀ (j : Nat) (r' : OutRec), T'[j]? = some r' → ∃ r : OutRec, T[j]? = some r ∧ r.owner = r'.owner) : Acyclic T' :=
  hA.of_edges (fun j r' o hj ho => by
    obtain ⟨r, hr, hro⟩ := h j r' hj
    exact ⟨r, o, hr, hro.trans ho, Reach.refl o⟩)

/-! ### `IsValidOwner` is sound -/

theorem isValidOwner_true {T : Table} {f i : Nat} {ot : Option Nat}
    (h : isValidOwner T f i ot = some true) : ∀ t, ot = some t → ¬ Reach T t i := by
  induction f generalizing ot with
  | zero => simp [isValidOwner] at h
  | succ f ih =>
    intro t hot
    subst hot
    simp only [isValidOwner] at h
    split at h
    · simp at h
    · rename_i hti
      split at h
      · simp at h
      · rename_i r hr
        intro hreach
        rcases hreach.cases_head with heq | ⟨r', o, hr', ho, hre⟩
        · exact hti heq
        · rw [hr] at hr'
          simp only [Option.some.injEq] at hr'
          subst hr'
          exact ih h o ho hre

theorem isValidOwner_false {T : Table} {f i : Nat} {ot : Option Nat}
    (h : isValidOwner T f i ot = some false) : ∃ t, ot = some t ∧ Reach T t i := by
  induction f generalizing ot with
  | zero => simp [isValidOwner] at h
  | succ f ih =>
    cases ot with
    | none => simp [isValidOwner] at h
    | some t =>
      simp only [isValidOwner] at h
      split at h
      · rename_i hti
        exact ⟨t, rfl, hti ▸ Reach.refl t⟩
      · split at h
        · simp at h
        · rename_i r hr
          obtain ⟨o, ho, hre⟩ := ih h
          exact ⟨t, rfl, Reach.step hr ho hre⟩

/-! ### owner updates preserve acyclicity -/

theorem getElem?_modify_some {T : Table} {i j : Nat} {g : OutRec → OutRec} {r' : OutRec}
    (h : (T.modify i g)[j]? = some r') :
    ∃ r, T[j]? = some r ∧ r' = if i = j then g r else r := by
  rw [Array.getElem?_modify] at h
  by_cases hij : i = j
  · simp only [hij, if_true] at h ⊢
    cases hT : T[j]? with
    | none => simp [hT] at h
    | some r => simp [hT] at h; exact ⟨r, rfl, h.symm⟩
  · simp only [hij, if_false] at h ⊢
    exact ⟨r', h, rfl⟩

theorem getElem?_lt' {T : Table} {j : Nat} {r : OutRec} (h : T[j]? = some r) : j < T.size := by
  rcases Nat.lt_or_ge j T.size with h' | h'
  · exact h'
  · simp [Array.getElem?_eq_none h'] at h

/-- `outrec->owner = split` guarded by `IsValidOwner(outrec, split)` -/
theorem Acyclic.set_valid {T : Table} (hA : Acyclic T) {i s : Nat} (hv : ¬ Reach T s i) :
    Acyclic (T.modify i (fun x => { x with owner := some s })) := by
  classical
  obtain ⟨rank, hr⟩ := hA
  refine ⟨fun j => if Reach T j i then rank j + rank s + 1 else rank j, ?_⟩
  intro j r' o hj ho
  obtain ⟨r, hTj, hr'⟩ := getElem?_modify_some hj
  by_cases hij : i = j
  · subst hij
    simp only [if_true] at hr'
    subst hr'
    simp only at ho
    simp only [Option.some.injEq] at ho
    subst ho
    simp only [if_neg hv, if_pos (Reach.refl i)]
    omega
  · simp only [if_neg hij] at hr'
    subst hr'
    have hlt := hr _ _ _ hTj ho
    by_cases hoi : Reach T o i
    · have hji : Reach T j i := Reach.step hTj ho hoi
      simp only [if_pos hoi, if_pos hji]
      omega
    · simp only [if_neg hoi]
      split <;> omega

/-- `outrec->owner = outrec->owner->owner` -/
theorem Acyclic.skip_owner {T : Table} (hA : Acyclic T) {i o : Nat} {ri ro : OutRec}
    (hi : T[i]? = some ri) (hio : ri.owner = some o) (ho : T[o]? = some ro) :
    Acyclic (T.modify i (fun x => { x with owner := ro.owner })) := by
  refine hA.of_edges ?_
  intro j r' o' hj ho'
  obtain ⟨r, hTj, hr'⟩ := getElem?_modify_some hj
  by_cases hij : i = j
  · subst hij
    simp only [if_true] at hr'
    subst hr'
    simp only at ho'
    rw [hi] at hTj
    simp only [Option.some.injEq] at hTj
    subst hTj
    exact ⟨_, o, hi, hio, Reach.step ho ho' (Reach.refl _)⟩
  · simp only [if_neg hij] at hr'
    subst hr'
    exact ⟨_, o', hTj, ho', Reach.refl _⟩

/-! ### fuel sufficiency for the owner-chain walks -/

theorem nodup_bounded_length {S : List Nat} {n : Nat} (hnd : S.Nodup) (hb : ∀ x ∈ S, x < n) : S.length ≤ n := by
  have : S ⊆ List.range n := fun x hx => List.mem_range.mpr (hb x hx)
  simpa using hnd.length_le_of_subset this

/-- auxiliary: walking the owner chain from `ot` with a visited set `S` of nodes of larger rank -/
theorem isValidOwner_fuel_aux {T : Table} {rank : Nat → Nat} (hr : RankOK T rank) (hO : OwnersInRange T) (i : Nat) :
    ∀ (n : Nat) (t : Nat), rank t = n → t < T.size → ∀ S : List Nat, S.Nodup → (∀ x ∈ S, x < T.size ∧ rank t < rank x) →
      isValidOwner T (T.size + 1 - S.length) i (some t) ≠ none := by
  intro n
  induction n using Nat.strongRecOn with
  | _ n ih =>
    intro t htn ht S hnd hS
    have hnd' : (t :: S).Nodup := by
      refine List.nodup_cons.mpr ⟨fun hmem => ?_, hnd⟩
      have := (hS t hmem).2
      omega
    have hlen : (t :: S).length ≤ T.size :=
      nodup_bounded_length hnd' (fun x hx => by
        rcases List.mem_cons.mp hx with h | h
        · exact h ▸ ht
        · exact (hS x h).1)
    simp only [List.length_cons] at hlen
    have hf : T.size + 1 - S.length = (T.size - S.length) + 1 := by omega
    rw [hf]
    simp only [isValidOwner]
    split
    · simp
    · have hTt : T[t]? = some T[t] := by simp [ht]
      rw [hTt]
      simp only
      cases hown : T[t].owner with
      | none =>
        have : T.size - S.length = (T.size - S.length - 1) + 1 := by omega
        rw [this]; simp [isValidOwner]
      | some o =>
        have hlt := hr _ _ _ hTt hown
        have ho := hO _ _ _ hTt hown
        have := ih (rank o) (by omega) o rfl ho (t :: S) hnd' (fun x hx => by
          rcases List.mem_cons.mp hx with h | h
          · subst h; exact ⟨ht, hlt⟩
          · exact ⟨(hS x h).1, by have := (hS x h).2; omega⟩)
        simp only [List.length_cons] at this
        have he : T.size + 1 - (S.length + 1) = T.size - S.length := by omega
        rw [he] at this
        exact this

/-- `IsValidOwner` terminates: on an acyclic table with in-range owners, `size + 1` iterations suffice. -/
theorem isValidOwner_fuel {T : Table} (hA : Acyclic T) (hO : OwnersInRange T) (i : Nat) (ot : Option Nat)
    (hot : ∀ t, ot = some t → t < T.size) : isValidOwner T (T.size + 1) i ot ≠ none := by
  obtain ⟨rank, hr⟩ := hA
  cases ot with
  | none => simp [isValidOwner]
  | some t =>
    have := isValidOwner_fuel_aux hr hO i (rank t) t rfl (hot t rfl) [] List.nodup_nil (by simp)
    simpa using this

theorem getRealOutRec_fuel_aux {T : Table} {rank : Nat → Nat} (hr : RankOK T rank) (hO : OwnersInRange T) :
    ∀ (n : Nat) (t : Nat), rank t = n → t < T.size → ∀ S : List Nat, S.Nodup → (∀ x ∈ S, x < T.size ∧ rank t < rank x) →
      getRealOutRec T (T.size + 1 - S.length) (some t) ≠ none := by
  intro n
  induction n using Nat.strongRecOn with
  | _ n ih =>
    intro t htn ht S hnd hS
    have hnd' : (t :: S).Nodup := by
      refine List.nodup_cons.mpr ⟨fun hmem => ?_, hnd⟩
      have := (hS t hmem).2
      omega
    have hlen : (t :: S).length ≤ T.size :=
      nodup_bounded_length hnd' (fun x hx => by
        rcases List.mem_cons.mp hx with h | h
        · exact h ▸ ht
        · exact (hS x h).1)
    simp only [List.length_cons] at hlen
    have hf : T.size + 1 - S.length = (T.size - S.length) + 1 := by omega
    rw [hf]
    simp only [getRealOutRec]
    have hTt : T[t]? = some T[t] := by simp [ht]
    rw [hTt]
    simp only
    split
    · simp
    · cases hown : T[t].owner with
      | none =>
        have : T.size - S.length = (T.size - S.length - 1) + 1 := by omega
        rw [this]; simp [getRealOutRec]
      | some o =>
        have hlt := hr _ _ _ hTt hown
        have ho := hO _ _ _ hTt hown
        have := ih (rank o) (by omega) o rfl ho (t :: S) hnd' (fun x hx => by
          rcases List.mem_cons.mp hx with h | h
          · subst h; exact ⟨ht, hlt⟩
          · exact ⟨(hS x h).1, by have := (hS x h).2; omega⟩)
        simp only [List.length_cons] at this
        have he : T.size + 1 - (S.length + 1) = T.size - S.length := by omega
        rw [he] at this
        exact this

/-- `GetRealOutRec` terminates: on an acyclic table with in-range owners, `size + 1` iterations suffice. -/
theorem getRealOutRec_fuel {T : Table} (hA : Acyclic T) (hO : OwnersInRange T) (ot : Option Nat)
    (hot : ∀ t, ot = some t → t < T.size) : getRealOutRec T (T.size + 1) ot ≠ none := by
  obtain ⟨rank, hr⟩ := hA
  cases ot with
  | none => simp [getRealOutRec]
  | some t =>
    have := getRealOutRec_fuel_aux hr hO (rank t) t rfl (hot t rfl) [] List.nodup_nil (by simp)
    simpa using this

end Clipper.Model.Owner
