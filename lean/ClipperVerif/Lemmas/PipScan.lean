/- PointInPolygon, semantic part: the cyclic fold `pipCyc` (Model/Geom.lean) over the polygon `f :: seq`
computes `Spec.pipEvenOdd`.  Core Lean only. -/
import ClipperVerif.Lemmas.GeomBasic
namespace Clipper.Lemmas.Geom
open Clipper Clipper.Model

/-! ### arithmetic: sign of `B*X + A*Y` -/

theorem d_pos_of {A B X Y : Int} (hA : 0 ≤ A) (hB : 0 < B) (hX : 0 < X) (hY : 0 < Y) : 0 < B * X + A * Y := by
  have h1 : 0 < B * X := Int.mul_pos hB hX
  have h2 : 0 ≤ A * Y := Int.mul_nonneg hA (Int.le_of_lt hY)
  omega

theorem d_neg_of {A B X Y : Int} (hA : 0 ≤ A) (hB : 0 < B) (hX : X < 0) (hY : Y < 0) : B * X + A * Y < 0 := by
  have h := d_pos_of (X := -X) (Y := -Y) hA hB (by omega) (by omega)
  have e : B * -X + A * -Y = -(B * X + A * Y) := by grind
  omega

theorem d_neg_of' {A B X Y : Int} (hA : A ≤ 0) (hB : B < 0) (hX : 0 < X) (hY : 0 < Y) : B * X + A * Y < 0 := by
  have h := d_pos_of (A := -A) (B := -B) (X := X) (Y := Y) (by omega) (by omega) hX hY
  have e : -B * X + -A * Y = -(B * X + A * Y) := by grind
  omega

theorem d_pos_of' {A B X Y : Int} (hA : A ≤ 0) (hB : B < 0) (hX : X < 0) (hY : Y < 0) : 0 < B * X + A * Y := by
  have h := d_pos_of (A := -A) (B := -B) (X := -X) (Y := -Y) (by omega) (by omega) (by omega) (by omega)
  have e : -B * -X + -A * -Y = B * X + A * Y := by grind
  omega

theorem mul_sign_pos {B X : Int} (hB : 0 < B) :
    (B * X < 0 ↔ X < 0) ∧ (B * X = 0 ↔ X = 0) ∧ (0 < B * X ↔ 0 < X) := by
  rcases Int.lt_trichotomy X 0 with h | h | h
  · have := Int.mul_neg_of_pos_of_neg hB h; omega
  · subst h; simp
  · have := Int.mul_pos hB h; omega

theorem mul_sign_neg {B X : Int} (hB : B < 0) :
    (B * X < 0 ↔ 0 < X) ∧ (B * X = 0 ↔ X = 0) ∧ (0 < B * X ↔ X < 0) := by
  rcases Int.lt_trichotomy X 0 with h | h | h
  · have := Int.mul_pos_of_neg_of_neg hB h; omega
  · subst h; simp
  · have := Int.mul_neg_of_neg_of_pos hB h; omega

/-! ### geometry -/

theorem crossProduct_eq_cross (a b p : Pt) : crossProduct a b p = cross a b p := by
  simp only [crossProduct, cross]; grind

/-- `cross a b p` as a combination of the horizontal offsets with the vertical offsets as weights -/
theorem cross_eq (a b p : Pt) :
    cross a b p = (b.y - p.y) * (a.x - p.x) + (p.y - a.y) * (b.x - p.x) := by
  simp only [cross]; grind

/-- left-ray counterpart of `Spec.crossing`: the edge `a → b` (half-open rule) crosses the horizontal line through
`p` strictly to the left of `p` -/
def lcross (p a b : Pt) : Bool :=
  (decide (a.y ≤ p.y ∧ p.y < b.y) && decide (cross a b p < 0)) ||
  (decide (b.y ≤ p.y ∧ p.y < a.y) && decide (0 < cross a b p))

/-- right-ray crossing: `Spec.crossing p a b ≠ 0` -/
def rcross (p a b : Pt) : Bool :=
  (decide (a.y ≤ p.y ∧ p.y < b.y) && decide (0 < cross a b p)) ||
  (decide (b.y ≤ p.y ∧ p.y < a.y) && decide (cross a b p < 0))

def b2i (b : Bool) : Int := if b then 1 else 0

theorem tog_b2i (L t : Bool) : (if t then 1 - b2i L else b2i L) = b2i (L ^^ t) := by
  cases L <;> cases t <;> rfl


/-! ### the eight kinds of edge `v → w` relative to the horizontal line through `p`
("above" = smaller y, as in the C++ which uses screen coordinates) -/

macro "edge_close" : tactic =>
  `(tactic| (rw [Bool.eq_iff_iff]; simp; omega))

theorem edge_above_below {p v w : Pt} (hv : v.y < p.y) (hw : p.y < w.y) :
    (p.x < w.x ∧ p.x < v.x → 0 < cross v w p) ∧ (p.x > v.x ∧ p.x > w.x → cross v w p < 0) ∧
    onSeg p v w = decide (cross v w p = 0) ∧ lcross p v w = decide (cross v w p < 0) := by
  have hd := cross_eq v w p
  have s1 : p.x < w.x ∧ p.x < v.x → 0 < cross v w p := by
    intro h; rw [hd]; exact d_pos_of (by omega) (by omega) (by omega) (by omega)
  have s2 : p.x > v.x ∧ p.x > w.x → cross v w p < 0 := by
    intro h; rw [hd]; exact d_neg_of (by omega) (by omega) (by omega) (by omega)
  refine ⟨s1, s2, ?_, ?_⟩
  · simp only [onSeg]
    generalize cross v w p = d at *
    edge_close
  · simp only [lcross]
    generalize cross v w p = d at *
    edge_close

theorem edge_below_above {p v w : Pt} (hv : p.y < v.y) (hw : w.y < p.y) :
    (p.x < w.x ∧ p.x < v.x → cross v w p < 0) ∧ (p.x > v.x ∧ p.x > w.x → 0 < cross v w p) ∧
    onSeg p v w = decide (cross v w p = 0) ∧ lcross p v w = decide (0 < cross v w p) := by
  have hd := cross_eq v w p
  have s1 : p.x < w.x ∧ p.x < v.x → cross v w p < 0 := by
    intro h; rw [hd]; exact d_neg_of' (by omega) (by omega) (by omega) (by omega)
  have s2 : p.x > v.x ∧ p.x > w.x → 0 < cross v w p := by
    intro h; rw [hd]; exact d_pos_of' (by omega) (by omega) (by omega) (by omega)
  refine ⟨s1, s2, ?_, ?_⟩
  · simp only [onSeg]
    generalize cross v w p = d at *
    edge_close
  · simp only [lcross]
    generalize cross v w p = d at *
    edge_close

/-- `v` on the line (not at `p`), `w` strictly below -/
theorem edge_on_below {p v w : Pt} (hv : v.y = p.y) (hx : v.x ≠ p.x) (hw : p.y < w.y) :
    (cross v w p < 0 ↔ v.x < p.x) ∧ cross v w p ≠ 0 ∧
    onSeg p v w = false ∧ lcross p v w = decide (v.x < p.x) := by
  have hd := cross_eq v w p
  have hA : p.y - v.y = 0 := by omega
  rw [hA, Int.zero_mul, Int.add_zero] at hd
  have hs := mul_sign_pos (B := w.y - p.y) (X := v.x - p.x) (by omega)
  rw [← hd] at hs
  have s1 : cross v w p < 0 ↔ v.x < p.x := by omega
  have s2 : cross v w p ≠ 0 := by omega
  refine ⟨s1, s2, ?_, ?_⟩
  · simp only [onSeg]
    generalize cross v w p = d at *
    edge_close
  · simp only [lcross]
    generalize cross v w p = d at *
    edge_close

/-- `v` on the line (not at `p`), `w` strictly above -/
theorem edge_on_above {p v w : Pt} (hv : v.y = p.y) (hx : v.x ≠ p.x) (hw : w.y < p.y) :
    (cross v w p < 0 ↔ p.x < v.x) ∧ cross v w p ≠ 0 ∧
    onSeg p v w = false ∧ lcross p v w = false := by
  have hd := cross_eq v w p
  have hA : p.y - v.y = 0 := by omega
  rw [hA, Int.zero_mul, Int.add_zero] at hd
  have hs := mul_sign_neg (B := w.y - p.y) (X := v.x - p.x) (by omega)
  rw [← hd] at hs
  have s1 : cross v w p < 0 ↔ p.x < v.x := by omega
  have s2 : cross v w p ≠ 0 := by omega
  refine ⟨s1, s2, ?_, ?_⟩
  · simp only [onSeg]
    generalize cross v w p = d at *
    edge_close
  · simp only [lcross]
    generalize cross v w p = d at *
    edge_close

/-- `v` strictly above, `w` on the line -/
theorem edge_above_on {p v w : Pt} (hv : v.y < p.y) (hw : w.y = p.y) :
    onSeg p v w = decide (w.x = p.x) ∧ lcross p v w = false := by
  have hd := cross_eq v w p
  have hB : w.y - p.y = 0 := by omega
  rw [hB, Int.zero_mul, Int.zero_add] at hd
  have hs := mul_sign_pos (B := p.y - v.y) (X := w.x - p.x) (by omega)
  rw [← hd] at hs
  refine ⟨?_, ?_⟩
  · simp only [onSeg]
    generalize cross v w p = d at *
    edge_close
  · simp only [lcross]
    generalize cross v w p = d at *
    edge_close

/-- `v` strictly below, `w` on the line -/
theorem edge_below_on {p v w : Pt} (hv : p.y < v.y) (hw : w.y = p.y) :
    onSeg p v w = decide (w.x = p.x) ∧ lcross p v w = decide (w.x < p.x) := by
  have hd := cross_eq v w p
  have hB : w.y - p.y = 0 := by omega
  rw [hB, Int.zero_mul, Int.zero_add] at hd
  have hs := mul_sign_neg (B := p.y - v.y) (X := w.x - p.x) (by omega)
  rw [← hd] at hs
  refine ⟨?_, ?_⟩
  · simp only [onSeg]
    generalize cross v w p = d at *
    edge_close
  · simp only [lcross]
    generalize cross v w p = d at *
    edge_close

/-- both on the line -/
theorem edge_on_on {p v w : Pt} (hv : v.y = p.y) (hw : w.y = p.y) :
    onSeg p v w = decide (min v.x w.x ≤ p.x ∧ p.x ≤ max v.x w.x) ∧ lcross p v w = false := by
  have hd := cross_eq v w p
  have hA : p.y - v.y = 0 := by omega
  have hB : w.y - p.y = 0 := by omega
  rw [hA, hB, Int.zero_mul, Int.zero_mul, Int.add_zero] at hd
  refine ⟨?_, ?_⟩
  · simp only [onSeg]
    generalize cross v w p = d at *
    edge_close
  · simp only [lcross]
    generalize cross v w p = d at *
    edge_close

/-- both strictly on the same side -/
theorem edge_same_side {p v w : Pt} (h : (v.y < p.y ∧ w.y < p.y) ∨ (p.y < v.y ∧ p.y < w.y)) :
    onSeg p v w = false ∧ lcross p v w = false := by
  refine ⟨?_, ?_⟩
  · simp only [onSeg]
    generalize cross v w p = d at *
    edge_close
  · simp only [lcross]
    generalize cross v w p = d at *
    edge_close

/-! ### one step of the fold -/

def Inv (p v : Pt) (ia : Bool) (val : Int) (L : Bool) : Prop :=
  (v.y < p.y → ia = true ∧ val = b2i L) ∧
  (p.y < v.y → ia = false ∧ val = b2i L) ∧
  (v.y = p.y → v.x ≠ p.x ∧ val = b2i (L ^^ (!ia && decide (v.x < p.x))))

/-- what `scanStep` does, by the position of `w` -/
theorem scanStep_same {cp} {p v w : Pt} {ia : Bool} {val : Int}
    (h : if ia then w.y < p.y else w.y > p.y) : scanStep cp p v w ia val = some (ia, val) := by
  simp [scanStep, h]

theorem scanStep_on {cp} {p v w : Pt} {ia : Bool} {val : Int} (h : w.y = p.y) :
    scanStep cp p v w ia val =
      if w.x = p.x ∨ (w.y = v.y ∧ (decide (p.x < v.x) != decide (p.x < w.x))) then none else some (ia, val) := by
  have h1 : ¬ (if ia then w.y < p.y else w.y > p.y) := by cases ia <;> simp <;> omega
  rw [scanStep, if_neg h1, vertexStep, if_pos h]
  by_cases c : w.x = p.x ∨ (w.y = v.y ∧ (decide (p.x < v.x) != decide (p.x < w.x)))
  · rw [if_pos c, if_pos c]
  · rw [if_neg c, if_neg c]

/-- crossing from above to below: with the sign facts of the edge the x-shortcuts agree with the cross product -/
theorem scanStep_down {p v w : Pt} {val : Int} (hw : p.y < w.y)
    (s1 : p.x < w.x ∧ p.x < v.x → 0 < cross v w p) (s2 : p.x > v.x ∧ p.x > w.x → cross v w p < 0) :
    scanStep crossProduct p v w true val =
      if cross v w p = 0 then none else some (false, if cross v w p < 0 then 1 - val else val) := by
  have h1 : ¬ (w.y < p.y) := by omega
  have h2 : ¬ (w.y = p.y) := by omega
  simp only [scanStep, vertexStep, crossProduct_eq_cross, if_true, h1, h2, if_false]
  generalize cross v w p = d at *
  by_cases c1 : p.x < w.x ∧ p.x < v.x
  · have := s1 c1
    simp only [c1, and_self, if_true]
    have h3 : ¬ d = 0 := by omega
    have h4 : ¬ d < 0 := by omega
    simp [h3, h4]
  · by_cases c2 : p.x > v.x ∧ p.x > w.x
    · have := s2 c2
      have h3 : ¬ d = 0 := by omega
      have h4 : d < 0 := by omega
      simp [c1, c2, h3, h4]
    · simp only [c1, c2, if_false]
      by_cases h3 : d = 0
      · simp [h3]
      · by_cases h4 : d < 0 <;> simp [h3, h4]

theorem scanStep_up {p v w : Pt} {val : Int} (hw : w.y < p.y)
    (s1 : p.x < w.x ∧ p.x < v.x → cross v w p < 0) (s2 : p.x > v.x ∧ p.x > w.x → 0 < cross v w p) :
    scanStep crossProduct p v w false val =
      if cross v w p = 0 then none else some (true, if 0 < cross v w p then 1 - val else val) := by
  have h1 : ¬ (w.y > p.y) := by omega
  have h2 : ¬ (w.y = p.y) := by omega
  simp only [scanStep, vertexStep, crossProduct_eq_cross, h1, h2, if_false]
  generalize cross v w p = d at *
  by_cases c1 : p.x < w.x ∧ p.x < v.x
  · have := s1 c1
    have h3 : ¬ d = 0 := by omega
    have h4 : ¬ 0 < d := by omega
    simp [c1, h3, h4]
  · by_cases c2 : p.x > v.x ∧ p.x > w.x
    · have := s2 c2
      have h3 : ¬ d = 0 := by omega
      have h4 : 0 < d := by omega
      have h5 : ¬ d < 0 := by omega
      simp [c1, c2, h3, h4]
    · simp only [c1, c2, if_false]
      by_cases h3 : d = 0
      · simp [h3]
      · by_cases h4 : d < 0
        · have : ¬ 0 < d := by omega
          simp [h3, h4, this]
        · have : 0 < d := by omega
          simp [h3, h4, this]

theorem step_ok {p v w : Pt} {ia : Bool} {val : Int} {L : Bool} (hinv : Inv p v ia val L) :
    match scanStep crossProduct p v w ia val with
    | none => onSeg p v w = true
    | some (ia', val') => onSeg p v w = false ∧ Inv p w ia' val' (L ^^ lcross p v w) := by
  obtain ⟨i1, i2, i3⟩ := hinv
  rcases Int.lt_trichotomy w.y p.y with hw | hw | hw
  · -- w strictly above
    cases ia with
    | true =>
      rw [scanStep_same (by simpa using hw)]
      have hv : ¬ p.y < v.y := fun h => by simpa using (i2 h).1
      rcases Int.lt_or_le v.y p.y with hv1 | hv1
      · obtain ⟨e1, e2⟩ := edge_same_side (p := p) (v := v) (w := w) (Or.inl ⟨hv1, hw⟩)
        refine ⟨e1, ?_, ?_, ?_⟩ <;> intro h
        · rw [e2]; simpa using i1 hv1
        · omega
        · omega
      · have hv2 : v.y = p.y := by omega
        obtain ⟨hx, hval⟩ := i3 hv2
        obtain ⟨_, _, e1, e2⟩ := edge_on_above hv2 hx hw
        refine ⟨e1, ?_, ?_, ?_⟩ <;> intro h
        · rw [e2]; simpa using hval
        · omega
        · omega
    | false =>
      have hv : ¬ v.y < p.y := fun h => by simpa using (i1 h).1
      rcases Int.lt_or_le p.y v.y with hv1 | hv1
      · obtain ⟨s1, s2, e1, e2⟩ := edge_below_above hv1 hw
        rw [scanStep_up hw s1 s2]
        obtain ⟨_, hval⟩ := i2 hv1
        by_cases hd : cross v w p = 0
        · rw [if_pos hd]; simp [e1, hd]
        · rw [if_neg hd]
          refine ⟨by simp [e1, hd], ?_, ?_, ?_⟩ <;> intro h
          · refine ⟨rfl, ?_⟩
            rw [e2, hval, ← tog_b2i]; simp
          · omega
          · omega
      · have hv2 : v.y = p.y := by omega
        obtain ⟨hx, hval⟩ := i3 hv2
        obtain ⟨s1, s2, e1, e2⟩ := edge_on_above hv2 hx hw
        have t1 : p.x < w.x ∧ p.x < v.x → cross v w p < 0 := by
          generalize cross v w p = d at *; omega
        have t2 : p.x > v.x ∧ p.x > w.x → 0 < cross v w p := by
          generalize cross v w p = d at *; omega
        rw [scanStep_up hw t1 t2, if_neg s2]
        refine ⟨e1, ?_, ?_, ?_⟩ <;> intro h
        · refine ⟨rfl, ?_⟩
          have h3 : (0 < cross v w p) ↔ v.x < p.x := by
            generalize cross v w p = d at *; omega
          rw [e2, hval]
          simp only [Bool.not_false, Bool.true_and, Bool.xor_false]
          by_cases c : v.x < p.x
          · rw [if_pos (h3.mpr c)]; cases L <;> simp [c, b2i]
          · rw [if_neg (fun h => c (h3.mp h))]; cases L <;> simp [c, b2i]
        · omega
        · omega
  · -- w on the line
    rw [scanStep_on hw]
    rcases Int.lt_trichotomy v.y p.y with hv1 | hv1 | hv1
    · obtain ⟨hia, hval⟩ := i1 hv1
      obtain ⟨e1, e2⟩ := edge_above_on hv1 hw
      by_cases c : w.x = p.x
      · rw [if_pos (Or.inl c), e1]; simp [c]
      · rw [if_neg (by rintro (h | ⟨h, _⟩) <;> omega)]
        refine ⟨by rw [e1]; simp [c], ?_, ?_, ?_⟩ <;> intro h
        · omega
        · omega
        · subst hia; exact ⟨c, by rw [e2, hval]; simp⟩
    · obtain ⟨hx, hval⟩ := i3 hv1
      obtain ⟨e1, e2⟩ := edge_on_on hv1 hw
      by_cases c : w.x = p.x ∨ (w.y = v.y ∧ (decide (p.x < v.x) != decide (p.x < w.x)))
      · rw [if_pos c, e1]
        simp at c ⊢; omega
      · rw [if_neg c]
        simp at c
        refine ⟨by rw [e1]; simp; omega, ?_, ?_, ?_⟩ <;> intro h
        · omega
        · omega
        · refine ⟨c.1, ?_⟩
          have h3 : decide (v.x < p.x) = decide (w.x < p.x) := by
            rw [Bool.eq_iff_iff]; simp; omega
          rw [e2, hval, h3]; simp
    · obtain ⟨hia, hval⟩ := i2 hv1
      obtain ⟨e1, e2⟩ := edge_below_on hv1 hw
      by_cases c : w.x = p.x
      · rw [if_pos (Or.inl c), e1]; simp [c]
      · rw [if_neg (by rintro (h | ⟨h, _⟩) <;> omega)]
        refine ⟨by rw [e1]; simp [c], ?_, ?_, ?_⟩ <;> intro h
        · omega
        · omega
        · subst hia; refine ⟨c, ?_⟩
          rw [e2, hval]; cases L <;> cases decide (w.x < p.x) <;> rfl
  · -- w strictly below
    cases ia with
    | false =>
      rw [scanStep_same (by simpa using hw)]
      have hv : ¬ v.y < p.y := fun h => by simpa using (i1 h).1
      rcases Int.lt_or_le p.y v.y with hv1 | hv1
      · obtain ⟨e1, e2⟩ := edge_same_side (p := p) (v := v) (w := w) (Or.inr ⟨hv1, hw⟩)
        refine ⟨e1, ?_, ?_, ?_⟩ <;> intro h
        · omega
        · rw [e2]; simpa using i2 hv1
        · omega
      · have hv2 : v.y = p.y := by omega
        obtain ⟨hx, hval⟩ := i3 hv2
        obtain ⟨_, _, e1, e2⟩ := edge_on_below hv2 hx hw
        refine ⟨e1, ?_, ?_, ?_⟩ <;> intro h
        · omega
        · rw [e2]; simpa using hval
        · omega
    | true =>
      have hv : ¬ p.y < v.y := fun h => by simpa using (i2 h).1
      rcases Int.lt_or_le v.y p.y with hv1 | hv1
      · obtain ⟨s1, s2, e1, e2⟩ := edge_above_below hv1 hw
        rw [scanStep_down hw s1 s2]
        obtain ⟨_, hval⟩ := i1 hv1
        by_cases hd : cross v w p = 0
        · rw [if_pos hd]; simp [e1, hd]
        · rw [if_neg hd]
          refine ⟨by simp [e1, hd], ?_, ?_, ?_⟩ <;> intro h
          · omega
          · refine ⟨rfl, ?_⟩
            rw [e2, hval, ← tog_b2i]; simp
          · omega
      · have hv2 : v.y = p.y := by omega
        obtain ⟨hx, hval⟩ := i3 hv2
        obtain ⟨s1, s2, e1, e2⟩ := edge_on_below hv2 hx hw
        have t1 : p.x < w.x ∧ p.x < v.x → 0 < cross v w p := by
          generalize cross v w p = d at *; omega
        have t2 : p.x > v.x ∧ p.x > w.x → cross v w p < 0 := by
          generalize cross v w p = d at *; omega
        rw [scanStep_down hw t1 t2, if_neg s2]
        refine ⟨e1, ?_, ?_, ?_⟩ <;> intro h
        · omega
        · refine ⟨rfl, ?_⟩
          rw [e2, hval]
          simp only [Bool.not_true, Bool.false_and, Bool.xor_false]
          by_cases c : v.x < p.x
          · rw [if_pos (s1.mpr c)]; cases L <;> simp [c, b2i]
          · rw [if_neg (fun h => c (s1.mp h))]; cases L <;> simp [c, b2i]
        · omega



/-! ### folding the step along a chain -/

/-- parity of left crossings along the chain `v, seq` -/
def lpar (p : Pt) : Pt → List Pt → Bool
  | _, [] => false
  | v, w :: r => lcross p v w ^^ lpar p w r

/-- parity of right crossings (the Spec's ray) along the chain -/
def rpar (p : Pt) : Pt → List Pt → Bool
  | _, [] => false
  | v, w :: r => rcross p v w ^^ rpar p w r

theorem lpar_append (p v : Pt) (x y : List Pt) : lpar p v (x ++ y) = (lpar p v x ^^ lpar p (lastOf v x) y) := by
  induction x generalizing v with
  | nil => simp [lpar]
  | cons c r ih => simp [lpar, ih]

theorem scan_ok {p : Pt} : ∀ (seq : List Pt) (v : Pt) (ia : Bool) (val : Int) (L : Bool), Inv p v ia val L →
    match pipScan crossProduct p v ia val seq with
    | none => ∃ e ∈ chain v seq, onSeg p e.1 e.2 = true
    | some (l, ia', val') => l = lastOf v seq ∧ (∀ e ∈ chain v seq, onSeg p e.1 e.2 = false) ∧
        Inv p l ia' val' (L ^^ lpar p v seq)
  | [], v, ia, val, L, h => by simpa [pipScan, lpar] using h
  | w :: r, v, ia, val, L, h => by
    have hs := step_ok (w := w) h
    rw [pipScan]
    cases hstep : scanStep crossProduct p v w ia val with
    | none =>
      rw [hstep] at hs
      exact ⟨(v, w), by simp, hs⟩
    | some st =>
      obtain ⟨ia', val'⟩ := st
      rw [hstep] at hs
      obtain ⟨hon, hinv⟩ := hs
      have ih := scan_ok r w ia' val' _ hinv
      simp only
      cases hrec : pipScan crossProduct p w ia' val' r with
      | none =>
        rw [hrec] at ih
        obtain ⟨e, he, heon⟩ := ih
        exact ⟨e, by simp [he], heon⟩
      | some res =>
        obtain ⟨l, ia2, val2⟩ := res
        rw [hrec] at ih
        obtain ⟨hl, hall, hinv2⟩ := ih
        refine ⟨by simpa using hl, ?_, ?_⟩
        · intro e he
          simp only [chain_cons, List.mem_cons] at he
          rcases he with rfl | he
          · exact hon
          · exact hall e he
        · simpa [lpar, Bool.xor_assoc] using hinv2



theorem res_b2i (X : Bool) : (if b2i X = 0 then PipResult.isOutside else PipResult.isInside) =
    if X then PipResult.isInside else PipResult.isOutside := by cases X <;> rfl

theorem close_ok {p l f : Pt} {ia : Bool} {val : Int} {L : Bool} (hf : f.y ≠ p.y) (hinv : Inv p l ia val L) :
    (pipClose crossProduct p l f (decide (f.y < p.y)) ia val = .isOn ↔ onSeg p l f = true) ∧
    (pipClose crossProduct p l f (decide (f.y < p.y)) ia val ≠ .isOn →
      pipClose crossProduct p l f (decide (f.y < p.y)) ia val =
        if (L ^^ lcross p l f) then .isInside else .isOutside) := by
  obtain ⟨i1, i2, i3⟩ := hinv
  simp only [pipClose, crossProduct_eq_cross]
  rcases Int.lt_or_gt_of_ne hf with hfa | hfb
  · -- f above
    have hsa : decide (f.y < p.y) = true := by simpa using hfa
    rw [hsa]
    rcases Int.lt_trichotomy l.y p.y with hl | hl | hl
    · obtain ⟨hia, hval⟩ := i1 hl
      obtain ⟨e1, e2⟩ := edge_same_side (p := p) (v := l) (w := f) (Or.inl ⟨hl, hfa⟩)
      subst hia
      rw [e1, e2, hval]
      simp only [bne_self_eq_false, Bool.false_eq_true, if_false, res_b2i]
      cases L <;> simp
    · obtain ⟨hx, hval⟩ := i3 hl
      obtain ⟨s1, s2, e1, e2⟩ := edge_on_above hl hx hfa
      rw [e1, e2, hval]
      cases ia with
      | true =>
        simp only [bne_self_eq_false, Bool.false_eq_true, if_false, res_b2i]
        cases L <;> simp
      | false =>
        have hb : (false != true) = true := rfl
        simp only [hb, if_true, if_neg s2]
        by_cases c : cross l f p < 0
        · have c2 : ¬ l.x < p.x := by omega
          simp only [c, decide_true, decide_false, c2]
          cases L <;> simp [b2i]
        · have c2 : l.x < p.x := by omega
          simp only [c, decide_true, decide_false, c2]
          cases L <;> simp [b2i]
    · obtain ⟨hia, hval⟩ := i2 hl
      obtain ⟨_, _, e1, e2⟩ := edge_below_above hl hfa
      subst hia
      have hb : (false != true) = true := rfl
      rw [e1, e2, hval]
      simp only [hb, if_true]
      by_cases hd : cross l f p = 0
      · simp [hd]
      · by_cases c : cross l f p < 0
        · have c2 : ¬ 0 < cross l f p := by omega
          simp only [hd, c, c2, if_false, decide_true, decide_false]
          cases L <;> simp [b2i]
        · have c2 : 0 < cross l f p := by omega
          simp only [hd, c, c2, if_false, decide_true, decide_false]
          cases L <;> simp [b2i]
  · -- f below
    have hsa : decide (f.y < p.y) = false := by simp; omega
    rw [hsa]
    rcases Int.lt_trichotomy l.y p.y with hl | hl | hl
    · obtain ⟨hia, hval⟩ := i1 hl
      obtain ⟨_, _, e1, e2⟩ := edge_above_below hl hfb
      subst hia
      have hb : (true != false) = true := rfl
      rw [e1, e2, hval]
      simp only [hb, if_true]
      by_cases hd : cross l f p = 0
      · simp [hd]
      · by_cases c : cross l f p < 0
        · simp only [hd, c, if_false, decide_true]
          cases L <;> simp [b2i]
        · simp only [hd, c, if_false, decide_false]
          cases L <;> simp [b2i]
    · obtain ⟨hx, hval⟩ := i3 hl
      obtain ⟨s1, s2, e1, e2⟩ := edge_on_below hl hx hfb
      rw [e1, e2, hval]
      cases ia with
      | false =>
        simp only [bne_self_eq_false, Bool.false_eq_true, if_false, res_b2i]
        cases L <;> cases decide (l.x < p.x) <;> simp
      | true =>
        have hb : (true != false) = true := rfl
        simp only [hb, if_true, if_neg s2]
        by_cases c : cross l f p < 0
        · have c2 : l.x < p.x := by omega
          simp only [c, decide_true, c2]
          cases L <;> simp [b2i]
        · have c2 : ¬ l.x < p.x := by omega
          simp only [c, decide_false, c2]
          cases L <;> simp [b2i]
    · obtain ⟨hia, hval⟩ := i2 hl
      obtain ⟨e1, e2⟩ := edge_same_side (p := p) (v := l) (w := f) (Or.inr ⟨hl, hfb⟩)
      subst hia
      rw [e1, e2, hval]
      simp only [bne_self_eq_false, Bool.false_eq_true, if_false, res_b2i]
      cases L <;> simp



/-! ### left parity = right parity on a closed chain; right parity = parity of `Spec.windPath` -/

/-- side of the half-open rule -/
def sd (p v : Pt) : Bool := decide (v.y ≤ p.y)

theorem lr_edge {p a b : Pt} (h : onSeg p a b = false) :
    (lcross p a b ^^ rcross p a b) = (sd p a ^^ sd p b) := by
  have hd := cross_eq a b p
  have s1 : a.y ≤ p.y → p.y < b.y → 0 < a.x - p.x → 0 < b.x - p.x → 0 < cross a b p := by
    intro h1 h2 h3 h4; rw [hd]; exact d_pos_of (by omega) (by omega) h3 h4
  have s2 : a.y ≤ p.y → p.y < b.y → a.x - p.x < 0 → b.x - p.x < 0 → cross a b p < 0 := by
    intro h1 h2 h3 h4; rw [hd]; exact d_neg_of (by omega) (by omega) h3 h4
  have s3 : b.y ≤ p.y → p.y < a.y → 0 < a.x - p.x → 0 < b.x - p.x → cross a b p < 0 := by
    intro h1 h2 h3 h4; rw [hd, Int.add_comm]; exact d_neg_of' (by omega) (by omega) h4 h3
  have s4 : b.y ≤ p.y → p.y < a.y → a.x - p.x < 0 → b.x - p.x < 0 → 0 < cross a b p := by
    intro h1 h2 h3 h4; rw [hd, Int.add_comm]; exact d_pos_of' (by omega) (by omega) h4 h3
  simp only [onSeg] at h
  simp only [lcross, rcross, sd]
  clear hd
  simp at h
  by_cases c1 : a.y ≤ p.y <;> by_cases c2 : b.y ≤ p.y <;> by_cases c3 : cross a b p < 0 <;>
    by_cases c4 : 0 < cross a b p <;> simp [c1, c2, c3, c4] <;> omega

theorem lastOf_append_self (f : Pt) (seq : List Pt) : lastOf f (seq ++ [f]) = f := by
  rw [lastOf_append]; rfl

theorem lr_chain {p : Pt} : ∀ (l : List Pt) (v : Pt), (∀ e ∈ chain v l, onSeg p e.1 e.2 = false) →
    (lpar p v l ^^ rpar p v l) = (sd p v ^^ sd p (lastOf v l))
  | [], v, _ => by simp [lpar, rpar]
  | w :: r, v, h => by
    have h1 := lr_edge (h (v, w) (by simp))
    have h2 := lr_chain r w (fun e he => h e (by simp [he]))
    simp only [lpar, rpar, lastOf_cons]
    revert h1 h2
    generalize lcross p v w = a1
    generalize rcross p v w = a2
    generalize lpar p w r = a3
    generalize rpar p w r = a4
    generalize sd p v = a5
    generalize sd p w = a6
    generalize sd p (lastOf w r) = a7
    cases a1 <;> cases a2 <;> cases a3 <;> cases a4 <;> cases a5 <;> cases a6 <;> cases a7 <;> simp

theorem crossing_mod2 (p a b : Pt) : crossing p a b % 2 = b2i (rcross p a b) := by
  simp only [crossing, rcross, b2i]
  by_cases c1 : a.y ≤ p.y ∧ p.y < b.y
  · have c2 : ¬ (b.y ≤ p.y ∧ p.y < a.y) := by omega
    by_cases c3 : cross a b p > 0
    · simp [c1, c3]
    · simp [c1, c2, c3]
  · by_cases c2 : b.y ≤ p.y ∧ p.y < a.y
    · by_cases c3 : cross a b p < 0
      · simp [c1, c2, c3]
      · simp [c1, c2, c3]
    · simp [c1, c2]

theorem windChain_mod2 (p : Pt) : ∀ (l : List Pt) (v : Pt),
    ((chain v l).map (fun e => crossing p e.1 e.2)).sum % 2 = b2i (rpar p v l)
  | [], v => by simp [rpar, b2i]
  | w :: r, v => by
    have h1 := crossing_mod2 p v w
    have h2 := windChain_mod2 p r w
    simp only [chain_cons, List.map_cons, List.sum_cons, rpar]
    revert h1 h2
    generalize crossing p v w = c
    generalize ((chain w r).map (fun e => crossing p e.1 e.2)).sum = s
    cases rcross p v w <;> cases rpar p w r <;> simp [b2i] <;> omega




/-! ### the cyclic fold computes the Spec -/

theorem onBoundary_cons (p f : Pt) (seq : List Pt) :
    onBoundary (f :: seq) p = ((chain f seq).any (fun e => onSeg p e.1 e.2) || onSeg p (lastOf f seq) f) := by
  simp [onBoundary, edgesOf_cons, chain_append]

theorem windPath_cons_mod2 (p f : Pt) (seq : List Pt) :
    windPath (f :: seq) p % 2 = b2i (rpar p f (seq ++ [f])) := by
  rw [windPath, edgesOf_cons]; exact windChain_mod2 p _ f

theorem pipCyc_spec {p f : Pt} (seq : List Pt) (hf : f.y ≠ p.y) :
    pipCode (pipCyc crossProduct p f seq) = pipEvenOdd (f :: seq) p := by
  have hinv0 : Inv p f (decide (f.y < p.y)) 0 false := by
    refine ⟨fun h => ⟨by simpa using h, rfl⟩, fun h => ⟨by simp; omega, rfl⟩, fun h => absurd h hf⟩
  have hs := scan_ok seq f _ 0 false hinv0
  rw [pipCyc]
  cases hscan : pipScan crossProduct p f (decide (f.y < p.y)) 0 seq with
  | none =>
    rw [hscan] at hs
    obtain ⟨e, he, heon⟩ := hs
    have hb : onBoundary (f :: seq) p = true := by
      rw [onBoundary_cons, Bool.or_eq_true]; left
      exact List.any_eq_true.mpr ⟨e, he, heon⟩
    simp [pipEvenOdd, hb, pipCode]
  | some res =>
    obtain ⟨l, ia, val⟩ := res
    rw [hscan] at hs
    obtain ⟨hl, hall, hinv⟩ := hs
    obtain ⟨c1, c2⟩ := close_ok hf hinv
    simp only
    by_cases hon : pipClose crossProduct p l f (decide (f.y < p.y)) ia val = .isOn
    · have hb : onBoundary (f :: seq) p = true := by
        rw [onBoundary_cons, Bool.or_eq_true]; right
        rw [← hl]; exact c1.mp hon
      rw [hon]; simp [pipEvenOdd, hb, pipCode]
    · have hclose : onSeg p l f = false := by
        cases h : onSeg p l f with
        | false => rfl
        | true => exact absurd (c1.mpr h) hon
      have hb : onBoundary (f :: seq) p = false := by
        rw [onBoundary_cons, ← hl, hclose, Bool.or_false]
        rw [Bool.eq_false_iff]; intro h
        obtain ⟨e, he, heon⟩ := List.any_eq_true.mp h
        rw [hall e he] at heon; exact absurd heon (by decide)
      -- all edges of the closed chain are off the point, so left parity = right parity
      have hall' : ∀ e ∈ chain f (seq ++ [f]), onSeg p e.1 e.2 = false := by
        intro e he
        rw [chain_append] at he
        rcases List.mem_append.mp he with he | he
        · exact hall e he
        · simp only [chain_cons, chain_nil, List.mem_singleton] at he
          subst he; rw [← hl]; exact hclose
      have hlr := lr_chain (p := p) (seq ++ [f]) f hall'
      rw [lastOf_append_self] at hlr
      have hlr' : lpar p f (seq ++ [f]) = rpar p f (seq ++ [f]) := by
        revert hlr
        cases lpar p f (seq ++ [f]) <;> cases rpar p f (seq ++ [f]) <;> cases sd p f <;> simp
      have hl2 : lpar p f (seq ++ [f]) = (lpar p f seq ^^ lcross p l f) := by
        rw [lpar_append, ← hl]; simp [lpar]
      have hw := windPath_cons_mod2 p f seq
      rw [c2 hon]
      simp only [Bool.false_xor] at *
      rw [← hl2, hlr']
      simp only [pipEvenOdd, hb, Bool.false_eq_true, if_false, hw]
      cases rpar p f (seq ++ [f]) <;> simp [b2i, pipCode]

/-- Spec under rotation of the closed path -/
theorem sum_perm {l1 l2 : List Int} (h : l1.Perm l2) : l1.sum = l2.sum := by
  induction h with
  | nil => rfl
  | cons x _ ih => simp [ih]
  | swap x y l => simp; omega
  | trans _ _ ih1 ih2 => exact ih1.trans ih2

theorem pipEvenOdd_rotate (x y : List Pt) (p : Pt) : pipEvenOdd (x ++ y) p = pipEvenOdd (y ++ x) p := by
  have hp := edgesOf_rotate_perm x y
  have h1 : onBoundary (x ++ y) p = onBoundary (y ++ x) p := hp.any_eq
  have h2 : windPath (x ++ y) p = windPath (y ++ x) p := sum_perm (hp.map _)
  simp only [pipEvenOdd, h1, h2]


end Clipper.Lemmas.Geom
