/-
Helper lemmas for `Props/C01Output.lean`, part 7: the decorated events of one scanbeam (`Model/SweepPoints.lean`) — what they erase to,
that they are plain, that their `update` positions are inside the AEL, and that they are GEOMETRIC (`GRun`): the insertion events, the
bottom-up intersection events, the top-of-scanbeam events.  Core Lean only.
-/
import ClipperVerif.Lemmas.C01OutputRun
import ClipperVerif.Lemmas.C01OutputSched
import ClipperVerif.Lemmas.C01OutputMono
namespace Clipper.Lemmas.C01Output
open Clipper Clipper.Model Clipper.Model.AelOrder Clipper.Model.SweepOrder Clipper.Model.SweepEvents Clipper.Model.SweepPoints
open Clipper.Lemmas.SweepOrder Clipper.Lemmas.C01Region Clipper.Lemmas.AelOrder
open Clipper.Props.C01RegionRings (baseOps baseOf)

/-! ## what the decorated events erase to -/

theorem baseOps_map_base {α : Type} (f : α → Op) (g : α → Pt) : ∀ (l : List α), baseOps (l.map (fun a => ROp.base (f a) (g a))) = l.map f := by
  intro l
  induction l with
  | nil => rfl
  | cons a l ih => rw [List.map_cons, baseOps_cons_base, ih]; rfl

theorem baseOps_minEventsP (D : Int) (valid : GEdge → GEdge → Bool) (lab : Lab) (ael : List GEdge) (p : GEdge × GEdge) :
    baseOps (minEventsP D valid lab ael p) = minEvents valid lab ael p := by
  unfold minEventsP minEvents
  cases insertLeftPos valid (fun _ => false) ael p.1 with
  | none => rfl
  | some i => simp only [baseOps_cons_base, baseOps_map_base]

theorem baseOps_insEventsP (D : Int) (valid : GEdge → GEdge → Bool) (lab : Lab) : ∀ (ms : List (GEdge × GEdge)) (ael : List GEdge),
    baseOps (insEventsP D valid lab ael ms) = insEvents valid lab ael ms := by
  intro ms
  induction ms with
  | nil => intro ael; rfl
  | cons p ms ih => intro ael; simp only [insEventsP, insEvents, baseOps_append, baseOps_minEventsP, ih]

theorem baseOps_isectEventsP (D : Int) (T inserted : List GEdge) :
    baseOps (isectEventsP D T inserted) = ((geoSwaps T inserted).map (·.1)).map .intersect := by
  unfold isectEventsP
  rw [baseOps_map_base (fun c : Nat × GEdge × GEdge => Op.intersect c.1) (fun c => (crossQ c.2.1 c.2.2).toPt D), List.map_map]
  rfl

theorem baseOps_topEventsAuxP (D : Int) (next : GEdge → Option GEdge) (y1 : Int) : ∀ (l : List GEdge) (flag : Bool) (k : Nat),
    baseOps (topEventsAuxP D next y1 flag k l) = topEventsAux next y1 flag k l := by
  intro l
  induction l with
  | nil => intro flag k; cases flag <;> rfl
  | cons e rest ih =>
    intro flag k
    cases flag with
    | true => simp only [topEventsAuxP, topEventsAux, ih]
    | false =>
      simp only [topEventsAuxP, topEventsAux]
      by_cases hm : isMax next y1 e = true
      · simp only [hm, if_true, baseOps_cons_base, ih]
      · simp only [hm, Bool.false_eq_true, if_false]
        by_cases ht : e.top.y = y1
        · simp only [ht, if_true, baseOps_cons_update, ih]
        · simp only [ht, if_false, ih]

/-! ## they are plain -/

theorem plain_insEventsP (D : Int) (valid : GEdge → GEdge → Bool) (lab : Lab) : ∀ (ms : List (GEdge × GEdge)) (ael : List GEdge),
    ∀ op ∈ insEventsP D valid lab ael ms, PlainOp op ∧ ∃ bop pt, op = .base bop pt := by
  intro ms
  induction ms with
  | nil => intro ael op h; simp [insEventsP] at h
  | cons p ms ih =>
    intro ael op h
    simp only [insEventsP, List.mem_append] at h
    rcases h with h | h
    · unfold minEventsP at h
      cases hp : insertLeftPos valid (fun _ => false) ael p.1 with
      | none => simp [hp] at h
      | some i =>
        simp only [hp, List.mem_cons, List.mem_map] at h
        rcases h with rfl | ⟨k, _, rfl⟩
        · exact ⟨trivial, _, _, rfl⟩
        · exact ⟨trivial, _, _, rfl⟩
    · exact ih _ op h

theorem plain_isectEventsP (D : Int) (T inserted : List GEdge) :
    ∀ op ∈ isectEventsP D T inserted, PlainOp op ∧ ∃ bop pt, op = .base bop pt := by
  intro op h
  simp only [isectEventsP, List.mem_map] at h
  obtain ⟨c, _, rfl⟩ := h
  exact ⟨trivial, _, _, rfl⟩

theorem plain_topEventsAuxP (D : Int) (next : GEdge → Option GEdge) (y1 : Int) : ∀ (l : List GEdge) (flag : Bool) (k : Nat),
    ∀ op ∈ topEventsAuxP D next y1 flag k l, PlainOp op := by
  intro l
  induction l with
  | nil => intro flag k op h; cases flag <;> simp [topEventsAuxP] at h
  | cons e rest ih =>
    intro flag k op h
    cases flag with
    | true => simp only [topEventsAuxP] at h; exact ih _ _ op h
    | false =>
      simp only [topEventsAuxP] at h
      by_cases hm : isMax next y1 e = true
      · simp only [hm, if_true, List.mem_cons] at h
        rcases h with rfl | h
        · trivial
        · exact ih _ _ op h
      · simp only [hm, Bool.false_eq_true, if_false] at h
        by_cases ht : e.top.y = y1
        · simp only [ht, if_true, List.mem_cons] at h
          rcases h with rfl | h
          · trivial
          · exact ih _ _ op h
        · simp only [ht, if_false] at h; exact ih _ _ op h

/-- the `update` positions of `DoTopOfScanbeam` are inside the AEL -/
theorem updOK_topEventsAuxP (D : Int) (next : GEdge → Option GEdge) (y1 : Int) : ∀ (l : List GEdge) (flag : Bool) (k n : Nat),
    (flag = false → k + l.length ≤ n) → (flag = true → k + l.length ≤ n + 1) → UpdOK n (topEventsAuxP D next y1 flag k l) := by
  intro l
  induction l with
  | nil => intro flag k n _ _; cases flag <;> trivial
  | cons e rest ih =>
    intro flag k n h1 h2
    cases flag with
    | true =>
      simp only [topEventsAuxP]
      have := h2 rfl
      simp only [List.length_cons] at this
      exact ih false k n (fun _ => by omega) (fun h => by cases h)
    | false =>
      have := h1 rfl
      simp only [List.length_cons] at this
      simp only [topEventsAuxP]
      by_cases hm : isMax next y1 e = true
      · simp only [hm, if_true, UpdOK]
        exact ih true k (n - 2) (fun h => by cases h) (fun _ => by omega)
      · simp only [hm, Bool.false_eq_true, if_false]
        by_cases ht : e.top.y = y1
        · simp only [ht, if_true, UpdOK]
          exact ⟨by omega, ih false (k + 1) n (fun _ => by omega) (fun h => by cases h)⟩
        · simp only [ht, if_false]
          exact ih false (k + 1) n (fun _ => by omega) (fun h => by cases h)

/-! ## the intersection events are geometric -/

/-- two edges that cross strictly inside the scanbeam: their exact crossing point lies on both closed segments -/
theorem crosses_onQ {y0 y1 : Int} (hy : y1 < y0) {a b : GEdge} (hc : Crosses y0 y1 a b)
    (ha : a.top.y ≤ y1 ∧ y0 ≤ a.bot.y) (hb : b.top.y ≤ y1 ∧ y0 ≤ b.bot.y) :
    0 < (crossQ a b).d ∧ OnQ a (crossQ a b) ∧ OnQ b (crossQ a b) ∧
      (crossQ a b).d * y1 < (crossQ a b).yn ∧ (crossQ a b).yn ≤ (crossQ a b).d * y0 := by
  obtain ⟨h0, h1⟩ := hc
  have d0 : 0 ≤ delta y0 a b := by
    rcases (ltAbove_iff y0 a b).1 h0 with h | ⟨h, _⟩ <;> omega
  have d1 : delta y1 a b < 0 := (xgt_iff_delta y1 a b).1 h1
  exact crossQ_on a b y0 y1 hy d0 d1 ha hb

theorem gRun_sched (D : Int) (hD : 0 < D) (E : GEdge → Prop) (y0 y1 : Int) (hy : y1 < y0) :
    ∀ (evs : List (Nat × GEdge × GEdge)) (cur T : List GEdge), SchedOK (Crosses y0 y1) cur evs T →
      (∀ e ∈ cur, e.top.y ≤ y1 ∧ y0 ≤ e.bot.y) → (∀ c ∈ evs, (crossQ c.2.1 c.2.2).d ∣ D) →
      GRun D E cur (evs.map (fun c => .base (.intersect c.1) ((crossQ c.2.1 c.2.2).toPt D))) T := by
  intro evs
  induction evs with
  | nil => intro cur T h _ _; exact h
  | cons c rest ih =>
    intro cur T h hal hdv
    obtain ⟨pre, post, h1, h2, h3, h4⟩ := h
    have ha := hal c.2.1 (by rw [h1]; simp)
    have hb := hal c.2.2 (by rw [h1]; simp)
    obtain ⟨dpos, qa, qb, _, _⟩ := crosses_onQ hy h3 ha hb
    have hdiv := hdv c (by simp)
    refine ⟨pre ++ c.2.2 :: c.2.1 :: post, ?_, ih _ T h4 ?_ (fun c' hc' => hdv c' (by simp [hc']))⟩
    · simp only [GEv]
      exact ⟨pre, post, c.2.1, c.2.2, h1, h2, rfl, onE_of_onQ D _ _ dpos hD hdiv qa, onE_of_onQ D _ _ dpos hD hdiv qb⟩
    · intro e he
      apply hal e
      rw [h1]
      simp only [List.mem_append, List.mem_cons] at he ⊢
      rcases he with h | h | h | h
      · exact Or.inl h
      · exact Or.inr (Or.inr (Or.inl h))
      · exact Or.inr (Or.inl h)
      · exact Or.inr (Or.inr (Or.inr h))

/-- the heights of the intersection events of a scanbeam lie in `(D·y1, D·y0]` -/
theorem sched_heights (D : Int) (hD : 0 < D) (y0 y1 : Int) (hy : y1 < y0) :
    ∀ (evs : List (Nat × GEdge × GEdge)) (cur T : List GEdge), SchedOK (Crosses y0 y1) cur evs T →
      (∀ e ∈ cur, e.top.y ≤ y1 ∧ y0 ≤ e.bot.y) → (∀ c ∈ evs, (crossQ c.2.1 c.2.2).d ∣ D) →
      ∀ c ∈ evs, D * y1 < ((crossQ c.2.1 c.2.2).toPt D).y ∧ ((crossQ c.2.1 c.2.2).toPt D).y ≤ D * y0 := by
  intro evs
  induction evs with
  | nil => intro cur T _ _ _ c hc; cases hc
  | cons c0 rest ih =>
    intro cur T h hal hdv c hc
    obtain ⟨pre, post, h1, h2, h3, h4⟩ := h
    rcases List.mem_cons.1 hc with rfl | hc
    · have ha := hal c.2.1 (by rw [h1]; simp)
      have hb := hal c.2.2 (by rw [h1]; simp)
      obtain ⟨dpos, _, _, lo, hi⟩ := crosses_onQ hy h3 ha hb
      have hdiv := hdv c (by simp)
      have ey := toPt_y D (crossQ c.2.1 c.2.2) dpos hdiv
      constructor
      · have : D * y1 * (crossQ c.2.1 c.2.2).d < ((crossQ c.2.1 c.2.2).toPt D).y * (crossQ c.2.1 c.2.2).d := by
          rw [ey]
          have := Int.mul_lt_mul_of_pos_right lo hD
          have e1 : D * y1 * (crossQ c.2.1 c.2.2).d = (crossQ c.2.1 c.2.2).d * y1 * D := by grind
          omega
        exact Int.lt_of_mul_lt_mul_right this (Int.le_of_lt dpos)
      · have : ((crossQ c.2.1 c.2.2).toPt D).y * (crossQ c.2.1 c.2.2).d ≤ D * y0 * (crossQ c.2.1 c.2.2).d := by
          rw [ey]
          have := Int.mul_le_mul_of_nonneg_right hi (Int.le_of_lt hD)
          have e1 : D * y0 * (crossQ c.2.1 c.2.2).d = (crossQ c.2.1 c.2.2).d * y0 * D := by grind
          omega
        exact Int.le_of_mul_le_mul_right this dpos
    · refine ih _ T h4 ?_ (fun c' hc' => hdv c' (by simp [hc'])) c hc
      intro e he
      apply hal e
      rw [h1]
      simp only [List.mem_append, List.mem_cons] at he ⊢
      rcases he with h | h | h | h
      · exact Or.inl h
      · exact Or.inr (Or.inr (Or.inl h))
      · exact Or.inr (Or.inl h)
      · exact Or.inr (Or.inr (Or.inr h))

/-! ## the top-of-scanbeam events are geometric -/

/-- "every local maximum is followed by its partner, which ends in the same point" (the flag carries the maximum that waits) -/
def MaxAdjT (next : GEdge → Option GEdge) (y1 : Int) : Option GEdge → List GEdge → Prop
  | none, [] => True
  | some _, [] => False
  | some a, e :: rest => isMax next y1 e = true ∧ e.top = a.top ∧ MaxAdjT next y1 none rest
  | none, e :: rest => if isMax next y1 e = true then MaxAdjT next y1 (some e) rest else MaxAdjT next y1 none rest

/-- as `maxAdj_of_sorted`, keeping the fact that the partner ends in the same point -/
theorem maxAdjT_of_sorted (edges : List GEdge) (next : GEdge → Option GEdge) (lab : Lab) (y1 : Int)
    (hup : AllUp edges) (hgt : GPtop edges next y1) (hmx : MaxOK edges next lab y1) :
    ∀ (n : Nat) (l : List GEdge), l.length ≤ n → l.Pairwise (ltBelow y1) → (∀ e ∈ l, e ∈ edges ∧ AliveBelow y1 e) →
      (∀ a ∈ l, isMax next y1 a = true → ∀ b ∈ edges, AliveBelow y1 b → b.top = a.top → b ∈ l) →
      MaxAdjT next y1 none l := by
  intro n
  induction n with
  | zero =>
    intro l hl _ _ _
    have : l = [] := List.length_eq_zero_iff.1 (by omega)
    subst this; trivial
  | succ n ih =>
    intro l hl hs hmem hcl
    cases l with
    | nil => trivial
    | cons e rest =>
      have hnd : (e :: rest).Nodup := nodup_of_pairwise_irrefl (ltBelow_irrefl y1) hs
      obtain ⟨hee, hea⟩ := hmem e (by simp)
      rw [List.pairwise_cons] at hs
      by_cases he : isMax next y1 e = true
      · simp only [MaxAdjT, he, if_true]
        obtain ⟨hty, hnx⟩ := isMax_iff.1 he
        obtain ⟨b0, hb0e, hb0ne, hb0a, hb0t, hb0n, hl1, hl2, huniq⟩ := hmx e hee hea hty hnx
        have hb0l : b0 ∈ e :: rest := hcl e (by simp) he b0 hb0e hb0a hb0t
        have hb0r : b0 ∈ rest := by
          rcases List.mem_cons.1 hb0l with h | h
          · exact absurd h hb0ne
          · exact h
        cases rest with
        | nil => cases hb0r
        | cons e2 rest' =>
          obtain ⟨he2e, he2a⟩ := hmem e2 (by simp)
          have hs2 := hs.2
          rw [List.pairwise_cons] at hs2
          have he2 : e2 = b0 := by
            rcases List.mem_cons.1 hb0r with h | h
            · exact h.symm
            · have hxe : xeq y1 e b0 := xeq_of_same_top hb0t.symm hty
              have hx2 := xeq_middle (hup e hee) (hup e2 he2e) (hup b0 hb0e) hxe (hs.1 e2 (by simp)) (hs2.1 b0 h)
              have hne : e ≠ e2 := by
                intro h'; subst h'; simp at hnd
              rcases hgt e hee e2 he2e hne hea he2a with hf | ⟨htop, _, _, _⟩
              · exact absurd hx2 (not_xeq_of_far (hup e hee) (hup e2 he2e) hf)
              · rcases huniq e2 he2e he2a htop.symm with h' | h'
                · exact absurd h'.symm hne
                · exact h'
          subst he2
          refine ⟨isMax_iff.2 ⟨by rw [hb0t]; exact hty, hb0n⟩, hb0t, ?_⟩
          refine ih rest' (by simp at hl; omega) hs2.2 (fun x hx => hmem x (by simp [hx])) ?_
          intro a ha hma b hbe hba hbt
          have hal : a ∈ e :: e2 :: rest' := by simp [ha]
          have hbl := hcl a hal hma b hbe hba hbt
          have haa := (hmem a hal).2
          have hae := (hmem a hal).1
          have hcontra : ∀ (c : GEdge), (c = e ∨ c = e2) → b = c → False := by
            intro c hc hbc
            have hat : a.top = e.top := by
              rcases hc with rfl | rfl
              · rw [← hbt, hbc]
              · rw [← hbt, hbc, hb0t]
            rcases huniq a hae haa hat with h' | h'
            · subst h'; simp at hnd; exact hnd.1.2 ha
            · subst h'
              have := (List.nodup_cons.1 hnd).2
              simp at this; exact this.1 ha
          rcases List.mem_cons.1 hbl with h | h
          · exact absurd h (fun h => hcontra e (Or.inl rfl) h)
          · rcases List.mem_cons.1 h with h | h
            · exact absurd h (fun h => hcontra e2 (Or.inr rfl) h)
            · exact h
      · simp only [MaxAdjT, he]
        refine ih rest (by simp at hl; omega) hs.2 (fun x hx => hmem x (by simp [hx])) ?_
        intro a ha hma b hbe hba hbt
        have hal : a ∈ e :: rest := by simp [ha]
        have hbl := hcl a hal hma b hbe hba hbt
        rcases List.mem_cons.1 hbl with h | h
        · exfalso
          subst h
          obtain ⟨hty, hnx⟩ := isMax_iff.1 hma
          obtain ⟨b0, _, _, _, hb0t, hb0n, _, _, huniq⟩ := hmx a (hmem a hal).1 (hmem a hal).2 hty hnx
          rcases huniq b hee hea hbt with h' | h'
          · subst h'; exact (List.nodup_cons.1 hnd).1 ha
          · subst h'; exact he (isMax_iff.2 ⟨by rw [hb0t]; exact hty, hb0n⟩)
        · exact h

theorem gRun_top (D : Int) (edges : List GEdge) (next : GEdge → Option GEdge) (mins : Int → List (GEdge × GEdge)) (y1 : Int)
    (hup : AllUp edges) (hnx : NextOK edges next mins) :
    ∀ (rest out : List GEdge) (k : Nat), out.length = k → (∀ e ∈ rest, e ∈ edges) →
      (MaxAdjT next y1 none rest →
        GRun D (· ∈ edges) (out ++ rest) (topEventsAuxP D next y1 false k rest) (out ++ rest.filterMap (topStep next y1))) ∧
      (∀ a, a ∈ edges → MaxAdjT next y1 (some a) rest →
        GRun D (· ∈ edges) (out ++ a :: rest) (.base (.removePair k) (Pt.scale D a.top) :: topEventsAuxP D next y1 true k rest)
          (out ++ rest.filterMap (topStep next y1))) := by
  intro rest
  induction rest with
  | nil =>
    intro out k _ _
    refine ⟨fun _ => by simp [topEventsAuxP, GRun], fun a _ hm => ?_⟩
    simp [MaxAdjT] at hm
  | cons e rest ih =>
    intro out k hk hmem
    have hmem' : ∀ x ∈ rest, x ∈ edges := fun x hx => hmem x (by simp [hx])
    have hee := hmem e (by simp)
    constructor
    · intro hm
      by_cases he : isMax next y1 e = true
      · simp only [MaxAdjT, he, if_true] at hm
        have := (ih out k hk hmem').2 e hee hm
        simp only [topEventsAuxP, he, if_true]
        simpa [List.filterMap_cons, topStep_of_isMax he] using this
      · simp only [MaxAdjT, he] at hm
        simp only [topEventsAuxP, he, Bool.false_eq_true, if_false]
        obtain ⟨e', s1, s2⟩ := topStep_of_not_isMax he
        by_cases ht : e.top.y = y1
        · simp only [ht, if_true]
          have hn : next e = some e' := by
            rcases s2 with rfl | h
            · simp [topStep, ht] at s1; exact s1
            · exact h
          obtain ⟨he'e, hbot, _⟩ := hnx e hee e' hn
          have := (ih (out ++ [e']) (k + 1) (by simp [hk]) hmem').1 hm
          refine ⟨out ++ e' :: rest, ?_, ?_⟩
          · simp only [GEv]
            exact ⟨out, rest, e, e', rfl, hk, rfl, he'e, hup e hee, hup e' he'e, hbot, rfl⟩
          · simpa [List.filterMap_cons, s1] using this
        · simp only [ht, if_false]
          have he' : e' = e := by
            simp [topStep, ht] at s1; exact s1.symm
          have := (ih (out ++ [e]) (k + 1) (by simp [hk]) hmem').1 hm
          simpa [List.filterMap_cons, s1, he'] using this
    · intro a hae hm
      simp only [MaxAdjT] at hm
      obtain ⟨he, htop, hm'⟩ := hm
      have := (ih out k hk hmem').1 hm'
      refine ⟨out ++ rest, ?_, ?_⟩
      · simp only [GEv]
        exact ⟨out, rest, a, e, rfl, hk, rfl, hup a hae, hup e hee, htop, rfl⟩
      · simp only [topEventsAuxP]
        simpa [List.filterMap_cons, topStep_of_isMax he] using this

/-! ## the insertion events are geometric -/

/-- in general position the settling loop of the right bound does nothing: the two bounds of a local minimum go in side by side -/
theorem insertBound_shape (valid : GEdge → GEdge → Bool) (y : Int) (ael : List GEdge) (lb rb : GEdge)
    (hs : ael.Pairwise (ltU y)) (ul : lb.Up) (ur : rb.Up) (hxe : xeq y lb rb)
    (hagL : ∀ r ∈ ael, (valid r lb = true ↔ ltU y r lb) ∧ (¬ ltU y r lb → ltU y lb r))
    (hagR : ∀ r ∈ ael, (valid r rb = true ↔ ltU y r rb))
    (hfar : ∀ r ∈ ael, r.Up ∧ far y r lb ∧ far y r rb) :
    ∃ i, insertLeftPos valid (fun _ => false) ael lb = some i ∧ i ≤ ael.length ∧
      bubbleCount valid rb ((insertLeft valid (fun _ => false) ael lb).drop (i + 1)) = 0 ∧
      insertBound valid ael (lb, rb) = ael.take i ++ lb :: rb :: ael.drop i := by
  obtain ⟨l₁, l₂, hl, hval, _, hgt, _, _, hpos, hlen⟩ :=
    Clipper.Props.C01Order.insertLeft_sorted valid (fun _ => false) (ltU y) ael lb (ltU_trans y) hs
      (fun r hr => (hagL r hr).1) (fun r hr => (hagL r hr).2)
      (fun _ _ _ _ _ hj _ => by cases hj) (fun _ _ => rfl)
  refine ⟨ael.countP (fun r => valid r lb), hpos, by rw [← hlen, hl]; simp, ?_, ?_⟩
  · have hdrop : (insertLeft valid (fun _ => false) ael lb).drop (ael.countP (fun r => valid r lb) + 1) = l₂ := by
      rw [hval, ← hlen]; simp
    rw [hdrop]
    cases l₂ with
    | nil => rfl
    | cons nxt rest =>
      have hn : nxt ∈ ael := by rw [hl]; simp
      obtain ⟨un, f1, f2⟩ := hfar nxt hn
      have h1 : xlt y lb nxt := (ltAbove_iff_xlt_of_far ul un (far_symm f1)).1 (hgt nxt (by simp)).2.2
      have h2 : xlt y rb nxt := by
        rcases xlt_or_of_far un ur f2 with h | h
        · exfalso
          have := xlt_trans ul un ur h1 h
          unfold xlt at this; unfold xeq at hxe; omega
        · exact h
      have hnv : valid nxt rb = false := by
        cases hv : valid nxt rb with
        | false => rfl
        | true =>
          have := ((hagR nxt hn).1 hv).2.2
          exact absurd this (ltAbove_asymm (Or.inl h2))
      simp [bubbleCount, hnv]
  · have hdrop : (insertLeft valid (fun _ => false) ael lb).drop (ael.countP (fun r => valid r lb) + 1) = l₂ := by
      rw [hval, ← hlen]; simp
    have htake : (insertLeft valid (fun _ => false) ael lb).take (ael.countP (fun r => valid r lb) + 1) = l₁ ++ [lb] := by
      rw [hval, ← hlen]
      have : l₁ ++ lb :: l₂ = (l₁ ++ [lb]) ++ l₂ := by simp
      rw [this, List.take_left' (by simp)]
    have hb : bubble valid rb l₂ = rb :: l₂ := by
      cases l₂ with
      | nil => rfl
      | cons nxt rest =>
        have hn : nxt ∈ ael := by rw [hl]; simp
        obtain ⟨un, f1, f2⟩ := hfar nxt hn
        have h1 : xlt y lb nxt := (ltAbove_iff_xlt_of_far ul un (far_symm f1)).1 (hgt nxt (by simp)).2.2
        have h2 : xlt y rb nxt := by
          rcases xlt_or_of_far un ur f2 with h | h
          · exfalso
            have := xlt_trans ul un ur h1 h
            unfold xlt at this; unfold xeq at hxe; omega
          · exact h
        have hnv : valid nxt rb = false := by
          cases hv : valid nxt rb with
          | false => rfl
          | true =>
            have := ((hagR nxt hn).1 hv).2.2
            exact absurd this (ltAbove_asymm (Or.inl h2))
        simp [bubble, hnv]
    simp only [insertBound, hpos, insertRight, hdrop, htake, hb]
    have e1 : ael.take (ael.countP (fun r => valid r lb)) = l₁ := by rw [← hlen, hl]; simp
    have e2 : ael.drop (ael.countP (fun r => valid r lb)) = l₂ := by rw [← hlen, hl]; simp
    rw [e1, e2]; simp

/-- **`InsertLocalMinimaIntoAEL(y)`, decorated, is geometric** (hypotheses of `insertMins_sorted`) -/
theorem gRun_ins (D : Int) (edges : List GEdge) (valid : GEdge → GEdge → Bool) (y : Int) (lab : Lab) (hup : AllUp edges)
    (hv : ValidOK edges valid y) :
    ∀ (ms : List (GEdge × GEdge)) (ael : List GEdge),
      (∀ p ∈ ms, p.1 ∈ edges ∧ p.2 ∈ edges ∧ p.1.bot = p.2.bot ∧ p.1.bot.y = y ∧ slt p.1 p.2) → (boundsOf ms).Nodup →
      GPmin edges ms y →
      ael.Pairwise (ltU y) → (∀ e ∈ ael, e ∈ edges ∧ AliveAbove y e) → (∀ e ∈ ael, e ∉ boundsOf ms) →
      GRun D (· ∈ edges) ael (insEventsP D valid lab ael ms) (insertMins valid ael ms) := by
  intro ms
  induction ms with
  | nil => intro ael _ _ _ _ _ _; simp [insEventsP, insertMins, GRun]
  | cons p rest ih =>
    intro ael hm hnd hgp hs hmem hfresh
    obtain ⟨h1e, h2e, hbot, hby, hsl⟩ := hm p (by simp)
    have u1 := hup _ h1e
    have u2 := hup _ h2e
    have al1 : AliveAbove y p.1 := by unfold AliveAbove; unfold SEdge.Up at u1; omega
    have al2 : AliveAbove y p.2 := by unfold AliveAbove; unfold SEdge.Up at u2; rw [hbot] at hby; omega
    rw [boundsOf_cons] at hnd hfresh
    have hfar : ∀ r ∈ ael, r.Up ∧ far y r p.1 ∧ far y r p.2 := by
      intro r hr
      obtain ⟨hre, hra⟩ := hmem r hr
      have hr1 : r ≠ p.1 := fun h => hfresh r hr (by simp [h])
      have hr2 : r ≠ p.2 := fun h => hfresh r hr (by simp [h])
      obtain ⟨f1, f2⟩ := hgp p (by simp) r hre hra hr1 hr2
      exact ⟨hup _ hre, f1, f2⟩
    have hag : ∀ n, (n = p.1 ∨ n = p.2) → ∀ r ∈ ael,
        (valid r n = true ↔ ltU y r n) ∧ (¬ ltU y r n → ltU y n r) := by
      intro n hn r hr
      obtain ⟨hre, hra⟩ := hmem r hr
      obtain ⟨ur, f1, f2⟩ := hfar r hr
      have hne : n ∈ edges ∧ n.Up ∧ AliveAbove y n ∧ n.bot.y = y ∧ far y r n := by
        rcases hn with rfl | rfl
        · exact ⟨h1e, u1, al1, hby, f1⟩
        · exact ⟨h2e, u2, al2, by rw [← hbot]; exact hby, f2⟩
      obtain ⟨hne, un, aln, hny, hf⟩ := hne
      have hvv := hv r hre n hne hra aln hny hf
      constructor
      · rw [hvv]
        exact ⟨fun h => ltU_of_xlt ur un h, fun h => (ltAbove_iff_xlt_of_far ur un hf).1 h.2.2⟩
      · intro hnot
        rcases xlt_or_of_far ur un hf with h | h
        · exact absurd (ltU_of_xlt ur un h) hnot
        · exact ltU_of_xlt un ur h
    have hxe : xeq y p.1 p.2 := xeq_of_same_bot hbot hby
    have hlr : ltU y p.1 p.2 := ⟨u1, u2, Or.inr ⟨hxe, hsl⟩⟩
    obtain ⟨i, hpos, hi, hbc, hshape⟩ := insertBound_shape valid y ael p.1 p.2 hs u1 u2 hxe (hag p.1 (Or.inl rfl))
      (fun r hr => (hag p.2 (Or.inr rfl) r hr).1) hfar
    obtain ⟨hpw, hperm⟩ := insertBound_sorted valid y ael p.1 p.2 hs hlr (hag p.1 (Or.inl rfl)) (hag p.2 (Or.inr rfl))
    have hmem' : ∀ e, e ∈ insertBound valid ael p ↔ e = p.2 ∨ e = p.1 ∨ e ∈ ael := by
      intro e; rw [show p = (p.1, p.2) from rfl, hperm.mem_iff]; simp
    have hnd' := hnd
    rw [List.nodup_cons, List.nodup_cons] at hnd'
    obtain ⟨hn1, hn2, hndr⟩ := hnd'
    have hrest := ih (insertBound valid ael p) (fun q hq => hm q (by simp [hq])) hndr
      (fun q hq => hgp q (by simp [hq])) hpw
      (by
        intro e he
        rcases (hmem' e).1 he with rfl | rfl | he
        · exact ⟨h2e, al2⟩
        · exact ⟨h1e, al1⟩
        · exact hmem e he)
      (by
        intro e he
        rcases (hmem' e).1 he with rfl | rfl | he
        · exact hn2
        · exact fun h => hn1 (by simp [h])
        · exact fun h => hfresh e he (by simp [h]))
    have hev : minEventsP D valid lab ael p = [.base (.insertPair i (lab p.1).1 false (lab p.1).2) (Pt.scale D p.1.bot)] := by
      simp only [minEventsP, hpos, hbc, List.range_zero, List.map_nil]
    simp only [insEventsP, hev, insertMins, List.foldl_cons, List.singleton_append]
    refine ⟨insertBound valid ael p, ?_, ?_⟩
    · simp only [GEv]
      refine ⟨ael.take i, ael.drop i, p.1, p.2, (List.take_append_drop i ael).symm, by rw [List.length_take]; omega, ?_,
        h1e, h2e, u1, u2, hbot.symm, rfl⟩
      rw [show p = (p.1, p.2) from rfl]; exact hshape
    · exact hrest

/-! ## the heights of the insertion and top-of-scanbeam events -/

theorem heights_insEventsP (D : Int) (valid : GEdge → GEdge → Bool) (lab : Lab) (y : Int) : ∀ (ms : List (GEdge × GEdge)) (ael : List GEdge),
    (∀ p ∈ ms, p.1.bot = p.2.bot ∧ p.1.bot.y = y) → ∀ op ∈ insEventsP D valid lab ael ms, op.pt.y = D * y := by
  intro ms
  induction ms with
  | nil => intro ael _ op h; simp [insEventsP] at h
  | cons p ms ih =>
    intro ael hm op h
    obtain ⟨hb, hy⟩ := hm p (by simp)
    simp only [insEventsP, List.mem_append] at h
    rcases h with h | h
    · unfold minEventsP at h
      cases hp : insertLeftPos valid (fun _ => false) ael p.1 with
      | none => simp [hp] at h
      | some i =>
        simp only [hp, List.mem_cons, List.mem_map] at h
        rcases h with rfl | ⟨k, _, rfl⟩
        · simp [ROp.pt, Pt.scale, hy]
        · simp [ROp.pt, Pt.scale, ← hb, hy]
    · exact ih _ (fun q hq => hm q (by simp [hq])) op h

theorem heights_topEventsAuxP (D : Int) (next : GEdge → Option GEdge) (y1 : Int) : ∀ (l : List GEdge) (flag : Bool) (k : Nat),
    ∀ op ∈ topEventsAuxP D next y1 flag k l, op.pt.y = D * y1 := by
  intro l
  induction l with
  | nil => intro flag k op h; cases flag <;> simp [topEventsAuxP] at h
  | cons e rest ih =>
    intro flag k op h
    cases flag with
    | true => simp only [topEventsAuxP] at h; exact ih _ _ op h
    | false =>
      simp only [topEventsAuxP] at h
      by_cases hm : isMax next y1 e = true
      · simp only [hm, if_true, List.mem_cons] at h
        rcases h with rfl | h
        · simp [ROp.pt, Pt.scale, (isMax_iff.1 hm).1]
        · exact ih _ _ op h
      · simp only [hm, Bool.false_eq_true, if_false] at h
        by_cases ht : e.top.y = y1
        · simp only [ht, if_true, List.mem_cons] at h
          rcases h with rfl | h
          · simp [ROp.pt, Pt.scale, ht]
          · exact ih _ _ op h
        · simp only [ht, if_false] at h; exact ih _ _ op h

/-! ## the decorated events of a scanbeam are in bottom-up order -/

theorem yChain_mono : ∀ (ops : List ROp) (m lo : Int), YChain m ops → m ≤ lo → YChain lo ops := by
  intro ops
  cases ops with
  | nil => intro _ _ _ _; trivial
  | cons op t => intro m lo h hle; exact ⟨Int.le_trans h.1 hle, h.2⟩

theorem yChain_append : ∀ (a b : List ROp) (lo m : Int), YChain lo a → YChain m b → (∀ op ∈ a, m ≤ op.pt.y) → m ≤ lo → YChain lo (a ++ b) := by
  intro a
  induction a with
  | nil => intro b lo m _ hb _ hle; exact yChain_mono b m lo hb hle
  | cons op a ih =>
    intro b lo m ha hb hall hle
    exact ⟨ha.1, ih b op.pt.y m ha.2 hb (fun o ho => hall o (by simp [ho])) (hall op (by simp))⟩

theorem yChain_const : ∀ (ops : List ROp) (c : Int), (∀ op ∈ ops, op.pt.y = c) → YChain c ops := by
  intro ops
  induction ops with
  | nil => intro _ _; trivial
  | cons op t ih =>
    intro c h
    have e := h op (by simp)
    exact ⟨by omega, by rw [e]; exact ih c (fun o ho => h o (by simp [ho]))⟩

/-- non-increasing crossing heights give non-increasing heights of the scaled points -/
theorem yChain_of_heights (D : Int) (hD : 0 < D) : ∀ (evs : List (Nat × GEdge × GEdge)) (hn hd lo : Int), 0 < hd → lo * hd = hn * D →
    HeightsSorted hn hd evs → (∀ c ∈ evs, (crossQ c.2.1 c.2.2).d ∣ D) →
    YChain lo (evs.map (fun c => .base (.intersect c.1) ((crossQ c.2.1 c.2.2).toPt D))) := by
  intro evs
  induction evs with
  | nil => intro _ _ _ _ _ _ _; trivial
  | cons c rest ih =>
    intro hn hd lo hd0 hlo hs hdv
    obtain ⟨dpos, hle, hrest⟩ := hs
    have ey := toPt_y D (crossQ c.2.1 c.2.2) dpos (hdv c (by simp))
    refine ⟨?_, ih _ _ _ dpos ey hrest (fun c' hc' => hdv c' (by simp [hc']))⟩
    show ((crossQ c.2.1 c.2.2).toPt D).y ≤ lo
    -- p.y · d · hd = yn · D · hd ≤ hn · d · D = lo · hd · d
    generalize ((crossQ c.2.1 c.2.2).toPt D).y = py at *
    generalize (crossQ c.2.1 c.2.2).yn = yn at *
    generalize (crossQ c.2.1 c.2.2).d = d at *
    have h1 : yn * hd * D ≤ hn * d * D := Int.mul_le_mul_of_nonneg_right hle (Int.le_of_lt hD)
    have e1 : py * (d * hd) = yn * hd * D := by
      have : py * (d * hd) = (py * d) * hd := by grind
      rw [this, ey]; grind
    have e2 : lo * (d * hd) = hn * d * D := by
      have : lo * (d * hd) = (lo * hd) * d := by grind
      rw [this, hlo]; grind
    have hpos : 0 < d * hd := Int.mul_pos dpos hd0
    have : py * (d * hd) ≤ lo * (d * hd) := by omega
    exact Int.le_of_mul_le_mul_right this hpos

/-- the insertion order just above `y0` is the (non-strict) left-to-right order on the scanline `y0` -/
theorem leAt_of_ltAbove (y0 : Int) {a b : GEdge} (h : ltAbove y0 a b) : leAt y0 1 a b = true := by
  rw [leAt_iff_g a b y0 1 (by omega)]
  have e := delta_at a b y0
  unfold gAt
  rcases (ltAbove_iff y0 a b).1 h with h' | ⟨h', _⟩ <;> omega

theorem ySorted_of_yChain : ∀ (ops : List ROp) (lo : Int), YChain lo ops → ySorted ops = true := by
  intro ops
  induction ops with
  | nil => intro _ _; rfl
  | cons a t ih =>
    intro lo h
    cases t with
    | nil => rfl
    | cons b t' =>
      have e1 : opPt a = a.pt := by cases a <;> rfl
      have e2 : opPt b = b.pt := by cases b <;> rfl
      simp only [ySorted, Bool.and_eq_true, decide_eq_true_eq]
      exact ⟨by rw [e1, e2]; exact h.2.1, ih a.pt.y h.2⟩

end Clipper.Lemmas.C01Output
