/-
Frame properties of `ProcessHorzJoins`: after the four pointer writes of `splice`, nothing else in the loop body touches a `next`,
a `prev` or a point (`FixOutRecPts`, `NewOutRec`, `SetOwner`, `MoveSplits` and the `splits`/`owner`/`pts` assignments only write
`OutPt::outrec` and `OutRec` fields).  Helper file of `Props/C02Horz.lean`.  Core Lean only.
-/
import ClipperVerif.Lemmas.HorzJoinsProcess
namespace Clipper.Model.HorzJoins
open Clipper

theorem bind_ok {α β : Type} {x : R α} {f : α → R β} {b : β} : (x >>= f) = .ok b ↔ ∃ a, x = .ok a ∧ f a = .ok b := by
  cases x <;> simp [bind, Except.bind]

/-- same links and points (the `outrec` fields, `horz` marks and the record table may differ) -/
def SameLinks (H H' : Heap) : Prop :=
  nextOf H' = nextOf H ∧ prevOf H' = prevOf H ∧ ptOf H' = ptOf H ∧ H'.ops.size = H.ops.size

theorem SameLinks.refl (H : Heap) : SameLinks H H := ⟨rfl, rfl, rfl, rfl⟩

theorem SameLinks.trans {H1 H2 H3 : Heap} (a : SameLinks H1 H2) (b : SameLinks H2 H3) : SameLinks H1 H3 :=
  ⟨b.1.trans a.1, b.2.1.trans a.2.1, b.2.2.1.trans a.2.2.1, b.2.2.2.trans a.2.2.2⟩

theorem SameLinks.of_ops_eq {H H' : Heap} (h : H'.ops = H.ops) : SameLinks H H' := by
  unfold SameLinks nextOf prevOf ptOf; rw [h]; exact ⟨rfl, rfl, rfl, rfl⟩

theorem sameLinks_updRec {H H' : Heap} {i : Nat} {f : ORec → ORec} (h : H.updRec i f = .ok H') : SameLinks H H' :=
  SameLinks.of_ops_eq (updRec_ok h).2.1

theorem sameLinks_updOrec {H H' : Heap} {i v : Nat} (h : H.updNode i (fun x => { x with orec := v }) = .ok H') : SameLinks H H' := by
  obtain ⟨a, b, _, d, _, f⟩ := upd_orec_eqs h
  exact ⟨a, b, d, f⟩

theorem sameLinks_updHorz {H H' : Heap} {i : Nat} {v : Bool} (h : H.updNode i (fun x => { x with horz := v }) = .ok H') : SameLinks H H' := by
  obtain ⟨a, b, _, d, _, f⟩ := upd_horz_eqs h
  exact ⟨a, b, d, f⟩

/-- `FixOutRecPts` writes `outrec` fields only -/
theorem fixLoop_frame (ri start : Nat) : ∀ (fuel : Nat) (H H' : Heap) (cur : Nat), fixLoop ri start fuel H cur = .ok H' →
    SameLinks H H' ∧ H'.recs = H.recs
  | 0, _, _, _, h => by simp [fixLoop] at h
  | f + 1, H, H', cur, h => by
    unfold fixLoop at h
    cases hn : H.node cur with
    | error e => simp [hn] at h
    | ok n =>
      simp only [hn] at h
      cases hu : H.updNode cur (fun x => { x with orec := ri }) with
      | error e => simp [hu] at h
      | ok H1 =>
        simp only [hu] at h
        have s1 := sameLinks_updOrec hu
        have r1 := (upd_orec_eqs hu).2.2.2.2.1
        split at h
        · cases h; exact ⟨s1, r1⟩
        · have ih := fixLoop_frame ri start f H1 H' n.next h
          exact ⟨s1.trans ih.1, ih.2.trans r1⟩

theorem fixOutRecPts_frame {H H' : Heap} {ri : Nat} (h : fixOutRecPts H ri = .ok H') : SameLinks H H' ∧ H'.recs = H.recs := by
  unfold fixOutRecPts at h
  cases hr : H.orec ri with
  | error e => simp [hr] at h
  | ok r =>
    simp only [hr] at h
    cases hp : r.pts with
    | none => simp [hp] at h
    | some p => simp only [hp] at h; exact fixLoop_frame _ _ _ _ _ _ h

theorem skipDeadOwners_ops (no : Nat) : ∀ (fuel : Nat) (H H' : Heap), skipDeadOwners no fuel H = .ok H' → H'.ops = H.ops
  | 0, _, _, h => by simp [skipDeadOwners] at h
  | f + 1, H, H', h => by
    unfold skipDeadOwners at h
    cases hr : H.orec no with
    | error e => simp [hr] at h
    | ok r =>
      simp only [hr] at h
      cases ho : r.owner with
      | none => simp only [ho] at h; cases h; rfl
      | some o =>
        simp only [ho] at h
        cases hoo : H.orec o with
        | error e => simp [hoo] at h
        | ok orc =>
          simp only [hoo] at h
          split at h
          · cases h; rfl
          · cases hu : H.updRec no (fun x => { x with owner := orc.owner }) with
            | error e => simp [hu] at h
            | ok H1 =>
              simp only [hu] at h
              exact (skipDeadOwners_ops no f H1 H' h).trans (updRec_ok hu).2.1

theorem setOwner_ops {H H' : Heap} {i no : Nat} (h : setOwner H i no = .ok H') : H'.ops = H.ops := by
  unfold setOwner at h
  simp only [bind_ok] at h
  obtain ⟨H1, h1, valid, _, r, _, H2, h2, h3⟩ := h
  have e1 := skipDeadOwners_ops _ _ _ _ h1
  have e2 : H2.ops = H1.ops := by
    unfold breakCycle at h2
    split at h2
    · cases h2; rfl
    · exact (updRec_ok h2).2.1
  exact ((updRec_ok h3).2.1.trans e2).trans e1

theorem moveSplits_ops {H H' : Heap} {a b : Nat} (h : moveSplits H a b = .ok H') : H'.ops = H.ops := by
  unfold moveSplits at h
  simp only [bind_ok] at h
  obtain ⟨fr, _, h⟩ := h
  split at h
  · cases h; rfl
  · simp only [bind_ok] at h
    obtain ⟨H1, h1, h2⟩ := h
    exact (updRec_ok h2).2.1.trans (updRec_ok h1).2.1

theorem keepPts_frame {H H' : Heap} {o1 o2 op1 : Nat} (h : keepPts H o1 o2 op1 = .ok H') : SameLinks H H' := by
  unfold keepPts at h
  cases hp : ptsOfRec H o1 with
  | error e => simp [hp] at h
  | ok p1 =>
    simp only [hp] at h
    cases hn : H.node p1 with
    | error e => simp [hn] at h
    | ok np1 =>
      simp only [hn] at h
      split at h
      · cases hu : H.updRec o1 (fun x => { x with pts := some op1 }) with
        | error e => simp [hu] at h
        | ok H1 =>
          simp only [hu] at h
          exact (sameLinks_updRec hu).trans (sameLinks_updOrec h)
      · cases h; exact SameLinks.refl _

theorem splitOwnerChoice_frame {H H' : Heap} {o1 o2 p1 p2 : Nat} {a b : Bool} (h : splitOwnerChoice H o1 o2 p1 p2 a b = .ok H') :
    SameLinks H H' := by
  unfold splitOwnerChoice at h
  split at h
  · cases h1 : H.updRec o1 (fun x => { x with pts := some p2 }) with
    | error e => simp [h1] at h
    | ok H1 =>
      simp only [h1] at h
      cases h2 : H1.updRec o2 (fun x => { x with pts := some p1 }) with
      | error e => simp [h2] at h
      | ok H2 =>
        simp only [h2] at h
        cases h3 : fixOutRecPts H2 o1 with
        | error e => simp [h3] at h
        | ok H3 =>
          simp only [h3] at h
          cases h4 : fixOutRecPts H3 o2 with
          | error e => simp [h4] at h
          | ok H4 =>
            simp only [h4] at h
            exact (((sameLinks_updRec h1).trans (sameLinks_updRec h2)).trans (fixOutRecPts_frame h3).1).trans
              ((fixOutRecPts_frame h4).1.trans (sameLinks_updRec h))
  · split at h
    · exact sameLinks_updRec h
    · cases hr : H.orec o1 with
      | error e => simp [hr] at h
      | ok r1 => simp only [hr] at h; exact sameLinks_updRec h

theorem splitOwners_frame {inside : List Pt → List Pt → Bool} {H H' : Heap} {o1 o2 : Nat}
    (h : splitOwners inside H o1 o2 = .ok H') : SameLinks H H' := by
  unfold splitOwners at h
  simp only [bind_ok] at h
  obtain ⟨p1, _, p2, _, ring1, _, ring2, _, H1, h1, h2⟩ := h
  exact (splitOwnerChoice_frame h1).trans (sameLinks_updRec h2)

theorem splitBranch_frame {inside : List Pt → List Pt → Bool} {tree : Bool} {H H' : Heap} {j : HorzJoin} {or1 : Option Nat} {op1b : Nat}
    (h : splitBranch inside tree H j or1 op1b = .ok H') : SameLinks H H' := by
  unfold splitBranch at h
  simp only [bind_ok] at h
  obtain ⟨H1, h1, H2, h2, h⟩ := h
  have s0 : SameLinks H (newOutRec H).1 := SameLinks.of_ops_eq rfl
  have s1 := sameLinks_updRec h1
  have s2 := (fixOutRecPts_frame h2).1
  cases or1 with
  | none => simp at h
  | some o1 =>
    simp only [bind_ok] at h
    obtain ⟨H3, h3, h⟩ := h
    have s3 := keepPts_frame h3
    cases tree with
    | true => simp only [if_true] at h; exact (((s0.trans s1).trans s2).trans s3).trans (splitOwners_frame h)
    | false => simp only [Bool.false_eq_true, if_false] at h; exact (((s0.trans s1).trans s2).trans s3).trans (sameLinks_updRec h)

theorem mergeBranch_frame {tree : Bool} {H H' : Heap} {or1 or2 : Option Nat} (h : mergeBranch tree H or1 or2 = .ok H') : SameLinks H H' := by
  unfold mergeBranch at h
  cases or2 with
  | none => simp at h
  | some o2 =>
    simp only [bind_ok] at h
    obtain ⟨H1, h1, h⟩ := h
    have s1 := sameLinks_updRec h1
    cases tree with
    | true =>
      simp only [if_true] at h
      cases or1 with
      | none => simp at h
      | some o1 =>
        simp only [bind_ok] at h
        obtain ⟨H2, h2, h3⟩ := h
        exact (s1.trans (SameLinks.of_ops_eq (setOwner_ops h2))).trans (SameLinks.of_ops_eq (moveSplits_ops h3))
    | false => simp only [Bool.false_eq_true, if_false] at h; exact s1.trans (sameLinks_updRec h)

/-- **frame of one join**: whatever branch is taken, the links and points after `processJoin` are those right after the surgery -/
theorem processJoin_frame {inside : List Pt → List Pt → Bool} {tree : Bool} {H H' : Heap} {j : HorzJoin}
    (h : processJoin inside tree H j = .ok H') :
    ∃ Hs b1 b2, splice H j = .ok (Hs, b1, b2) ∧ SameLinks Hs H' := by
  unfold processJoin at h
  simp only [bind_ok] at h
  obtain ⟨n1, _, or1, _, n2, _, or2, _, ⟨Hs, b1, b2⟩, hs, h⟩ := h
  refine ⟨Hs, b1, b2, hs, ?_⟩
  simp only at h
  split at h
  · exact splitBranch_frame h
  · exact mergeBranch_frame h

end Clipper.Model.HorzJoins
