/-
Helper lemmas for Props/C08Tidy.lean, part 11: the invariant `SideInv` of the two edge lists of one rectangle side and the decrease
of the termination measure in every iteration of the `TidyEdges` loop.
Core Lean only.
-/
import ClipperVerif.Lemmas.RectClipTidyRelist
namespace Clipper.Lemmas.RCT
open Clipper Clipper.Model.RC Clipper.Model.RCT

/-- the coordinate across side `idx` (constant along the side) -/
def othOf (idx : Nat) (p : Pt) : Int := if idx == 1 || idx == 3 then p.y else p.x

/-- `x → y` heads weakly in the direction `fwd` (towards larger values) resp. the opposite one -/
def dirOK (fwd : Bool) (x y : Int) : Prop := if fwd then x ≤ y else y ≤ x

/-- **Invariant of the two edge lists of side `idx`.**  All entries `k` of `edges_[2 idx]` (`cw`) and `edges_[2 idx + 1]` (`ccw`)
have `k` and `prev k` on one line across the axis; the link `prev k → k` of a `cw` entry heads (weakly) clockwise along the side,
that of a `ccw` entry (weakly) counter-clockwise; no node occurs twice in the two lists. -/
structure SideInv (idx : Nat) (h : Heap) : Prop where
  line : ∃ c, ∀ k, (some k ∈ h.edges (idx * 2) ∨ some k ∈ h.edges (idx * 2 + 1)) →
    othOf idx (h.pt k) = c ∧ othOf idx (h.pt (h.prev k)) = c
  cwd : ∀ k, some k ∈ h.edges (idx * 2) →
    dirOK (idx == 1 || idx == 2) (axisOf idx (h.pt (h.prev k))) (axisOf idx (h.pt k))
  ccwd : ∀ k, some k ∈ h.edges (idx * 2 + 1) →
    dirOK (!(idx == 1 || idx == 2)) (axisOf idx (h.pt (h.prev k))) (axisOf idx (h.pt k))
  once : ∀ k, occ k (h.edges (idx * 2)) + occ k (h.edges (idx * 2 + 1)) ≤ 1

/-- `k` is an entry of one of the two lists of side `idx` -/
def SideMem (idx : Nat) (h : Heap) (k : Nat) : Prop := some k ∈ h.edges (idx * 2) ∨ some k ∈ h.edges (idx * 2 + 1)

/-- what an iteration of the `TidyEdges(idx)` loop leaves alone: the points, every other list up to nulled entries, the set of
entries of the side (it can only shrink), and `prev` of every node that is not an entry of the side -/
structure SideFrame (idx : Nat) (h h' : Heap) : Prop where
  pt : h'.pt = h.pt
  others : ∀ e, e ≠ idx * 2 → e ≠ idx * 2 + 1 → Below (h'.edges e) (h.edges e)
  mem : ∀ k, SideMem idx h' k → SideMem idx h k
  prev : ∀ k, ¬ SideMem idx h k → h'.prev k = h.prev k

theorem SideFrame.refl (idx : Nat) (h : Heap) : SideFrame idx h h :=
  ⟨rfl, fun _ _ _ => Below.refl _, fun _ hk => hk, fun _ _ => rfl⟩

theorem pt_eq_of_coords (idx : Nat) (p q : Pt) (h1 : othOf idx p = othOf idx q) (h2 : axisOf idx p = axisOf idx q) : p = q := by
  unfold othOf at h1; unfold axisOf at h2
  cases p; cases q
  split at h1 <;> simp_all

theorem isLarger_eq (idx : Nat) (h : Heap) (k : Nat) :
    isLarger (idx == 1 || idx == 3) h k = decide (axisOf idx (h.pt k) > axisOf idx (h.pt (h.prev k))) := by
  unfold isLarger axisOf
  split <;> rfl

theorem hasOverlap_iff (idx : Nat) (h : Heap) (p1 p1a p2 p2a : Nat) :
    hasOverlap (idx == 1 || idx == 3) h p1 p1a p2 p2a = true ↔
      axisOf idx (h.pt p1) < axisOf idx (h.pt p2a) ∧ axisOf idx (h.pt p1a) > axisOf idx (h.pt p2) := by
  unfold hasOverlap axisOf Gen.HasHorzOverlap Gen.HasVertOverlap
  split <;> simp

theorem tidyP_eq (idx : Nat) (h : Heap) :
    tidyP idx h = axisLen idx h h.n + wsum (zeroLen h) (h.edges (idx * 2)) + wsum (zeroLen h) (h.edges (idx * 2 + 1)) := rfl

theorem tidyMeasure_eq (idx : Nat) (s : TState) :
    tidyMeasure idx s = mu (tidyP idx s.h) (s.h.edges (idx * 2)).length (s.h.edges (idx * 2 + 1)).length
      ((s.h.edges (idx * 2)).length - s.i) ((s.h.edges (idx * 2 + 1)).length - s.j) := rfl

theorem zeroLen_none (h : Heap) : zeroLen h none = 0 := rfl

theorem zeroLen_congr (h h' : Heap) (hpt : h'.pt = h.pt) (k : Nat) (hp : h'.prev k = h.prev k) :
    zeroLen h' (some k) = zeroLen h (some k) := by
  simp only [zeroLen, hpt, hp]

theorem below_set_none (l : List (Option Nat)) (i : Nat) : Below (l.set i none) l := by
  refine ⟨by simp, ?_⟩
  intro m
  rw [List.getElem?_set]
  split
  · split
    · right; rfl
    · rename_i e1 e2; left; rw [← e1]; rw [List.getElem?_eq_none (by omega)]
  · left; rfl

theorem mem_of_mem_set_none {l : List (Option Nat)} {i k : Nat} (hm : some k ∈ l.set i none) : some k ∈ l :=
  (below_set_none l i).mem hm

/-- nulling entries of the two lists (nothing else changes) keeps the invariant and does not increase `P` -/
theorem sideInv_below (idx : Nat) (h h' : Heap) (si : SideInv idx h) (sr : SameRings h h')
    (b1 : Below (h'.edges (idx * 2)) (h.edges (idx * 2))) (b2 : Below (h'.edges (idx * 2 + 1)) (h.edges (idx * 2 + 1))) :
    SideInv idx h' ∧ tidyP idx h' ≤ tidyP idx h := by
  obtain ⟨s1, s2, s3, s4, s5, s6⟩ := sr
  obtain ⟨c, hc⟩ := si.line
  constructor
  · refine ⟨⟨c, ?_⟩, ?_, ?_, ?_⟩
    · intro k hk
      rw [s2, s4]
      exact hc k (hk.imp b1.mem b2.mem)
    · intro k hk; rw [s2, s4]; exact si.cwd k (b1.mem hk)
    · intro k hk; rw [s2, s4]; exact si.ccwd k (b2.mem hk)
    · intro k
      have := si.once k
      have e1 := b1.wsum_le (fun e => if e = some k then 1 else 0) (by simp)
      have e2 := b2.wsum_le (fun e => if e = some k then 1 else 0) (by simp)
      unfold occ at *
      omega
  · rw [tidyP_eq, tidyP_eq]
    have hz : zeroLen h' = zeroLen h := by
      funext e; cases e with
      | none => rfl
      | some k => simp only [zeroLen, s2, s4]
    have hl : axisLen idx h' h'.n = axisLen idx h h.n := by
      rw [s1]; exact axisLen_congr idx h h' s2 h.n (fun k _ => by rw [s4])
    rw [hz, hl]
    have e1 := b1.wsum_le (zeroLen h) rfl
    have e2 := b2.wsum_le (zeroLen h) rfl
    omega

/-! ### a split or rejoin -/

theorem occ_set_none (k : Nat) (l : List (Option Nat)) (i X : Nat) (hX : l[i]? = some (some X)) :
    occ k (l.set i none) + (if X = k then 1 else 0) = occ k l := by
  have := wsum_set (fun e => if e = some k then 1 else 0) l i none (some X) hX
  unfold occ
  simp only [Option.some.injEq] at this
  simp only [reduceCtorEq, if_false, Nat.add_zero] at this
  exact this

theorem psum_nil (f : Option Nat → Nat) : psum f [] = 0 := rfl
theorem psum_cons (f : Option Nat → Nat) (a : Nat) (l : List Nat) : psum f (a :: l) = f (some a) + psum f l := by
  simp [psum]
theorem psum_append (f : Option Nat → Nat) (l1 l2 : List Nat) : psum f (l1 ++ l2) = psum f l1 + psum f l2 := by
  simp [psum]

/-- the arithmetic of one split/rejoin: `u, v` = axis coordinates of `prev cw[i]`, `cw[i]`; `w, x` = those of `ccw[j]`,
`prev ccw[j]`; afterwards the two `prev` are swapped -/
theorem splice_arith (fwd : Bool) (u v w x : Int) (d1 : dirOK fwd u v) (d2 : dirOK (!fwd) x w)
    (ov : if fwd then u < x ∧ v > w else v < w ∧ u > x) :
    ((v ≠ u ∧ w ≠ x) → (v - x).natAbs + (w - u).natAbs + 2 ≤ (v - u).natAbs + (w - x).natAbs) ∧
    ((v = u ∨ w = x) → (v - x).natAbs + (w - u).natAbs = (v - u).natAbs + (w - x).natAbs ∧ v ≠ x ∧ w ≠ u) := by
  cases fwd <;> simp only [dirOK, Bool.not_true, Bool.not_false, Bool.false_eq_true, if_false, if_true] at d1 d2 ov <;> omega

/-- **Effect of one split/rejoin on the invariant and on `P`.**  `h5` is the heap after `tidySplice` (the `prev` pointers of
`cw[i]` and `ccw[j]` are swapped, nothing else that matters here changes), `s'` the state after the relisting step. -/
theorem splice_side (idx : Nat) (h h5 : Heap) (si : SideInv idx h) (i j cwI ccwJ op op2 : Nat)
    (hci : (h.edges (idx * 2))[i]? = some (some cwI)) (hcj : (h.edges (idx * 2 + 1))[j]? = some (some ccwJ))
    (hlt1 : cwI < h.n) (hlt2 : ccwJ < h.n)
    (hov : if (idx == 1 || idx == 2) then
        axisOf idx (h.pt (h.prev cwI)) < axisOf idx (h.pt (h.prev ccwJ)) ∧ axisOf idx (h.pt cwI) > axisOf idx (h.pt ccwJ)
      else axisOf idx (h.pt cwI) < axisOf idx (h.pt ccwJ) ∧ axisOf idx (h.pt (h.prev cwI)) > axisOf idx (h.pt (h.prev ccwJ)))
    (f1 : h5.pt = h.pt) (f2 : h5.n = h.n) (f3 : h5.edges = h.edges)
    (p1 : h5.prev cwI = h.prev ccwJ) (p2 : h5.prev ccwJ = h.prev cwI)
    (p3 : ∀ k, k ≠ cwI → k ≠ ccwJ → h5.prev k = h.prev k)
    (hL : axisLen idx h5 h.n + linkLen idx h cwI (h.prev cwI) + linkLen idx h ccwJ (h.prev ccwJ) =
      axisLen idx h h.n + linkLen idx h cwI (h.prev ccwJ) + linkLen idx h ccwJ (h.prev cwI))
    (hops : (op = cwI ∧ op2 = ccwJ) ∨ (op = ccwJ ∧ op2 = cwI))
    (s' : TState) (pcw pccw : List Nat)
    (ro : RelistOut (idx * 2) (idx * 2 + 1) (idx == 1 || idx == 2) (idx == 1 || idx == 3) h5 i j op op2 s' pcw pccw) :
    SideInv idx s'.h ∧ tidyP idx s'.h + 1 ≤ tidyP idx h ∧
      tidyP idx s'.h + (s'.h.edges (idx * 2)).length + (s'.h.edges (idx * 2 + 1)).length ≤
        tidyP idx h + (h.edges (idx * 2)).length + (h.edges (idx * 2 + 1)).length ∧ SideFrame idx h s'.h := by
  obtain ⟨c, hc⟩ := si.line
  have mcw : some cwI ∈ h.edges (idx * 2) := List.mem_of_getElem? hci
  have mccw : some ccwJ ∈ h.edges (idx * 2 + 1) := List.mem_of_getElem? hcj
  -- cw[i] and ccw[j] occur nowhere else
  have o1 := (occ_pos_iff cwI _).mpr mcw
  have o2 := (occ_pos_iff ccwJ _).mpr mccw
  have hne : cwI ≠ ccwJ := by
    intro e; subst e
    have := si.once cwI; omega
  have q1 := fun k => occ_set_none k (h.edges (idx * 2)) i cwI hci
  have q2 := fun k => occ_set_none k (h.edges (idx * 2 + 1)) j ccwJ hcj
  have rest_cw : ∀ k, some k ∈ (h.edges (idx * 2)).set i none → k ≠ cwI ∧ k ≠ ccwJ := by
    intro k hk
    have hp := (occ_pos_iff k _).mpr hk
    have := si.once k; have := q1 k; have := q2 k
    have := si.once cwI; have := si.once ccwJ
    constructor
    · intro e; subst e; simp only [if_true] at *; omega
    · intro e; subst e
      have := (occ_pos_iff k _).mpr (mem_of_mem_set_none hk)
      omega
  have rest_ccw : ∀ k, some k ∈ (h.edges (idx * 2 + 1)).set j none → k ≠ cwI ∧ k ≠ ccwJ := by
    intro k hk
    have hp := (occ_pos_iff k _).mpr hk
    have := si.once k; have := q1 k; have := q2 k
    have := si.once cwI; have := si.once ccwJ
    constructor
    · intro e; subst e
      have := (occ_pos_iff k _).mpr (mem_of_mem_set_none hk)
      omega
    · intro e; subst e; simp only [if_true] at *; omega
  obtain ⟨sr1, sr2, sr3, sr4, sr5, sr6⟩ := ro.same
  -- pt / prev in the final heap
  have fpt : s'.h.pt = h.pt := sr2.trans f1
  have fprev : s'.h.prev = h5.prev := sr4
  -- the placed nodes
  have placed_mem : ∀ k, k ∈ pcw ++ pccw → k = cwI ∨ k = ccwJ := by
    intro k hk
    rcases ro.placed with e | e | ⟨e | e, _⟩ <;> rw [e] at hk <;>
      simp only [List.mem_cons, List.not_mem_nil, or_false] at hk <;>
      rcases hops with ⟨rfl, rfl⟩ | ⟨rfl, rfl⟩ <;> omega
  -- arithmetic
  have dcw := si.cwd cwI mcw
  have dccw := si.ccwd ccwJ mccw
  have ar := splice_arith (idx == 1 || idx == 2) (axisOf idx (h.pt (h.prev cwI))) (axisOf idx (h.pt cwI))
    (axisOf idx (h.pt ccwJ)) (axisOf idx (h.pt (h.prev ccwJ))) dcw dccw hov
  -- new axis data of the two nodes
  have line1 := hc cwI (Or.inl mcw)
  have line2 := hc ccwJ (Or.inr mccw)
  have hlen2 : (pcw ++ pccw).length ≤ 2 := by
    rcases ro.placed with e | e | ⟨e | e, _⟩ <;> rw [e] <;> simp
  have hlens := ro.lens
  rw [f3] at hlens
  have hframe : SideFrame idx h s'.h := by
    refine ⟨fpt, ?_, ?_, ?_⟩
    · intro e e1 e2; have := ro.others e e1 e2; rw [f3] at this; exact this
    · intro k hk
      rcases hk with hk | hk
      · rcases ro.memcw k hk with m | m
        · rw [f3] at m; exact Or.inl (mem_of_mem_set_none m)
        · rcases placed_mem k (List.mem_append.mpr (Or.inl m)) with rfl | rfl
          · exact Or.inl mcw
          · exact Or.inr mccw
      · rcases ro.memccw k hk with m | m
        · rw [f3] at m; exact Or.inr (mem_of_mem_set_none m)
        · rcases placed_mem k (List.mem_append.mpr (Or.inr m)) with rfl | rfl
          · exact Or.inl mcw
          · exact Or.inr mccw
    · intro k hk
      rw [fprev]
      apply p3
      · intro e; subst e; exact hk (Or.inl mcw)
      · intro e; subst e; exact hk (Or.inr mccw)
  suffices hmain : SideInv idx s'.h ∧ tidyP idx s'.h + 1 ≤ tidyP idx h by
    refine ⟨hmain.1, hmain.2, ?_, hframe⟩
    have := hmain.2
    omega
  refine ⟨⟨⟨c, ?_⟩, ?_, ?_, ?_⟩, ?_⟩
  · -- line
    intro k hk
    rw [fpt, fprev]
    have hk' : (some k ∈ (h.edges (idx * 2)).set i none ∨ some k ∈ (h.edges (idx * 2 + 1)).set j none) ∨ (k = cwI ∨ k = ccwJ) := by
      rcases hk with hk | hk
      · rcases ro.memcw k hk with m | m
        · rw [f3] at m; exact Or.inl (Or.inl m)
        · exact Or.inr (placed_mem k (List.mem_append.mpr (Or.inl m)))
      · rcases ro.memccw k hk with m | m
        · rw [f3] at m; exact Or.inl (Or.inr m)
        · exact Or.inr (placed_mem k (List.mem_append.mpr (Or.inr m)))
    rcases hk' with hk' | hk'
    · have hn : k ≠ cwI ∧ k ≠ ccwJ := hk'.elim (rest_cw k) (rest_ccw k)
      rw [p3 k hn.1 hn.2]
      exact hc k (hk'.imp mem_of_mem_set_none mem_of_mem_set_none)
    · rcases hk' with rfl | rfl
      · rw [p1]; exact ⟨line1.1, line2.2⟩
      · rw [p2]; exact ⟨line2.1, line1.2⟩
  · -- cw direction
    intro k hk
    rw [fpt, fprev]
    rcases ro.memcw k hk with m | m
    · rw [f3] at m
      have hn := rest_cw k m
      rw [p3 k hn.1 hn.2]
      exact si.cwd k (mem_of_mem_set_none m)
    · have := ro.dcw k m
      rw [isLarger_eq, f1] at this
      cases hf : (idx == 1 || idx == 2) <;> rw [hf] at this <;> simp only [dirOK, Bool.false_eq_true, if_false, if_true] <;>
        simp only [decide_eq_true_eq, decide_eq_false_iff_not] at this <;> omega
  · -- ccw direction
    intro k hk
    rw [fpt, fprev]
    rcases ro.memccw k hk with m | m
    · rw [f3] at m
      have hn := rest_ccw k m
      rw [p3 k hn.1 hn.2]
      exact si.ccwd k (mem_of_mem_set_none m)
    · have := ro.dccw k m
      rw [isLarger_eq, f1] at this
      cases hf : (idx == 1 || idx == 2) <;> rw [hf] at this <;>
        simp only [dirOK, Bool.not_true, Bool.not_false, Bool.false_eq_true, if_false, if_true] <;>
        simp only [ne_eq, decide_eq_true_eq, decide_eq_false_iff_not, Bool.not_eq_true, Bool.not_eq_false] at this <;> omega
  · -- once
    intro k
    have hs := ro.sums (fun e => if e = some k then 1 else 0) (by simp)
    rw [f3] at hs
    have hq1 := q1 k; have hq2 := q2 k; have hon := si.once k
    have hps : psum (fun e => if e = some k then 1 else 0) pcw + psum (fun e => if e = some k then 1 else 0) pccw ≤
        (if cwI = k then 1 else 0) + (if ccwJ = k then 1 else 0) := by
      rw [← psum_append]
      rcases ro.placed with e | e | ⟨e | e, _⟩ <;> rw [e] <;>
        simp only [psum_cons, psum_nil, Option.some.injEq] <;>
        rcases hops with ⟨rfl, rfl⟩ | ⟨rfl, rfl⟩ <;> (repeat' split) <;> omega
    unfold occ at *
    omega
  · -- P drops
    rw [tidyP_eq, tidyP_eq]
    have hz : zeroLen s'.h = zeroLen h5 := by
      funext e; cases e with
      | none => rfl
      | some k => simp only [zeroLen, sr2, sr4]
    have hl : axisLen idx s'.h s'.h.n = axisLen idx h5 h.n := by
      rw [sr1, f2]; exact axisLen_congr idx h5 s'.h sr2 h.n (fun k _ => by rw [sr4])
    rw [hz, hl]
    have hs := ro.sums (zeroLen h5) rfl
    rw [f3] at hs
    -- the rest sums are those of the old heap
    have r1 : wsum (zeroLen h5) ((h.edges (idx * 2)).set i none) = wsum (zeroLen h) ((h.edges (idx * 2)).set i none) := by
      apply wsum_congr
      intro e he
      cases e with
      | none => rfl
      | some k => have hn := rest_cw k he; exact zeroLen_congr h h5 f1 k (p3 k hn.1 hn.2)
    have r2 : wsum (zeroLen h5) ((h.edges (idx * 2 + 1)).set j none) = wsum (zeroLen h) ((h.edges (idx * 2 + 1)).set j none) := by
      apply wsum_congr
      intro e he
      cases e with
      | none => rfl
      | some k => have hn := rest_ccw k he; exact zeroLen_congr h h5 f1 k (p3 k hn.1 hn.2)
    have t1 := wsum_set (zeroLen h) (h.edges (idx * 2)) i none (some cwI) hci
    have t2 := wsum_set (zeroLen h) (h.edges (idx * 2 + 1)) j none (some ccwJ) hcj
    simp only [zeroLen_none, Nat.add_zero] at t1 t2
    rw [r1, r2] at hs
    -- zero-length status of the two nodes, before and after
    have zc : zeroLen h (some cwI) = if axisOf idx (h.pt cwI) = axisOf idx (h.pt (h.prev cwI)) then 1 else 0 := by
      simp only [zeroLen]
      by_cases e : h.pt cwI = h.pt (h.prev cwI)
      · simp [e]
      · have : axisOf idx (h.pt cwI) ≠ axisOf idx (h.pt (h.prev cwI)) := fun ea =>
          e (pt_eq_of_coords idx _ _ (line1.1.trans line1.2.symm) ea)
        simp [e, this]
    have zj : zeroLen h (some ccwJ) = if axisOf idx (h.pt ccwJ) = axisOf idx (h.pt (h.prev ccwJ)) then 1 else 0 := by
      simp only [zeroLen]
      by_cases e : h.pt ccwJ = h.pt (h.prev ccwJ)
      · simp [e]
      · have : axisOf idx (h.pt ccwJ) ≠ axisOf idx (h.pt (h.prev ccwJ)) := fun ea =>
          e (pt_eq_of_coords idx _ _ (line2.1.trans line2.2.symm) ea)
        simp [e, this]
    have zc5 : zeroLen h5 (some cwI) ≤ if axisOf idx (h.pt cwI) = axisOf idx (h.pt (h.prev ccwJ)) then 1 else 0 := by
      simp only [zeroLen, f1, p1]
      by_cases e : h.pt cwI = h.pt (h.prev ccwJ)
      · simp [e]
      · simp [e]
    have zj5 : zeroLen h5 (some ccwJ) ≤ if axisOf idx (h.pt ccwJ) = axisOf idx (h.pt (h.prev cwI)) then 1 else 0 := by
      simp only [zeroLen, f1, p2]
      by_cases e : h.pt ccwJ = h.pt (h.prev cwI)
      · simp [e]
      · simp [e]
    -- the placed nodes contribute at most one, and nothing when two are placed
    have hps : psum (zeroLen h5) pcw + psum (zeroLen h5) pccw ≤ zeroLen h5 (some cwI) + zeroLen h5 (some ccwJ) ∧
        (psum (zeroLen h5) pcw + psum (zeroLen h5) pccw ≤ 1) := by
      rw [← psum_append]
      have zle : ∀ k, zeroLen h5 (some k) ≤ 1 := by intro k; simp only [zeroLen]; split <;> omega
      have := zle cwI; have := zle ccwJ
      rcases ro.placed with e | e | ⟨e | e, hp1, hp2⟩
      · rw [e]; simp only [psum_cons, psum_nil]
        rcases hops with ⟨rfl, rfl⟩ | ⟨rfl, rfl⟩ <;> omega
      · rw [e]; simp only [psum_cons, psum_nil]
        rcases hops with ⟨rfl, rfl⟩ | ⟨rfl, rfl⟩ <;> omega
      · rw [e]; simp only [psum_cons, psum_nil]
        have z1 : zeroLen h5 (some op) = 0 := by simp [zeroLen, hp1]
        have z2 : zeroLen h5 (some op2) = 0 := by simp [zeroLen, hp2]
        omega
      · rw [e]; simp only [psum_cons, psum_nil]
        have z1 : zeroLen h5 (some op) = 0 := by simp [zeroLen, hp1]
        have z2 : zeroLen h5 (some op2) = 0 := by simp [zeroLen, hp2]
        omega
    unfold linkLen at hL
    by_cases hstrict : axisOf idx (h.pt cwI) ≠ axisOf idx (h.pt (h.prev cwI)) ∧
        axisOf idx (h.pt ccwJ) ≠ axisOf idx (h.pt (h.prev ccwJ))
    · have := ar.1 hstrict
      omega
    · have hz' : axisOf idx (h.pt cwI) = axisOf idx (h.pt (h.prev cwI)) ∨
          axisOf idx (h.pt ccwJ) = axisOf idx (h.pt (h.prev ccwJ)) := by omega
      have := ar.2 hz'
      rw [zc] at t1; rw [zj] at t2
      split at t1 <;> split at t2 <;> split at zc5 <;> split at zj5 <;> omega

/-! ### one iteration: the measure decreases -/

theorem tidyStep_measure (idx : Nat) (s : TState) (ring : Nat → List Nat) (inv : TInv s.h ring) (si : SideInv idx s.h)
    (hj : s.j ≤ (s.h.edges (idx * 2 + 1)).length) :
    tidyStep idx s = .done ∨ ∃ b s', tidyStep idx s = .next b s' ∧ SideInv idx s'.h ∧
      tidyMeasure idx s' < tidyMeasure idx s ∧ SideFrame idx s.h s'.h := by
  have hne : idx * 2 ≠ idx * 2 + 1 := by omega
  unfold tidyStep
  simp only
  split
  · rename_i hi
    cases hcw : (s.h.edges (idx * 2))[s.i]? with
    | none => exact absurd (List.getElem?_eq_none_iff.mp hcw) (by omega)
    | some e =>
      simp only
      split
      · -- skipCw
        right
        have sb := sideInv_below idx s.h (s.h.setEdge (idx * 2) s.i none) si (sameRings_setEdge _ _ _ _)
          (by rw [edges_setEdge, if_pos rfl]; exact below_set_none _ _)
          (by rw [edges_setEdge, if_neg (by omega)]; exact Below.refl _)
        refine ⟨_, _, rfl, sb.1, ?_, ?_⟩
        · rw [tidyMeasure_eq, tidyMeasure_eq]
          simp only [edges_setEdge, if_true, List.length_set, hne.symm, if_false]
          exact mu_next_i sb.2 hi hj (Nat.zero_le _)
        · refine ⟨rfl, ?_, ?_, fun _ _ => rfl⟩
          · intro e e1 e2; simp only; rw [edges_setEdge, if_neg e1]; exact Below.refl _
          · intro k hk
            rcases hk with hk | hk
            · simp only at hk; rw [edges_setEdge, if_pos rfl] at hk; exact Or.inl (mem_of_mem_set_none hk)
            · simp only at hk; rw [edges_setEdge, if_neg (by omega)] at hk; exact Or.inr hk
      · rename_i hskip
        cases e with
        | none => simp [skipEntry] at hskip
        | some cwI =>
          simp only
          have sc := scanCcw_spec s.h (s.h.edges (idx * 2 + 1)) s.j hj
          split
          · -- ccwExhausted
            right
            refine ⟨_, _, rfl, si, ?_, SideFrame.refl _ _⟩
            rw [tidyMeasure_eq, tidyMeasure_eq]
            exact mu_next_i (Nat.le_refl _) hi hj (Nat.zero_le _)
          · rename_i hjl
            have hjlt : scanCcw s.h (s.h.edges (idx * 2 + 1)) s.j < (s.h.edges (idx * 2 + 1)).length := by omega
            cases hccw : (s.h.edges (idx * 2 + 1))[scanCcw s.h (s.h.edges (idx * 2 + 1)) s.j]? with
            | none => exact absurd (List.getElem?_eq_none_iff.mp hccw) (by omega)
            | some e2 =>
              cases e2 with
              | none =>
                have := sc.2.2 none hccw
                simp [skipEntry] at this
              | some ccwJ =>
                simp only
                have hcm : some cwI ∈ s.h.edges (idx * 2) := List.mem_of_getElem? hcw
                have hjm : some ccwJ ∈ s.h.edges (idx * 2 + 1) := List.mem_of_getElem? hccw
                obtain ⟨scs, hcs⟩ := inv.el _ _ hcm
                obtain ⟨sjs, hjs⟩ := inv.el _ _ hjm
                have lt1 : cwI < s.h.n := inv.w.lt _ _ hcs
                have lt2 : ccwJ < s.h.n := inv.w.lt _ _ hjs
                have hneq : cwI ≠ ccwJ := by
                  intro e; subst e
                  have := si.once cwI
                  have := (occ_pos_iff cwI _).mpr hcm
                  have := (occ_pos_iff cwI _).mpr hjm
                  omega
                right
                cases hTL : (idx == 1 || idx == 2) with
                | true =>
                  simp only [if_true]
                  split
                  · -- noOverlap
                    refine ⟨_, _, rfl, si, ?_, SideFrame.refl _ _⟩
                    rw [tidyMeasure_eq, tidyMeasure_eq]
                    exact mu_next_j (by simp only; omega) (by simp only; omega)
                  · rename_i hov
                    have hov' : hasOverlap (idx == 1 || idx == 3) s.h (s.h.prev cwI) cwI ccwJ (s.h.prev ccwJ) = true := by
                      simpa using hov
                    have hne' := hasOverlap_ne hov'
                    obtain ⟨h5, rj, ring', e5, w5, fr, lv⟩ := tidySplice_wf_true s.h ring inv.w cwI ccwJ scs sjs hcs hjs hne'
                    rw [e5]
                    simp only
                    obtain ⟨f1, f2, f3, f4, f5, f6⟩ := fr
                    obtain ⟨b, s', pcw, pccw, er, ro⟩ := tidyRelist_out (idx * 2) (idx * 2 + 1) hne true (idx == 1 || idx == 3) h5
                      s.i (scanCcw s.h (s.h.edges (idx * 2 + 1)) s.j) ccwJ cwI rj (by rw [f3]; exact hi) (by rw [f3]; exact hjlt)
                    have hL := axisLen_upd2 idx s.h h5 f2 ccwJ (s.h.prev cwI) cwI (s.h.prev ccwJ) (fun e => hneq e.symm) f6
                      s.h.n lt2 lt1
                    have ss := splice_side idx s.h h5 si s.i (scanCcw s.h (s.h.edges (idx * 2 + 1)) s.j) cwI ccwJ ccwJ cwI
                      hcw hccw lt1 lt2 (by rw [hTL]; simpa [hasOverlap_iff] using hov') f2 f1 f3
                      (by rw [f6]; simp) (by rw [f6, upd_ne _ _ (fun e => hneq e.symm)]; simp)
                      (by intro k k1 k2; rw [f6, upd_ne _ _ k1, upd_ne _ _ k2])
                      (by omega) (Or.inr ⟨rfl, rfl⟩) s' pcw pccw (by rw [hTL]; exact ro)
                    refine ⟨b, s', er, ss.1, ?_, ss.2.2.2⟩
                    rw [tidyMeasure_eq, tidyMeasure_eq]
                    exact mu_splice ss.2.1 ss.2.2.1 (Nat.sub_le _ _) (Nat.sub_le _ _)
                | false =>
                  simp only [Bool.false_eq_true, if_false]
                  split
                  · refine ⟨_, _, rfl, si, ?_, SideFrame.refl _ _⟩
                    rw [tidyMeasure_eq, tidyMeasure_eq]
                    exact mu_next_j (by simp only; omega) (by simp only; omega)
                  · rename_i hov
                    have hov' : hasOverlap (idx == 1 || idx == 3) s.h cwI (s.h.prev cwI) (s.h.prev ccwJ) ccwJ = true := by
                      simpa using hov
                    have hne' := hasOverlap_ne hov'
                    obtain ⟨h5, rj, ring', e5, w5, fr, lv⟩ := tidySplice_wf_false s.h ring inv.w cwI ccwJ scs sjs hcs hjs hne'
                    rw [e5]
                    simp only
                    obtain ⟨f1, f2, f3, f4, f5, f6⟩ := fr
                    obtain ⟨b, s', pcw, pccw, er, ro⟩ := tidyRelist_out (idx * 2) (idx * 2 + 1) hne false (idx == 1 || idx == 3) h5
                      s.i (scanCcw s.h (s.h.edges (idx * 2 + 1)) s.j) cwI ccwJ rj (by rw [f3]; exact hi) (by rw [f3]; exact hjlt)
                    have hL := axisLen_upd2 idx s.h h5 f2 cwI (s.h.prev ccwJ) ccwJ (s.h.prev cwI) hneq f6 s.h.n lt1 lt2
                    have ss := splice_side idx s.h h5 si s.i (scanCcw s.h (s.h.edges (idx * 2 + 1)) s.j) cwI ccwJ cwI ccwJ
                      hcw hccw lt1 lt2 (by rw [hTL]; simpa [hasOverlap_iff] using hov') f2 f1 f3
                      (by rw [f6, upd_ne _ _ hneq]; simp) (by rw [f6]; simp)
                      (by intro k k1 k2; rw [f6, upd_ne _ _ k2, upd_ne _ _ k1])
                      (by omega) (Or.inl ⟨rfl, rfl⟩) s' pcw pccw (by rw [hTL]; exact ro)
                    refine ⟨b, s', er, ss.1, ?_, ss.2.2.2⟩
                    rw [tidyMeasure_eq, tidyMeasure_eq]
                    exact mu_splice ss.2.1 ss.2.2.1 (Nat.sub_le _ _) (Nat.sub_le _ _)
  · left; rfl

/-- the loop runs out of neither fuel nor luck: with more fuel than the measure it returns -/
theorem tidyLoop_terminates (idx : Nat) : ∀ (fuel : Nat) (s : TState) (ring : Nat → List Nat), TInv s.h ring →
    SideInv idx s.h → s.j ≤ (s.h.edges (idx * 2 + 1)).length → tidyMeasure idx s < fuel →
    ∃ res, tidyLoop idx fuel s = .ok res
  | 0, _, _, _, _, _, hf => absurd hf (Nat.not_lt_zero _)
  | fuel + 1, s, ring, inv, si, hj, hf => by
    rcases tidyStep_inv idx s ring inv hj with hd | ⟨b, s', ring', hn, inv', _, _, _, hj', _⟩
    · exact ⟨(s.h, []), by simp [tidyLoop, hd]⟩
    · rcases tidyStep_measure idx s ring inv si hj with hd | ⟨b2, s2, hn2, si2, hm, _⟩
      · rw [hd] at hn; cases hn
      · rw [hn] at hn2
        simp only [TStep.next.injEq] at hn2
        obtain ⟨_, rfl⟩ := hn2
        obtain ⟨res, hres⟩ := tidyLoop_terminates idx fuel s' ring' inv' si2 hj' (by omega)
        obtain ⟨h', bs⟩ := res
        exact ⟨(h', b :: bs), by simp [tidyLoop, hn, hres]⟩

/-- **`TidyEdges` terminates** on a well-formed heap whose side lists satisfy `SideInv` (or whose `ccw` list is empty) -/
theorem tidyEdges_total (idx : Nat) (h : Heap) (ring : Nat → List Nat) (inv : TInv h ring)
    (si : h.edges (idx * 2 + 1) = [] ∨ SideInv idx h) : ∃ h', tidyEdges idx h = .ok h' := by
  unfold tidyEdges tidyEdgesB
  split
  · exact ⟨h, rfl⟩
  · rename_i hne
    rcases si with e | si
    · rw [e] at hne; simp at hne
    · obtain ⟨res, hres⟩ := tidyLoop_terminates idx (tidyFuel idx h) ⟨h, 0, 0⟩ ring inv si (Nat.zero_le _)
        (by unfold tidyFuel; omega)
      exact ⟨res.1, by rw [hres]; rfl⟩

end Clipper.Lemmas.RCT
