/-
C09 `lines_cover`: the run of `RectClipLines64::ExecuteInternal` (model `emits`) described segment by segment.
Definitions of the description (`SegPart`, `Tail`, `Cover`) and the loop analysis that proves it.
Core Lean only.
-/
import ClipperVerif.Lemmas.RectLinesMeet
import ClipperVerif.Model.RectLinesCover
namespace Clipper.Lemmas.RLV
open Clipper Clipper.Model.RC Clipper.Lemmas.RC Clipper.Lemmas.RCE Clipper.Lemmas.RCA Clipper.Lemmas.RLC
open Clipper.Lemmas.RLG

/-- strictly inside the rectangle -/
def SIn (r : Rect) (p : Pt) : Prop := r.left < p.x ∧ p.x < r.right ∧ r.top < p.y ∧ p.y < r.bottom

theorem sInB_iff (r : Rect) (p : Pt) : sInB r p = true ↔ SIn r p := by
  unfold sInB SIn; simp only [Bool.and_eq_true, decide_eq_true_eq]; omega

/-- **What the segment `prv → cur` (vertices `k-1`, `k`) and the vertex `k` contribute to the list of `Add` calls**,
given the classes `ip`, `ic` of the two vertices:
* in → in: the vertex, appended to the current piece;
* in → out: exactly one crossing point (found by `GetIntersection` from the outside end point), appended;
* out → in: exactly one crossing point, which starts a new piece, then the vertex;
* out → out: nothing — and then both end points lie in one closed outer half-plane or `GetIntersection` from `cur`
  finds no crossing — or two crossing points, the first starting a new piece; the first point is what the second,
  unchecked `GetIntersection` call (from `prv`, which lies in the closed half-plane beyond side `loc2` while `cur` does
  not) left in `ip2`. -/
def SegPart (A : Arith) (r : Rect) (k : Nat) (prv cur : Pt) (ip ic : Bool) (es : List Emit) : Prop :=
  match ip, ic with
  | true, true => es = [V k cur]
  | true, false => ∃ loc, outsideLoc r cur = some loc ∧ (getIntersection A r cur prv loc ⟨0, 0⟩).1 = true ∧
      es = [⟨k, (getIntersection A r cur prv loc ⟨0, 0⟩).2.2, false, .exit⟩]
  | false, true => (getIntersection A r cur prv .inside ⟨0, 0⟩).1 = true ∧
      es = [⟨k, (getIntersection A r cur prv .inside ⟨0, 0⟩).2.2, true, .enter⟩, V k cur]
  | false, false =>
      (es = [] ∧ ((∃ loc, loc ≠ .inside ∧ Ready r loc prv ∧ Ready r loc cur) ∨
                  (∃ loc, loc ≠ .inside ∧ Ready r loc cur ∧ (getIntersection A r cur prv loc ⟨0, 0⟩).1 = false))) ∨
      (∃ loc loc2, loc ≠ .inside ∧ Ready r loc cur ∧ (getIntersection A r cur prv loc ⟨0, 0⟩).1 = true ∧
          loc2 ≠ .inside ∧ Ready r loc2 prv ∧ ¬ Ready r loc2 cur ∧
          es = [⟨k, (getIntersection A r prv cur loc2 ⟨0, 0⟩).2.2, true,
                  .thru1 (getIntersection A r prv cur loc2 ⟨0, 0⟩).1⟩,
                ⟨k, (getIntersection A r cur prv loc ⟨0, 0⟩).2.2, false, .thru2⟩])

/-- a per-segment description: index, vertices `k-1` and `k`, their classes, the `Add` calls contributed -/
abbrev SegDesc := Nat → Pt → Pt → Bool → Bool → List Emit → Prop

/-- The `Add` calls for the segments `k, k+1, …` of a polyline whose remaining vertices are `l` (head = vertex `k-1`,
of class `ip`): the concatenation of what each segment contributes according to `Q`, the class of each vertex being
computed from the class of its predecessor by `clsNext`. -/
def TailP (r : Rect) (Q : SegDesc) : Nat → Bool → List Pt → List Emit → Prop
  | k, ip, prv :: cur :: rest, es =>
    ∃ e1 e2, es = e1 ++ e2 ∧ Q k prv cur ip (clsNext r ip cur) e1 ∧
      TailP r Q (k + 1) (clsNext r ip cur) (cur :: rest) e2
  | _, _, [], es => es = []
  | _, _, [_], es => es = []

/-- **The complete description of one run** relative to a per-segment description `Q`: the first vertex if it is of
class in, then segment by segment. -/
def CoverP (r : Rect) (Q : SegDesc) (path : Path) (es : List Emit) : Prop :=
  match path with
  | [] => es = []
  | p0 :: _ => ∃ e2, es = (if cls0 r path then [V 0 p0] else []) ++ e2 ∧ TailP r Q 1 (cls0 r path) path e2

def Tail (A : Arith) (r : Rect) : Nat → Bool → List Pt → List Emit → Prop := TailP r (SegPart A r)

def Cover (A : Arith) (r : Rect) (path : Path) (es : List Emit) : Prop := CoverP r (SegPart A r) path es

theorem tailP_mono {r : Rect} {Q Q' : SegDesc} (h : ∀ k prv cur ip ic es, Q k prv cur ip ic es → Q' k prv cur ip ic es) :
    ∀ (l : List Pt) (k : Nat) (ip : Bool) (es : List Emit), TailP r Q k ip l es → TailP r Q' k ip l es
  | [], _, _, _, ht => by simpa [TailP] using ht
  | [_], _, _, _, ht => by simpa [TailP] using ht
  | prv :: cur :: rest, k, ip, es, ht => by
    unfold TailP at ht ⊢
    obtain ⟨e1, e2, he, h1, h2⟩ := ht
    exact ⟨e1, e2, he, h _ _ _ _ _ _ h1, tailP_mono h (cur :: rest) (k + 1) _ e2 h2⟩

theorem coverP_mono {r : Rect} {Q Q' : SegDesc} (h : ∀ k prv cur ip ic es, Q k prv cur ip ic es → Q' k prv cur ip ic es)
    {path : Path} {es : List Emit} (hc : CoverP r Q path es) : CoverP r Q' path es := by
  unfold CoverP at hc ⊢
  match path, hc with
  | [], hc => exact hc
  | p0 :: rest, hc =>
    obtain ⟨e2, he, ht⟩ := hc
    exact ⟨e2, he, tailP_mono h _ _ _ _ ht⟩

theorem tail_short (A : Arith) (r : Rect) (k : Nat) (ip : Bool) (l : List Pt) (es : List Emit) (h : l.length ≤ 1) :
    Tail A r k ip l es ↔ es = [] := by
  unfold Tail
  match l, h with
  | [], _ => simp [TailP]
  | [_], _ => simp [TailP]

theorem tail_cons (A : Arith) (r : Rect) (k : Nat) (ip : Bool) (prv cur : Pt) (rest : List Pt) (e1 e2 : List Emit)
    (h1 : SegPart A r k prv cur ip (clsNext r ip cur) e1) (h2 : Tail A r (k + 1) (clsNext r ip cur) (cur :: rest) e2) :
    Tail A r k ip (prv :: cur :: rest) (e1 ++ e2) := by
  unfold Tail at h2 ⊢
  unfold TailP
  exact ⟨e1, e2, rfl, h1, h2⟩

theorem clsNext_in {r : Rect} {p : Pt} (h : inRect r p = true) : clsNext r true p = true := by
  unfold clsNext; simp [h]

theorem clsNext_sin {r : Rect} {p : Pt} (ip : Bool) (h : SIn r p) : clsNext r ip p = true := by
  unfold clsNext; simp [(sInB_iff r p).mpr h]

theorem sInB_false_of_nsi {r : Rect} {p : Pt} (h : NSI r p) : sInB r p = false := by
  cases hs : sInB r p
  · rfl
  · exact absurd ((sInB_iff r p).mp hs) h

theorem clsNext_out_false {r : Rect} {p : Pt} (h : NSI r p) : clsNext r false p = false := by
  unfold clsNext; simp [sInB_false_of_nsi h]

theorem clsNext_notin {r : Rect} {p : Pt} (ip : Bool) (h : inRect r p = false) : clsNext r ip p = false := by
  unfold clsNext
  have : NSI r p := by
    unfold NSI; intro hc
    have : inRect r p = true := by rw [inRect_iff]; omega
    rw [h] at this; cases this
  simp [sInB_false_of_nsi this, h]

/-! ### runs of vertices that are all added / all skipped -/

theorem indexFrom_cons (i : Nat) (p : Pt) (ps : List Pt) : indexFrom i (p :: ps) = (i, p) :: indexFrom (i + 1) ps := rfl

/-- `m` vertices after the head of `l`, all in the closed rectangle, reached in state inside: they are added -/
theorem tail_in_run (A : Arith) (r : Rect) : ∀ (m k : Nat) (l : List Pt) (e' : List Emit),
    (∀ t q, 1 ≤ t → t ≤ m → l[t]? = some q → inRect r q = true) → m + 1 ≤ l.length →
    Tail A r (k + m) true (l.drop m) e' →
    Tail A r k true l (vertexEmits (indexFrom k ((l.drop 1).take m)) ++ e') := by
  intro m
  induction m with
  | zero => intro k l e' _ _ h; simpa [vertexEmits, indexFrom] using h
  | succ m ih =>
    intro k l e' hall hlen h
    match l, hlen with
    | prv :: x :: tl, hl2 =>
      have hx : inRect r x = true := hall 1 x (by omega) (by omega) (by simp)
      have h2 := ih (k + 1) (x :: tl) e'
        (fun t q h1 h2 hq => hall (t + 1) q (by omega) (by omega) (by simpa using hq))
        (by simp at hl2 ⊢; omega)
        (by
          have e : k + 1 + m = k + (m + 1) := by omega
          rw [e]; simpa using h)
      have hc := clsNext_in hx
      have := tail_cons A r k true prv x tl [V k x] _ (by rw [hc]; rfl) (by rw [hc]; exact h2)
      simpa [vertexEmits, indexFrom_cons, V] using this

/-- `m` vertices after the head of `l`, head included all in the closed half-plane beyond side `loc`, reached in an
outside state: they are skipped -/
theorem tail_out_run (A : Arith) (r : Rect) (loc : Location) (hl : loc ≠ .inside) : ∀ (m k : Nat) (l : List Pt)
    (e' : List Emit),
    (∀ t q, t ≤ m → l[t]? = some q → Ready r loc q) → m + 1 ≤ l.length →
    Tail A r (k + m) false (l.drop m) e' → Tail A r k false l e' := by
  intro m
  induction m with
  | zero => intro k l e' _ _ h; simpa using h
  | succ m ih =>
    intro k l e' hall hlen h
    match l, hlen with
    | prv :: x :: tl, hl2 =>
      have hp : Ready r loc prv := hall 0 prv (by omega) (by simp)
      have hx : Ready r loc x := hall 1 x (by omega) (by simp)
      have h2 := ih (k + 1) (x :: tl) e'
        (fun t q h1 hq => hall (t + 1) q (by omega) (by simpa using hq))
        (by simp at hl2 ⊢; omega)
        (by
          have e : k + 1 + m = k + (m + 1) := by omega
          rw [e]; simpa using h)
      have hc := clsNext_out_false (ready_nsi hx hl)
      have := tail_cons A r k false prv x tl [] e' (by rw [hc]; exact Or.inl ⟨rfl, Or.inl ⟨loc, hl, hp, hx⟩⟩)
        (by rw [hc]; exact h2)
      simpa using this

/-! ### geometry: an exiting crossing is always found -/

theorem msgn (a b : Int) : (0 ≤ a → 0 ≤ b → 0 ≤ a * b) ∧ (0 ≤ a → b ≤ 0 → a * b ≤ 0) ∧
    (a ≤ 0 → 0 ≤ b → a * b ≤ 0) ∧ (a ≤ 0 → b ≤ 0 → 0 ≤ a * b) := by
  refine ⟨fun h1 h2 => Int.mul_nonneg h1 h2, fun h1 h2 => ?_, fun h1 h2 => ?_, fun h1 h2 => ?_⟩
  · have := Int.mul_nonneg h1 (show 0 ≤ -b by omega); simp only [Int.mul_neg] at this; omega
  · have := Int.mul_nonneg (show 0 ≤ -a by omega) h2; simp only [Int.neg_mul] at this; omega
  · have := Int.mul_nonneg (show 0 ≤ -a by omega) (show 0 ≤ -b by omega)
    simp only [Int.neg_mul, Int.mul_neg, Int.neg_neg] at this; omega

/-- a segment whose end point lies in the rectangle meets it -/
theorem meetsO_of_end_in {u0 u1 a0 a1 dx dy : Int} (h1 : u0 ≤ dx) (h2 : dx ≤ u1) (h3 : a0 ≤ dy) (h4 : dy ≤ a1) :
    MeetsO u0 u1 a0 a1 dx dy := by
  unfold MeetsO AllSame
  refine ⟨by omega, by omega, by omega, by omega, ?_⟩
  have e1 : (u0 - dx) * dy = u0 * dy - dx * dy := Int.sub_mul ..
  have e2 : (u1 - dx) * dy = u1 * dy - dx * dy := Int.sub_mul ..
  have e3 : (a0 - dy) * dx = a0 * dx - dy * dx := Int.sub_mul ..
  have e4 : (a1 - dy) * dx = a1 * dx - dy * dx := Int.sub_mul ..
  have c := Int.mul_comm dx dy
  have s1 := msgn (u0 - dx) dy
  have s2 := msgn (u1 - dx) dy
  have s3 := msgn (a0 - dy) dx
  have s4 := msgn (a1 - dy) dx
  by_cases hx : 0 ≤ dx <;> by_cases hy : 0 ≤ dy
  · have := s2.1 (by omega) hy; have := s3.2.2.1 (by omega) hx
    have := s1.2.2.1 (by omega) hy; have := s4.1 (by omega) hx
    omega
  · have := s1.2.2.2 (by omega) (by omega); have := s3.2.2.1 (by omega) hx
    have := s2.2.1 (by omega) (by omega); have := s4.1 (by omega) hx
    omega
  · have := s2.1 (by omega) hy; have := s4.2.1 (by omega) (by omega)
    have := s1.2.2.1 (by omega) hy; have := s3.2.2.2 (by omega) (by omega)
    omega
  · have := s1.2.2.2 (by omega) (by omega); have := s4.2.1 (by omega) (by omega)
    have := s2.2.1 (by omega) (by omega); have := s3.2.2.2 (by omega) (by omega)
    omega

theorem meets_of_inRect_right {r : Rect} {p q : Pt} (h : inRect r q = true) : Meets r p q := by
  rw [inRect_iff] at h
  exact meetsO_of_end_in (by omega) (by omega) (by omega) (by omega)

/-- **An exiting crossing is always found** (sign-exact arithmetic): `cur` outside the closed rectangle, classified
`loc` by `GetNextLocation`, `prv` in the closed rectangle. -/
theorem exit_found {A : Arith} (hA : SignExact A) (ht : IsectTotal A) {r : Rect} (hw : r.left < r.right)
    (hh : r.top < r.bottom) {cur prv : Pt} {loc : Location} (ho : outsideLoc r cur = some loc)
    (hp : inRect r prv = true) (ip : Pt) : (getIntersection A r cur prv loc ip).1 = true := by
  have hr := outsideLoc_ready r cur loc ho
  have hl : loc ≠ .inside := ready_ne_inside_of_outside hr (by simp [ho])
  refine (getIntersection_outside_iff hA ht hw hh hr hl ?_ ip).mpr (meets_of_inRect_right hp)
  rintro ⟨h1, _⟩
  revert ho
  unfold outsideLoc
  cases loc <;> simp only [OnSideLine] at h1 <;> repeat' split
  all_goals first | (intro h; cases h; done) | omega | (intro h; cases h; omega)

/-! ### `GetNextLocation` and one loop iteration, as equations -/

/-- the scan condition of `GetNextLocation` -/
def condOf (r : Rect) : Location → Pt → Bool
  | .left, p => decide (p.x ≤ r.left)
  | .top, p => decide (p.y ≤ r.top)
  | .right, p => decide (p.x ≥ r.right)
  | .bottom, p => decide (p.y ≥ r.bottom)
  | .inside, p => (outsideLoc r p).isNone

theorem condOf_iff (r : Rect) (l : Location) (q : Pt) : condOf r l q = true ↔ Ready r l q := by
  cases l <;> simp only [condOf, Ready, decide_eq_true_eq]
  cases outsideLoc r q <;> simp

theorem gnl_idx (r : Rect) (path : Path) (l : Location) (i : Nat) :
    (getNextLocation r path l i).2.1 = skipWhile (condOf r l) path i := by
  cases l <;> simp only [getNextLocation] <;> split <;> rfl

theorem gnl_adds_inside (r : Rect) (path : Path) (i : Nat) :
    (getNextLocation r path .inside i).2.2 =
      indexFrom i ((path.drop i).takeWhile (fun p => (outsideLoc r p).isNone)) := by
  simp only [getNextLocation]; split <;> rfl

theorem skipWhile_mid (c : Pt → Bool) (path : Path) (i k : Nat) (q : Pt) (h1 : i ≤ k)
    (h2 : k < skipWhile c path i) (hq : path[k]? = some q) : c q = true := by
  unfold skipWhile at h2
  apply takeWhile_getElem_cond c (path.drop i) (k - i) q (by omega)
  rw [List.getElem?_drop]
  have : i + (k - i) = k := by omega
  rw [this]; exact hq

theorem take_length_takeWhile (c : Pt → Bool) (l : List Pt) : l.take (l.takeWhile c).length = l.takeWhile c := by
  induction l with
  | nil => simp
  | cons a l ih =>
    rw [List.takeWhile_cons]
    split
    · simp [ih]
    · simp

theorem step_next_of (A : Arith) (r : Rect) (path : Path) (i : Nat) (prev : Location) (cur prvj : Pt)
    (hc : path[(getNextLocation r path prev i).2.1]? = some cur)
    (hp : path[(getNextLocation r path prev i).2.1 - 1]? = some prvj) :
    step A r path i prev =
      (if !(getIntersection A r cur prvj (getNextLocation r path prev i).1 ⟨0, 0⟩).1 then
        .next (vertexEmits (getNextLocation r path prev i).2.2) ((getNextLocation r path prev i).2.1 + 1)
          (getNextLocation r path prev i).1
      else if (getNextLocation r path prev i).1 = .inside then
        .next (vertexEmits (getNextLocation r path prev i).2.2 ++
          [⟨(getNextLocation r path prev i).2.1,
            (getIntersection A r cur prvj (getNextLocation r path prev i).1 ⟨0, 0⟩).2.2, true, .enter⟩])
          (getNextLocation r path prev i).2.1 (getNextLocation r path prev i).1
      else if prev ≠ .inside then
        .next (vertexEmits (getNextLocation r path prev i).2.2 ++
          [⟨(getNextLocation r path prev i).2.1, (getIntersection A r prvj cur prev ⟨0, 0⟩).2.2, true,
              .thru1 (getIntersection A r prvj cur prev ⟨0, 0⟩).1⟩,
           ⟨(getNextLocation r path prev i).2.1,
              (getIntersection A r cur prvj (getNextLocation r path prev i).1 ⟨0, 0⟩).2.2, false, .thru2⟩])
          (getNextLocation r path prev i).2.1 (getNextLocation r path prev i).1
      else
        .next (vertexEmits (getNextLocation r path prev i).2.2 ++
          [⟨(getNextLocation r path prev i).2.1,
            (getIntersection A r cur prvj (getNextLocation r path prev i).1 ⟨0, 0⟩).2.2, false, .exit⟩])
          (getNextLocation r path prev i).2.1 (getNextLocation r path prev i).1) := by
  have hj : (getNextLocation r path prev i).2.1 < path.length := by
    rcases Nat.lt_or_ge (getNextLocation r path prev i).2.1 path.length with h | h
    · exact h
    · rw [List.getElem?_eq_none h] at hc; cases hc
  unfold step
  simp only
  rw [if_pos hj, hc, hp]

theorem step_done_of (A : Arith) (r : Rect) (path : Path) (i : Nat) (prev : Location)
    (hj : ¬ (getNextLocation r path prev i).2.1 < path.length) :
    step A r path i prev = .done (vertexEmits (getNextLocation r path prev i).2.2) := by
  unfold step
  simp only
  rw [if_neg hj]

theorem loop_succ_lt (A : Arith) (r : Rect) (path : Path) (fuel i : Nat) (loc : Location) (h : i < path.length) :
    loop A r path (fuel + 1) i loc =
      (match step A r path i loc with
       | .done es => some es
       | .next es i' loc' => (loop A r path fuel i' loc').map (es ++ ·)
       | .fault => none) := by
  rw [loop, if_pos h]
  rfl

theorem loop_succ_ge (A : Arith) (r : Rect) (path : Path) (fuel i : Nat) (loc : Location) (h : ¬ i < path.length) :
    loop A r path (fuel + 1) i loc = some [] := by
  rw [loop, if_neg h]

theorem map_append_some {o : Option (List Emit)} {es1 es : List Emit} (h : o.map (es1 ++ ·) = some es) :
    ∃ es2, o = some es2 ∧ es = es1 ++ es2 := by
  cases o with
  | none => simp at h
  | some es2 => simp at h; exact ⟨es2, rfl, h.symm⟩

theorem getElem?_lt {path : Path} {k : Nat} {q : Pt} (h : path[k]? = some q) : k < path.length := by
  rcases Nat.lt_or_ge k path.length with h' | h'
  · exact h'
  · rw [List.getElem?_eq_none h'] at h; cases h

theorem drop_cons2 {path : Path} {j : Nat} {a b : Pt} (hj : 1 ≤ j) (ha : path[j - 1]? = some a)
    (hb : path[j]? = some b) : path.drop (j - 1) = a :: b :: path.drop (j + 1) := by
  have h1 := getElem?_lt ha
  have h2 := getElem?_lt hb
  rw [List.drop_eq_getElem_cons h1]
  have e : j - 1 + 1 = j := by omega
  rw [e, List.drop_eq_getElem_cons h2]
  rw [List.getElem?_eq_getElem h1] at ha
  rw [List.getElem?_eq_getElem h2] at hb
  cases ha; cases hb; rfl

theorem drop_cons1 {path : Path} {j : Nat} {b : Pt} (hb : path[j]? = some b) :
    path.drop j = b :: path.drop (j + 1) := by
  have h2 := getElem?_lt hb
  rw [List.drop_eq_getElem_cons h2]
  rw [List.getElem?_eq_getElem h2] at hb
  cases hb; rfl

end Clipper.Lemmas.RLV
