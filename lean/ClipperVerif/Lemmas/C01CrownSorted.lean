/-
Helper lemmas for the crown of property C01: THE AEL OF THE EXACT SCANBEAM MODEL IS IN LEFT-TO-RIGHT ORDER AT EVERY HEIGHT INSIDE A SCANBEAM.
`Model/SweepPoints.geo` exchanges the adjacent pairs that are in the wrong order for the top of the scanbeam bottom-up by exact crossing point.
`Lemmas/C01OutputMono.geo_heights` shows that the list is in (non-strict) scanline order at the height of the last crossing processed.  Here the
same argument at an ARBITRARY rational height `yn/yd` inside the scanbeam: the schedule splits into the exchanges whose crossing lies at or
below that height and those strictly above it, and the list reached after the first part is in scanline order at `yn/yd` (`geo_split`);
transferred to the decorated events and the geometric runs `GRun` (`isect_split_sorted`).  Core Lean only.
-/
import ClipperVerif.Lemmas.C01OutputSweep
namespace Clipper.Lemmas.C01Crown
open Clipper Clipper.Model Clipper.Model.AelOrder Clipper.Model.SweepOrder Clipper.Model.SweepEvents Clipper.Model.SweepPoints
open Clipper.Lemmas.SweepOrder Clipper.Lemmas.C01Region Clipper.Lemmas.C01Output

/-! ## fractions -/

/-- `n1/d1 ≤ n2/d2 < n3/d3` (cross-multiplied, positive denominators) -/
theorem flt_of_le_of_lt {n1 d1 n2 d2 n3 d3 : Int} (h1 : 0 < d1) (h2 : 0 < d2) (h3 : 0 < d3)
    (a : n1 * d2 ≤ n2 * d1) (b : n2 * d3 < n3 * d2) : n1 * d3 < n3 * d1 := by
  have a' := Int.mul_le_mul_of_nonneg_right a (Int.le_of_lt h3)
  have b' := Int.mul_lt_mul_of_pos_right b h1
  have e1 : n1 * d2 * d3 = (n1 * d3) * d2 := by grind
  have e2 : n2 * d1 * d3 = n2 * d3 * d1 := by grind
  have e3 : n3 * d2 * d1 = (n3 * d1) * d2 := by grind
  rw [e1, e2] at a'
  rw [e3] at b'
  exact Int.lt_of_mul_lt_mul_right (Int.lt_of_le_of_lt a' b') (Int.le_of_lt h2)

/-! ## schedules -/

/-- a schedule splits along `++` -/
theorem schedOK_split {P : GEdge → GEdge → Prop} : ∀ (a b : List (Nat × GEdge × GEdge)) (cur cur' : List GEdge),
    SchedOK P cur (a ++ b) cur' → ∃ mid, SchedOK P cur a mid ∧ SchedOK P mid b cur' := by
  intro a
  induction a with
  | nil => intro b cur cur' h; exact ⟨cur, rfl, h⟩
  | cons c rest ih =>
    intro b cur cur' h
    obtain ⟨pre, post, h1, h2, h3, h4⟩ := h
    obtain ⟨mid, m1, m2⟩ := ih b _ cur' h4
    exact ⟨mid, ⟨pre, post, h1, h2, h3, m1⟩, m2⟩

/-- … and two schedules compose -/
theorem schedOK_append {P : GEdge → GEdge → Prop} : ∀ (a b : List (Nat × GEdge × GEdge)) (cur mid cur' : List GEdge),
    SchedOK P cur a mid → SchedOK P mid b cur' → SchedOK P cur (a ++ b) cur' := by
  intro a
  induction a with
  | nil => intro b cur mid cur' h1 h2; simp only [SchedOK] at h1; subst h1; exact h2
  | cons c rest ih =>
    intro b cur mid cur' h h'
    obtain ⟨pre, post, h1, h2, h3, h4⟩ := h
    exact ⟨pre, post, h1, h2, h3, ih b _ mid cur' h4 h'⟩

/-- a schedule permutes the list -/
theorem schedOK_perm {P : GEdge → GEdge → Prop} : ∀ (evs : List (Nat × GEdge × GEdge)) (cur cur' : List GEdge),
    SchedOK P cur evs cur' → cur'.Perm cur := by
  intro evs
  induction evs with
  | nil => intro cur cur' h; simp only [SchedOK] at h; subst h; exact List.Perm.refl _
  | cons c rest ih =>
    intro cur cur' h
    obtain ⟨pre, post, h1, _, _, h4⟩ := h
    refine (ih _ cur' h4).trans ?_
    rw [h1]
    exact List.Perm.append_left pre (List.Perm.swap _ _ post)

/-- the target has no adjacent pair in the wrong order -/
theorem no_adjInv_target (y1 : Int) (T : List GEdge) (hT : T.Pairwise (ltBelow y1)) : ∀ c ∈ adjInv T 0 T, False := by
  intro c hc
  rw [mem_adjInv] at hc
  obtain ⟨pre, post, h1, _, h3⟩ := hc
  have ha : c.2.1 ∈ T := by rw [h1]; simp
  have hb : c.2.2 ∈ T := by rw [h1]; simp
  have hba : ltBelow y1 c.2.2 c.2.1 := rel_of_rank T hT hb ha h3
  have hT' := hT
  rw [h1] at hT'
  exact ltBelow_asymm hba (pairwise_window pre _ _ post hT')

/-- every crossing height of a schedule with non-increasing heights is at or above the starting level -/
theorem heights_all : ∀ (l : List (Nat × GEdge × GEdge)) (hn hd : Int), 0 < hd → HeightsSorted hn hd l →
    ∀ c ∈ l, 0 < (crossQ c.2.1 c.2.2).d ∧ (crossQ c.2.1 c.2.2).yn * hd ≤ hn * (crossQ c.2.1 c.2.2).d := by
  intro l
  induction l with
  | nil => intro _ _ _ _ c hc; cases hc
  | cons c0 rest ih =>
    intro hn hd hd0 h c hc
    obtain ⟨dpos, hle, hrest⟩ := h
    rcases List.mem_cons.1 hc with rfl | hc
    · exact ⟨dpos, hle⟩
    · obtain ⟨p1, p2⟩ := ih _ _ dpos hrest c hc
      exact ⟨p1, fle_trans p1 dpos hd0 p2 hle⟩

/-! ## the list is in scanline order at every height no candidate crosses strictly below -/

/-- The list `cur` (members of the target `T`, which is sorted just below `y1`) in non-strict scanline order at the level `hn/hd`; a height
`cn/cd` at or above the level and strictly below `y1`'s scanline (`y1 < cn/cd ≤ hn/hd`) such that no adjacent pair in the wrong order for the
target crosses strictly below `cn/cd`: the list is in non-strict scanline order at `cn/cd` as well. -/
theorem sorted_at (y1 : Int) (T : List GEdge) (hT : T.Pairwise (ltBelow y1)) (cur : List GEdge) (hn hd : Int) (hd0 : 0 < hd)
    (hmem : ∀ e ∈ cur, e ∈ T ∧ e.Up) (hJ : cur.Pairwise (fun u v => leAt hn hd u v = true))
    (cn cd : Int) (cd0 : 0 < cd) (hle : cn * hd ≤ hn * cd) (hc1 : y1 * cd < cn)
    (hno : ∀ c' ∈ adjInv T 0 cur, ¬ (cn * (crossQ c'.2.1 c'.2.2).d < (crossQ c'.2.1 c'.2.2).yn * cd)) :
    cur.Pairwise (fun u v => leAt cn cd u v = true) := by
  refine pairwise_of_adjacent (S := fun e => e.Up)
    (fun a b d ha hb hd' h1' h2' => leAt_trans cd0 a b d ha hb hd' h1' h2') cur (fun e he => (hmem e he).2) ?_
  intro p u v s hsplit
  apply Classical.byContradiction
  intro hnot
  have hu := hmem u (by rw [hsplit]; simp)
  have hv := hmem v (by rw [hsplit]; simp)
  have hg : gAt u v cn cd < 0 := by
    apply Int.not_le.1
    intro hge
    exact hnot ((leAt_iff_g u v _ _ cd0).2 hge)
  have hJ' := hJ
  rw [hsplit] at hJ'
  have hle' := (leAt_iff_g u v hn hd hd0).1 (pairwise_window p u v s hJ')
  obtain ⟨g1, _, g3⟩ := cross_strictly_below u v y1 hn hd cn cd hd0 cd0 hle hc1 hle' hg
  have hr : rank T v < rank T u := rank_of_ltBelow y1 T hT hv.1 hu.1 (Or.inl ((xgt_iff_delta y1 u v).2 g1))
  have hcand : (p.length, u, v) ∈ adjInv T 0 cur := by
    rw [mem_adjInv]; exact ⟨p, s, hsplit, by simp, hr⟩
  exact hno _ hcand g3

/-! ## the schedule split at a height -/

/-- **geo_split.**  The list `cur` (members of the target `T`, which is sorted just below `y1`) in non-strict scanline order at the level
`hn/hd' > y1`, a height `yn/yd` with `y1 < yn/yd ≤ hn/hd'`, and the bottom-up schedule `geo T n cur` reaches `T`: the schedule splits into
the exchanges whose crossing is at or below `yn/yd` and those whose crossing is strictly above it, and the list reached after the first part
is in non-strict scanline order at `yn/yd`. -/
theorem geo_split (y1 : Int) (T : List GEdge) (hT : T.Pairwise (ltBelow y1)) (P : GEdge → GEdge → Prop)
    (yn yd : Int) (hd : 0 < yd) (hlo : y1 * yd < yn) :
    ∀ (n : Nat) (cur : List GEdge) (hn hd' : Int), 0 < hd' → y1 * hd' < hn → yn * hd' ≤ hn * yd →
      (∀ e ∈ cur, e ∈ T ∧ e.Up) → cur.Pairwise (fun u v => leAt hn hd' u v = true) → SchedOK P cur (geo T n cur) T →
      ∃ (e1 e2 : List (Nat × GEdge × GEdge)) (mid : List GEdge), geo T n cur = e1 ++ e2 ∧ SchedOK P cur e1 mid ∧ SchedOK P mid e2 T ∧
        (∀ c ∈ e1, 0 < (crossQ c.2.1 c.2.2).d ∧ yn * (crossQ c.2.1 c.2.2).d ≤ (crossQ c.2.1 c.2.2).yn * yd) ∧
        (∀ c ∈ e2, 0 < (crossQ c.2.1 c.2.2).d ∧ (crossQ c.2.1 c.2.2).yn * yd < yn * (crossQ c.2.1 c.2.2).d) ∧
        mid.Pairwise (fun u v => leAt yn yd u v = true) := by
  intro n
  induction n with
  | zero =>
    intro cur hn hd' hd0 hlev hle hmem hJ hS
    have hS' : cur = T := hS
    refine ⟨[], [], cur, rfl, rfl, hS, (fun c hc => by cases hc), (fun c hc => by cases hc), ?_⟩
    refine sorted_at y1 T hT cur hn hd' hd0 hmem hJ yn yd hd hle hlo ?_
    intro c' hc'
    rw [hS'] at hc'
    exact (no_adjInv_target y1 T hT c' hc').elim
  | succ n ih =>
    intro cur hn hd' hd0 hlev hle hmem hJ hS
    have hH := geo_heights y1 T hT (n + 1) cur hn hd' hd0 hlev hmem hJ
    cases hpk : pickBest (adjInv T 0 cur) with
    | none =>
      simp only [geo, hpk] at hS ⊢
      refine ⟨[], [], cur, rfl, rfl, hS, (fun c hc => by cases hc), (fun c hc => by cases hc), ?_⟩
      refine sorted_at y1 T hT cur hn hd' hd0 hmem hJ yn yd hd hle hlo ?_
      intro c' hc'
      rw [pickBest_none _ hpk] at hc'
      cases hc'
    | some c =>
      simp only [geo, hpk] at hS hH ⊢
      have hcm := pickBest_mem _ c hpk
      obtain ⟨_, f2, f3, f4, f5⟩ := cand_facts y1 T hT cur hn hd' hd0 hlev hmem hJ c hcm
      have hdet : det c.2.1 c.2.2 < 0 := f2
      have hpos : ∀ c' ∈ adjInv T 0 cur, 0 < (crossQ c'.2.1 c'.2.2).d :=
        fun c' hc' => (cand_facts y1 T hT cur hn hd' hd0 hlev hmem hJ c' hc').2.2.1
      have hmax := pickBest_max _ c hpk hpos
      have hS0 := hS
      obtain ⟨pre, post, h1, h2, h3, h4⟩ := hS
      have hsw : swapL c.1 cur = pre ++ c.2.2 :: c.2.1 :: post := by
        rw [h1, ← h2, swapL_window]
      by_cases hcase : yn * (crossQ c.2.1 c.2.2).d ≤ (crossQ c.2.1 c.2.2).yn * yd
      · -- the crossing of `c` is at or below the height: exchange and go on from the new level
        have hJc : cur.Pairwise (fun u v => leAt (crossQ c.2.1 c.2.2).yn (crossQ c.2.1 c.2.2).d u v = true) :=
          sorted_at y1 T hT cur hn hd' hd0 hmem hJ _ _ f3 f4 f5 (fun c' hc' => hmax c' hc')
        rw [hsw] at h4 ⊢
        obtain ⟨e1, e2, mid, g1, g2, g3, g4, g5, g6⟩ := ih (pre ++ c.2.2 :: c.2.1 :: post) _ _ f3 f5 hcase (by
            intro e he
            apply hmem e
            rw [h1]
            simp only [List.mem_append, List.mem_cons] at he ⊢
            rcases he with h | h | h | h
            · exact Or.inl h
            · exact Or.inr (Or.inr (Or.inl h))
            · exact Or.inr (Or.inl h)
            · exact Or.inr (Or.inr (Or.inr h))) (by
            rw [h1] at hJc
            refine pairwise_swap pre _ _ post hJc ?_
            rw [leAt_iff_g _ _ _ _ f3, (gAt_cross c.2.1 c.2.2 hdet).2]
            exact Int.le_refl _) h4
        refine ⟨c :: e1, e2, mid, by rw [g1]; rfl, ⟨pre, post, h1, h2, h3, g2⟩, g3, ?_, g5, g6⟩
        intro c' hc'
        rcases List.mem_cons.1 hc' with rfl | hc'
        · exact ⟨f3, hcase⟩
        · exact g4 c' hc'
      · -- the crossing of `c` is strictly above the height: so are all later ones, and the list is in order at the height
        have hcase' : (crossQ c.2.1 c.2.2).yn * yd < yn * (crossQ c.2.1 c.2.2).d := by omega
        refine ⟨[], c :: geo T n (swapL c.1 cur), cur, rfl, rfl, hS0, (fun c hc => by cases hc), ?_, ?_⟩
        · intro c' hc'
          rcases List.mem_cons.1 hc' with rfl | hc'
          · exact ⟨f3, hcase'⟩
          · obtain ⟨p1, p2⟩ := heights_all _ _ _ f3 hH.2.2 c' hc'
            exact ⟨p1, flt_of_le_of_lt p1 f3 hd p2 hcase'⟩
        · refine sorted_at y1 T hT cur hn hd' hd0 hmem hJ yn yd hd hle hlo ?_
          intro c' hc' hbelow
          exact hmax c' hc' (flt_of_le_of_lt f3 hd (hpos c' hc') (Int.le_of_lt hcase') hbelow)

/-! ## the decorated events of a scanbeam, split at a height -/

/-- **isect_split_sorted.**  Split the intersection events of a scanbeam at the rational height `yn/yd` strictly inside it (no event at that
height): the events `a` strictly below it come first, the events `b` strictly above it last; the geometric AEL `es` reached after `a` is a
permutation of `inserted` in (non-strict) left-to-right order by exact x at the height `yn/yd`. -/
theorem isect_split_sorted (D : Int) (hD : 0 < D) (E : GEdge → Prop) (y0 y1 : Int) (hy : y1 < y0) (inserted T : List GEdge)
    (hI : inserted.Pairwise (ltAbove y0)) (hT : T.Pairwise (ltBelow y1)) (hp : T.Perm inserted)
    (hal : ∀ e ∈ inserted, e.Up ∧ e.top.y ≤ y1 ∧ y0 ≤ e.bot.y)
    (hdv : ∀ c ∈ geoSwaps T inserted, (crossQ c.2.1 c.2.2).d ∣ D)
    (yn yd : Int) (hd : 0 < yd) (hlo : y1 * yd < yn) (hhi : yn < y0 * yd)
    (hoff : ∀ op ∈ isectEventsP D T inserted, op.pt.y * yd ≠ D * yn) :
    ∃ (a b : List ROp) (es : List GEdge), isectEventsP D T inserted = a ++ b ∧
      (∀ op ∈ a, D * yn < op.pt.y * yd) ∧ (∀ op ∈ b, op.pt.y * yd < D * yn) ∧
      GRun D E inserted a es ∧ GRun D E es b T ∧ es.Perm inserted ∧
      es.Pairwise (fun u v => leAt yn yd u v = true) := by
  have hS : SchedOK (Crosses y0 y1) inserted (geo T (inserted.length * inserted.length) inserted) T :=
    geoSwaps_spec y0 y1 hy inserted T hI hT hp
  have hmem : ∀ e ∈ inserted, e ∈ T ∧ e.Up := fun e he => ⟨hp.mem_iff.2 he, (hal e he).1⟩
  have hJ : inserted.Pairwise (fun u v => leAt y0 1 u v = true) := hI.imp (fun h => leAt_of_ltAbove y0 h)
  obtain ⟨e1, e2, mid, g1, g2, g3, g4, g5, g6⟩ := geo_split y1 T hT (Crosses y0 y1) yn yd hd hlo _ inserted y0 1 (by omega) (by omega)
    (by omega) hmem hJ hS
  have hgs : geoSwaps T inserted = e1 ++ e2 := g1
  have hpm : mid.Perm inserted := schedOK_perm _ _ _ g2
  have hev : isectEventsP D T inserted =
      e1.map (fun c => ROp.base (.intersect c.1) ((crossQ c.2.1 c.2.2).toPt D)) ++
        e2.map (fun c => ROp.base (.intersect c.1) ((crossQ c.2.1 c.2.2).toPt D)) := by
    unfold isectEventsP
    rw [hgs, List.map_append]
  have hdv1 : ∀ c ∈ e1, (crossQ c.2.1 c.2.2).d ∣ D := fun c hc => hdv c (by rw [hgs]; simp [hc])
  have hdv2 : ∀ c ∈ e2, (crossQ c.2.1 c.2.2).d ∣ D := fun c hc => hdv c (by rw [hgs]; simp [hc])
  refine ⟨_, _, mid, hev, ?_, ?_, ?_, ?_, hpm, g6⟩
  · intro op hop
    have hne := hoff op (by rw [hev]; exact List.mem_append_left _ hop)
    obtain ⟨c, hc, rfl⟩ := List.mem_map.1 hop
    obtain ⟨dpos, hle⟩ := g4 c hc
    have ey := toPt_y D (crossQ c.2.1 c.2.2) dpos (hdv1 c hc)
    show D * yn < ((crossQ c.2.1 c.2.2).toPt D).y * yd
    have hne' : ((crossQ c.2.1 c.2.2).toPt D).y * yd ≠ D * yn := hne
    generalize ((crossQ c.2.1 c.2.2).toPt D).y = py at *
    generalize (crossQ c.2.1 c.2.2).yn = cyn at *
    generalize (crossQ c.2.1 c.2.2).d = d at *
    have h1 : yn * d * D ≤ cyn * yd * D := Int.mul_le_mul_of_nonneg_right hle (Int.le_of_lt hD)
    have e1' : py * yd * d = cyn * yd * D := by
      have : py * yd * d = (py * d) * yd := by grind
      rw [this, ey]; grind
    have e2' : D * yn * d = yn * d * D := by grind
    have : D * yn * d ≤ py * yd * d := by omega
    have := Int.le_of_mul_le_mul_right this dpos
    omega
  · intro op hop
    obtain ⟨c, hc, rfl⟩ := List.mem_map.1 hop
    obtain ⟨dpos, hlt⟩ := g5 c hc
    have ey := toPt_y D (crossQ c.2.1 c.2.2) dpos (hdv2 c hc)
    show ((crossQ c.2.1 c.2.2).toPt D).y * yd < D * yn
    generalize ((crossQ c.2.1 c.2.2).toPt D).y = py at *
    generalize (crossQ c.2.1 c.2.2).yn = cyn at *
    generalize (crossQ c.2.1 c.2.2).d = d at *
    have h1 : cyn * yd * D < yn * d * D := Int.mul_lt_mul_of_pos_right hlt hD
    have e1' : py * yd * d = cyn * yd * D := by
      have : py * yd * d = (py * d) * yd := by grind
      rw [this, ey]; grind
    have e2' : D * yn * d = yn * d * D := by grind
    have : py * yd * d < D * yn * d := by omega
    exact Int.lt_of_mul_lt_mul_right this (Int.le_of_lt dpos)
  · exact gRun_sched D hD E y0 y1 hy e1 inserted mid g2 (fun e he => (hal e he).2) hdv1
  · exact gRun_sched D hD E y0 y1 hy e2 mid T g3 (fun e he => (hal e (hpm.mem_iff.1 he)).2) hdv2

end Clipper.Lemmas.C01Crown
