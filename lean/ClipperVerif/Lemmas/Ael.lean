/- Helper lemmas for the AEL bookkeeping model (used by Props/C01, C05, C13). Core Lean only. -/
import ClipperVerif.Model.Ael
namespace Clipper.Model

macro "bsolve" : tactic => `(tactic| first
  | done | trivial | omega
  | (rw [Bool.eq_iff_iff]; simp <;> (try split) <;> omega)
  | (simp <;> (try split) <;> omega)
  | (simp_all <;> (try split) <;> omega))

/-- `Spec.inR` with the arguments ordered by the path type of the edge under consideration -/
def filled (ct : ClipType) (fr : FillRule) (pt : PathType) (ownW otherW : Int) : Bool :=
  match pt with
  | .subject => inR ct fr ownW otherW
  | .clip => inR ct fr otherW ownW

/-! ### decision table -/

theorem iabs_eq_one (x : Int) : (iabs x == 1) = decide (x = 1 ∨ x = -1) := by
  unfold iabs; split <;> (rw [Bool.eq_iff_iff]; simp; omega)

theorem maxabs_succ (a : Int) : maxabs a (a + 1) = if a ≥ 0 then a + 1 else a := by
  unfold maxabs iabs; (repeat' split) <;> omega
theorem maxabs_pred (a : Int) : maxabs a (a + -1) = if a ≤ 0 then a + -1 else a := by
  unfold maxabs iabs; (repeat' split) <;> omega

theorem pre_iff (fr : FillRule) (wl d : Int) (hd : d = 1 ∨ d = -1) (wc : Int)
    (h : match fr with | .evenOdd => True | _ => wc = maxabs wl (wl + d)) :
    pre fr wc = (inFill fr wl != inFill fr (wl + d)) := by
  rcases hd with rfl | rfl <;> cases fr <;> simp only [pre, inFill] at h ⊢ <;>
    (try subst h) <;> (try rw [iabs_eq_one]) <;> (try rw [maxabs_succ]) <;> (try rw [maxabs_pred]) <;>
    (try split) <;> (rw [Bool.eq_iff_iff]; simp [bne]; try omega)

theorem otherIn_iff (fr : FillRule) (wc2 w2 : Int)
    (h : match fr with | .evenOdd => wc2 = w2 % 2 | _ => wc2 = w2) :
    otherIn fr wc2 = inFill fr w2 := by
  cases fr <;> simp only [otherIn, inFill] at h ⊢ <;> subst h <;> simp

theorem wcOK_pre (fr : FillRule) (wc dx wc2 wl w2 : Int) (hd : dx = 1 ∨ dx = -1)
    (h : WcOK fr wc dx wc2 wl w2) : pre fr wc = (inFill fr wl != inFill fr (wl + dx)) := by
  apply pre_iff fr wl dx hd; cases fr <;> simp_all [WcOK]

theorem wcOK_otherIn (fr : FillRule) (wc dx wc2 wl w2 : Int)
    (h : WcOK fr wc dx wc2 wl w2) : otherIn fr wc2 = inFill fr w2 := by
  apply otherIn_iff; cases fr <;> simp_all [WcOK]

/-- `filled` differs across an edge iff the own fill state differs and the other type's state selects it -/
theorem filled_bne (ct : ClipType) (fr : FillRule) (pt : PathType) (wl wr w2 : Int) :
    (filled ct fr pt wl w2 != filled ct fr pt wr w2) =
      ((inFill fr wl != inFill fr wr) && sel ct pt (inFill fr w2)) := by
  cases ct <;> cases pt <;> simp only [filled, inR, sel, ite_true, ite_false, reduceCtorEq] <;>
    generalize inFill fr wl = a <;> generalize inFill fr wr = b <;> generalize inFill fr w2 = c <;>
    cases a <;> cases b <;> cases c <;> rfl

theorem icc_boundary (ct : ClipType) (fr : FillRule) (pt : PathType) (wc dx wc2 wl w2 : Int)
    (hd : dx = 1 ∨ dx = -1) (h : WcOK fr wc dx wc2 wl w2) :
    isContributingClosed ct fr pt wc wc2 = (filled ct fr pt wl w2 != filled ct fr pt (wl + dx) w2) := by
  rw [filled_bne, isContributingClosed, wcOK_pre fr wc dx wc2 wl w2 hd h, wcOK_otherIn fr wc dx wc2 wl w2 h]


/-! ### closed branch of `IntersectEdges`: the invariant survives an adjacent swap -/

theorem maxabs_ne_zero (a d : Int) (hd : d = 1 ∨ d = -1) : maxabs a (a + d) ≠ 0 := by
  rcases hd with rfl | rfl
  · rw [maxabs_succ]; split <;> omega
  · rw [maxabs_pred]; split <;> omega

/-- stored own counts are never 0 -/
def NZ (fr : FillRule) (wc : Int) : Prop := match fr with | .evenOdd => wc = 1 ∨ wc = -1 | _ => wc ≠ 0

/-- with a non-zero stored count, "old wind count in {0,1}" and "== 1" are both the own-boundary test -/
theorem in01_eq_pre (fr : FillRule) (wc : Int) (h : NZ fr wc) :
    in01 (oldWc fr wc) = pre fr wc ∧ (oldWc fr wc == 1) = pre fr wc := by
  cases fr <;> simp only [NZ, in01, oldWc, pre, iabs] at h ⊢ <;> constructor <;> bsolve

/-- the "both cold, same type, both boundaries" test on the other type's count is `sel` -/
theorem goSame_eq_sel (fr : FillRule) (ct : ClipType) (hct : ct ≠ .noClip) (pt : PathType) (wc2 : Int)
    (h : match fr with | .evenOdd => wc2 = 0 ∨ wc2 = 1 | _ => True) :
    goSame ct pt (oldWc fr wc2) (oldWc fr wc2) = sel ct pt (otherIn fr wc2) := by
  cases ct <;> (try exact absurd rfl hct) <;>
  cases fr <;> cases pt <;> simp only [goSame, oldWc, sel, otherIn, iabs] at h ⊢ <;> bsolve

/-- same type, not EvenOdd: the two count updates produce the encodings at the swapped positions -/
theorem upd_same (a d1 d2 : Int) (h1 : d1 = 1 ∨ d1 = -1) (h2 : d2 = 1 ∨ d2 = -1) :
    (if maxabs a (a + d1) + d2 = 0 then -maxabs a (a + d1) else maxabs a (a + d1) + d2)
        = maxabs (a + d2) (a + d2 + d1) ∧
    (if maxabs (a + d1) (a + d1 + d2) - d1 = 0 then -maxabs (a + d1) (a + d1 + d2)
        else maxabs (a + d1) (a + d1 + d2) - d1) = maxabs a (a + d2) := by
  rcases h1 with rfl | rfl <;> rcases h2 with rfl | rfl <;>
    simp only [maxabs_succ, maxabs_pred] <;> constructor <;> omega

/-- pure Boolean core, same path type -/
theorem hot_same_core (hot1 hot2 g0 g1 g12 g2 S notXor : Bool)
    (hh1 : hot1 = ((g0 != g1) && S)) (hh2 : hot2 = ((g1 != g12) && S)) :
    decideHotB hot1 hot2 (g2 != g12) (g0 != g2) (g2 != g12) (g0 != g2) false notXor S
    = (((g2 != g12) && S), ((g0 != g2) && S)) := by
  subst hh1 hh2
  cases g0 <;> cases g1 <;> cases g12 <;> cases g2 <;> cases S <;> cases notXor <;> rfl

/-- `sel` as polarity: for every clip type but Xor it is `k != σ`; Xor is constantly true -/
def selP (notXor σ k : Bool) : Bool := if notXor then (k != σ) else true

def polarity (ct : ClipType) (pt : PathType) : Bool :=
  match ct, pt with
  | .intersection, _ => false
  | .union, _ => true
  | .difference, .subject => true
  | .difference, .clip => false
  | _, _ => false

theorem sel_eq_selP (ct : ClipType) (hct : ct ≠ .noClip) (pt : PathType) (k : Bool) :
    sel ct pt k = selP (ct != .xor) (polarity ct pt) k := by
  cases ct <;> (try exact absurd rfl hct) <;> cases pt <;> cases k <;> rfl

/-- pure Boolean core, different path types -/
theorem hot_diff_core (hot1 hot2 x0 x1 y0 y1 notXor σ1 σ2 q1 q2 go : Bool)
    (hh1 : hot1 = ((x0 != x1) && selP notXor σ1 y0)) (hh2 : hot2 = ((y0 != y1) && selP notXor σ2 x1)) :
    decideHotB hot1 hot2 (x0 != x1) (y0 != y1) q1 q2 true notXor go
    = (((x0 != x1) && selP notXor σ1 y1), ((y0 != y1) && selP notXor σ2 x0)) := by
  subst hh1 hh2
  cases notXor <;> cases σ1 <;> cases σ2 <;> cases x0 <;> cases x1 <;> cases y0 <;> cases y1 <;>
    cases q1 <;> cases q2 <;> cases go <;> rfl

theorem edgeOK_hot (cfg : Cfg) (e : Edge) (a b : Int) (h : EdgeOK cfg e a b) :
    e.hot = ((inFill cfg.fr a != inFill cfg.fr (a + e.dx)) && sel cfg.ct e.pt (inFill cfg.fr b)) := by
  obtain ⟨hd, hw, hh⟩ := h
  rw [hh, isContributingClosed, wcOK_pre _ _ _ _ _ _ hd hw, wcOK_otherIn _ _ _ _ _ _ hw]

theorem wc_nonzero (fr : FillRule) (wc dx wc2 a b : Int) (hd : dx = 1 ∨ dx = -1)
    (h : WcOK fr wc dx wc2 a b) : NZ fr wc := by
  cases fr <;> simp only [WcOK, NZ] at h ⊢
  · exact h.1
  all_goals (rw [h.1]; exact maxabs_ne_zero a dx hd)

set_option maxHeartbeats 1000000 in
theorem inv_swap_same (cfg : Cfg) (hct : cfg.ct ≠ .noClip) (e1 e2 : Edge) (a b : Int)
    (hpt : e1.pt = e2.pt)
    (h1 : EdgeOK cfg e1 a b) (h2 : EdgeOK cfg e2 (a + e1.dx) b) :
    EdgeOK cfg (intersectClosed cfg e1 e2).2 a b ∧
    EdgeOK cfg (intersectClosed cfg e1 e2).1 (a + e2.dx) b := by
  obtain ⟨ct, fr⟩ := cfg
  simp only at hct
  have hh1 := edgeOK_hot ⟨ct, fr⟩ e1 a b h1
  have hh2 := edgeOK_hot ⟨ct, fr⟩ e2 (a + e1.dx) b h2
  simp only at hh1 hh2
  obtain ⟨hd1, hw1, -⟩ := h1
  obtain ⟨hd2, hw2, -⟩ := h2
  simp only at hw1 hw2
  -- the updated counts are correct at the swapped positions
  have hW : WcOK fr (updateWinds fr e1 e2).2.wc (updateWinds fr e1 e2).2.dx (updateWinds fr e1 e2).2.wc2 a b ∧
      WcOK fr (updateWinds fr e1 e2).1.wc (updateWinds fr e1 e2).1.dx (updateWinds fr e1 e2).1.wc2 (a + e2.dx) b := by
    have hu := upd_same a e1.dx e2.dx hd1 hd2
    cases fr <;> simp only [WcOK, updateWinds, hpt, ite_true, reduceCtorEq, ite_false] at hw1 hw2 ⊢
    · exact ⟨⟨hw1.1, hw2.2⟩, ⟨hw2.1, hw1.2⟩⟩
    all_goals (rw [hw1.1, hw2.1]; exact ⟨⟨hu.2, hw2.2⟩, ⟨hu.1, hw1.2⟩⟩)
  -- fields the count update leaves alone
  have hf : (updateWinds fr e1 e2).1.pt = e1.pt ∧ (updateWinds fr e1 e2).1.dx = e1.dx ∧
      (updateWinds fr e1 e2).1.hot = e1.hot ∧ (updateWinds fr e1 e2).1.wc2 = e1.wc2 ∧
      (updateWinds fr e1 e2).2.pt = e2.pt ∧ (updateWinds fr e1 e2).2.dx = e2.dx ∧
      (updateWinds fr e1 e2).2.hot = e2.hot ∧ (updateWinds fr e1 e2).2.wc2 = e2.wc2 := by
    simp only [updateWinds, hpt, ite_true]; split <;> simp
  unfold intersectClosed
  simp only
  generalize updateWinds fr e1 e2 = p at hW hf ⊢
  obtain ⟨hW2, hW1⟩ := hW
  obtain ⟨f1, f2, f3, f4, f5, f6, f7, f8⟩ := hf
  have hd1' : p.1.dx = 1 ∨ p.1.dx = -1 := by rw [f2]; exact hd1
  have hd2' : p.2.dx = 1 ∨ p.2.dx = -1 := by rw [f6]; exact hd2
  -- own-boundary tests at the new positions
  have hP1 : pre fr p.1.wc = (inFill fr (a + e2.dx) != inFill fr (a + e2.dx + e1.dx)) := by
    have := wcOK_pre fr _ _ _ _ _ hd1' hW1
    rw [this, f2]
  have hP2 : pre fr p.2.wc = (inFill fr a != inFill fr (a + e2.dx)) := by
    have := wcOK_pre fr _ _ _ _ _ hd2' hW2
    rw [this, f6]
  have hB1 := in01_eq_pre fr p.1.wc (wc_nonzero fr _ _ _ _ _ hd1' hW1)
  have hB2 := in01_eq_pre fr p.2.wc (wc_nonzero fr _ _ _ _ _ hd2' hW2)
  have ho1 : otherIn fr p.1.wc2 = inFill fr b := wcOK_otherIn fr _ _ _ _ _ hW1
  have ho2 : otherIn fr p.2.wc2 = inFill fr b := wcOK_otherIn fr _ _ _ _ _ hW2
  have hw2eq : p.2.wc2 = p.1.wc2 := by cases fr <;> simp_all [WcOK]
  have hG : goSame ct p.1.pt (oldWc fr p.1.wc2) (oldWc fr p.2.wc2) = sel ct e1.pt (inFill fr b) := by
    rw [hw2eq, goSame_eq_sel fr ct hct p.1.pt p.1.wc2 (by cases fr <;> simp_all [WcOK] <;> omega), ho1, f1]
  have hcomm : a + e2.dx + e1.dx = a + e1.dx + e2.dx := by omega
  have hD : decideHot ⟨ct, fr⟩ p.1 p.2 =
      (((inFill fr (a + e2.dx) != inFill fr (a + e2.dx + e1.dx)) && sel ct e1.pt (inFill fr b)),
       ((inFill fr a != inFill fr (a + e2.dx)) && sel ct e1.pt (inFill fr b))) := by
    simp only [decideHot]
    rw [hB1.1, hB1.2, hB2.1, hB2.2, hP1, hP2, hG, f3, f7, f1, f5]
    have : (e1.pt != e2.pt) = false := by simp [hpt]
    rw [this, hcomm]
    exact hot_same_core e1.hot e2.hot _ _ _ _ _ _ hh1 (by rw [hh2, ← hpt])
  -- assemble
  simp only [hD]
  refine ⟨⟨hd2', hW2, ?_⟩, ⟨hd1', hW1, ?_⟩⟩
  · simp only [isContributingClosed, hP2, ho2, f5, ← hpt]
  · simp only [isContributingClosed, hP1, ho1, f1]

set_option maxHeartbeats 1000000 in
theorem inv_swap_diff (cfg : Cfg) (hct : cfg.ct ≠ .noClip) (e1 e2 : Edge) (a b : Int)
    (hpt : e1.pt ≠ e2.pt)
    (h1 : EdgeOK cfg e1 a b) (h2 : EdgeOK cfg e2 b (a + e1.dx)) :
    EdgeOK cfg (intersectClosed cfg e1 e2).2 b a ∧
    EdgeOK cfg (intersectClosed cfg e1 e2).1 a (b + e2.dx) := by
  obtain ⟨ct, fr⟩ := cfg
  simp only at hct
  have hh1 := edgeOK_hot ⟨ct, fr⟩ e1 a b h1
  have hh2 := edgeOK_hot ⟨ct, fr⟩ e2 b (a + e1.dx) h2
  simp only at hh1 hh2
  obtain ⟨hd1, hw1, -⟩ := h1
  obtain ⟨hd2, hw2, -⟩ := h2
  simp only at hw1 hw2
  have hW : WcOK fr (updateWinds fr e1 e2).2.wc (updateWinds fr e1 e2).2.dx (updateWinds fr e1 e2).2.wc2 b a ∧
      WcOK fr (updateWinds fr e1 e2).1.wc (updateWinds fr e1 e2).1.dx (updateWinds fr e1 e2).1.wc2 a (b + e2.dx) := by
    cases fr <;> simp only [WcOK, updateWinds, hpt, ite_true, reduceCtorEq, ite_false, ne_eq, not_true_eq_false,
      not_false_eq_true] at hw1 hw2 ⊢ <;>
    (obtain ⟨hw1a, hw1b⟩ := hw1; obtain ⟨hw2a, hw2b⟩ := hw2
     refine ⟨⟨hw2a, ?_⟩, ⟨hw1a, ?_⟩⟩ <;> (try split) <;> omega)
  have hf : (updateWinds fr e1 e2).1.pt = e1.pt ∧ (updateWinds fr e1 e2).1.dx = e1.dx ∧
      (updateWinds fr e1 e2).1.hot = e1.hot ∧ (updateWinds fr e1 e2).1.wc = e1.wc ∧
      (updateWinds fr e1 e2).2.pt = e2.pt ∧ (updateWinds fr e1 e2).2.dx = e2.dx ∧
      (updateWinds fr e1 e2).2.hot = e2.hot ∧ (updateWinds fr e1 e2).2.wc = e2.wc := by
    simp only [updateWinds, hpt, ite_false]; split <;> simp
  unfold intersectClosed
  simp only
  generalize updateWinds fr e1 e2 = p at hW hf ⊢
  obtain ⟨hW2, hW1⟩ := hW
  obtain ⟨f1, f2, f3, f4, f5, f6, f7, f8⟩ := hf
  have hd1' : p.1.dx = 1 ∨ p.1.dx = -1 := by rw [f2]; exact hd1
  have hd2' : p.2.dx = 1 ∨ p.2.dx = -1 := by rw [f6]; exact hd2
  have hP1 : pre fr p.1.wc = (inFill fr a != inFill fr (a + e1.dx)) := by
    have := wcOK_pre fr _ _ _ _ _ hd1' hW1
    rw [this, f2]
  have hP2 : pre fr p.2.wc = (inFill fr b != inFill fr (b + e2.dx)) := by
    have := wcOK_pre fr _ _ _ _ _ hd2' hW2
    rw [this, f6]
  have hB1 := in01_eq_pre fr p.1.wc (wc_nonzero fr _ _ _ _ _ hd1' hW1)
  have hB2 := in01_eq_pre fr p.2.wc (wc_nonzero fr _ _ _ _ _ hd2' hW2)
  have ho1 : otherIn fr p.1.wc2 = inFill fr (b + e2.dx) := wcOK_otherIn fr _ _ _ _ _ hW1
  have ho2 : otherIn fr p.2.wc2 = inFill fr a := wcOK_otherIn fr _ _ _ _ _ hW2
  have hne : (p.1.pt != p.2.pt) = true := by rw [f1, f5]; simpa using hpt
  have hD : decideHot ⟨ct, fr⟩ p.1 p.2 =
      (((inFill fr a != inFill fr (a + e1.dx)) && sel ct e1.pt (inFill fr (b + e2.dx))),
       ((inFill fr b != inFill fr (b + e2.dx)) && sel ct e2.pt (inFill fr a))) := by
    simp only [decideHot]
    rw [hB1.1, hB2.1, hP1, hP2, f3, f7, hne]
    rw [sel_eq_selP ct hct e1.pt, sel_eq_selP ct hct e2.pt]
    rw [sel_eq_selP ct hct e1.pt] at hh1
    rw [sel_eq_selP ct hct e2.pt] at hh2
    exact hot_diff_core e1.hot e2.hot _ _ _ _ _ _ _ _ _ _ hh1 hh2
  simp only [hD]
  refine ⟨⟨hd2', hW2, ?_⟩, ⟨hd1', hW1, ?_⟩⟩
  · simp only [isContributingClosed, hP2, ho2, f5]
  · simp only [isContributingClosed, hP1, ho1, f1]

/-! ### sums over lists -/

theorem other_other (t : PathType) : other (other t) = t := by cases t <;> rfl
theorem other_ne (t : PathType) : other t ≠ t := by cases t <;> simp [other]
theorem ne_other (t : PathType) : t ≠ other t := by cases t <;> simp [other]
theorem eq_other_of_ne {t u : PathType} (h : u ≠ t) : u = other t := by
  cases t <;> cases u <;> simp_all [other]

theorem sumT_append (t : PathType) (l1 l2 : List Edge) : sumT t (l1 ++ l2) = sumT t l1 + sumT t l2 := by
  induction l1 with
  | nil => simp [sumT]
  | cons x xs ih => simp only [List.cons_append, sumT, ih]; omega

theorem own_add (t : PathType) (s c : Int) (e : Edge) :
    own t (s + contrib .subject e) (c + contrib .clip e) = own t s c + contrib t e := by
  cases t <;> rfl

theorem own_add_sum (t : PathType) (s c : Int) (l : List Edge) :
    own t (s + sumT .subject l) (c + sumT .clip l) = own t s c + sumT t l := by
  cases t <;> rfl

theorem contrib_open (t : PathType) (e : Edge) (h : e.isOpen = true) : contrib t e = 0 := by
  simp [contrib, h]
theorem contrib_own (e : Edge) (h : e.isOpen = false) : contrib e.pt e = e.dx := by
  simp [contrib, h]
theorem contrib_other (e : Edge) : contrib (other e.pt) e = 0 := by
  simp only [contrib]; rw [if_neg]; intro h; exact ne_other _ h.1
theorem contrib_congr (t : PathType) (e e' : Edge) (h1 : e'.pt = e.pt) (h2 : e'.isOpen = e.isOpen)
    (h3 : e'.dx = e.dx) : contrib t e' = contrib t e := by
  simp only [contrib, h1, h2, h3]

theorem invFrom_append (cfg : Cfg) (l1 l2 : List Edge) : ∀ (s c : Int),
    InvFrom cfg s c (l1 ++ l2) ↔
      InvFrom cfg s c l1 ∧ InvFrom cfg (s + sumT .subject l1) (c + sumT .clip l1) l2 := by
  induction l1 with
  | nil => intro s c; simp [InvFrom, sumT]
  | cons x xs ih =>
    intro s c
    simp only [List.cons_append, InvFrom, ih, sumT, and_assoc, Int.add_assoc]

/-- every closed edge has direction ±1 -/
def ClosedDx (l : List Edge) : Prop := ∀ x ∈ l, x.isOpen = false → x.dx = 1 ∨ x.dx = -1

theorem invFrom_closedDx (cfg : Cfg) (l : List Edge) : ∀ (s c : Int), InvFrom cfg s c l → ClosedDx l := by
  induction l with
  | nil => intro _ _ _ x hx; cases hx
  | cons y ys ih =>
    intro s c h x hx ho
    rcases List.mem_cons.mp hx with rfl | hx
    · exact (h.1 ho).1
    · exact ih _ _ h.2 x hx ho

theorem closedDx_append (l1 l2 : List Edge) : ClosedDx (l1 ++ l2) ↔ ClosedDx l1 ∧ ClosedDx l2 := by
  simp only [ClosedDx, List.mem_append]
  constructor
  · intro h; exact ⟨fun x hx => h x (Or.inl hx), fun x hx => h x (Or.inr hx)⟩
  · rintro ⟨h1, h2⟩ x (hx | hx); exact h1 x hx; exact h2 x hx

theorem closedDx_cons (x : Edge) (l : List Edge) :
    ClosedDx (x :: l) ↔ (x.isOpen = false → x.dx = 1 ∨ x.dx = -1) ∧ ClosedDx l := by
  simp only [ClosedDx, List.mem_cons]
  constructor
  · intro h; exact ⟨h x (Or.inl rfl), fun y hy => h y (Or.inr hy)⟩
  · rintro ⟨h1, h2⟩ y (rfl | hy); exact h1; exact h2 y hy

/-! ### `SetWindCountForClosedPathEdge` -/

def encWc (fr : FillRule) (s dx : Int) : Int := match fr with | .evenOdd => dx | _ => maxabs s (s + dx)
def enc2 (fr : FillRule) (s : Int) : Int := match fr with | .evenOdd => s % 2 | _ => s

theorem wcOK_enc (fr : FillRule) (s dx w2 : Int) (hd : dx = 1 ∨ dx = -1) :
    WcOK fr (encWc fr s dx) dx (enc2 fr w2) s w2 := by
  cases fr <;> simp [WcOK, encWc, enc2, hd]

theorem wcFrom_enc (w d2 dx : Int) (h2 : d2 = 1 ∨ d2 = -1) (hx : dx = 1 ∨ dx = -1) :
    wcFrom false (maxabs w (w + d2)) d2 dx = maxabs (w + d2) (w + d2 + dx) := by
  rcases h2 with rfl | rfl <;> rcases hx with rfl | rfl <;>
    simp only [wcFrom, maxabs_succ, maxabs_pred, iabs, Bool.false_eq_true, if_false] <;>
    (repeat' split) <;> omega

theorem findPrev_none (t : PathType) (rp : List Edge) :
    (findPrev t rp).1 = none → (findPrev t rp).2 = rp.reverse ∧ sumT t rp.reverse = 0 := by
  induction rp with
  | nil => intro _; simp [findPrev, sumT]
  | cons y ys ih =>
    intro h
    by_cases hc : y.pt = t ∧ y.isOpen = false
    · simp [findPrev, hc] at h
    · simp only [findPrev, if_neg hc] at h ⊢
      obtain ⟨h1, h2⟩ := ih h
      refine ⟨by rw [h1, List.reverse_cons], ?_⟩
      rw [List.reverse_cons, sumT_append, h2]
      simp [sumT, contrib, hc]

theorem findPrev_some (t : PathType) (rp : List Edge) (x : Edge) :
    (findPrev t rp).1 = some x →
      ∃ l1, rp.reverse = l1 ++ x :: (findPrev t rp).2 ∧ x.pt = t ∧ x.isOpen = false ∧
        sumT t (findPrev t rp).2 = 0 := by
  induction rp with
  | nil => intro h; simp [findPrev] at h
  | cons y ys ih =>
    intro h
    by_cases hc : y.pt = t ∧ y.isOpen = false
    · simp only [findPrev, if_pos hc, Option.some.injEq] at h ⊢
      subst h
      exact ⟨ys.reverse, by simp, hc.1, hc.2, rfl⟩
    · simp only [findPrev, if_neg hc] at h ⊢
      obtain ⟨l1, h1, h2, h3, h4⟩ := ih h
      refine ⟨l1, by rw [List.reverse_cons, h1]; simp, h2, h3, ?_⟩
      rw [sumT_append, h4]
      simp [sumT, contrib, hc]

theorem wc2Loop_sum (fr : FillRule) (hfr : fr ≠ .evenOdd) (t : PathType) (l : List Edge) : ∀ (w : Int),
    wc2Loop fr t l w = w + sumT (other t) l := by
  induction l with
  | nil => intro w; simp [wc2Loop, sumT]
  | cons x xs ih =>
    intro w
    by_cases hc : x.pt ≠ t ∧ x.isOpen = false
    · have : contrib (other t) x = x.dx := by
        simp only [contrib]; rw [if_pos ⟨eq_other_of_ne hc.1, hc.2⟩]
      simp only [wc2Loop, if_pos hc, if_neg hfr, ih, sumT, this]; omega
    · have : contrib (other t) x = 0 := by
        simp only [contrib]; rw [if_neg]; rintro ⟨h1, h2⟩; exact hc ⟨by rw [h1]; exact other_ne t, h2⟩
      simp only [wc2Loop, if_neg hc, ih, sumT, this]; omega

theorem wc2Loop_parity (t : PathType) (l : List Edge) : ∀ (w0 : Int), ClosedDx l →
    wc2Loop .evenOdd t l (w0 % 2) = (w0 + sumT (other t) l) % 2 := by
  induction l with
  | nil => intro w0 _; simp [wc2Loop, sumT]
  | cons x xs ih =>
    intro w0 hd
    rw [closedDx_cons] at hd
    by_cases hc : x.pt ≠ t ∧ x.isOpen = false
    · have hcx : contrib (other t) x = x.dx := by
        simp only [contrib]; rw [if_pos ⟨eq_other_of_ne hc.1, hc.2⟩]
      have hdx := hd.1 hc.2
      have htog : (if w0 % 2 = 0 then (1 : Int) else 0) = (w0 + x.dx) % 2 := by
        rcases hdx with h | h <;> rw [h] <;> split <;> omega
      simp only [wc2Loop, if_pos hc, ite_true, sumT, hcx, htog, ih _ hd.2]
      congr 1; omega
    · have hcx : contrib (other t) x = 0 := by
        simp only [contrib]; rw [if_neg]; rintro ⟨h1, h2⟩; exact hc ⟨by rw [h1]; exact other_ne t, h2⟩
      simp only [wc2Loop, if_neg hc, sumT, hcx, ih _ hd.2]
      congr 1; omega

theorem enc2_zero (fr : FillRule) : enc2 fr 0 = 0 := by cases fr <;> rfl

/-- the counts computed by `SetWindCountForClosedPathEdge` are the encodings of the sums to the left -/
theorem setWindClosed_spec (cfg : Cfg) (left : List Edge) (e : Edge)
    (hinv : Inv cfg left) (ho : e.isOpen = false) (hw2 : e.wc2 = 0) (hd : e.dx = 1 ∨ e.dx = -1) :
    setWindClosed cfg.fr left e =
      { e with wc := encWc cfg.fr (sumT e.pt left) e.dx, wc2 := enc2 cfg.fr (sumT (other e.pt) left) } := by
  obtain ⟨ct, fr⟩ := cfg
  simp only
  have hcd := invFrom_closedDx _ _ _ _ hinv
  rcases hfp : findPrev e.pt left.reverse with ⟨_ | e2, btw⟩
  · -- no closed edge of the same type to the left
    have h := findPrev_none e.pt left.reverse (by rw [hfp])
    rw [hfp, List.reverse_reverse] at h
    obtain ⟨hb, hs⟩ := h
    simp only at hb; subst hb
    simp only [setWindClosed, hfp, hs, hw2]
    congr 1
    · cases fr <;> simp only [encWc] <;> rcases hd with h | h <;> rw [h] <;> decide
    · by_cases hfr : fr = .evenOdd
      · subst hfr
        have := wc2Loop_parity e.pt btw 0 hcd
        simpa [enc2] using this
      · rw [wc2Loop_sum fr hfr]; cases fr <;> simp_all [enc2]
  · have h := findPrev_some e.pt left.reverse e2 (by rw [hfp])
    rw [hfp, List.reverse_reverse] at h
    obtain ⟨l1, hl, hpt2, hop2, hs⟩ := h
    simp only at hl hs
    subst hl
    have hinv' := (invFrom_append ⟨ct, fr⟩ l1 (e2 :: btw) 0 0).mp hinv
    obtain ⟨hdx2, hwc2, -⟩ := hinv'.2.1 hop2
    rw [closedDx_append, closedDx_cons] at hcd
    have hsum1 : sumT e.pt (l1 ++ e2 :: btw) = sumT e.pt l1 + e2.dx := by
      rw [sumT_append]; simp only [sumT, hs]; rw [← hpt2, contrib_own e2 hop2]; omega
    have hsum2 : sumT (other e.pt) (l1 ++ e2 :: btw) = sumT (other e.pt) l1 + sumT (other e.pt) btw := by
      rw [sumT_append]; simp only [sumT]; rw [← hpt2, contrib_other e2]; omega
    rw [hsum1, hsum2]
    have hown : own e.pt 0 0 = 0 := by cases e.pt <;> rfl
    have hoth : own (other e.pt) 0 0 = 0 := by cases e.pt <;> rfl
    rw [own_add_sum, own_add_sum, hpt2, hown, hoth, Int.zero_add, Int.zero_add] at hwc2
    simp only at hwc2
    simp only [setWindClosed, hfp]
    by_cases hfr : fr = .evenOdd
    · subst hfr
      simp only [WcOK] at hwc2
      simp only [ite_true, encWc, enc2]
      rw [hwc2.2, wc2Loop_parity _ _ _ hcd.2.2]
    · simp only [if_neg hfr]
      have hw : e2.wc = maxabs (sumT e.pt l1) (sumT e.pt l1 + e2.dx) ∧ e2.wc2 = sumT (other e.pt) l1 := by
        cases fr <;> simp_all [WcOK]
      rw [wc2Loop_sum fr hfr, hw.1, hw.2, ho, wcFrom_enc _ _ _ hdx2 hd]
      cases fr <;> simp_all [encWc, enc2]

/-! ### the invariant is preserved by every operation -/

theorem intersectPair_fields (cfg : Cfg) (e1 e2 : Edge) :
    (intersectPair cfg e1 e2).1.pt = e1.pt ∧ (intersectPair cfg e1 e2).1.isOpen = e1.isOpen ∧
    (intersectPair cfg e1 e2).1.dx = e1.dx ∧
    (intersectPair cfg e1 e2).2.pt = e2.pt ∧ (intersectPair cfg e1 e2).2.isOpen = e2.isOpen ∧
    (intersectPair cfg e1 e2).2.dx = e2.dx := by
  simp only [intersectPair, intersectOpen, intersectClosed, updateWinds]
  (repeat' split) <;> simp

theorem invFrom_pair_swap (cfg : Cfg) (hct : cfg.ct ≠ .noClip) (s c : Int) (e1 e2 : Edge) (rest : List Edge)
    (h : InvFrom cfg s c (e1 :: e2 :: rest)) :
    InvFrom cfg s c ((intersectPair cfg e1 e2).2 :: (intersectPair cfg e1 e2).1 :: rest) := by
  obtain ⟨f1, f2, f3, f4, f5, f6⟩ := intersectPair_fields cfg e1 e2
  have c1 : ∀ t, contrib t (intersectPair cfg e1 e2).1 = contrib t e1 := fun t => contrib_congr t _ _ f1 f2 f3
  have c2 : ∀ t, contrib t (intersectPair cfg e1 e2).2 = contrib t e2 := fun t => contrib_congr t _ _ f4 f5 f6
  simp only [InvFrom] at h ⊢
  obtain ⟨h1, h2, hrest⟩ := h
  rw [own_add, own_add] at h2
  rw [own_add, own_add, c1, c1, c2, c2, c2, c2, f1, f2, f4, f5]
  refine ⟨?_, ?_, ?_⟩
  case refine_3 =>
    have e1' : s + contrib .subject e2 + contrib .subject e1 = s + contrib .subject e1 + contrib .subject e2 := by omega
    have e2' : c + contrib .clip e2 + contrib .clip e1 = c + contrib .clip e1 + contrib .clip e2 := by omega
    rw [e1', e2']; exact hrest
  all_goals
    cases ho1 : e1.isOpen <;> cases ho2 : e2.isOpen <;> intro hcl <;> (try cases hcl)
  -- both closed (two goals), then e1 closed / e2 open, then e1 open / e2 closed
  · have hp : intersectPair cfg e1 e2 = intersectClosed cfg e1 e2 := by simp [intersectPair, ho1, ho2]
    rw [hp] at f4 ⊢
    by_cases hpt : e1.pt = e2.pt
    · have k2 := h2 ho2
      rw [← hpt, contrib_own e1 ho1, contrib_other e1, Int.add_zero] at k2
      have := (inv_swap_same cfg hct e1 e2 _ _ hpt (h1 ho1) k2).1
      rw [← hpt]; exact this
    · have hpt' : e2.pt = other e1.pt := eq_other_of_ne (fun h => hpt h.symm)
      have k2 := h2 ho2
      rw [hpt', other_other, contrib_own e1 ho1, contrib_other e1, Int.add_zero] at k2
      have := (inv_swap_diff cfg hct e1 e2 _ _ hpt (h1 ho1) k2).1
      rw [hpt', other_other]; exact this
  · have hp : intersectPair cfg e1 e2 = (intersectOpen cfg e1 e2, e2) := by simp [intersectPair, ho1, ho2]
    rw [hp]; simp only
    have k2 := h2 ho2
    rw [contrib_open _ e1 ho1, contrib_open _ e1 ho1, Int.add_zero, Int.add_zero] at k2
    exact k2
  · have hp : intersectPair cfg e1 e2 = intersectClosed cfg e1 e2 := by simp [intersectPair, ho1, ho2]
    rw [hp] at f1 ⊢
    by_cases hpt : e1.pt = e2.pt
    · have k2 := h2 ho2
      rw [← hpt, contrib_own e1 ho1, contrib_other e1, Int.add_zero] at k2
      have := (inv_swap_same cfg hct e1 e2 _ _ hpt (h1 ho1) k2).2
      rw [hpt, contrib_own e2 ho2, contrib_other e2, Int.add_zero, ← hpt]; exact this
    · have hpt' : e2.pt = other e1.pt := eq_other_of_ne (fun h => hpt h.symm)
      have k2 := h2 ho2
      rw [hpt', other_other, contrib_own e1 ho1, contrib_other e1, Int.add_zero] at k2
      have := (inv_swap_diff cfg hct e1 e2 _ _ hpt (h1 ho1) k2).2
      have hc0 : contrib e1.pt e2 = 0 := by
        have := contrib_other e2; rw [hpt', other_other] at this; exact this
      have hc1 : contrib (other e1.pt) e2 = e2.dx := by rw [← hpt']; exact contrib_own e2 ho2
      rw [hc0, hc1, Int.add_zero]; exact this
  · have hp : intersectPair cfg e1 e2 = (e1, intersectOpen cfg e2 e1) := by simp [intersectPair, ho1, ho2]
    rw [hp]; simp only
    rw [contrib_open _ e2 ho2, contrib_open _ e2 ho2, Int.add_zero, Int.add_zero]
    exact h1 ho1

theorem drop_split {α} (l : List α) (i : Nat) (tl : List α) (h : l.drop i = tl) : l = l.take i ++ tl := by
  rw [← h, List.take_append_drop]

theorem maxabs_back (a d : Int) (hd : d = 1 ∨ d = -1) : maxabs a (a + d) = maxabs (a + d) (a + d + -d) := by
  rcases hd with rfl | rfl
  · have : a + 1 + -1 = a := by omega
    rw [this, maxabs_succ]; unfold maxabs iabs; (repeat' split) <;> omega
  · have : a + -1 + - -1 = a := by omega
    rw [this, maxabs_pred]; unfold maxabs iabs; (repeat' split) <;> omega

/-- the right bound copies the left bound's counts and that is correct one position further right -/
theorem wcOK_right (fr : FillRule) (a b d : Int) (hd : d = 1 ∨ d = -1) :
    WcOK fr (encWc fr a d) (-d) (enc2 fr b) (a + d) b := by
  cases fr <;> simp only [WcOK, encWc, enc2, and_true] <;> first | exact hd | exact maxabs_back a d hd

/-- inserting a correct closed local-minimum pair in front of a correct suffix -/
theorem invFrom_insert_closed (cfg : Cfg) (s c : Int) (pt : PathType) (dx : Int) (hd : dx = 1 ∨ dx = -1)
    (rest : List Edge) (h : InvFrom cfg s c rest) :
    let wc := encWc cfg.fr (own pt s c) dx
    let wc2 := enc2 cfg.fr (own (other pt) s c)
    let hot := isContributingClosed cfg.ct cfg.fr pt wc wc2
    InvFrom cfg s c
      ({ pt := pt, isOpen := false, dx := dx, wc := wc, wc2 := wc2, hot := hot } ::
       { pt := pt, isOpen := false, dx := -dx, wc := wc, wc2 := wc2, hot := hot } :: rest) := by
  intro wc wc2 hot
  simp only [InvFrom]
  refine ⟨fun _ => ⟨hd, wcOK_enc _ _ _ _ hd, rfl⟩, fun _ => ⟨?_, ?_, rfl⟩, ?_⟩
  · simp only; rcases hd with h | h <;> rw [h] <;> decide
  · rw [own_add, own_add]
    simp only
    have h1 : contrib pt { pt := pt, isOpen := false, dx := dx, wc := wc, wc2 := wc2, hot := hot } = dx :=
      contrib_own _ rfl
    have h2 : contrib (other pt) { pt := pt, isOpen := false, dx := dx, wc := wc, wc2 := wc2, hot := hot } = 0 :=
      contrib_other _
    rw [h1, h2, Int.add_zero]
    exact wcOK_right _ _ _ _ hd
  · have : ∀ t, contrib t { pt := pt, isOpen := false, dx := dx, wc := wc, wc2 := wc2, hot := hot } +
        contrib t { pt := pt, isOpen := false, dx := -dx, wc := wc, wc2 := wc2, hot := hot } = 0 := by
      intro t; simp only [contrib]; split <;> omega
    have e1 := this .subject
    have e2 := this .clip
    rw [Int.add_assoc, Int.add_assoc, e1, e2, Int.add_zero, Int.add_zero]; exact h

theorem invFrom_cons_open (cfg : Cfg) (s c : Int) (e : Edge) (ho : e.isOpen = true) (rest : List Edge) :
    InvFrom cfg s c (e :: rest) ↔ InvFrom cfg s c rest := by
  simp only [InvFrom, contrib_open _ e ho, Int.add_zero, ho]
  simp

theorem setWindOpen_fields (fr : FillRule) (left : List Edge) (e : Edge) :
    (setWindOpen fr left e).pt = e.pt ∧ (setWindOpen fr left e).isOpen = e.isOpen ∧
    (setWindOpen fr left e).dx = e.dx := by
  simp only [setWindOpen]; split <;> simp

theorem inR_zero (ct : ClipType) (fr : FillRule) : inR ct fr 0 0 = false := by
  cases ct <;> cases fr <;> rfl

/-- number of hot closed edges -/
def hotCount : List Edge → Nat
  | [] => 0
  | e :: rest => (if e.isOpen = false ∧ e.hot = true then 1 else 0) + hotCount rest

theorem filled_own (ct : ClipType) (fr : FillRule) (pt : PathType) (s c : Int) :
    filled ct fr pt (own pt s c) (own (other pt) s c) = inR ct fr s c := by
  cases pt <;> rfl

theorem coverage_from (cfg : Cfg) (l : List Edge) : ∀ (s c : Int) (k : Nat), InvFrom cfg s c l →
    inR cfg.ct cfg.fr (s + sumT .subject (l.take k)) (c + sumT .clip (l.take k)) =
      (inR cfg.ct cfg.fr s c != decide (hotCount (l.take k) % 2 = 1)) := by
  induction l with
  | nil => intro s c k _; simp [sumT, hotCount]
  | cons e rest ih =>
    intro s c k h
    cases k with
    | zero => simp [sumT, hotCount]
    | succ k =>
      simp only [List.take_succ_cons, sumT, hotCount]
      have hi := ih _ _ k h.2
      rw [← Int.add_assoc, ← Int.add_assoc, hi]
      cases ho : e.isOpen
      · obtain ⟨hd, hw, hh⟩ := h.1 ho
        have hb := icc_boundary cfg.ct cfg.fr e.pt e.wc e.dx e.wc2 _ _ hd hw
        rw [← hh, filled_own] at hb
        have hstep : filled cfg.ct cfg.fr e.pt (own e.pt s c + e.dx) (own (other e.pt) s c) =
            inR cfg.ct cfg.fr (s + contrib .subject e) (c + contrib .clip e) := by
          rw [← filled_own cfg.ct cfg.fr e.pt (s + contrib .subject e), own_add, own_add,
            contrib_own e ho, contrib_other e, Int.add_zero]
        rw [hstep] at hb
        generalize inR cfg.ct cfg.fr (s + contrib .subject e) (c + contrib .clip e) = r1 at hb ⊢
        generalize inR cfg.ct cfg.fr s c = r0 at hb ⊢
        generalize hotCount (List.take k rest) = n
        have hcnt : decide (((if (false = false ∧ e.hot = true) then 1 else 0) + n) % 2 = 1) =
            (e.hot != decide (n % 2 = 1)) := by
          cases e.hot <;> (rw [Bool.eq_iff_iff]; simp; try omega)
        rw [hcnt, hb]
        generalize decide (n % 2 = 1) = p
        cases r0 <;> cases r1 <;> cases p <;> rfl
      · simp only [contrib_open _ e ho, Int.add_zero, false_and, ite_false, Nat.zero_add,
          Bool.true_eq_false]

theorem setWindClosed_fields (fr : FillRule) (left : List Edge) (e : Edge) :
    (setWindClosed fr left e).pt = e.pt ∧ (setWindClosed fr left e).isOpen = e.isOpen ∧
    (setWindClosed fr left e).dx = e.dx := by
  simp only [setWindClosed]; split <;> (try split) <;> simp

theorem newLeft_fields (cfg : Cfg) (left : List Edge) (pt : PathType) (isOpen : Bool) (dx : Int) :
    (newLeft cfg left pt isOpen dx).1.pt = pt ∧ (newLeft cfg left pt isOpen dx).1.isOpen = isOpen ∧
    (newLeft cfg left pt isOpen dx).1.dx = dx := by
  simp only [newLeft]
  split
  · exact setWindOpen_fields _ _ _
  · exact setWindClosed_fields _ _ _

end Clipper.Model
