/-
Helpers for Props/C04Inside: the executable model of `PointInOpPolygon` / `GetCleanPath` / `Path1InsidePath2`
(`Model/HorzJoins.lean`) against the exact even-odd rule of C18 (`Spec.pipEvenOdd`, `Lemmas/PipScan.lean`).

  * `pointInOpPolygon_exact`   the ring-walking `PointInOpPolygon` is the same cyclic fold as `PointInPolygon` (`pipCyc`)
                               on the rotation of the ring that starts at the first vertex off the horizontal through the
                               point, with `CrossProductSign` (exact, `Generated/Core.lean`) in place of `CrossProduct`; hence it
                               is `pipEvenOdd`, under the same two hypotheses as `C18Geom.pointInPolygon_exact`;
  * the vote loop as a function of the list of classifications (`decideVotes`) and its closed form (`score` of prefixes);
  * `GetCleanPath`: sublist of the ring, what is kept, identity on rings without axis-parallel collinear triples.
Core Lean only.
-/
import ClipperVerif.Model.HorzJoins
import ClipperVerif.Lemmas.PipRefine
namespace Clipper.Lemmas.Path1Inside
open Clipper Clipper.Model Clipper.Model.HorzJoins Clipper.Lemmas.Geom

/-! ## `PointInOpPolygon` is the exact even-odd rule -/

/-- `CrossProductSign(a, b, c)` on points -/
def cpS (a b c : Pt) : Int := Clipper.Gen.CrossProductSign a.x a.y b.x b.y c.x c.y

theorem cpS_zero_iff (a b c : Pt) : cpS a b c = 0 ↔ crossProduct a b c = 0 := by
  simp only [cpS, Clipper.Gen.CrossProductSign, crossProduct, decide_eq_true_eq]
  generalize (b.x - a.x) * (c.y - b.y) = p
  generalize (b.y - a.y) * (c.x - b.x) = q
  (repeat' split) <;> omega

theorem cpS_neg_iff (a b c : Pt) : cpS a b c < 0 ↔ crossProduct a b c < 0 := by
  simp only [cpS, Clipper.Gen.CrossProductSign, crossProduct, decide_eq_true_eq]
  generalize (b.x - a.x) * (c.y - b.y) = p
  generalize (b.y - a.y) * (c.x - b.x) = q
  (repeat' split) <;> omega

/-- `vertexStep` only looks at the sign of the cross product -/
theorem vertexStep_cpS (pt pr c : Pt) (ia : Bool) (val : Int) :
    vertexStep cpS pt pr c ia val = vertexStep crossProduct pt pr c ia val := by
  unfold vertexStep
  have h0 := cpS_zero_iff pr c pt
  have hn := cpS_neg_iff pr c pt
  have hd : decide (cpS pr c pt < 0) = decide (crossProduct pr c pt < 0) := by
    rw [Bool.eq_iff_iff]; simpa using hn
  simp only [h0, hd]

theorem scanStep_cpS (pt pr c : Pt) (ia : Bool) (val : Int) :
    scanStep cpS pt pr c ia val = scanStep crossProduct pt pr c ia val := by
  unfold scanStep; rw [vertexStep_cpS]

/-- one vertex of the main loop of `PointInOpPolygon` is one vertex of the main loop of `PointInPolygon` -/
theorem pipOpStep_eq (pt p v : Pt) (ia : Bool) (val : Int) :
    pipOpStep pt p v ia val = scanStep cpS pt p v ia val := by
  unfold pipOpStep scanStep vertexStep
  by_cases hskip : (if ia then v.y < pt.y else v.y > pt.y)
  · have : ((ia && decide (v.y < pt.y)) || (!ia && decide (v.y > pt.y))) = true := by
      cases ia <;> simpa using hskip
    rw [if_pos this, if_pos hskip]
  · have : ¬ (((ia && decide (v.y < pt.y)) || (!ia && decide (v.y > pt.y))) = true) := by
      cases ia <;> simpa using hskip
    rw [if_neg this, if_neg hskip]
    by_cases hy : v.y = pt.y
    · rw [if_pos hy, if_pos hy]
      by_cases hon : v.x = pt.x ∨ (v.y = p.y ∧ (decide (pt.x < p.x) != decide (pt.x < v.x)) = true)
      · have : (decide (v.x = pt.x) || (decide (v.y = p.y) && (decide (pt.x < p.x) != decide (pt.x < v.x)))) = true := by
          simpa using hon
        rw [if_pos this, if_pos hon]
      · have : ¬ ((decide (v.x = pt.x) || (decide (v.y = p.y) && (decide (pt.x < p.x) != decide (pt.x < v.x)))) = true) := by
          simpa using hon
        rw [if_neg this, if_neg hon]
    · rw [if_neg hy, if_neg hy]
      by_cases hl : pt.x < v.x ∧ pt.x < p.x
      · have : (decide (pt.x < v.x) && decide (pt.x < p.x)) = true := by simpa using hl
        rw [if_pos this, if_pos hl]
      · have : ¬ ((decide (pt.x < v.x) && decide (pt.x < p.x)) = true) := by simpa using hl
        rw [if_neg this, if_neg hl]
        by_cases hr : pt.x > p.x ∧ pt.x > v.x
        · have : (decide (pt.x > p.x) && decide (pt.x > v.x)) = true := by simpa using hr
          rw [if_pos this, if_pos hr]
        · have : ¬ ((decide (pt.x > p.x) && decide (pt.x > v.x)) = true) := by simpa using hr
          rw [if_neg this, if_neg hr]
          show (if cpS p v pt = 0 then none
            else some (!ia, if (decide (cpS p v pt < 0) == ia) = true then 1 - val else val)) = _
          by_cases hz : cpS p v pt = 0
          · simp [hz]
          · by_cases hs : (decide (cpS p v pt < 0) == ia) = true <;> simp [hz, hs]

theorem pipOpScan_eq (pt : Pt) : ∀ (rest : List Pt) (p : Pt) (ia : Bool) (val : Int),
    pipOpScan pt p ia val rest = pipScan crossProduct pt p ia val rest
  | [], p, ia, val => rfl
  | v :: rest, p, ia, val => by
    rw [pipOpScan, pipScan, pipOpStep_eq, scanStep_cpS]
    cases scanStep crossProduct pt p v ia val with
    | none => rfl
    | some st => obtain ⟨a, w⟩ := st; exact pipOpScan_eq pt rest v a w

theorem pipClose_cpS (pt l f : Pt) (sa ia : Bool) (val : Int) :
    pipClose cpS pt l f sa ia val = pipClose crossProduct pt l f sa ia val := by
  unfold pipClose
  have h0 := cpS_zero_iff l f pt
  have hd : decide (cpS l f pt < 0) = decide (crossProduct l f pt < 0) := by
    rw [Bool.eq_iff_iff]; simpa using cpS_neg_iff l f pt
  simp only [h0, hd]

/-- `PointInOpPolygon` on a ring whose rotation starting at the first off-line vertex is `f :: rest` -/
theorem pointInOpPolygon_eq_cyc (pt : Pt) (ring : List Pt) (k : Nat) (f : Pt) (rest : List Pt)
    (hn : 3 ≤ ring.length) (hk : ring.findIdx? (fun q => q.y != pt.y) = some k) (hr : rotL ring k = f :: rest) :
    pointInOpPolygon pt ring = pipCyc crossProduct pt f rest := by
  unfold pointInOpPolygon
  have : ¬ ring.length < 3 := by omega
  simp only [this, if_false, hk, hr, pipOpScan_eq, pipCyc]
  cases pipScan crossProduct pt f (decide (f.y < pt.y)) 0 rest with
  | none => rfl
  | some st =>
    obtain ⟨l, ia, val⟩ := st
    simp only
    rw [← pipClose_cpS]
    rfl

theorem pipEvenOdd_rotL (ring : List Pt) (k : Nat) (p : Pt) : pipEvenOdd (rotL ring k) p = pipEvenOdd ring p := by
  unfold rotL
  rw [pipEvenOdd_rotate, List.take_append_drop]

/-- **`PointInOpPolygon` is the even-odd rule, exactly**: for every ring with at least three vertices that has a vertex
off the horizontal line through the point, the result code (0 = IsOn, 1 = IsInside, 2 = IsOutside) is `pipEvenOdd`. -/
theorem pointInOpPolygon_exact (pt : Pt) (ring : List Pt) (hn : 3 ≤ ring.length) (hoff : ∃ v ∈ ring, v.y ≠ pt.y) :
    pipCode (pointInOpPolygon pt ring) = pipEvenOdd ring pt := by
  obtain ⟨v, hv, hvy⟩ := hoff
  have hsome : (ring.findIdx? (fun q => q.y != pt.y)).isSome = true := by
    rw [List.findIdx?_isSome, List.any_eq_true]
    exact ⟨v, hv, by simpa using hvy⟩
  obtain ⟨k, hk⟩ := Option.isSome_iff_exists.mp hsome
  obtain ⟨hklt, hkp, _⟩ := List.findIdx?_eq_some_iff_getElem.mp hk
  have hr : rotL ring k = ring[k] :: (ring.drop (k + 1) ++ ring.take k) := by
    unfold rotL
    rw [List.drop_eq_getElem_cons hklt]; rfl
  rw [pointInOpPolygon_eq_cyc pt ring k _ _ hn hk hr, pipCyc_spec _ (by simpa using hkp), ← hr, pipEvenOdd_rotL]

/-- the degenerate rings: fewer than three vertices, or all vertices on the horizontal through the point — `IsOutside`
whatever the geometry -/
theorem pointInOpPolygon_degenerate (pt : Pt) (ring : List Pt) (h : ring.length < 3 ∨ ∀ v ∈ ring, v.y = pt.y) :
    pointInOpPolygon pt ring = .isOutside := by
  unfold pointInOpPolygon
  by_cases hn : ring.length < 3
  · simp [hn]
  · have hall : ∀ v ∈ ring, v.y = pt.y := by rcases h with h | h; exact absurd h hn; exact h
    have : ring.findIdx? (fun q => q.y != pt.y) = none := by
      rw [List.findIdx?_eq_none_iff]
      intro x hx; simpa using hall x hx
    simp [hn, this]


/-! ### classification by the exact rule, without side conditions for "strictly inside" / "strictly outside" -/

theorem mem_edgesOf {ring : List Pt} {e : Pt × Pt} (h : e ∈ edgesOf ring) : e.1 ∈ ring ∧ e.2 ∈ ring := by
  cases ring with
  | nil => simp [edgesOf] at h
  | cons a rest =>
    obtain ⟨x, y⟩ := e
    have := List.of_mem_zip h
    refine ⟨this.1, ?_⟩
    rcases List.mem_append.mp this.2 with h2 | h2
    · exact List.mem_cons_of_mem _ h2
    · simp only [List.mem_singleton] at h2; subst h2; exact List.mem_cons_self

theorem sum_eq_zero_of_all_zero : ∀ (l : List Int), (∀ x ∈ l, x = 0) → l.sum = 0
  | [], _ => rfl
  | x :: r, h => by
    rw [List.sum_cons, h x List.mem_cons_self, sum_eq_zero_of_all_zero r (fun y hy => h y (List.mem_cons_of_mem _ hy))]
    rfl

/-- a ring all of whose vertices lie on the horizontal through `p` has crossing number 0 -/
theorem windPath_flat (ring : List Pt) (p : Pt) (h : ∀ v ∈ ring, v.y = p.y) : windPath ring p = 0 := by
  unfold windPath
  apply sum_eq_zero_of_all_zero
  intro x hx
  obtain ⟨e, he, rfl⟩ := List.mem_map.mp hx
  obtain ⟨h1, h2⟩ := mem_edgesOf he
  have a := h _ h1
  have b := h _ h2
  unfold crossing
  have c1 : ¬ (e.1.y ≤ p.y ∧ p.y < e.2.y) := by omega
  have c2 : ¬ (e.2.y ≤ p.y ∧ p.y < e.1.y) := by omega
  simp only [c1, c2, if_false]

theorem cross_swap (a b p : Pt) : cross b a p = - cross a b p := by
  simp only [cross]; grind

/-- fewer than three vertices: the crossing number is even -/
theorem windPath_short (ring : List Pt) (p : Pt) (h : ring.length < 3) : windPath ring p % 2 = 0 := by
  match ring, h with
  | [], _ => rfl
  | [a], _ =>
    simp only [windPath, edgesOf, List.nil_append, List.zip_cons_cons, List.zip_nil_right, List.map_cons, List.map_nil,
      List.sum_cons, List.sum_nil, crossing]
    have c1 : ¬ (a.y ≤ p.y ∧ p.y < a.y) := by omega
    simp [c1]
  | [a, b], _ =>
    simp only [windPath, edgesOf, List.cons_append, List.nil_append, List.zip_cons_cons, List.zip_nil_right,
      List.map_cons, List.map_nil, List.sum_cons, List.sum_nil, crossing, cross_swap a b p]
    generalize cross a b p = d
    (repeat' split) <;> omega
  | _ :: _ :: _ :: _, h => simp at h; omega

/-- **strictly inside (exact even-odd) ⇒ `PointInOpPolygon` says `IsInside`** — no side condition: a point with odd
crossing number forces the ring to have ≥ 3 vertices and a vertex off the horizontal through the point. -/
theorem pointInOpPolygon_of_inside (q : Pt) (ring : List Pt) (h : pipEvenOdd ring q = 1) :
    pointInOpPolygon q ring = .isInside := by
  have hodd : windPath ring q % 2 ≠ 0 := by
    unfold pipEvenOdd at h
    split at h
    · omega
    · split at h
      · assumption
      · omega
  have hn : 3 ≤ ring.length := by
    rcases Nat.lt_or_ge ring.length 3 with h3 | h3
    · exact absurd (windPath_short ring q h3) hodd
    · exact h3
  have hoff : ∃ v ∈ ring, v.y ≠ q.y := by
    apply Classical.byContradiction
    intro hno
    have hall : ∀ v ∈ ring, v.y = q.y := by
      intro v hv
      apply Classical.byContradiction
      intro hne
      exact hno ⟨v, hv, hne⟩
    rw [windPath_flat ring q hall] at hodd
    exact hodd rfl
  have := pointInOpPolygon_exact q ring hn hoff
  rw [h] at this
  cases hr : pointInOpPolygon q ring <;> simp [hr, pipCode] at this ⊢

/-- **strictly outside (exact even-odd) ⇒ `PointInOpPolygon` says `IsOutside`** — no side condition (on the degenerate
rings the code answers `IsOutside` anyway). -/
theorem pointInOpPolygon_of_outside (q : Pt) (ring : List Pt) (h : pipEvenOdd ring q = 2) :
    pointInOpPolygon q ring = .isOutside := by
  by_cases hdeg : ring.length < 3 ∨ ∀ v ∈ ring, v.y = q.y
  · exact pointInOpPolygon_degenerate q ring hdeg
  · have hn : 3 ≤ ring.length := by
      rcases Nat.lt_or_ge ring.length 3 with h3 | h3
      · exact absurd (Or.inl h3) hdeg
      · exact h3
    have hoff : ∃ v ∈ ring, v.y ≠ q.y := by
      apply Classical.byContradiction
      intro hno
      apply hdeg; right
      intro v hv
      apply Classical.byContradiction
      intro hne
      exact hno ⟨v, hv, hne⟩
    have := pointInOpPolygon_exact q ring hn hoff
    rw [h] at this
    cases hr : pointInOpPolygon q ring <;> simp [hr, pipCode] at this ⊢

/-- a point strictly below (smaller `y` than) every vertex is strictly outside -/
theorem pipEvenOdd_of_below (ring : List Pt) (q : Pt) (h : ∀ v ∈ ring, q.y < v.y) : pipEvenOdd ring q = 2 := by
  have hb : onBoundary ring q = false := by
    unfold onBoundary
    rw [List.any_eq_false]
    intro e he
    obtain ⟨h1, h2⟩ := mem_edgesOf he
    have a := h _ h1
    have b := h _ h2
    unfold onSeg
    have : ¬ (min e.1.y e.2.y ≤ q.y) := by omega
    simp [this]
  have hw : windPath ring q = 0 := by
    unfold windPath
    apply sum_eq_zero_of_all_zero
    intro x hx
    obtain ⟨e, he, rfl⟩ := List.mem_map.mp hx
    obtain ⟨h1, h2⟩ := mem_edgesOf he
    have a := h _ h1
    have b := h _ h2
    unfold crossing
    have c1 : ¬ (e.1.y ≤ q.y ∧ q.y < e.2.y) := by omega
    have c2 : ¬ (e.2.y ≤ q.y ∧ q.y < e.1.y) := by omega
    simp only [c1, c2, if_false]
  simp [pipEvenOdd, hb, hw]

/-- a point strictly above (larger `y` than) every vertex is strictly outside -/
theorem pipEvenOdd_of_above (ring : List Pt) (q : Pt) (h : ∀ v ∈ ring, v.y < q.y) : pipEvenOdd ring q = 2 := by
  have hb : onBoundary ring q = false := by
    unfold onBoundary
    rw [List.any_eq_false]
    intro e he
    obtain ⟨h1, h2⟩ := mem_edgesOf he
    have a := h _ h1
    have b := h _ h2
    unfold onSeg
    have : ¬ (q.y ≤ max e.1.y e.2.y) := by omega
    simp [this]
  have hw : windPath ring q = 0 := by
    unfold windPath
    apply sum_eq_zero_of_all_zero
    intro x hx
    obtain ⟨e, he, rfl⟩ := List.mem_map.mp hx
    obtain ⟨h1, h2⟩ := mem_edgesOf he
    have a := h _ h1
    have b := h _ h2
    unfold crossing
    have c1 : ¬ (e.1.y ≤ q.y ∧ q.y < e.2.y) := by omega
    have c2 : ¬ (e.2.y ≤ q.y ∧ q.y < e.1.y) := by omega
    simp only [c1, c2, if_false]
  simp [pipEvenOdd, hb, hw]

/-! ## the vote loop of `Path1InsidePath2` as a function of the classifications -/

/-- what one vertex adds to `outside_cnt`: `++` for `IsOutside`, `--` for `IsInside`, nothing for `IsOn` -/
def voteOf : PipResult → Int
  | .isOutside => 1
  | .isInside => -1
  | .isOn => 0

/-- `outside_cnt` after the vertices with classifications `cls`: #outside − #inside -/
def score : List PipResult → Int
  | [] => 0
  | c :: cs => voteOf c + score cs

/-- **the vote loop on the sequence of classifications** (ring1's vertices in traversal order from `op1`):
`some b` = the loop was left because `|outside_cnt|` reached `2`, and `b = (outside_cnt < 0)`; `none` = every vertex was
visited with `|outside_cnt| < 2` throughout (the location is "still equivocal") -/
def decideVotes : Int → List PipResult → Option Bool
  | _, [] => none
  | cnt, c :: rest =>
    let cnt' := cnt + voteOf c
    if cnt'.natAbs < 2 then decideVotes cnt' rest else some (decide (cnt' < 0))

theorem voteOf_range (c : PipResult) : voteOf c = 1 ∨ voteOf c = -1 ∨ voteOf c = 0 := by
  cases c <;> simp [voteOf]

theorem score_take_succ (c : PipResult) (cs : List PipResult) (k : Nat) :
    score ((c :: cs).take (k + 1)) = voteOf c + score (cs.take k) := by
  simp [score]

/-- closed form of the vote loop: it stops with answer `b` iff some prefix of the classification sequence has score
exactly `−2` (`b = true`, two more inside than outside) resp. `+2` (`b = false`), and every shorter prefix has `|score| < 2` -/
theorem decideVotes_eq_some_iff (cls : List PipResult) (c : Int) (hc : c.natAbs < 2) (b : Bool) :
    decideVotes c cls = some b ↔
      ∃ k, k ≤ cls.length ∧ c + score (cls.take k) = (if b then -2 else 2) ∧
        ∀ j, j < k → (c + score (cls.take j)).natAbs < 2 := by
  induction cls generalizing c with
  | nil =>
    simp only [decideVotes, List.length_nil, List.take_nil, score]
    constructor
    · intro h; exact absurd h (by simp)
    · rintro ⟨k, _, h, _⟩; cases b <;> simp at h <;> omega
  | cons x rest ih =>
    rw [decideVotes]
    by_cases hlt : (c + voteOf x).natAbs < 2
    · rw [if_pos hlt, ih (c + voteOf x) hlt]
      constructor
      · rintro ⟨k, hk, hs, hall⟩
        refine ⟨k + 1, by simp; omega, ?_, ?_⟩
        · rw [score_take_succ]; omega
        · intro j hj
          cases j with
          | zero => simpa [score] using hc
          | succ j => rw [score_take_succ]; have := hall j (by omega); rw [← Int.add_assoc]; exact this
      · rintro ⟨k, hk, hs, hall⟩
        cases k with
        | zero => simp only [List.take_zero, score] at hs; cases b <;> simp at hs <;> omega
        | succ k =>
          refine ⟨k, by simpa using hk, ?_, ?_⟩
          · rw [score_take_succ] at hs; omega
          · intro j hj
            have := hall (j + 1) (by omega)
            rw [score_take_succ, ← Int.add_assoc] at this; exact this
    · rw [if_neg hlt]
      have hv := voteOf_range x
      constructor
      · intro h
        have hb : b = decide (c + voteOf x < 0) := by simpa using h.symm
        refine ⟨1, by simp, ?_, ?_⟩
        · simp only [List.take_succ_cons, List.take_zero, score]
          subst hb
          by_cases hneg : c + voteOf x < 0 <;> simp [hneg] <;> omega
        · intro j hj
          have : j = 0 := by omega
          subst this; simpa [score] using hc
      · rintro ⟨k, hk, hs, hall⟩
        cases k with
        | zero => simp only [List.take_zero, score] at hs; cases b <;> simp at hs <;> omega
        | succ k =>
          cases k with
          | zero =>
            simp only [List.take_succ_cons, List.take_zero, score] at hs
            cases b <;> simp at hs ⊢ <;> omega
          | succ k =>
            have := hall 1 (by omega)
            simp only [List.take_succ_cons, List.take_zero, score] at this
            omega

theorem decideVotes_eq_none_iff (cls : List PipResult) (c : Int) (hc : c.natAbs < 2) :
    decideVotes c cls = none ↔ ∀ k, k ≤ cls.length → (c + score (cls.take k)).natAbs < 2 := by
  induction cls generalizing c with
  | nil =>
    simp only [decideVotes, List.length_nil, List.take_nil, score, true_iff]
    intro k _; simpa using hc
  | cons x rest ih =>
    rw [decideVotes]
    by_cases hlt : (c + voteOf x).natAbs < 2
    · rw [if_pos hlt, ih (c + voteOf x) hlt]
      constructor
      · intro h k hk
        cases k with
        | zero => simpa [score] using hc
        | succ k =>
          rw [score_take_succ, ← Int.add_assoc]
          exact h k (by simpa using hk)
      · intro h k hk
        have := h (k + 1) (by simpa using hk)
        rw [score_take_succ, ← Int.add_assoc] at this; exact this
    · rw [if_neg hlt]
      constructor
      · intro h; exact absurd h (by simp)
      · intro h
        have := h 1 (by simp)
        simp only [List.take_succ_cons, List.take_zero, score] at this
        omega

theorem insideVotes_cons (ring2 : List Pt) (c : Int) (q : Pt) (rest : List Pt) :
    insideVotes ring2 c (q :: rest) =
      if (c + voteOf (pointInOpPolygon q ring2)).natAbs < 2 then insideVotes ring2 (c + voteOf (pointInOpPolygon q ring2)) rest
      else c + voteOf (pointInOpPolygon q ring2) := by
  rw [insideVotes]
  cases pointInOpPolygon q ring2 <;> simp [voteOf, Int.sub_eq_add_neg] <;> rfl

/-- the model's loop is `decideVotes` on the classifications `PointInOpPolygon(op->pt, op2)` -/
theorem insideVotes_spec (ring2 : List Pt) : ∀ (ring1 : List Pt) (c : Int), c.natAbs < 2 →
    match decideVotes c (ring1.map (fun q => pointInOpPolygon q ring2)) with
    | some b => (insideVotes ring2 c ring1).natAbs > 1 ∧ decide (insideVotes ring2 c ring1 < 0) = b
    | none => ¬ (insideVotes ring2 c ring1).natAbs > 1
  | [], c, hc => by simp only [List.map_nil, decideVotes, insideVotes]; omega
  | q :: rest, c, hc => by
    rw [insideVotes_cons]
    simp only [List.map_cons, decideVotes]
    by_cases hlt : (c + voteOf (pointInOpPolygon q ring2)).natAbs < 2
    · simp only [hlt, if_true]
      exact insideVotes_spec ring2 rest _ hlt
    · simp only [hlt, if_false]
      exact ⟨by omega, trivial⟩

/-! ## `GetCleanPath` -/

/-- the removal condition of `GetCleanPath`: `c` has the same `x` (or the same `y`) as its successor `nx` and as `pv` -/
def axisCollinear (pv c nx : Pt) : Prop := (c.x = nx.x ∧ c.x = pv.x) ∨ (c.y = nx.y ∧ c.y = pv.y)

instance (pv c nx : Pt) : Decidable (axisCollinear pv c nx) := by unfold axisCollinear; exact inferInstance

/-- the ring successor of the last element of `rest` is `first` -/
def nextOr (first : Pt) : List Pt → Pt
  | [] => first
  | q :: _ => q

theorem cleanRest_cons (first pv c : Pt) (rest : List Pt) :
    cleanRest first pv (c :: rest) =
      if axisCollinear pv c (nextOr first rest) then cleanRest first pv rest else c :: cleanRest first c rest := by
  have key : ∀ (nx : Pt) (A B : List Pt),
      (if (c.x ≠ nx.x ∨ c.x ≠ pv.x) ∧ (c.y ≠ nx.y ∨ c.y ≠ pv.y) then A else B) =
        if axisCollinear pv c nx then B else A := by
    intro nx A B
    by_cases h : axisCollinear pv c nx
    · have h' := h
      unfold axisCollinear at h'
      have : ¬ ((c.x ≠ nx.x ∨ c.x ≠ pv.x) ∧ (c.y ≠ nx.y ∨ c.y ≠ pv.y)) := by omega
      rw [if_neg this, if_pos h]
    · have h' := h
      unfold axisCollinear at h'
      have : (c.x ≠ nx.x ∨ c.x ≠ pv.x) ∧ (c.y ≠ nx.y ∨ c.y ≠ pv.y) := by omega
      rw [if_pos this, if_neg h]
  cases rest with
  | nil => rw [cleanRest.eq_2]; exact key first _ _
  | cons q r => rw [cleanRest.eq_3]; exact key q _ _

theorem cleanRest_sublist (first : Pt) : ∀ (l : List Pt) (pv : Pt), (cleanRest first pv l).Sublist l
  | [], _ => by simp [cleanRest]
  | c :: rest, pv => by
    rw [cleanRest_cons]
    split
    · exact (cleanRest_sublist first rest pv).trans (List.sublist_cons_self c rest)
    · exact (cleanRest_sublist first rest c).cons_cons c

/-- `GetCleanPath` only removes vertices: the result is a sublist of the ring (same order, starting from `op`) -/
theorem getCleanPath_sublist (ring : List Pt) : (getCleanPath ring).Sublist ring := by
  unfold getCleanPath
  simp only
  generalize cleanStart ring.toArray ring.length ring.length 0 = k
  cases hd : ring.drop k with
  | nil => simp
  | cons s rest =>
    cases hh : ring.head? with
    | none => simp
    | some first =>
      simp only
      have h1 : (s :: cleanRest first s rest).Sublist (s :: rest) := (cleanRest_sublist first rest s).cons_cons s
      rw [← hd] at h1
      exact h1.trans (List.drop_sublist k ring)

theorem cleanStart_lt (a : Array Pt) (n : Nat) : ∀ (f k : Nat), k < n → cleanStart a n f k < n
  | 0, k, h => by simpa [cleanStart] using h
  | f + 1, k, h => by
    rw [cleanStart]
    split
    · exact h
    · split
      · split
        · exact cleanStart_lt a n f (k + 1) (by omega)
        · exact h
      · exact h

/-- the result is never empty for a non-empty ring (the vertex where the first loop stops is always emitted) -/
theorem getCleanPath_ne_nil (ring : List Pt) (h : ring ≠ []) : getCleanPath ring ≠ [] := by
  unfold getCleanPath
  simp only
  have hn : 0 < ring.length := List.length_pos_iff.mpr h
  have hk := cleanStart_lt ring.toArray ring.length ring.length 0 hn
  generalize cleanStart ring.toArray ring.length ring.length 0 = k at hk
  cases hd : ring.drop k with
  | nil => have := List.drop_eq_nil_iff.mp hd; omega
  | cons s rest =>
    cases ring with
    | nil => exact absurd rfl h
    | cons f r => simp

/-- every vertex of `l` (with predecessor `pv`, ring successor of the last one = `first`) fails the removal condition -/
def ChainClean (first : Pt) : Pt → List Pt → Prop
  | _, [] => True
  | pv, c :: rest => ¬ axisCollinear pv c (nextOr first rest) ∧ ChainClean first c rest

theorem cleanRest_id (first : Pt) : ∀ (l : List Pt) (pv : Pt), ChainClean first pv l → cleanRest first pv l = l
  | [], _, _ => by simp [cleanRest]
  | c :: rest, pv, h => by
    rw [cleanRest_cons, if_neg h.1, cleanRest_id first rest c h.2]

/-- a ring without axis-parallel collinear triples, cyclically: no vertex has the same `x` (or the same `y`) as both its
predecessor and its successor -/
def AxisClean : List Pt → Prop
  | [] => True
  | f :: rest => (rest = [] ∨ ¬ axisCollinear (lastOf f rest) f (nextOr f rest)) ∧ ChainClean f f rest

theorem cleanStart_zero (f q : Pt) (r : List Pt) (h : ¬ axisCollinear (lastOf f (q :: r)) f q) :
    cleanStart (f :: q :: r).toArray (f :: q :: r).length (f :: q :: r).length 0 = 0 := by
  have hn : (f :: q :: r).length = (r.length + 1) + 1 := by simp
  rw [hn, cleanStart]
  have h1 : ¬ (0 + 1 ≥ r.length + 1 + 1) := by omega
  rw [if_neg h1]
  have hmod : (0 + (r.length + 1 + 1) - 1) % (r.length + 1 + 1) = r.length + 1 := by
    rw [Nat.zero_add, Nat.add_sub_cancel]; exact Nat.mod_eq_of_lt (by omega)
  have hlast : (f :: q :: r).toArray[r.length + 1]? = some (lastOf f (q :: r)) := by
    have := getLast?_cons_eq_lastOf f (q :: r)
    rw [List.getLast?_eq_getElem?] at this
    simpa using this
  rw [hmod, hlast]
  simp only [List.getElem?_toArray, List.getElem?_cons_zero, Nat.zero_add, List.getElem?_cons_succ]
  unfold axisCollinear at h
  rw [if_neg h]

/-- **`GetCleanPath` is the identity on rings without axis-parallel collinear triples** -/
theorem getCleanPath_id (ring : List Pt) (h : AxisClean ring) : getCleanPath ring = ring := by
  match ring, h with
  | [], _ => rfl
  | [f], _ => simp [getCleanPath, cleanStart, cleanRest]
  | f :: q :: r, ⟨h1, h2⟩ =>
    have h1' : ¬ axisCollinear (lastOf f (q :: r)) f q := by
      rcases h1 with h1 | h1
      · exact absurd h1 (by simp)
      · exact h1
    unfold getCleanPath
    simp only
    rw [cleanStart_zero f q r h1']
    simp only [List.drop_zero, List.head?_cons]
    rw [cleanRest_id f (q :: r) f h2]

end Clipper.Lemmas.Path1Inside
