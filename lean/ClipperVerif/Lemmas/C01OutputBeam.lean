/-
Helper lemmas for `Props/C01Output.lean`, part 8: one scanbeam of the decorated run, and the induction over the scanbeams: the decorated
events are accepted by the ring model, the side state follows the AEL of the scanbeam model at all three stages, and the events are
geometric.  Core Lean only.
-/
import ClipperVerif.Lemmas.C01OutputSweep
namespace Clipper.Lemmas.C01Output
open Clipper Clipper.Model Clipper.Model.AelOrder Clipper.Model.SweepOrder Clipper.Model.SweepEvents Clipper.Model.SweepPoints
open Clipper.Lemmas.SweepOrder Clipper.Lemmas.C01Region Clipper.Props.C01Sweep
open Clipper.Props.C01RegionRings (baseOps baseOf)

/-- what is proved of one scanbeam `r` of the decorated run that starts in the state `r0` of the ring model, the scanbeam model's AEL being
`ael`; `q` is the same scanbeam of the derived run of `Model/SweepEvents.lean` -/
structure BeamP (cfg : Cfg) (lab : Lab) (D : Int) (E : GEdge → Prop) (r0 : RState) (ael : List GEdge) (r : BeamRunP) (q : BeamRun)
    (rI rX rT : RState) : Prop where
  runIns : runR cfg r0 r.evIns = .ok rI
  trIns : Tracks lab (erase rI.s.ael) r.snap.inserted
  runIsect : runR cfg rI r.evIsect = .ok rX
  trIsect : Tracks lab (erase rX.s.ael) r.snap.afterIsect
  runTop : runR cfg rX r.evTop = .ok rT
  trTop : Tracks lab (erase rT.s.ael) r.snap.afterTop
  gIns : GRun D E ael r.evIns r.snap.inserted
  gIsect : GRun D E r.snap.inserted r.evIsect r.snap.afterIsect
  gTop : GRun D E r.snap.afterIsect r.evTop r.snap.afterTop
  plI : Plain rI.s.ael ∧ Reach cfg rI
  plX : Plain rX.s.ael ∧ Reach cfg rX
  plT : Plain rT.s.ael ∧ Reach cfg rT
  snap : q.snap = r.snap
  eraseIns : baseOps r.evIns = q.evIns
  swaps : ∃ is, baseOps r.evIsect = is.map .intersect ∧ applySwaps is r.snap.inserted = some r.snap.afterIsect
  eraseTop : baseOps r.evTop = q.evTop
  plainOps : ∀ op ∈ r.events, PlainOp op
  heights : ∀ op ∈ r.evIsect, D * r.snap.y1 < op.pt.y ∧ op.pt.y ≤ D * r.snap.y0
  hIns : ∀ op ∈ r.evIns, op.pt.y = D * r.snap.y0
  hTop : ∀ op ∈ r.evTop, op.pt.y = D * r.snap.y1
  chain : YChain (D * r.snap.y0) r.events

theorem updOK_nil_of_base (rops : List ROp) (n : Nat) (h : ∀ op ∈ rops, PlainOp op ∧ ∃ bop pt, op = .base bop pt) : UpdOK n rops :=
  updOK_of_base rops n (fun op ho => (h op ho).2)

/-- **one scanbeam of the decorated run.** -/
theorem beamP (cfg : Cfg) (hct : cfg.ct ≠ .noClip) (D : Int) (hD : 0 < D) (edges : List GEdge) (valid : Int → GEdge → GEdge → Bool)
    (cx : GEdge → Int → Int) (next : GEdge → Option GEdge) (mins : Int → List (GEdge × GEdge)) (lab : Lab) (ael : List GEdge)
    (y0 y1 : Int) (r0 : RState)
    (hup : AllUp edges) (hnx : NextOK edges next mins) (hn : Near cx)
    (hdx : DxOK edges lab) (hnl : NextLab edges next lab) (hst : Starts edges next mins)
    (hb : BeamOK edges valid next mins y0 y1) (hr : BeamR edges next mins lab y0 y1)
    (h0 : AelAt edges mins y0 ael) (hc : CompleteAt edges mins y0 ael)
    (hre : Reach cfg r0) (hP : Plain r0.s.ael) (ht : Tracks lab (erase r0.s.ael) ael)
    (hden : ∀ c ∈ geoSwaps (beamStep valid cx next mins ael y0 y1).afterIsect (beamStep valid cx next mins ael y0 y1).inserted,
      (crossQ c.2.1 c.2.2).d ∣ D) :
    ∃ rI rX rT, BeamP cfg lab D (· ∈ edges) r0 ael (beamRunP D valid cx next mins lab ael y0 y1)
      (beamRun valid cx next mins lab ael y0 y1) rI rX rT := by
  obtain ⟨⟨i1, i2⟩, ⟨b1, _, b3⟩, c1⟩ := scanbeam_keeps_sorted edges valid cx next mins ael y0 y1 hup hnx hn hb h0
  obtain ⟨hnb, hml, hmx⟩ := hr
  have hmem := inserted_mem edges valid cx next mins ael y0 y1 hup hb h0 i2
  have hb' := hb
  obtain ⟨hy, hm, hgm, hv, hnt, hgt⟩ := hb
  obtain ⟨hI, hC⟩ := completeAt_step edges valid cx next mins ael y0 y1 hup hnx hst hnb hy i2 hc
  -- (1) insertions
  obtain ⟨lI, rI', tI⟩ := insEvents_tracks cfg (valid y0) lab (mins y0) ael (erase r0.s.ael) ht (fun p hp =>
    ⟨hml p hp, hdx p.1 (hm.1 p hp).1⟩)
  obtain ⟨rI, runI, eI, pI, reI⟩ := runR_lift cfg hct (insEventsP D (valid y0) lab ael (mins y0)) r0 lI
    (fun op ho => (plain_insEventsP D (valid y0) lab (mins y0) ael op ho).1) hre hP
    (by rw [baseOps_insEventsP]; exact rI')
    (updOK_nil_of_base _ _ (plain_insEventsP D (valid y0) lab (mins y0) ael))
  -- (2) intersections, bottom-up
  have hsched := geoSwaps_spec y0 y1 hy _ _ i1 b3 b1
  have hsw := sched_applySwaps _ _ _ hsched
  have hsw' := congrArg (Option.map (List.map (labKey lab))) hsw
  have tI' : Tracks lab lI (beamStep valid cx next mins ael y0 y1).inserted := tI
  rw [← applySwaps_map, ← tI'] at hsw'
  obtain ⟨lX, rX', tX⟩ := run_intersects cfg _ lI _ hsw'
  have tX' : Tracks lab lX (beamStep valid cx next mins ael y0 y1).afterIsect := tX
  obtain ⟨rX, runX, eX, pX, reX⟩ := runR_lift cfg hct
    (isectEventsP D (beamStep valid cx next mins ael y0 y1).afterIsect (beamStep valid cx next mins ael y0 y1).inserted) rI lX
    (fun op ho => (plain_isectEventsP D _ _ op ho).1) reI pI
    (by rw [baseOps_isectEventsP, eI]; exact rX')
    (updOK_nil_of_base _ _ (plain_isectEventsP D _ _))
  -- (3) top of the scanbeam
  have hmemX : ∀ e ∈ (beamStep valid cx next mins ael y0 y1).afterIsect, e ∈ edges ∧ AliveBelow y1 e := by
    intro e he
    have := hmem e (b1.mem_iff.1 he)
    exact ⟨this.1, this.2.2⟩
  have hclosed : ∀ a ∈ (beamStep valid cx next mins ael y0 y1).afterIsect, isMax next y1 a = true → ∀ b ∈ edges, AliveBelow y1 b →
      b.top = a.top → b ∈ (beamStep valid cx next mins ael y0 y1).afterIsect := by
    intro a _ _ b hbe hba _
    have := hnb b hbe
    exact b1.mem_iff.2 (hI b hbe (by unfold AliveAbove; unfold AliveBelow at hba; omega))
  have hadj : MaxAdjAux next y1 lab none (beamStep valid cx next mins ael y0 y1).afterIsect :=
    maxAdj_of_sorted edges next lab y1 hup hgt hmx _ _ (Nat.le_refl _) b3 hmemX hclosed
  have hadjT : MaxAdjT next y1 none (beamStep valid cx next mins ael y0 y1).afterIsect :=
    maxAdjT_of_sorted edges next lab y1 hup hgt hmx _ _ (Nat.le_refl _) b3 hmemX hclosed
  obtain ⟨lT, rT', tT⟩ := (topEvents_tracks cfg next y1 lab (beamStep valid cx next mins ael y0 y1).afterIsect [] lX 0 rfl
    (fun e he e' h => hnl e (hmemX e he).1 e' h)).1 tX' hadj
  have hlenX : rX.s.ael.length = (beamStep valid cx next mins ael y0 y1).afterIsect.length := by
    have := tracks_length tX'
    rw [← eX] at this
    simpa [erase] using this
  obtain ⟨rT, runT, eT, pT, reT⟩ := runR_lift cfg hct (topEventsP D next y1 (beamStep valid cx next mins ael y0 y1).afterIsect) rX lT
    (plain_topEventsAuxP D next y1 _ false 0) reX pX
    (by unfold topEventsP; rw [baseOps_topEventsAuxP, eX]; exact rT')
    (updOK_topEventsAuxP D next y1 _ false 0 _ (fun _ => by omega) (fun h => by cases h))
  -- geometry
  have hs0 : ael.Pairwise (ltU y0) :=
    h0.sorted.imp_of_mem (fun {a b} ha hb h => ltU_of_xlt (hup a (h0.mem a ha).1) (hup b (h0.mem b hb).1) h.1)
  have hfresh : ∀ e ∈ ael, e ∉ boundsOf (mins y0) := by
    intro e he hin
    obtain ⟨p, hp, hep⟩ := mem_boundsOf.1 hin
    obtain ⟨_, _, hbot, hby, _⟩ := hm.1 p hp
    have : e.bot.y = y0 := by rcases hep with rfl | rfl; exact hby; rw [← hbot]; exact hby
    exact (h0.mem e he).2.2 this hin
  have gI := gRun_ins D edges (valid y0) y0 lab hup hv (mins y0) ael hm.1 hm.2 hgm hs0
    (fun e he => ⟨(h0.mem e he).1, (h0.mem e he).2.1⟩) hfresh
  have halive : ∀ e ∈ (beamStep valid cx next mins ael y0 y1).inserted, e.top.y ≤ y1 ∧ y0 ≤ e.bot.y := by
    intro e he
    obtain ⟨_, h2, h3⟩ := hmem e he
    unfold AliveAbove at h2; unfold AliveBelow at h3
    omega
  have gX := gRun_sched D hD (· ∈ edges) y0 y1 hy _ _ _ hsched halive hden
  have gT := (gRun_top D edges next mins y1 hup hnx (beamStep valid cx next mins ael y0 y1).afterIsect [] 0 rfl
    (fun e he => (hmemX e he).1)).1 hadjT
  have hh := sched_heights D hD y0 y1 hy _ _ _ hsched halive hden
  have hIns' := heights_insEventsP D (valid y0) lab y0 (mins y0) ael (fun p hp => ⟨(hm.1 p hp).2.2.1, (hm.1 p hp).2.2.2.1⟩)
  have hTop' := heights_topEventsAuxP D next y1 (beamStep valid cx next mins ael y0 y1).afterIsect false 0
  have hy01 : D * y1 ≤ D * y0 := Int.mul_le_mul_of_nonneg_left (Int.le_of_lt hy) (Int.le_of_lt hD)
  have hgeo := geo_heights y1 _ b3 ((beamStep valid cx next mins ael y0 y1).inserted.length * (beamStep valid cx next mins ael y0 y1).inserted.length)
    (beamStep valid cx next mins ael y0 y1).inserted y0 1 (by omega) (by omega)
    (fun e he => ⟨b1.mem_iff.2 he, hup e (hmem e he).1⟩) (i1.imp (fun h => leAt_of_ltAbove y0 h))
  have hchainX : YChain (D * y0) (isectEventsP D (beamStep valid cx next mins ael y0 y1).afterIsect (beamStep valid cx next mins ael y0 y1).inserted) :=
    yChain_of_heights D hD _ y0 1 (D * y0) (by omega) (by grind) hgeo hden
  have hchain : YChain (D * y0) (insEventsP D (valid y0) lab ael (mins y0) ++
      isectEventsP D (beamStep valid cx next mins ael y0 y1).afterIsect (beamStep valid cx next mins ael y0 y1).inserted ++
      topEventsP D next y1 (beamStep valid cx next mins ael y0 y1).afterIsect) := by
    rw [List.append_assoc]
    refine yChain_append _ _ (D * y0) (D * y0) (yChain_const _ _ hIns') ?_ (fun op ho => by rw [hIns' op ho]; exact Int.le_refl _) (Int.le_refl _)
    refine yChain_append _ _ (D * y0) (D * y1) hchainX (yChain_const _ _ hTop') ?_ hy01
    intro op ho
    simp only [isectEventsP, List.mem_map] at ho
    obtain ⟨c, hc', rfl⟩ := ho
    exact Int.le_of_lt (hh c hc').1
  refine ⟨rI, rX, rT, ?_⟩
  refine
    { runIns := runI, trIns := by rw [eI]; exact tI, runIsect := runX, trIsect := by rw [eX]; exact tX', runTop := runT,
      trTop := by rw [eT]; exact tT, gIns := gI, gIsect := gX, gTop := by
        have gT' : GRun D (· ∈ edges) (beamStep valid cx next mins ael y0 y1).afterIsect
            (topEventsP D next y1 (beamStep valid cx next mins ael y0 y1).afterIsect)
            (topOfBeam next y1 (beamStep valid cx next mins ael y0 y1).afterIsect) := by
          simpa [topEventsP, topOfBeam] using gT
        exact gT',
      plI := ⟨pI, reI⟩, plX := ⟨pX, reX⟩, plT := ⟨pT, reT⟩, snap := rfl,
      eraseIns := baseOps_insEventsP D (valid y0) lab (mins y0) ael,
      swaps := ⟨_, by show baseOps (isectEventsP D _ _) = _; rw [baseOps_isectEventsP], hsw⟩,
      eraseTop := by show baseOps (topEventsP D next y1 _) = topEvents next y1 _; unfold topEventsP topEvents; rw [baseOps_topEventsAuxP],
      plainOps := ?_, heights := ?_,
      hIns := hIns', hTop := hTop', chain := hchain }
  · intro op ho
    simp only [BeamRunP.events, beamRunP, List.mem_append] at ho
    rcases ho with (ho | ho) | ho
    · exact (plain_insEventsP D (valid y0) lab (mins y0) ael op ho).1
    · exact (plain_isectEventsP D _ _ op ho).1
    · exact plain_topEventsAuxP D next y1 _ false 0 op ho
  · intro op ho
    simp only [beamRunP, isectEventsP, List.mem_map] at ho
    obtain ⟨c, hc', rfl⟩ := ho
    exact hh c hc'

/-! ## the induction over the scanbeams -/

theorem beamRunsP_cons (D : Int) (valid : Int → GEdge → GEdge → Bool) (cx : GEdge → Int → Int) (next : GEdge → Option GEdge)
    (mins : Int → List (GEdge × GEdge)) (lab : Lab) (ael : List GEdge) (y0 y1 : Int) (rest : List Int) :
    beamRunsP D valid cx next mins lab ael (y0 :: y1 :: rest) =
      beamRunP D valid cx next mins lab ael y0 y1 ::
        beamRunsP D valid cx next mins lab (beamStep valid cx next mins ael y0 y1).afterTop (y1 :: rest) := by
  simp [beamRunsP, beamRunP]

theorem runR_events (cfg : Cfg) {lab : Lab} {D : Int} {E : GEdge → Prop} {r0 : RState} {ael : List GEdge} {r : BeamRunP} {q : BeamRun}
    {rI rX rT : RState} (h : BeamP cfg lab D E r0 ael r q rI rX rT) : runR cfg r0 r.events = .ok rT := by
  simp only [BeamRunP.events, runR_append, h.runIns, h.runIsect, h.runTop]

theorem gRun_events {cfg : Cfg} {lab : Lab} {D : Int} {E : GEdge → Prop} {r0 : RState} {ael : List GEdge} {r : BeamRunP} {q : BeamRun}
    {rI rX rT : RState} (h : BeamP cfg lab D E r0 ael r q rI rX rT) : GRun D E ael r.events r.snap.afterTop :=
  gRun_append D E _ _ _ _ _ (gRun_append D E _ _ _ _ _ h.gIns h.gIsect) h.gTop

/-- what is proved of the whole decorated run from the state `r0` / the AEL `ael` -/
structure SweepP (cfg : Cfg) (lab : Lab) (D : Int) (edges : List GEdge) (valid : Int → GEdge → GEdge → Bool) (cx : GEdge → Int → Int)
    (next : GEdge → Option GEdge) (mins : Int → List (GEdge × GEdge)) (r0 : RState) (ael : List GEdge) (ys : List Int) : Prop where
  /-- the whole list is accepted and geometric -/
  all : ∃ rEnd aelEnd, runR cfg r0 ((beamRunsP D valid cx next mins lab ael ys).flatMap BeamRunP.events) = .ok rEnd ∧
    GRun D (· ∈ edges) ael ((beamRunsP D valid cx next mins lab ael ys).flatMap BeamRunP.events) aelEnd ∧
    Plain rEnd.s.ael ∧ Reach cfg rEnd ∧ Tracks lab (erase rEnd.s.ael) aelEnd
  /-- every scanbeam -/
  beams : ∀ (pre : List BeamRunP) (r : BeamRunP) (post : List BeamRunP), beamRunsP D valid cx next mins lab ael ys = pre ++ r :: post →
    ∃ r1 aelr y0 y1 rI rX rT, runR cfg r0 (pre.flatMap BeamRunP.events) = .ok r1 ∧
      GRun D (· ∈ edges) ael (pre.flatMap BeamRunP.events) aelr ∧
      r = beamRunP D valid cx next mins lab aelr y0 y1 ∧
      BeamP cfg lab D (· ∈ edges) r1 aelr r (beamRun valid cx next mins lab aelr y0 y1) rI rX rT ∧
      BeamFacts edges r.snap ∧ EndsAbove (D * r.snap.y0) r1.o ∧ EndsAbove (D * r.snap.y0) rI.o
  plainOps : ∀ op ∈ (beamRunsP D valid cx next mins lab ael ys).flatMap BeamRunP.events, PlainOp op
  /-- the whole list is in bottom-up order, starting at the first scanline -/
  chain : ∀ y, ys.head? = some y → YChain (D * y) ((beamRunsP D valid cx next mins lab ael ys).flatMap BeamRunP.events)

theorem sweepP (cfg : Cfg) (hct : cfg.ct ≠ .noClip) (D : Int) (hD : 0 < D) (edges : List GEdge) (valid : Int → GEdge → GEdge → Bool)
    (cx : GEdge → Int → Int) (next : GEdge → Option GEdge) (mins : Int → List (GEdge × GEdge)) (lab : Lab)
    (hup : AllUp edges) (hnx : NextOK edges next mins) (hn : Near cx)
    (hdx : DxOK edges lab) (hnl : NextLab edges next lab) (hst : Starts edges next mins) :
    ∀ (ys : List Int) (ael : List GEdge) (r0 : RState), SweepOK edges valid next mins ys → SweepR edges next mins lab ys →
      (∀ y, ys.head? = some y → AelAt edges mins y ael ∧ CompleteAt edges mins y ael) →
      Reach cfg r0 → Plain r0.s.ael → Tracks lab (erase r0.s.ael) ael →
      (∀ s ∈ sweepFrom valid cx next mins ael ys, ∀ c ∈ geoSwaps s.afterIsect s.inserted, (crossQ c.2.1 c.2.2).d ∣ D) →
      (∀ y, ys.head? = some y → EndsAbove (D * y) r0.o) →
      SweepP cfg lab D edges valid cx next mins r0 ael ys := by
  intro ys
  induction ys with
  | nil =>
    intro ael r0 _ _ _ hre hP ht _ _
    exact ⟨⟨r0, ael, by simp [beamRunsP, runR], by simp [beamRunsP, GRun], hP, hre, ht⟩,
      fun pre r post h => by simp [beamRunsP] at h, fun op ho => by simp [beamRunsP] at ho, fun y hy => by simp at hy⟩
  | cons y0 t ih =>
    intro ael r0 hok hrr h0 hre hP ht hden hE0
    cases t with
    | nil =>
      exact ⟨⟨r0, ael, by simp [beamRunsP, runR], by simp [beamRunsP, GRun], hP, hre, ht⟩,
        fun pre r post h => by simp [beamRunsP] at h, fun op ho => by simp [beamRunsP] at ho, fun y _ => by simp [beamRunsP, YChain]⟩
    | cons y1 rest =>
      obtain ⟨hb, hrest⟩ := hok
      obtain ⟨hr, hrrest⟩ := hrr
      rw [sweepFrom_cons] at hden
      obtain ⟨rI, rX, rT, hbp⟩ := beamP cfg hct D hD edges valid cx next mins lab ael y0 y1 r0 hup hnx hn hdx hnl hst hb hr
        (h0 y0 rfl).1 (h0 y0 rfl).2 hre hP ht (fun c hc => hden _ (by simp) c hc)
      obtain ⟨_, hfacts, c1, hC⟩ := beam_tracked cfg edges valid cx next mins lab ael y0 y1 (erase r0.s.ael) hup hnx hn hdx hnl hst
        hb hr (h0 y0 rfl).1 (h0 y0 rfl).2 ht
      have hy01 : D * y1 ≤ D * y0 := Int.mul_le_mul_of_nonneg_left (Int.le_of_lt hb.1) (Int.le_of_lt hD)
      have hE1 := hE0 y0 rfl
      have hEI : EndsAbove (D * y0) rI.o := endsAbove_run cfg _ _ r0 rI hbp.runIns hE1
        (fun op ho => by rw [hbp.hIns op ho]; exact Int.le_refl _)
      have hEX : EndsAbove (D * y1) rX.o := endsAbove_run cfg _ _ rI rX hbp.runIsect (endsAbove_mono hEI hy01)
        (fun op ho => Int.le_of_lt (hbp.heights op ho).1)
      have hET : EndsAbove (D * y1) rT.o := endsAbove_run cfg _ _ rX rT hbp.runTop hEX
        (fun op ho => by rw [hbp.hTop op ho]; exact Int.le_refl _)
      have hsub := ih (beamStep valid cx next mins ael y0 y1).afterTop rT hrest hrrest
        (fun y hy => by simp at hy; subst hy; exact ⟨c1, hC⟩) hbp.plT.2 hbp.plT.1 hbp.trTop
        (fun s hs c hc => hden s (by simp [hs]) c hc) (fun y hy => by simp at hy; subst hy; exact hET)
      obtain ⟨rEnd, aelEnd, e1, e2, e3, e4, e5⟩ := hsub.all
      refine ⟨?_, ?_, ?_, ?_⟩
      · rw [beamRunsP_cons]
        refine ⟨rEnd, aelEnd, ?_, ?_, e3, e4, e5⟩
        · simp only [List.flatMap_cons, runR_append, runR_events cfg hbp]; exact e1
        · simp only [List.flatMap_cons]
          exact gRun_append D _ _ _ _ _ _ (gRun_events hbp) e2
      · intro pre r post h
        rw [beamRunsP_cons] at h
        cases pre with
        | nil =>
          simp only [List.nil_append, List.cons.injEq] at h
          obtain ⟨h1, _⟩ := h
          subst h1
          exact ⟨r0, ael, y0, y1, rI, rX, rT, rfl, by simp [GRun], rfl, hbp, hfacts, hE1, hEI⟩
        | cons p0 pre' =>
          simp only [List.cons_append, List.cons.injEq] at h
          obtain ⟨h1, h2⟩ := h
          subst h1
          obtain ⟨r1, aelr, y0', y1', rI', rX', rT', f1, f2, f3, f4, f5, f6, f7⟩ := hsub.beams pre' r post h2
          refine ⟨r1, aelr, y0', y1', rI', rX', rT', ?_, ?_, f3, f4, f5, f6, f7⟩
          · simp only [List.flatMap_cons, runR_append, runR_events cfg hbp]; exact f1
          · simp only [List.flatMap_cons]
            exact gRun_append D _ _ _ _ _ _ (gRun_events hbp) f2
      · intro op ho
        rw [beamRunsP_cons] at ho
        simp only [List.flatMap_cons, List.mem_append] at ho
        rcases ho with ho | ho
        · exact hbp.plainOps op ho
        · exact hsub.plainOps op ho
      · intro y hy
        simp only [List.head?_cons, Option.some.injEq] at hy
        subst hy
        rw [beamRunsP_cons]
        simp only [List.flatMap_cons]
        refine yChain_append _ _ (D * y0) (D * y1) hbp.chain (hsub.chain y1 rfl) ?_ hy01
        intro op ho
        simp only [BeamRunP.events, List.mem_append] at ho
        rcases ho with (ho | ho) | ho
        · rw [hbp.hIns op ho]; exact hy01
        · exact Int.le_of_lt (hbp.heights op ho).1
        · rw [hbp.hTop op ho]; exact Int.le_refl _

end Clipper.Lemmas.C01Output
