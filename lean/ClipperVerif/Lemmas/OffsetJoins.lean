/-
Helper definitions and algebra for the join-geometry theorems (`Props/C06Joins.lean`): vocabulary for stating where a
raw vertex lies (`dist2`, `along`, `IsUnit`), order facts about squares over `Rat`, the rotation step of `DoRound`, the
chord lemma, and the unfolding of the exact instance `ratOps`.
-/
import ClipperVerif.Model.OffsetJoins
namespace Clipper.OffsetJoins
open Clipper

/-! ### vocabulary -/

/-- `n` is a unit vector -/
def IsUnit (n : V Rat) : Prop := n.x * n.x + n.y * n.y = 1

instance (n : V Rat) : Decidable (IsUnit n) := inferInstanceAs (Decidable (n.x * n.x + n.y * n.y = 1))

/-- the raw (unrounded) position of an emitted vertex -/
def Out.vec : Out Rat → V Rat
  | .raw x y => ⟨x, y⟩
  | .pt p => ⟨(p.x : Rat), (p.y : Rat)⟩

/-- squared Euclidean distance of `q` from the path vertex `p` -/
def dist2 (q : V Rat) (p : Pt) : Rat := (q.x - p.x) * (q.x - p.x) + (q.y - p.y) * (q.y - p.y)

/-- `(q − p) · n`: for a unit `n` the signed distance of `q` from the line through `p` with normal `n`;
`along q p n = δ` says that `q` lies on the line obtained by moving that line by `δ` along `n` (the offset line of an
edge through `p` whose unit normal is `n`) -/
def along (q : V Rat) (p : Pt) (n : V Rat) : Rat := (q.x - p.x) * n.x + (q.y - p.y) * n.y

/-- `n_k · n_j` and the two-vector `CrossProduct`, as plain rational expressions -/
def dotR (a b : V Rat) : Rat := a.x * b.x + a.y * b.y
def crossR (a b : V Rat) : Rat := a.y * b.x - b.y * a.x

/-- the point `a + t (b − a)` of the segment `a b` -/
def lerp (a b : V Rat) (t : Rat) : V Rat := ⟨a.x + t * (b.x - a.x), a.y + t * (b.y - a.y)⟩

/-! ### order facts -/

theorem sq_nonneg (d : Rat) : 0 ≤ d * d := by
  rcases Rat.le_total (a := 0) (b := d) with h | h
  · exact Rat.mul_nonneg h h
  · have h' : 0 ≤ -d := by grind
    have := Rat.mul_nonneg h' h'
    grind

theorem dist2_nonneg (q : V Rat) (p : Pt) : 0 ≤ dist2 q p := by
  have h1 := sq_nonneg (q.x - p.x)
  have h2 := sq_nonneg (q.y - p.y)
  simp only [dist2]; grind

theorem rabs_mul_self (d : Rat) : rabs d * rabs d = d * d := by
  unfold rabs; split <;> grind

theorem rabs_nonneg (d : Rat) : 0 ≤ rabs d := by
  unfold rabs; split <;> grind

theorem rabs_eq (d : Rat) : rabs d = d ∨ rabs d = -d := by
  unfold rabs; split <;> simp

theorem rabs_pos {d : Rat} (h : d ≠ 0) : 0 < rabs d := by
  unfold rabs; split <;> grind

/-- `a² + b² = 1` bounds `a` -/
theorem abs_le_one_of_sq_add (a b : Rat) (h : a * a + b * b = 1) : -1 ≤ a ∧ a ≤ 1 := by
  have hb := sq_nonneg b
  have h1 : a * a ≤ 1 := by grind
  constructor
  · apply Rat.not_lt.mp
    intro hlt
    have h2 : 0 < -a - 1 := by grind
    have h3 : 0 < -a + 1 := by grind
    have := Rat.mul_pos h2 h3
    grind
  · apply Rat.not_lt.mp
    intro hlt
    have h2 : 0 < a - 1 := by grind
    have h3 : 0 < a + 1 := by grind
    have := Rat.mul_pos h2 h3
    grind

theorem mul_self_lt_mul_self {a b : Rat} (ha : 0 ≤ a) (hab : a < b) : a * a < b * b := by
  have hb : 0 < b := by grind
  have h1 : 0 < b - a := by grind
  have h2 := Rat.mul_pos h1 hb
  have h3 := Rat.mul_nonneg ha (by grind : (0 : Rat) ≤ b - a)
  grind

/-! ### unfolding the exact instance -/

@[simp] theorem ratOps_ofInt (m : Libm Rat) (pi : Rat) (i : Int) : (ratOps m pi).ofInt i = (i : Rat) := rfl
@[simp] theorem ratOps_lt (m : Libm Rat) (pi a b : Rat) : (ratOps m pi).lt a b = decide (a < b) := rfl
@[simp] theorem ratOps_le (m : Libm Rat) (pi a b : Rat) : (ratOps m pi).le a b = decide (a ≤ b) := rfl
@[simp] theorem ratOps_isZero (m : Libm Rat) (pi a : Rat) : (ratOps m pi).isZero a = decide (a = 0) := rfl
@[simp] theorem ratOps_abs (m : Libm Rat) (pi a : Rat) : (ratOps m pi).abs a = rabs a := rfl
@[simp] theorem ratOps_sqrt (m : Libm Rat) (pi a : Rat) : (ratOps m pi).sqrt a = m.sqrt a := rfl
@[simp] theorem ratOps_c0999 (m : Libm Rat) (pi : Rat) : (ratOps m pi).c0999 = 999 / 1000 := rfl
@[simp] theorem ratOps_c0001 (m : Libm Rat) (pi : Rat) : (ratOps m pi).c0001 = 1 / 1000 := rfl
@[simp] theorem ratOps_fpTol (m : Libm Rat) (pi : Rat) : (ratOps m pi).fpTol = 1 / 1000000000000 := rfl
@[simp] theorem ratOps_sin (m : Libm Rat) (pi a : Rat) : (ratOps m pi).sin a = m.sin a := rfl
@[simp] theorem ratOps_cos (m : Libm Rat) (pi a : Rat) : (ratOps m pi).cos a = m.cos a := rfl

/-! ### rotation (`DoRound`) -/

/-- a rotation step preserves the squared length when `step_cos_² + step_sin_² = 1` -/
theorem rotStep_norm (s c : Rat) (v : V Rat) (h : c * c + s * s = 1) :
    (rotStep s c v).x * (rotStep s c v).x + (rotStep s c v).y * (rotStep s c v).y = v.x * v.x + v.y * v.y := by
  simp only [rotStep]; grind

/-- every point produced by `n` iterations of the loop of `DoRound` is as far from `(px, py)` as the vector it started from is long -/
theorem roundLoop_on_circle (px py s c : Rat) (h : c * c + s * s = 1) (p : Pt) (hx : px = p.x) (hy : py = p.y) :
    ∀ (n : Nat) (v : V Rat) (r : Rat), v.x * v.x + v.y * v.y = r →
      ∀ q ∈ (roundLoop px py s c n v).map Out.vec, dist2 q p = r := by
  intro n
  induction n with
  | zero => intro v r _ q hq; simp [roundLoop] at hq
  | succ n ih =>
    intro v r hv q hq
    have hn := rotStep_norm s c v h
    simp only [roundLoop, List.map_cons, List.mem_cons] at hq
    rcases hq with hq | hq
    · subst hq
      simp only [Out.vec, dist2, hx, hy]
      grind
    · exact ih (rotStep s c v) r (by rw [hn]; exact hv) q hq

theorem roundLoop_length (px py s c : Rat) : ∀ (n : Nat) (v : V Rat), (roundLoop px py s c n v).length = n := by
  intro n
  induction n with
  | zero => intro v; rfl
  | succ n ih => intro v; simp [roundLoop, ih]

/-! ### the chord lemma -/

/-- Two vectors `u`, `w` of squared length `r`, with `u · w = r c` and `c ≤ 1`: every point of the chord between them has
squared length between `r (1 + c) / 2` (the midpoint) and `r`. -/
theorem chord_bounds (ux uy wx wy r c t : Rat) (hu : ux * ux + uy * uy = r) (hw : wx * wx + wy * wy = r)
    (hd : ux * wx + uy * wy = r * c) (hc : c ≤ 1) (hr : 0 ≤ r) (h0 : 0 ≤ t) (h1 : t ≤ 1) :
    let qx := ux + t * (wx - ux)
    let qy := uy + t * (wy - uy)
    r * (1 + c) / 2 ≤ qx * qx + qy * qy ∧ qx * qx + qy * qy ≤ r := by
  intro qx qy
  have key : qx * qx + qy * qy = r - 2 * (t * (1 - t)) * (r * (1 - c)) := by
    simp only [qx, qy]; grind
  have h2 : 0 ≤ t * (1 - t) := Rat.mul_nonneg h0 (by grind)
  have h3 : 0 ≤ r * (1 - c) := Rat.mul_nonneg hr (by grind)
  have h4 := Rat.mul_nonneg h2 h3
  -- t (1 - t) ≤ 1/4
  have h5 : 0 ≤ (1 - 2 * t) * (1 - 2 * t) := sq_nonneg _
  have h6 : 0 ≤ 1 / 4 - t * (1 - t) := by grind
  have h7 := Rat.mul_nonneg h6 h3
  constructor
  · grind
  · grind


/-! ### `GetSegmentIntersectPt` and the intermediates of `DoSquare` -/

/-- `det` of `GetSegmentIntersectPt(a, b, c, d, ·)` -/
def segDet (a b c d : V Rat) : Rat := (b.y - a.y) * (d.x - c.x) - (d.y - c.y) * (b.x - a.x)
/-- `t` of `GetSegmentIntersectPt(a, b, c, d, ·)` -/
def segT (a b c d : V Rat) : Rat := ((a.x - c.x) * (d.y - c.y) - (a.y - c.y) * (d.x - c.x)) / segDet a b c d

theorem segint_unfold (m : Libm Rat) (pi : Rat) (a b c d ip : V Rat) :
    getSegmentIntersectPtD (ratOps m pi) a b c d ip =
      if segDet a b c d = 0 then ip
      else if segT a b c d ≤ 0 then a
      else if 1 ≤ segT a b c d then b
      else lerp a b (segT a b c d) := by
  by_cases h1 : segDet a b c d = 0 <;> by_cases h2 : segT a b c d ≤ 0 <;> by_cases h3 : 1 ≤ segT a b c d <;>
    simp only [h1, h2, h3, if_true, if_false] <;> simp only [segDet, segT] at h1 h2 h3 <;>
    simp [getSegmentIntersectPtD, h1, h2, h3, lerp, segT, segDet]

theorem V.ext' {a b : V Rat} (hx : a.x = b.x) (hy : a.y = b.y) : a = b := by
  cases a; cases b; simp_all

/-- whatever branch is taken, the result is a point `a + t (b − a)`, `0 ≤ t ≤ 1`, of segment 1 - provided the
initial value of `ip` is one (in `DoSquare` it is the midpoint `ptQ`) -/
theorem segint_in_segment (m : Libm Rat) (pi : Rat) (a b c d ip : V Rat)
    (hip : ∃ t, 0 ≤ t ∧ t ≤ 1 ∧ ip = lerp a b t) :
    ∃ t, 0 ≤ t ∧ t ≤ 1 ∧ getSegmentIntersectPtD (ratOps m pi) a b c d ip = lerp a b t := by
  rw [segint_unfold]
  split
  · exact hip
  · split
    · exact ⟨0, by decide +kernel, by decide +kernel, V.ext' (by simp only [lerp]; grind) (by simp only [lerp]; grind)⟩
    · split
      · exact ⟨1, by decide +kernel, by decide +kernel, V.ext' (by simp only [lerp]; grind) (by simp only [lerp]; grind)⟩
      · exact ⟨segT a b c d, by grind, by grind, rfl⟩

/-- when neither the parallel test nor the clamp applies, the result lies on line 2 -/
theorem segint_on_line2 (m : Libm Rat) (pi : Rat) (a b c d ip : V Rat)
    (hdet : segDet a b c d ≠ 0) (h0 : 0 < segT a b c d) (h1 : segT a b c d < 1) :
    let r := getSegmentIntersectPtD (ratOps m pi) a b c d ip
    r = lerp a b (segT a b c d) ∧ (r.x - c.x) * (d.y - c.y) - (r.y - c.y) * (d.x - c.x) = 0 := by
  intro r
  have hr : r = lerp a b (segT a b c d) := by
    simp only [r]
    rw [segint_unfold]
    have : ¬ segT a b c d ≤ 0 := by grind
    have : ¬ 1 ≤ segT a b c d := by grind
    simp [*]
  refine ⟨hr, ?_⟩
  have ht : segT a b c d * segDet a b c d = (a.x - c.x) * (d.y - c.y) - (a.y - c.y) * (d.x - c.x) := by
    unfold segT; grind
  rw [hr]
  generalize segT a b c d = t at ht
  simp only [segDet] at ht
  simp only [lerp]
  grind

/-- `ptQ`, `pt1`, `pt2`, `pt3`, `pt4` and the intersection point `pt` of `DoSquare` -/
def sqQ (vec : V Rat) (pj : Pt) (gd : Rat) : V Rat :=
  translatePoint ⟨(pj.x : Rat), (pj.y : Rat)⟩ (rabs gd * vec.x) (rabs gd * vec.y)
def sqP1 (vec : V Rat) (pj : Pt) (gd : Rat) : V Rat := translatePoint (sqQ vec pj gd) (gd * vec.y) (gd * -vec.x)
def sqP2 (vec : V Rat) (pj : Pt) (gd : Rat) : V Rat := translatePoint (sqQ vec pj gd) (gd * -vec.y) (gd * vec.x)
def sqP3 (pk : Pt) (nk : V Rat) (gd : Rat) : V Rat := ⟨(pk.x : Rat) + nk.x * gd, (pk.y : Rat) + nk.y * gd⟩
def sqP4 (vec : V Rat) (pj pk : Pt) (nk : V Rat) (cap : Bool) (gd : Rat) : V Rat :=
  if cap then ⟨(sqP3 pk nk gd).x + vec.x * gd, (sqP3 pk nk gd).y + vec.y * gd⟩ else sqP3 pj nk gd
def sqPt (m : Libm Rat) (pi : Rat) (vec : V Rat) (pj pk : Pt) (nk : V Rat) (cap : Bool) (gd : Rat) : V Rat :=
  getSegmentIntersectPtD (ratOps m pi) (sqP1 vec pj gd) (sqP2 vec pj gd) (sqP3 pk nk gd) (sqP4 vec pj pk nk cap gd) (sqQ vec pj gd)

theorem doSquareWith_eq (m : Libm Rat) (pi : Rat) (vec : V Rat) (pj pk : Pt) (nk : V Rat) (cap : Bool) (gd : Rat) :
    doSquareWith (ratOps m pi) vec pj pk nk cap gd =
      if cap then [outV (reflectPoint (sqPt m pi vec pj pk nk cap gd) (sqQ vec pj gd)), outV (sqPt m pi vec pj pk nk cap gd)]
      else [outV (sqPt m pi vec pj pk nk cap gd), outV (reflectPoint (sqPt m pi vec pj pk nk cap gd) (sqQ vec pj gd))] := by
  cases cap <;> rfl

/-- the intersection point of `DoSquare` always lies on the segment `pt1 pt2` -/
theorem sqPt_in_segment (m : Libm Rat) (pi : Rat) (vec : V Rat) (pj pk : Pt) (nk : V Rat) (cap : Bool) (gd : Rat) :
    ∃ t, 0 ≤ t ∧ t ≤ 1 ∧ sqPt m pi vec pj pk nk cap gd = lerp (sqP1 vec pj gd) (sqP2 vec pj gd) t := by
  apply segint_in_segment
  refine ⟨1 / 2, by decide +kernel, by decide +kernel, V.ext' ?_ ?_⟩ <;>
    simp only [lerp, sqP1, sqP2, translatePoint] <;> grind

/-! ### the parameter of the `DoSquare` intersection -/

theorem mul_ne_zero' {a b : Rat} (ha : a ≠ 0) (hb : b ≠ 0) : a * b ≠ 0 := by
  intro h; rcases Rat.mul_eq_zero.mp h with h | h <;> contradiction

theorem div_cancel3 (L g w X : Rat) (hL : L ≠ 0) (hg : g ≠ 0) (hw : w ≠ 0) :
    L * (g * X) / (2 * g * L * w) = X / (2 * w) := by
  have h1 : 2 * g * L * w ≠ 0 := mul_ne_zero' (mul_ne_zero' (mul_ne_zero' (by decide +kernel) hg) hL) hw
  have h2 : 2 * w ≠ 0 := mul_ne_zero' (by decide +kernel) hw
  grind

/-- for `U, w > 0` on the unit circle `0 < (U + w − 1) / (2 w) < 1` -/
theorem tform (U w : Rat) (hU : 0 < U) (hw : 0 < w) (h : U * U + w * w = 1) :
    0 < (U + w - 1) / (2 * w) ∧ (U + w - 1) / (2 * w) < 1 := by
  have h2w : 0 < 2 * w := by grind
  have hU1 : U ≤ 1 := (abs_le_one_of_sq_add U w h).2
  constructor
  · rw [Rat.lt_div_iff h2w]
    -- U + w > 1
    apply Rat.not_le.mp
    intro hle
    have h1 : 0 < 1 - U := by grind
    have h2 : 0 ≤ (1 - U) - w := by grind
    have h3 := Rat.mul_nonneg h2 (by grind : (0:Rat) ≤ (1 - U) + w)
    have h4 := Rat.mul_pos h1 hU
    grind
  · rw [Rat.div_lt_iff h2w]
    grind


end Clipper.OffsetJoins
