/-
Helper lemmas for Props/C08Tidy.lean, part 3: one iteration of the `TidyEdges` loop (`tidyStep`) on a well-formed heap:
case analysis of the iteration, preservation of `RingsWF` and of "edge-list entries are live", no fault.
Core Lean only.
-/
import ClipperVerif.Lemmas.RectClipTidyWF
namespace Clipper.Lemmas.RCT
open Clipper Clipper.Model.RC Clipper.Model.RCT

/-! ### operations that only touch `edges_` / `op->edge` -/

/-- `h'` differs from `h` at most in `edges_` and the `edge` fields -/
def SameRings (h h' : Heap) : Prop :=
  h'.n = h.n ∧ h'.pt = h.pt ∧ h'.next = h.next ∧ h'.prev = h.prev ∧ h'.owner = h.owner ∧ h'.results = h.results

theorem SameRings.refl (h : Heap) : SameRings h h := ⟨rfl, rfl, rfl, rfl, rfl, rfl⟩

theorem SameRings.trans {a b c : Heap} (h1 : SameRings a b) (h2 : SameRings b c) : SameRings a c := by
  obtain ⟨a1, a2, a3, a4, a5, a6⟩ := h1
  obtain ⟨b1, b2, b3, b4, b5, b6⟩ := h2
  exact ⟨b1.trans a1, b2.trans a2, b3.trans a3, b4.trans a4, b5.trans a5, b6.trans a6⟩

theorem sameRings_setEdge (h : Heap) (e k : Nat) (v : Option Nat) : SameRings h (h.setEdge e k v) :=
  ⟨rfl, rfl, rfl, rfl, rfl, rfl⟩

theorem sameRings_uncouple (h : Heap) (op : Nat) : SameRings h (h.uncoupleEdge op) := by
  unfold Heap.uncoupleEdge; split <;> exact ⟨rfl, rfl, rfl, rfl, rfl, rfl⟩

theorem sameRings_addToEdge (h : Heap) (e op : Nat) : SameRings h (h.addToEdge e op) := by
  unfold Heap.addToEdge; split <;> exact ⟨rfl, rfl, rfl, rfl, rfl, rfl⟩

theorem RingsWF.of_sameRings {h h' : Heap} {ring : Nat → List Nat} (w : RingsWF h ring) (s : SameRings h h') :
    RingsWF h' ring := by
  obtain ⟨e1, _, e3, e4, e5, e6⟩ := s
  exact ⟨by rw [e6]; exact w.slot_some, by rw [e6]; exact w.slot_none, by rw [e3, e4]; exact w.cyc, w.nodup,
    by rw [e5]; exact w.owner, by rw [e1]; exact w.lt⟩

/-- every entry of every edge list of `h'` is an entry of the same list of `h`, or one of the nodes `X` -/
def EntriesSub (h h' : Heap) (X : List Nat) : Prop := ∀ e k, some k ∈ h'.edges e → some k ∈ h.edges e ∨ k ∈ X

theorem EntriesSub.refl (h : Heap) (X : List Nat) : EntriesSub h h X := fun _ _ hk => Or.inl hk

theorem EntriesSub.trans {a b c : Heap} {X : List Nat} (h1 : EntriesSub a b X) (h2 : EntriesSub b c X) : EntriesSub a c X := by
  intro e k hk
  rcases h2 e k hk with h | h
  · exact h1 e k h
  · exact Or.inr h

theorem mem_nullFirst {op : Nat} {x : Option Nat} : ∀ {l : List (Option Nat)}, x ∈ nullFirst op l → x ∈ l ∨ x = none
  | [], h => by simp [nullFirst] at h
  | y :: l, h => by
    simp only [nullFirst] at h
    split at h
    · rcases List.mem_cons.mp h with h | h
      · exact Or.inr h
      · exact Or.inl (List.mem_cons_of_mem _ h)
    · rcases List.mem_cons.mp h with h | h
      · exact Or.inl (by simp [h])
      · rcases mem_nullFirst h with h | h
        · exact Or.inl (List.mem_cons_of_mem _ h)
        · exact Or.inr h

theorem entriesSub_setEdge (h : Heap) (e i : Nat) (v : Option Nat) (X : List Nat)
    (hv : ∀ k, v = some k → k ∈ X) : EntriesSub h (h.setEdge e i v) X := by
  intro e' k hk
  simp only [Heap.setEdge, upd_apply] at hk
  split at hk
  · rename_i he; subst he
    rcases List.mem_or_eq_of_mem_set hk with h1 | h1
    · exact Or.inl h1
    · exact Or.inr (hv k h1.symm)
  · exact Or.inl hk

theorem entriesSub_uncouple (h : Heap) (op : Nat) (X : List Nat) : EntriesSub h (h.uncoupleEdge op) X := by
  intro e' k hk
  unfold Heap.uncoupleEdge at hk
  split at hk
  · exact Or.inl hk
  · simp only [upd_apply] at hk
    split at hk
    · rename_i he; subst he
      rcases mem_nullFirst hk with h1 | h1
      · exact Or.inl h1
      · cases h1
    · exact Or.inl hk

theorem entriesSub_addToEdge (h : Heap) (e op : Nat) (X : List Nat) (hop : op ∈ X) : EntriesSub h (h.addToEdge e op) X := by
  intro e' k hk
  unfold Heap.addToEdge at hk
  split at hk
  · exact Or.inl hk
  · simp only [upd_apply] at hk
    split at hk
    · rename_i he; subst he
      rcases List.mem_append.mp hk with h1 | h1
      · exact Or.inl h1
      · simp only [List.mem_singleton, Option.some.injEq] at h1
        subst h1; exact Or.inr hop
    · exact Or.inl hk

/-- no edge list gets shorter -/
def LenMono (h h' : Heap) : Prop := ∀ e, (h.edges e).length ≤ (h'.edges e).length

theorem LenMono.trans {a b c : Heap} (h1 : LenMono a b) (h2 : LenMono b c) : LenMono a c :=
  fun e => Nat.le_trans (h1 e) (h2 e)

theorem length_nullFirst (op : Nat) : ∀ (l : List (Option Nat)), (nullFirst op l).length = l.length
  | [] => rfl
  | x :: l => by
    simp only [nullFirst]
    split
    · rfl
    · simp [length_nullFirst op l]

theorem lenMono_setEdge (h : Heap) (e i : Nat) (v : Option Nat) : LenMono h (h.setEdge e i v) := by
  intro e'
  simp only [Heap.setEdge, upd_apply]
  split
  · rename_i he; subst he; simp
  · exact Nat.le_refl _

theorem lenMono_uncouple (h : Heap) (op : Nat) : LenMono h (h.uncoupleEdge op) := by
  intro e'
  unfold Heap.uncoupleEdge
  split
  · exact Nat.le_refl _
  · simp only [upd_apply]
    split
    · rename_i he; subst he; simp [length_nullFirst]
    · exact Nat.le_refl _

theorem lenMono_addToEdge (h : Heap) (e op : Nat) : LenMono h (h.addToEdge e op) := by
  intro e'
  unfold Heap.addToEdge
  split
  · exact Nat.le_refl _
  · simp only [upd_apply]
    split
    · rename_i he; subst he; simp
    · exact Nat.le_refl _

/-- the "lots of work to get ready for the next loop" part only rearranges the edge lists; every entry afterwards is an
old entry or one of `op`, `op2` -/
theorem tidyRelist_spec (cwE ccwE : Nat) (cwTL isHorz : Bool) (h : Heap) (i j op op2 : Nat) (rj : Bool) :
    ∃ b s', tidyRelist cwE ccwE cwTL isHorz h i j op op2 rj = .next b s' ∧ SameRings h s'.h ∧
      EntriesSub h s'.h [op, op2] ∧ (s'.j = j ∨ s'.j = j + 1 ∨ s'.j = 0) ∧ LenMono h s'.h := by
  have so : ∀ k, (some op : Option Nat) = some k → k ∈ [op, op2] := by intro k hk; cases hk; simp
  have so2 : ∀ k, (some op2 : Option Nat) = some k → k ∈ [op, op2] := by intro k hk; cases hk; simp
  have sn : ∀ k, (none : Option Nat) = some k → k ∈ [op, op2] := by intro k hk; cases hk
  unfold tidyRelist
  simp only
  split
  · split
    · exact ⟨_, _, rfl, (sameRings_setEdge _ _ _ _).trans (sameRings_setEdge _ _ _ _),
        (entriesSub_setEdge _ _ _ _ _ so2).trans (entriesSub_setEdge _ _ _ _ _ sn), Or.inr (Or.inl rfl),
        (lenMono_setEdge _ _ _ _).trans (lenMono_setEdge _ _ _ _)⟩
    · exact ⟨_, _, rfl, (sameRings_setEdge _ _ _ _).trans (sameRings_setEdge _ _ _ _),
        (entriesSub_setEdge _ _ _ _ _ so2).trans (entriesSub_setEdge _ _ _ _ _ sn), Or.inl rfl,
        (lenMono_setEdge _ _ _ _).trans (lenMono_setEdge _ _ _ _)⟩
  · split
    · split
      · exact ⟨_, _, rfl, (sameRings_setEdge _ _ _ _).trans (sameRings_setEdge _ _ _ _),
          (entriesSub_setEdge _ _ _ _ _ so).trans (entriesSub_setEdge _ _ _ _ _ sn), Or.inr (Or.inl rfl),
          (lenMono_setEdge _ _ _ _).trans (lenMono_setEdge _ _ _ _)⟩
      · exact ⟨_, _, rfl, (sameRings_setEdge _ _ _ _).trans (sameRings_setEdge _ _ _ _),
          (entriesSub_setEdge _ _ _ _ _ so).trans (entriesSub_setEdge _ _ _ _ _ sn), Or.inl rfl,
          (lenMono_setEdge _ _ _ _).trans (lenMono_setEdge _ _ _ _)⟩
    · split
      · split
        · exact ⟨_, _, rfl,
            (((sameRings_setEdge _ _ _ _).trans (sameRings_uncouple _ _)).trans (sameRings_addToEdge _ _ _)).trans (sameRings_setEdge _ _ _ _),
            (((entriesSub_setEdge _ _ _ _ _ so).trans (entriesSub_uncouple _ _ _)).trans (entriesSub_addToEdge _ _ _ _ (by simp))).trans
              (entriesSub_setEdge _ _ _ _ _ sn), Or.inr (Or.inl rfl),
            (((lenMono_setEdge _ _ _ _).trans (lenMono_uncouple _ _)).trans (lenMono_addToEdge _ _ _)).trans (lenMono_setEdge _ _ _ _)⟩
        · exact ⟨_, _, rfl,
            (((sameRings_setEdge _ _ _ _).trans (sameRings_setEdge _ _ _ _)).trans (sameRings_uncouple _ _)).trans (sameRings_addToEdge _ _ _),
            (((entriesSub_setEdge _ _ _ _ _ sn).trans (entriesSub_setEdge _ _ _ _ _ so2)).trans (entriesSub_uncouple _ _ _)).trans
              (entriesSub_addToEdge _ _ _ _ (by simp)), Or.inr (Or.inr rfl),
            (((lenMono_setEdge _ _ _ _).trans (lenMono_setEdge _ _ _ _)).trans (lenMono_uncouple _ _)).trans (lenMono_addToEdge _ _ _)⟩
      · refine ⟨_, _, rfl, ?_, ?_, Or.inl rfl, ?_⟩
        · split <;> split <;> exact (sameRings_setEdge _ _ _ _).trans (sameRings_setEdge _ _ _ _)
        · split <;> split <;>
            exact (entriesSub_setEdge _ _ _ _ _ so).trans (entriesSub_setEdge _ _ _ _ _ so2)
        · split <;> split <;> exact (lenMono_setEdge _ _ _ _).trans (lenMono_setEdge _ _ _ _)

/-! ### the `ccw` scan -/

theorem takeWhile_stop {α : Type} (p : α → Bool) : ∀ (l : List α),
    (l.takeWhile p).length ≤ l.length ∧ ∀ x, l[(l.takeWhile p).length]? = some x → p x = false
  | [] => by simp
  | a :: l => by
    by_cases h : p a = true
    · have ih := takeWhile_stop p l
      simp only [List.takeWhile_cons, h, if_true, List.length_cons, List.getElem?_cons_succ]
      exact ⟨by omega, ih.2⟩
    · have hf : p a = false := by simpa using h
      simp only [List.takeWhile_cons, hf, Bool.false_eq_true, if_false, List.length_nil, List.length_cons,
        List.getElem?_cons_zero, Option.some.injEq]
      refine ⟨by omega, ?_⟩
      intro x hx; subst hx; exact hf

theorem scanCcw_spec (h : Heap) (ccw : List (Option Nat)) (j : Nat) (hj : j ≤ ccw.length) :
    j ≤ scanCcw h ccw j ∧ scanCcw h ccw j ≤ ccw.length ∧
      ∀ x, ccw[scanCcw h ccw j]? = some x → skipEntry h x = false := by
  have := takeWhile_stop (skipEntry h) (ccw.drop j)
  unfold scanCcw
  refine ⟨by omega, ?_, ?_⟩
  · have := this.1; rw [List.length_drop] at this; omega
  · intro x hx
    apply this.2 x
    rw [List.getElem?_drop]; exact hx

/-! ### split or rejoin in block coordinates -/

theorem ring_at_length {h : Heap} {ring : Nat → List Nat} (w : RingsWF h ring) : ring h.results.length = [] :=
  w.slot_none _ (by intro k hk; rw [List.getElem?_eq_none (Nat.le_refl _)] at hk; cases hk)

/-- what both a split and a rejoin leave untouched, and what they do to the links -/
def SpliceFrame (h h5 : Heap) (α β hU hV : Nat) : Prop :=
  h5.n = h.n ∧ h5.pt = h.pt ∧ h5.edges = h.edges ∧ h5.edge = h.edge ∧
    h5.next = upd (upd h.next β hV) α hU ∧ h5.prev = upd (upd h.prev hV β) hU α

theorem splice_generic (h : Heap) (ring : Nat → List Nat) (w : RingsWF h ring) (α β sa sb : Nat)
    (hα : α ∈ ring sa) (hβ : β ∈ ring sb) (hne : α ≠ β) (hU hV : Nat) (ehU : hU = h.next β) (ehV : hV = h.next α)
    (q1 q2 q1a : Nat) (hq1a : q1a = hU ∨ q1a = α)
    (hq : (q2 ∈ ring sa ∧ q1 ∈ ring sb) ∨ (q2 ∈ ring sb ∧ q1 ∈ ring sa)) :
    ∃ h1 h3 h5 ring', splicePre h (decide (sb ≠ sa)) q1 q2 = .ok h1 ∧
      splicePost (relinked h1 α β hU hV) (decide (sb ≠ sa)) q1a = .ok h3 ∧ spliceSlots h3 hV hU = .ok h5 ∧
      RingsWF h5 ring' ∧ SpliceFrame h h5 α β hU hV ∧ (∀ k, (∃ t, k ∈ ring' t) ↔ ∃ t, k ∈ ring t) := by
  by_cases hs : sb = sa
  · subst hs
    have hd : decide (sb ≠ sb) = false := by simp
    obtain ⟨U, V, hp, hUm, hαm, hVm, hβm, hrest⟩ := splice_split h ring w α β sb hα hβ hne q1a hU hV ehU ehV
    have hq' : q1a ∈ U := by rcases hq1a with rfl | rfl; exact hUm; exact hαm
    obtain ⟨h3, e3, e5, w5⟩ := hrest hq'
    rw [hd]
    refine ⟨h, h3, _, _, by simp [splicePre], e3, e5, w5, ⟨rfl, rfl, rfl, rfl, rfl, rfl⟩, ?_⟩
    intro k
    have hlen := ring_at_length w
    constructor
    · rintro ⟨t, ht⟩
      by_cases h1 : t = h.results.length
      · subst h1
        simp only [upd_same] at ht
        exact ⟨sb, hp.mem_iff.mp (List.mem_append.mpr (Or.inl ht))⟩
      · rw [upd_ne _ _ h1] at ht
        by_cases h2 : t = sb
        · subst h2
          simp only [upd_same] at ht
          exact ⟨t, hp.mem_iff.mp (List.mem_append.mpr (Or.inr ht))⟩
        · rw [upd_ne _ _ h2] at ht
          exact ⟨t, ht⟩
    · rintro ⟨t, ht⟩
      by_cases h2 : t = sb
      · subst h2
        rcases List.mem_append.mp (hp.mem_iff.mpr ht) with m | m
        · exact ⟨h.results.length, by simp only [upd_same]; exact m⟩
        · have : t ≠ h.results.length := Nat.ne_of_lt (w.slot_lt hα)
          exact ⟨t, by rw [upd_ne _ _ this]; simp only [upd_same]; exact m⟩
      · have h1 : t ≠ h.results.length := by
          intro e; subst e; rw [hlen] at ht; cases ht
        exact ⟨t, by rw [upd_ne _ _ h1, upd_ne _ _ h2]; exact ht⟩
  · have hd : decide (sb ≠ sa) = true := by simp [hs]
    have hsa : sa ≠ sb := fun e => hs e.symm
    rw [hd]
    rcases hq with ⟨m2, m1⟩ | ⟨m2, m1⟩
    · obtain ⟨h1, e1, e5, J, pJ, _, _, w5⟩ :=
        splice_rejoin h ring w α β sa sb hα hβ hsa q1 q2 hU hV sa sb ehU ehV (Or.inl ⟨rfl, rfl⟩) m2 m1
      refine ⟨h1, _, _, _, e1, by simp [splicePost], e5, w5, ⟨rfl, rfl, rfl, rfl, rfl, rfl⟩, ?_⟩
      intro k
      constructor
      · rintro ⟨t, ht⟩
        by_cases h1' : t = sb
        · subst h1'
          simp only [upd_same] at ht
          rcases List.mem_append.mp (pJ.mem_iff.mp ht) with m | m
          · exact ⟨t, m⟩
          · exact ⟨sa, m⟩
        · rw [upd_ne _ _ h1'] at ht
          by_cases h2 : t = sa
          · subst h2; simp at ht
          · rw [upd_ne _ _ h2] at ht; exact ⟨t, ht⟩
      · rintro ⟨t, ht⟩
        by_cases h1' : t = sb
        · subst h1'
          exact ⟨t, by simp only [upd_same]; exact pJ.mem_iff.mpr (List.mem_append.mpr (Or.inl ht))⟩
        · by_cases h2 : t = sa
          · subst h2
            exact ⟨sb, by simp only [upd_same]; exact pJ.mem_iff.mpr (List.mem_append.mpr (Or.inr ht))⟩
          · exact ⟨t, by rw [upd_ne _ _ h1', upd_ne _ _ h2]; exact ht⟩
    · obtain ⟨h1, e1, e5, J, pJ, _, _, w5⟩ :=
        splice_rejoin h ring w α β sa sb hα hβ hsa q1 q2 hU hV sb sa ehU ehV (Or.inr ⟨rfl, rfl⟩) m2 m1
      refine ⟨h1, _, _, _, e1, by simp [splicePost], e5, w5, ⟨rfl, rfl, rfl, rfl, rfl, rfl⟩, ?_⟩
      intro k
      constructor
      · rintro ⟨t, ht⟩
        by_cases h1' : t = sa
        · subst h1'
          simp only [upd_same] at ht
          rcases List.mem_append.mp (pJ.mem_iff.mp ht) with m | m
          · exact ⟨sb, m⟩
          · exact ⟨t, m⟩
        · rw [upd_ne _ _ h1'] at ht
          by_cases h2 : t = sb
          · subst h2; simp at ht
          · rw [upd_ne _ _ h2] at ht; exact ⟨t, ht⟩
      · rintro ⟨t, ht⟩
        by_cases h1' : t = sa
        · subst h1'
          exact ⟨t, by simp only [upd_same]; exact pJ.mem_iff.mpr (List.mem_append.mpr (Or.inr ht))⟩
        · by_cases h2 : t = sb
          · subst h2
            exact ⟨sa, by simp only [upd_same]; exact pJ.mem_iff.mpr (List.mem_append.mpr (Or.inl ht))⟩
          · exact ⟨t, by rw [upd_ne _ _ h1', upd_ne _ _ h2]; exact ht⟩

theorem spliceLink_true (h : Heap) (p1 p1a p2 p2a : Nat) :
    spliceLink true h p1 p1a p2 p2a = relinked h p2a p1 p1a p2 := rfl

theorem spliceLink_false (h : Heap) (p1 p1a p2 p2a : Nat) :
    spliceLink false h p1 p1a p2 p2a = relinked h p1a p2 p2a p1 := rfl

/-- `tidySplice` on sides 1 and 2 (`cwIsTowardLarger`): `p1 = cw[i]->prev`, `p1a = cw[i]`, `p2 = ccw[j]`, `p2a = ccw[j]->prev` -/
theorem tidySplice_wf_true (h : Heap) (ring : Nat → List Nat) (w : RingsWF h ring) (cwI ccwJ sc sj : Nat)
    (hc : cwI ∈ ring sc) (hj : ccwJ ∈ ring sj) (hne : h.prev cwI ≠ h.prev ccwJ) :
    ∃ h5 rj ring', tidySplice true h cwI ccwJ (h.prev cwI) cwI ccwJ (h.prev ccwJ) = .ok (h5, ccwJ, cwI, rj) ∧
      RingsWF h5 ring' ∧ SpliceFrame h h5 (h.prev ccwJ) (h.prev cwI) cwI ccwJ ∧
      (∀ k, (∃ t, k ∈ ring' t) ↔ ∃ t, k ∈ ring t) := by
  have a1 := w.prev_mem hc
  have a2 := w.prev_mem hj
  obtain ⟨h1, h3, h5, ring', e1, e3, e5, w5, fr, lv⟩ :=
    splice_generic h ring w (h.prev ccwJ) (h.prev cwI) sj sc a2.1 a1.1 (fun e => hne e.symm) cwI ccwJ a1.2.symm a2.2.symm
      (h.prev cwI) ccwJ cwI (Or.inl rfl) (Or.inl ⟨hj, a1.1⟩)
  refine ⟨h5, decide (sc ≠ sj), ring', ?_, w5, fr, lv⟩
  unfold tidySplice
  simp only [w.owner sc cwI hc, w.owner sj ccwJ hj, e1, spliceLink_true, e3, if_true, e5]

/-- `tidySplice` on sides 0 and 3: `p1 = cw[i]`, `p1a = cw[i]->prev`, `p2 = ccw[j]->prev`, `p2a = ccw[j]` -/
theorem tidySplice_wf_false (h : Heap) (ring : Nat → List Nat) (w : RingsWF h ring) (cwI ccwJ sc sj : Nat)
    (hc : cwI ∈ ring sc) (hj : ccwJ ∈ ring sj) (hne : cwI ≠ ccwJ) :
    ∃ h5 rj ring', tidySplice false h cwI ccwJ cwI (h.prev cwI) (h.prev ccwJ) ccwJ = .ok (h5, cwI, ccwJ, rj) ∧
      RingsWF h5 ring' ∧ SpliceFrame h h5 (h.prev cwI) (h.prev ccwJ) ccwJ cwI ∧
      (∀ k, (∃ t, k ∈ ring' t) ↔ ∃ t, k ∈ ring t) := by
  have a1 := w.prev_mem hc
  have a2 := w.prev_mem hj
  have hne' : h.prev cwI ≠ h.prev ccwJ := by
    intro e
    apply hne
    rw [← a1.2, ← a2.2, e]
  obtain ⟨h1, h3, h5, ring', e1, e3, e5, w5, fr, lv⟩ :=
    splice_generic h ring w (h.prev cwI) (h.prev ccwJ) sc sj a1.1 a2.1 hne' ccwJ cwI a2.2.symm a1.2.symm
      cwI (h.prev ccwJ) (h.prev cwI) (Or.inr rfl) (Or.inr ⟨a2.1, hc⟩)
  refine ⟨h5, decide (sc ≠ sj), ring', ?_, w5, fr, lv⟩
  unfold tidySplice
  have hd : decide (sc ≠ sj) = decide (sj ≠ sc) := by
    by_cases e : sc = sj
    · subst e; rfl
    · have : ¬ sj = sc := fun x => e x.symm
      simp [e, this]
  simp only [w.owner sc cwI hc, w.owner sj ccwJ hj, hd, e1, spliceLink_false, e3]
  simp [e5]

/-! ### one iteration of the loop -/

/-- invariant of the `TidyEdges` loop: well-formed rings, and every entry of every edge list is a node of a live ring -/
structure TInv (h : Heap) (ring : Nat → List Nat) : Prop where
  w : RingsWF h ring
  el : ∀ e k, some k ∈ h.edges e → ∃ s, k ∈ ring s

theorem hasOverlap_ne {isHorz : Bool} {h : Heap} {p1 p1a p2 p2a : Nat} (ho : hasOverlap isHorz h p1 p1a p2 p2a = true) :
    p1 ≠ p2a := by
  intro e
  subst e
  unfold hasOverlap Gen.HasHorzOverlap Gen.HasVertOverlap at ho
  split at ho <;> simp only [Bool.and_eq_true, decide_eq_true_eq] at ho <;> omega

/-- **One iteration of the `TidyEdges` loop on a well-formed heap**: it does not fault, keeps `op_container_` and every point,
keeps the rings well-formed and the edge-list entries live, and the set of nodes in live rings is the same afterwards. -/
theorem tidyStep_inv (idx : Nat) (s : TState) (ring : Nat → List Nat) (inv : TInv s.h ring)
    (hj : s.j ≤ (s.h.edges (idx * 2 + 1)).length) :
    tidyStep idx s = .done ∨ ∃ b s' ring', tidyStep idx s = .next b s' ∧ TInv s'.h ring' ∧
      s'.h.n = s.h.n ∧ s'.h.pt = s.h.pt ∧ (∀ k, (∃ t, k ∈ ring' t) ↔ ∃ t, k ∈ ring t) ∧
      s'.j ≤ (s'.h.edges (idx * 2 + 1)).length ∧ LenMono s.h s'.h := by
  unfold tidyStep
  simp only
  split
  · rename_i hi
    cases hcw : (s.h.edges (idx * 2))[s.i]? with
    | none =>
      exact absurd hcw (by
        intro e
        have := List.getElem?_eq_none_iff.mp e
        omega)
    | some e =>
      simp only
      split
      · -- skipCw
        right
        refine ⟨_, _, ring, rfl, ⟨inv.w.of_sameRings (sameRings_setEdge _ _ _ _), ?_⟩, rfl, rfl, fun _ => Iff.rfl,
          Nat.zero_le _, lenMono_setEdge _ _ _ _⟩
        intro e' k hk
        rcases entriesSub_setEdge s.h (idx * 2) s.i none [] (by intro k hk; cases hk) e' k hk with h1 | h1
        · exact inv.el e' k h1
        · cases h1
      · rename_i hskip
        cases e with
        | none => simp [skipEntry] at hskip
        | some cwI =>
          simp only
          have sc := scanCcw_spec s.h (s.h.edges (idx * 2 + 1)) s.j hj
          split
          · -- ccwExhausted
            right
            exact ⟨_, _, ring, rfl, inv, rfl, rfl, fun _ => Iff.rfl, Nat.zero_le _, fun _ => Nat.le_refl _⟩
          · rename_i hjl
            have hjlt : scanCcw s.h (s.h.edges (idx * 2 + 1)) s.j < (s.h.edges (idx * 2 + 1)).length := by omega
            cases hccw : (s.h.edges (idx * 2 + 1))[scanCcw s.h (s.h.edges (idx * 2 + 1)) s.j]? with
            | none =>
              exact absurd hccw (by
                intro e
                have := List.getElem?_eq_none_iff.mp e
                omega)
            | some e2 =>
              cases e2 with
              | none =>
                have := sc.2.2 none hccw
                simp [skipEntry] at this
              | some ccwJ =>
                simp only
                have hcm : some cwI ∈ s.h.edges (idx * 2) := List.mem_of_getElem? hcw
                have hjm : some ccwJ ∈ s.h.edges (idx * 2 + 1) := List.mem_of_getElem? hccw
                obtain ⟨scs, hcs⟩ := inv.el _ _ hcm
                obtain ⟨sjs, hjs⟩ := inv.el _ _ hjm
                right
                cases hTL : (idx == 1 || idx == 2) with
                | true =>
                  simp only [if_true]
                  split
                  · -- noOverlap
                    exact ⟨_, _, ring, rfl, inv, rfl, rfl, fun _ => Iff.rfl, by simp only; omega, fun _ => Nat.le_refl _⟩
                  · rename_i hov
                    have hne := hasOverlap_ne (by simpa using hov)
                    obtain ⟨h5, rj, ring', e5, w5, fr, lv⟩ := tidySplice_wf_true s.h ring inv.w cwI ccwJ scs sjs hcs hjs hne
                    rw [e5]
                    simp only
                    obtain ⟨b, s', er, sr, es, hjj, lm⟩ := tidyRelist_spec (idx * 2) (idx * 2 + 1) true (idx == 1 || idx == 3) h5
                      s.i (scanCcw s.h (s.h.edges (idx * 2 + 1)) s.j) ccwJ cwI rj
                    obtain ⟨f1, f2, f3, f4, f5, f6⟩ := fr
                    refine ⟨b, s', ring', er, ⟨w5.of_sameRings sr, ?_⟩, by rw [sr.1, f1], by rw [sr.2.1, f2], lv, ?_, ?_⟩
                    · intro e' k hk
                      rcases es e' k hk with h1 | h1
                      · rw [f3] at h1; exact (lv k).mpr (inv.el e' k h1)
                      · simp only [List.mem_cons, List.not_mem_nil, or_false] at h1
                        rcases h1 with rfl | rfl
                        · exact (lv _).mpr ⟨_, hjs⟩
                        · exact (lv _).mpr ⟨_, hcs⟩
                    · have := lm (idx * 2 + 1); rw [f3] at this
                      rcases hjj with h1 | h1 | h1 <;> omega
                    · intro e'; have := lm e'; rw [f3] at this; exact this
                | false =>
                  simp only [Bool.false_eq_true, if_false]
                  split
                  · exact ⟨_, _, ring, rfl, inv, rfl, rfl, fun _ => Iff.rfl, by simp only; omega, fun _ => Nat.le_refl _⟩
                  · rename_i hov
                    have hne := hasOverlap_ne (by simpa using hov)
                    obtain ⟨h5, rj, ring', e5, w5, fr, lv⟩ := tidySplice_wf_false s.h ring inv.w cwI ccwJ scs sjs hcs hjs hne
                    rw [e5]
                    simp only
                    obtain ⟨b, s', er, sr, es, hjj, lm⟩ := tidyRelist_spec (idx * 2) (idx * 2 + 1) false (idx == 1 || idx == 3) h5
                      s.i (scanCcw s.h (s.h.edges (idx * 2 + 1)) s.j) cwI ccwJ rj
                    obtain ⟨f1, f2, f3, f4, f5, f6⟩ := fr
                    refine ⟨b, s', ring', er, ⟨w5.of_sameRings sr, ?_⟩, by rw [sr.1, f1], by rw [sr.2.1, f2], lv, ?_, ?_⟩
                    · intro e' k hk
                      rcases es e' k hk with h1 | h1
                      · rw [f3] at h1; exact (lv k).mpr (inv.el e' k h1)
                      · simp only [List.mem_cons, List.not_mem_nil, or_false] at h1
                        rcases h1 with rfl | rfl
                        · exact (lv _).mpr ⟨_, hcs⟩
                        · exact (lv _).mpr ⟨_, hjs⟩
                    · have := lm (idx * 2 + 1); rw [f3] at this
                      rcases hjj with h1 | h1 | h1 <;> omega
                    · intro e'; have := lm e'; rw [f3] at this; exact this
  · left; rfl

/-- the whole loop, any fuel: the only possible fault is running out of fuel; a finished run keeps the invariant -/
theorem tidyLoop_inv (idx : Nat) : ∀ (fuel : Nat) (s : TState) (ring : Nat → List Nat), TInv s.h ring →
    s.j ≤ (s.h.edges (idx * 2 + 1)).length →
    (∀ h' bs, tidyLoop idx fuel s = .ok (h', bs) → ∃ ring', TInv h' ring' ∧ h'.n = s.h.n ∧ h'.pt = s.h.pt ∧
      (∀ k, (∃ t, k ∈ ring' t) ↔ ∃ t, k ∈ ring t) ∧ LenMono s.h h') ∧
    (∀ f, tidyLoop idx fuel s = .error f → f = .fuel)
  | 0, s, ring, _, _ => by
    constructor
    · intro h' bs e; simp [tidyLoop] at e
    · intro f e; simp only [tidyLoop, Except.error.injEq] at e; exact e.symm
  | fuel + 1, s, ring, inv, hj => by
    rcases tidyStep_inv idx s ring inv hj with hd | ⟨b, s', ring', hn, inv', e1, e2, lv, hj', lm⟩
    · constructor
      · intro h' bs e
        simp only [tidyLoop, hd, Except.ok.injEq, Prod.mk.injEq] at e
        obtain ⟨rfl, _⟩ := e
        exact ⟨ring, inv, rfl, rfl, fun _ => Iff.rfl, fun _ => Nat.le_refl _⟩
      · intro f e; simp [tidyLoop, hd] at e
    · have ih := tidyLoop_inv idx fuel s' ring' inv' hj'
      constructor
      · intro h' bs e
        simp only [tidyLoop, hn] at e
        cases hl : tidyLoop idx fuel s' with
        | error f => rw [hl] at e; cases e
        | ok r =>
          obtain ⟨h'', bs'⟩ := r
          rw [hl] at e
          simp only [Except.ok.injEq, Prod.mk.injEq] at e
          obtain ⟨rfl, _⟩ := e
          obtain ⟨ring'', inv'', f1, f2, lv', lm'⟩ := ih.1 h'' bs' hl
          exact ⟨ring'', inv'', by rw [f1, e1], by rw [f2, e2], fun k => (lv' k).trans (lv k), lm.trans lm'⟩
      · intro f e
        simp only [tidyLoop, hn] at e
        cases hl : tidyLoop idx fuel s' with
        | error f' =>
          rw [hl] at e
          simp only [Except.error.injEq] at e
          subst e
          exact ih.2 f' hl
        | ok r => obtain ⟨h'', bs'⟩ := r; rw [hl] at e; cases e

/-- `TidyEdges(idx, edges_[2 idx], edges_[2 idx + 1])` -/
theorem tidyEdges_inv (idx : Nat) (h : Heap) (ring : Nat → List Nat) (inv : TInv h ring) :
    (∀ h', tidyEdges idx h = .ok h' → ∃ ring', TInv h' ring' ∧ h'.n = h.n ∧ h'.pt = h.pt ∧
      (∀ k, (∃ t, k ∈ ring' t) ↔ ∃ t, k ∈ ring t) ∧ LenMono h h') ∧
    (∀ f, tidyEdges idx h = .error f → f = .fuel) := by
  unfold tidyEdges tidyEdgesB
  split
  · constructor
    · intro h' e
      simp only [Except.map, Except.ok.injEq] at e
      subst e
      exact ⟨ring, inv, rfl, rfl, fun _ => Iff.rfl, fun _ => Nat.le_refl _⟩
    · intro f e; simp [Except.map] at e
  · have ih := tidyLoop_inv idx (tidyFuel idx h) ⟨h, 0, 0⟩ ring inv (Nat.zero_le _)
    constructor
    · intro h' e
      cases hl : tidyLoop idx (tidyFuel idx h) ⟨h, 0, 0⟩ with
      | error f => rw [hl] at e; simp [Except.map] at e
      | ok r =>
        obtain ⟨h'', bs⟩ := r
        rw [hl] at e
        simp only [Except.map, Except.ok.injEq] at e
        subst e
        exact ih.1 h'' bs hl
    · intro f e
      cases hl : tidyLoop idx (tidyFuel idx h) ⟨h, 0, 0⟩ with
      | error f' =>
        rw [hl] at e
        simp only [Except.map, Except.error.injEq] at e
        subst e
        exact ih.2 f' hl
      | ok r => rw [hl] at e; simp [Except.map] at e

end Clipper.Lemmas.RCT
