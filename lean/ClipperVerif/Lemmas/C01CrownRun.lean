/-
Helper lemmas for `Props/C01Crown.lean`, part 4: THE ACCOUNT OF A WHOLE SWEEP, split at a level.

`Probe`: a weight `c` (the instance is `Spec.crossing` around a probe point) that vanishes on pairs of points on the same side of the level
`lv` (`lv ≤ p.y`: the point is BELOW the probe's scanline; y grows downwards) and equals a constant `K e` on every pair (below, above) of points
of one input edge `e`.

Phase 1 — all events below the level: the ray sum `phi` stays what it was (`phi_below_run`).
Phase 2 — all events above the level (`acct_run`): `phi + pend` is constant, where `pend` sums, over the edges of the AEL that hold a ring
end whose end point is still below the level, `± K` of the input edge the `Active` currently is (`−K` for a front end, `+K` for a back end): the
side of the ring that WILL leave that end point runs along that edge across the level (`ring_ends_on_edges`), whichever event emits its
upper end.  Core Lean only.
-/
import ClipperVerif.Lemmas.C01CrownStep
import ClipperVerif.Lemmas.C01OutputFinal
namespace Clipper.Lemmas.C01Crown
open Clipper Clipper.Model Clipper.Model.SweepPoints Clipper.Lemmas.C01Output

/-- the weight `c` seen from a probe on the level `lv` -/
structure Probe (D : Int) (E : GEdge → Prop) (c : Pt → Pt → Int) (lv : Int) (K : GEdge → Int) : Prop where
  wt : Wt c
  same : ∀ a b, (lv ≤ a.y ↔ lv ≤ b.y) → c a b = 0
  edge : ∀ e a b, E e → OnE D e a → OnE D e b → lv ≤ a.y → ¬ lv ≤ b.y → c a b = K e

/-- the pending contribution of a ring end `(IsFront = f, end point e)` held by an `Active` that is the input edge `ge` -/
def wgt (lv : Int) (K : GEdge → Int) (f : Bool) (e : Pt) (ge : GEdge) : Int :=
  if lv ≤ e.y then (if f then -K ge else K ge) else 0

def term (lv : Int) (K : GEdge → Int) (o : Out) (x : Model.SEdge) (ge : GEdge) : Int :=
  match info o x with
  | some (f, e) => wgt lv K f e ge
  | none => 0

/-- the pending contributions of an AEL in step with the geometric AEL -/
def pend (lv : Int) (K : GEdge → Int) (o : Out) : List Model.SEdge → List GEdge → Int
  | x :: xs, ge :: gs => term lv K o x ge + pend lv K o xs gs
  | _, _ => 0

theorem pend_append (lv : Int) (K : GEdge → Int) (o : Out) : ∀ (pre : List Model.SEdge) (epre : List GEdge) (xs : List Model.SEdge)
    (es : List GEdge), pre.length = epre.length → pend lv K o (pre ++ xs) (epre ++ es) = pend lv K o pre epre + pend lv K o xs es := by
  intro pre
  induction pre with
  | nil =>
    intro epre xs es h
    cases epre with
    | nil => simp [pend]
    | cons _ _ => simp at h
  | cons x pre ih =>
    intro epre xs es h
    cases epre with
    | nil => simp at h
    | cons e epre =>
      simp only [List.cons_append, pend]
      rw [ih epre xs es (by simpa using h)]
      omega

theorem term_congr {lv : Int} {K : GEdge → Int} {o o' : Out} {x x' : Model.SEdge} (h : info o' x' = info o x) (ge : GEdge) :
    term lv K o' x' ge = term lv K o x ge := by simp [term, h]

theorem pend_map (lv : Int) (K : GEdge → Int) (o o' : Out) (g : Model.SEdge → Model.SEdge) : ∀ (l : List Model.SEdge) (es : List GEdge),
    (∀ x ∈ l, info o' (g x) = info o x) → pend lv K o' (l.map g) es = pend lv K o l es := by
  intro l
  induction l with
  | nil => intro es _; rfl
  | cons x xs ih =>
    intro es h
    cases es with
    | nil => rfl
    | cons e es =>
      simp only [List.map_cons, pend]
      rw [term_congr (h x (by simp)) e, ih es (fun y hy => h y (by simp [hy]))]

theorem pend_same (lv : Int) (K : GEdge → Int) (o o' : Out) (l : List Model.SEdge) (es : List GEdge)
    (h : ∀ x ∈ l, info o' x = info o x) : pend lv K o' l es = pend lv K o l es := by
  have := pend_map lv K o o' id l es h
  simpa using this

/-- a ring end that ends in a point above the level has nothing pending -/
theorem term_above {lv : Int} {K : GEdge → Int} {o : Out} {x : Model.SEdge} {pt : Pt} (h : ∀ f e, info o x = some (f, e) → e = pt)
    (hpt : ¬ lv ≤ pt.y) (ge : GEdge) : term lv K o x ge = 0 := by
  unfold term
  cases hi : info o x with
  | none => rfl
  | some fe =>
    obtain ⟨f, e⟩ := fe
    have := h f e hi
    subst this
    simp [wgt, hpt]

theorem holds_info {D : Int} {E : GEdge → Prop} {o : Out} {x : Model.SEdge} {ge : GEdge} (h : Holds D E o x ge) {f : Bool} {e : Pt}
    (hi : info o x = some (f, e)) : OnE D ge e := by
  unfold info at hi
  cases hx : x.orec with
  | none => simp [hx] at hi
  | some k =>
    simp only [hx, Option.bind_some] at hi
    cases he : endOf o k with
    | none => simp [he] at hi
    | some e' =>
      simp only [he, Option.map_some, Option.some.injEq, Prod.mk.injEq] at hi
      rw [← hi.2]
      exact h.2 k e' hx he

/-- **an emission above the level on an edge settles exactly what was pending there** -/
theorem emit_term {D : Int} {E : GEdge → Prop} {c : Pt → Pt → Int} {lv : Int} {K : GEdge → Int} (hp : Probe D E c lv K) {o : Out}
    {x : Model.SEdge} {ge : GEdge} {pt : Pt} (hh : Holds D E o x ge) (hon : OnE D ge pt) (hpt : ¬ lv ≤ pt.y) :
    emit c o x pt = term lv K o x ge := by
  unfold term
  cases hi : info o x with
  | none => exact emit_of_info_none hi
  | some fe =>
    obtain ⟨f, e⟩ := fe
    rw [emit_of_info hi]
    have he := holds_info hh hi
    simp only [wgt, dcr]
    by_cases hb : lv ≤ e.y
    · have := hp.edge ge e pt hh.1 he hon hb hpt
      simp only [hb, if_true]
      cases f
      · simp [this]
      · simp only [if_true]; rw [hp.wt.swap e pt, this]
    · have h1 := hp.same e pt ⟨fun h => absurd h hb, fun h => absurd h hpt⟩
      have h2 := hp.wt.swap e pt
      simp only [hb, if_false]
      cases f <;> simp <;> omega

theorem tch_term {D : Int} {E : GEdge → Prop} {c : Pt → Pt → Int} {lv : Int} {K : GEdge → Int} (hp : Probe D E c lv K) {o o' : Out}
    {x x' : Model.SEdge} {ge : GEdge} {pt : Pt} {δ : Int} (ht : Tch c pt o o' x x' δ) (hh : Holds D E o x ge) (hon : OnE D ge pt)
    (hpt : ¬ lv ≤ pt.y) : term lv K o' x' ge + δ = term lv K o x ge := by
  rcases ht with ⟨h1, h2⟩ | ⟨h1, h2⟩
  · rw [h1, term_congr h2]; omega
  · rw [h1, term_above h2 hpt, emit_term hp hh hon hpt]; omega

/-- **one geometric event above the level keeps `phi + pend`** -/
theorem acct_step {D : Int} (hD : 0 < D) {E : GEdge → Prop} {c : Pt → Pt → Int} {lv : Int} {K : GEdge → Int} (hp : Probe D E c lv K)
    (cfg : Cfg) (es es' : List GEdge) (op : ROp) (r r' : RState)
    (hev : GEv D E es op es') (hs : stepR cfg r op = .ok r') (hP : Plain r.s.ael) (hO : OInv r.s.next r.s.ael r.o)
    (hR : RecsOK r.s.next r.s.ael) (hG : GeoAll (Holds D E r.o) r.s.ael es) (hpt : ¬ lv ≤ op.pt.y) :
    phi c r'.o + pend lv K r'.o r'.s.ael es' = phi c r.o + pend lv K r.o r.s.ael es := by
  cases op with
  | base bop pt =>
    cases bop with
    | insertPair pos t isOpen dx =>
      cases isOpen with
      | true => simp [GEv] at hev
      | false =>
        simp only [GEv] at hev
        obtain ⟨epre, epost, l, rr, he, hlen, he', _, _, _, _, _, _⟩ := hev
        obtain ⟨pre, post, l', r'', h1, h2, h3, h4, h5, h6, _, h7⟩ := insertPair_acct c cfg pos t dx pt r r' hO hs
        have hlenG := geoAll_length _ _ hG
        rw [h1, he] at hlenG
        simp only [List.length_append] at hlenG
        rw [h3, he', h1, he, pend_append _ _ _ pre epre _ _ (by omega), pend_append _ _ _ pre epre _ _ (by omega), h7]
        simp only [pend]
        rw [term_above h5 hpt, term_above h6 hpt,
          pend_same lv K r.o r'.o pre epre (fun x hx => h4 x (List.mem_append_left _ hx)),
          pend_same lv K r.o r'.o post epost (fun x hx => h4 x (List.mem_append_right _ hx))]
        omega
    | insertOne _ _ _ => simp [GEv] at hev
    | intersect i =>
      simp only [GEv] at hev
      obtain ⟨epre, epost, ea, eb, he, hlen, he', oa, ob⟩ := hev
      obtain ⟨pre, a, b, rest, g, a', b', h1, h2, h3, h4, _, δa, δb, h5, h6, h7⟩ := intersect_acct hp.wt cfg i pt r r' hP hO hR hs
      rw [h1, he, geoAll_append pre epre _ _ (by omega)] at hG
      obtain ⟨g1, g2⟩ := hG
      simp only [GeoAll] at g2
      obtain ⟨ga, gb, g3⟩ := g2
      have ta := tch_term hp h6 ga oa hpt
      have tb := tch_term hp h7 gb ob hpt
      rw [h3, he', h1, he, pend_append _ _ _ (pre.map g) epre _ _ (by simp; omega), pend_append _ _ _ pre epre _ _ (by omega), h5]
      simp only [pend]
      rw [pend_map lv K r.o r'.o g pre epre (fun x hx => h4 x (List.mem_append_left _ hx)),
        pend_map lv K r.o r'.o g rest epost (fun x hx => h4 x (List.mem_append_right _ hx))]
      omega
    | removePair i =>
      simp only [GEv] at hev
      obtain ⟨epre, epost, ea, eb, he, hlen, he', ua, ub, htop, hpt'⟩ := hev
      obtain ⟨pre, a, b, rest, g, h1, h2, h3, h4, _, h5⟩ := removePair_acct hp.wt cfg i pt r r' hP hO hR hs
      rw [h1, he, geoAll_append pre epre _ _ (by omega)] at hG
      obtain ⟨g1, g2⟩ := hG
      simp only [GeoAll] at g2
      obtain ⟨ga, gb, g3⟩ := g2
      have oa : OnE D ea pt := by rw [hpt']; exact onE_top D ea hD ua
      have ob : OnE D eb pt := by rw [hpt', ← htop]; exact onE_top D eb hD ub
      have ta := emit_term hp ga oa hpt
      have tb := emit_term hp gb ob hpt
      rw [h3, he', h1, he, pend_append _ _ _ (pre.map g) epre _ _ (by simp; omega), pend_append _ _ _ pre epre _ _ (by omega), h5]
      simp only [pend]
      rw [pend_map lv K r.o r'.o g pre epre (fun x hx => h4 x (List.mem_append_left _ hx)),
        pend_map lv K r.o r'.o g rest epost (fun x hx => h4 x (List.mem_append_right _ hx))]
      omega
    | removeOne _ => simp [GEv] at hev
  | join _ _ => simp [GEv] at hev
  | split _ _ => simp [GEv] at hev
  | update i pt =>
    simp only [GEv] at hev
    obtain ⟨epre, epost, ea, ea', he, hlen, he', _, ua, _, _, hpt'⟩ := hev
    obtain ⟨pre, post, x, h1, h2, h3, h4, h5, _, h6⟩ := update_acct hp.wt cfg i pt r r' hP hO hR hs
    rw [h1, he, geoAll_append pre epre _ _ (by omega)] at hG
    obtain ⟨g1, g2⟩ := hG
    simp only [GeoAll] at g2
    obtain ⟨gx, g3⟩ := g2
    have oa : OnE D ea pt := by rw [hpt']; exact onE_top D ea hD ua
    have tx := emit_term hp gx oa hpt
    rw [h3, he', h1, he, pend_append _ _ _ pre epre _ _ (by omega), pend_append _ _ _ pre epre _ _ (by omega), h6]
    simp only [pend]
    rw [term_above h5 hpt, pend_same lv K r.o r'.o pre epre (fun y hy => h4 y (List.mem_append_left _ hy)),
      pend_same lv K r.o r'.o post epost (fun y hy => h4 y (List.mem_append_right _ hy))]
    omega

/-- **geometric event lists above the level keep `phi + pend`** -/
theorem acct_run {D : Int} (hD : 0 < D) {E : GEdge → Prop} {c : Pt → Pt → Int} {lv : Int} {K : GEdge → Int} (hp : Probe D E c lv K)
    (cfg : Cfg) (hct : cfg.ct ≠ .noClip) : ∀ (ops : List ROp) (es es' : List GEdge) (r r' : RState),
    GRun D E es ops es' → runR cfg r ops = .ok r' → Reach cfg r → Plain r.s.ael → GeoAll (Holds D E r.o) r.s.ael es → SegGeo D E r.o →
    (∀ op ∈ ops, ¬ lv ≤ op.pt.y) →
    phi c r'.o + pend lv K r'.o r'.s.ael es' = phi c r.o + pend lv K r.o r.s.ael es := by
  intro ops
  induction ops with
  | nil =>
    intro es es' r r' hg hr _ _ _ _ _
    simp only [GRun] at hg; subst hg
    simp only [runR] at hr; cases hr
    rfl
  | cons op ops ih =>
    intro es es' r r' hg hr hre hP hG hS hup
    obtain ⟨es1, g1, g2⟩ := hg
    simp only [runR] at hr
    cases hs : stepR cfg r op with
    | error e => simp [hs] at hr
    | ok r1 =>
      simp only [hs] at hr
      obtain ⟨hO, hR, _⟩ := reach_facts hct hre
      obtain ⟨p1, p2, p3⟩ := geo_step cfg D hD E es es1 op r r1 g1 hs hP hO hR hG hS
      rw [ih es1 es' r1 r' g2 hr (reach_step hre hs) p1 p2 p3 (fun o ho => hup o (by simp [ho]))]
      exact acct_step hD hp cfg es es1 op r r1 g1 hs hP hO hR hG (hup op (by simp))

/-! ## phase 1: below the level nothing is counted -/

/-- an emission below the level on a ring end that ends below the level counts nothing -/
theorem emit_below {D : Int} {E : GEdge → Prop} {c : Pt → Pt → Int} {lv : Int} {K : GEdge → Int} (hp : Probe D E c lv K) {o : Out}
    {n : Nat} {l : List Model.SEdge} (hO : OInv n l o) (hE : EndsAbove lv o) {x : Model.SEdge} (hx : x ∈ l) {pt : Pt} (hpt : lv ≤ pt.y) :
    emit c o x pt = 0 := by
  cases hxo : x.orec with
  | none => exact emit_none hxo
  | some k =>
    obtain ⟨e, he⟩ := endAt_some_of_live (hO.hot x hx k hxo) k.front
    have he' : endOf o k = some e := he
    rw [emit_some hxo he']
    obtain ⟨g, hgm, hg, hep⟩ := endOf_endPt he'
    obtain ⟨g', hg', hl, _⟩ := hO.hot x hx k hxo
    rw [hg] at hg'; cases hg'
    have hb : lv ≤ e.y := hE g hgm hl e (by cases hf : k.front <;> rw [hf] at hep <;> simp [hep])
    have h1 := hp.same e pt (by constructor <;> intro _ <;> assumption)
    have h2 := hp.wt.swap e pt
    unfold dcr
    split <;> omega

theorem tch_below {D : Int} {E : GEdge → Prop} {c : Pt → Pt → Int} {lv : Int} {K : GEdge → Int} (hp : Probe D E c lv K) {o o' : Out}
    {n : Nat} {l : List Model.SEdge} (hO : OInv n l o) (hE : EndsAbove lv o) {x x' : Model.SEdge} (hx : x ∈ l) {pt : Pt} (hpt : lv ≤ pt.y)
    {δ : Int} (ht : Tch c pt o o' x x' δ) : δ = 0 := by
  rcases ht with ⟨h1, _⟩ | ⟨h1, _⟩
  · exact h1
  · rw [h1]; exact emit_below hp hO hE hx hpt

/-- **one plain event below the level leaves the ray sum unchanged** -/
theorem phi_below_step {D : Int} {E : GEdge → Prop} {c : Pt → Pt → Int} {lv : Int} {K : GEdge → Int} (hp : Probe D E c lv K)
    (cfg : Cfg) (op : ROp) (r r' : RState) (hop : PlainOp op) (hs : stepR cfg r op = .ok r') (hP : Plain r.s.ael)
    (hO : OInv r.s.next r.s.ael r.o) (hR : RecsOK r.s.next r.s.ael) (hE : EndsAbove lv r.o) (hpt : lv ≤ op.pt.y) :
    phi c r'.o = phi c r.o := by
  cases op with
  | base bop pt =>
    cases bop with
    | insertPair pos t isOpen dx =>
      cases isOpen with
      | true => simp [PlainOp] at hop
      | false =>
        obtain ⟨_, _, _, _, _, _, _, _, _, _, _, h7⟩ := insertPair_acct c cfg pos t dx pt r r' hO hs
        exact h7
    | insertOne _ _ _ => simp [PlainOp] at hop
    | intersect i =>
      obtain ⟨pre, a, b, rest, g, a', b', h1, _, _, _, _, δa, δb, h5, h6, h7⟩ := intersect_acct hp.wt cfg i pt r r' hP hO hR hs
      have ha : a ∈ r.s.ael := by rw [h1]; simp
      have hb : b ∈ r.s.ael := by rw [h1]; simp
      rw [h5, tch_below hp hO hE ha hpt h6, tch_below hp hO hE hb hpt h7]; omega
    | removePair i =>
      obtain ⟨pre, a, b, rest, g, h1, _, _, _, _, h5⟩ := removePair_acct hp.wt cfg i pt r r' hP hO hR hs
      have ha : a ∈ r.s.ael := by rw [h1]; simp
      have hb : b ∈ r.s.ael := by rw [h1]; simp
      rw [h5, emit_below hp hO hE ha (pt := pt) hpt, emit_below hp hO hE hb (pt := pt) hpt]; omega
    | removeOne _ => simp [PlainOp] at hop
  | join _ _ => simp [PlainOp] at hop
  | split _ _ => simp [PlainOp] at hop
  | update i pt =>
    obtain ⟨pre, post, x, h1, _, _, _, _, _, h6⟩ := update_acct hp.wt cfg i pt r r' hP hO hR hs
    have hx : x ∈ r.s.ael := by rw [h1]; simp
    rw [h6, emit_below hp hO hE hx (pt := pt) hpt]; omega

theorem phi_below_run {D : Int} {E : GEdge → Prop} {c : Pt → Pt → Int} {lv : Int} {K : GEdge → Int} (hp : Probe D E c lv K)
    (cfg : Cfg) (hct : cfg.ct ≠ .noClip) : ∀ (ops : List ROp) (r r' : RState), (∀ op ∈ ops, PlainOp op) → runR cfg r ops = .ok r' →
    Reach cfg r → Plain r.s.ael → EndsAbove lv r.o → (∀ op ∈ ops, lv ≤ op.pt.y) → phi c r'.o = phi c r.o := by
  intro ops
  induction ops with
  | nil => intro r r' _ hr _ _ _ _; simp only [runR] at hr; cases hr; rfl
  | cons op ops ih =>
    intro r r' hop hr hre hP hE hlv
    simp only [runR] at hr
    cases hs : stepR cfg r op with
    | error e => simp [hs] at hr
    | ok r1 =>
      simp only [hs] at hr
      obtain ⟨hO, hR, _⟩ := reach_facts hct hre
      obtain ⟨p1, _⟩ := plain_step cfg op r r1 (hop op (by simp)) hs hP hO hR
      have e1 := endsAbove_step cfg op r r1 lv hs hE (hlv op (by simp))
      rw [ih r1 r' (fun o ho => hop o (by simp [ho])) hr (reach_step hre hs) p1 e1 (fun o ho => hlv o (by simp [ho]))]
      exact phi_below_step hp cfg op r r1 (hop op (by simp)) hs hP hO hR hE (hlv op (by simp))

/-! ## counting: twice the rings under construction = the edges that own a ring end -/

theorem bal_step (cfg : Cfg) (op : ROp) (r r' : RState) (hop : PlainOp op) (hs : stepR cfg r op = .ok r') (hP : Plain r.s.ael)
    (hO : OInv r.s.next r.s.ael r.o) (hR : RecsOK r.s.next r.s.ael) :
    2 * liveN r'.o - hotN r'.s.ael = 2 * liveN r.o - hotN r.s.ael := by
  have hw : Wt (fun _ _ => (0 : Int)) := ⟨fun _ => rfl, fun _ _ => rfl⟩
  cases op with
  | base bop pt =>
    cases bop with
    | insertPair pos t isOpen dx =>
      cases isOpen with
      | true => simp [PlainOp] at hop
      | false =>
        obtain ⟨_, _, _, _, _, _, _, _, _, _, h, _⟩ := insertPair_acct (fun _ _ => (0 : Int)) cfg pos t dx pt r r' hO hs
        exact h
    | insertOne _ _ _ => simp [PlainOp] at hop
    | intersect i =>
      obtain ⟨_, _, _, _, _, _, _, _, _, _, _, h, _⟩ := intersect_acct hw cfg i pt r r' hP hO hR hs
      exact h
    | removePair i =>
      obtain ⟨_, _, _, _, _, _, _, _, _, h, _⟩ := removePair_acct hw cfg i pt r r' hP hO hR hs
      exact h
    | removeOne _ => simp [PlainOp] at hop
  | join _ _ => simp [PlainOp] at hop
  | split _ _ => simp [PlainOp] at hop
  | update i pt =>
    obtain ⟨_, _, _, _, _, _, _, _, h, _⟩ := update_acct hw cfg i pt r r' hP hO hR hs
    exact h

theorem bal_run (cfg : Cfg) (hct : cfg.ct ≠ .noClip) : ∀ (ops : List ROp) (r r' : RState), (∀ op ∈ ops, PlainOp op) →
    runR cfg r ops = .ok r' → Reach cfg r → Plain r.s.ael → 2 * liveN r'.o - hotN r'.s.ael = 2 * liveN r.o - hotN r.s.ael := by
  intro ops
  induction ops with
  | nil => intro r r' _ hr _ _; simp only [runR] at hr; cases hr; rfl
  | cons op ops ih =>
    intro r r' hop hr hre hP
    simp only [runR] at hr
    cases hs : stepR cfg r op with
    | error e => simp [hs] at hr
    | ok r1 =>
      simp only [hs] at hr
      obtain ⟨hO, hR, _⟩ := reach_facts hct hre
      obtain ⟨p1, _⟩ := plain_step cfg op r r1 (hop op (by simp)) hs hP hO hR
      rw [ih r1 r' (fun o ho => hop o (by simp [ho])) hr (reach_step hre hs) p1]
      exact bal_step cfg op r r1 (hop op (by simp)) hs hP hO hR

/-- **a sweep without joins that ends with an empty AEL leaves no ring under construction, and its emptied records have no points** -/
theorem sweep_end_clean (cfg : Cfg) (hct : cfg.ct ≠ .noClip) (ops : List ROp) (rs : RState) (hop : ∀ op ∈ ops, PlainOp op)
    (hr : runR cfg RState.empty ops = .ok rs) (hend : rs.s.ael = []) :
    ∀ g ∈ rs.o.rings, g.stat = .done ∨ g.pts = [] := by
  have hb := bal_run cfg hct ops RState.empty rs hop hr ⟨[], rfl⟩ (fun x hx => by simp [RState.empty, SState.empty] at hx)
  have h0 : liveN rs.o = 0 := by
    rw [hend] at hb
    simp [liveN, hotN, RState.empty, Out.empty, SState.empty] at hb
    simp only [liveN]; omega
  have hge := goneEmpty_run cfg ops RState.empty rs hr (fun g hg => by simp [RState.empty, Out.empty] at hg)
  intro g hg
  have hnl := no_live_of_zero h0 g hg
  cases hst : g.stat with
  | live => exact absurd hst hnl
  | done => exact Or.inl rfl
  | gone => exact Or.inr (hge g hg hst)

end Clipper.Lemmas.C01Crown
