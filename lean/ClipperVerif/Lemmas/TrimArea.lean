/- Area preservation of TrimCollinear (helper lemmas for Props/C20.lean). -/
import ClipperVerif.Lemmas.PathUtil
namespace Clipper.Lemmas.PathUtil
open Clipper Clipper.Model.PathUtil

def xprod (a b : Pt) : Int := a.x * b.y - b.x * a.y

/-- sum of `xprod` over the consecutive pairs of an open chain -/
def chain : List Pt → Int
  | a :: b :: rest => xprod a b + chain (b :: rest)
  | _ => 0

theorem xprod_self (a : Pt) : xprod a a = 0 := by unfold xprod; grind
theorem xprod_anti (a b : Pt) : xprod b a = - xprod a b := by unfold xprod; grind

/-- dropping the middle one of three collinear points does not change the sum -/
theorem xprod_drop (a b c : Pt) (h : isCollinear a b c = true) : xprod a b + xprod b c = xprod a c := by
  rw [isCollinear_iff] at h; unfold xprod; grind

/-- the same when the collinearity test was made with the roles `(pt1, shared, pt2) = (b, a, c)` -/
theorem xprod_drop' (z y a : Pt) (h : isCollinear z y a = true) : xprod y z + xprod z a = xprod y a := by
  rw [isCollinear_iff] at h; unfold xprod; grind

theorem sum_edges_eq_chain (a z : Pt) (rest : List Pt) :
    (((a :: rest).zip (rest ++ [z])).map (fun e => e.1.x * e.2.y - e.2.x * e.1.y)).sum
      = chain (a :: rest ++ [z]) := by
  induction rest generalizing a with
  | nil => simp [chain, xprod]
  | cons b r ih =>
    have := ih b
    simp only [List.cons_append, List.zip_cons_cons, List.map_cons, List.sum_cons, chain, xprod] at this ⊢
    omega

theorem shoelace2_eq_chain (a : Pt) (rest : List Pt) : shoelace2 (a :: rest) = chain (a :: rest ++ [a]) := by
  unfold shoelace2 edgesOf; exact sum_edges_eq_chain a a rest

theorem chain_snoc (l : List Pt) (x : Pt) :
    chain (l ++ [x]) = chain l + (match l.getLast? with | some z => xprod z x | none => 0) := by
  induction l with
  | nil => simp [chain]
  | cons a t ih =>
    cases t with
    | nil => simp [chain]
    | cons b t' =>
      simp only [List.cons_append, chain, List.getLast?_cons_cons] at ih ⊢
      omega

/-- twice the area of the closed polygon `l` as open chain plus closing edge -/
def areaQ (l : List Pt) : Int :=
  match l, l.getLast? with
  | a :: _, some z => chain l + xprod z a
  | _, _ => 0

theorem shoelace2_eq_areaQ (l : List Pt) : shoelace2 l = areaQ l := by
  cases l with
  | nil => simp [shoelace2, edgesOf, areaQ]
  | cons a rest =>
    rw [shoelace2_eq_chain]
    have h := chain_snoc (a :: rest) a
    rw [h]
    unfold areaQ
    cases hl : (a :: rest).getLast? with
    | none => simp at hl
    | some z => rfl

theorem chain_reverse (l : List Pt) : chain l.reverse = - chain l := by
  induction l with
  | nil => simp [chain]
  | cons a t ih =>
    rw [List.reverse_cons, chain_snoc, ih]
    cases t with
    | nil => simp [chain]
    | cons b t' =>
      simp only [List.getLast?_reverse, List.head?_cons, chain]
      rw [xprod_anti a b]; omega

/-- `areaQ` seen from the front with the last vertex fixed -/
def Qf (z : Pt) : List Pt → Int
  | [] => 0
  | a :: t => chain (a :: t) + xprod z a

/-- `areaQ` of the reverse of `r` when the first vertex of the polygon (last of `r`) is `first` -/
def Qb (first : Pt) : List Pt → Int
  | [] => 0
  | z :: t => - chain (z :: t) + xprod z first

theorem areaQ_eq_Qf (l : List Pt) (z : Pt) (h : l.getLast? = some z) : areaQ l = Qf z l := by
  cases l with
  | nil => simp at h
  | cons a t => unfold areaQ Qf; rw [h]

theorem areaQ_reverse_eq_Qb (r : List Pt) (first : Pt) (h : r.getLast? = some first) :
    areaQ r.reverse = Qb first r := by
  cases r with
  | nil => simp at h
  | cons z t =>
    have hh : (z :: t).reverse.head? = some first := by rw [List.head?_reverse]; exact h
    have hl : (z :: t).reverse.getLast? = some z := by rw [List.getLast?_reverse]; rfl
    unfold areaQ Qb
    cases hr : (z :: t).reverse with
    | nil => simp at hr
    | cons a t' =>
      rw [hr] at hh hl
      simp only [List.head?_cons, Option.some.injEq] at hh
      subst hh
      rw [hl]
      simp only []
      rw [← hr, chain_reverse]

theorem trimFront_getLast (last : Pt) (l : List Pt) : (trimFront last l).getLast? = l.getLast? := by
  fun_induction trimFront last l with
  | case1 a b rest h ih => rw [ih, List.getLast?_cons_cons]
  | case2 a b rest h => rfl
  | case3 l h => rfl

theorem trimFront_Qf (last : Pt) (l : List Pt) : Qf last (trimFront last l) = Qf last l := by
  fun_induction trimFront last l with
  | case1 a b rest h ih =>
    rw [ih]; simp only [Qf, chain]
    have := xprod_drop last a b h
    omega
  | case2 a b rest h => rfl
  | case3 l h => rfl

theorem trimBackRev_getLast (first : Pt) (l : List Pt) : (trimBackRev first l).getLast? = l.getLast? := by
  fun_induction trimBackRev first l with
  | case1 z y rest h ih => rw [ih, List.getLast?_cons_cons]
  | case2 z y rest h => rfl
  | case3 l h => rfl

theorem trimBackRev_Qb (first : Pt) (l : List Pt) : Qb first (trimBackRev first l) = Qb first l := by
  fun_induction trimBackRev first l with
  | case1 z y rest h ih =>
    rw [ih]; simp only [Qb, chain]
    have := xprod_drop y z first h
    have := xprod_anti y z
    omega
  | case2 z y rest h => rfl
  | case3 l h => rfl

theorem trimPopRev_getLast (first : Pt) (l : List Pt) : (trimPopRev first l).getLast? = l.getLast? := by
  fun_induction trimPopRev first l with
  | case1 z y w rest h ih => rw [ih]; simp [List.getLast?_cons_cons]
  | case2 z y w rest h => rfl
  | case3 l h => rfl

theorem trimPopRev_Qb (first : Pt) (l : List Pt) : Qb first (trimPopRev first l) = Qb first l := by
  fun_induction trimPopRev first l with
  | case1 z y w rest h ih =>
    rw [ih]; simp only [Qb, chain]
    have := xprod_drop' z y first h
    have := xprod_anti y z
    omega
  | case2 z y w rest h => rfl
  | case3 l h => rfl

theorem trimLoop_chain (prev cur : Pt) (l : List Pt) :
    chain (prev :: ((trimLoop prev cur l).1 ++ [(trimLoop prev cur l).2.2])) = chain (prev :: cur :: l) := by
  induction l generalizing prev cur with
  | nil => simp [trimLoop]
  | cons n rest ih =>
    simp only [trimLoop]
    split
    · rename_i h
      rw [ih prev n]; simp only [chain]
      have := xprod_drop prev cur n h
      omega
    · have := ih cur n
      simp only [List.cons_append, chain] at this ⊢
      omega

theorem trimLoop_prev (prev cur : Pt) (l : List Pt) :
    (prev :: (trimLoop prev cur l).1).getLast? = some (trimLoop prev cur l).2.1 := by
  induction l generalizing prev cur with
  | nil => simp [trimLoop]
  | cons n rest ih =>
    simp only [trimLoop]
    split
    · exact ih prev n
    · rw [List.getLast?_cons_cons]; exact ih cur n

theorem areaQ_short (l : List Pt) (h : l.length < 3) : areaQ l = 0 := by
  match l, h with
  | [], _ => rfl
  | [a], _ => simp [areaQ, chain, xprod_self]
  | [a, b], _ => simp [areaQ, chain, xprod_anti a b]; omega

theorem trimClosedBody_area (seg : List Pt) : areaQ (trimClosedBody seg) = areaQ seg := by
  unfold trimClosedBody
  split
  · rename_i a c rest
    have hstop := trimLoop_stop a c rest
    have hprev := trimLoop_prev a c rest
    have hchain := trimLoop_chain a c rest
    generalize trimLoop a c rest = r at hstop hprev hchain
    obtain ⟨d, prev, stop⟩ := r
    simp only [] at hstop hprev hchain ⊢
    have hseg : areaQ (a :: c :: rest) = chain (a :: (d ++ [stop])) + xprod stop a := by
      rw [areaQ_eq_Qf _ stop (by rw [List.getLast?_cons_cons]; exact hstop), Qf, hchain]
    split
    · -- stop is kept
      rw [hseg, areaQ_eq_Qf (a :: d ++ [stop]) stop (by rw [List.getLast?_concat])]; rfl
    · rename_i hcol
      have hcol : isCollinear prev stop a = true := by
        cases hc : isCollinear prev stop a <;> simp_all
      have hdst : areaQ (a :: d) = areaQ (a :: c :: rest) := by
        rw [hseg, areaQ_eq_Qf (a :: d) prev hprev, Qf]
        have h1 := chain_snoc (a :: d) stop
        rw [hprev] at h1; simp only [] at h1
        rw [List.cons_append] at h1
        rw [h1]
        have := xprod_drop prev stop a hcol
        omega
      have hpop : areaQ (trimPopRev a (a :: d).reverse).reverse = areaQ (a :: d) := by
        have hl : (a :: d).reverse.getLast? = some a := by rw [List.getLast?_reverse]; rfl
        rw [areaQ_reverse_eq_Qb _ a (by rw [trimPopRev_getLast]; exact hl), trimPopRev_Qb,
          ← areaQ_reverse_eq_Qb _ a hl, List.reverse_reverse]
      split
      · rename_i hshort
        rw [← hdst, ← hpop, areaQ_short _ hshort]; rfl
      · rw [hpop, hdst]
  · rename_i hne
    match seg, hne with
    | [], _ => rfl
    | [a], _ => simp [areaQ, chain, xprod_self]
    | a :: c :: rest, hne => exact absurd rfl (hne a c rest)

theorem trimEnds_area (p : List Pt) : areaQ (trimEnds p) = areaQ p := by
  unfold trimEnds
  split
  · rename_i h
    have : p = [] := by simpa using h
    subst this; rfl
  · rename_i last hlast
    simp only []
    have h1 : areaQ (trimFront last p) = areaQ p := by
      rw [areaQ_eq_Qf _ last (by rw [trimFront_getLast]; exact hlast), trimFront_Qf,
        ← areaQ_eq_Qf _ last hlast]
    split
    · rename_i hnil
      rw [← h1, hnil]
    · rename_i first t heq
      have hl : (trimFront last p).reverse.getLast? = some first := by
        rw [List.getLast?_reverse, heq]; rfl
      rw [← h1]
      rw [areaQ_reverse_eq_Qb _ first (by rw [trimBackRev_getLast]; exact hl), trimBackRev_Qb,
        ← areaQ_reverse_eq_Qb _ first hl, List.reverse_reverse]

theorem trimCollinear_closed_area (p : List Pt) : shoelace2 (trimCollinear p false) = shoelace2 p := by
  rw [shoelace2_eq_areaQ, shoelace2_eq_areaQ]
  unfold trimCollinear
  split
  · rename_i h
    simp only [Bool.false_eq_true, if_false]
    rw [areaQ_short p h]; rfl
  · simp only [Bool.false_eq_true, if_false]
    rw [trimClosedBody_area, trimEnds_area]

end Clipper.Lemmas.PathUtil
