/- Helper lemmas for C08/C09 (rectangle clipping models). Core Lean only. -/
import ClipperVerif.Model.RectClip
namespace Clipper.Lemmas.RC
open Clipper Clipper.Model.RC

/-- on the boundary of the closed rectangle -/
def OnBoundary (r : Rect) (p : Pt) : Prop :=
  ((p.x = r.left ∨ p.x = r.right) ∧ r.top ≤ p.y ∧ p.y ≤ r.bottom) ∨
  ((p.y = r.top ∨ p.y = r.bottom) ∧ r.left ≤ p.x ∧ p.x ≤ r.right)

/-- the nine regions as documented: the corner regions belong to `left` / `right` -/
def region (r : Rect) (p : Pt) : Location :=
  if p.x < r.left then .left else if p.x > r.right then .right
  else if p.y < r.top then .top else if p.y > r.bottom then .bottom else .inside

/-- the side reported for a boundary point: left, right, top, bottom in this order of precedence -/
def sideOf (r : Rect) (p : Pt) : Location :=
  if p.x = r.left ∧ r.top ≤ p.y ∧ p.y ≤ r.bottom then .left
  else if p.x = r.right ∧ r.top ≤ p.y ∧ p.y ≤ r.bottom then .right
  else if p.y = r.top ∧ r.left ≤ p.x ∧ p.x ≤ r.right then .top else .bottom

theorem getLocation_fst (r : Rect) (p : Pt) (l0 : Location) :
    (getLocation r p l0).1 = false ↔ OnBoundary r p := by
  unfold getLocation Gen.GetLocation OnBoundary
  simp only [Bool.and_eq_true, decide_eq_true_eq]
  repeat' split
  all_goals simp
  all_goals omega

theorem getLocation_snd_true (r : Rect) (p : Pt) (l0 : Location) (h : (getLocation r p l0).1 = true) :
    (getLocation r p l0).2 = region r p := by
  revert h
  unfold getLocation Gen.GetLocation region
  simp only [Bool.and_eq_true, decide_eq_true_eq]
  repeat' split
  all_goals simp
  all_goals omega

theorem getLocation_snd_false (r : Rect) (p : Pt) (l0 : Location) (h : (getLocation r p l0).1 = false) :
    (getLocation r p l0).2 = sideOf r p := by
  revert h
  unfold getLocation Gen.GetLocation sideOf
  simp only [Bool.and_eq_true, decide_eq_true_eq]
  repeat' split
  all_goals simp
  all_goals omega


/-! ### lists: `takeWhile`, `indexFrom`, `skipWhile` -/

theorem takeWhile_all (c : Pt → Bool) (l : List Pt) : ∀ x ∈ l.takeWhile c, c x = true := by
  induction l with
  | nil => simp
  | cons a l ih =>
    rw [List.takeWhile_cons]; split
    · intro x hx; rcases List.mem_cons.mp hx with rfl | h
      · assumption
      · exact ih x h
    · simp

theorem takeWhile_length_le (c : Pt → Bool) (l : List Pt) : (l.takeWhile c).length ≤ l.length := by
  induction l with
  | nil => simp
  | cons a l ih => rw [List.takeWhile_cons]; split <;> simp <;> omega

theorem takeWhile_get (c : Pt → Bool) (l : List Pt) (k : Nat) (q : Pt) :
    (l.takeWhile c)[k]? = some q → l[k]? = some q := by
  induction l generalizing k with
  | nil => simp
  | cons a l ih =>
    rw [List.takeWhile_cons]; split
    · cases k with
      | zero => simp
      | succ k => simpa using ih k
    · simp

theorem takeWhile_stop (c : Pt → Bool) (l : List Pt) (q : Pt) :
    l[(l.takeWhile c).length]? = some q → c q = false := by
  induction l with
  | nil => simp
  | cons a l ih =>
    rw [List.takeWhile_cons]; split
    · simpa using ih
    · rename_i h; simp; rintro rfl; simpa using h

theorem takeWhile_pos (c : Pt → Bool) (l : List Pt) (q : Pt) (h0 : l[0]? = some q) (hc : c q = true) :
    1 ≤ (l.takeWhile c).length := by
  cases l with
  | nil => simp at h0
  | cons a l =>
    simp at h0; subst h0
    rw [List.takeWhile_cons]; simp [hc]

theorem takeWhile_full (c : Pt → Bool) (l : List Pt) (h : l.length ≤ (l.takeWhile c).length) :
    ∀ x ∈ l, c x = true := by
  induction l with
  | nil => simp
  | cons a l ih =>
    rw [List.takeWhile_cons] at h
    split at h
    · rename_i ha
      intro x hx; rcases List.mem_cons.mp hx with rfl | hx
      · exact ha
      · exact ih (by simpa using h) x hx
    · simp at h

theorem mem_indexFrom (i : Nat) (l : List Pt) (k : Nat) (q : Pt) (h : (k, q) ∈ indexFrom i l) :
    i ≤ k ∧ k < i + l.length ∧ l[k - i]? = some q := by
  induction l generalizing i with
  | nil => simp [indexFrom] at h
  | cons a l ih =>
    simp only [indexFrom, List.mem_cons] at h
    rcases h with h | h
    · cases h; simp
    · have := ih (i + 1) h
      refine ⟨by omega, by simp; omega, ?_⟩
      have e : k - i = (k - (i + 1)) + 1 := by omega
      rw [e]; simpa using this.2.2

theorem indexFrom_pairwise (i : Nat) (l : List Pt) :
    (indexFrom i l).Pairwise (fun a b => a.1 < b.1) := by
  induction l generalizing i with
  | nil => simp [indexFrom]
  | cons a l ih =>
    simp only [indexFrom, List.pairwise_cons]
    refine ⟨?_, ih (i + 1)⟩
    intro b hb
    have := mem_indexFrom (i + 1) l b.1 b.2 hb
    simp; omega

theorem skipWhile_ge (c : Pt → Bool) (path : Path) (i : Nat) : i ≤ skipWhile c path i := by
  unfold skipWhile; omega

theorem skipWhile_le (c : Pt → Bool) (path : Path) (i : Nat) (h : i ≤ path.length) :
    skipWhile c path i ≤ path.length := by
  unfold skipWhile
  have := takeWhile_length_le c (path.drop i)
  simp at this; omega

theorem skipWhile_stop (c : Pt → Bool) (path : Path) (i : Nat) (q : Pt)
    (h : path[skipWhile c path i]? = some q) : c q = false := by
  unfold skipWhile at h
  apply takeWhile_stop c (path.drop i) q
  rw [List.getElem?_drop]; exact h

theorem skipWhile_adv (c : Pt → Bool) (path : Path) (i : Nat) (q : Pt)
    (h : path[i]? = some q) (hc : c q = true) : i + 1 ≤ skipWhile c path i := by
  unfold skipWhile
  have := takeWhile_pos c (path.drop i) q (by rw [List.getElem?_drop]; simpa using h) hc
  omega


/-! ### `GetNextLocation` -/

/-- the vertex at the current index will be consumed by the next `GetNextLocation` call started from `loc` -/
def Ready (r : Rect) : Location → Pt → Prop
  | .left, q => q.x ≤ r.left
  | .top, q => q.y ≤ r.top
  | .right, q => q.x ≥ r.right
  | .bottom, q => q.y ≥ r.bottom
  | .inside, q => outsideLoc r q = none

theorem outsideLoc_none_iff (r : Rect) (q : Pt) : outsideLoc r q = none ↔ inRect r q = true := by
  unfold outsideLoc inRect
  simp only [Bool.and_eq_true, decide_eq_true_eq]
  repeat' split
  all_goals simp
  all_goals omega

theorem outsideLoc_isNone_iff (r : Rect) (q : Pt) : (outsideLoc r q).isNone = true ↔ inRect r q = true := by
  rw [← outsideLoc_none_iff]; cases outsideLoc r q <;> simp

theorem outsideLoc_ready (r : Rect) (q : Pt) (l : Location) (h : outsideLoc r q = some l) : Ready r l q := by
  revert h
  unfold outsideLoc
  repeat' split
  all_goals (intro h; cases h)
  all_goals simp only [Ready]
  all_goals omega

/-- everything the loop analysis needs to know about one `GetNextLocation` call -/
structure GnlSpec (r : Rect) (path : Path) (loc : Location) (i : Nat) (g : Location × Nat × List (Nat × Pt)) : Prop where
  ge : i ≤ g.2.1
  le : i ≤ path.length → g.2.1 ≤ path.length
  ready : ∀ q, path[g.2.1]? = some q → Ready r g.1 q
  adv : ∀ q, path[i]? = some q → Ready r loc q → i + 1 ≤ g.2.1
  adds : ∀ k q, (k, q) ∈ g.2.2 → path[k]? = some q ∧ inRect r q = true ∧ i ≤ k ∧ k < g.2.1
  sorted : g.2.2.Pairwise (fun a b => a.1 < b.1)

theorem gnl_outside (r : Rect) (path : Path) (loc : Location) (i : Nat) (c : Pt → Bool) (f : Pt → Location)
    (hc : ∀ q, Ready r loc q → c q = true)
    (hf : ∀ q, c q = false → Ready r (f q) q) :
    GnlSpec r path loc i
      (match path[skipWhile c path i]? with
       | none => (loc, skipWhile c path i, [])
       | some q => (f q, skipWhile c path i, [])) := by
  have h1 := skipWhile_ge c path i
  have h2 := skipWhile_le c path i
  have h3 := skipWhile_stop c path i
  have h4 := skipWhile_adv c path i
  generalize skipWhile c path i = j at *
  cases hq : path[j]? with
  | none =>
    exact ⟨h1, h2, by intro q hq'; simp [hq] at hq', fun q hq hr => h4 q hq (hc q hr), by simp, by simp⟩
  | some q0 =>
    refine ⟨h1, h2, ?_, fun q hq hr => h4 q hq (hc q hr), by simp, by simp⟩
    intro q hq'; simp only [hq, Option.some.injEq] at hq'; subst hq'
    exact hf _ (h3 _ hq)

theorem gnl_spec (r : Rect) (path : Path) (loc : Location) (i : Nat) :
    GnlSpec r path loc i (getNextLocation r path loc i) := by
  cases loc
  case left =>
    apply gnl_outside r path .left i (fun p => decide (p.x ≤ r.left))
      (fun q => if q.x ≥ r.right then .right else if q.y ≤ r.top then .top else if q.y ≥ r.bottom then .bottom else .inside)
    · intro q h; simpa [Ready] using h
    · intro q h; simp at h
      repeat' split
      all_goals simp only [Ready]
      all_goals first | omega | (rw [outsideLoc_none_iff]; simp [inRect]; omega)
  case top =>
    apply gnl_outside r path .top i (fun p => decide (p.y ≤ r.top))
      (fun q => if q.y ≥ r.bottom then .bottom else if q.x ≤ r.left then .left else if q.x ≥ r.right then .right else .inside)
    · intro q h; simpa [Ready] using h
    · intro q h; simp at h
      repeat' split
      all_goals simp only [Ready]
      all_goals first | omega | (rw [outsideLoc_none_iff]; simp [inRect]; omega)
  case right =>
    apply gnl_outside r path .right i (fun p => decide (p.x ≥ r.right))
      (fun q => if q.x ≤ r.left then .left else if q.y ≤ r.top then .top else if q.y ≥ r.bottom then .bottom else .inside)
    · intro q h; simpa [Ready] using h
    · intro q h; simp at h
      repeat' split
      all_goals simp only [Ready]
      all_goals first | omega | (rw [outsideLoc_none_iff]; simp [inRect]; omega)
  case bottom =>
    apply gnl_outside r path .bottom i (fun p => decide (p.y ≥ r.bottom))
      (fun q => if q.y ≤ r.top then .top else if q.x ≤ r.left then .left else if q.x ≥ r.right then .right else .inside)
    · intro q h; simpa [Ready] using h
    · intro q h; simp at h
      repeat' split
      all_goals simp only [Ready]
      all_goals first | omega | (rw [outsideLoc_none_iff]; simp [inRect]; omega)
  case inside =>
    simp only [getNextLocation]
    have t1 := takeWhile_all (fun p => (outsideLoc r p).isNone) (path.drop i)
    have t2 := takeWhile_length_le (fun p => (outsideLoc r p).isNone) (path.drop i)
    have t3 := takeWhile_get (fun p => (outsideLoc r p).isNone) (path.drop i)
    have t4 := takeWhile_stop (fun p => (outsideLoc r p).isNone) (path.drop i)
    have t5 := takeWhile_pos (fun p => (outsideLoc r p).isNone) (path.drop i)
    generalize (path.drop i).takeWhile (fun p => (outsideLoc r p).isNone) = run at *
    have hadds : ∀ k q, (k, q) ∈ indexFrom i run → path[k]? = some q ∧ inRect r q = true ∧ i ≤ k ∧ k < i + run.length := by
      intro k q h
      have m := mem_indexFrom i run k q h
      have g := t3 _ _ m.2.2
      rw [List.getElem?_drop] at g
      have e : i + (k - i) = k := by omega
      rw [e] at g
      have hin : q ∈ run := List.mem_of_getElem? m.2.2
      exact ⟨g, (outsideLoc_isNone_iff r q).mp (t1 q hin), m.1, m.2.1⟩
    have hadv : ∀ q, path[i]? = some q → Ready r .inside q → i + 1 ≤ i + run.length := by
      intro q hq hr
      have := t5 q (by rw [List.getElem?_drop]; simpa using hq) (by simp only [Ready] at hr; simp [hr])
      omega
    have hle : i ≤ path.length → i + run.length ≤ path.length := by
      intro h; simp at t2; omega
    cases hq : path[i + run.length]? with
    | none =>
      exact ⟨by simp, hle, by intro q hq'; simp [hq] at hq', hadv, hadds, indexFrom_pairwise i run⟩
    | some q0 =>
      refine ⟨by simp, hle, ?_, hadv, hadds, indexFrom_pairwise i run⟩
      intro q hq'; simp only [hq, Option.some.injEq] at hq'; subst hq'
      have hs := t4 q0 (by rw [List.getElem?_drop]; exact hq)
      cases ho : outsideLoc r q0 with
      | none => simp [ho] at hs
      | some l => show Ready r ((outsideLoc r q0).getD .inside) q0; rw [ho]; exact outsideLoc_ready r q0 l ho


/-! ### intersections lie in the rectangle -/

/-- `a b` is one of the four edges as `GetIntersection` passes them -/
def IsEdge (r : Rect) (a b : Pt) : Prop :=
  (a = r.c0 ∧ b = r.c3) ∨ (a = r.c0 ∧ b = r.c1) ∨ (a = r.c1 ∧ b = r.c2) ∨ (a = r.c2 ∧ b = r.c3)

/-- Hypothesis on the arithmetic: the test `CrossProduct(a, b, c) == 0` is exact when `b c` is axis-parallel
(then one of the two products is exactly zero and the other is a single correctly rounded product of two
integers, which is zero iff a factor is). -/
def CrossZeroExact (A : Arith) : Prop :=
  ∀ a b c : Pt, (b.x = c.x ∨ b.y = c.y) → (A.cross a b c = 0 ↔ crossZ a b c = 0)

/-- Hypothesis on the arithmetic: computed intersection points land in `R`. -/
def IsectIn (A : Arith) (R : Rect) : Prop :=
  ∀ a b c d q : Pt, A.isect a b c d = some q → inRect R q = true

def Subrect (r R : Rect) : Prop :=
  R.left ≤ r.left ∧ r.right ≤ R.right ∧ R.top ≤ r.top ∧ r.bottom ≤ R.bottom

theorem inRect_iff (r : Rect) (q : Pt) :
    inRect r q = true ↔ r.left ≤ q.x ∧ q.x ≤ r.right ∧ r.top ≤ q.y ∧ q.y ≤ r.bottom := by
  unfold inRect
  simp only [Bool.and_eq_true, decide_eq_true_eq]
  omega

theorem inRect_mono {r R : Rect} (h : Subrect r R) {q : Pt} (hq : inRect r q = true) : inRect R q = true := by
  unfold inRect at *; unfold Subrect at h
  simp only [Bool.and_eq_true, decide_eq_true_eq] at *
  omega

theorem isEdge_axis {r : Rect} {a b : Pt} (h : IsEdge r a b) : a.x = b.x ∨ a.y = b.y := by
  rcases h with ⟨rfl, rfl⟩ | ⟨rfl, rfl⟩ | ⟨rfl, rfl⟩ | ⟨rfl, rfl⟩ <;> simp [Rect.c0, Rect.c1, Rect.c2, Rect.c3]

theorem isEdge_left_inRect {r : Rect} (hne : r.isEmpty = false) {a b : Pt} (h : IsEdge r a b) :
    inRect r a = true ∧ inRect r b = true := by
  unfold Rect.isEmpty at hne
  simp only [Bool.or_eq_false_iff, decide_eq_false_iff_not] at hne
  rw [inRect_iff, inRect_iff]
  rcases h with ⟨rfl, rfl⟩ | ⟨rfl, rfl⟩ | ⟨rfl, rfl⟩ | ⟨rfl, rfl⟩ <;>
    simp only [Rect.c0, Rect.c1, Rect.c2, Rect.c3] <;> omega

theorem mul_pos_eq_zero {a b : Int} (h : a * b = 0) (hb : b ≠ 0) : a = 0 := by
  rcases Int.mul_eq_zero.mp h with h | h
  · exact h
  · exact absurd h hb

/-- a point on the line of an edge and within its span is in the rectangle -/
theorem edge_online_inRect {r : Rect} (hne : r.isEmpty = false) {a b q : Pt} (he : IsEdge r a b)
    (hz : crossZ q a b = 0) (hs : onSpan q a b = true) : inRect r q = true := by
  unfold Rect.isEmpty at hne
  simp only [Bool.or_eq_false_iff, decide_eq_false_iff_not] at hne
  unfold crossZ at hz
  unfold onSpan between at hs
  unfold inRect
  simp only [Bool.and_eq_true, decide_eq_true_eq]
  rcases he with ⟨rfl, rfl⟩ | ⟨rfl, rfl⟩ | ⟨rfl, rfl⟩ | ⟨rfl, rfl⟩
  · -- c0 c3 : vertical, x = left
    simp only [Rect.c0, Rect.c3] at hz hs
    have h1 : (r.left - q.x) * (r.bottom - r.top) = 0 := by
      have : (r.top - q.y) * (r.left - r.left) = 0 := by simp
      omega
    have h2 := mul_pos_eq_zero h1 (by omega)
    have : ¬ (r.top = r.bottom) := by omega
    simp [this] at hs
    have hs' := decide_eq_decide.mp hs
    omega
  · -- c0 c1 : horizontal, y = top
    simp only [Rect.c0, Rect.c1] at hz hs
    have h1 : (r.top - q.y) * (r.right - r.left) = 0 := by
      have : (r.left - q.x) * (r.top - r.top) = 0 := by simp
      omega
    have h2 := mul_pos_eq_zero h1 (by omega)
    simp at hs
    have hs' := decide_eq_decide.mp hs
    omega
  · -- c1 c2 : vertical, x = right
    simp only [Rect.c1, Rect.c2] at hz hs
    have h1 : (r.right - q.x) * (r.bottom - r.top) = 0 := by
      have : (r.top - q.y) * (r.right - r.right) = 0 := by simp
      omega
    have h2 := mul_pos_eq_zero h1 (by omega)
    have : ¬ (r.top = r.bottom) := by omega
    simp [this] at hs
    have hs' := decide_eq_decide.mp hs
    omega
  · -- c2 c3 : horizontal, y = bottom
    simp only [Rect.c2, Rect.c3] at hz hs
    have h1 : (r.bottom - q.y) * (r.left - r.right) = 0 := by
      have : (r.right - q.x) * (r.bottom - r.bottom) = 0 := by simp
      omega
    have h2 := mul_pos_eq_zero h1 (by omega)
    simp at hs
    have hs' := decide_eq_decide.mp hs
    omega

theorem segIntersection_inR {A : Arith} {r R : Rect} (hne : r.isEmpty = false) (hce : CrossZeroExact A)
    (hi : IsectIn A R) (hsub : Subrect r R) {p1 p2 p3 p4 ip : Pt} (he : IsEdge r p3 p4)
    (h : (segIntersection A p1 p2 p3 p4 ip).1 = true) :
    inRect R (segIntersection A p1 p2 p3 p4 ip).2 = true := by
  have hc := isEdge_left_inRect hne he
  have hax := isEdge_axis he
  unfold segIntersection at h ⊢
  simp only at h ⊢
  split at h
  · rename_i h1
    split at h
    · simp at h
    · split at h
      · rename_i hp
        rw [if_pos h1, if_neg (by assumption), if_pos hp]
        rcases hp with rfl | rfl
        · exact inRect_mono hsub hc.1
        · exact inRect_mono hsub hc.2
      · rename_i hp
        rw [if_pos h1, if_neg (by assumption), if_neg hp]
        exact inRect_mono hsub (edge_online_inRect hne he ((hce _ _ _ hax).mp h1) h)
  · rename_i h1
    rw [if_neg h1]
    split at h
    · rename_i h2
      rw [if_pos h2]
      split at h
      · rename_i hp
        rw [if_pos hp]
        rcases hp with rfl | rfl
        · exact inRect_mono hsub hc.1
        · exact inRect_mono hsub hc.2
      · rename_i hp
        rw [if_neg hp]
        exact inRect_mono hsub (edge_online_inRect hne he ((hce _ _ _ hax).mp h2) h)
    · rename_i h2
      rw [if_neg h2]
      split at h
      · simp at h
      · rename_i h3
        rw [if_neg h3]
        split at h
        · rename_i h4
          rw [if_pos h4]
          split <;> exact inRect_mono hsub hc.1
        · rename_i h4
          rw [if_neg h4]
          split at h
          · rename_i h5
            rw [if_pos h5]
            split <;> exact inRect_mono hsub hc.2
          · rename_i h5
            rw [if_neg h5]
            split at h
            · simp at h
            · rename_i h6
              rw [if_neg h6]
              cases hq : A.isect p1 p2 p3 p4 with
              | none => simp [hq] at h
              | some q => simpa using hi _ _ _ _ _ hq

theorem tryArms_inR {A : Arith} {r R : Rect} (hne : r.isEmpty = false) (hce : CrossZeroExact A)
    (hi : IsectIn A R) (hsub : Subrect r R) (p p2 : Pt) (l : List Arm)
    (hl : ∀ arm ∈ l, IsEdge r arm.a arm.b) (loc : Location) (ip : Pt)
    (h : (tryArms A p p2 l loc ip).1 = true) : inRect R (tryArms A p p2 l loc ip).2.2 = true := by
  induction l generalizing ip with
  | nil => simp [tryArms] at h
  | cons arm rest ih =>
    have he := hl arm (by simp)
    have hrest : ∀ a ∈ rest, IsEdge r a.a a.b := fun a ha => hl a (by simp [ha])
    unfold tryArms at h ⊢
    split
    · rename_i hg
      rw [if_pos hg] at h
      simp only at h ⊢
      split
      · rename_i hs
        exact segIntersection_inR hne hce hi hsub he hs
      · rename_i hs
        rw [if_neg hs] at h
        exact ih hrest _ h
    · rename_i hg
      rw [if_neg hg] at h
      exact ih hrest _ h

theorem arms_edges (r : Rect) (p : Pt) (loc : Location) : ∀ arm ∈ arms r p loc, IsEdge r arm.a arm.b := by
  cases loc <;> simp [arms, IsEdge]

theorem getIntersection_inR {A : Arith} {r R : Rect} (hne : r.isEmpty = false) (hce : CrossZeroExact A)
    (hi : IsectIn A R) (hsub : Subrect r R) (p p2 : Pt) (loc : Location) (ip : Pt)
    (h : (getIntersection A r p p2 loc ip).1 = true) : inRect R (getIntersection A r p p2 loc ip).2.2 = true :=
  tryArms_inR hne hce hi hsub p p2 _ (arms_edges r p loc) loc ip h


/-! ### one iteration of the main loop of `RectClipLines64::ExecuteInternal` -/

/-- `pt` is reported by a successful `GetIntersection` call for the segment from `a` towards `b` -/
def CrossingOf (A : Arith) (r : Rect) (a b pt : Pt) : Prop :=
  ∃ loc, (getIntersection A r a b loc ⟨0, 0⟩).1 = true ∧ (getIntersection A r a b loc ⟨0, 0⟩).2.2 = pt

/-- `e.k ≥ 1` and `cur`, `prv` are the vertices `k`, `k-1` -/
def SegAt (path : Path) (k : Nat) (cur prv : Pt) : Prop :=
  1 ≤ k ∧ path[k]? = some cur ∧ path[k - 1]? = some prv

/-- what every emitted `Add` call is -/
def Good (A : Arith) (r : Rect) (path : Path) (e : Emit) : Prop :=
  match e.kind with
  | .vertex => e.startNew = false ∧ path[e.k]? = some e.pt ∧ inRect r e.pt = true
  | .enter => e.startNew = true ∧ ∃ cur prv, SegAt path e.k cur prv ∧ CrossingOf A r cur prv e.pt
  | .exit => e.startNew = false ∧ ∃ cur prv, SegAt path e.k cur prv ∧ CrossingOf A r cur prv e.pt
  | .thru2 => e.startNew = false ∧ ∃ cur prv, SegAt path e.k cur prv ∧ CrossingOf A r cur prv e.pt
  | .thru1 f => e.startNew = true ∧ ∃ cur prv, SegAt path e.k cur prv ∧
      ∃ loc, (getIntersection A r prv cur loc ⟨0, 0⟩).1 = f ∧ (getIntersection A r prv cur loc ⟨0, 0⟩).2.2 = e.pt

/-- indices within `[lo, hi]` and non-decreasing -/
def Seg (lo hi : Nat) (es : List Emit) : Prop :=
  (∀ e ∈ es, lo ≤ e.k ∧ e.k ≤ hi) ∧ es.Pairwise (fun a b => a.k ≤ b.k)

def ReadyAt (r : Rect) (path : Path) (loc : Location) (i : Nat) : Prop :=
  ∀ q, path[i]? = some q → Ready r loc q

def StepOk (A : Arith) (r : Rect) (path : Path) (i : Nat) (prev : Location) : Step → Prop
  | .fault => False
  | .done es => Seg i path.length es ∧ ∀ e ∈ es, Good A r path e
  | .next es i' loc' => i ≤ i' ∧ i' ≤ path.length ∧ Seg i i' es ∧ (∀ e ∈ es, Good A r path e) ∧
      (i + 1 ≤ i' ∨ (ReadyAt r path loc' i' ∧ (ReadyAt r path prev i → i + 1 ≤ i')))

theorem vertexEmits_good {A : Arith} {r : Rect} {path : Path} {i j : Nat} {l : List (Nat × Pt)}
    (h : ∀ k q, (k, q) ∈ l → path[k]? = some q ∧ inRect r q = true ∧ i ≤ k ∧ k < j)
    (hs : l.Pairwise (fun a b => a.1 < b.1)) :
    (∀ e ∈ vertexEmits l, Good A r path e ∧ i ≤ e.k ∧ e.k < j) ∧
    (vertexEmits l).Pairwise (fun a b => a.k ≤ b.k) := by
  constructor
  · intro e he
    simp only [vertexEmits, List.mem_map] at he
    obtain ⟨⟨k, q⟩, hm, rfl⟩ := he
    have := h k q hm
    exact ⟨⟨rfl, this.1, this.2.1⟩, this.2.2⟩
  · simp only [vertexEmits, List.pairwise_map]
    exact hs.imp (fun h => Nat.le_of_lt h)

theorem seg_append_tail {lo j : Nat} {es tail : List Emit}
    (h1 : ∀ e ∈ es, lo ≤ e.k ∧ e.k < j) (hs : es.Pairwise (fun a b => a.k ≤ b.k))
    (ht : ∀ e ∈ tail, e.k = j) (hlo : lo ≤ j) (hi : Nat) (hji : j ≤ hi) : Seg lo hi (es ++ tail) := by
  constructor
  · intro e he
    rcases List.mem_append.mp he with h | h
    · have := h1 e h; omega
    · have := ht e h; omega
  · rw [List.pairwise_append]
    refine ⟨hs, ?_, ?_⟩
    · apply List.Pairwise.imp_of_mem (R := fun _ _ => True)
      · intro a b ha hb _; rw [ht a ha, ht b hb]; exact Nat.le_refl _
      · exact List.pairwise_of_forall (by simp)
    · intro a ha b hb
      have := h1 a ha; have := ht b hb; omega

theorem step_ok (A : Arith) (r : Rect) (path : Path) (i : Nat) (prev : Location)
    (hi1 : 1 ≤ i) (hin : i < path.length) : StepOk A r path i prev (step A r path i prev) := by
  have g := gnl_spec r path prev i
  unfold step
  generalize getNextLocation r path prev i = gg at g
  obtain ⟨loc, j, adds⟩ := gg
  simp only at g ⊢
  have hv := vertexEmits_good (A := A) g.adds g.sorted
  have hv2 : ∀ e ∈ vertexEmits adds, i ≤ e.k ∧ e.k < j := fun e he => (hv.1 e he).2
  have hge := g.ge
  have hle := g.le (Nat.le_of_lt hin)
  simp only at hge hle
  by_cases hj : j < path.length
  · have hj' : j - 1 < path.length := by omega
    rw [if_pos hj, List.getElem?_eq_getElem hj, List.getElem?_eq_getElem hj']
    simp only
    have hseg : SegAt path j path[j] path[j - 1] :=
      ⟨by omega, List.getElem?_eq_getElem hj, List.getElem?_eq_getElem hj'⟩
    have hready : ReadyAt r path loc j := fun q hq => g.ready q hq
    have hadv : ReadyAt r path prev i → i + 1 ≤ j := by
      intro hr
      exact g.adv _ (List.getElem?_eq_getElem hin) (hr _ (List.getElem?_eq_getElem hin))
    split
    · -- remaining outside
      refine ⟨by omega, by omega, ?_, fun e he => (hv.1 e he).1, Or.inl (by omega)⟩
      have := seg_append_tail (tail := []) hv2 hv.2 (by simp) hge (j + 1) (by omega)
      simpa using this
    · rename_i hfound
      have hfound' : (getIntersection A r path[j] path[j - 1] loc ⟨0, 0⟩).1 = true := by
        simpa using hfound
      have hcross : CrossingOf A r path[j] path[j - 1] (getIntersection A r path[j] path[j - 1] loc ⟨0, 0⟩).2.2 :=
        ⟨loc, hfound', rfl⟩
      split
      · -- entering
        refine ⟨hge, by omega, ?_, ?_, Or.inr ⟨hready, hadv⟩⟩
        · exact seg_append_tail hv2 hv.2 (by simp) hge j (Nat.le_refl _)
        · intro e he
          rcases List.mem_append.mp he with h | h
          · exact (hv.1 e h).1
          · simp only [List.mem_singleton] at h; subst h
            exact ⟨rfl, _, _, hseg, hcross⟩
      · split
        · -- passing right through
          refine ⟨hge, by omega, ?_, ?_, Or.inr ⟨hready, hadv⟩⟩
          · exact seg_append_tail hv2 hv.2 (by simp) hge j (Nat.le_refl _)
          · intro e he
            rcases List.mem_append.mp he with h | h
            · exact (hv.1 e h).1
            · simp only [List.mem_cons, List.not_mem_nil, or_false] at h
              rcases h with rfl | rfl
              · exact ⟨rfl, _, _, hseg, prev, rfl, rfl⟩
              · exact ⟨rfl, _, _, hseg, hcross⟩
        · -- exiting
          refine ⟨hge, by omega, ?_, ?_, Or.inr ⟨hready, hadv⟩⟩
          · exact seg_append_tail hv2 hv.2 (by simp) hge j (Nat.le_refl _)
          · intro e he
            rcases List.mem_append.mp he with h | h
            · exact (hv.1 e h).1
            · simp only [List.mem_singleton] at h; subst h
              exact ⟨rfl, _, _, hseg, hcross⟩
  · rw [if_neg hj]
    refine ⟨?_, fun e he => (hv.1 e he).1⟩
    have := seg_append_tail (tail := []) hv2 hv.2 (by simp) hge path.length (by omega)
    simpa using this


/-! ### the whole loop -/

theorem seg_append {lo mid hi : Nat} {es es' : List Emit} (h1 : Seg lo mid es) (h2 : Seg mid hi es')
    (hlm : lo ≤ mid) (hmh : mid ≤ hi) : Seg lo hi (es ++ es') := by
  constructor
  · intro e he
    rcases List.mem_append.mp he with h | h
    · have := h1.1 e h; omega
    · have := h2.1 e h; omega
  · rw [List.pairwise_append]
    refine ⟨h1.2, h2.2, ?_⟩
    intro a ha b hb
    have := h1.1 a ha; have := h2.1 b hb; omega

theorem loop_spec (A : Arith) (r : Rect) (path : Path) :
    ∀ (fuel i : Nat) (loc : Location), 1 ≤ i → i ≤ path.length →
      (2 * (path.length - i) + 2 ≤ fuel ∨ (2 * (path.length - i) + 1 ≤ fuel ∧ ReadyAt r path loc i)) →
      ∃ es, loop A r path fuel i loc = some es ∧ Seg i path.length es ∧ ∀ e ∈ es, Good A r path e := by
  intro fuel
  induction fuel with
  | zero => intro i loc _ _ h; omega
  | succ fuel ih =>
    intro i loc hi1 hin hf
    unfold loop
    by_cases hlt : i < path.length
    · rw [if_pos hlt]
      have hs := step_ok A r path i loc hi1 hlt
      cases hstep : step A r path i loc with
      | fault => rw [hstep] at hs; exact hs.elim
      | done es =>
        rw [hstep] at hs
        exact ⟨es, rfl, hs.1, hs.2⟩
      | next es i' loc' =>
        rw [hstep] at hs
        obtain ⟨h1, h2, h3, h4, h5⟩ := hs
        have hfuel : 2 * (path.length - i') + 2 ≤ fuel ∨ (2 * (path.length - i') + 1 ≤ fuel ∧ ReadyAt r path loc' i') := by
          rcases h5 with h5 | ⟨hr, hadv⟩
          · left; rcases hf with hf | hf <;> omega
          · rcases hf with hf | ⟨hf, hrd⟩
            · right; exact ⟨by omega, hr⟩
            · have := hadv hrd
              right; exact ⟨by omega, hr⟩
        obtain ⟨es', he', hseg', hgood'⟩ := ih i' loc' (by omega) h2 hfuel
        refine ⟨es ++ es', by simp [he'], seg_append h3 hseg' h1 h2, ?_⟩
        intro e he
        rcases List.mem_append.mp he with h | h
        · exact h4 e h
        · exact hgood' e h
    · rw [if_neg hlt]
      exact ⟨[], rfl, ⟨by simp, by simp⟩, by simp⟩

theorem onBoundary_inRect {r : Rect} {p : Pt} (h : OnBoundary r p) (hne : r.isEmpty = false) : inRect r p = true := by
  unfold Rect.isEmpty at hne
  simp only [Bool.or_eq_false_iff, decide_eq_false_iff_not] at hne
  rw [inRect_iff]; unfold OnBoundary at h; omega

theorem region_inside_inRect {r : Rect} {p : Pt} (h : region r p = .inside) : inRect r p = true := by
  rw [inRect_iff]; revert h; unfold region
  repeat' split
  all_goals simp
  all_goals omega

theorem emits_spec (A : Arith) (r : Rect) (path : Path) (hne : r.isEmpty = false) :
    ∃ es, emits A r path = some es ∧ Seg 0 path.length es ∧ ∀ e ∈ es, Good A r path e := by
  unfold emits
  rw [hne]
  by_cases hlen : path.length < 2
  · simp only [Bool.false_or, decide_eq_true_eq, hlen, if_true]
    exact ⟨[], rfl, ⟨by simp, by simp⟩, by simp⟩
  · simp only [Bool.false_or, decide_eq_true_eq, hlen, if_false]
    cases path with
    | nil => simp at hlen
    | cons p0 rest =>
      simp only
      have hlen' : 2 ≤ (p0 :: rest).length := by omega
      -- the common tail: loop from 1, possibly preceded by vertex 0
      have tail : ∀ loc, (loc = .inside → inRect r p0 = true) →
          ∃ es, (loop A r (p0 :: rest) (2 * (p0 :: rest).length + 2) 1 loc).map
              ((if loc = .inside then [(⟨0, p0, false, .vertex⟩ : Emit)] else []) ++ ·) = some es ∧
            Seg 0 (p0 :: rest).length es ∧ ∀ e ∈ es, Good A r (p0 :: rest) e := by
        intro loc hloc
        obtain ⟨es, he, hseg, hgood⟩ := loop_spec A r (p0 :: rest) (2 * (p0 :: rest).length + 2) 1 loc
          (Nat.le_refl _) (by omega) (Or.inl (by omega))
        refine ⟨_, by rw [he]; rfl, ?_, ?_⟩
        · by_cases hl : loc = .inside
          · rw [if_pos hl]
            exact seg_append (mid := 1) ⟨by simp, by simp⟩ hseg (by omega) (by omega)
          · rw [if_neg hl]
            exact ⟨fun e he => ⟨by omega, (hseg.1 e he).2⟩, hseg.2⟩
        · intro e he
          rcases List.mem_append.mp he with h | h
          · by_cases hl : loc = .inside
            · rw [if_pos hl] at h
              simp only [List.mem_singleton] at h; subst h
              exact ⟨rfl, by simp, hloc hl⟩
            · rw [if_neg hl] at h; simp at h
          · exact hgood e h
      cases hg : getLocation r p0 with
      | mk notOn loc0 =>
        simp only
        cases notOn with
        | true =>
          simp only [Bool.not_true, Bool.false_eq_true, if_false]
          apply tail
          intro hl
          have := getLocation_snd_true r p0 .inside (by rw [hg])
          rw [hg] at this
          exact region_inside_inRect (by rw [← this]; exact hl)
        | false =>
          simp only [Bool.not_false, if_true]
          have hp0 : inRect r p0 = true :=
            onBoundary_inRect ((getLocation_fst r p0 .inside).mp (by rw [hg])) hne
          cases hq : (p0 :: rest)[skipWhile (fun p => !(getLocation r p).1) (p0 :: rest) 1]? with
          | some q =>
            simp only
            apply tail
            intro _; exact hp0
          | none =>
            simp only
            have hall : ∀ x ∈ p0 :: rest, inRect r x = true := by
              have hge : (p0 :: rest).length ≤ skipWhile (fun p => !(getLocation r p).1) (p0 :: rest) 1 := by
                rcases Nat.lt_or_ge (skipWhile (fun p => !(getLocation r p).1) (p0 :: rest) 1) (p0 :: rest).length with h | h
                · rw [List.getElem?_eq_getElem h] at hq; simp at hq
                · exact h
              unfold skipWhile at hge
              have hfull := takeWhile_full (fun p => !(getLocation r p).1) ((p0 :: rest).drop 1)
                (by simp at hge ⊢; omega)
              intro x hx
              rcases List.mem_cons.mp hx with rfl | hx
              · exact hp0
              · have := hfull x (by simpa using hx)
                simp only [Bool.not_eq_eq_eq_not, Bool.not_true] at this
                exact onBoundary_inRect ((getLocation_fst r x .inside).mp this) hne
            have hv := vertexEmits_good (A := A) (r := r) (path := p0 :: rest) (i := 0) (j := (p0 :: rest).length)
              (l := indexFrom 0 (p0 :: rest))
              (by
                intro k q hm
                have m := mem_indexFrom 0 (p0 :: rest) k q hm
                have hk : (p0 :: rest)[k]? = some q := by simpa using m.2.2
                exact ⟨hk, hall q (List.mem_of_getElem? hk), by omega, by omega⟩)
              (indexFrom_pairwise 0 _)
            exact ⟨_, rfl, ⟨fun e he => ⟨by omega, Nat.le_of_lt (hv.1 e he).2.2⟩, hv.2⟩, fun e he => (hv.1 e he).1⟩


/-! ### `Add` / `GetPath`: the output is a subsequence of the emitted points -/

/-- all points of `results_` in the order they were added -/
def chrono (rs : List (List Pt)) : List Pt := (rs.reverse.map List.reverse).flatten

theorem chrono_cons (cur : List Pt) (rest : List (List Pt)) : chrono (cur :: rest) = chrono rest ++ cur.reverse := by
  simp [chrono]

theorem add_cons_true (cur : List Pt) (rest : List (List Pt)) (pt : Pt) :
    add (cur :: rest) pt true = [pt] :: cur :: rest := by simp [add]
theorem add_cons_nil_false (rest : List (List Pt)) (pt : Pt) :
    add ([] :: rest) pt false = [pt] :: rest := by simp [add]
theorem add_cons_cons_false (last : Pt) (tl : List Pt) (rest : List (List Pt)) (pt : Pt) :
    add ((last :: tl) :: rest) pt false = if last = pt then (last :: tl) :: rest else (pt :: last :: tl) :: rest := by
  simp [add]

theorem chrono_add (rs : List (List Pt)) (pt : Pt) (b : Bool) :
    (chrono (add rs pt b)).Sublist (chrono rs ++ [pt]) := by
  cases rs with
  | nil => simp [add, chrono]
  | cons cur rest =>
    cases b with
    | true => rw [add_cons_true, chrono_cons]; simp
    | false =>
      cases cur with
      | nil => rw [add_cons_nil_false]; simp [chrono_cons]
      | cons last tl =>
        rw [add_cons_cons_false]
        split
        · exact List.sublist_append_left _ _
        · rw [chrono_cons, chrono_cons]; simp

theorem chrono_foldl (es : List (Pt × Bool)) (rs : List (List Pt)) :
    (chrono (es.foldl (fun rs e => add rs e.1 e.2) rs)).Sublist (chrono rs ++ es.map (·.1)) := by
  induction es generalizing rs with
  | nil => simp
  | cons e es ih =>
    simp only [List.foldl_cons, List.map_cons]
    refine (ih (add rs e.1 e.2)).trans ?_
    have := (chrono_add rs e.1 e.2).append (List.Sublist.refl (es.map (·.1)))
    simpa using this

theorem flatten_filter_sublist (c : List Pt → Bool) (l : List (List Pt)) :
    ((l.filter c).flatten).Sublist l.flatten := by
  induction l with
  | nil => simp
  | cons a l ih =>
    rw [List.filter_cons]
    split
    · simpa using (List.Sublist.refl a).append ih
    · simp only [List.flatten_cons]
      exact ih.trans (List.sublist_append_right _ _)

theorem assemble_sublist (es : List Emit) : ((assemble es).flatten).Sublist (es.map (·.pt)) := by
  unfold assemble getPaths addAll
  refine (flatten_filter_sublist _ _).trans ?_
  have := chrono_foldl (es.map (fun e => (e.pt, e.startNew))) []
  simpa [chrono, List.map_map, Function.comp_def] using this

theorem mem_assemble {es : List Emit} {piece : List Pt} {p : Pt} (hp : piece ∈ assemble es) (h : p ∈ piece) :
    ∃ e ∈ es, e.pt = p := by
  have : p ∈ (assemble es).flatten := List.mem_flatten.mpr ⟨piece, hp, h⟩
  have := (assemble_sublist es).subset this
  simpa using this

/-- number of rings: `Add` opens a ring for the very first point and for every later `start_new` -/
theorem add_length (rs : List (List Pt)) (pt : Pt) (b : Bool) :
    (add rs pt b).length = if rs = [] then 1 else if b then rs.length + 1 else rs.length := by
  cases rs with
  | nil => simp [add]
  | cons cur rest =>
    cases b with
    | true => rw [add_cons_true]; simp
    | false =>
      cases cur with
      | nil => rw [add_cons_nil_false]; simp
      | cons last tl => rw [add_cons_cons_false]; split <;> simp

theorem foldl_add_length (es : List (Pt × Bool)) (rs : List (List Pt)) (h : rs ≠ []) :
    (es.foldl (fun rs e => add rs e.1 e.2) rs).length = rs.length + (es.filter (·.2)).length := by
  induction es generalizing rs with
  | nil => simp
  | cons e es ih =>
    have hne : add rs e.1 e.2 ≠ [] := by
      intro h0
      have := add_length rs e.1 e.2
      rw [h0, if_neg h] at this
      cases hb : e.2 <;> simp [hb] at this
      exact h (List.length_eq_zero_iff.mp this.symm)
    simp only [List.foldl_cons]
    rw [ih _ hne, add_length, if_neg h, List.filter_cons]
    cases e.2 <;> simp <;> omega

theorem addAll_length (e : Pt × Bool) (es : List (Pt × Bool)) :
    (addAll (e :: es)).length = 1 + (es.filter (·.2)).length := by
  unfold addAll
  simp only [List.foldl_cons]
  rw [foldl_add_length _ _ (by simp [add])]
  simp [add]

end Clipper.Lemmas.RC
