/-
`ProcessHorzJoins`, same-ring branch, on a well-formed heap: the result is well formed (one of the two rings is owned by `or1`,
the other by the new record; which one depends on `or1->pts` and, under `using_polytree_`, on `Path1InsidePath2`).
Helper file of `Props/C02Horz.lean`.  Core Lean only.
-/
import ClipperVerif.Lemmas.HorzJoinsMerge
namespace Clipper.Model.HorzJoins
open Clipper

/-- how to re-establish `RecsOK` after a ring `c` owned by `r` has been cut into `A` (now owned by `r`) and `B` (owned by the
new record `N`) -/
theorem recsOK_split {H H' : Heap} {c A B : List Nat} {rest : List (List Nat)} {r pA pB : Nat}
    (K : RecsOK H (c :: rest)) (hdisj : ∀ c' ∈ rest, ∀ a ∈ c', a ∉ c)
    {pr : Nat} (hrp : (H.recs[r]?).bind (·.pts) = some pr) (hprc : pr ∈ c)
    (hold : ∀ k, k ≠ r → recView H k ≠ none → recView H' k = recView H k ∧ recPts H' k = recPts H k)
    (hnew : ∀ k, recView H' k ≠ none → k = H.recs.size ∨ recView H k ≠ none)
    (hrlive : ∃ rc, H'.recs[r]? = some rc ∧ rc.pts = some pA) (hpA : pA ∈ A)
    (hNlive : ∃ rc, H'.recs[H.recs.size]? = some rc ∧ rc.pts = some pB) (hpB : pB ∈ B)
    (hoA : ∃ o, orecOf H' pA = some o) (hoB : ∃ o, orecOf H' pB = some o)
    (hA : ∀ i ∈ A, ∀ o, orecOf H' i = some o → Res H' o r) (hB : ∀ i ∈ B, ∀ o, orecOf H' i = some o → Res H' o H.recs.size)
    (hrest : ∀ i, i ∉ c → orecOf H' i = orecOf H i) :
    RecsOK H' (A :: B :: rest) := by
  obtain ⟨rcr, hrcr, hrcrp⟩ : ∃ rc, H.recs[r]? = some rc ∧ rc.pts.isSome = true := by
    cases a : H.recs[r]? with
    | none => simp [a] at hrp
    | some rc => simp [a] at hrp; exact ⟨rc, rfl, by rw [hrp]; rfl⟩
  -- resolution to an old record other than r is kept
  have keep : ∀ o k, k ≠ r → Res H o k → Res H' o k := by
    intro o k hk hres
    apply hres.congr
    intro d hdne hd
    have hdr : d ≠ r := by
      rcases hd with ⟨rc, hrc, hdead⟩ | rfl
      · intro e; subst e; rw [hrcr] at hrc; cases hrc; rw [hrcrp] at hdead; cases hdead
      · exact hk
    exact (hold d hdr hdne).1
  constructor
  · intro c' hc'
    rcases List.mem_cons.1 hc' with rfl | hc'
    · obtain ⟨rc, hrc, hp⟩ := hrlive
      exact ⟨r, pA, by rw [hrc]; simp [hp], hpA, fun i hi o hio => res_iff.2 (hA i hi o hio)⟩
    rcases List.mem_cons.1 hc' with rfl | hc'
    · obtain ⟨rc, hrc, hp⟩ := hNlive
      exact ⟨H.recs.size, pB, by rw [hrc]; simp [hp], hpB, fun i hi o hio => res_iff.2 (hB i hi o hio)⟩
    · obtain ⟨k, p, hp, hpc, hall⟩ := K.ring_rec c' (List.mem_cons_of_mem _ hc')
      have hpnc : p ∉ c := hdisj c' hc' p hpc
      obtain ⟨rck, hrck, hrckp⟩ : ∃ rck, H.recs[k]? = some rck ∧ rck.pts = some p := by
        cases a : H.recs[k]? with
        | none => simp [a] at hp
        | some rc => simp [a] at hp; exact ⟨rc, rfl, hp⟩
      have hkr : k ≠ r := by
        intro e; subst e
        rw [hrp] at hp; cases hp
        exact hpnc hprc
      refine ⟨k, p, ?_, hpc, ?_⟩
      · have := (hold k hkr (by simp [recView, hrck])).2
        unfold recPts at this
        rw [hrck] at this
        cases a : H'.recs[k]? with
        | none => simp [a] at this
        | some rc' => simp [a] at this ⊢; rw [this]; exact hrckp
      · intro i hi o hio
        rw [hrest i (hdisj c' hc' i hi)] at hio
        exact res_iff.2 (keep o k hkr (res_iff.1 (hall i hi o hio)))
  · intro k rc p hrc hp
    by_cases hkr : k = r
    · subst hkr
      obtain ⟨rc', hrc', hp'⟩ := hrlive
      rw [hrc] at hrc'; cases hrc'; rw [hp] at hp'; cases hp'
      obtain ⟨o, ho⟩ := hoA
      exact ⟨o, ho, res_iff.2 (hA _ hpA o ho)⟩
    · rcases hnew k (by simp [recView, hrc]) with hkN | hkold
      · subst hkN
        obtain ⟨rc', hrc', hp'⟩ := hNlive
        rw [hrc] at hrc'; cases hrc'; rw [hp] at hp'; cases hp'
        obtain ⟨o, ho⟩ := hoB
        exact ⟨o, ho, res_iff.2 (hB _ hpB o ho)⟩
      · -- an old record: its pts are unchanged and lie outside c
        have hh := (hold k hkr hkold).2
        unfold recPts at hh
        rw [hrc] at hh
        obtain ⟨rc0, hrc0, hp0⟩ : ∃ rc0, H.recs[k]? = some rc0 ∧ rc0.pts = some p := by
          cases b : H.recs[k]? with
          | none => simp [b] at hh
          | some rc0 => simp [b] at hh; exact ⟨rc0, rfl, by rw [← hh, hp]⟩
        obtain ⟨o, ho, hre⟩ := K.rec_ring k rc0 p hrc0 hp0
        have hpnc : p ∉ c := by
          intro hpc
          obtain ⟨r', p', hp', hp'c, hall'⟩ := K.ring_rec c (by simp)
          have h1 := res_iff.1 (hall' p hpc o ho)
          have h2 := res_iff.1 hre
          have e1 : r' = k := h1.det h2
          subst e1
          -- the record of c has pts on c: it is r
          have : r' = r := by
            obtain ⟨rcx, hrcx, hpx⟩ : ∃ rcx, H.recs[r]? = some rcx ∧ rcx.pts = some pr := by
              cases a : H.recs[r]? with
              | none => simp [a] at hrp
              | some rcx => simp [a] at hrp; exact ⟨rcx, rfl, hrp⟩
            obtain ⟨o2, ho2, hre2⟩ := K.rec_ring r rcx pr hrcx hpx
            exact (res_iff.1 (hall' pr hprc o2 ho2)).det (res_iff.1 hre2)
          exact hkr this
        exact ⟨o, by rw [hrest p hpnc]; exact ho, res_iff.2 (keep o k hkr (res_iff.1 hre))⟩

/-- `or2 = NewOutRec(); or2->pts = op1b; FixOutRecPts(or2);` when `op1b = x0` heads the ring `x0 :: X'` -/
theorem split_prefix {H H1 H2 : Heap} {rs : List (List Nat)} {x0 : Nat} {X' : List Nat} (R : Rings H rs) (hc : (x0 :: X') ∈ rs)
    (h1 : (newOutRec H).1.updRec (newOutRec H).2 (fun x => { x with pts := some x0 }) = .ok H1)
    (h2 : fixOutRecPts H1 (newOutRec H).2 = .ok H2) :
    SameLinks H H2 ∧ H2.recs.size = H.recs.size + 1 ∧ (∀ k, k < H.recs.size → H2.recs[k]? = H.recs[k]?) ∧
    H2.recs[H.recs.size]? = some { pts := some x0 } ∧
    orecOf H2 = (fun i => if i ∈ x0 :: X' then some H.recs.size else orecOf H i) := by
  have hN : (newOutRec H).2 = H.recs.size := rfl
  rw [hN] at h1 h2
  obtain ⟨_, o1, z1, g1⟩ := updRec_ok h1
  have ops1 : H1.ops = H.ops := o1
  have sl1 : SameLinks H H1 := SameLinks.of_ops_eq ops1
  have R1 : Rings H1 rs := R.of_sameLinks sl1
  have hrcN : H1.recs[H.recs.size]? = some { pts := some x0 } := by
    rw [g1]; simp [newOutRec]
  obtain ⟨H2', e2, sl2, er2, eo2⟩ := fixOutRecPts_spec R1 hc hrcN rfl
  rw [h2] at e2; cases e2
  refine ⟨sl1.trans sl2, by rw [er2, z1]; simp [newOutRec], ?_, by rw [er2]; exact hrcN, ?_⟩
  · intro k hk
    rw [er2, g1 k, if_neg (Nat.ne_of_lt hk)]
    simp [newOutRec, Array.getElem?_push, Nat.ne_of_lt hk]
  · rw [eo2, orecOf_of_ops ops1]

/-- `if (or1->pts->outrec == or2) { or1->pts = j.op1; or1->pts->outrec = or1; }` -/
theorem keepPts_spec {H H' : Heap} {o1 o2 op1 p : Nat} {rc : ORec} (hrc : H.recs[o1]? = some rc) (hp : rc.pts = some p)
    {o : Nat} (ho : orecOf H p = some o) (h : keepPts H o1 o2 op1 = .ok H') :
    (o = o2 ∧ SameLinks H H' ∧ H'.recs.size = H.recs.size ∧ (∀ k, k ≠ o1 → H'.recs[k]? = H.recs[k]?) ∧
      H'.recs[o1]? = some { rc with pts := some op1 } ∧ orecOf H' = upd (orecOf H) op1 o1 ∧ op1 < H.ops.size) ∨
    (o ≠ o2 ∧ H' = H) := by
  unfold keepPts at h
  have hpr : ptsOfRec H o1 = .ok p := by simp [ptsOfRec, Heap.orec, hrc, hp]
  obtain ⟨np, hnp, hnpo⟩ := orecOf_some.1 ho
  simp only [hpr, node_ok.2 hnp, hnpo] at h
  by_cases e : o = o2
  · left
    simp only [e, if_true] at h
    cases hu : H.updRec o1 (fun x => { x with pts := some op1 }) with
    | error er => simp [hu] at h
    | ok H1 =>
      simp only [hu] at h
      obtain ⟨_, ops1, z1, g1⟩ := updRec_ok hu
      obtain ⟨en, ep, eo, ept, er, es⟩ := upd_orec_eqs h
      have hlt := (updNode_ok h).1
      refine ⟨e, (sameLinks_updRec hu).trans (sameLinks_updOrec h), by rw [er, z1], ?_, ?_, by rw [eo, orecOf_of_ops ops1], by rw [← ops1]; exact hlt⟩
      · intro k hk; rw [er, g1 k, if_neg hk]
      · rw [er, g1 o1, if_pos rfl, hrc]; rfl
  · right
    simp only [e, if_false, Except.ok.injEq] at h
    exact ⟨e, h.symm⟩

theorem RecsOK.perm {H : Heap} {rs rs' : List (List Nat)} (K : RecsOK H rs) (h : ∀ c, c ∈ rs' → c ∈ rs) : RecsOK H rs' :=
  ⟨fun c hc => K.ring_rec c (h c hc), K.rec_ring⟩

theorem RecsOK.of_eqs {H H' : Heap} {rs : List (List Nat)} (K : RecsOK H rs) (hr : H'.recs = H.recs) (ho : orecOf H' = orecOf H) :
    RecsOK H' rs := by
  constructor
  · intro c hc
    obtain ⟨r, p, a, b, d⟩ := K.ring_rec c hc
    exact ⟨r, p, by rw [hr]; exact a, b, fun i hi o hio => by rw [realOf_congr hr]; exact d i hi o (by rw [← ho]; exact hio)⟩
  · intro r rc p hrc hp
    rw [hr] at hrc
    obtain ⟨o, a, b⟩ := K.rec_ring r rc p hrc hp
    exact ⟨o, by rw [ho]; exact a, by rw [realOf_congr hr]; exact b⟩

/-- the state after `keepPts` in the same-ring branch, and the conclusion for every continuation that only writes `owner` and
`splits` fields: `or1` owns the ring containing `op1`, the new record owns `X` -/
theorem split_noswap_recsOK {Hs H1 H2 H3 H' : Heap} {c R1 X' : List Nat} {rest : List (List Nat)} {r pr x0 op1 : Nat}
    (R : Rings Hs (R1 :: (x0 :: X') :: rest)) (K : RecsOK Hs (c :: rest))
    (hmem : ∀ i, i ∈ c ↔ i ∈ R1 ∨ i ∈ x0 :: X') (hop1 : op1 ∈ R1)
    (hrp : (Hs.recs[r]?).bind (·.pts) = some pr) (hprc : pr ∈ c)
    (hcr : ∀ i ∈ c, ∀ o, orecOf Hs i = some o → Res Hs o r)
    (h1 : (newOutRec Hs).1.updRec (newOutRec Hs).2 (fun x => { x with pts := some x0 }) = .ok H1)
    (h2 : fixOutRecPts H1 (newOutRec Hs).2 = .ok H2)
    (h3 : keepPts H2 r (newOutRec Hs).2 op1 = .ok H3)
    (hops : H'.ops = H3.ops) (hsz : H'.recs.size = H3.recs.size)
    (hview : ∀ k, recView H' k = recView H3 k ∧ recPts H' k = recPts H3 k) :
    RecsOK H' (R1 :: (x0 :: X') :: rest) := by
  have hN : (newOutRec Hs).2 = Hs.recs.size := rfl
  obtain ⟨sl2, z2, g2, gN2, eo2⟩ := split_prefix (x0 := x0) (X' := X') R (by simp) h1 h2
  rw [hN] at h3
  obtain ⟨rcr, hrcr, hrcrp⟩ : ∃ rc, Hs.recs[r]? = some rc ∧ rc.pts = some pr := by
    cases a : Hs.recs[r]? with
    | none => simp [a] at hrp
    | some rc => simp [a] at hrp; exact ⟨rc, rfl, hrp⟩
  have hrlt : r < Hs.recs.size := lt_of_rec hrcr
  have hdisj : ∀ c' ∈ rest, ∀ a ∈ c', a ∉ c := by
    intro c' hc' a ha hac
    have hnd := R.nodup
    have : a ∈ rest.flatten := List.mem_flatten.2 ⟨c', hc', ha⟩
    simp only [List.flatten_cons] at hnd
    rcases (hmem a).1 hac with h | h <;> grind [List.nodup_append]
  have hR1X : ∀ a ∈ R1, a ∉ x0 :: X' := by
    intro a ha hb
    have hnd := R.nodup
    simp only [List.flatten_cons] at hnd
    grind [List.nodup_append]
  -- validity of the nodes of c in Hs, hence an outrec for each
  have hvalid : ∀ i, i ∈ c → ∃ o, orecOf Hs i = some o := by
    intro i hi
    have hlt : i < Hs.ops.size := by
      rcases (hmem i).1 hi with h | h
      · exact R.mem_lt (by simp) h
      · exact R.mem_lt (by simp) h
    obtain ⟨n, hn⟩ := node_of_lt hlt
    exact ⟨n.orec, orecOf_some.2 ⟨n, hn, rfl⟩⟩
  obtain ⟨opr, hopr⟩ := hvalid pr hprc
  have hopr_lt : opr < Hs.recs.size := by
    obtain ⟨l, hl⟩ := hcr pr hprc opr hopr
    cases hl with
    | live h _ => exact lt_of_rec h
    | dead h _ _ _ => exact lt_of_rec h
  -- the record of r in H2
  have hr2 : H2.recs[r]? = some rcr := by rw [g2 r hrlt]; exact hrcr
  have hopr2 : orecOf H2 pr = some (if pr ∈ x0 :: X' then Hs.recs.size else opr) := by
    rw [eo2]; by_cases hx : pr ∈ x0 :: X' <;> simp [hx, hopr]
  -- the two outcomes of keepPts
  rcases keepPts_spec hr2 hrcrp hopr2 h3 with ⟨hcase, sl3, z3, g3, gr3, eo3, hop1lt⟩ | ⟨hcase, e3⟩
  · -- or1->pts was on X: it moves to op1
    have hprX : pr ∈ x0 :: X' := by
      by_cases hx : pr ∈ x0 :: X'
      · exact hx
      · simp only [hx, if_false] at hcase; omega
    apply recsOK_split (pA := op1) (pB := x0) K hdisj hrp hprc
    · intro k hkr hk
      have hklt : k < Hs.recs.size := by
        unfold recView at hk
        cases a : Hs.recs[k]? with
        | none => simp [a] at hk
        | some rc => exact lt_of_rec a
      have : H3.recs[k]? = Hs.recs[k]? := by rw [g3 k hkr, g2 k hklt]
      rw [(hview k).1, (hview k).2]
      unfold recView recPts; rw [this]; exact ⟨rfl, rfl⟩
    · intro k hk
      rw [(hview k).1] at hk
      have hklt : k < H3.recs.size := by
        unfold recView at hk
        cases a : H3.recs[k]? with
        | none => simp [a] at hk
        | some rc => exact lt_of_rec a
      rw [z3, z2] at hklt
      by_cases e : k = Hs.recs.size
      · exact Or.inl e
      · right
        have : k < Hs.recs.size := by omega
        unfold recView; simp [this]
    · have := (hview r).2
      unfold recPts at this
      rw [gr3] at this
      cases a : H'.recs[r]? with
      | none => simp [a] at this
      | some rc' => simp [a] at this; exact ⟨rc', rfl, this⟩
    · exact hop1
    · have := (hview Hs.recs.size).2
      unfold recPts at this
      rw [g3 _ (Nat.ne_of_gt hrlt), gN2] at this
      cases a : H'.recs[Hs.recs.size]? with
      | none => simp [a] at this
      | some rc' => simp [a] at this; exact ⟨rc', rfl, this⟩
    · simp
    · rw [orecOf_of_ops hops, eo3]; exact ⟨r, by simp⟩
    · rw [orecOf_of_ops hops, eo3, eo2]
      have : x0 ≠ op1 := fun e => hR1X op1 hop1 (by rw [← e]; simp)
      rw [upd_ne _ _ this]; exact ⟨Hs.recs.size, by simp⟩
    · -- A = R1 resolves to r
      intro i hi o hio
      rw [orecOf_of_ops hops, eo3] at hio
      have hrlive' : Res H' r r := by
        have := (hview r).1
        unfold recView at this
        rw [gr3] at this
        cases a : H'.recs[r]? with
        | none => simp [a] at this
        | some rc' => simp [a] at this; exact res_self a this.1
      by_cases hi1 : i = op1
      · subst hi1; simp only [upd_same, Option.some.injEq] at hio; subst hio; exact hrlive'
      · rw [upd_ne _ _ hi1, eo2] at hio
        simp only [hR1X i hi, if_false] at hio
        have hres := hcr i ((hmem i).2 (Or.inl hi)) o hio
        apply hres.congr
        intro d hdne hd
        have hdlt : d < Hs.recs.size := by
          unfold recView at hdne
          cases a : Hs.recs[d]? with
          | none => simp [a] at hdne
          | some rc => exact lt_of_rec a
        rw [(hview d).1]
        by_cases hdr : d = r
        · subst hdr
          unfold recView; rw [gr3, hrcr]; simp [hrcrp]
        · unfold recView; rw [g3 d hdr, g2 d hdlt]
    · -- B = X resolves to the new record
      intro i hi o hio
      rw [orecOf_of_ops hops, eo3] at hio
      have hi1 : i ≠ op1 := fun e => hR1X op1 hop1 (e ▸ hi)
      rw [upd_ne _ _ hi1, eo2] at hio
      simp only [hi, if_true, Option.some.injEq] at hio; subst hio
      have := (hview Hs.recs.size).1
      unfold recView at this
      rw [g3 _ (Nat.ne_of_gt hrlt), gN2] at this
      cases a : H'.recs[Hs.recs.size]? with
      | none => simp [a] at this
      | some rc' => simp [a] at this; exact res_self a this.1
    · intro i hi
      rw [orecOf_of_ops hops, eo3, eo2]
      have h1' : i ≠ op1 := fun e => hi ((hmem i).2 (Or.inl (e ▸ hop1)))
      have h2' : i ∉ x0 :: X' := fun h => hi ((hmem i).2 (Or.inr h))
      rw [upd_ne _ _ h1']; simp only [h2', if_false]
  · -- or1->pts stays
    rw [e3] at hview hops hsz
    have hprX : pr ∉ x0 :: X' := by
      intro hx; simp only [hx, if_true] at hcase; exact hcase rfl
    have hprR1 : pr ∈ R1 := by
      rcases (hmem pr).1 hprc with h | h
      · exact h
      · exact absurd h hprX
    apply recsOK_split (pA := pr) (pB := x0) K hdisj hrp hprc
    · intro k hkr hk
      have hklt : k < Hs.recs.size := by
        unfold recView at hk
        cases a : Hs.recs[k]? with
        | none => simp [a] at hk
        | some rc => exact lt_of_rec a
      rw [(hview k).1, (hview k).2]
      unfold recView recPts; rw [g2 k hklt]; exact ⟨rfl, rfl⟩
    · intro k hk
      rw [(hview k).1] at hk
      have hklt : k < H2.recs.size := by
        unfold recView at hk
        cases a : H2.recs[k]? with
        | none => simp [a] at hk
        | some rc => exact lt_of_rec a
      rw [z2] at hklt
      by_cases e : k = Hs.recs.size
      · exact Or.inl e
      · right
        have : k < Hs.recs.size := by omega
        unfold recView; simp [this]
    · have := (hview r).2
      unfold recPts at this
      rw [hr2] at this
      cases a : H'.recs[r]? with
      | none => simp [a] at this
      | some rc' => simp [a] at this; exact ⟨rc', rfl, by rw [this, hrcrp]⟩
    · exact hprR1
    · have := (hview Hs.recs.size).2
      unfold recPts at this
      rw [gN2] at this
      cases a : H'.recs[Hs.recs.size]? with
      | none => simp [a] at this
      | some rc' => simp [a] at this; exact ⟨rc', rfl, this⟩
    · simp
    · rw [orecOf_of_ops hops, eo2]; simp only [hprX, if_false]; exact ⟨opr, hopr⟩
    · rw [orecOf_of_ops hops, eo2]; exact ⟨Hs.recs.size, by simp⟩
    · intro i hi o hio
      rw [orecOf_of_ops hops, eo2] at hio
      simp only [hR1X i hi, if_false] at hio
      have hres := hcr i ((hmem i).2 (Or.inl hi)) o hio
      apply hres.congr
      intro d hdne hd
      have hdlt : d < Hs.recs.size := by
        unfold recView at hdne
        cases a : Hs.recs[d]? with
        | none => simp [a] at hdne
        | some rc => exact lt_of_rec a
      rw [(hview d).1]
      unfold recView; rw [g2 d hdlt]
    · intro i hi o hio
      rw [orecOf_of_ops hops, eo2] at hio
      simp only [hi, if_true, Option.some.injEq] at hio; subst hio
      have := (hview Hs.recs.size).1
      unfold recView at this
      rw [gN2] at this
      cases a : H'.recs[Hs.recs.size]? with
      | none => simp [a] at this
      | some rc' => simp [a] at this; exact res_self a this.1
    · intro i hi
      rw [orecOf_of_ops hops, eo2]
      have h2' : i ∉ x0 :: X' := fun h => hi ((hmem i).2 (Or.inr h))
      simp only [h2', if_false]

/-- the swap of the split branch under `using_polytree_` (`Path1InsidePath2(or1->pts, or2->pts)`): `or1` takes the ring `X`,
the new record the ring containing `op1`; both rings are relabelled by `FixOutRecPts` -/
theorem split_swap_recsOK {Hs H3 H4 H' : Heap} {c R1 X' : List Nat} {rest : List (List Nat)} {r pr x0 p1 : Nat} {b : Bool}
    (R3 : Rings H3 (R1 :: (x0 :: X') :: rest)) (K : RecsOK Hs (c :: rest))
    (hmem : ∀ i, i ∈ c ↔ i ∈ R1 ∨ i ∈ x0 :: X')
    (hrp : (Hs.recs[r]?).bind (·.pts) = some pr) (hprc : pr ∈ c)
    (g3 : ∀ k, k ≠ r → k < Hs.recs.size → H3.recs[k]? = Hs.recs[k]?) (z3 : H3.recs.size = Hs.recs.size + 1)
    {rc3 rcN : ORec} (hr3 : H3.recs[r]? = some rc3) (hp1 : p1 ∈ R1)
    (hN3 : H3.recs[Hs.recs.size]? = some rcN)
    (ho3 : ∀ i, i ∉ c → orecOf H3 i = orecOf Hs i)
    (h : splitOwnerChoice H3 r Hs.recs.size p1 x0 true b = .ok H4)
    (hops : H'.ops = H4.ops) (hview : ∀ k, recView H' k = recView H4 k ∧ recPts H' k = recPts H4 k) :
    RecsOK H' (R1 :: (x0 :: X') :: rest) := by
  have hrlt : r < Hs.recs.size := by
    cases a : Hs.recs[r]? with
    | none => simp [a] at hrp
    | some rc => exact lt_of_rec a
  have hrN : r ≠ Hs.recs.size := Nat.ne_of_lt hrlt
  unfold splitOwnerChoice at h
  simp only [if_true] at h
  cases e1 : H3.updRec r (fun x => { x with pts := some x0 }) with
  | error e => simp [e1] at h
  | ok Ha =>
    simp only [e1] at h
    cases e2 : Ha.updRec Hs.recs.size (fun x => { x with pts := some p1 }) with
    | error e => simp [e2] at h
    | ok Hb =>
      simp only [e2] at h
      cases e3 : fixOutRecPts Hb r with
      | error e => simp [e3] at h
      | ok Hc =>
        simp only [e3] at h
        cases e4 : fixOutRecPts Hc Hs.recs.size with
        | error e => simp [e4] at h
        | ok Hd =>
          simp only [e4] at h
          obtain ⟨_, oa, za, ga⟩ := updRec_ok e1
          obtain ⟨_, ob, zb, gb⟩ := updRec_ok e2
          have slb : SameLinks H3 Hb := (SameLinks.of_ops_eq oa).trans (SameLinks.of_ops_eq ob)
          have Rb : Rings Hb (R1 :: (x0 :: X') :: rest) := R3.of_sameLinks slb
          have hbr : Hb.recs[r]? = some { rc3 with pts := some x0 } := by
            rw [gb r, if_neg hrN, ga r, if_pos rfl, hr3]; rfl
          have hbN : Hb.recs[Hs.recs.size]? = some { rcN with pts := some p1 } := by
            rw [gb _, if_pos rfl, ga _, if_neg (Ne.symm hrN), hN3]; rfl
          obtain ⟨Hc', e3', slc, erc, eoc⟩ := fixOutRecPts_spec (a := x0) (t := X') Rb (by simp) hbr rfl
          rw [e3] at e3'; cases e3'
          have Rc : Rings Hc (R1 :: (x0 :: X') :: rest) := Rb.of_sameLinks slc
          -- R1 listed from p1
          obtain ⟨pre, post, hR1⟩ := List.append_of_mem hp1
          have Rc' : Rings Hc ((p1 :: (post ++ pre)) :: (x0 :: X') :: rest) := by
            have := (hR1 ▸ Rc).rot_head
            simpa using this
          have hcN : Hc.recs[Hs.recs.size]? = some { rcN with pts := some p1 } := by rw [erc]; exact hbN
          obtain ⟨Hd', e4', sld, erd, eod⟩ := fixOutRecPts_spec (a := p1) (t := post ++ pre) Rc' (by simp) hcN rfl
          rw [e4] at e4'; cases e4'
          obtain ⟨_, o4, z4, g4⟩ := updRec_ok h
          have hR1mem : ∀ i, i ∈ p1 :: (post ++ pre) ↔ i ∈ R1 := by
            intro i; rw [hR1]; simp only [List.mem_cons, List.mem_append]; grind
          -- the final orec and record table
          have eo' : orecOf H' = fun i => if i ∈ R1 then some Hs.recs.size else if i ∈ x0 :: X' then some r else orecOf H3 i := by
            rw [orecOf_of_ops hops, orecOf_of_ops o4, eod, eoc, orecOf_of_ops ob, orecOf_of_ops oa]
            funext i
            by_cases h1 : i ∈ R1
            · simp [(hR1mem i).2 h1, h1]
            · have : i ∉ p1 :: (post ++ pre) := fun h => h1 ((hR1mem i).1 h)
              simp only [this, h1, if_false]
          have hrec : ∀ k, k ≠ r → k ≠ Hs.recs.size → H4.recs[k]? = H3.recs[k]? := by
            intro k h1 h2
            rw [g4 k, if_neg h2, erd, erc, gb k, if_neg h2, ga k, if_neg h1]
          have hrec_r : H4.recs[r]? = some { rc3 with pts := some x0 } := by
            rw [g4 r, if_neg hrN, erd, erc]; exact hbr
          have hrec_N : H4.recs[Hs.recs.size]? = some { rcN with pts := some p1, owner := some r } := by
            rw [g4 _, if_pos rfl, erd, erc, hbN]; rfl
          have hnd := R3.nodup
          have hR1X : ∀ a ∈ R1, a ∉ x0 :: X' := by
            intro a ha hb
            simp only [List.flatten_cons] at hnd
            grind [List.nodup_append]
          have hdisj : ∀ c' ∈ rest, ∀ a ∈ c', a ∉ c := by
            intro c' hc' a ha hac
            have : a ∈ rest.flatten := List.mem_flatten.2 ⟨c', hc', ha⟩
            simp only [List.flatten_cons] at hnd
            rcases (hmem a).1 hac with h | h <;> grind [List.nodup_append]
          have key := recsOK_split (H := Hs) (H' := H') (A := x0 :: X') (B := R1) (pA := x0) (pB := p1) K hdisj hrp hprc
            (by
              intro k hkr hk
              have hklt : k < Hs.recs.size := by
                unfold recView at hk
                cases a : Hs.recs[k]? with
                | none => simp [a] at hk
                | some rc => exact lt_of_rec a
              rw [(hview k).1, (hview k).2]
              unfold recView recPts
              rw [hrec k hkr (Nat.ne_of_lt hklt), g3 k hkr hklt]; exact ⟨rfl, rfl⟩)
            (by
              intro k hk
              rw [(hview k).1] at hk
              have hklt : k < H4.recs.size := by
                unfold recView at hk
                cases a : H4.recs[k]? with
                | none => simp [a] at hk
                | some rc => exact lt_of_rec a
              rw [z4, erd, erc, zb, za, z3] at hklt
              by_cases e : k = Hs.recs.size
              · exact Or.inl e
              · right
                have : k < Hs.recs.size := by omega
                unfold recView; simp [this])
            (by
              have := (hview r).2
              unfold recPts at this
              rw [hrec_r] at this
              cases a : H'.recs[r]? with
              | none => simp [a] at this
              | some rc' => simp [a] at this; exact ⟨rc', rfl, this⟩)
            (by simp)
            (by
              have := (hview Hs.recs.size).2
              unfold recPts at this
              rw [hrec_N] at this
              cases a : H'.recs[Hs.recs.size]? with
              | none => simp [a] at this
              | some rc' => simp [a] at this; exact ⟨rc', rfl, this⟩)
            hp1
            (by rw [eo']; have : x0 ∉ R1 := fun h => hR1X x0 h (by simp); exact ⟨r, by simp [this]⟩)
            (by rw [eo']; exact ⟨Hs.recs.size, by simp [hp1]⟩)
            (by
              intro i hi o hio
              rw [eo'] at hio
              have : i ∉ R1 := fun h => hR1X i h hi
              simp only [this, if_false, hi, if_true, Option.some.injEq] at hio; subst hio
              have := (hview r).1
              unfold recView at this
              rw [hrec_r] at this
              cases a : H'.recs[r]? with
              | none => simp [a] at this
              | some rc' => simp [a] at this; exact res_self a this.1)
            (by
              intro i hi o hio
              rw [eo'] at hio
              simp only [hi, if_true, Option.some.injEq] at hio; subst hio
              have := (hview Hs.recs.size).1
              unfold recView at this
              rw [hrec_N] at this
              cases a : H'.recs[Hs.recs.size]? with
              | none => simp [a] at this
              | some rc' => simp [a] at this; exact res_self a this.1)
            (by
              intro i hi
              rw [eo']
              have h1 : i ∉ R1 := fun h => hi ((hmem i).2 (Or.inl h))
              have h2 : i ∉ x0 :: X' := fun h => hi ((hmem i).2 (Or.inr h))
              simp only [h1, h2, if_false]
              exact ho3 i hi)
          exact key.perm (by intro c' hc'; simp only [List.mem_cons] at hc' ⊢; grind)

/-- the record table and the untouched `outrec` fields after `keepPts` -/
theorem split_state3 {Hs H1 H2 H3 : Heap} {c R1 X' : List Nat} {rest : List (List Nat)} {r pr x0 op1 : Nat}
    (R : Rings Hs (R1 :: (x0 :: X') :: rest))
    (hmem : ∀ i, i ∈ c ↔ i ∈ R1 ∨ i ∈ x0 :: X') (hop1 : op1 ∈ R1)
    (hrp : (Hs.recs[r]?).bind (·.pts) = some pr) (hprc : pr ∈ c)
    (hcr : ∀ i ∈ c, ∀ o, orecOf Hs i = some o → Res Hs o r)
    (h1 : (newOutRec Hs).1.updRec (newOutRec Hs).2 (fun x => { x with pts := some x0 }) = .ok H1)
    (h2 : fixOutRecPts H1 (newOutRec Hs).2 = .ok H2)
    (h3 : keepPts H2 r (newOutRec Hs).2 op1 = .ok H3) :
    ∃ pA rc3, pA ∈ R1 ∧ H3.recs[r]? = some rc3 ∧ rc3.pts = some pA ∧
      (∀ k, k ≠ r → k < Hs.recs.size → H3.recs[k]? = Hs.recs[k]?) ∧
      H3.recs[Hs.recs.size]? = some { pts := some x0 } ∧ H3.recs.size = Hs.recs.size + 1 ∧ SameLinks Hs H3 ∧
      (∀ i, i ∉ c → orecOf H3 i = orecOf Hs i) := by
  have hN : (newOutRec Hs).2 = Hs.recs.size := rfl
  obtain ⟨sl2, z2, g2, gN2, eo2⟩ := split_prefix (x0 := x0) (X' := X') R (by simp) h1 h2
  rw [hN] at h3
  obtain ⟨rcr, hrcr, hrcrp⟩ : ∃ rc, Hs.recs[r]? = some rc ∧ rc.pts = some pr := by
    cases a : Hs.recs[r]? with
    | none => simp [a] at hrp
    | some rc => simp [a] at hrp; exact ⟨rc, rfl, hrp⟩
  have hrlt : r < Hs.recs.size := lt_of_rec hrcr
  have hprlt : pr < Hs.ops.size := by
    rcases (hmem pr).1 hprc with h | h
    · exact R.mem_lt (by simp) h
    · exact R.mem_lt (by simp) h
  obtain ⟨npr, hnpr⟩ := node_of_lt hprlt
  have hopr : orecOf Hs pr = some npr.orec := orecOf_some.2 ⟨npr, hnpr, rfl⟩
  have hopr_lt : npr.orec < Hs.recs.size := by
    obtain ⟨l, hl⟩ := hcr pr hprc _ hopr
    cases hl with
    | live h _ => exact lt_of_rec h
    | dead h _ _ _ => exact lt_of_rec h
  have hr2 : H2.recs[r]? = some rcr := by rw [g2 r hrlt]; exact hrcr
  have hopr2 : orecOf H2 pr = some (if pr ∈ x0 :: X' then Hs.recs.size else npr.orec) := by
    rw [eo2]; by_cases hx : pr ∈ x0 :: X' <;> simp [hx, hopr]
  have hR1X : ∀ a ∈ R1, a ∉ x0 :: X' := by
    intro a ha hb
    have hnd := R.nodup
    simp only [List.flatten_cons] at hnd
    grind [List.nodup_append]
  rcases keepPts_spec hr2 hrcrp hopr2 h3 with ⟨_, sl3, z3, g3, gr3, eo3, _⟩ | ⟨hcase, e3⟩
  · refine ⟨op1, _, hop1, gr3, rfl, ?_, ?_, by rw [z3, z2], sl2.trans sl3, ?_⟩
    · intro k hk hklt; rw [g3 k hk, g2 k hklt]
    · rw [g3 _ (Nat.ne_of_gt hrlt)]; exact gN2
    · intro i hi
      have h1' : i ≠ op1 := fun e => hi ((hmem i).2 (Or.inl (e ▸ hop1)))
      have h2' : i ∉ x0 :: X' := fun h => hi ((hmem i).2 (Or.inr h))
      rw [eo3, upd_ne _ _ h1', eo2]; simp only [h2', if_false]
  · subst e3
    have hprX : pr ∉ x0 :: X' := by
      intro hx; simp only [hx, if_true] at hcase; exact hcase rfl
    have hprR1 : pr ∈ R1 := by
      rcases (hmem pr).1 hprc with h | h
      · exact h
      · exact absurd h hprX
    refine ⟨pr, rcr, hprR1, hr2, hrcrp, fun k _ hklt => g2 k hklt, gN2, z2, sl2, ?_⟩
    intro i hi
    have h2' : i ∉ x0 :: X' := fun h => hi ((hmem i).2 (Or.inr h))
    rw [eo2]; simp only [h2', if_false]

/-- **the same-ring branch keeps a heap well formed** (`X ≠ []`, i.e. `op1->next != op2`): whichever of the two rings ends up
with `or1`, the other belongs to the new record -/
theorem processJoin_split_wf {inside : List Pt → List Pt → Bool} {tree : Bool} {H H' : Heap} {j : HorzJoin}
    {x0 : Nat} {X' Y : List Nat} {rest : List (List Nat)}
    (R : Rings H ((j.op1 :: (x0 :: X') ++ j.op2 :: Y) :: rest))
    (K : RecsOK H ((j.op1 :: (x0 :: X') ++ j.op2 :: Y) :: rest)) (h : processJoin inside tree H j = .ok H') :
    RecsOK H' ((j.op1 :: j.op2 :: Y) :: (x0 :: X') :: rest) := by
  have hc : (j.op1 :: (x0 :: X') ++ j.op2 :: Y) ∈ (j.op1 :: (x0 :: X') ++ j.op2 :: Y) :: rest := by simp
  obtain ⟨r, pr, hrp, hprc, hall⟩ := K.ring_rec _ hc
  obtain ⟨xl, hxl⟩ : ∃ xl, (x0 :: X').getLast? = some xl := by
    rw [List.getLast?_eq_some_getLast (by simp)]; exact ⟨_, rfl⟩
  obtain ⟨Hs, hs', Rs, eos, _, ers, _⟩ := splice_rings_same R (x0 := x0) (by simp) hxl
  unfold processJoin at h
  simp only [bind_ok] at h
  obtain ⟨n1, hn1, or1, hr1, n2, hn2, or2, hr2, ⟨Hs2, b1, b2⟩, hs2, h⟩ := h
  rw [hs'] at hs2; cases hs2
  have e1 := hall j.op1 (by simp) n1.orec (orecOf_some.2 ⟨n1, node_ok.1 hn1, rfl⟩)
  have e2 := hall j.op2 (by simp) n2.orec (orecOf_some.2 ⟨n2, node_ok.1 hn2, rfl⟩)
  rw [e1] at hr1; rw [e2] at hr2
  simp only [Except.ok.injEq] at hr1 hr2
  subst hr1; subst hr2
  simp only [if_true] at h
  -- everything about records and outrec fields is as in H
  have Ks : RecsOK Hs ((j.op1 :: (x0 :: X') ++ j.op2 :: Y) :: rest) := K.of_eqs ers eos
  have hrps : (Hs.recs[r]?).bind (·.pts) = some pr := by rw [ers]; exact hrp
  have hcr : ∀ i ∈ j.op1 :: (x0 :: X') ++ j.op2 :: Y, ∀ o, orecOf Hs i = some o → Res Hs o r := by
    intro i hi o hio
    rw [eos] at hio
    have := hall i hi o hio
    rw [← realOf_congr ers] at this
    exact res_iff.1 this
  have hmem : ∀ i, i ∈ j.op1 :: (x0 :: X') ++ j.op2 :: Y ↔ i ∈ j.op1 :: j.op2 :: Y ∨ i ∈ x0 :: X' := by
    intro i; simp only [List.mem_cons, List.mem_append]; grind
  unfold splitBranch at h
  simp only [bind_ok] at h
  obtain ⟨H1, h1, H2, h2, H3, h3, h⟩ := h
  have hN : (newOutRec Hs).2 = Hs.recs.size := rfl
  cases tree with
  | false =>
    simp only [Bool.false_eq_true, if_false] at h
    obtain ⟨_, o4, z4, g4⟩ := updRec_ok h
    apply split_noswap_recsOK Rs Ks hmem (by simp) hrps hprc hcr h1 h2 h3 o4 z4
    intro k
    rw [hN] at g4
    obtain ⟨pA, rc3, _, _, _, _, gN3, _, _, _⟩ := split_state3 Rs hmem (by simp) hrps hprc hcr h1 h2 h3
    unfold recView recPts
    rw [g4 k]
    by_cases hk : k = Hs.recs.size
    · simp only [hk, if_true, gN3]; simp
    · simp [hk]
  | true =>
    simp only [if_true] at h
    unfold splitOwners at h
    simp only [bind_ok] at h
    obtain ⟨p1, hp1, p2, hp2, ring1, _, ring2, _, H4, h4, h5⟩ := h
    obtain ⟨_, o5, z5, g5⟩ := updRec_ok h5
    have hv5 : ∀ k, recView H' k = recView H4 k ∧ recPts H' k = recPts H4 k := by
      intro k
      unfold recView recPts
      rw [g5 k]
      by_cases hk : k = r
      · simp only [hk, if_true]; cases H4.recs[r]? <;> simp
      · simp [hk]
    rw [hN] at h4 hp2
    by_cases hin : inside ring1 ring2 = true
    · -- swap
      obtain ⟨pA, rc3, hpA, hr3, hp3, g3, gN3, z3, sl3, ho3⟩ := split_state3 Rs hmem (by simp) hrps hprc hcr h1 h2 h3
      have hp1' : p1 = pA := by
        unfold ptsOfRec at hp1
        simp only [Heap.orec, hr3, hp3, Except.ok.injEq] at hp1; exact hp1.symm
      have hp2' : p2 = x0 := by
        unfold ptsOfRec at hp2
        simp only [Heap.orec, gN3, Except.ok.injEq] at hp2; exact hp2.symm
      subst hp1'; subst hp2'
      rw [hin] at h4
      exact split_swap_recsOK (Rs.of_sameLinks sl3) Ks hmem hrps hprc g3 z3 hr3 hpA gN3 ho3 h4 o5 hv5
    · -- no swap: only `owner` and `splits` are written
      have hin' : inside ring1 ring2 = false := by simpa using hin
      rw [hin'] at h4
      have hv4 : H4.ops = H3.ops ∧ H4.recs.size = H3.recs.size ∧ ∀ k, recView H4 k = recView H3 k ∧ recPts H4 k = recPts H3 k := by
        unfold splitOwnerChoice at h4
        simp only [Bool.false_eq_true, if_false] at h4
        have fin : ∀ (ow : Option Nat), H3.updRec Hs.recs.size (fun x => { x with owner := ow }) = .ok H4 →
            H4.ops = H3.ops ∧ H4.recs.size = H3.recs.size ∧ ∀ k, recView H4 k = recView H3 k ∧ recPts H4 k = recPts H3 k := by
          intro ow hu
          obtain ⟨_, o, z, g⟩ := updRec_ok hu
          refine ⟨o, z, fun k => ?_⟩
          -- the new record is live: its owner is not seen
          obtain ⟨pA, rc3, _, _, _, _, gN3, _, _, _⟩ := split_state3 Rs hmem (by simp) hrps hprc hcr h1 h2 h3
          unfold recView recPts
          rw [g k]
          by_cases hk : k = Hs.recs.size
          · simp only [hk, if_true, gN3]; simp
          · simp [hk]
        split at h4
        · exact fin _ h4
        · cases hr : H3.orec r with
          | error e => simp [hr] at h4
          | ok r1 => simp only [hr] at h4; exact fin _ h4
      apply split_noswap_recsOK Rs Ks hmem (by simp) hrps hprc hcr h1 h2 h3 (o5.trans hv4.1) (z5.trans hv4.2.1)
      intro k
      exact ⟨(hv5 k).1.trans (hv4.2.2 k).1, (hv5 k).2.trans (hv4.2.2 k).2⟩

end Clipper.Model.HorzJoins
