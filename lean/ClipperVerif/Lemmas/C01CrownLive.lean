/-
Helper lemmas for `Props/C01Crown.lean`, part 2b: COUNTING.  `liveN` = number of rings under construction, `hotN` = number of edges of the
AEL that own a ring end.  Through the primitives of `Model/AelRings.lean`: `NewOutRec` adds one ring under construction, closing a ring and
`JoinOutrecPaths` remove one, nothing else changes the number.  (`Lemmas/C01CrownStep`: every event keeps `2·liveN = hotN`; hence a sweep
that ends with an empty AEL leaves no ring under construction.)  Also: a record emptied by `JoinOutrecPaths` has no points (`GoneEmpty`).
Core Lean only.
-/
import ClipperVerif.Lemmas.C01CrownMax
namespace Clipper.Lemmas.C01Crown
open Clipper Clipper.Model Clipper.Lemmas.C01Output

def lv1 (g : Ring) : Int := if g.stat = .live then 1 else 0

/-- number of rings under construction -/
def liveN (o : Out) : Int := (o.rings.map lv1).sum

def hv (x : Model.SEdge) : Int := if x.orec.isSome then 1 else 0

/-- number of edges that own a ring end -/
def hotN (l : List Model.SEdge) : Int := (l.map hv).sum

theorem hotN_append (l1 l2 : List Model.SEdge) : hotN (l1 ++ l2) = hotN l1 + hotN l2 := by simp [hotN, List.sum_append]

theorem hotN_cons (x : Model.SEdge) (l : List Model.SEdge) : hotN (x :: l) = hv x + hotN l := by simp [hotN]

theorem hotN_map (g : Model.SEdge → Model.SEdge) (l : List Model.SEdge) (h : ∀ x ∈ l, (g x).orec.isSome = x.orec.isSome) :
    hotN (l.map g) = hotN l := by
  induction l with
  | nil => rfl
  | cons x xs ih =>
    simp only [List.map_cons, hotN_cons]
    rw [ih (fun y hy => h y (by simp [hy]))]
    simp [hv, h x (by simp)]

theorem hv_orec {x y : Model.SEdge} (h : y.orec = x.orec) : hv y = hv x := by simp [hv, h]

theorem hv_some {x : Model.SEdge} {k : Rec} (h : x.orec = some k) : hv x = 1 := by simp [hv, h]
theorem hv_none {x : Model.SEdge} (h : x.orec = none) : hv x = 0 := by simp [hv, h]

theorem shape_isSome {g : Model.SEdge → Model.SEdge} (hg : ShapePres g) (x : Model.SEdge) : (g x).orec.isSome = x.orec.isSome := by
  have := (hg x).2.2
  cases h1 : (g x).orec <;> cases h2 : x.orec <;> simp [h1, h2] at this ⊢

theorem liveN_congr {o o' : Out} (h : o'.rings = o.rings) : liveN o' = liveN o := by simp [liveN, h]

theorem liveN_newRec (pt : Pt) (o : Out) : liveN (newRec pt o) = liveN o + 1 := by
  simp [liveN, newRec, lv1]

theorem liveN_logSeg (k : SegKind) (i1 : Nat) (f1 : Bool) (i2 : Nat) (f2 : Bool) (o : Out) :
    liveN (logSeg k i1 f1 i2 f2 o) = liveN o := liveN_congr (logSeg_rings k i1 f1 i2 f2 o)

theorem liveN_handOver (id : Nat) (f : Bool) (o : Out) : liveN (handOver id f o) = liveN o := by
  unfold handOver
  cases hg : o.rings[id]? with
  | none => rfl
  | some g =>
    simp only [liveN]
    rw [sum_map_set lv1 o.rings id g _ hg]
    cases f <;> simp [lv1]

theorem liveN_addOutPt (id : Nat) (f : Bool) (pt : Pt) (o : Out) : liveN (addOutPt id f pt o) = liveN o := by
  simp only [liveN, addOutPt_rings]
  cases hg : o.rings[id]? with
  | none => rfl
  | some g =>
    simp only
    by_cases hl : g.stat = .live
    · simp only [hl, if_true]
      rw [sum_map_set lv1 o.rings id g _ hg]
      simp [lv1, addPt_stat, hl]
    · simp only [hl, if_false]

theorem liveN_finish (id : Nat) (f : Bool) (o : Out) (h : LiveAt o.rings id) : liveN (finish id f o) = liveN o - 1 := by
  obtain ⟨g, hg, hl, _⟩ := h
  unfold finish
  simp only [hg, liveN]
  rw [sum_map_set lv1 o.rings id g _ hg]
  simp [lv1, hl]

theorem liveN_joinPaths (A B : Nat) (f : Bool) (o : Out) (hne : A ≠ B) (hA : LiveAt o.rings A) (hB : LiveAt o.rings B) :
    liveN (joinPaths A B f o) = liveN o - 1 := by
  obtain ⟨ga, hga, la, _⟩ := hA
  obtain ⟨gb, hgb, lb, _⟩ := hB
  unfold joinPaths
  simp only [hga, hgb, hne, la, lb, ne_eq, not_false_eq_true, and_self, if_true, liveN]
  rw [sum_map_set lv1 _ B gb _ (by rw [List.getElem?_set_ne hne]; exact hgb), sum_map_set lv1 o.rings A ga _ hga]
  cases f <;> simp [lv1, la, lb] <;> omega

theorem liveN_localMaxOut (kind : SegKind) (ra rb : Rec) (pt : Pt) (o : Out) (hA : LiveAt o.rings ra.id) (hB : LiveAt o.rings rb.id) :
    liveN (localMaxOut kind ra rb pt o) = liveN o - 1 := by
  obtain ⟨_, L2, _⟩ := localMax_pre kind ra rb pt o hA
  have h1 : liveN (logSeg kind rb.id rb.front ra.id ra.front (addOutPt ra.id ra.front pt o)) = liveN o := by
    rw [liveN_logSeg, liveN_addOutPt]
  unfold localMaxOut
  simp only
  split
  · rw [liveN_finish _ _ _ (L2 _ hA), h1]
  · next e =>
    split
    · rw [liveN_joinPaths _ _ _ _ e (L2 _ hA) (L2 _ hB), h1]
    · rw [liveN_joinPaths _ _ _ _ (fun h => e h.symm) (L2 _ hB) (L2 _ hA), h1]

theorem liveN_addOn (r : Option Rec) (pt : Pt) (o : Out) : liveN (addOn r pt o) = liveN o := by
  cases r with
  | none => rfl
  | some k => exact liveN_addOutPt k.id k.front pt o

theorem liveN_handOn (r : Option Rec) (o : Out) : liveN (handOn r o) = liveN o := by
  cases r with
  | none => rfl
  | some k => exact liveN_handOver k.id k.front o

theorem liveN_swapOut (r1 r2 : Option Rec) (pt : Pt) (o : Out) : liveN (swapOut r1 r2 pt o) = liveN o := by
  unfold swapOut
  rw [liveN_handOn, liveN_handOn, liveN_addOn, liveN_addOn]

theorem lv1_nonneg (g : Ring) : 0 ≤ lv1 g := by unfold lv1; split <;> omega

theorem sum_nonneg_zero : ∀ (l : List Ring), (l.map lv1).sum = 0 → ∀ g ∈ l, lv1 g = 0 := by
  intro l
  induction l with
  | nil => intro _ g hg; cases hg
  | cons x xs ih =>
    intro h g hg
    simp only [List.map_cons, List.sum_cons] at h
    have h1 := lv1_nonneg x
    have h2 : 0 ≤ (xs.map lv1).sum := by
      clear ih h hg
      induction xs with
      | nil => simp
      | cons y ys ih2 => simp only [List.map_cons, List.sum_cons]; have := lv1_nonneg y; omega
    rcases List.mem_cons.1 hg with rfl | hg
    · omega
    · exact ih (by omega) g hg

/-- no ring is under construction when the count is zero -/
theorem no_live_of_zero {o : Out} (h : liveN o = 0) : ∀ g ∈ o.rings, g.stat ≠ .live := by
  intro g hg hl
  have := sum_nonneg_zero o.rings h g hg
  simp [lv1, hl] at this

/-! ## emptied records have no points -/

def GoneEmpty (o : Out) : Prop := ∀ g ∈ o.rings, g.stat = .gone → g.pts = []

theorem goneEmpty_prim (pt : Pt) : PrimPres pt GoneEmpty := by
  refine ⟨?_, ?_, ?_, ?_, ?_, ?_⟩
  · intro o h g hg hgone
    simp only [newRec, List.mem_append, List.mem_singleton] at hg
    rcases hg with hg | rfl
    · exact h g hg hgone
    · simp at hgone
  · intro id f o h g hg hgone
    rw [addOutPt_rings] at hg
    cases hr : o.rings[id]? with
    | none => simp only [hr] at hg; exact h g hg hgone
    | some r =>
      simp only [hr] at hg
      by_cases hlv : r.stat = .live
      · simp only [hlv, if_true] at hg
        rcases mem_set_cases _ _ _ _ hg with rfl | hg
        · rw [addPt_stat, hlv] at hgone; cases hgone
        · exact h g hg hgone
      · simp only [hlv, if_false] at hg; exact h g hg hgone
  · intro id f o h g hg hgone
    unfold handOver at hg
    cases hr : o.rings[id]? with
    | none => simp only [hr] at hg; exact h g hg hgone
    | some r =>
      simp only [hr] at hg
      rcases mem_set_cases _ _ _ _ hg with rfl | hg
      · have hrm : r ∈ o.rings := mem_of_get _ _ _ hr
        cases f
        · exact h r hrm hgone
        · exact h r hrm hgone
      · exact h g hg hgone
  · intro id f o h g hg hgone
    unfold finish at hg
    cases hr : o.rings[id]? with
    | none => simp only [hr] at hg; exact h g hg hgone
    | some r =>
      simp only [hr] at hg
      rcases mem_set_cases _ _ _ _ hg with rfl | hg
      · simp at hgone
      · exact h g hg hgone
  · intro A B f o h g hg hgone
    unfold joinPaths at hg
    cases hA : o.rings[A]? with
    | none => simp only [hA] at hg; exact h g hg hgone
    | some ra =>
      cases hB : o.rings[B]? with
      | none => simp only [hA, hB] at hg; exact h g hg hgone
      | some rb =>
        simp only [hA, hB] at hg
        split at hg
        · next hc =>
          rcases mem_set_cases _ _ _ _ hg with rfl | hg
          · rfl
          · rcases mem_set_cases _ _ _ _ hg with rfl | hg
            · exfalso
              cases f
              · simp only [Bool.false_eq_true, if_false] at hgone; rw [hc.2.1] at hgone; cases hgone
              · simp only [if_true] at hgone; rw [hc.2.1] at hgone; cases hgone
            · exact h g hg hgone
        · exact h g hg hgone
  · intro k i1 f1 i2 f2 o h g hg hgone
    rw [logSeg_rings] at hg
    exact h g hg hgone

theorem goneEmpty_run (cfg : Cfg) : ∀ (ops : List ROp) (r r' : RState), runR cfg r ops = .ok r' → GoneEmpty r.o → GoneEmpty r'.o := by
  intro ops
  induction ops with
  | nil => intro r r' hr h; simp only [runR] at hr; cases hr; exact h
  | cons op ops ih =>
    intro r r' hr h
    simp only [runR] at hr
    cases hs : stepR cfg r op with
    | error e => simp [hs] at hr
    | ok r1 =>
      simp only [hs] at hr
      refine ih r1 r' hr ?_
      rw [(Clipper.Props.C01Rings.erase_ring_step cfg r r1 op hs).2]
      exact pres_outStep cfg r.s r.o op GoneEmpty (goneEmpty_prim op.pt) h

end Clipper.Lemmas.C01Crown
