/-
Helper lemmas for `Props/C01Output.lean`, part 2: the bottom-up order of the transpositions of one `DoIntersections`
(`Model/SweepPoints.geo`).  By construction it exchanges adjacent pairs that are in the wrong order for the target list only, and it
ends in the target (the inversion count of `Lemmas/Inversions.lean` drops by one per exchange; a list without adjacent inversion is
sorted).  Core Lean only.
-/
import ClipperVerif.Lemmas.C01OutputGeom
import ClipperVerif.Lemmas.Inversions
import ClipperVerif.Lemmas.C01RegionBeam
namespace Clipper.Lemmas.C01Output
open Clipper Clipper.Model Clipper.Model.AelOrder Clipper.Model.SweepOrder Clipper.Model.SweepEvents Clipper.Model.SweepPoints
open Clipper.Lemmas.SweepOrder Clipper.Lemmas.Inversions Clipper.Lemmas.C01Region

/-- a schedule of exchanges `(position, left, right)` leads from `cur` to `cur'`; every exchange is of two NEIGHBOURS at the stated position
and satisfies `P left right` -/
def SchedOK (P : GEdge → GEdge → Prop) : List GEdge → List (Nat × GEdge × GEdge) → List GEdge → Prop
  | cur, [], cur' => cur = cur'
  | cur, c :: rest, cur' => ∃ pre post, cur = pre ++ c.2.1 :: c.2.2 :: post ∧ pre.length = c.1 ∧ P c.2.1 c.2.2 ∧
      SchedOK P (pre ++ c.2.2 :: c.2.1 :: post) rest cur'

theorem swapL_window {α : Type} (pre : List α) (a b : α) (post : List α) :
    swapL pre.length (pre ++ a :: b :: post) = pre ++ b :: a :: post := by
  unfold swapL
  have hd : (pre ++ a :: b :: post).drop pre.length = a :: b :: post := by simp
  have ht : (pre ++ a :: b :: post).take pre.length = pre := by simp
  rw [hd, ht]

/-! ## candidates -/

theorem mem_adjInv (T : List GEdge) : ∀ (cur : List GEdge) (k : Nat) (c : Nat × GEdge × GEdge),
    c ∈ adjInv T k cur ↔ ∃ pre post, cur = pre ++ c.2.1 :: c.2.2 :: post ∧ k + pre.length = c.1 ∧ rank T c.2.2 < rank T c.2.1 := by
  intro cur
  induction cur with
  | nil => intro k c; simp [adjInv]
  | cons a t ih =>
    intro k c
    cases t with
    | nil =>
      simp only [adjInv, List.not_mem_nil, false_iff]
      rintro ⟨pre, post, h, _⟩
      have := congrArg List.length h
      simp at this; omega
    | cons b rest =>
      simp only [adjInv, List.mem_append, ih (k + 1) c]
      constructor
      · rintro (h | ⟨pre, post, h1, h2, h3⟩)
        · split at h
          · next hlt =>
            simp only [List.mem_singleton] at h; subst h
            exact ⟨[], rest, rfl, by simp, hlt⟩
          · simp at h
        · exact ⟨a :: pre, post, by simp [h1], by simp; omega, h3⟩
      · rintro ⟨pre, post, h1, h2, h3⟩
        cases pre with
        | nil =>
          simp only [List.nil_append, List.cons.injEq] at h1
          obtain ⟨rfl, rfl, rfl⟩ := h1
          left
          simp only [List.length_nil, Nat.add_zero] at h2
          obtain ⟨i, a', b'⟩ := c
          simp only at h2 h3 ⊢
          subst h2
          simp [h3]
        | cons x pre =>
          simp only [List.cons_append, List.cons.injEq] at h1
          right
          exact ⟨pre, post, h1.2, by simp at h2; omega, h3⟩

theorem pickBest_mem : ∀ (l : List (Nat × GEdge × GEdge)) (c : Nat × GEdge × GEdge), pickBest l = some c → c ∈ l := by
  intro l c h
  cases l with
  | nil => simp [pickBest] at h
  | cons c0 cs =>
    simp only [pickBest, Option.some.injEq] at h
    subst h
    suffices H : ∀ (cs : List (Nat × GEdge × GEdge)) (b : Nat × GEdge × GEdge),
        cs.foldl (fun best c' => if lowerQ (crossQ c'.2.1 c'.2.2) (crossQ best.2.1 best.2.2) then c' else best) b ∈ b :: cs from H cs c0
    intro cs
    induction cs with
    | nil => intro b; simp
    | cons x xs ih =>
      intro b
      simp only [List.foldl_cons]
      split
      · have := ih x
        simp only [List.mem_cons] at this ⊢
        rcases this with h | h
        · exact Or.inr (Or.inl h)
        · exact Or.inr (Or.inr h)
      · have := ih b
        simp only [List.mem_cons] at this ⊢
        rcases this with h | h
        · exact Or.inl h
        · exact Or.inr (Or.inr h)

theorem pickBest_none (l : List (Nat × GEdge × GEdge)) (h : pickBest l = none) : l = [] := by
  cases l with
  | nil => rfl
  | cons _ _ => simp [pickBest] at h

/-! ## ranks -/

theorem rank_pairwise : ∀ (T : List GEdge), T.Nodup → T.Pairwise (fun u v => rank T u < rank T v) := by
  intro T
  induction T with
  | nil => intro _; exact List.Pairwise.nil
  | cons x xs ih =>
    intro hnd
    rw [List.nodup_cons] at hnd
    rw [List.pairwise_cons]
    constructor
    · intro v hv
      have hne : (x == v) = false := by
        have : ¬ x = v := fun h => hnd.1 (h ▸ hv)
        simpa using this
      simp [rank, List.idxOf_cons, hne]
    · refine (ih hnd.2).imp_of_mem ?_
      intro u v hu hv h
      have h1 : (x == u) = false := by
        have : ¬ x = u := fun h => hnd.1 (h ▸ hu)
        simpa using this
      have h2 : (x == v) = false := by
        have : ¬ x = v := fun h => hnd.1 (h ▸ hv)
        simpa using this
      simp only [rank, List.idxOf_cons, h1, h2, cond_false] at h ⊢
      omega

theorem rank_inj (T : List GEdge) {u v : GEdge} (hu : u ∈ T) (hv : v ∈ T) (h : rank T u = rank T v) : u = v := by
  have h1 : T.idxOf u < T.length := List.idxOf_lt_length_iff.2 hu
  have h2 : T.idxOf v < T.length := List.idxOf_lt_length_iff.2 hv
  have e1 := List.getElem_idxOf h1
  have e2 := List.getElem_idxOf h2
  simp only [rank] at h
  rw [← e1, ← e2]
  simp [h]

/-- the relation of the target between two of its members, read from the ranks -/
theorem rel_of_rank {R : GEdge → GEdge → Prop} (T : List GEdge) (hT : T.Pairwise R) {u v : GEdge} (hu : u ∈ T) (hv : v ∈ T)
    (h : rank T u < rank T v) : R u v := by
  have h1 : T.idxOf u < T.length := List.idxOf_lt_length_iff.2 hu
  have h2 : T.idxOf v < T.length := List.idxOf_lt_length_iff.2 hv
  have := (List.pairwise_iff_getElem.1 hT) (T.idxOf u) (T.idxOf v) h1 h2 h
  rwa [List.getElem_idxOf h1, List.getElem_idxOf h2] at this

/-- a permutation of the target whose ranks are sorted IS the target -/
theorem eq_target_of_sorted (T cur : List GEdge) (hnd : T.Nodup) (hp : cur.Perm T)
    (hs : (cur.map (rank T)).Pairwise (· ≤ ·)) : cur = T := by
  have hndc : cur.Nodup := hp.symm.nodup hnd
  rw [List.pairwise_map] at hs
  have hs' : cur.Pairwise (fun u v => rank T u < rank T v) := by
    have := List.Pairwise.and_mem.1 (hs.and hndc)
    refine this.imp ?_
    rintro u v ⟨hu, hv, hle, hne⟩
    have : rank T u ≠ rank T v := fun h => hne (rank_inj T (hp.mem_iff.1 hu) (hp.mem_iff.1 hv) h)
    omega
  exact Clipper.Props.C01Sweep.eq_of_sorted_same_mem (R := fun u v => rank T u < rank T v) (fun a h => by omega)
    (fun a b h h' => by omega) hs' (rank_pairwise T hnd) (fun e => hp.mem_iff)

theorem invCount_le_sq : ∀ (π : List Nat), invCount π ≤ π.length * π.length := by
  intro π
  induction π with
  | nil => simp [invCount]
  | cons a l ih =>
    simp only [invCount, List.length_cons]
    have h1 : (l.filter (· < a)).length ≤ l.length := List.length_filter_le _ _
    have e : (l.length + 1) * (l.length + 1) = l.length * l.length + l.length + l.length + 1 := by
      rw [Nat.add_mul, Nat.mul_add]; omega
    omega

/-- a list with no adjacent pair in the wrong order has sorted ranks -/
theorem sorted_of_no_adjInv (T cur : List GEdge) (h : adjInv T 0 cur = []) : (cur.map (rank T)).Pairwise (· ≤ ·) := by
  rw [← invPairs_eq_nil_iff]
  apply Classical.byContradiction
  intro hne
  obtain ⟨l₁, x, y, l₂, he, hlt⟩ := exists_adjacent_inversion _ hne
  obtain ⟨pre, t, hc, hpre, ht⟩ := List.map_eq_append_iff.1 he
  obtain ⟨a, t2, ht2, ha, htt⟩ := List.map_eq_cons_iff.1 ht
  obtain ⟨b, post, hpost, hb, _⟩ := List.map_eq_cons_iff.1 htt
  have hm : (pre.length, a, b) ∈ adjInv T 0 cur := by
    rw [mem_adjInv]
    refine ⟨pre, post, by rw [hc, ht2, hpost], by simp, ?_⟩
    simp only [ha, hb]; exact hlt
  rw [h] at hm; cases hm

/-- **the bottom-up schedule ends in the target, by adjacent exchanges of pairs that are in the wrong order for the target** -/
theorem geo_spec (T : List GEdge) (hnd : T.Nodup) : ∀ (n : Nat) (cur : List GEdge), cur.Perm T →
    invCount (cur.map (rank T)) ≤ n → SchedOK (fun a b => rank T b < rank T a) cur (geo T n cur) T := by
  intro n
  induction n with
  | zero =>
    intro cur hp hc
    simp only [geo, SchedOK]
    have h0 : invPairs (cur.map (rank T)) = [] := by
      have := invCount_eq_length (cur.map (rank T))
      exact List.length_eq_zero_iff.1 (by omega)
    exact eq_target_of_sorted T cur hnd hp ((invPairs_eq_nil_iff _).1 h0)
  | succ n ih =>
    intro cur hp hc
    simp only [geo]
    cases hpk : pickBest (adjInv T 0 cur) with
    | none =>
      simp only [SchedOK]
      exact eq_target_of_sorted T cur hnd hp (sorted_of_no_adjInv T cur (pickBest_none _ hpk))
    | some c =>
      have hm := pickBest_mem _ c hpk
      rw [mem_adjInv] at hm
      obtain ⟨pre, post, h1, h2, h3⟩ := hm
      simp only [SchedOK]
      refine ⟨pre, post, h1, by omega, h3, ?_⟩
      have hsw : swapL c.1 cur = pre ++ c.2.2 :: c.2.1 :: post := by
        rw [h1, ← h2, Nat.zero_add, swapL_window]
      rw [hsw]
      refine ih _ ?_ ?_
      · refine List.Perm.trans ?_ hp
        rw [h1]
        exact List.Perm.append_left pre (List.Perm.swap _ _ post)
      · have := invCount_swap (pre.map (rank T)) (post.map (rank T)) (rank T c.2.1) (rank T c.2.2) h3
        rw [h1] at hc
        simp only [List.map_append, List.map_cons] at hc ⊢
        omega

/-- the schedule as adjacent transpositions -/
theorem sched_applySwaps {P : GEdge → GEdge → Prop} : ∀ (evs : List (Nat × GEdge × GEdge)) (cur cur' : List GEdge),
    SchedOK P cur evs cur' → applySwaps (evs.map (·.1)) cur = some cur' := by
  intro evs
  induction evs with
  | nil => intro cur cur' h; simp only [SchedOK] at h; subst h; rfl
  | cons c rest ih =>
    intro cur cur' h
    obtain ⟨pre, post, h1, h2, _, h4⟩ := h
    simp only [List.map_cons, applySwaps]
    rw [h1, swapAt_len pre _ _ post c.1 h2, Option.bind_some]
    exact ih _ _ h4

/-! ## strengthening a schedule by an invariant of the list -/

theorem pairwise_swap {α : Type} {R : α → α → Prop} (pre : List α) (a b : α) (post : List α)
    (h : (pre ++ a :: b :: post).Pairwise R) (hba : R b a) : (pre ++ b :: a :: post).Pairwise R := by
  rw [List.pairwise_append] at h ⊢
  obtain ⟨h1, h2, h3⟩ := h
  rw [List.pairwise_cons, List.pairwise_cons] at h2
  obtain ⟨ha, hb, hp⟩ := h2
  refine ⟨h1, ?_, ?_⟩
  · rw [List.pairwise_cons, List.pairwise_cons]
    refine ⟨?_, ?_, hp⟩
    · intro x hx
      rcases List.mem_cons.1 hx with rfl | hx
      · exact hba
      · exact hb x hx
    · intro x hx; exact ha x (List.mem_cons_of_mem _ hx)
  · intro x hx y hy
    apply h3 x hx y
    simp only [List.mem_cons] at hy ⊢
    rcases hy with h | h | h
    · exact Or.inr (Or.inl h)
    · exact Or.inl h
    · exact Or.inr (Or.inr h)

theorem pairwise_window {α : Type} {R : α → α → Prop} (pre : List α) (a b : α) (post : List α)
    (h : (pre ++ a :: b :: post).Pairwise R) : R a b := by
  rw [List.pairwise_append] at h
  have := h.2.1
  rw [List.pairwise_cons] at this
  exact this.1 b (by simp)

theorem sched_strengthen {P Q R : GEdge → GEdge → Prop} (hstep : ∀ a b, R a b → P a b → Q a b ∧ R b a) :
    ∀ (evs : List (Nat × GEdge × GEdge)) (cur cur' : List GEdge), SchedOK P cur evs cur' → cur.Pairwise R →
      SchedOK Q cur evs cur' := by
  intro evs
  induction evs with
  | nil => intro cur cur' h _; exact h
  | cons c rest ih =>
    intro cur cur' h hR
    obtain ⟨pre, post, h1, h2, h3, h4⟩ := h
    rw [h1] at hR
    obtain ⟨q, r⟩ := hstep _ _ (pairwise_window pre _ _ post hR) h3
    exact ⟨pre, post, h1, h2, q, ih _ _ h4 (pairwise_swap pre _ _ post hR r)⟩

theorem ltBelow_asymm {y : Int} {a b : GEdge} (h : ltBelow y a b) : ¬ ltBelow y b a := by
  unfold ltBelow xlt xeq slt at *
  omega

/-- what is exchanged in a scanbeam, geometrically: two edges in the order `a`, `b` just above `y0` whose exact x at `y1` is strictly
reversed -/
def Crosses (y0 y1 : Int) (a b : GEdge) : Prop := ltAbove y0 a b ∧ xlt y1 b a

/-- **the bottom-up schedule of a scanbeam**: `inserted` sorted just above `y0`, `T` a permutation of it sorted just below `y1`:
the schedule leads from `inserted` to `T`, and every exchange is of two neighbours that cross strictly inside the scanbeam. -/
theorem geoSwaps_spec (y0 y1 : Int) (hy : y1 < y0) (inserted T : List GEdge) (hI : inserted.Pairwise (ltAbove y0))
    (hT : T.Pairwise (ltBelow y1)) (hp : T.Perm inserted) :
    SchedOK (Crosses y0 y1) inserted (geoSwaps T inserted) T := by
  have hndT : T.Nodup := nodup_of_pairwise_irrefl (ltBelow_irrefl y1) hT
  have h1 := geo_spec T hndT (inserted.length * inserted.length) inserted hp.symm (by
    have := invCount_le_sq (inserted.map (rank T)); simpa using this)
  refine sched_strengthen (R := fun u v => u ∈ T ∧ v ∈ T ∧ (ltAbove y0 u v ∨ ltBelow y1 u v)) ?_ _ _ _ h1 ?_
  · rintro a b ⟨ha, hb, hr⟩ hlt
    have hba : ltBelow y1 b a := rel_of_rank T hT hb ha hlt
    have hab : ltAbove y0 a b := by
      rcases hr with h | h
      · exact h
      · exact absurd hba (ltBelow_asymm h)
    refine ⟨⟨hab, ?_⟩, hb, ha, Or.inr hba⟩
    apply Classical.byContradiction
    intro hx
    exact ltBelow_asymm hba (ltBelow_of_not_reversed hy hab hx)
  · have := List.Pairwise.and_mem.1 hI
    refine this.imp ?_
    rintro u v ⟨hu, hv, h⟩
    exact ⟨hp.mem_iff.2 hu, hp.mem_iff.2 hv, Or.inl h⟩

end Clipper.Lemmas.C01Output
