/- Helper lemmas for the geometry half of C18: consecutive pairs of a vertex list (`chain`), the closed-path edge
list as a chain, rotation invariance of sums / `any` over the edges, and the Area loop. Core Lean only. -/
import ClipperVerif.Model.Geom
namespace Clipper.Lemmas.Geom
open Clipper Clipper.Model

/-- consecutive pairs `(p,l0),(l0,l1),…` -/
def chain : Pt → List Pt → List (Pt × Pt)
  | _, [] => []
  | p, c :: r => (p, c) :: chain c r

/-- last element of `p :: l` -/
def lastOf : Pt → List Pt → Pt
  | p, [] => p
  | _, c :: r => lastOf c r

@[simp] theorem chain_nil (p : Pt) : chain p [] = [] := rfl
@[simp] theorem chain_cons (p c : Pt) (r : List Pt) : chain p (c :: r) = (p, c) :: chain c r := rfl
@[simp] theorem lastOf_nil (p : Pt) : lastOf p [] = p := rfl
@[simp] theorem lastOf_cons (p c : Pt) (r : List Pt) : lastOf p (c :: r) = lastOf c r := rfl

theorem chain_append (p : Pt) (x y : List Pt) : chain p (x ++ y) = chain p x ++ chain (lastOf p x) y := by
  induction x generalizing p with
  | nil => simp
  | cons c r ih => simp [ih]

theorem lastOf_append (p : Pt) (x y : List Pt) : lastOf p (x ++ y) = lastOf (lastOf p x) y := by
  induction x generalizing p with
  | nil => simp
  | cons c r ih => simp [ih]

theorem edgesOf_cons (a : Pt) (rest : List Pt) : edgesOf (a :: rest) = chain a (rest ++ [a]) := by
  have h : ∀ (rest : List Pt) (a t : Pt), (a :: rest).zip (rest ++ [t]) = chain a (rest ++ [t]) := by
    intro rest
    induction rest with
    | nil => intro a t; rfl
    | cons r rs ih => intro a t; simp [ih]
  exact h rest a a

theorem getLast?_cons_eq_lastOf (a : Pt) (rest : List Pt) : (a :: rest).getLast? = some (lastOf a rest) := by
  induction rest generalizing a with
  | nil => rfl
  | cons r rs ih => rw [List.getLast?_cons_cons, ih]; rfl

/-- the edges of the closed path `x ++ y` are those of `y ++ x` in rotated order -/
theorem edgesOf_rotate_perm (x y : List Pt) : (edgesOf (x ++ y)).Perm (edgesOf (y ++ x)) := by
  cases x with
  | nil => simp
  | cons a xs =>
    cases y with
    | nil => simp
    | cons b ys =>
      have e1 : edgesOf ((a :: xs) ++ (b :: ys)) =
          chain a xs ++ ((lastOf a xs, b) :: chain b ys) ++ [(lastOf b ys, a)] := by
        show edgesOf (a :: (xs ++ b :: ys)) = _
        rw [edgesOf_cons, List.append_assoc, chain_append]
        simp [chain_append]
      have e2 : edgesOf ((b :: ys) ++ (a :: xs)) =
          chain b ys ++ ((lastOf b ys, a) :: chain a xs) ++ [(lastOf a xs, b)] := by
        show edgesOf (b :: (ys ++ a :: xs)) = _
        rw [edgesOf_cons, List.append_assoc, chain_append]
        simp [chain_append]
      rw [e1, e2]
      generalize chain a xs = A
      generalize chain b ys = B
      generalize (lastOf a xs, b) = e
      generalize (lastOf b ys, a) = f
      have p1 : (A ++ e :: B ++ [f]).Perm (e :: f :: (A ++ B)) := by
        have h1 : (A ++ e :: B ++ [f]).Perm (f :: (A ++ e :: B)) := by
          exact List.perm_append_singleton f (A ++ e :: B)
        exact h1.trans ((List.perm_middle.cons f).trans (List.Perm.swap e f _))
      have p2 : (B ++ f :: A ++ [e]).Perm (e :: f :: (A ++ B)) := by
        have h1 : (B ++ f :: A ++ [e]).Perm (e :: (B ++ f :: A)) := by
          exact List.perm_append_singleton e (B ++ f :: A)
        exact h1.trans ((List.perm_middle.trans (List.perm_append_comm.cons f)).cons e)
      exact p1.trans p2.symm

/-! ### Area -/

/-- sum of the C++ summands along a chain -/
def areaSum (p : Pt) (l : List Pt) : Int := ((chain p l).map (fun e => areaTerm e.1 e.2)).sum
/-- sum of the shoelace summands along a chain -/
def shoeSum (p : Pt) (l : List Pt) : Int := ((chain p l).map (fun e => e.1.x * e.2.y - e.2.x * e.1.y)).sum

theorem areaSum_eq (p : Pt) (l : List Pt) :
    areaSum p l = shoeSum p l + (p.x * p.y - (lastOf p l).x * (lastOf p l).y) := by
  induction l generalizing p with
  | nil => simp [areaSum, shoeSum]
  | cons c r ih =>
    have h1 : areaSum p (c :: r) = areaTerm p c + areaSum c r := by simp [areaSum]
    have h2 : shoeSum p (c :: r) = (p.x * c.y - c.x * p.y) + shoeSum c r := by simp [shoeSum]
    rw [h1, h2, ih, lastOf_cons]
    simp only [areaTerm]
    grind

/-- the two-at-a-time loop adds exactly the chain sum, and never faults when the parity flag matches -/
theorem areaGo_eq (odd : Bool) : ∀ (l : List Pt) (it2 : Pt) (a : Int),
    (l.length % 2 == 1) = odd → areaGo odd it2 a l = some (a + areaSum it2 l)
  | [], it2, a, h => by
    have : odd = false := by simpa using h.symm
    subst this; simp [areaGo, areaSum]
  | [x], it2, a, h => by
    have : odd = true := by simpa using h.symm
    subst this; simp [areaGo, areaSum]
  | p :: q :: rest, it2, a, h => by
    have h' : (rest.length % 2 == 1) = odd := by
      rw [← h]; simp only [List.length_cons]; congr 1; omega
    rw [areaGo, areaGo_eq odd rest q _ h']
    simp [areaSum]
    omega

theorem shoelace2_eq_shoeSum (a : Pt) (rest : List Pt) :
    shoelace2 (a :: rest) = shoeSum (lastOf a rest) (a :: rest) := by
  simp only [shoelace2, edgesOf_cons, shoeSum, chain_cons, chain_append, List.map_append, List.sum_append,
    List.map_cons, List.sum_cons, List.map_nil, List.sum_nil, chain_nil]
  omega

/-! ### magnitude bounds (exact-double regime) and truncated division -/

theorem mul26 {x y : Int} (hx : x.natAbs ≤ 2^26) (hy : y.natAbs ≤ 2^26) : (x * y).natAbs ≤ 2^52 := by
  rw [Int.natAbs_mul]; exact Nat.le_trans (Nat.mul_le_mul hx hy) (by decide)

theorem diff26 {x y : Int} (hx : x.natAbs ≤ 2^25) (hy : y.natAbs ≤ 2^25) : (x - y).natAbs ≤ 2^26 := by omega

theorem sub53 {u w : Int} (hu : u.natAbs ≤ 2^52) (hw : w.natAbs ≤ 2^52) : (u - w).natAbs ≤ 2^53 := by omega

theorem trunc_between {D X lo hi q r : Int} (_hD : D ≠ 0) (hq : D * q + r = X) (hr : r.natAbs < D.natAbs)
    (hlo : 0 ≤ (X - D * lo) * D) (hhi : 0 ≤ (D * hi - X) * D) : lo ≤ q ∧ q ≤ hi := by
  have hDD : D * D = ↑(D.natAbs * D.natAbs) := (Int.natAbs_mul_self (a := D)).symm
  have hrD : (r * D).natAbs < D.natAbs * D.natAbs := by
    rw [Int.natAbs_mul]; exact Nat.mul_lt_mul_of_pos_right hr (by omega)
  have hpos : 0 ≤ D * D := by rw [hDD]; exact Int.natCast_nonneg _
  constructor
  · apply Int.not_lt.mp
    intro hlt
    have h1 : (X - D * lo) * D = D * D * (q - lo) + r * D := by rw [← hq]; grind
    have h2 : D * D * (q - lo) ≤ D * D * (-1) := Int.mul_le_mul_of_nonneg_left (by omega) hpos
    generalize D * D * (q - lo) = t at *
    generalize r * D = u at *
    generalize D * D = s at *
    omega
  · apply Int.not_lt.mp
    intro hlt
    have h1 : (D * hi - X) * D = D * D * (hi - q) - r * D := by rw [← hq]; grind
    have h2 : D * D * (hi - q) ≤ D * D * (-1) := Int.mul_le_mul_of_nonneg_left (by omega) hpos
    generalize D * D * (hi - q) = t at *
    generalize r * D = u at *
    generalize D * D = s at *
    omega


end Clipper.Lemmas.Geom
