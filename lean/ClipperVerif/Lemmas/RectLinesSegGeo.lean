/-
C09 `lines_cover`: geometric meaning of the per-segment description for sign-exact arithmetic — a segment between
two vertices of class out contributes a two-point piece only if it meets the closed rectangle, and nothing only if it
does not enter the open rectangle; the second, unchecked `GetIntersection` call of a through-going segment succeeds
whenever the first one does.  Core Lean only.
-/
import ClipperVerif.Lemmas.RectLinesEmits
namespace Clipper.Lemmas.RLV
open Clipper Clipper.Model.RC Clipper.Lemmas.RC Clipper.Lemmas.RCE Clipper.Lemmas.RCA Clipper.Lemmas.RLC
open Clipper.Lemmas.RLG

theorem meets_symm {r : Rect} {p q : Pt} : Meets r q p ↔ Meets r p q := by
  unfold Meets MeetsO AllSame
  have e1 : (r.left - q.x) * (p.y - q.y) - (r.top - q.y) * (p.x - q.x) =
      -((r.left - p.x) * (q.y - p.y) - (r.top - p.y) * (q.x - p.x)) := by grind
  have e2 : (r.right - q.x) * (p.y - q.y) - (r.top - q.y) * (p.x - q.x) =
      -((r.right - p.x) * (q.y - p.y) - (r.top - p.y) * (q.x - p.x)) := by grind
  have e3 : (r.right - q.x) * (p.y - q.y) - (r.bottom - q.y) * (p.x - q.x) =
      -((r.right - p.x) * (q.y - p.y) - (r.bottom - p.y) * (q.x - p.x)) := by grind
  have e4 : (r.left - q.x) * (p.y - q.y) - (r.bottom - q.y) * (p.x - q.x) =
      -((r.left - p.x) * (q.y - p.y) - (r.bottom - p.y) * (q.x - p.x)) := by grind
  rw [e1, e2, e3, e4]
  omega

/-- **Soundness of `GetIntersection`** (sign-exact arithmetic, any `loc`): if it reports a crossing, the closed
segment meets the closed rectangle. -/
theorem getIntersection_true_meets {A : Arith} (hA : SignExact A) (ht : IsectTotal A) {r : Rect}
    (hw : r.left < r.right) (hh : r.top < r.bottom) (p q : Pt) (loc : Location) (ip : Pt)
    (h : (getIntersection A r p q loc ip).1 = true) : Meets r p q := by
  unfold getIntersection at h
  rw [tryArms_iff hA ht] at h
  obtain ⟨arm, hm, _, hhit⟩ := h
  have hedge := arms_edges r p loc arm hm
  unfold Meets
  rcases hedge with ⟨ha, hb⟩ | ⟨ha, hb⟩ | ⟨ha, hb⟩ | ⟨ha, hb⟩
  · rw [ha, hb, hitL hh] at hhit; exact hitLow_meets (by omega) (by omega) hhit
  · rw [ha, hb, hitT hw] at hhit; exact hitLowT_meets (by omega) (by omega) hhit
  · rw [ha, hb, hitR hh] at hhit; exact hitHigh_meets (by omega) (by omega) hhit
  · rw [ha, hb, hitB hw] at hhit; exact hitHighT_meets (by omega) (by omega) hhit

theorem onSideLine_ready {r : Rect} {loc : Location} {q : Pt} (h : OnSideLine r loc q) : Ready r loc q := by
  cases loc <;> simp only [OnSideLine] at h <;> simp only [Ready] <;> omega

/-- The closed segment does not enter the open rectangle, for one of two reasons: both end points lie in one closed
outer half-plane, or the segment misses even the closed rectangle. -/
def Outside2 (r : Rect) (prv cur : Pt) : Prop :=
  (∃ loc, loc ≠ .inside ∧ Ready r loc prv ∧ Ready r loc cur) ∨ ¬ Meets r prv cur

/-- **A segment between two vertices of class out, geometrically** (sign-exact arithmetic): it contributes nothing
and does not enter the open rectangle, or it meets the closed rectangle and contributes two crossing points, both
`GetIntersection` calls having succeeded (the flag of the first point is `true`). -/
theorem segPart_out_out {A : Arith} (hA : SignExact A) (ht : IsectTotal A) {r : Rect} (hw : r.left < r.right)
    (hh : r.top < r.bottom) {k : Nat} {prv cur : Pt} {es : List Emit} (h : SegPart A r k prv cur false false es) :
    (es = [] ∧ Outside2 r prv cur) ∨
    (Meets r prv cur ∧ ∃ loc loc2, loc ≠ .inside ∧ Ready r loc cur ∧ loc2 ≠ .inside ∧ Ready r loc2 prv ∧
      (getIntersection A r cur prv loc ⟨0, 0⟩).1 = true ∧ (getIntersection A r prv cur loc2 ⟨0, 0⟩).1 = true ∧
      es = [⟨k, (getIntersection A r prv cur loc2 ⟨0, 0⟩).2.2, true, .thru1 true⟩,
            ⟨k, (getIntersection A r cur prv loc ⟨0, 0⟩).2.2, false, .thru2⟩]) := by
  simp only [SegPart] at h
  rcases h with ⟨rfl, h | ⟨loc, hl, hr, hnf⟩⟩ | ⟨loc, loc2, hl, hr, hf, hl2, hr2, hnr2, rfl⟩
  · exact Or.inl ⟨rfl, Or.inl h⟩
  · by_cases hon : OnSideLine r loc cur ∧ OnSideLine r loc prv
    · exact Or.inl ⟨rfl, Or.inl ⟨loc, hl, onSideLine_ready hon.2, hr⟩⟩
    · refine Or.inl ⟨rfl, Or.inr ?_⟩
      intro hm
      have := (getIntersection_outside_iff hA ht hw hh hr hl hon ⟨0, 0⟩).mpr (meets_symm.mp hm)
      rw [hnf] at this; cases this
  · have hm : Meets r prv cur := meets_symm.mp (getIntersection_true_meets hA ht hw hh cur prv loc ⟨0, 0⟩ hf)
    have h2 : (getIntersection A r prv cur loc2 ⟨0, 0⟩).1 = true :=
      (getIntersection_outside_iff hA ht hw hh hr2 hl2
        (fun hc => hnr2 (onSideLine_ready hc.2)) ⟨0, 0⟩).mpr hm
    refine Or.inr ⟨hm, loc, loc2, hl, hr, hl2, hr2, hf, h2, ?_⟩
    rw [h2]

/-- a property of all emitted calls follows from the property for every segment's contribution -/
theorem tailP_all {r : Rect} {Q : SegDesc} {Pr : Emit → Prop}
    (hQ : ∀ k prv cur ip ic es, Q k prv cur ip ic es → ∀ e ∈ es, Pr e) :
    ∀ (l : List Pt) (k : Nat) (ip : Bool) (es : List Emit), TailP r Q k ip l es → ∀ e ∈ es, Pr e
  | [], _, _, _, ht => by simp only [TailP] at ht; subst ht; simp
  | [_], _, _, _, ht => by simp only [TailP] at ht; subst ht; simp
  | prv :: cur :: rest, k, ip, es, ht => by
    unfold TailP at ht
    obtain ⟨e1, e2, rfl, h1, h2⟩ := ht
    intro e he
    rcases List.mem_append.mp he with he | he
    · exact hQ _ _ _ _ _ _ h1 e he
    · exact tailP_all hQ (cur :: rest) (k + 1) _ e2 h2 e he

theorem coverP_all {r : Rect} {Q : SegDesc} {Pr : Emit → Prop}
    (hQ : ∀ k prv cur ip ic es, Q k prv cur ip ic es → ∀ e ∈ es, Pr e) (hV : ∀ k p, Pr (V k p))
    {path : Path} {es : List Emit} (hc : CoverP r Q path es) : ∀ e ∈ es, Pr e := by
  unfold CoverP at hc
  match path, hc with
  | [], hc => subst hc; simp
  | p0 :: rest, hc =>
    obtain ⟨e2, rfl, ht⟩ := hc
    intro e he
    rcases List.mem_append.mp he with he | he
    · split at he
      · simp only [List.mem_singleton] at he; subst he; exact hV 0 p0
      · simp at he
    · exact tailP_all hQ _ _ _ _ ht e he

/-- no contribution of a segment contains a first through-point whose `GetIntersection` call failed -/
theorem segPart_no_lost {A : Arith} (hA : SignExact A) (ht : IsectTotal A) {r : Rect} (hw : r.left < r.right)
    (hh : r.top < r.bottom) (k : Nat) (prv cur : Pt) (ip ic : Bool) (es : List Emit)
    (h : SegPart A r k prv cur ip ic es) : ∀ e ∈ es, e.kind ≠ .thru1 false := by
  cases ip <;> cases ic
  · rcases segPart_out_out hA ht hw hh h with ⟨rfl, _⟩ | ⟨_, loc, loc2, _, _, _, _, _, _, rfl⟩
    · simp
    · intro e he
      simp only [List.mem_cons, List.not_mem_nil, or_false] at he
      rcases he with rfl | rfl <;> simp
  · simp only [SegPart] at h
    obtain ⟨_, rfl⟩ := h
    intro e he
    simp only [List.mem_cons, List.not_mem_nil, or_false] at he
    rcases he with rfl | rfl <;> simp [V]
  · simp only [SegPart] at h
    obtain ⟨loc, _, _, rfl⟩ := h
    intro e he
    simp only [List.mem_singleton] at he
    subst he; simp
  · simp only [SegPart] at h
    subst h
    intro e he
    simp only [List.mem_singleton] at he
    subst he; simp [V]

end Clipper.Lemmas.RLV
