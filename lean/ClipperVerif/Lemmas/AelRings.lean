/-
Lemmas about the ring assembly model `Model/AelRings.lean` (theorems: `Props/C01Rings.lean`).
-/
import ClipperVerif.Model.AelRings
import ClipperVerif.Lemmas.AelSides
namespace Clipper.Model

/-! ## lists of rings -/

theorem allPts_cons (r : Ring) (rs : List Ring) : allPts (r :: rs) = r.pts ++ allPts rs := by simp [allPts]
theorem allPts_append (a b : List Ring) : allPts (a ++ b) = allPts a ++ allPts b := by simp [allPts]

theorem perm_swap3 {α} (a b c : List α) : (a ++ (b ++ c)).Perm (b ++ (a ++ c)) := by
  rw [← List.append_assoc, ← List.append_assoc]
  exact List.Perm.append_right c List.perm_append_comm

/-- replacing ring `id`: its old points on the left balance its new points on the right -/
theorem allPts_set (l : List Ring) : ∀ (id : Nat) (r r' : Ring), l[id]? = some r →
    (r.pts ++ allPts (l.set id r')).Perm (r'.pts ++ allPts l) := by
  induction l with
  | nil => intro id r r' h; simp at h
  | cons x xs ih =>
    intro id r r' h
    cases id with
    | zero =>
      simp at h; subst h
      simp only [List.set_cons_zero, allPts_cons]
      exact perm_swap3 _ _ _
    | succ k =>
      simp at h
      simp only [List.set_cons_succ, allPts_cons]
      exact (perm_swap3 _ _ _).trans (((ih k r r' h).append_left x.pts).trans (perm_swap3 _ _ _))

theorem allPts_set_same (l : List Ring) (id : Nat) (r r' : Ring) (h : l[id]? = some r) (hp : r'.pts = r.pts) :
    allPts (l.set id r') = allPts l := by
  induction l generalizing id with
  | nil => simp at h
  | cons x xs ih =>
    cases id with
    | zero => simp at h; subst h; simp [allPts_cons, hp]
    | succ k => simp at h; simp [allPts_cons, ih k h]

/-- the points for which an `OutPt` was created -/
def keptPts (log : List Emit) : List Pt := (log.filter Emit.kept).map (·.pt)

/-- conservation: the points in the rings are the points for which an `OutPt` was created -/
def PermOK (o : Out) : Prop := (allPts o.rings).Perm (keptPts o.log)

theorem keptPts_cons (e : Emit) (log : List Emit) : keptPts (e :: log) = if e.kept then e.pt :: keptPts log else keptPts log := by
  simp only [keptPts, List.filter_cons]; split <;> simp

/-- replacing ring `id` by one with the points `X` added -/
theorem allPts_set_add (l : List Ring) (id : Nat) (r r' : Ring) (X : List Pt) (h : l[id]? = some r) (hp : r'.pts.Perm (X ++ r.pts)) :
    (allPts (l.set id r')).Perm (X ++ allPts l) := by
  have h1 := allPts_set l id r r' h
  have h2 : (r'.pts ++ allPts l).Perm (r.pts ++ (X ++ allPts l)) :=
    ((hp.append_right (allPts l)).trans (by rw [List.append_assoc]; exact perm_swap3 _ _ _))
  exact (List.perm_append_left_iff r.pts).mp (h1.trans h2)

theorem endPt_none (f : Bool) (pts : List Pt) (h : endPt f pts = none) : pts = [] := by
  cases f <;> simp [endPt] at h <;> exact h

theorem endPt_some_ne (f : Bool) (pts : List Pt) (p : Pt) (h : endPt f pts = some p) : pts ≠ [] := by
  intro hn; subst hn; cases f <;> simp [endPt] at h

theorem setLast_pts (r : Ring) (f : Bool) (pt : Pt) : (r.setLast f pt).pts = r.pts := by
  cases f <;> simp [Ring.setLast]
theorem setLast_stat (r : Ring) (f : Bool) (pt : Pt) : (r.setLast f pt).stat = r.stat := by
  cases f <;> simp [Ring.setLast]

/-- `AddOutPt` on one ring: either the point is suppressed and the ring unchanged, or it is added at the end -/
theorem addPt_spec (f : Bool) (pt : Pt) (r : Ring) :
    ((addPt f pt r).2.1 = .dup ∧ (addPt f pt r).1.pts = r.pts ∧ endPt f r.pts = some pt) ∨
    ((addPt f pt r).2.1 = .added ∧ (addPt f pt r).1.pts = (if f then pt :: r.pts else r.pts ++ [pt]) ∧ endPt f r.pts ≠ some pt) := by
  unfold addPt
  split
  · next p hp =>
    split
    · next h => left; subst h; exact ⟨rfl, setLast_pts _ _ _, hp⟩
    · next h => right; refine ⟨rfl, rfl, ?_⟩; rw [hp]; intro hh; cases hh; exact h rfl
  · next hn =>
    right
    have := endPt_none f r.pts hn
    refine ⟨rfl, ?_, by rw [hn]; simp⟩
    cases f <;> simp [this]

theorem addPt_stat (f : Bool) (pt : Pt) (r : Ring) : (addPt f pt r).1.stat = r.stat := by
  unfold addPt
  split
  · split <;> simp [setLast_stat]
  · simp [setLast_stat]

theorem permOK_newRec (pt : Pt) (o : Out) (h : PermOK o) : PermOK (newRec pt o) := by
  unfold PermOK newRec at *
  simp only [allPts_append, keptPts_cons, Emit.kept]
  simp only [allPts, List.flatMap_cons, List.flatMap_nil, List.append_nil]
  exact (List.perm_append_singleton pt _).trans (h.cons pt)

theorem permOK_addOutPt (id : Nat) (f : Bool) (pt : Pt) (o : Out) (h : PermOK o) : PermOK (addOutPt id f pt o) := by
  unfold addOutPt
  split
  · next r hr =>
    split
    · rcases addPt_spec f pt r with ⟨h1, h2, _⟩ | ⟨h1, h2, _⟩
      · unfold PermOK at *
        simp only [keptPts_cons, Emit.kept, h1]
        rw [allPts_set_same _ _ r _ hr h2]
        exact h
      · unfold PermOK at *
        simp only [keptPts_cons, Emit.kept, h1]
        have hp : (addPt f pt r).1.pts.Perm ([pt] ++ r.pts) := by
          rw [h2]; cases f <;> simp <;> exact List.perm_append_singleton pt _
        exact (allPts_set_add _ _ r _ [pt] hr hp).trans (by simpa using h.cons pt)
    · unfold PermOK at *; simpa [keptPts_cons, Emit.kept] using h
  · unfold PermOK at *; simpa [keptPts_cons, Emit.kept] using h

theorem permOK_handOver (id : Nat) (f : Bool) (o : Out) (h : PermOK o) : PermOK (handOver id f o) := by
  unfold handOver
  split
  · next r hr =>
    unfold PermOK at *
    simp only
    rw [allPts_set_same _ _ r _ hr (by cases f <;> simp)]
    exact h
  · exact h

theorem rotate_perm (pts : List Pt) (b : Pt) (h : pts.getLast? = some b) : (b :: pts.dropLast).Perm pts := by
  have : pts = pts.dropLast ++ [b] := by
    have hne : pts ≠ [] := by intro hn; subst hn; simp at h
    have := List.dropLast_concat_getLast hne
    rw [List.getLast?_eq_some_getLast hne] at h
    cases h; exact this.symm
  conv => rhs; rw [this]
  exact (List.perm_append_singleton b _).symm

theorem permOK_finish (id : Nat) (f : Bool) (o : Out) (h : PermOK o) : PermOK (finish id f o) := by
  unfold finish
  split
  · next r hr =>
    unfold PermOK at *
    simp only
    refine (allPts_set_add _ _ r _ [] hr ?_).trans (by simpa using h)
    simp only [List.nil_append]
    split
    · exact List.Perm.refl _
    · split
      · next b hb => exact rotate_perm _ _ hb
      · exact List.Perm.refl _
  · exact h

theorem permOK_joinPaths (A B : Nat) (f : Bool) (o : Out) (h : PermOK o) : PermOK (joinPaths A B f o) := by
  unfold joinPaths
  split
  · next ra rb hA hB =>
    split
    · next hc =>
      unfold PermOK at *
      simp only
      have hB' : (o.rings.set A (if f then { ra with pts := rb.pts ++ ra.pts, frun := rb.frun, flast := rb.flast }
          else { ra with pts := ra.pts ++ rb.pts, brun := rb.brun, blast := rb.blast }))[B]? = some rb := by
        rw [List.getElem?_set_ne hc.1]; exact hB
      have h1 := allPts_set_add o.rings A ra (if f then { ra with pts := rb.pts ++ ra.pts, frun := rb.frun, flast := rb.flast }
          else { ra with pts := ra.pts ++ rb.pts, brun := rb.brun, blast := rb.blast }) rb.pts hA (by
            cases f <;> simp <;> exact List.perm_append_comm)
      have h2 := allPts_set _ B rb { rb with pts := [], stat := .gone } hB'
      simp only [List.nil_append] at h2
      exact ((List.perm_append_left_iff rb.pts).mp (h2.trans h1)).trans h
    · exact h
  · exact h

theorem permOK_logSeg (k : SegKind) (i1 : Nat) (f1 : Bool) (i2 : Nat) (f2 : Bool) (o : Out) (h : PermOK o) : PermOK (logSeg k i1 f1 i2 f2 o) := by
  unfold logSeg
  split
  · split
    · exact h
    · exact h
  · exact h


/-! ## live rings -/

/-- record `id` is a ring under construction with at least one point -/
def LiveAt (rings : List Ring) (id : Nat) : Prop := ∃ g, rings[id]? = some g ∧ g.stat = .live ∧ g.pts ≠ []

theorem liveAt_set (l : List Ring) (id id' : Nat) (r' : Ring) (h : LiveAt l id')
    (hr : id' = id → r'.stat = .live ∧ r'.pts ≠ []) : LiveAt (l.set id r') id' := by
  obtain ⟨g, hg, h1, h2⟩ := h
  by_cases e : id' = id
  · subst e
    have hlt : id' < l.length := by
      rcases Nat.lt_or_ge id' l.length with h | h
      · exact h
      · rw [List.getElem?_eq_none h] at hg; cases hg
    exact ⟨r', by rw [List.getElem?_set_self hlt], (hr rfl).1, (hr rfl).2⟩
  · exact ⟨g, by rw [List.getElem?_set_ne (fun h => e h.symm)]; exact hg, h1, h2⟩

theorem addPt_pts_ne (f : Bool) (pt : Pt) (r : Ring) : (addPt f pt r).1.pts ≠ [] := by
  rcases addPt_spec f pt r with ⟨_, h2, h3⟩ | ⟨_, h2, _⟩
  · rw [h2]; exact endPt_some_ne _ _ _ h3
  · rw [h2]; cases f <;> simp

theorem addOutPt_rings (id : Nat) (f : Bool) (pt : Pt) (o : Out) :
    (addOutPt id f pt o).rings = match o.rings[id]? with
      | some r => if r.stat = .live then o.rings.set id (addPt f pt r).1 else o.rings
      | none => o.rings := by
  unfold addOutPt
  cases h : o.rings[id]? with
  | none => rfl
  | some r => by_cases hl : r.stat = .live <;> simp [hl]

theorem addOutPt_segs_sub (id : Nat) (f : Bool) (pt : Pt) (o : Out) : ∀ sg ∈ o.segs, sg ∈ (addOutPt id f pt o).segs := by
  intro sg h
  unfold addOutPt
  split
  · split
    · simp only [List.mem_append]; right; exact h
    · exact h
  · exact h

theorem liveAt_newRec_old (pt : Pt) (o : Out) (id : Nat) (h : LiveAt o.rings id) : LiveAt (newRec pt o).rings id := by
  obtain ⟨g, hg, h1, h2⟩ := h
  have hlt : id < o.rings.length := by
    rcases Nat.lt_or_ge id o.rings.length with h | h
    · exact h
    · rw [List.getElem?_eq_none h] at hg; cases hg
  exact ⟨g, by simp only [newRec]; rw [List.getElem?_append_left hlt]; exact hg, h1, h2⟩

theorem liveAt_newRec_new (pt : Pt) (o : Out) : LiveAt (newRec pt o).rings o.rings.length := by
  refine ⟨{ pts := [pt], stat := .live, frun := o.nrun, brun := o.nrun + 1, flast := pt, blast := pt }, ?_, rfl, by simp⟩
  simp [newRec]

theorem liveAt_addOutPt (id : Nat) (f : Bool) (pt : Pt) (o : Out) (id' : Nat) (h : LiveAt o.rings id') :
    LiveAt (addOutPt id f pt o).rings id' := by
  rw [addOutPt_rings]
  split
  · next r hr =>
    split
    · next hl => exact liveAt_set _ _ _ _ h (fun _ => ⟨by rw [addPt_stat]; exact hl, addPt_pts_ne _ _ _⟩)
    · exact h
  · exact h

theorem liveAt_handOver (id : Nat) (f : Bool) (o : Out) (id' : Nat) (h : LiveAt o.rings id') : LiveAt (handOver id f o).rings id' := by
  unfold handOver
  split
  · next r hr =>
    refine liveAt_set _ _ _ _ h (fun e => ?_)
    subst e
    obtain ⟨g, hg, h1, h2⟩ := h
    rw [hr] at hg; cases hg
    cases f <;> exact ⟨h1, h2⟩
  · exact h

theorem logSeg_rings (k : SegKind) (i1 : Nat) (f1 : Bool) (i2 : Nat) (f2 : Bool) (o : Out) : (logSeg k i1 f1 i2 f2 o).rings = o.rings := by
  unfold logSeg
  split
  · split <;> rfl
  · rfl

theorem logSeg_log (k : SegKind) (i1 : Nat) (f1 : Bool) (i2 : Nat) (f2 : Bool) (o : Out) : (logSeg k i1 f1 i2 f2 o).log = o.log := by
  unfold logSeg
  split
  · split <;> rfl
  · rfl

theorem logSeg_segs_sub (k : SegKind) (i1 : Nat) (f1 : Bool) (i2 : Nat) (f2 : Bool) (o : Out) : ∀ sg ∈ o.segs, sg ∈ (logSeg k i1 f1 i2 f2 o).segs := by
  intro sg h
  unfold logSeg
  split
  · split
    · simp only [List.mem_cons]; right; exact h
    · exact h
  · exact h

/-- `logSeg` records the pair of end points when both ends exist -/
theorem logSeg_has (k : SegKind) (i1 : Nat) (f1 : Bool) (i2 : Nat) (f2 : Bool) (o : Out) (r1 r2 : Ring) (p q : Pt)
    (h1 : o.rings[i1]? = some r1) (h2 : o.rings[i2]? = some r2) (hp : endPt f1 r1.pts = some p) (hq : endPt f2 r2.pts = some q) :
    ∃ sg ∈ (logSeg k i1 f1 i2 f2 o).segs, sg.p = p ∧ sg.q = q := by
  unfold logSeg
  simp only [h1, h2, hp, hq]
  exact ⟨_, List.mem_cons_self, rfl, rfl⟩

theorem liveAt_finish (id : Nat) (f : Bool) (o : Out) (id' : Nat) (h : LiveAt o.rings id') (hne : id' ≠ id) : LiveAt (finish id f o).rings id' := by
  unfold finish
  split
  · exact liveAt_set _ _ _ _ h (fun e => absurd e hne)
  · exact h

theorem liveAt_joinPaths (A B : Nat) (f : Bool) (o : Out) (id' : Nat) (h : LiveAt o.rings id') (hne : id' ≠ B) : LiveAt (joinPaths A B f o).rings id' := by
  unfold joinPaths
  split
  · next ra rb hA hB =>
    split
    · next hc =>
      refine liveAt_set _ _ _ _ (liveAt_set _ _ _ _ h (fun e => ?_)) (fun e => absurd e hne)
      subst e
      obtain ⟨g, hg, h1, h2⟩ := h
      rw [hA] at hg; cases hg
      cases f
      · exact ⟨h1, by simp [h2]⟩
      · exact ⟨h1, by simp [h2]⟩
    · exact h
  · exact h

theorem length_newRec (pt : Pt) (o : Out) : (newRec pt o).rings.length = o.rings.length + 1 := by simp [newRec]
theorem length_addOutPt (id : Nat) (f : Bool) (pt : Pt) (o : Out) : (addOutPt id f pt o).rings.length = o.rings.length := by
  rw [addOutPt_rings]; split
  · split <;> simp
  · rfl
theorem length_handOver (id : Nat) (f : Bool) (o : Out) : (handOver id f o).rings.length = o.rings.length := by
  unfold handOver; split <;> simp
theorem length_finish (id : Nat) (f : Bool) (o : Out) : (finish id f o).rings.length = o.rings.length := by
  unfold finish; split <;> simp
theorem length_joinPaths (A B : Nat) (f : Bool) (o : Out) : (joinPaths A B f o).rings.length = o.rings.length := by
  unfold joinPaths; split
  · split <;> simp
  · rfl

/-! ## no point is lost -/

def NoLost (o : Out) : Prop := ∀ e ∈ o.log, e.kind ≠ .lost

theorem noLost_newRec (pt : Pt) (o : Out) (h : NoLost o) : NoLost (newRec pt o) := by
  intro e he
  simp only [newRec, List.mem_cons] at he
  rcases he with rfl | he
  · simp
  · exact h e he

theorem addPt_kind_ne (f : Bool) (pt : Pt) (r : Ring) : (addPt f pt r).2.1 ≠ .lost := by
  rcases addPt_spec f pt r with ⟨h1, _⟩ | ⟨h1, _⟩ <;> rw [h1] <;> simp

theorem noLost_addOutPt (id : Nat) (f : Bool) (pt : Pt) (o : Out) (h : NoLost o) (hl : LiveAt o.rings id) : NoLost (addOutPt id f pt o) := by
  obtain ⟨g, hg, h1, _⟩ := hl
  intro e he
  unfold addOutPt at he
  simp only [hg, h1, if_true, List.mem_cons] at he
  rcases he with rfl | he
  · exact addPt_kind_ne _ _ _
  · exact h e he

theorem log_handOver (id : Nat) (f : Bool) (o : Out) : (handOver id f o).log = o.log := by unfold handOver; split <;> rfl
theorem log_finish (id : Nat) (f : Bool) (o : Out) : (finish id f o).log = o.log := by unfold finish; split <;> rfl
theorem log_joinPaths (A B : Nat) (f : Bool) (o : Out) : (joinPaths A B f o).log = o.log := by
  unfold joinPaths; split
  · split <;> rfl
  · rfl


/-! ## ring ends -/

/-- the end points of a ring under construction are the last points emitted at its two ends -/
def EndsOK (o : Out) : Prop := ∀ g ∈ o.rings, g.stat = .live → endPt true g.pts = some g.flast ∧ endPt false g.pts = some g.blast

theorem mem_of_get {α} (l : List α) (i : Nat) (x : α) (h : l[i]? = some x) : x ∈ l := List.mem_of_getElem? h

theorem endsOK_newRec (pt : Pt) (o : Out) (h : EndsOK o) : EndsOK (newRec pt o) := by
  intro g hg hl
  simp only [newRec, List.mem_append, List.mem_singleton] at hg
  rcases hg with hg | rfl
  · exact h g hg hl
  · simp [endPt]

theorem getLast?_cons_ne (a : Pt) (l : List Pt) (h : l ≠ []) : (a :: l).getLast? = l.getLast? := by
  cases l with
  | nil => exact absurd rfl h
  | cons b t => simp [List.getLast?_cons_cons]

theorem head?_append_ne (l m : List Pt) (h : l ≠ []) : (l ++ m).head? = l.head? := by
  cases l with
  | nil => exact absurd rfl h
  | cons b t => simp

theorem getLast?_append_ne (l m : List Pt) (h : m ≠ []) : (l ++ m).getLast? = m.getLast? := by
  rw [List.getLast?_append, List.getLast?_eq_some_getLast h]; rfl

theorem endsOK_addPt (f : Bool) (pt : Pt) (r : Ring) (h : endPt true r.pts = some r.flast ∧ endPt false r.pts = some r.blast) :
    endPt true (addPt f pt r).1.pts = some (addPt f pt r).1.flast ∧ endPt false (addPt f pt r).1.pts = some (addPt f pt r).1.blast := by
  have hne : r.pts ≠ [] := endPt_some_ne _ _ _ h.1
  obtain ⟨h1, h2⟩ := h
  unfold addPt
  cases f with
  | true =>
    rw [h1]; simp only
    split
    · next e => subst e; simp only [Ring.setLast, if_true]; exact ⟨h1, h2⟩
    · simp only [Ring.setLast, if_true, endPt, List.head?_cons, Bool.false_eq_true, if_false]
      refine ⟨trivial, ?_⟩
      rw [getLast?_cons_ne _ _ hne]; simpa [endPt] using h2
  | false =>
    rw [h2]; simp only
    split
    · next e => subst e; simp only [Ring.setLast, Bool.false_eq_true, if_false]; exact ⟨h1, h2⟩
    · simp only [Ring.setLast, Bool.false_eq_true, if_false, endPt, if_true]
      refine ⟨?_, by simp⟩
      rw [head?_append_ne _ _ hne]; simpa [endPt] using h1

theorem endsOK_addOutPt (id : Nat) (f : Bool) (pt : Pt) (o : Out) (h : EndsOK o) : EndsOK (addOutPt id f pt o) := by
  intro g hg hl
  rw [addOutPt_rings] at hg
  split at hg
  · next r hr =>
    split at hg
    · next hlive =>
      rcases List.mem_or_eq_of_mem_set hg with hg | rfl
      · exact h g hg hl
      · exact endsOK_addPt f pt r (h r (mem_of_get _ _ _ hr) hlive)
    · exact h g hg hl
  · exact h g hg hl

theorem endsOK_handOver (id : Nat) (f : Bool) (o : Out) (h : EndsOK o) : EndsOK (handOver id f o) := by
  intro g hg hl
  unfold handOver at hg
  split at hg
  · next r hr =>
    rcases List.mem_or_eq_of_mem_set hg with hg | rfl
    · exact h g hg hl
    · have := h r (mem_of_get _ _ _ hr) (by cases f <;> simpa using hl)
      cases f <;> simpa using this
  · exact h g hg hl

theorem endsOK_finish (id : Nat) (f : Bool) (o : Out) (h : EndsOK o) : EndsOK (finish id f o) := by
  intro g hg hl
  unfold finish at hg
  split at hg
  · rcases List.mem_or_eq_of_mem_set hg with hg | rfl
    · exact h g hg hl
    · simp at hl
  · exact h g hg hl

theorem endsOK_joinPaths (A B : Nat) (f : Bool) (o : Out) (h : EndsOK o) : EndsOK (joinPaths A B f o) := by
  intro g hg hl
  unfold joinPaths at hg
  split at hg
  · next ra rb hA hB =>
    split at hg
    · next hc =>
      rcases List.mem_or_eq_of_mem_set hg with hg | rfl
      · rcases List.mem_or_eq_of_mem_set hg with hg | rfl
        · exact h g hg hl
        · have ha := h ra (mem_of_get _ _ _ hA) hc.2.1
          have hb := h rb (mem_of_get _ _ _ hB) hc.2.2
          have hane := endPt_some_ne _ _ _ ha.1
          have hbne := endPt_some_ne _ _ _ hb.1
          cases f with
          | true =>
            simp only [if_true, endPt, Bool.false_eq_true, if_false]
            rw [head?_append_ne _ _ hbne, getLast?_append_ne _ _ hane]
            exact ⟨by simpa [endPt] using hb.1, by simpa [endPt] using ha.2⟩
          | false =>
            simp only [Bool.false_eq_true, if_false, endPt, if_true]
            rw [head?_append_ne _ _ hane, getLast?_append_ne _ _ hbne]
            exact ⟨by simpa [endPt] using ha.1, by simpa [endPt] using hb.2⟩
      · simp at hl
    · exact h g hg hl
  · exact h g hg hl

theorem endsOK_logSeg (k : SegKind) (i1 : Nat) (f1 : Bool) (i2 : Nat) (f2 : Bool) (o : Out) (h : EndsOK o) : EndsOK (logSeg k i1 f1 i2 f2 o) := by
  intro g hg hl
  rw [logSeg_rings] at hg
  exact h g hg hl


/-! ## neighbours -/

theorem linPairs_cons_cons (a b : Pt) (t : List Pt) : linPairs (a :: b :: t) = (a, b) :: linPairs (b :: t) := by simp [linPairs]

theorem mem_linPairs_append (xs ys : List Pt) (pq : Pt × Pt) :
    pq ∈ linPairs (xs ++ ys) ↔ pq ∈ linPairs xs ∨ pq ∈ linPairs ys ∨ (∃ a b, xs.getLast? = some a ∧ ys.head? = some b ∧ pq = (a, b)) := by
  induction xs with
  | nil => simp [linPairs]
  | cons a t ih =>
    cases t with
    | nil =>
      cases ys with
      | nil => simp [linPairs]
      | cons b u =>
        simp only [List.cons_append, List.nil_append, linPairs_cons_cons, List.mem_cons, List.getLast?_singleton, List.head?_cons]
        constructor
        · rintro (h | h)
          · right; right; exact ⟨a, b, rfl, rfl, h⟩
          · right; left; exact h
        · rintro (h | h | ⟨a', b', h1, h2, h3⟩)
          · simp [linPairs] at h
          · right; exact h
          · cases h1; cases h2; left; exact h3
    | cons a' t' =>
      simp only [List.cons_append, linPairs_cons_cons, List.mem_cons, List.getLast?_cons_cons]
      simp only [List.cons_append] at ih
      rw [ih]
      constructor
      · rintro (h | h | h | h)
        · left; left; exact h
        · left; right; exact h
        · right; left; exact h
        · right; right; exact h
      · rintro ((h | h) | h | h)
        · left; exact h
        · right; left; exact h
        · right; right; left; exact h
        · right; right; right; exact h

theorem zip_append_singleton {α β} (xs : List α) (c : α) : ∀ (ys : List β), xs.length = ys.length → (xs ++ [c]).zip ys = xs.zip ys := by
  induction xs with
  | nil => intro ys h; cases ys with
    | nil => rfl
    | cons _ _ => simp at h
  | cons x t ih => intro ys h; cases ys with
    | nil => simp at h
    | cons y u => simp at h; simp [ih u h]

theorem cycPairs_eq_lin (a : Pt) (rest : List Pt) : cycPairs (a :: rest) = linPairs ((a :: rest) ++ [a]) := by
  simp only [cycPairs, linPairs, List.cons_append]
  have := zip_append_singleton (a :: rest) a (rest ++ [a]) (by simp)
  simpa using this.symm

theorem mem_cycPairs (l : List Pt) (pq : Pt × Pt) :
    pq ∈ cycPairs l ↔ pq ∈ linPairs l ∨ (∃ a b, l.getLast? = some a ∧ l.head? = some b ∧ pq = (a, b)) := by
  cases l with
  | nil => simp [cycPairs, linPairs]
  | cons a rest =>
    rw [cycPairs_eq_lin, mem_linPairs_append]
    simp [linPairs]

/-- the pair is in the segment log, in one of the two orientations -/
def Covered (segs : List Seg) (pq : Pt × Pt) : Prop := ∃ sg ∈ segs, segMatches sg pq = true

theorem covered_mono (s1 s2 : List Seg) (pq : Pt × Pt) (h : ∀ sg ∈ s1, sg ∈ s2) (hc : Covered s1 pq) : Covered s2 pq := by
  obtain ⟨sg, h1, h2⟩ := hc; exact ⟨sg, h sg h1, h2⟩

theorem covered_of_seg (segs : List Seg) (sg : Seg) (h : sg ∈ segs) (p q : Pt) (hp : sg.p = p) (hq : sg.q = q) : Covered segs (p, q) ∧ Covered segs (q, p) := by
  subst hp; subst hq
  exact ⟨⟨sg, h, by simp [segMatches]⟩, ⟨sg, h, by simp [segMatches]⟩⟩

/-- the neighbour pairs of a ring: cyclic when it is finished, linear while it is under construction -/
def pairsOf (g : Ring) : List (Pt × Pt) :=
  match g.stat with
  | .done => cycPairs g.pts
  | _ => linPairs g.pts

/-- every pair of ring neighbours is in the segment log -/
def SegsOK (o : Out) : Prop := ∀ g ∈ o.rings, ∀ pq ∈ pairsOf g, Covered o.segs pq

theorem segsOK_newRec (pt : Pt) (o : Out) (h : SegsOK o) : SegsOK (newRec pt o) := by
  intro g hg pq hpq
  simp only [newRec, List.mem_append, List.mem_singleton] at hg
  rcases hg with hg | rfl
  · exact h g hg pq hpq
  · simp [pairsOf, linPairs] at hpq

theorem segsOK_addOutPt (id : Nat) (f : Bool) (pt : Pt) (o : Out) (h : SegsOK o) : SegsOK (addOutPt id f pt o) := by
  have hsub := addOutPt_segs_sub id f pt o
  intro g hg pq hpq
  have old : ∀ g ∈ o.rings, ∀ pq ∈ pairsOf g, Covered (addOutPt id f pt o).segs pq :=
    fun g hg pq hpq => covered_mono _ _ _ hsub (h g hg pq hpq)
  rw [addOutPt_rings] at hg
  split at hg
  · next r hr =>
    split at hg
    · next hlive =>
      rcases List.mem_or_eq_of_mem_set hg with hg | rfl
      · exact old g hg pq hpq
      · have hr' := h r (mem_of_get _ _ _ hr)
        have hst : (addPt f pt r).1.stat = .live := by rw [addPt_stat]; exact hlive
        simp only [pairsOf, hst] at hpq
        simp only [pairsOf, hlive] at hr'
        have hsegs : (addOutPt id f pt o).segs = (addPt f pt r).2.2 ++ o.segs := by
          unfold addOutPt; simp [hr, hlive]
        rw [hsegs]
        unfold addPt at hpq ⊢
        cases hp : endPt f r.pts with
        | none =>
          simp only [hp] at hpq
          simp [linPairs] at hpq
        | some p =>
          simp only [hp] at hpq ⊢
          split at hpq
          · next e =>
            simp only [setLast_pts, e, if_true] at hpq ⊢
            exact covered_mono _ _ _ (fun sg h => List.mem_append_right _ h) (hr' pq hpq)
          · next e =>
            simp only [e, if_false] at hpq ⊢
            have hseg : Covered ([⟨r.run f, p, pt, .extend⟩] ++ o.segs) (p, pt) ∧ Covered ([⟨r.run f, p, pt, .extend⟩] ++ o.segs) (pt, p) :=
              covered_of_seg _ ⟨r.run f, p, pt, .extend⟩ (by simp) p pt rfl rfl
            cases f with
            | true =>
              simp only [if_true, setLast_pts] at hpq
              simp only [endPt, if_true] at hp
              cases hpts : r.pts with
              | nil => rw [hpts] at hp; simp at hp
              | cons p' t =>
                rw [hpts] at hp hpq; simp at hp; subst hp
                rw [linPairs_cons_cons, List.mem_cons] at hpq
                rcases hpq with rfl | hpq
                · exact hseg.2
                · exact covered_mono _ _ _ (fun sg h => List.mem_append_right _ h) (hr' pq (by rw [hpts]; exact hpq))
            | false =>
              simp only [Bool.false_eq_true, if_false, setLast_pts] at hpq
              simp only [endPt, Bool.false_eq_true, if_false] at hp
              rw [mem_linPairs_append] at hpq
              rcases hpq with hpq | hpq | ⟨a, b, h1, h2, rfl⟩
              · exact covered_mono _ _ _ (fun sg h => List.mem_append_right _ h) (hr' pq hpq)
              · simp [linPairs] at hpq
              · rw [hp] at h1; cases h1; simp at h2; subst h2; exact hseg.1
    · exact old g hg pq hpq
  · exact old g hg pq hpq

theorem pairsOf_congr (g g' : Ring) (h1 : g'.pts = g.pts) (h2 : g'.stat = g.stat) : pairsOf g' = pairsOf g := by
  simp [pairsOf, h1, h2]

theorem pairsOf_handOver_ring (r : Ring) (f : Bool) (n : Nat) :
    pairsOf (if f = true then { r with frun := n } else { r with brun := n }) = pairsOf r := by
  cases f <;> simp [pairsOf]

theorem segs_handOver (id : Nat) (f : Bool) (o : Out) : (handOver id f o).segs = o.segs := by unfold handOver; split <;> rfl

theorem segsOK_handOver (id : Nat) (f : Bool) (o : Out) (h : SegsOK o) : SegsOK (handOver id f o) := by
  intro g hg pq hpq
  rw [segs_handOver]
  unfold handOver at hg
  split at hg
  · next r hr =>
    rcases List.mem_or_eq_of_mem_set hg with hg | rfl
    · exact h g hg pq hpq
    · rw [pairsOf_handOver_ring] at hpq
      exact h r (mem_of_get _ _ _ hr) pq hpq
  · exact h g hg pq hpq

theorem segsOK_logSeg (k : SegKind) (i1 : Nat) (f1 : Bool) (i2 : Nat) (f2 : Bool) (o : Out) (h : SegsOK o) : SegsOK (logSeg k i1 f1 i2 f2 o) := by
  intro g hg pq hpq
  rw [logSeg_rings] at hg
  exact covered_mono _ _ _ (logSeg_segs_sub k i1 f1 i2 f2 o) (h g hg pq hpq)

theorem segs_finish (id : Nat) (f : Bool) (o : Out) : (finish id f o).segs = o.segs := by unfold finish; split <;> rfl
theorem segs_joinPaths (A B : Nat) (f : Bool) (o : Out) : (joinPaths A B f o).segs = o.segs := by
  unfold joinPaths; split
  · split <;> rfl
  · rfl

theorem mem_cycPairs_rotate (xs : List Pt) (b : Pt) (pq : Pt × Pt) : pq ∈ cycPairs (b :: xs) → pq ∈ cycPairs (xs ++ [b]) := by
  intro h
  rw [mem_cycPairs] at h ⊢
  rw [show b :: xs = [b] ++ xs from rfl, mem_linPairs_append] at h
  rw [mem_linPairs_append]
  rcases h with (h | h | ⟨a, c, h1, h2, h3⟩) | ⟨a, c, h1, h2, h3⟩
  · simp [linPairs] at h
  · left; left; exact h
  · have hab : a = b := by simpa using h1.symm
    right
    refine ⟨a, c, ?_, ?_, h3⟩
    · rw [hab]; simp
    · cases xs with
      | nil => simp at h2
      | cons x t => simpa using h2
  · have hcb : c = b := by simpa using h2.symm
    cases xs with
    | nil =>
      have hab : a = b := by simpa using h1.symm
      right; exact ⟨a, c, by rw [hab]; simp, by rw [hcb]; simp, h3⟩
    | cons x t =>
      left; right; right
      refine ⟨a, c, ?_, by rw [hcb]; simp, h3⟩
      simpa [List.getLast?_cons_cons] using h1

/-- closing a ring: the pair (back end, front end) must already be in the log -/
theorem segsOK_finish (id : Nat) (f : Bool) (o : Out) (h : SegsOK o)
    (hclose : ∀ g, o.rings[id]? = some g → ∀ a b, endPt false g.pts = some a → endPt true g.pts = some b → Covered o.segs (a, b)) :
    SegsOK (finish id f o) := by
  intro g hg pq hpq
  rw [segs_finish]
  unfold finish at hg
  split at hg
  · next r hr =>
    rcases List.mem_or_eq_of_mem_set hg with hg | rfl
    · exact h g hg pq hpq
    · simp only [pairsOf] at hpq
      have key : ∀ pq ∈ cycPairs r.pts, Covered o.segs pq := by
        intro pq hpq
        rw [mem_cycPairs] at hpq
        rcases hpq with hpq | ⟨a, b, h1, h2, rfl⟩
        · have := h r (mem_of_get _ _ _ hr) pq
          cases hst : r.stat with
          | done => simp only [pairsOf, hst] at this; exact this (by rw [mem_cycPairs]; left; exact hpq)
          | live => simp only [pairsOf, hst] at this; exact this hpq
          | gone => simp only [pairsOf, hst] at this; exact this hpq
        · exact hclose r hr a b (by simpa [endPt] using h1) (by simpa [endPt] using h2)
      split at hpq
      · exact key pq hpq
      · split at hpq
        · next b hb =>
          have hne : r.pts ≠ [] := by intro hn; rw [hn] at hb; simp at hb
          have e : r.pts = r.pts.dropLast ++ [b] := by
            have := List.dropLast_concat_getLast hne
            rw [List.getLast?_eq_some_getLast hne] at hb
            cases hb; exact this.symm
          exact key pq (by rw [e]; exact mem_cycPairs_rotate _ _ _ hpq)
        · exact key pq hpq
  · exact h g hg pq hpq

/-- `JoinOutrecPaths`: the seam between the `f` end of `A` and the other end of `B` must already be in the log -/
theorem segsOK_joinPaths (A B : Nat) (f : Bool) (o : Out) (h : SegsOK o)
    (hseam : ∀ ga gb, o.rings[A]? = some ga → o.rings[B]? = some gb → ∀ a b, endPt f ga.pts = some a → endPt (!f) gb.pts = some b →
      Covered o.segs (a, b) ∧ Covered o.segs (b, a)) :
    SegsOK (joinPaths A B f o) := by
  intro g hg pq hpq
  rw [segs_joinPaths]
  unfold joinPaths at hg
  split at hg
  · next ra rb hA hB =>
    split at hg
    · next hc =>
      rcases List.mem_or_eq_of_mem_set hg with hg | rfl
      · rcases List.mem_or_eq_of_mem_set hg with hg | rfl
        · exact h g hg pq hpq
        · have ha := h ra (mem_of_get _ _ _ hA)
          have hb := h rb (mem_of_get _ _ _ hB)
          simp only [pairsOf, hc.2.1] at ha
          simp only [pairsOf, hc.2.2] at hb
          have hs := hseam ra rb hA hB
          cases f with
          | true =>
            simp only [if_true, pairsOf, hc.2.1] at hpq
            rw [mem_linPairs_append] at hpq
            rcases hpq with hpq | hpq | ⟨a, b, h1, h2, rfl⟩
            · exact hb pq hpq
            · exact ha pq hpq
            · exact (hs b a (by simpa [endPt] using h2) (by simpa [endPt] using h1)).2
          | false =>
            simp only [Bool.false_eq_true, if_false, pairsOf, hc.2.1] at hpq
            rw [mem_linPairs_append] at hpq
            rcases hpq with hpq | hpq | ⟨a, b, h1, h2, rfl⟩
            · exact ha pq hpq
            · exact hb pq hpq
            · exact (hs a b (by simpa [endPt] using h1) (by simpa [endPt] using h2)).1
      · simp [pairsOf, linPairs] at hpq
    · exact h g hg pq hpq
  · exact h g hg pq hpq


/-! ## `AddLocalMaxPoly` and the two-record join of `CheckJoinLeft/Right` -/

theorem endPt_of_ne (f : Bool) (pts : List Pt) (h : pts ≠ []) : ∃ p, endPt f pts = some p := by
  cases pts with
  | nil => exact absurd rfl h
  | cons a t =>
    cases f
    · exact ⟨(a :: t).getLast (by simp), by simp [endPt, List.getLast?_eq_some_getLast]⟩
    · exact ⟨a, by simp [endPt]⟩

/-- the record that `AddLocalMaxPoly` / `JoinOutrecPaths` empties or closes -/
def deadId (ra rb : Rec) : Nat := if ra.id = rb.id then ra.id else if ra.id < rb.id then rb.id else ra.id

/-- what the ring part of an `AddLocalMaxPoly`-like step guarantees -/
structure MaxPost (ra rb : Rec) (o o' : Out) : Prop where
  len : o'.rings.length = o.rings.length
  live : ∀ id', LiveAt o.rings id' → id' ≠ deadId ra rb → LiveAt o'.rings id'
  nolost : NoLost o'
  segs : SegsOK o'

/-- closing or joining after the end points of `(ra.id, ra.front)` and `(rb.id, rb.front)` have been logged as a pair -/
theorem closeOrJoin_spec (ra rb : Rec) (o : Out) (_hA : LiveAt o.rings ra.id) (_hB : LiveAt o.rings rb.id) (hf : ra.front ≠ rb.front)
    (hn : NoLost o) (hs : SegsOK o)
    (hlog : ∀ ga gb, o.rings[ra.id]? = some ga → o.rings[rb.id]? = some gb → ∀ p q, endPt ra.front ga.pts = some p → endPt rb.front gb.pts = some q →
      Covered o.segs (p, q) ∧ Covered o.segs (q, p)) :
    MaxPost ra rb o (if ra.id = rb.id then finish ra.id ra.front o
      else if ra.id < rb.id then joinPaths ra.id rb.id ra.front o else joinPaths rb.id ra.id rb.front o) := by
  have hbf : rb.front = !ra.front := by revert hf; cases ra.front <;> cases rb.front <;> simp
  have haf : ra.front = !rb.front := by rw [hbf]; simp
  by_cases e : ra.id = rb.id
  · simp only [e, if_true]
    refine ⟨length_finish _ _ _, ?_, by intro x hx; rw [log_finish] at hx; exact hn x hx, ?_⟩
    · intro id' hl hne
      simp only [deadId, e, if_true] at hne
      exact liveAt_finish _ _ _ _ hl hne
    · refine segsOK_finish _ _ _ hs ?_
      intro g hg a b ha hb
      have hg' : o.rings[ra.id]? = some g := by rw [e]; exact hg
      cases hfa : ra.front with
      | true =>
        rw [hfa] at hbf
        have := hlog g g hg' hg b a (by rw [hfa]; exact hb) (by rw [hbf]; exact ha)
        exact this.2
      | false =>
        rw [hfa] at hbf
        have := hlog g g hg' hg a b (by rw [hfa]; exact ha) (by rw [hbf]; exact hb)
        exact this.1
  · simp only [e, if_false]
    by_cases lt : ra.id < rb.id
    · simp only [lt, if_true]
      refine ⟨length_joinPaths _ _ _ _, ?_, by intro x hx; rw [log_joinPaths] at hx; exact hn x hx, ?_⟩
      · intro id' hl hne
        simp only [deadId, e, if_false, lt, if_true] at hne
        exact liveAt_joinPaths _ _ _ _ _ hl hne
      · refine segsOK_joinPaths _ _ _ _ hs ?_
        intro ga gb hga hgb a b ha hb
        exact hlog ga gb hga hgb a b ha (by rw [hbf]; exact hb)
    · simp only [lt, if_false]
      refine ⟨length_joinPaths _ _ _ _, ?_, by intro x hx; rw [log_joinPaths] at hx; exact hn x hx, ?_⟩
      · intro id' hl hne
        simp only [deadId, e, if_false, lt] at hne
        exact liveAt_joinPaths _ _ _ _ _ hl hne
      · refine segsOK_joinPaths _ _ _ _ hs ?_
        intro ga gb hga hgb a b ha hb
        have := hlog gb ga hgb hga b a (by rw [haf]; exact hb) ha
        exact ⟨this.2, this.1⟩

theorem maxPost_trans_pre (ra rb : Rec) (o o1 o' : Out) (hlen : o1.rings.length = o.rings.length)
    (hlive : ∀ id', LiveAt o.rings id' → LiveAt o1.rings id') (h : MaxPost ra rb o1 o') : MaxPost ra rb o o' :=
  ⟨by rw [h.len, hlen], fun id' hl hne => h.live id' (hlive id' hl) hne, h.nolost, h.segs⟩

theorem localMaxOut_spec (kind : SegKind) (ra rb : Rec) (pt : Pt) (o : Out) (hA : LiveAt o.rings ra.id) (hB : LiveAt o.rings rb.id)
    (hf : ra.front ≠ rb.front) (hn : NoLost o) (hs : SegsOK o) : MaxPost ra rb o (localMaxOut kind ra rb pt o) := by
  unfold localMaxOut
  simp only
  have hA0 := liveAt_addOutPt ra.id ra.front pt o _ hA
  have hB0 := liveAt_addOutPt ra.id ra.front pt o _ hB
  have hn0 := noLost_addOutPt ra.id ra.front pt o hn hA
  have hs0 := segsOK_addOutPt ra.id ra.front pt o hs
  have hr1 := logSeg_rings kind rb.id rb.front ra.id ra.front (addOutPt ra.id ra.front pt o)
  refine maxPost_trans_pre ra rb o (logSeg kind rb.id rb.front ra.id ra.front (addOutPt ra.id ra.front pt o)) _ ?_ ?_ ?_
  · rw [hr1, length_addOutPt]
  · intro id' hl; rw [hr1]; exact liveAt_addOutPt _ _ _ _ _ hl
  · refine closeOrJoin_spec ra rb _ (by rw [hr1]; exact hA0) (by rw [hr1]; exact hB0) hf ?_ (segsOK_logSeg _ _ _ _ _ _ hs0) ?_
    · intro x hx; rw [logSeg_log] at hx; exact hn0 x hx
    · intro ga gb hga hgb p q hp hq
      rw [hr1] at hga hgb
      obtain ⟨sg, h1, h2, h3⟩ := logSeg_has kind rb.id rb.front ra.id ra.front _ gb ga q p hgb hga hq hp
      have := covered_of_seg _ sg h1 q p h2 h3
      exact ⟨this.2, this.1⟩

/-- `CheckJoinLeft/Right` with two records: the pair of end points is logged, then `JoinOutrecPaths` -/
theorem joinSeamOut_spec (ra rb : Rec) (o : Out) (hA : LiveAt o.rings ra.id) (hB : LiveAt o.rings rb.id) (hne : ra.id ≠ rb.id)
    (hf : ra.front ≠ rb.front) (hn : NoLost o) (hs : SegsOK o) :
    MaxPost ra rb o (if ra.id < rb.id then joinPaths ra.id rb.id ra.front (logSeg .joinSeam ra.id ra.front rb.id rb.front o)
      else joinPaths rb.id ra.id rb.front (logSeg .joinSeam ra.id ra.front rb.id rb.front o)) := by
  have hr1 := logSeg_rings .joinSeam ra.id ra.front rb.id rb.front o
  have key := closeOrJoin_spec ra rb (logSeg .joinSeam ra.id ra.front rb.id rb.front o) (by rw [hr1]; exact hA) (by rw [hr1]; exact hB) hf
    (by intro x hx; rw [logSeg_log] at hx; exact hn x hx) (segsOK_logSeg _ _ _ _ _ _ hs) (by
      intro ga gb hga hgb p q hp hq
      rw [hr1] at hga hgb
      obtain ⟨sg, h1, h2, h3⟩ := logSeg_has .joinSeam ra.id ra.front rb.id rb.front _ ga gb p q hga hgb hp hq
      exact covered_of_seg _ sg h1 p q h2 h3)
  simp only [hne, if_false] at key
  refine maxPost_trans_pre ra rb o _ _ (by rw [hr1]) (by intro id' hl; rw [hr1]; exact hl) ?_
  by_cases lt : ra.id < rb.id
  · simp only [lt, if_true] at key ⊢; exact key
  · simp only [lt, if_false] at key ⊢; exact key


/-! ## the invariant linking the AEL to the rings -/

/-- as many rings as records; every edge that owns a record owns a live, non-empty ring; no point was lost; all ring neighbours are logged -/
structure OInv (n : Nat) (l : List SEdge) (o : Out) : Prop where
  len : o.rings.length = n
  hot : ∀ x ∈ l, ∀ k, x.orec = some k → LiveAt o.rings k.id
  nolost : NoLost o
  segs : SegsOK o

/-- record ids in use in `l'` are in use in `l` -/
def KeysFrom (l l' : List SEdge) : Prop := ∀ x ∈ l', ∀ k, x.orec = some k → ∃ y ∈ l, ∃ k', y.orec = some k' ∧ k'.id = k.id

theorem oinv_keys (n : Nat) (l l' : List SEdge) (o : Out) (h : OInv n l o) (hl : KeysFrom l l') : OInv n l' o := by
  refine ⟨h.len, ?_, h.nolost, h.segs⟩
  intro x hx k hk
  obtain ⟨y, hy, k', hk', e⟩ := hl x hx k hk
  rw [← e]; exact h.hot y hy k' hk'

theorem oinv_newRec (n : Nat) (l l' : List SEdge) (o : Out) (pt : Pt) (h : OInv n l o)
    (hl : ∀ x ∈ l', ∀ k, x.orec = some k → k.id = n ∨ ∃ y ∈ l, ∃ k', y.orec = some k' ∧ k'.id = k.id) : OInv (n + 1) l' (newRec pt o) := by
  refine ⟨by rw [length_newRec, h.len], ?_, noLost_newRec pt o h.nolost, segsOK_newRec pt o h.segs⟩
  intro x hx k hk
  rcases hl x hx k hk with e | ⟨y, hy, k', hk', e⟩
  · rw [e, ← h.len]; exact liveAt_newRec_new pt o
  · rw [← e]; exact liveAt_newRec_old pt o _ (h.hot y hy k' hk')

theorem oinv_maxPost (n : Nat) (l l' : List SEdge) (ra rb : Rec) (o o' : Out) (h : OInv n l o) (hm : MaxPost ra rb o o')
    (hl : ∀ x ∈ l', ∀ k, x.orec = some k → k.id ≠ deadId ra rb ∧ ∃ y ∈ l, ∃ k', y.orec = some k' ∧ k'.id = k.id) : OInv n l' o' := by
  refine ⟨by rw [hm.len, h.len], ?_, hm.nolost, hm.segs⟩
  intro x hx k hk
  obtain ⟨hne, y, hy, k', hk', e⟩ := hl x hx k hk
  exact hm.live _ (by rw [← e]; exact h.hot y hy k' hk') hne

theorem cnt_pos_of_mem (k : Nat × Bool) (l : List SEdge) (x : SEdge) (hx : x ∈ l) (hk : keyOf x = some k) : 1 ≤ cnt k l := by
  induction l with
  | nil => cases hx
  | cons y t ih =>
    simp only [cnt]
    rcases List.mem_cons.mp hx with rfl | hx
    · simp [hk]
    · have := ih hx; omega

theorem keyOf_of_orec (x : SEdge) (k : Rec) (h : x.orec = some k) : keyOf x = some (k.id, k.front) := by simp [keyOf, h]

/-- no edge outside the window repeats a key of the window -/
theorem recs_no_dup (n : Nat) (pre rest : List SEdge) (a b : SEdge) (h : RecsOK n (pre ++ a :: b :: rest)) (x : SEdge) (hx : x ∈ pre ++ rest)
    (k : Rec) (hk : x.orec = some k) : a.orec ≠ some k ∧ b.orec ≠ some k := by
  have h1 := (h (k.id, k.front)).1
  have h2 := cnt_pos_of_mem (k.id, k.front) (pre ++ rest) x hx (keyOf_of_orec x k hk)
  simp only [cnt_append, cnt] at h1 h2
  constructor
  · intro ha; rw [keyOf_of_orec a k ha] at h1; simp at h1; omega
  · intro hb; rw [keyOf_of_orec b k hb] at h1; simp at h1; omega

theorem rec_eq (k r : Rec) (h1 : k.id = r.id) (h2 : k.front = r.front) : k = r := by
  cases k; cases r; simp at h1 h2; simp [h1, h2]

/-- the edges outside the window after `AddLocalMaxPoly`: none refers to the dead record, every id comes from an id in use before -/
theorem localMax_keys (n : Nat) (pre rest : List SEdge) (a b : SEdge) (ra rb : Rec) (g : SEdge → SEdge)
    (h : RecsOK n (pre ++ a :: b :: rest)) (ha : a.orec = some ra) (hb : b.orec = some rb) (hg : addLocalMaxFn ra rb = .ok g) :
    ∀ x ∈ pre.map g ++ rest.map g, ∀ k, x.orec = some k →
      k.id ≠ deadId ra rb ∧ ∃ y ∈ pre ++ a :: b :: rest, ∃ k', y.orec = some k' ∧ k'.id = k.id := by
  intro x' hx' k hk
  rw [← List.map_append] at hx'
  obtain ⟨x, hx, rfl⟩ := List.mem_map.mp hx'
  have hxl : x ∈ pre ++ a :: b :: rest := by
    rcases List.mem_append.mp hx with h | h
    · exact List.mem_append_left _ h
    · exact List.mem_append_right _ (List.mem_cons_of_mem _ (List.mem_cons_of_mem _ h))
  have hal : a ∈ pre ++ a :: b :: rest := List.mem_append_right _ List.mem_cons_self
  have hbl : b ∈ pre ++ a :: b :: rest := List.mem_append_right _ (List.mem_cons_of_mem _ List.mem_cons_self)
  unfold addLocalMaxFn at hg
  split at hg
  · cases hg
  · next hf =>
    have hbf : ∀ v : Bool, v ≠ ra.front → v = rb.front := by
      intro v; revert hf; cases ra.front <;> cases rb.front <;> cases v <;> simp
    have haf : ∀ v : Bool, v ≠ rb.front → v = ra.front := by
      intro v; revert hf; cases ra.front <;> cases rb.front <;> cases v <;> simp
    split at hg
    · next e =>
      cases hg
      simp only [id] at hk
      refine ⟨?_, x, hxl, k, hk, rfl⟩
      simp only [deadId, e, if_true]
      intro hid
      have nd := recs_no_dup n pre rest a b h x hx k hk
      by_cases hfk : k.front = ra.front
      · exact nd.1 (by rw [ha, rec_eq k ra (by rw [hid, e]) hfk])
      · exact nd.2 (by rw [hb, rec_eq k rb hid (hbf _ hfk)])
    · next e =>
      split at hg
      · next lt =>
        cases hg
        simp only [deadId, e, if_false, lt, if_true]
        unfold relabelFn at hk
        cases hxo : x.orec with
        | none => simp [hxo] at hk
        | some r =>
          simp only [hxo] at hk
          split at hk
          · next hc => simp at hk; subst hk; exact ⟨fun h => e h, a, hal, ra, ha, rfl⟩
          · next hc =>
            rw [hxo] at hk; cases hk
            refine ⟨?_, x, hxl, k, hxo, rfl⟩
            intro hid
            have nd := recs_no_dup n pre rest a b h x hx k hxo
            have hfk : k.front ≠ ra.front := fun hh => hc ⟨hid, hh⟩
            exact nd.2 (by rw [hb, rec_eq k rb hid (hbf _ hfk)])
      · next lt =>
        cases hg
        simp only [deadId, e, if_false, lt]
        unfold relabelFn at hk
        cases hxo : x.orec with
        | none => simp [hxo] at hk
        | some r =>
          simp only [hxo] at hk
          split at hk
          · next hc => simp at hk; subst hk; exact ⟨fun h => e h.symm, b, hbl, rb, hb, rfl⟩
          · next hc =>
            rw [hxo] at hk; cases hk
            refine ⟨?_, x, hxl, k, hxo, rfl⟩
            intro hid
            have nd := recs_no_dup n pre rest a b h x hx k hxo
            have hfk : k.front ≠ rb.front := fun hh => hc ⟨hid, hh⟩
            exact nd.1 (by rw [ha, rec_eq k ra hid (haf _ hfk)])

/-- a property of the output that every primitive preserves, for the point `pt` of the event -/
structure PrimPres (pt : Pt) (P : Out → Prop) : Prop where
  newRec : ∀ o, P o → P (newRec pt o)
  addOutPt : ∀ id f o, P o → P (addOutPt id f pt o)
  handOver : ∀ id f o, P o → P (handOver id f o)
  finish : ∀ id f o, P o → P (finish id f o)
  joinPaths : ∀ A B f o, P o → P (joinPaths A B f o)
  logSeg : ∀ k i1 f1 i2 f2 o, P o → P (logSeg k i1 f1 i2 f2 o)

section pres
variable {pt : Pt} {P : Out → Prop} (hp : PrimPres pt P)
include hp

theorem pres_localMaxOut (k : SegKind) (ra rb : Rec) (o : Out) (h : P o) : P (localMaxOut k ra rb pt o) := by
  unfold localMaxOut
  have h1 := hp.logSeg k rb.id rb.front ra.id ra.front _ (hp.addOutPt ra.id ra.front o h)
  simp only
  split
  · exact hp.finish _ _ _ h1
  · split
    · exact hp.joinPaths _ _ _ _ h1
    · exact hp.joinPaths _ _ _ _ h1

theorem pres_addOn (r : Option Rec) (o : Out) (h : P o) : P (addOn r pt o) := by
  cases r with
  | none => exact h
  | some x => exact hp.addOutPt _ _ _ h

theorem pres_handOn (r : Option Rec) (o : Out) (h : P o) : P (handOn r o) := by
  cases r with
  | none => exact h
  | some x => exact hp.handOver _ _ _ h

theorem pres_swapOut (r1 r2 : Option Rec) (o : Out) (h : P o) : P (swapOut r1 r2 pt o) := by
  unfold swapOut
  exact pres_handOn hp _ _ (pres_handOn hp _ _ (pres_addOn hp _ _ (pres_addOn hp _ _ h)))

theorem pres_coreOut (cfg : Cfg) (a b : SEdge) (o : Out) (h : P o) : P (coreOut cfg a b pt o) := by
  unfold coreOut
  simp only
  split
  · exact h
  · exact pres_swapOut hp _ _ _ h
  · exact hp.newRec _ h
  · split
    · exact pres_localMaxOut hp _ _ _ _ h
    · exact h
  · split
    · exact hp.newRec _ (pres_localMaxOut hp _ _ _ _ h)
    · exact h

theorem pres_splitOut (i : Nat) (s : SState) (o : Out) (h : P o) : P (splitOut i pt s o) := by
  unfold splitOut
  split
  · split
    · exact h
    · exact hp.newRec _ h
  · exact h

theorem pres_twoSplitsOut (i : Nat) (s : SState) (o : Out) (h : P o) : P (twoSplitsOut i pt s o).1 := by
  unfold twoSplitsOut
  have h1 := pres_splitOut hp i s o h
  simp only
  split
  · next s1 _ =>
    have h2 := pres_splitOut hp (i + 1) s1 _ h1
    split
    · split <;> exact h2
    · exact h2
  · exact h1

theorem pres_intersectOut (cfg : Cfg) (i : Nat) (s : SState) (o : Out) (h : P o) : P (intersectOut cfg i pt s o) := by
  unfold intersectOut
  split
  · split
    · split
      · exact h
      · split
        · exact pres_splitOut hp _ _ _ h
        · exact pres_splitOut hp _ _ _ h
    · have h2 := pres_twoSplitsOut hp i s o h
      split
      · next o2 a b heq => rw [heq] at h2; exact pres_coreOut hp _ _ _ _ h2
      · next o2 heq => rw [heq] at h2; exact h2
  · exact h

theorem pres_removePairOut (i : Nat) (s : SState) (o : Out) (h : P o) : P (removePairOut i pt s o) := by
  unfold removePairOut
  split
  · split
    · exact h
    · have h2 := pres_twoSplitsOut hp i s o h
      split
      · next o2 a b heq =>
        rw [heq] at h2
        split
        · exact pres_localMaxOut hp _ _ _ _ h2
        · exact h2
      · next o2 heq => rw [heq] at h2; exact h2
  · exact h

theorem pres_joinOut (i : Nat) (s : SState) (o : Out) (h : P o) : P (joinOut i pt s o) := by
  unfold joinOut
  split
  · split
    · split
      · exact pres_localMaxOut hp _ _ _ _ h
      · simp only
        split
        · exact hp.joinPaths _ _ _ _ (hp.logSeg _ _ _ _ _ _ h)
        · exact hp.joinPaths _ _ _ _ (hp.logSeg _ _ _ _ _ _ h)
    · exact h
  · exact h

theorem pres_updateOut (i : Nat) (s : SState) (o : Out) (h : P o) : P (updateOut i pt s o) := by
  unfold updateOut
  split
  · split
    · exact h
    · exact pres_addOn hp _ _ h
  · exact h

theorem pres_insertPairOut (cfg : Cfg) (pos : Nat) (t : PathType) (isOpen : Bool) (dx : Int) (s : SState) (o : Out) (h : P o) :
    P (insertPairOut cfg pos t isOpen dx pt s o) := by
  unfold insertPairOut
  simp only
  split
  · exact hp.newRec _ h
  · exact h

end pres

/-- the point an event carries -/
def ROp.pt : ROp → Pt
  | .base _ p => p
  | .join _ p => p
  | .split _ p => p
  | .update _ p => p

/-- every ring effect of an event is a composition of primitives applied to the event's point -/
theorem pres_outStep (cfg : Cfg) (s : SState) (o : Out) (op : ROp) (P : Out → Prop) (hp : PrimPres op.pt P) (h : P o) :
    P (outStep cfg s o op) := by
  cases op with
  | base b p =>
    cases b with
    | insertPair pos t isOpen dx => exact pres_insertPairOut hp _ _ _ _ _ _ _ h
    | insertOne _ _ _ => exact h
    | intersect i => exact pres_intersectOut hp _ _ _ _ h
    | removePair i => exact pres_removePairOut hp _ _ _ h
    | removeOne _ => exact h
  | join i p => exact pres_joinOut hp _ _ _ h
  | split i p => exact pres_splitOut hp _ _ _ h
  | update i p => exact pres_updateOut hp _ _ _ h

theorem endsOK_prim (pt : Pt) : PrimPres pt EndsOK :=
  ⟨endsOK_newRec pt, fun id f o => endsOK_addOutPt id f pt o, endsOK_handOver, endsOK_finish, endsOK_joinPaths, endsOK_logSeg⟩

theorem permOK_prim (pt : Pt) : PrimPres pt PermOK :=
  ⟨permOK_newRec pt, fun id f o => permOK_addOutPt id f pt o, permOK_handOver, permOK_finish, permOK_joinPaths, permOK_logSeg⟩

/-- provenance of log entries: every entry is old or carries the event's point -/
def LogFrom (log0 : List Emit) (pt : Pt) (o : Out) : Prop := ∀ e ∈ o.log, e ∈ log0 ∨ e.pt = pt

theorem logFrom_prim (log0 : List Emit) (pt : Pt) : PrimPres pt (LogFrom log0 pt) := by
  refine ⟨?_, ?_, ?_, ?_, ?_, ?_⟩
  · intro o h e he
    simp only [newRec, List.mem_cons] at he
    rcases he with rfl | he
    · right; rfl
    · exact h e he
  · intro id f o h e he
    unfold addOutPt at he
    split at he
    · split at he
      · simp only [List.mem_cons] at he
        rcases he with rfl | he
        · right; rfl
        · exact h e he
      · simp only [List.mem_cons] at he
        rcases he with rfl | he
        · right; rfl
        · exact h e he
    · simp only [List.mem_cons] at he
      rcases he with rfl | he
      · right; rfl
      · exact h e he
  · intro id f o h e he
    unfold handOver at he
    split at he <;> exact h e he
  · intro id f o h e he
    unfold finish at he
    split at he <;> exact h e he
  · intro A B f o h e he
    unfold joinPaths at he
    split at he
    · split at he <;> exact h e he
    · exact h e he
  · intro k i1 f1 i2 f2 o h e he
    unfold logSeg at he
    split at he
    · split at he <;> exact h e he
    · exact h e he

end Clipper.Model
