/-
Scanlines of the model build (`scanlinesOf`): membership, strict descending order, and the elementary consequences of
a strictly descending list used by the C01 build hypotheses (consecutive scanlines, first = max, last = min).
-/
import ClipperVerif.Lemmas.SweepOrder
namespace Clipper.Lemmas.C01Build
open Clipper Clipper.Model.SweepOrder

theorem stableSort_perm {α : Type} (le : α → α → Bool) (l : List α) : (stableSort le l).Perm l := by
  induction l with
  | nil => exact List.Perm.refl _
  | cons a l ih => exact (Clipper.Lemmas.SweepOrder.insertBefore_perm a _).trans (List.Perm.cons a ih)

theorem stableSort_sorted {α : Type} {le : α → α → Bool} (trans : ∀ a b c, le a b → le b c → le a c)
    (total : ∀ a b, le a b || le b a) (l : List α) : (stableSort le l).Pairwise (fun x y => le x y) := by
  induction l with
  | nil => simp [stableSort]
  | cons a l ih => exact Clipper.Lemmas.SweepOrder.insertBefore_sorted trans total a _ ih

/-- removing duplicates from a weakly descending list gives a strictly descending one -/
theorem eraseDups_strict : ∀ (n : Nat) (l : List Int), l.length ≤ n → l.Pairwise (fun a b => b ≤ a) →
    l.eraseDups.Pairwise (fun a b => b < a)
  | _, [], _, _ => by simp
  | 0, _ :: _, hl, _ => by simp at hl
  | n + 1, a :: as, hl, hs => by
    rw [List.eraseDups_cons, List.pairwise_cons]
    rw [List.pairwise_cons] at hs
    refine ⟨?_, eraseDups_strict n _ ?_ (List.Pairwise.sublist List.filter_sublist hs.2)⟩
    · intro b hb
      rw [List.mem_eraseDups, List.mem_filter] at hb
      have h1 := hs.1 b hb.1
      have hne : b ≠ a := by simpa using hb.2
      omega
    · have := List.length_filter_le (fun b => !b == a) as
      simp only [List.length_cons] at hl
      omega

/-- the scanlines are exactly the vertex heights of the paths with at least 3 vertices -/
theorem scanlinesOf_mem (ps : Paths) (y : Int) :
    y ∈ scanlinesOf ps ↔ ∃ p ∈ ps, 3 ≤ p.length ∧ ∃ v ∈ p, v.y = y := by
  unfold scanlinesOf
  rw [List.mem_eraseDups, (stableSort_perm _ _).mem_iff, List.mem_map]
  constructor
  · rintro ⟨v, hv, rfl⟩
    rw [List.mem_flatten] at hv
    obtain ⟨p, hp, hvp⟩ := hv
    rw [List.mem_filter] at hp
    exact ⟨p, hp.1, by simpa using hp.2, v, hvp, rfl⟩
  · rintro ⟨p, hp, hlen, v, hvp, rfl⟩
    exact ⟨v, List.mem_flatten.2 ⟨p, List.mem_filter.2 ⟨hp, by simpa using hlen⟩, hvp⟩, rfl⟩

/-- strictly descending -/
theorem scanlinesOf_sorted (ps : Paths) : (scanlinesOf ps).Pairwise (fun a b => b < a) := by
  unfold scanlinesOf
  refine eraseDups_strict _ _ (Nat.le_refl _) ?_
  have h := stableSort_sorted (le := fun (a b : Int) => decide (b ≤ a))
    (by intro a b c; simp only [decide_eq_true_eq]; omega)
    (by intro a b; simp only [Bool.or_eq_true, decide_eq_true_eq]; omega)
    ((ps.filter (fun p => decide (3 ≤ p.length))).flatten.map (·.y))
  exact h.imp (by intro a b hab; simpa using hab)

/-- consecutive elements of a strictly descending list: nothing of the list lies strictly between -/
theorem between_of_sorted (ys pre rest : List Int) (y0 y1 : Int) (hs : ys.Pairwise (fun a b => b < a))
    (h : ys = pre ++ y0 :: y1 :: rest) : y1 < y0 ∧ ∀ t ∈ ys, ¬ (y1 < t ∧ t < y0) := by
  subst h
  rw [List.pairwise_append, List.pairwise_cons, List.pairwise_cons] at hs
  obtain ⟨_, ⟨h0, h1, _⟩, hx⟩ := hs
  have h10 : y1 < y0 := h0 y1 (List.mem_cons_self ..)
  refine ⟨h10, ?_⟩
  intro t ht
  rcases List.mem_append.1 ht with ht | ht
  · have := hx t ht y0 (List.mem_cons_self ..)
    omega
  · rcases List.mem_cons.1 ht with rfl | ht
    · omega
    · rcases List.mem_cons.1 ht with rfl | ht
      · omega
      · have := h1 t ht
        omega

theorem head_max (ys : List Int) (y : Int) (hs : ys.Pairwise (fun a b => b < a)) (h : ys.head? = some y) :
    ∀ t ∈ ys, t ≤ y := by
  cases ys with
  | nil => simp at h
  | cons a as =>
    simp only [List.head?_cons, Option.some.injEq] at h
    subst h
    rw [List.pairwise_cons] at hs
    intro t ht
    rcases List.mem_cons.1 ht with rfl | ht
    · omega
    · have := hs.1 t ht
      omega

theorem last_min (ys : List Int) (y : Int) (hs : ys.Pairwise (fun a b => b < a)) (h : ys.getLast? = some y) :
    ∀ t ∈ ys, y ≤ t := by
  obtain ⟨pre, rfl⟩ : ∃ pre, ys = pre ++ [y] := by
    rcases List.eq_nil_or_concat ys with rfl | ⟨l, b, rfl⟩
    · simp at h
    · simp only [List.concat_eq_append, List.getLast?_append, List.getLast?_singleton, Option.some_or,
        Option.some.injEq] at h
      subst h
      exact ⟨l, by simp⟩
  rw [List.pairwise_append] at hs
  intro t ht
  rcases List.mem_append.1 ht with ht | ht
  · have := hs.2.2 t ht y (List.mem_singleton.2 rfl)
    omega
  · have := List.mem_singleton.1 ht
    omega

end Clipper.Lemmas.C01Build
