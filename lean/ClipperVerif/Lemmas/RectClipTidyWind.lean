/-
Helper lemmas for Props/C08Tidy.lean, part 14: winding numbers and the split/rejoin of `TidyEdges`.  The two edges that are cut and
the two that replace them lie on one side line of the rectangle; for a probe point off that line their contributions to the
winding number telescope, so the total over all live rings does not change.
Core Lean only.
-/
import ClipperVerif.Lemmas.RectClipTidySide
namespace Clipper.Lemmas.RCT
open Clipper Clipper.Model.RC Clipper.Model.RCT

/-- an edge on a horizontal line contributes nothing -/
theorem crossing_horizontal (q a b : Pt) (h : a.y = b.y) : crossing q a b = 0 := by
  unfold crossing
  split
  · omega
  · split
    · omega
    · rfl

/-- an edge on the vertical line `x = cx`, seen from a point off the line -/
theorem crossing_vertical (q a b : Pt) (cx : Int) (ha : a.x = cx) (hb : b.x = cx) (hq : q.x ≠ cx) :
    crossing q a b =
      if q.x < cx then (if a.y ≤ q.y then 1 else 0) - (if b.y ≤ q.y then 1 else 0) else 0 := by
  have hcross : cross a b q = -((b.y - a.y) * (q.x - cx)) := by
    unfold cross; rw [ha, hb]; simp
  unfold crossing
  rw [hcross]
  by_cases hlt : q.x < cx
  · simp only [hlt, if_true]
    split
    · rename_i h1
      have : (b.y - a.y) * (q.x - cx) < 0 := Int.mul_neg_of_pos_of_neg (by omega) (by omega)
      have h2 : -((b.y - a.y) * (q.x - cx)) > 0 := by omega
      simp only [h2, if_true]
      split <;> split <;> omega
    · split
      · rename_i h1 h2
        have : (b.y - a.y) * (q.x - cx) > 0 := Int.mul_pos_of_neg_of_neg (by omega) (by omega)
        have h3 : -((b.y - a.y) * (q.x - cx)) < 0 := by omega
        simp only [h3, if_true]
        split <;> split <;> omega
      · split <;> split <;> omega
  · simp only [hlt, if_false]
    have hgt : q.x > cx := by omega
    split
    · rename_i h1
      have : (b.y - a.y) * (q.x - cx) > 0 := Int.mul_pos (by omega) (by omega)
      have h2 : ¬ (-((b.y - a.y) * (q.x - cx)) > 0) := by omega
      simp only [h2, if_false]
    · split
      · rename_i h1 h2
        have : (b.y - a.y) * (q.x - cx) < 0 := Int.mul_neg_of_neg_of_pos (by omega) (by omega)
        have h3 : ¬ (-((b.y - a.y) * (q.x - cx)) < 0) := by omega
        simp only [h3, if_false]
      · rfl

/-- **The edge identity behind a split/rejoin.**  Four points on one axis-parallel line, `q` off that line: replacing the edges
`a → b` and `d → c` by `a → c` and `d → b` does not change the sum of the winding contributions. -/
theorem splice_crossing_identity (q a b c d : Pt)
    (h : (∃ cy, a.y = cy ∧ b.y = cy ∧ c.y = cy ∧ d.y = cy) ∨ (∃ cx, a.x = cx ∧ b.x = cx ∧ c.x = cx ∧ d.x = cx ∧ q.x ≠ cx)) :
    crossing q a b + crossing q d c = crossing q a c + crossing q d b := by
  rcases h with ⟨cy, h1, h2, h3, h4⟩ | ⟨cx, h1, h2, h3, h4, hq⟩
  · rw [crossing_horizontal q a b (by omega), crossing_horizontal q d c (by omega), crossing_horizontal q a c (by omega),
      crossing_horizontal q d b (by omega)]
  · rw [crossing_vertical q a b cx h1 h2 hq, crossing_vertical q d c cx h4 h3 hq, crossing_vertical q a c cx h1 h3 hq,
      crossing_vertical q d b cx h4 h2 hq]
    split <;> omega

/-- the winding contributions of the links `prev k → k` of the nodes in `L` -/
def ringWind (h : Heap) (q : Pt) (L : List Nat) : Int := (L.map (fun k => crossing q (h.pt (h.prev k)) (h.pt k))).sum

theorem ringWind_cons (h : Heap) (q : Pt) (k : Nat) (L : List Nat) :
    ringWind h q (k :: L) = crossing q (h.pt (h.prev k)) (h.pt k) + ringWind h q L := by
  simp [ringWind]

theorem ringWind_congr (h h' : Heap) (q : Pt) (hpt : h'.pt = h.pt) : ∀ (L : List Nat),
    (∀ k ∈ L, h'.prev k = h.prev k) → ringWind h' q L = ringWind h q L
  | [], _ => rfl
  | k :: L, hp => by
    rw [ringWind_cons, ringWind_cons, ringWind_congr h h' q hpt L (fun x hx => hp x (List.mem_cons_of_mem _ hx)), hpt,
      hp k (by simp)]

/-- changing `prev` at one node of a duplicate-free list -/
theorem ringWind_upd1 (h h' : Heap) (q : Pt) (hpt : h'.pt = h.pt) (x u : Nat) (hp : h'.prev = upd h.prev x u) :
    ∀ (L : List Nat), L.Nodup → x ∈ L →
      ringWind h' q L + crossing q (h.pt (h.prev x)) (h.pt x) = ringWind h q L + crossing q (h.pt u) (h.pt x)
  | [], _, hx => by cases hx
  | k :: L, hnd, hx => by
    rw [ringWind_cons, ringWind_cons]
    by_cases e : k = x
    · subst e
      have hnotin : k ∉ L := (List.nodup_cons.mp hnd).1
      have : ringWind h' q L = ringWind h q L :=
        ringWind_congr h h' q hpt L (fun y hy => by
          have hne : y ≠ k := by intro e; subst e; exact hnotin hy
          rw [hp, upd_ne _ _ hne])
      rw [this, hpt, hp, upd_same]; omega
    · have hx' : x ∈ L := by
        rcases List.mem_cons.mp hx with h1 | h1
        · exact absurd h1.symm e
        · exact h1
      have ih := ringWind_upd1 h h' q hpt x u hp L (List.nodup_cons.mp hnd).2 hx'
      rw [hpt, hp, upd_ne _ _ e]; omega

/-- **A `prev` swap between two nodes whose links lie on one line off which `q` lies leaves the total winding contribution of any
duplicate-free node list containing both unchanged.** -/
theorem ringWind_swap (h h' : Heap) (q : Pt) (hpt : h'.pt = h.pt) (x y : Nat) (hxy : x ≠ y)
    (hp : h'.prev = upd (upd h.prev x (h.prev y)) y (h.prev x)) (L : List Nat) (hnd : L.Nodup) (hx : x ∈ L) (hy : y ∈ L)
    (hline : (∃ cy, (h.pt (h.prev x)).y = cy ∧ (h.pt x).y = cy ∧ (h.pt y).y = cy ∧ (h.pt (h.prev y)).y = cy) ∨
      (∃ cx, (h.pt (h.prev x)).x = cx ∧ (h.pt x).x = cx ∧ (h.pt y).x = cx ∧ (h.pt (h.prev y)).x = cx ∧ q.x ≠ cx)) :
    ringWind h' q L = ringWind h q L := by
  let hm : Heap := { h with prev := upd h.prev x (h.prev y) }
  have e1 := ringWind_upd1 h hm q rfl x (h.prev y) rfl L hnd hx
  have e2 := ringWind_upd1 hm h' q hpt y (h.prev x) hp L hnd hy
  have hmy : hm.prev y = h.prev y := upd_ne _ _ (fun e => hxy e.symm)
  have e2' : ringWind h' q L + crossing q (h.pt (h.prev y)) (h.pt y) = ringWind hm q L + crossing q (h.pt (h.prev x)) (h.pt y) := by
    have := e2; rw [hmy] at this; exact this
  have id := splice_crossing_identity q (h.pt (h.prev x)) (h.pt x) (h.pt y) (h.pt (h.prev y)) hline
  omega

theorem ringWind_append (h : Heap) (q : Pt) (L1 L2 : List Nat) : ringWind h q (L1 ++ L2) = ringWind h q L1 + ringWind h q L2 := by
  simp [ringWind]

theorem perm_sum_int {l1 l2 : List Int} (hp : l1.Perm l2) : l1.sum = l2.sum := by
  induction hp with
  | nil => rfl
  | cons x _ ih => simp [ih]
  | swap x y l => simp; omega
  | trans _ _ ih1 ih2 => exact ih1.trans ih2

theorem ringWind_perm (h : Heap) (q : Pt) {L1 L2 : List Nat} (hp : L1.Perm L2) : ringWind h q L1 = ringWind h q L2 := by
  unfold ringWind
  exact perm_sum_int (hp.map _)

theorem zip_snoc_trunc {α : Type} : ∀ (l : List α) (x a : α), (x :: (l ++ [a])).zip (l ++ [a]) = (x :: l).zip (l ++ [a])
  | [], x, a => rfl
  | y :: l, x, a => by
    have ih := zip_snoc_trunc l y a
    simp only [List.cons_append, List.zip_cons_cons] at ih ⊢
    rw [ih]

theorem zip_map_map {α β γ : Type} (f : α → β) (g : β × β → γ) : ∀ (l1 l2 : List α),
    ((l1.map f).zip (l2.map f)).map g = (l1.zip l2).map (fun e => g (f e.1, f e.2))
  | [], _ => by simp
  | _ :: _, [] => by simp
  | a :: l1, b :: l2 => by simp [zip_map_map f g l1 l2]

/-- along a linked list the links `prev k → k` are the consecutive pairs -/
theorem ringWind_linked (h : Heap) (q : Pt) : ∀ (l : List Nat) (x : Nat), Linked h.next h.prev (x :: l) →
    ringWind h q l = (((x :: l).zip l).map (fun e => crossing q (h.pt e.1) (h.pt e.2))).sum
  | [], _, _ => rfl
  | y :: l, x, hl => by
    rw [ringWind_cons, ringWind_linked h q l y (linked_tail hl)]
    have : h.prev y = x := hl.2.1
    simp [this]

/-- **The winding number of the polygon of a ring is the sum of the contributions of the links `prev k → k` of its nodes.** -/
theorem windPath_ring (h : Heap) (q : Pt) (c : List Nat) (hc : Cyc h.next h.prev c) : windPath (c.map h.pt) q = ringWind h q c := by
  cases c with
  | nil => exact absurd hc (by simp [Cyc])
  | cons a l =>
    have hl : Linked h.next h.prev (a :: (l ++ [a])) := hc
    have e1 := ringWind_linked h q (l ++ [a]) a hl
    have e2 : ringWind h q (a :: l) = ringWind h q (l ++ [a]) :=
      ringWind_perm h q (by simpa using (List.perm_append_comm (l₁ := [a]) (l₂ := l)))
    rw [e2, e1]
    unfold windPath edgesOf
    simp only [List.map_cons]
    rw [zip_snoc_trunc l a a]
    have := zip_map_map h.pt (fun e => crossing q e.1 e.2) (a :: l) (l ++ [a])
    simp only [List.map_cons, List.map_append, List.map_nil] at this
    rw [this]

end Clipper.Lemmas.RCT
