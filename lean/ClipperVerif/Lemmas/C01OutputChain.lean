/-
Helper lemmas for `Props/C01Output.lean`, part 5: GEOMETRIC event lists (`GEv`, `GRun`: every event's point lies on the input edges it
touches; the geometric AEL is transformed as the event says) keep the invariant "the end point of the ring end an edge holds lies on
that edge" (`Holds`), and every logged segment lies on ONE input edge (`SegGeo`); bottom-up event lists log segments that never go down
(`SegMono`).  Core Lean only.
-/
import ClipperVerif.Lemmas.C01OutputStep
import ClipperVerif.Lemmas.C01OutputGeom
namespace Clipper.Lemmas.C01Output
open Clipper Clipper.Model Clipper.Model.SweepOrder Clipper.Model.SweepPoints

/-! ## geometric events -/

/-- **the event `op` is geometric** with respect to the AEL `es` of the scanbeam model (in coordinates scaled by `D`, input edges `E`):
it touches the positions it says, turns `es` into `es'`, and its point is
* `insertPair`: the common bottom vertex of the two new edges;
* `intersect`: a point on BOTH closed input segments;
* `removePair`: the common top vertex of the two edges removed;
* `update`: the top vertex of the edge, which is the bottom vertex of the edge that replaces it.
No other event is geometric (joins, splits, open paths do not occur). -/
def GEv (D : Int) (E : GEdge → Prop) (es : List GEdge) (op : ROp) (es' : List GEdge) : Prop :=
  match op with
  | .base (.insertPair i _ false _) pt => ∃ pre post l r, es = pre ++ post ∧ pre.length = i ∧ es' = pre ++ l :: r :: post ∧
      E l ∧ E r ∧ l.Up ∧ r.Up ∧ r.bot = l.bot ∧ pt = Pt.scale D l.bot
  | .base (.intersect i) pt => ∃ pre post a b, es = pre ++ a :: b :: post ∧ pre.length = i ∧ es' = pre ++ b :: a :: post ∧
      OnE D a pt ∧ OnE D b pt
  | .base (.removePair i) pt => ∃ pre post a b, es = pre ++ a :: b :: post ∧ pre.length = i ∧ es' = pre ++ post ∧
      a.Up ∧ b.Up ∧ b.top = a.top ∧ pt = Pt.scale D a.top
  | .update i pt => ∃ pre post a a', es = pre ++ a :: post ∧ pre.length = i ∧ es' = pre ++ a' :: post ∧
      E a' ∧ a.Up ∧ a'.Up ∧ a'.bot = a.top ∧ pt = Pt.scale D a.top
  | _ => False

/-- a geometric event list -/
def GRun (D : Int) (E : GEdge → Prop) : List GEdge → List ROp → List GEdge → Prop
  | es, [], es' => es = es'
  | es, op :: ops, es' => ∃ es1, GEv D E es op es1 ∧ GRun D E es1 ops es'

theorem gRun_append (D : Int) (E : GEdge → Prop) : ∀ (a b : List ROp) (es es1 es2 : List GEdge),
    GRun D E es a es1 → GRun D E es1 b es2 → GRun D E es (a ++ b) es2 := by
  intro a
  induction a with
  | nil => intro b es es1 es2 h1 h2; simp only [GRun] at h1; subst h1; exact h2
  | cons op a ih =>
    intro b es es1 es2 h1 h2
    obtain ⟨e1, g1, g2⟩ := h1
    exact ⟨e1, g1, ih b e1 es1 es2 g2 h2⟩

/-! ## lists in step -/

/-- the two lists have the same length and `P` holds position by position -/
def GeoAll (P : Model.SEdge → GEdge → Prop) : List Model.SEdge → List GEdge → Prop
  | [], [] => True
  | x :: xs, e :: es => P x e ∧ GeoAll P xs es
  | _, _ => False

theorem geoAll_length {P : Model.SEdge → GEdge → Prop} : ∀ (l : List Model.SEdge) (es : List GEdge), GeoAll P l es → l.length = es.length := by
  intro l
  induction l with
  | nil => intro es h; cases es with
    | nil => rfl
    | cons _ _ => simp [GeoAll] at h
  | cons x xs ih =>
    intro es h
    cases es with
    | nil => simp [GeoAll] at h
    | cons e es => simp only [GeoAll] at h; simp [ih es h.2]

theorem geoAll_append {P : Model.SEdge → GEdge → Prop} : ∀ (pre : List Model.SEdge) (epre : List GEdge) (xs : List Model.SEdge) (es : List GEdge),
    pre.length = epre.length → (GeoAll P (pre ++ xs) (epre ++ es) ↔ GeoAll P pre epre ∧ GeoAll P xs es) := by
  intro pre
  induction pre with
  | nil =>
    intro epre xs es h
    cases epre with
    | nil => simp [GeoAll]
    | cons _ _ => simp at h
  | cons x pre ih =>
    intro epre xs es h
    cases epre with
    | nil => simp at h
    | cons e epre =>
      simp only [List.cons_append, GeoAll]
      rw [ih epre xs es (by simpa using h)]
      exact and_assoc.symm

theorem geoAll_map {P Q : Model.SEdge → GEdge → Prop} (g : Model.SEdge → Model.SEdge) : ∀ (l : List Model.SEdge) (es : List GEdge),
    (∀ x ∈ l, ∀ e, P x e → Q (g x) e) → GeoAll P l es → GeoAll Q (l.map g) es := by
  intro l
  induction l with
  | nil => intro es _ h; cases es with
    | nil => trivial
    | cons _ _ => simp [GeoAll] at h
  | cons x xs ih =>
    intro es hm h
    cases es with
    | nil => simp [GeoAll] at h
    | cons e es =>
      simp only [GeoAll, List.map_cons] at h ⊢
      exact ⟨hm x (by simp) e h.1, ih es (fun y hy => hm y (by simp [hy])) h.2⟩

theorem geoAll_mono {P Q : Model.SEdge → GEdge → Prop} (l : List Model.SEdge) (es : List GEdge)
    (hm : ∀ x ∈ l, ∀ e, P x e → Q x e) (h : GeoAll P l es) : GeoAll Q l es := by
  have := geoAll_map (P := P) (Q := Q) id l es hm h
  simpa using this

/-! ## the invariants -/

/-- `e` is an input edge, and the end point of the ring end the edge `x` holds lies on the closed segment of `e` -/
def Holds (D : Int) (E : GEdge → Prop) (o : Out) (x : Model.SEdge) (e : GEdge) : Prop :=
  E e ∧ ∀ k p, x.orec = some k → endOf o k = some p → OnE D e p

/-- every logged segment is an `extend` or a `meet` segment and BOTH its end points lie on one input edge -/
def SegGeo (D : Int) (E : GEdge → Prop) (o : Out) : Prop :=
  ∀ sg ∈ o.segs, (sg.kind = .extend ∨ sg.kind = .meet) ∧ ∃ e, E e ∧ OnE D e sg.p ∧ OnE D e sg.q

theorem holds_carryS {D : Int} {E : GEdge → Prop} {o o' : Out} {x x' : Model.SEdge} {e : GEdge} (h : Holds D E o x e)
    (hc : CarryS o o' x x') : Holds D E o' x' e :=
  ⟨h.1, fun k' p hk hp => by obtain ⟨k, h1, h2⟩ := hc k' p hk hp; exact h.2 k p h1 h2⟩

theorem holds_carry {D : Int} {E : GEdge → Prop} {pt : Pt} {o o' : Out} {x x' : Model.SEdge} {e : GEdge} (h : Holds D E o x e)
    (hpt : OnE D e pt) (hc : Carry pt o o' x x') : Holds D E o' x' e :=
  ⟨h.1, fun k' p hk hp => by
    rcases hc k' p hk hp with rfl | ⟨k, h1, h2⟩
    · exact hpt
    · exact h.2 k p h1 h2⟩

/-- the new segments of an event whose point lies on the edges it touches lie on those edges -/
theorem segGeo_new {D : Int} {E : GEdge → Prop} {pt : Pt} {o o' : Out} (l : List Model.SEdge) (hs : SegGeo D E o)
    (hn : NewSegs pt l o o') (hl : ∀ x ∈ l, ∃ e, Holds D E o x e ∧ OnE D e pt) : SegGeo D E o' := by
  intro sg hsg
  rcases hn sg hsg with h | ⟨hq, hk, x, hx, k, hxk, hp⟩
  · exact hs sg h
  · obtain ⟨e, he, hpt⟩ := hl x hx
    exact ⟨hk, e, he.1, he.2 k sg.p hxk hp.symm, by rw [hq]; exact hpt⟩

/-! ## one geometric event -/

/-- **one geometric event keeps the invariants.**  `r`: a state of the ring model without joined or open edges, in which the rings and the
records agree (`OInv`, `RecsOK`: both hold in every reachable state); the AEL is in step with the geometric AEL `es`, every edge
holding a ring end whose end point lies on its input edge. -/
theorem geo_step (cfg : Cfg) (D : Int) (hD : 0 < D) (E : GEdge → Prop) (es es' : List GEdge) (op : ROp) (r r' : RState)
    (hev : GEv D E es op es') (hs : stepR cfg r op = .ok r') (hP : Plain r.s.ael) (hO : OInv r.s.next r.s.ael r.o)
    (hR : RecsOK r.s.next r.s.ael) (hG : GeoAll (Holds D E r.o) r.s.ael es) (hS : SegGeo D E r.o) :
    Plain r'.s.ael ∧ GeoAll (Holds D E r'.o) r'.s.ael es' ∧ SegGeo D E r'.o := by
  cases op with
  | base bop pt =>
    cases bop with
    | insertPair pos t isOpen dx =>
      cases isOpen with
      | true => simp [GEv] at hev
      | false =>
        simp only [GEv] at hev
        obtain ⟨epre, epost, l, rr, he, hlen, he', El, Er, ul, ur, hbot, hpt⟩ := hev
        obtain ⟨pre, post, l', r'', h1, h2, h3, h4, h5, h6, h7, h8⟩ := insertPair_carry cfg pos t dx pt r r' hP hO hs
        rw [h1, he, geoAll_append pre epre post epost (by omega)] at hG
        refine ⟨h4, ?_, ?_⟩
        · rw [h3, he']
          rw [geoAll_append pre epre _ _ (by omega)]
          refine ⟨geoAll_mono _ _ (fun x hx e hh => holds_carryS hh (h5 x (List.mem_append_left _ hx))) hG.1, ?_⟩
          simp only [GeoAll]
          refine ⟨⟨El, fun k p hk hp => ?_⟩, ⟨Er, fun k p hk hp => ?_⟩,
            geoAll_mono _ _ (fun x hx e hh => holds_carryS hh (h5 x (List.mem_append_right _ hx))) hG.2⟩
          · rw [h6 k p hk hp, hpt]; exact onE_bot D l hD ul
          · rw [h7 k p hk hp, hpt, ← hbot]; exact onE_bot D rr hD ur
        · intro sg hsg; rw [h8] at hsg; exact hS sg hsg
    | insertOne _ _ _ => simp [GEv] at hev
    | intersect i =>
      simp only [GEv] at hev
      obtain ⟨epre, epost, ea, eb, he, hlen, he', oa, ob⟩ := hev
      obtain ⟨pre, a, b, rest, g, a', b', h1, h2, h3, h4, h5, h6, h7, h8⟩ := intersect_carry cfg i pt r r' hP hO hR hs
      rw [h1, he, geoAll_append pre epre _ _ (by omega)] at hG
      obtain ⟨g1, g2⟩ := hG
      simp only [GeoAll] at g2
      obtain ⟨ga, gb, g3⟩ := g2
      refine ⟨h4, ?_, ?_⟩
      · rw [h3, he', geoAll_append _ epre _ _ (by simp; omega)]
        refine ⟨geoAll_map g _ _ (fun x hx e hh => holds_carryS hh (h5 x (List.mem_append_left _ hx))) g1, ?_⟩
        simp only [GeoAll]
        exact ⟨holds_carry gb ob h7, holds_carry ga oa h6,
          geoAll_map g _ _ (fun x hx e hh => holds_carryS hh (h5 x (List.mem_append_right _ hx))) g3⟩
      · refine segGeo_new [a, b] hS h8 ?_
        intro x hx
        simp only [List.mem_cons, List.not_mem_nil, or_false] at hx
        rcases hx with rfl | rfl
        · exact ⟨ea, ga, oa⟩
        · exact ⟨eb, gb, ob⟩
    | removePair i =>
      simp only [GEv] at hev
      obtain ⟨epre, epost, ea, eb, he, hlen, he', ua, ub, htop, hpt⟩ := hev
      obtain ⟨pre, a, b, rest, g, h1, h2, h3, h4, h5, h6⟩ := removePair_carry cfg i pt r r' hP hO hR hs
      rw [h1, he, geoAll_append pre epre _ _ (by omega)] at hG
      obtain ⟨g1, g2⟩ := hG
      simp only [GeoAll] at g2
      obtain ⟨ga, gb, g3⟩ := g2
      refine ⟨h4, ?_, ?_⟩
      · rw [h3, he', geoAll_append _ epre _ _ (by simp; omega)]
        exact ⟨geoAll_map g _ _ (fun x hx e hh => holds_carryS hh (h5 x (List.mem_append_left _ hx))) g1,
          geoAll_map g _ _ (fun x hx e hh => holds_carryS hh (h5 x (List.mem_append_right _ hx))) g3⟩
      · refine segGeo_new [a, b] hS h6 ?_
        intro x hx
        simp only [List.mem_cons, List.not_mem_nil, or_false] at hx
        rcases hx with rfl | rfl
        · exact ⟨ea, ga, by rw [hpt]; exact onE_top D ea hD ua⟩
        · exact ⟨eb, gb, by rw [hpt, ← htop]; exact onE_top D eb hD ub⟩
    | removeOne _ => simp [GEv] at hev
  | join _ _ => simp [GEv] at hev
  | split _ _ => simp [GEv] at hev
  | update i pt =>
    simp only [GEv] at hev
    obtain ⟨epre, epost, ea, ea', he, hlen, he', Ea', ua, ua', hbot, hpt⟩ := hev
    obtain ⟨pre, post, x, h1, h2, h3, h5, h6, h7⟩ := update_carry cfg i pt r r' hP hO hR hs
    have hG0 := hG
    rw [h1, he, geoAll_append pre epre _ _ (by omega)] at hG
    obtain ⟨g1, g2⟩ := hG
    simp only [GeoAll] at g2
    obtain ⟨gx, g3⟩ := g2
    have hpa : OnE D ea pt := by rw [hpt]; exact onE_top D ea hD ua
    refine ⟨by rw [h3]; exact hP, ?_, ?_⟩
    · rw [h3, h1, he', geoAll_append pre epre _ _ (by omega)]
      refine ⟨geoAll_mono _ _ (fun y hy e hh => holds_carryS hh (h5 y (List.mem_append_left _ hy))) g1, ?_⟩
      simp only [GeoAll]
      refine ⟨⟨Ea', fun k p hk hp => ?_⟩, geoAll_mono _ _ (fun y hy e hh => holds_carryS hh (h5 y (List.mem_append_right _ hy))) g3⟩
      -- the edge is hot: `AddOutPt(e, e.top)` has just put `pt = D·top` at its ring end
      have hlive := hO.hot x (by rw [h1]; simp) k hk
      have : endOf r'.o k = some pt := by
        have h2' := (Clipper.Props.C01Rings.erase_ring_step cfg r r' _ hs).2
        rw [h2']
        simp only [outStep, updateOut]
        have hx : r.s.ael[i]? = some x := by
          rw [h1, List.getElem?_append_right (by omega)]; simp [h2]
        simp only [hx, (hP x (by rw [h1]; simp)).2, Bool.false_eq_true, if_false, hk]
        exact endOf_addOn_self k pt r.o hlive
      rw [this] at hp
      rw [← Option.some.inj hp, hpt, ← hbot]
      exact onE_bot D ea' hD ua'
    · refine segGeo_new [x] hS h7 ?_
      intro y hy
      simp only [List.mem_cons, List.not_mem_nil, or_false] at hy
      subst hy
      exact ⟨ea, gx, hpa⟩

/-! ## event lists -/

theorem runR_append (cfg : Cfg) : ∀ (a b : List ROp) (x : RState),
    runR cfg x (a ++ b) = (match runR cfg x a with | .ok y => runR cfg y b | .error e => .error e) := by
  intro a
  induction a with
  | nil => intro b x; rfl
  | cons op a ih =>
    intro b x
    simp only [List.cons_append, runR]
    cases stepR cfg x op with
    | ok y => exact ih b y
    | error e => rfl

/-- reachable from the empty state -/
def Reach (cfg : Cfg) (r : RState) : Prop := ∃ ops0, runR cfg RState.empty ops0 = .ok r

theorem reach_step {cfg : Cfg} {r r' : RState} {op : ROp} (h : Reach cfg r) (hs : stepR cfg r op = .ok r') : Reach cfg r' := by
  obtain ⟨ops0, h0⟩ := h
  exact ⟨ops0 ++ [op], by rw [runR_append, h0]; simp only [runR, hs]⟩

theorem reach_facts {cfg : Cfg} (hct : cfg.ct ≠ .noClip) {r : RState} (h : Reach cfg r) :
    OInv r.s.next r.s.ael r.o ∧ RecsOK r.s.next r.s.ael ∧ SInv cfg r.s := by
  obtain ⟨ops0, h0⟩ := h
  exact ⟨(Clipper.Props.C01Rings.rinv_reachable cfg hct ops0 r h0).oinv, Clipper.Props.C01Rings.recs_rings cfg hct ops0 r h0,
    Clipper.Props.C01Rings.sinv_rings cfg hct ops0 r h0⟩

/-- **geometric event lists keep the invariants** -/
theorem geo_run (cfg : Cfg) (hct : cfg.ct ≠ .noClip) (D : Int) (hD : 0 < D) (E : GEdge → Prop) : ∀ (ops : List ROp) (es es' : List GEdge)
    (r r' : RState), GRun D E es ops es' → runR cfg r ops = .ok r' → Reach cfg r → Plain r.s.ael →
      GeoAll (Holds D E r.o) r.s.ael es → SegGeo D E r.o →
      Reach cfg r' ∧ Plain r'.s.ael ∧ GeoAll (Holds D E r'.o) r'.s.ael es' ∧ SegGeo D E r'.o := by
  intro ops
  induction ops with
  | nil =>
    intro es es' r r' hg hr hre hP hG hS
    simp only [GRun] at hg; subst hg
    simp only [runR] at hr; cases hr
    exact ⟨hre, hP, hG, hS⟩
  | cons op ops ih =>
    intro es es' r r' hg hr hre hP hG hS
    obtain ⟨es1, g1, g2⟩ := hg
    simp only [runR] at hr
    cases hs : stepR cfg r op with
    | error e => simp [hs] at hr
    | ok r1 =>
      simp only [hs] at hr
      obtain ⟨hO, hR, _⟩ := reach_facts hct hre
      obtain ⟨p1, p2, p3⟩ := geo_step cfg D hD E es es1 op r r1 g1 hs hP hO hR hG hS
      exact ih es1 es' r1 r' g2 hr (reach_step hre hs) p1 p2 p3

/-! ## bottom-up event lists: segments never go down -/

/-- both end points of every ring under construction are at height `≥ c` (y grows downwards: at or below the height `c`) -/
def EndsAbove (c : Int) (o : Out) : Prop :=
  ∀ g ∈ o.rings, g.stat = .live → ∀ p, (endPt true g.pts = some p ∨ endPt false g.pts = some p) → c ≤ p.y

/-- every logged segment runs from its older end point `p` UP to its newer end point `q` (or stays level) -/
def SegMono (o : Out) : Prop := ∀ sg ∈ o.segs, sg.q.y ≤ sg.p.y

theorem endPt_mem (f : Bool) (pts : List Pt) (p : Pt) (h : endPt f pts = some p) : p ∈ pts := by
  cases f
  · simp only [endPt, Bool.false_eq_true, if_false] at h; exact List.mem_of_getLast? h
  · simp only [endPt, if_true] at h; exact List.mem_of_mem_head? h

theorem endPt_append (f : Bool) (xs ys : List Pt) (p : Pt) (h : endPt f (xs ++ ys) = some p) :
    endPt f xs = some p ∨ endPt f ys = some p := by
  cases f
  · simp only [endPt, Bool.false_eq_true, if_false] at h ⊢
    cases ys with
    | nil => left; simpa using h
    | cons y t => right; rwa [getLast?_append_ne xs (y :: t) (by simp)] at h
  · simp only [endPt, if_true] at h ⊢
    cases xs with
    | nil => right; simpa using h
    | cons x t => left; simpa using h

theorem mem_set_cases {α} (l : List α) (i : Nat) (a x : α) (h : x ∈ l.set i a) : x = a ∨ x ∈ l := by
  rcases List.mem_or_eq_of_mem_set h with h | h
  · exact Or.inr h
  · exact Or.inl h

theorem endsAbove_prim' (pt : Pt) (c : Int) (hc : c ≤ pt.y) : PrimPres pt (EndsAbove c) := by
  refine ⟨?_, ?_, ?_, ?_, ?_, ?_⟩
  · intro o h g hg hl p hp
    simp only [newRec, List.mem_append, List.mem_singleton] at hg
    rcases hg with hg | rfl
    · exact h g hg hl p hp
    · simp only [endPt, if_true, List.head?_cons, Bool.false_eq_true, if_false, List.getLast?_singleton, Option.some.injEq] at hp
      rcases hp with rfl | rfl <;> exact hc
  · intro id f o h g hg hl p hp
    rw [addOutPt_rings] at hg
    cases hr : o.rings[id]? with
    | none => simp only [hr] at hg; exact h g hg hl p hp
    | some r =>
      simp only [hr] at hg
      by_cases hlv : r.stat = .live
      · simp only [hlv, if_true] at hg
        rcases mem_set_cases _ _ _ _ hg with rfl | hg
        · have hrm : r ∈ o.rings := mem_of_get _ _ _ hr
          rcases addPt_spec f pt r with ⟨_, h2, _⟩ | ⟨_, h2, _⟩
          · rw [h2] at hp; exact h r hrm hlv p hp
          · rw [h2] at hp
            have key : ∀ f', endPt f' (if f = true then pt :: r.pts else r.pts ++ [pt]) = some p → p = pt ∨ endPt f' r.pts = some p := by
              intro f' hh
              cases f
              · simp only [Bool.false_eq_true, if_false] at hh
                rcases endPt_append f' _ _ p hh with h' | h'
                · exact Or.inr h'
                · left; cases f' <;> simp [endPt] at h' <;> exact h'.symm
              · simp only [if_true] at hh
                have : pt :: r.pts = [pt] ++ r.pts := rfl
                rw [this] at hh
                rcases endPt_append f' _ _ p hh with h' | h'
                · left; cases f' <;> simp [endPt] at h' <;> exact h'.symm
                · exact Or.inr h'
            rcases hp with hp | hp
            · rcases key true hp with rfl | h'
              · exact hc
              · exact h r hrm hlv p (Or.inl h')
            · rcases key false hp with rfl | h'
              · exact hc
              · exact h r hrm hlv p (Or.inr h')
        · exact h g hg hl p hp
      · simp only [hlv, if_false] at hg; exact h g hg hl p hp
  · intro id f o h g hg hl p hp
    unfold handOver at hg
    cases hr : o.rings[id]? with
    | none => simp only [hr] at hg; exact h g hg hl p hp
    | some r =>
      simp only [hr] at hg
      rcases mem_set_cases _ _ _ _ hg with rfl | hg
      · have hrm : r ∈ o.rings := mem_of_get _ _ _ hr
        cases f
        · exact h r hrm hl p hp
        · exact h r hrm hl p hp
      · exact h g hg hl p hp
  · intro id f o h g hg hl p hp
    unfold finish at hg
    cases hr : o.rings[id]? with
    | none => simp only [hr] at hg; exact h g hg hl p hp
    | some r =>
      simp only [hr] at hg
      rcases mem_set_cases _ _ _ _ hg with rfl | hg
      · simp at hl
      · exact h g hg hl p hp
  · intro A B f o h g hg hl p hp
    unfold joinPaths at hg
    cases hA : o.rings[A]? with
    | none => simp only [hA] at hg; exact h g hg hl p hp
    | some ra =>
      cases hB : o.rings[B]? with
      | none => simp only [hA, hB] at hg; exact h g hg hl p hp
      | some rb =>
        simp only [hA, hB] at hg
        split at hg
        · next hc =>
          have ham : ra ∈ o.rings := mem_of_get _ _ _ hA
          have hbm : rb ∈ o.rings := mem_of_get _ _ _ hB
          rcases mem_set_cases _ _ _ _ hg with rfl | hg
          · simp at hl
          · rcases mem_set_cases _ _ _ _ hg with rfl | hg
            · have key : ∀ f', endPt f' (if f = true then rb.pts ++ ra.pts else ra.pts ++ rb.pts) = some p →
                  endPt f' ra.pts = some p ∨ endPt f' rb.pts = some p := by
                intro f' hh
                cases f
                · simp only [Bool.false_eq_true, if_false] at hh; exact endPt_append f' _ _ p hh
                · simp only [if_true] at hh; exact (endPt_append f' _ _ p hh).symm
              have hpts : ∀ f', endPt f' (if f = true then ({ ra with pts := rb.pts ++ ra.pts, frun := rb.frun, flast := rb.flast } : Ring)
                  else { ra with pts := ra.pts ++ rb.pts, brun := rb.brun, blast := rb.blast }).pts =
                  endPt f' (if f = true then rb.pts ++ ra.pts else ra.pts ++ rb.pts) := by
                intro f'; cases f <;> rfl
              rcases hp with hp | hp
              · rw [hpts] at hp
                rcases key true hp with h' | h'
                · exact h ra ham hc.2.1 p (Or.inl h')
                · exact h rb hbm hc.2.2 p (Or.inl h')
              · rw [hpts] at hp
                rcases key false hp with h' | h'
                · exact h ra ham hc.2.1 p (Or.inr h')
                · exact h rb hbm hc.2.2 p (Or.inr h')
            · exact h g hg hl p hp
        · exact h g hg hl p hp
  · intro k i1 f1 i2 f2 o h g hg hl p hp
    rw [logSeg_rings] at hg
    exact h g hg hl p hp

theorem endsAbove_prim (pt : Pt) : PrimPres pt (EndsAbove pt.y) := endsAbove_prim' pt pt.y (Int.le_refl _)

/-- an event whose point is not above the level `c` keeps all ring ends at or below `c` -/
theorem endsAbove_step (cfg : Cfg) (op : ROp) (r r' : RState) (c : Int) (hs : stepR cfg r op = .ok r') (hE : EndsAbove c r.o)
    (hc : c ≤ op.pt.y) : EndsAbove c r'.o := by
  rw [(Clipper.Props.C01Rings.erase_ring_step cfg r r' op hs).2]
  exact pres_outStep cfg r.s r.o op (EndsAbove c) (endsAbove_prim' op.pt c hc) hE

theorem endsAbove_run (cfg : Cfg) (c : Int) : ∀ (ops : List ROp) (r r' : RState), runR cfg r ops = .ok r' → EndsAbove c r.o →
    (∀ op ∈ ops, c ≤ op.pt.y) → EndsAbove c r'.o := by
  intro ops
  induction ops with
  | nil => intro r r' hr hE _; simp only [runR] at hr; cases hr; exact hE
  | cons op ops ih =>
    intro r r' hr hE hc
    simp only [runR] at hr
    cases hs : stepR cfg r op with
    | error e => simp [hs] at hr
    | ok r1 =>
      simp only [hs] at hr
      exact ih r1 r' hr (endsAbove_step cfg op r r1 c hs hE (hc op (by simp))) (fun o ho => hc o (by simp [ho]))

theorem endsAbove_mono {c c' : Int} {o : Out} (h : EndsAbove c o) (hle : c' ≤ c) : EndsAbove c' o :=
  fun g hg hl p hp => Int.le_trans hle (h g hg hl p hp)

/-- the events that occur in sweeps without joins, open paths and horizontal edges -/
def PlainOp : ROp → Prop
  | .base (.insertPair _ _ false _) _ => True
  | .base (.intersect _) _ => True
  | .base (.removePair _) _ => True
  | .update _ _ => True
  | _ => False

theorem plainOp_of_gEv {D : Int} {E : GEdge → Prop} {es es' : List GEdge} {op : ROp} (h : GEv D E es op es') : PlainOp op := by
  cases op with
  | base bop pt =>
    cases bop with
    | insertPair pos t isOpen dx => cases isOpen <;> simp [GEv] at h <;> trivial
    | insertOne _ _ _ => simp [GEv] at h
    | intersect i => trivial
    | removePair i => trivial
    | removeOne _ => simp [GEv] at h
  | join _ _ => simp [GEv] at h
  | split _ _ => simp [GEv] at h
  | update i pt => trivial

/-- what every plain event does, in one statement: the AEL stays plain, and every new segment runs from the end point of a ring end held by
an edge of the AEL to the event's point -/
theorem plain_step (cfg : Cfg) (op : ROp) (r r' : RState) (hop : PlainOp op) (hs : stepR cfg r op = .ok r') (hP : Plain r.s.ael)
    (hO : OInv r.s.next r.s.ael r.o) (hR : RecsOK r.s.next r.s.ael) :
    Plain r'.s.ael ∧ NewSegs op.pt r.s.ael r.o r'.o := by
  have widen : ∀ (l : List Model.SEdge), (∀ x ∈ l, x ∈ r.s.ael) → NewSegs op.pt l r.o r'.o → NewSegs op.pt r.s.ael r.o r'.o := by
    intro l hl hn sg hsg
    rcases hn sg hsg with h | ⟨h1, h2, x, hx, h3⟩
    · exact Or.inl h
    · exact Or.inr ⟨h1, h2, x, hl x hx, h3⟩
  cases op with
  | base bop pt =>
    cases bop with
    | insertPair pos t isOpen dx =>
      cases isOpen with
      | true => simp [PlainOp] at hop
      | false =>
        obtain ⟨pre, post, l', r'', h1, h2, h3, h4, h5, h6, h7, h8⟩ := insertPair_carry cfg pos t dx pt r r' hP hO hs
        exact ⟨h4, fun sg hsg => Or.inl (by rw [h8] at hsg; exact hsg)⟩
    | insertOne _ _ _ => simp [PlainOp] at hop
    | intersect i =>
      obtain ⟨pre, a, b, rest, g, a', b', h1, h2, h3, h4, h5, h6, h7, h8⟩ := intersect_carry cfg i pt r r' hP hO hR hs
      exact ⟨h4, widen [a, b] (by intro x hx; rw [h1]; simp at hx ⊢; rcases hx with rfl | rfl <;> simp) h8⟩
    | removePair i =>
      obtain ⟨pre, a, b, rest, g, h1, h2, h3, h4, h5, h6⟩ := removePair_carry cfg i pt r r' hP hO hR hs
      exact ⟨h4, widen [a, b] (by intro x hx; rw [h1]; simp at hx ⊢; rcases hx with rfl | rfl <;> simp) h6⟩
    | removeOne _ => simp [PlainOp] at hop
  | join _ _ => simp [PlainOp] at hop
  | split _ _ => simp [PlainOp] at hop
  | update i pt =>
    obtain ⟨pre, post, x, h1, h2, h3, h5, h6, h7⟩ := update_carry cfg i pt r r' hP hO hR hs
    exact ⟨by rw [h3]; exact hP, widen [x] (by intro y hy; rw [h1]; simp at hy ⊢; subst hy; simp) h7⟩

/-- **one event of a bottom-up event list**: its point is not below (`y` not larger than) the level `lo` under which all ring ends lie;
afterwards all ring ends lie at or below the event's point, and the new segments do not go down -/
theorem mono_step (cfg : Cfg) (op : ROp) (r r' : RState) (lo : Int) (hop : PlainOp op) (hs : stepR cfg r op = .ok r') (hP : Plain r.s.ael)
    (hO : OInv r.s.next r.s.ael r.o) (hR : RecsOK r.s.next r.s.ael) (hE : EndsAbove lo r.o) (hM : SegMono r.o) (hlo : op.pt.y ≤ lo) :
    EndsAbove op.pt.y r'.o ∧ SegMono r'.o := by
  constructor
  · rw [(Clipper.Props.C01Rings.erase_ring_step cfg r r' op hs).2]
    refine pres_outStep cfg r.s r.o op (EndsAbove op.pt.y) (endsAbove_prim op.pt) ?_
    intro g hg hl p hp
    exact Int.le_trans hlo (hE g hg hl p hp)
  · obtain ⟨_, hn⟩ := plain_step cfg op r r' hop hs hP hO hR
    intro sg hsg
    rcases hn sg hsg with h | ⟨hq, _, x, hx, k, hk, hp⟩
    · exact hM sg h
    · obtain ⟨g, hg, hl, _⟩ := hO.hot x hx k hk
      have hgm : g ∈ r.o.rings := mem_of_get _ _ _ hg
      have he : endPt k.front g.pts = some sg.p := by
        simp only [endOf, endAt, hg, Option.bind_some] at hp
        exact hp.symm
      have : lo ≤ sg.p.y := hE g hgm hl sg.p (by cases hf : k.front <;> rw [hf] at he <;> simp [he])
      rw [hq]; omega

/-- heights of the points of an event list never increase, starting below the level `lo` -/
def YChain : Int → List ROp → Prop
  | _, [] => True
  | lo, op :: ops => op.pt.y ≤ lo ∧ YChain op.pt.y ops

/-- **bottom-up event lists log segments that never go down** -/
theorem mono_run (cfg : Cfg) (hct : cfg.ct ≠ .noClip) : ∀ (ops : List ROp) (r r' : RState) (lo : Int), (∀ op ∈ ops, PlainOp op) →
    YChain lo ops → runR cfg r ops = .ok r' → Reach cfg r → Plain r.s.ael → EndsAbove lo r.o → SegMono r.o → SegMono r'.o := by
  intro ops
  induction ops with
  | nil => intro r r' lo _ _ hr _ _ _ hM; simp only [runR] at hr; cases hr; exact hM
  | cons op ops ih =>
    intro r r' lo hop hy hr hre hP hE hM
    simp only [runR] at hr
    cases hs : stepR cfg r op with
    | error e => simp [hs] at hr
    | ok r1 =>
      simp only [hs] at hr
      obtain ⟨hO, hR, _⟩ := reach_facts hct hre
      obtain ⟨e1, m1⟩ := mono_step cfg op r r1 lo (hop op (by simp)) hs hP hO hR hE hM hy.1
      obtain ⟨p1, _⟩ := plain_step cfg op r r1 (hop op (by simp)) hs hP hO hR
      exact ih r1 r' op.pt.y (fun o ho => hop o (by simp [ho])) hy.2 hr (reach_step hre hs) p1 e1 m1

end Clipper.Lemmas.C01Output
