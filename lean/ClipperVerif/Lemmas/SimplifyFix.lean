/- SimplifyPath: on exit no remaining vertex is removable (helper lemmas for `simplify_fixpoint` in Props/C20.lean).
Neighbourhood among the unflagged indices is described by `Nbr`: two distinct unflagged indices with every index
cyclically between them flagged. -/
import ClipperVerif.Lemmas.Simplify
namespace Clipper.Lemmas.PathUtil
open Clipper Clipper.Model.PathUtil

variable {D : Type}
set_option linter.unusedVariables false

/-- `x` lies strictly between `i` and `j` going forward cyclically (`i ≠ j`) -/
def Btw (i j x : Nat) : Prop := if i < j then i < x ∧ x < j else (i < x ∨ x < j)

/-- `i`, `j` are distinct unflagged indices and every index cyclically between them (forward from `i`) is flagged:
`j` is the next remaining vertex after `i` -/
def Nbr (high : Nat) (flags : List Bool) (i j : Nat) : Prop :=
  i ≤ high ∧ j ≤ high ∧ i ≠ j ∧ flagAt flags i = false ∧ flagAt flags j = false ∧
  ∀ x, x ≤ high → Btw i j x → flagAt flags x = true

theorem firstDown_succ (flags : List Bool) (i : Nat) :
    firstDown flags (i + 1) = if flagAt flags (i + 1) = false then some (i + 1) else firstDown flags i := by
  unfold firstDown
  rw [List.range_succ, List.reverse_append, List.reverse_singleton, List.singleton_append, List.find?_cons]
  cases h : flagAt flags (i + 1) <;> simp

theorem firstDown_spec (flags : List Bool) (i p : Nat) (h : firstDown flags i = some p) :
    p ≤ i ∧ flagAt flags p = false ∧ ∀ j, p < j → j ≤ i → flagAt flags j = true := by
  induction i with
  | zero =>
    have := firstDown_some flags 0 p h
    exact ⟨this.1, this.2, fun j h1 h2 => by omega⟩
  | succ i ih =>
    rw [firstDown_succ] at h
    split at h
    · rename_i hf
      injection h with h; subst h
      exact ⟨Nat.le_refl _, hf, fun j h1 h2 => by omega⟩
    · rename_i hf
      obtain ⟨h1, h2, h3⟩ := ih h
      refine ⟨by omega, h2, fun j hj1 hj2 => ?_⟩
      by_cases hji : j = i + 1
      · subst hji; cases hh : flagAt flags (i + 1) with
        | true => rfl
        | false => exact absurd hh hf
      · exact h3 j hj1 (by omega)

theorem Btw_cases (a b c : Nat) (hab : a ≠ b) (hac : a ≠ c) (hbc : b ≠ c) : Btw a b c ∨ Btw a c b := by
  unfold Btw; split <;> split <;> omega

theorem Btw_cases' (a a' b : Nat) (hab : a ≠ b) (ha'b : a' ≠ b) (haa : a ≠ a') : Btw a b a' ∨ Btw a' b a := by
  unfold Btw; split <;> split <;> omega

theorem Nbr_det_fwd {high : Nat} {flags : List Bool} {a b b' : Nat}
    (h1 : Nbr high flags a b) (h2 : Nbr high flags a b') : b = b' := by
  by_cases hbb : b = b'
  · exact hbb
  · obtain ⟨_, hb, hab, _, hfb, hall⟩ := h1
    obtain ⟨_, hb', hab', _, hfb', hall'⟩ := h2
    cases Btw_cases a b b' hab hab' hbb with
    | inl h => have := hall b' hb' h; rw [hfb'] at this; exact absurd this (by simp)
    | inr h => have := hall' b hb h; rw [hfb] at this; exact absurd this (by simp)

theorem Nbr_det_bwd {high : Nat} {flags : List Bool} {a a' b : Nat}
    (h1 : Nbr high flags a b) (h2 : Nbr high flags a' b) : a = a' := by
  by_cases haa : a = a'
  · exact haa
  · obtain ⟨ha, _, hab, hfa, _, hall⟩ := h1
    obtain ⟨ha', _, hab', hfa', _, hall'⟩ := h2
    cases Btw_cases' a a' b hab hab' haa with
    | inl h => have := hall a' ha' h; rw [hfa'] at this; exact absurd this (by simp)
    | inr h => have := hall' a ha h; rw [hfa] at this; exact absurd this (by simp)

theorem getNext_nbr (c high : Nat) (flags : List Bool) (n : Nat) (hc : c ≤ high)
    (hcf : flagAt flags c = false) (h : getNext c high flags = some n) (hne : n ≠ c) :
    Nbr high flags c n := by
  have hs := getNext_some _ _ _ _ h
  unfold getNext at h
  split at h
  · rename_i m hm
    injection h with h; subst h
    obtain ⟨h1, h2, h3, h4⟩ := firstUp_some _ _ _ _ hm
    refine ⟨hc, h2, fun e => hne e.symm, hcf, h3, fun x hx hb => ?_⟩
    unfold Btw at hb
    rw [if_pos (by omega)] at hb
    exact h4 x (by omega) hb.2
  · rename_i hnone
    have hn1 := firstUp_none _ _ _ hnone
    obtain ⟨_, h2, h3, h4⟩ := firstUp_some _ _ _ _ h
    have hlt : n < c := by
      by_cases hgt : c < n
      · have := hn1 n (by omega) h2; rw [h3] at this; exact absurd this (by simp)
      · omega
    refine ⟨hc, h2, fun e => hne e.symm, hcf, h3, fun x hx hb => ?_⟩
    unfold Btw at hb
    rw [if_neg (by omega)] at hb
    cases hb with
    | inl hb => exact hn1 x (by omega) hx
    | inr hb => exact h4 x (Nat.zero_le _) hb

theorem getPrior_nbr (c high : Nat) (flags : List Bool) (p : Nat) (hc : c ≤ high)
    (hcf : flagAt flags c = false) (h : getPrior c high flags = some p) (hne : p ≠ c) :
    Nbr high flags p c := by
  have hs := getPrior_some _ _ _ hc _ h
  unfold getPrior at h
  split at h
  · rename_i m hm
    injection h with h; subst h
    obtain ⟨h1, h2, h3⟩ := firstDown_spec _ _ _ hm
    refine ⟨hs.1, hc, hne, h2, hcf, fun x hx hb => ?_⟩
    unfold Btw at hb
    by_cases hc0 : c = 0
    · subst hc0
      simp only [if_true] at h1 h3
      rw [if_neg (by omega)] at hb
      cases hb with
      | inl hb => exact h3 x hb hx
      | inr hb => omega
    · rw [if_neg hc0] at h1 h3
      rw [if_pos (by omega)] at hb
      exact h3 x hb.1 (by omega)
  · rename_i hnone
    have hn1 := firstDown_none _ _ hnone
    obtain ⟨h1, h2, h3⟩ := firstDown_spec _ _ _ h
    by_cases hc0 : c = 0
    · subst hc0
      simp only [if_true] at hn1
      have := hn1 p h1; rw [h2] at this; exact absurd this (by simp)
    · rw [if_neg hc0] at hn1
      have hgt : c < p := by
        by_cases hlt : p < c
        · have := hn1 p (by omega); rw [h2] at this; exact absurd this (by simp)
        · omega
      refine ⟨hs.1, hc, hne, h2, hcf, fun x hx hb => ?_⟩
      unfold Btw at hb
      rw [if_neg (by omega)] at hb
      cases hb with
      | inl hb => exact h3 x hb hx
      | inr hb => exact hn1 x (by omega)

/-- if `GetPrior(curr)` returns `curr` itself, `curr` is the only unflagged index -/
theorem getPrior_self (c high : Nat) (flags : List Bool) (hc : c ≤ high)
    (h : getPrior c high flags = some c) : ∀ j, j ≤ high → flagAt flags j = false → j = c := by
  intro j hj hf
  unfold getPrior at h
  split at h
  · rename_i m hm
    injection h with h; subst h
    have := (firstDown_spec _ _ _ hm).1
    by_cases hc0 : m = 0
    · subst hc0
      simp only [if_true] at hm
      have h3 := (firstDown_spec _ _ _ hm).2.2
      by_cases hj0 : j = 0
      · exact hj0
      · have := h3 j (by omega) hj; rw [hf] at this; exact absurd this (by simp)
    · rw [if_neg hc0] at this; omega
  · rename_i hnone
    have hn1 := firstDown_none _ _ hnone
    obtain ⟨h1, h2, h3⟩ := firstDown_spec _ _ _ h
    by_cases hc0 : c = 0
    · subst hc0; simp only [if_true] at hn1
      have := hn1 0 (Nat.zero_le _); rw [h2] at this; exact absurd this (by simp)
    · rw [if_neg hc0] at hn1
      by_cases hlt : j < c
      · have := hn1 j (by omega); rw [hf] at this; exact absurd this (by simp)
      · by_cases hgt : c < j
        · have := h3 j hgt hj; rw [hf] at this; exact absurd this (by simp)
        · omega

theorem nbr_getNext {high : Nat} {flags : List Bool} {c n : Nat} (h : Nbr high flags c n) :
    getNext c high flags = some n := by
  have h' := h
  obtain ⟨hc, hn, hcn, hcf, hnf, _⟩ := h
  obtain ⟨m, hm⟩ := getNext_exists c high flags n hn hnf
  have hmc : m ≠ c := by
    intro e; rw [e] at hm
    exact hcn (getNext_self _ _ _ hm n hn hnf).symm
  rw [hm, Nbr_det_fwd (getNext_nbr c high flags m hc hcf hm hmc) h']

theorem nbr_getPrior {high : Nat} {flags : List Bool} {p c : Nat} (h : Nbr high flags p c) :
    getPrior c high flags = some p := by
  have h' := h
  obtain ⟨hp, hc, hpc, hpf, hcf, _⟩ := h
  obtain ⟨m, hm⟩ := getPrior_exists c high flags p hp hpf
  have hmc : m ≠ c := by
    intro e; rw [e] at hm
    exact hpc (getPrior_self _ _ _ hc hm p hp hpf)
  rw [hm, Nbr_det_bwd (getPrior_nbr c high flags m hc hcf hm hmc) h']

/-- neighbourhood after flagging `k`, whose neighbours were `P` and `N` -/
theorem Nbr_after_flag {high : Nat} {flags : List Bool} {k P N a b : Nat} (hk : k < flags.length)
    (hP : Nbr high flags P k) (hN : Nbr high flags k N) (h : Nbr high (flags.set k true) a b) :
    Nbr high flags a b ∨ (a = P ∧ b = N) := by
  obtain ⟨ha, hb, hab, haf, hbf, hall⟩ := h
  rw [flagAt_set _ _ _ hk] at haf hbf
  have hak : k ≠ a := by intro e; rw [if_pos e] at haf; exact absurd haf (by simp)
  have hbk : k ≠ b := by intro e; rw [if_pos e] at hbf; exact absurd hbf (by simp)
  rw [if_neg hak] at haf
  rw [if_neg hbk] at hbf
  have hall' : ∀ x, x ≤ high → Btw a b x → x ≠ k → flagAt flags x = true := by
    intro x hx hbt hxk
    have := hall x hx hbt
    rw [flagAt_set _ _ _ hk, if_neg (fun e => hxk e.symm)] at this; exact this
  have hkh : k ≤ high := hN.1
  by_cases hbk' : Btw a b k
  · refine Or.inr ⟨?_, ?_⟩
    · have : Nbr high flags a k := by
        refine ⟨ha, hkh, fun e => hak e.symm, haf, hN.2.2.2.1, fun x hx hbt => ?_⟩
        apply hall' x hx
        · unfold Btw at *; split at hbt <;> split at hbk' <;> split <;> omega
        · unfold Btw at hbt; split at hbt <;> omega
      exact Nbr_det_bwd this hP
    · have : Nbr high flags k b := by
        refine ⟨hkh, hb, hbk, hN.2.2.2.1, hbf, fun x hx hbt => ?_⟩
        apply hall' x hx
        · unfold Btw at *; split at hbt <;> split at hbk' <;> split <;> omega
        · unfold Btw at hbt; split at hbt <;> omega
      exact Nbr_det_fwd this hN
  · refine Or.inl ⟨ha, hb, hab, haf, hbf, fun x hx hbt => ?_⟩
    exact hall' x hx hbt (by intro e; subst e; exact hbk' hbt)

theorem Btw_total (c q x : Nat) (hcq : c ≠ q) (hxc : x ≠ c) (hxq : x ≠ q) : Btw c q x ∨ Btw q c x := by
  unfold Btw; split <;> split <;> omega

/-- `distSqr` is current: for every remaining vertex `i` (interior ones only, for an open path) with remaining
neighbours `p` and `n`, `distSqr[i] = PerpendicDistFromLineSqrd(path[i], path[p], path[n])` -/
def DistCurrent (ops : DistOps D) (path : List Pt) (closed : Bool) (high : Nat) (flags : List Bool)
    (dist : List D) : Prop :=
  ∀ p i n, Nbr high flags p i → Nbr high flags i n → (closed = true ∨ (i ≠ 0 ∧ i ≠ high)) →
    distAt ops dist i = ops.dist2 (nth path i) (nth path p) (nth path n)

/-- what holds when the loop exits: every remaining vertex (interior, for an open path) whose two remaining
neighbours are different vertices is farther than epsilon from the line through them -/
def FixOk (ops : DistOps D) (path : List Pt) (eps : D) (closed : Bool) (high : Nat) (flags : List Bool) : Prop :=
  ∀ p i n, Nbr high flags p i → Nbr high flags i n → p ≠ n → (closed = true ∨ (i ≠ 0 ∧ i ≠ high)) →
    ops.le (ops.dist2 (nth path i) (nth path p) (nth path n)) eps = false

theorem distAt_set_eq (ops : DistOps D) (dist : List D) (i : Nat) (v : D) (h : i < dist.length) :
    distAt ops (dist.set i v) i = v := by
  unfold distAt
  rw [List.getD_eq_getElem?_getD, List.getElem?_set, if_pos rfl, if_pos h]; rfl

theorem dist_two_sets (ops : DistOps D) (dist : List D) (N P : Nat) (v1 v2 : D) (g1 g2 : Bool) (i : Nat)
    (hN : N < dist.length) (hP : P < dist.length) :
    distAt ops (if g2 = true then (if g1 = true then dist.set N v1 else dist).set P v2
        else (if g1 = true then dist.set N v1 else dist)) i
      = if g2 = true ∧ i = P then v2 else if g1 = true ∧ i = N then v1 else distAt ops dist i := by
  cases g1 <;> cases g2 <;> simp only [Bool.false_eq_true, if_false, if_true, false_and, true_and]
  · by_cases hi : i = P
    · subst hi; rw [if_pos rfl, distAt_set_eq ops _ _ _ hP]
    · rw [if_neg hi, distAt_set_ne ops _ _ _ _ (fun e => hi e.symm)]
  · by_cases hi : i = N
    · subst hi; rw [if_pos rfl, distAt_set_eq ops _ _ _ hN]
    · rw [if_neg hi, distAt_set_ne ops _ _ _ _ (fun e => hi e.symm)]
  · by_cases hi : i = P
    · subst hi; rw [if_pos rfl, distAt_set_eq ops _ _ _ (by rw [List.length_set]; exact hP)]
    · rw [if_neg hi, distAt_set_ne ops _ _ _ _ (fun e => hi e.symm)]
      by_cases hi2 : i = N
      · subst hi2; rw [if_pos rfl, distAt_set_eq ops _ _ _ hN]
      · rw [if_neg hi2, distAt_set_ne ops _ _ _ _ (fun e => hi2 e.symm)]

theorem distCurrent_step (ops : DistOps D) (path : List Pt) (closed : Bool) (high : Nat)
    (flags : List Bool) (dist : List D) (k P N p2 n3 : Nat)
    (hk : k < flags.length) (hP : Nbr high flags P k) (hN : Nbr high flags k N) (hPN : P ≠ N)
    (hp2 : getPrior P high flags = some p2) (hn3 : getNext N high (flags.set k true) = some n3)
    (hdl : high < dist.length) (hcur : DistCurrent ops path closed high flags dist) :
    DistCurrent ops path closed high (flags.set k true)
      (if (closed || (P != 0 && P != high)) = true then
        (if (closed || (N != high && N != 0)) = true then
          dist.set N (ops.dist2 (nth path N) (nth path P) (nth path n3)) else dist).set P
            (ops.dist2 (nth path P) (nth path p2) (nth path N))
       else (if (closed || (N != high && N != 0)) = true then
          dist.set N (ops.dist2 (nth path N) (nth path P) (nth path n3)) else dist)) := by
  intro p' i n' h1 h2 hg
  have hg1 : i = N → (closed || (N != high && N != 0)) = true := by
    intro e; subst e
    cases hg with
    | inl h => rw [h]; rfl
    | inr h => simp [h.1, h.2]
  have hg2 : i = P → (closed || (P != 0 && P != high)) = true := by
    intro e; subst e
    cases hg with
    | inl h => rw [h]; rfl
    | inr h => simp [h.1, h.2]
  have hfk : flagAt (flags.set k true) k = true := by rw [flagAt_set _ _ _ hk, if_pos rfl]
  have hp'k : p' ≠ k := by
    intro e; rw [e] at h1; have := h1.2.2.2.1; rw [hfk] at this; exact absurd this (by simp)
  have hn'k : n' ≠ k := by
    intro e; rw [e] at h2; have := h2.2.2.2.2.1; rw [hfk] at this; exact absurd this (by simp)
  have hNlen : N < dist.length := by have := hN.2.1; omega
  have hPlen : P < dist.length := by have := hP.1; omega
  rw [dist_two_sets ops dist N P _ _ _ _ i hNlen hPlen]
  cases Nbr_after_flag hk hP hN h1 with
  | inl o1 =>
    have hiN : i ≠ N := by
      intro e; rw [e] at o1; exact hp'k (Nbr_det_bwd o1 hN)
    cases Nbr_after_flag hk hP hN h2 with
    | inl o2 =>
      have hiP : i ≠ P := by
        intro e; rw [e] at o2; exact hn'k (Nbr_det_fwd o2 hP)
      rw [if_neg (fun h => hiP h.2), if_neg (fun h => hiN h.2)]
      exact hcur p' i n' o1 o2 hg
    | inr n2 =>
      obtain ⟨e1, e2⟩ := n2
      subst e1 e2
      rw [if_pos ⟨hg2 rfl, rfl⟩]
      have := nbr_getPrior o1
      rw [hp2] at this; injection this with this; rw [this]
  | inr n1 =>
    obtain ⟨e1, e2⟩ := n1
    subst e1 e2
    rw [if_neg (fun h => hPN h.2.symm), if_pos ⟨hg1 rfl, rfl⟩]
    have := nbr_getNext h2
    rw [hn3] at this; injection this with this; rw [this]

theorem scan_none (ops : DistOps D) (eps : D) (high : Nat) (flags : List Bool) (dist : List D) (start : Nat)
    (hs : start ≤ high) (h : scan ops eps high flags dist start = none) :
    ∀ j, j ≤ high → j ≠ start → flagAt flags j = false → ops.le (distAt ops dist j) eps = false := by
  unfold scan at h
  rw [List.find?_eq_none] at h
  intro j hj hne hf
  have := h j (by rw [List.mem_append, List.mem_range'_1, List.mem_range]; omega)
  rw [hf] at this
  cases hl : ops.le (distAt ops dist j) eps with
  | false => rfl
  | true => rw [hl] at this; simp at this

/-- One iteration of the loop keeps `distSqr` current; when the loop exits, no remaining vertex is removable. -/
theorem simplifyStep_fix (ops : DistOps D) (path : List Pt) (eps : D) (closed : Bool)
    (flags : List Bool) (dist : List D) (curr : Nat) (hinv : SInv path.length flags curr)
    (hpl : 0 < path.length) (hdl : dist.length = path.length)
    (hcur : DistCurrent ops path closed (path.length - 1) flags dist) :
    match simplifyStep ops path eps closed (path.length - 1) flags dist curr with
    | .exit => FixOk ops path eps closed (path.length - 1) flags
    | .fault => True
    | .cont f' d' _ => d'.length = path.length ∧ DistCurrent ops path closed (path.length - 1) f' d' := by
  obtain ⟨hlen, hcurr, hcf⟩ := hinv
  unfold simplifyStep
  generalize hc0 : (if (!ops.le (distAt ops dist curr) eps) = true then
      scan ops eps (path.length - 1) flags dist curr else some curr) = c0
  cases c0 with
  | none =>
    -- came back to `start`: every remaining vertex has distSqr > epsSqr
    simp only []
    split at hc0
    · rename_i hgt
      have hgt' : ops.le (distAt ops dist curr) eps = false := by simpa using hgt
      have hsc := scan_none ops eps _ flags dist curr hcurr hc0
      intro p i n h1 h2 _ hg
      rw [← hcur p i n h1 h2 hg]
      by_cases hic : i = curr
      · subst hic; exact hgt'
      · exact hsc i h1.2.1 hic h1.2.2.2.2.1
    · exact absurd hc0 (by simp)
  | some c =>
    have hc : c ≤ path.length - 1 ∧ flagAt flags c = false := by
      split at hc0
      · have := scan_some ops eps _ flags dist curr c hcurr hc0; exact ⟨this.1, this.2.1⟩
      · injection hc0 with hc0; subst hc0; exact ⟨hcurr, hcf⟩
    obtain ⟨hcle, hcfl⟩ := hc
    simp only []
    obtain ⟨prior, hprior⟩ := getPrior_exists c (path.length - 1) flags c hcle hcfl
    obtain ⟨next, hnext⟩ := getNext_exists c (path.length - 1) flags c hcle hcfl
    rw [hprior, hnext]
    simp only []
    have hp := getPrior_some _ _ _ hcle _ hprior
    have hn := getNext_some _ _ _ _ hnext
    by_cases hnp : next = prior
    · rw [if_pos hnp]
      simp only []
      -- at most two vertices remain
      intro p i n h1 h2 hpn _
      exfalso
      by_cases hqc : next = c
      · rw [hqc] at hnext
        have hall := getNext_self _ _ _ hnext
        have e1 := hall p h1.1 h1.2.2.2.1
        have e2 := hall i h1.2.1 h1.2.2.2.2.1
        exact h1.2.2.1 (by rw [e1, e2])
      · have hcq : Nbr (path.length - 1) flags c next := getNext_nbr c _ flags next hcle hcfl hnext hqc
        have hqc' : Nbr (path.length - 1) flags next c := by
          rw [hnp] at hqc ⊢
          exact getPrior_nbr c _ flags prior hcle hcfl hprior hqc
        have hin : ∀ x, x ≤ path.length - 1 → flagAt flags x = false → x = c ∨ x = next := by
          intro x hx hf
          by_cases hxc : x = c
          · exact Or.inl hxc
          · by_cases hxq : x = next
            · exact Or.inr hxq
            · exfalso
              cases Btw_total c next x (fun e => hqc e.symm) hxc hxq with
              | inl hb => have := hcq.2.2.2.2.2 x hx hb; rw [hf] at this; exact absurd this (by simp)
              | inr hb => have := hqc'.2.2.2.2.2 x hx hb; rw [hf] at this; exact absurd this (by simp)
        have ep := hin p h1.1 h1.2.2.2.1
        have ei := hin i h1.2.1 h1.2.2.2.2.1
        have en := hin n h2.2.1 h2.2.2.2.2.1
        have hpi := h1.2.2.1
        have hi_n := h2.2.2.1
        omega
    · rw [if_neg hnp]
      have hnc : next ≠ c := by
        intro he
        rw [he] at hnext
        have hall := getNext_self _ _ _ hnext
        exact hnp (by rw [he, hall prior hp.1 hp.2])
      have hpc : prior ≠ c := by
        intro he
        rw [he] at hprior
        have hall := getPrior_self _ _ _ hcle hprior
        exact hnc (hall next hn.1 hn.2)
      have nbrN : Nbr (path.length - 1) flags c next := getNext_nbr c _ flags next hcle hcfl hnext hnc
      have nbrP : Nbr (path.length - 1) flags prior c := getPrior_nbr c _ flags prior hcle hcfl hprior hpc
      have hdl' : path.length - 1 < dist.length := by omega
      by_cases hsel : (!ops.le (distAt ops dist c) (distAt ops dist next)) = true
      · -- flag `next`
        rw [if_pos hsel]
        obtain ⟨n2, hn2⟩ := getNext_exists next (path.length - 1) flags c hcle hcfl
        rw [hn2]
        simp only [Option.map_some]
        have hnlt := flagAt_false_lt flags next hn.2
        have hcf' : flagAt (flags.set next true) c = false := by
          rw [flagAt_set _ _ _ hnlt, if_neg hnc]; exact hcfl
        obtain ⟨n3, hn3⟩ := getNext_exists n2 (path.length - 1) (flags.set next true) c hcle hcf'
        rw [hn3]
        simp only []
        have hn2ne : n2 ≠ next := by
          intro he
          rw [he] at hn2
          exact hnc ((getNext_self _ _ _ hn2 c hcle hcfl).symm)
        have nbrN2 : Nbr (path.length - 1) flags next n2 := getNext_nbr next _ flags n2 hn.1 hn.2 hn2 hn2ne
        have hcn2 : c ≠ n2 := by
          intro e; rw [← e] at nbrN2
          -- c -> next and next -> c : then prior = next
          exact hnp (Nbr_det_bwd nbrN2 nbrP)
        refine ⟨?_, distCurrent_step ops path closed _ flags dist next c n2 prior n3 hnlt nbrN nbrN2 hcn2
          hprior hn3 hdl' hcur⟩
        split <;> split <;> (try simp only [List.length_set]) <;> exact hdl
      · -- flag `c`
        rw [if_neg hsel]
        obtain ⟨p2, hp2⟩ := getPrior_exists prior (path.length - 1) flags c hcle hcfl
        rw [hp2]
        simp only [Option.map_some]
        have hclt := flagAt_false_lt flags c hcfl
        have hnf' : flagAt (flags.set c true) next = false := by
          rw [flagAt_set _ _ _ hclt, if_neg (fun e => hnc e.symm)]; exact hn.2
        obtain ⟨n3, hn3⟩ := getNext_exists next (path.length - 1) (flags.set c true) next hn.1 hnf'
        rw [hn3]
        simp only []
        refine ⟨?_, distCurrent_step ops path closed _ flags dist c prior next p2 n3 hclt nbrP nbrN
          (fun e => hnp e.symm) hp2 hn3 hdl' hcur⟩
        split <;> split <;> (try simp only [List.length_set]) <;> exact hdl

theorem simplifyLoop_fix (ops : DistOps D) (path : List Pt) (eps : D) (closed : Bool) (hpl : 0 < path.length) :
    ∀ (fuel : Nat) (flags : List Bool) (dist : List D) (curr : Nat),
      SInv path.length flags curr → dist.length = path.length →
      DistCurrent ops path closed (path.length - 1) flags dist →
      ∀ f', simplifyLoop ops path eps closed (path.length - 1) fuel flags dist curr = some f' →
        FixOk ops path eps closed (path.length - 1) f' := by
  intro fuel
  induction fuel with
  | zero => intro flags dist curr _ _ _ f' h; simp [simplifyLoop] at h
  | succ fuel ih =>
    intro flags dist curr hinv hdl hcur f' h
    have hs1 := simplifyStep_spec ops path eps closed flags dist curr hinv
    have hs2 := simplifyStep_fix ops path eps closed flags dist curr hinv hpl hdl hcur
    simp only [simplifyLoop] at h
    generalize simplifyStep ops path eps closed (path.length - 1) flags dist curr = st at hs1 hs2 h
    cases st with
    | exit =>
      simp only [Option.some.injEq] at h; subst h; exact hs2
    | fault => simp at h
    | cont f1 d1 c1 =>
      simp only [] at hs1 hs2 h
      exact ih f1 d1 c1 hs1.1 hs2.1 hs2.2 f' h

theorem nbr_init (n : Nat) (p i : Nat) (h : Nbr (n - 1) (List.replicate n false) p i) :
    (i = p + 1 ∧ i ≤ n - 1) ∨ (p = n - 1 ∧ i = 0 ∧ p ≠ 0) := by
  obtain ⟨hp, hi, hpi, _, _, hall⟩ := h
  have hf : ∀ x, x ≤ n - 1 → x < n → flagAt (List.replicate n false) x = false := by
    intro x _ hx
    unfold flagAt; rw [List.getD_eq_getElem?_getD, List.getElem?_replicate, if_pos hx]; rfl
  have hn : 0 < n := by
    cases n with
    | zero => simp at hi hp; omega
    | succ m => omega
  have hnone : ∀ x, x ≤ n - 1 → ¬ Btw p i x := by
    intro x hx hb
    have := hall x hx hb
    rw [hf x hx (by omega)] at this; exact absurd this (by simp)
  by_cases hlt : p < i
  · refine Or.inl ⟨?_, hi⟩
    by_cases he : i = p + 1
    · exact he
    · exfalso; apply hnone (p + 1) (by omega)
      unfold Btw; rw [if_pos hlt]; omega
  · refine Or.inr ⟨?_, ?_, by omega⟩
    · by_cases he : p = n - 1
      · exact he
      · exfalso; apply hnone (p + 1) (by omega)
        unfold Btw; rw [if_neg hlt]; omega
    · by_cases he : i = 0
      · exact he
      · exfalso; apply hnone 0 (by omega)
        unfold Btw; rw [if_neg hlt]; omega

theorem simplifyInit_current (ops : DistOps D) (path : List Pt) (closed : Bool) (hlen : 3 ≤ path.length)
    (hsym : closed = true → ∀ q a b, ops.dist2 q a b = ops.dist2 q b a) :
    DistCurrent ops path closed (path.length - 1) (List.replicate path.length false)
      (simplifyInitDist ops path closed) := by
  intro p i n h1 h2 hg
  have hi : i ≤ path.length - 1 := h1.2.1
  have hval : distAt ops (simplifyInitDist ops path closed) i =
      (if i = 0 then (if closed then ops.dist2 (nth path 0) (nth path (path.length - 1)) (nth path 1) else ops.maxD)
       else if i = path.length - 1 then
        (if closed then ops.dist2 (nth path (path.length - 1)) (nth path 0) (nth path (path.length - 1 - 1)) else ops.maxD)
       else ops.dist2 (nth path i) (nth path (i - 1)) (nth path (i + 1))) := by
    unfold distAt simplifyInitDist
    rw [List.getD_eq_getElem?_getD, List.getElem?_map, List.getElem?_range (by omega)]
    rfl
  rw [hval]
  have e1 := nbr_init path.length p i h1
  have e2 := nbr_init path.length i n h2
  by_cases hi0 : i = 0
  · subst hi0
    have hc : closed = true := by
      cases hg with
      | inl h => exact h
      | inr h => exact absurd rfl h.1
    have hp : p = path.length - 1 := by omega
    have hn : n = 1 := by omega
    subst hp hn
    simp [hc]
  · rw [if_neg hi0]
    by_cases hih : i = path.length - 1
    · rw [if_pos hih]
      have hc : closed = true := by
        cases hg with
        | inl h => exact h
        | inr h => exact absurd hih h.2
      have hp : p = path.length - 1 - 1 := by omega
      have hn : n = 0 := by omega
      subst hp hn
      simp only [hc, if_true]
      rw [hih, hsym hc]
    · rw [if_neg hih]
      have hp : p = i - 1 := by omega
      have hn : n = i + 1 := by omega
      rw [hp, hn]

end Clipper.Lemmas.PathUtil
