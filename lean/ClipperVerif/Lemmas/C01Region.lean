/-
Helper lemmas for `Props/C01Region.lean` (composition of the AEL bookkeeping model with the scanbeam model).
Part 1: adjacent transpositions, insertion sort as transpositions, the bookkeeping model on keys, the events of one scanbeam.
Core Lean only.
-/
import ClipperVerif.Model.SweepEvents
import ClipperVerif.Lemmas.SweepOrder
import ClipperVerif.Lemmas.AelOrder
import ClipperVerif.Lemmas.Ael
namespace Clipper.Lemmas.C01Region
open Clipper Clipper.Model Clipper.Model.AelOrder Clipper.Model.SweepOrder Clipper.Model.SweepEvents
open Clipper.Lemmas.SweepOrder

/-! ## adjacent transpositions -/
section Swaps
variable {α β : Type}

theorem swapAt_append_left (pre : List α) (i : Nat) (l l' : List α) (h : swapAt i l = some l') :
    swapAt (pre.length + i) (pre ++ l) = some (pre ++ l') := by
  unfold swapAt at h ⊢
  have hd : (pre ++ l).drop (pre.length + i) = l.drop i := List.drop_length_add_append i
  have ht : (pre ++ l).take (pre.length + i) = pre ++ l.take i := List.take_length_add_append i
  rw [hd, ht]
  split at h
  next a b rest hh => simp only [Option.some.injEq] at h; subst h; simp
  next => cases h

theorem swapAt_len (pre : List α) (a b : α) (rest : List α) (k : Nat) (hk : pre.length = k) :
    swapAt k (pre ++ a :: b :: rest) = some (pre ++ b :: a :: rest) := by
  have := swapAt_append_left pre 0 (a :: b :: rest) (b :: a :: rest) rfl
  rw [← hk]; simpa using this

theorem applySwaps_cons (i : Nat) (is : List Nat) (l : List α) :
    applySwaps (i :: is) l = (swapAt i l).bind (applySwaps is) := rfl
theorem applySwaps_nil (l : List α) : applySwaps [] l = some l := rfl

theorem swapAt_map (f : α → β) (i : Nat) (l : List α) : swapAt i (l.map f) = (swapAt i l).map (List.map f) := by
  unfold swapAt
  rw [← List.map_drop, ← List.map_take]
  cases h : l.drop i with
  | nil => simp
  | cons a t =>
    cases t with
    | nil => simp
    | cons b rest => simp

theorem applySwaps_map (f : α → β) : ∀ (is : List Nat) (l : List α),
    applySwaps is (l.map f) = (applySwaps is l).map (List.map f) := by
  intro is
  induction is with
  | nil => intro l; rfl
  | cons i is ih =>
    intro l
    simp only [applySwaps, swapAt_map]
    cases swapAt i l with
    | none => rfl
    | some l' => simp [ih]

theorem applySwaps_append : ∀ (is js : List Nat) (l : List α),
    applySwaps (is ++ js) l = (applySwaps is l).bind (applySwaps js) := by
  intro is
  induction is with
  | nil => intro js l; rfl
  | cons i is ih =>
    intro js l
    simp only [List.cons_append, applySwaps]
    cases swapAt i l with
    | none => rfl
    | some l' => simp [ih]

theorem stableSort_cons (le : α → α → Bool) (a : α) (l : List α) :
    stableSort le (a :: l) = insertBefore le a (stableSort le l) := rfl

theorem insSwaps_spec (le : α → α → Bool) (a : α) : ∀ (l pre : List α) (k : Nat), pre.length = k →
    applySwaps (insSwaps le k a l) (pre ++ a :: l) = some (pre ++ insertBefore le a l) := by
  intro l
  induction l with
  | nil => intro pre k _; rfl
  | cons b l ih =>
    intro pre k hk
    by_cases hab : le a b = true
    · simp [insSwaps, insertBefore, hab, applySwaps]
    · have := ih (pre ++ [b]) (k + 1) (by simp [hk])
      simp only [List.append_assoc, List.singleton_append] at this
      simp only [insSwaps, insertBefore, hab, Bool.false_eq_true, if_false]
      rw [applySwaps_cons, swapAt_len pre a b l k hk, Option.bind_some, this]

theorem sortSwaps_spec (le : α → α → Bool) : ∀ (l pre : List α) (k : Nat), pre.length = k →
    applySwaps (sortSwaps le k l) (pre ++ l) = some (pre ++ stableSort le l) := by
  intro l
  induction l with
  | nil => intro pre k _; simp [sortSwaps, stableSort, applySwaps]
  | cons a l ih =>
    intro pre k hk
    simp only [sortSwaps, applySwaps_append]
    have h1 := ih (pre ++ [a]) (k + 1) (by simp [hk])
    simp only [List.append_assoc, List.singleton_append] at h1
    rw [h1]
    simp only [Option.bind_some]
    rw [insSwaps_spec le a _ pre k hk, stableSort_cons]

/-- the settling loop of the right bound, as transpositions -/
theorem bubble_swaps (valid : α → α → Bool) (rb : α) : ∀ (rest pre : List α) (k : Nat), pre.length = k →
    applySwaps ((List.range (bubbleCount valid rb rest)).map (fun j => k + j)) (pre ++ rb :: rest) =
      some (pre ++ bubble valid rb rest) := by
  intro rest
  induction rest with
  | nil => intro pre k _; simp [bubbleCount, bubble, applySwaps]
  | cons nxt rest ih =>
    intro pre k hk
    by_cases hv : valid nxt rb = true
    · simp only [bubbleCount, bubble, hv, if_true, List.range_succ_eq_map, List.map_cons, List.map_map, applySwaps,
        Nat.add_zero, swapAt_len pre rb nxt rest k hk, Option.bind_some]
      have := ih (pre ++ [nxt]) (k + 1) (by simp [hk])
      simp only [List.append_assoc, List.singleton_append] at this
      rw [← this]
      congr 1
      apply List.map_congr_left
      intro j _
      simp only [Function.comp]
      omega
    · simp [bubbleCount, bubble, hv, applySwaps]

/-- a predicate that is downward closed along a list selects a prefix -/
theorem filter_eq_take_of_closed (p : α → Bool) : ∀ (l : List α), l.Pairwise (fun a b => p b = true → p a = true) →
    ∃ k, k ≤ l.length ∧ l.filter p = l.take k := by
  intro l
  induction l with
  | nil => intro _; exact ⟨0, by simp, rfl⟩
  | cons a l ih =>
    intro h
    rw [List.pairwise_cons] at h
    by_cases ha : p a = true
    · obtain ⟨k, hk, e⟩ := ih h.2
      exact ⟨k + 1, by simp; omega, by simp [ha, e]⟩
    · refine ⟨0, by simp, ?_⟩
      have : l.filter p = [] := List.filter_eq_nil_iff.2 (fun b hb hpb => ha (h.1 b hb hpb))
      simp [ha, this]

end Swaps

/-! ## the bookkeeping model on keys -/

theorem run_append (cfg : Cfg) : ∀ (a b : List Op) (l : Ael),
    Model.run cfg l (a ++ b) = (Model.run cfg l a).bind (fun l' => Model.run cfg l' b) := by
  intro a
  induction a with
  | nil => intro b l; rfl
  | cons op a ih =>
    intro b l
    simp only [List.cons_append, Model.run]
    cases step cfg l op with
    | none => rfl
    | some l' => simp [ih]

theorem key_intersectPair (cfg : Cfg) (e1 e2 : Edge) :
    key (intersectPair cfg e1 e2).1 = key e1 ∧ key (intersectPair cfg e1 e2).2 = key e2 := by
  obtain ⟨f1, f2, f3, f4, f5, f6⟩ := intersectPair_fields cfg e1 e2
  simp [key, f1, f2, f3, f4, f5, f6]

/-- `IntersectEdges` + `SwapPositionsInAEL` is accepted exactly when the transposition fits, and transposes the keys -/
theorem intersect_tracks (cfg : Cfg) (i : Nat) (l : Ael) (ks : List (PathType × Bool × Int))
    (h : swapAt i (l.map key) = some ks) : ∃ l', intersect cfg i l = some l' ∧ l'.map key = ks := by
  rw [swapAt_map] at h
  unfold swapAt at h
  unfold intersect
  cases hd : l.drop i with
  | nil => simp [hd] at h
  | cons a t =>
    cases t with
    | nil => simp [hd] at h
    | cons b rest =>
      simp only [hd, Option.map_some, Option.some.injEq] at h
      refine ⟨_, rfl, ?_⟩
      rw [← h]
      obtain ⟨k1, k2⟩ := key_intersectPair cfg a b
      simp [k1, k2]

theorem run_intersects (cfg : Cfg) : ∀ (is : List Nat) (l : Ael) (ks : List (PathType × Bool × Int)),
    applySwaps is (l.map key) = some ks → ∃ l', Model.run cfg l (is.map .intersect) = some l' ∧ l'.map key = ks := by
  intro is
  induction is with
  | nil => intro l ks h; simp only [applySwaps, Option.some.injEq] at h; exact ⟨l, rfl, h⟩
  | cons i is ih =>
    intro l ks h
    simp only [applySwaps] at h
    cases hs : swapAt i (l.map key) with
    | none => simp [hs] at h
    | some ks1 =>
      rw [hs] at h
      simp only [Option.bind_some] at h
      obtain ⟨l1, e1, e2⟩ := intersect_tracks cfg i l ks1 hs
      obtain ⟨l2, e3, e4⟩ := ih l1 ks (by rw [e2]; exact h)
      exact ⟨l2, by simp only [List.map_cons, Model.run, step, e1]; exact e3, e4⟩

/-- the local-minimum insertion is accepted for a position inside the list and a direction `±1`; keys: the pair goes in at `pos` -/
theorem insertPair_tracks (cfg : Cfg) (pos : Nat) (pt : PathType) (dx : Int) (l : Ael)
    (hp : pos ≤ l.length) (hd : dx = 1 ∨ dx = -1) :
    ∃ l', insertPair cfg pos pt false dx l = some l' ∧
      l'.map key = (l.map key).take pos ++ (pt, false, dx) :: (pt, false, -dx) :: (l.map key).drop pos := by
  unfold insertPair
  rw [if_pos ⟨hp, hd⟩]
  refine ⟨_, rfl, ?_⟩
  obtain ⟨g1, g2, g3⟩ := newLeft_fields cfg (l.take pos) pt false dx
  simp [key, g1, g2, g3, List.map_take, List.map_drop]

/-- a maxima pair whose keys fit is removed -/
theorem removePair_tracks (i : Nat) (l : Ael) (pre post : List (PathType × Bool × Int)) (pt : PathType) (o : Bool) (dx : Int)
    (h : l.map key = pre ++ (pt, o, dx) :: (pt, o, -dx) :: post) (hi : pre.length = i) :
    ∃ l', removePair i l = some l' ∧ l'.map key = pre ++ post := by
  have hd : (l.map key).drop i = (pt, o, dx) :: (pt, o, -dx) :: post := by rw [h, ← hi]; simp
  have ht : (l.map key).take i = pre := by rw [h, ← hi]; simp
  rw [← List.map_drop] at hd
  rw [← List.map_take] at ht
  unfold removePair
  cases hl : l.drop i with
  | nil => simp [hl] at hd
  | cons a t =>
    cases t with
    | nil => simp [hl] at hd
    | cons b rest =>
      simp only [hl, List.map_cons, List.cons.injEq] at hd
      obtain ⟨ha, hb, hr⟩ := hd
      simp only [key, Prod.mk.injEq] at ha hb
      have hc : a.pt = b.pt ∧ a.isOpen = b.isOpen ∧ a.dx + b.dx = 0 := by
        refine ⟨by rw [ha.1, hb.1], by rw [ha.2.1, hb.2.1], ?_⟩
        rw [ha.2.2, hb.2.2]; omega
      simp only [hc, and_self, if_true]
      exact ⟨_, rfl, by simp [ht, hr]⟩

end Clipper.Lemmas.C01Region
