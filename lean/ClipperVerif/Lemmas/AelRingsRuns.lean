/-
Runs of the ring assembly model: the ghost run id of a ring end follows one `Active` through the AEL (helper lemmas for
`Props/C01Rings.lean`, theorem `run_follows_active`).
-/
import ClipperVerif.Lemmas.AelRingsStep
namespace Clipper.Model

/-- the run id of end `k` -/
def runOf (rings : List Ring) (k : Rec) : Option Nat := (rings[k.id]?).map (fun g => g.run k.front)

/-- the run id held by the edge at position `p` of the AEL -/
def holderRun (l : List SEdge) (rings : List Ring) (p : Nat) : Option Nat :=
  match l[p]? with
  | some x => (match x.orec with | some k => runOf rings k | none => none)
  | none => none

/-! ## what the primitives do to run ids -/

theorem runOf_newRec (pt : Pt) (o : Out) (k : Rec) (ρ : Nat) (h : runOf (newRec pt o).rings k = some ρ) :
    o.nrun ≤ ρ ∨ runOf o.rings k = some ρ := by
  unfold runOf newRec at h
  simp only at h
  by_cases hlt : k.id < o.rings.length
  · rw [List.getElem?_append_left hlt] at h; right; exact h
  · by_cases he : k.id = o.rings.length
    · rw [he] at h
      simp at h
      left; rw [← h]; simp only [Ring.run]; split <;> omega
    · rw [List.getElem?_eq_none (by simp; omega)] at h; simp at h

theorem runOf_newRec_old (pt : Pt) (o : Out) (k : Rec) (hlt : k.id < o.rings.length) : runOf (newRec pt o).rings k = runOf o.rings k := by
  unfold runOf newRec; simp only; rw [List.getElem?_append_left hlt]

theorem addPt_run (f f' : Bool) (pt : Pt) (r : Ring) : (addPt f pt r).1.run f' = r.run f' := by
  unfold addPt
  split
  · split <;> cases f <;> cases f' <;> simp [Ring.run, Ring.setLast]
  · cases f <;> cases f' <;> simp [Ring.run, Ring.setLast]

theorem runOf_set (l : List Ring) (id : Nat) (g g' : Ring) (k : Rec) (hg : l[id]? = some g) (hr : k.id = id → g'.run k.front = g.run k.front) :
    runOf (l.set id g') k = runOf l k := by
  unfold runOf
  by_cases e : k.id = id
  · have hlt : id < l.length := by
      rcases Nat.lt_or_ge id l.length with h | h
      · exact h
      · rw [List.getElem?_eq_none h] at hg; cases hg
    rw [e, List.getElem?_set_self hlt, hg]; simp [hr e]
  · rw [List.getElem?_set_ne (fun h => e h.symm)]

theorem runOf_addOutPt (id : Nat) (f : Bool) (pt : Pt) (o : Out) (k : Rec) : runOf (addOutPt id f pt o).rings k = runOf o.rings k := by
  rw [addOutPt_rings]
  split
  · next r hr =>
    split
    · exact runOf_set _ _ r _ _ hr (fun _ => addPt_run _ _ _ _)
    · rfl
  · rfl

theorem runOf_logSeg (kd : SegKind) (i1 : Nat) (f1 : Bool) (i2 : Nat) (f2 : Bool) (o : Out) (k : Rec) :
    runOf (logSeg kd i1 f1 i2 f2 o).rings k = runOf o.rings k := by rw [logSeg_rings]

theorem runOf_finish (id : Nat) (f : Bool) (o : Out) (k : Rec) : runOf (finish id f o).rings k = runOf o.rings k := by
  unfold finish
  split
  · next r hr => exact runOf_set _ _ r _ _ hr (fun _ => rfl)
  · rfl

theorem runOf_handOver_other (id : Nat) (f : Bool) (o : Out) (k : Rec) (hne : ¬ (k.id = id ∧ k.front = f)) :
    runOf (handOver id f o).rings k = runOf o.rings k := by
  unfold handOver
  split
  · next r hr =>
    refine runOf_set _ _ r _ _ hr ?_
    intro e
    have : k.front ≠ f := fun h => hne ⟨e, h⟩
    cases f <;> cases hk : k.front <;> simp_all [Ring.run]
  · rfl

theorem runOf_handOver_self (id : Nat) (f : Bool) (o : Out) (ρ : Nat) (h : runOf (handOver id f o).rings ⟨id, f⟩ = some ρ) : ρ = o.nrun := by
  unfold handOver at h
  split at h
  · next r hr =>
    have hlt : id < o.rings.length := by
      rcases Nat.lt_or_ge id o.rings.length with h | h
      · exact h
      · rw [List.getElem?_eq_none h] at hr; cases hr
    unfold runOf at h
    simp only at h
    rw [List.getElem?_set_self hlt] at h
    cases f <;> simp [Ring.run] at h <;> exact h.symm
  · next hn => unfold runOf at h; simp [hn] at h

theorem nrun_handOver (id : Nat) (f : Bool) (o : Out) : o.nrun ≤ (handOver id f o).nrun := by
  unfold handOver; split <;> simp

theorem runOf_joinPaths_other (A B : Nat) (f : Bool) (o : Out) (k : Rec) (hne : ¬ (k.id = A ∧ k.front = f)) :
    runOf (joinPaths A B f o).rings k = runOf o.rings k := by
  unfold joinPaths
  split
  · next ra rb hA hB =>
    split
    · next hc =>
      have hB' : (o.rings.set A (if f then { ra with pts := rb.pts ++ ra.pts, frun := rb.frun, flast := rb.flast }
          else { ra with pts := ra.pts ++ rb.pts, brun := rb.brun, blast := rb.blast }))[B]? = some rb := by
        rw [List.getElem?_set_ne hc.1]; exact hB
      simp only []
      refine (runOf_set _ B rb _ k hB' ?_).trans ?_
      · intro _; rfl
      refine runOf_set _ _ ra _ _ hA ?_
      intro e
      have : k.front ≠ f := fun h => hne ⟨e, h⟩
      cases f <;> cases hk : k.front <;> simp_all [Ring.run]
    · rfl
  · rfl

theorem runOf_joinPaths_moved (A B : Nat) (f : Bool) (o : Out) (ra rb : Ring) (hA : o.rings[A]? = some ra) (hB : o.rings[B]? = some rb)
    (hne : A ≠ B) (hla : ra.stat = .live) (hlb : rb.stat = .live) : runOf (joinPaths A B f o).rings ⟨A, f⟩ = runOf o.rings ⟨B, f⟩ := by
  have hltA : A < o.rings.length := by
    rcases Nat.lt_or_ge A o.rings.length with h | h
    · exact h
    · rw [List.getElem?_eq_none h] at hA; cases hA
  unfold joinPaths
  simp only [hA, hB, hne, hla, hlb, ne_eq, not_false_eq_true, and_self, if_true]
  unfold runOf
  simp only
  rw [List.getElem?_set_ne (Ne.symm hne), List.getElem?_set_self hltA, hB]
  cases f <;> simp [Ring.run]


/-! ## following a run through one stage of an event -/

/-- every run held after the stage is new (`≥ n0`) or was held before by the edge that `tr` moves to that position -/
def Follows (n0 : Nat) (tr : Nat → Option Nat) (l : List SEdge) (rings : List Ring) (l' : List SEdge) (rings' : List Ring) : Prop :=
  ∀ p' ρ, holderRun l' rings' p' = some ρ → n0 ≤ ρ ∨ ∃ p, tr p = some p' ∧ holderRun l rings p = some ρ

theorem follows_refl (n0 : Nat) (l : List SEdge) (rings : List Ring) : Follows n0 some l rings l rings :=
  fun p' ρ h => Or.inr ⟨p', rfl, h⟩

theorem follows_trans (n0 n1 : Nat) (t1 t2 : Nat → Option Nat) (l l1 l2 : List SEdge) (r r1 r2 : List Ring)
    (h1 : Follows n0 t1 l r l1 r1) (h2 : Follows n1 t2 l1 r1 l2 r2) (hn : n0 ≤ n1) :
    Follows n0 (fun p => (t1 p).bind t2) l r l2 r2 := by
  intro p' ρ h
  rcases h2 p' ρ h with h | ⟨p1, hp1, hr1⟩
  · left; omega
  · rcases h1 p1 ρ hr1 with h | ⟨p, hp, hr⟩
    · left; exact h
    · right; exact ⟨p, by simp [hp, hp1], hr⟩

theorem follows_mono (n0 : Nat) (t t' : Nat → Option Nat) (l l' : List SEdge) (r r' : List Ring) (h : Follows n0 t l r l' r')
    (ht : ∀ p p', t p = some p' → t' p = some p') : Follows n0 t' l r l' r' := by
  intro p' ρ hh
  rcases h p' ρ hh with h | ⟨p, hp, hr⟩
  · left; exact h
  · right; exact ⟨p, ht p p' hp, hr⟩

theorem getElem?_window {α} (pre rest : List α) (a b : α) (k : Nat) :
    (pre ++ a :: b :: rest)[k]? = if k < pre.length then pre[k]? else if k = pre.length then some a else if k = pre.length + 1 then some b
      else rest[k - pre.length - 2]? := by
  by_cases h1 : k < pre.length
  · simp [h1, List.getElem?_append_left h1]
  · simp only [h1, if_false]
    rw [List.getElem?_append_right (by omega)]
    by_cases h2 : k = pre.length
    · subst h2; simp
    · by_cases h3 : k = pre.length + 1
      · subst h3; simp
      · simp only [h2, h3, if_false]
        obtain ⟨m, rfl⟩ : ∃ m, k = pre.length + 2 + m := ⟨k - pre.length - 2, by omega⟩
        have e1 : pre.length + 2 + m - pre.length = m + 2 := by omega
        have e2 : pre.length + 2 + m - pre.length - 2 = m := by omega
        simp [e1, e2]

/-- an in-place stage: the window `[a, b]` at position `pre.length` becomes `[a', b']`, every other edge `x` becomes `g x` -/
theorem follows_window (n0 : Nat) (tr : Nat → Option Nat) (pre rest : List SEdge) (a b a' b' : SEdge) (g : SEdge → SEdge) (rings rings' : List Ring)
    (htr : ∀ p, p ≠ pre.length → p ≠ pre.length + 1 → tr p = some p)
    (hctx : ∀ x ∈ pre ++ rest, ∀ k', (g x).orec = some k' → ∃ k, x.orec = some k ∧ runOf rings' k' = runOf rings k)
    (ha' : ∀ k' ρ, a'.orec = some k' → runOf rings' k' = some ρ →
      n0 ≤ ρ ∨ ∃ p, tr p = some pre.length ∧ holderRun (pre ++ a :: b :: rest) rings p = some ρ)
    (hb' : ∀ k' ρ, b'.orec = some k' → runOf rings' k' = some ρ →
      n0 ≤ ρ ∨ ∃ p, tr p = some (pre.length + 1) ∧ holderRun (pre ++ a :: b :: rest) rings p = some ρ) :
    Follows n0 tr (pre ++ a :: b :: rest) rings (pre.map g ++ a' :: b' :: rest.map g) rings' := by
  intro p' ρ h
  unfold holderRun at h
  rw [getElem?_window] at h
  simp only [List.length_map] at h
  have other : ∀ x, x ∈ pre ++ rest → (pre ++ a :: b :: rest)[p']? = some x → p' ≠ pre.length → p' ≠ pre.length + 1 →
      (match (g x).orec with | some k => runOf rings' k | none => none) = some ρ →
      n0 ≤ ρ ∨ ∃ p, tr p = some p' ∧ holderRun (pre ++ a :: b :: rest) rings p = some ρ := by
    intro x hx hget n1 n2 hh
    right
    refine ⟨p', htr p' n1 n2, ?_⟩
    unfold holderRun
    rw [hget]
    cases hk : (g x).orec with
    | none => simp [hk] at hh
    | some k' =>
      simp only [hk] at hh
      obtain ⟨k, hk1, hk2⟩ := hctx x hx k' hk
      simp only [hk1]; rw [← hk2]; exact hh
  by_cases h1 : p' < pre.length
  · simp only [h1, if_true, List.getElem?_map] at h
    cases hx : pre[p']? with
    | none => simp [hx] at h
    | some x =>
      simp only [hx, Option.map_some] at h
      refine other x (List.mem_append_left _ (mem_of_get _ _ _ hx)) ?_ (by omega) (by omega) h
      rw [getElem?_window, if_pos h1]; exact hx
  · simp only [h1, if_false] at h
    by_cases h2 : p' = pre.length
    · subst h2
      simp only [if_true] at h
      cases hk : a'.orec with
      | none => simp [hk] at h
      | some k' => simp only [hk] at h; exact ha' k' ρ hk h
    · simp only [h2, if_false] at h
      by_cases h3 : p' = pre.length + 1
      · subst h3
        simp only [if_true] at h
        cases hk : b'.orec with
        | none => simp [hk] at h
        | some k' => simp only [hk] at h; exact hb' k' ρ hk h
      · simp only [h3, if_false, List.getElem?_map] at h
        cases hx : rest[p' - pre.length - 2]? with
        | none => simp [hx] at h
        | some x =>
          simp only [hx, Option.map_some] at h
          refine other x (List.mem_append_right _ (mem_of_get _ _ _ hx)) ?_ h2 h3 h
          rw [getElem?_window, if_neg h1, if_neg h2, if_neg h3]; exact hx


/-! ## run ids through `AddLocalMaxPoly` / `JoinOutrecPaths` -/

theorem liveAt_lt (rings : List Ring) (id : Nat) (h : LiveAt rings id) : id < rings.length := by
  obtain ⟨g, hg, _, _⟩ := h
  rcases Nat.lt_or_ge id rings.length with h | h
  · exact h
  · rw [List.getElem?_eq_none h] at hg; cases hg

/-- closing or joining: the edges outside the window keep the run of their ring end (the edge relabelled from the dying record to the surviving one included) -/
theorem closeOrJoin_run_edges (n : Nat) (pre rest : List SEdge) (a b : SEdge) (ra rb : Rec) (g : SEdge → SEdge) (o : Out)
    (h : RecsOK n (pre ++ a :: b :: rest)) (ha : a.orec = some ra) (hb : b.orec = some rb) (hg : addLocalMaxFn ra rb = .ok g)
    (hA : LiveAt o.rings ra.id) (hB : LiveAt o.rings rb.id) :
    ∀ x ∈ pre ++ rest, ∀ k', (g x).orec = some k' → ∃ k, x.orec = some k ∧
      runOf (if ra.id = rb.id then finish ra.id ra.front o
        else if ra.id < rb.id then joinPaths ra.id rb.id ra.front o else joinPaths rb.id ra.id rb.front o).rings k' = runOf o.rings k := by
  intro x hx k' hk
  obtain ⟨ga, hga, hla, _⟩ := hA
  obtain ⟨gb, hgb, hlb, _⟩ := hB
  unfold addLocalMaxFn at hg
  split at hg
  · cases hg
  · next hf =>
    have hbf : ∀ v : Bool, v ≠ ra.front → v = rb.front := by
      intro v; revert hf; cases ra.front <;> cases rb.front <;> cases v <;> simp
    have haf : ∀ v : Bool, v ≠ rb.front → v = ra.front := by
      intro v; revert hf; cases ra.front <;> cases rb.front <;> cases v <;> simp
    split at hg
    · next e =>
      cases hg
      simp only [id] at hk
      simp only [e, if_true]
      exact ⟨k', hk, runOf_finish _ _ _ _⟩
    · next e =>
      simp only [e, if_false]
      split at hg
      · next lt =>
        cases hg
        simp only [lt, if_true]
        unfold relabelFn at hk
        cases hxo : x.orec with
        | none => simp [hxo] at hk
        | some r =>
          simp only [hxo] at hk
          split at hk
          · next hc =>
            simp at hk; subst hk
            refine ⟨r, rfl, ?_⟩
            rw [runOf_joinPaths_moved ra.id rb.id ra.front o ga gb hga hgb e hla hlb]
            have : r = ⟨rb.id, ra.front⟩ := rec_eq _ _ hc.1 hc.2
            rw [this]
          · next hc =>
            rw [hxo] at hk; cases hk
            refine ⟨k', rfl, runOf_joinPaths_other _ _ _ _ _ ?_⟩
            intro hh
            exact (recs_no_dup n pre rest a b h x hx k' hxo).1 (by rw [ha, rec_eq k' ra hh.1 hh.2])
      · next lt =>
        cases hg
        simp only [lt, if_false]
        unfold relabelFn at hk
        cases hxo : x.orec with
        | none => simp [hxo] at hk
        | some r =>
          simp only [hxo] at hk
          split at hk
          · next hc =>
            simp at hk; subst hk
            refine ⟨r, rfl, ?_⟩
            rw [runOf_joinPaths_moved rb.id ra.id rb.front o gb ga hgb hga (Ne.symm e) hlb hla]
            have : r = ⟨ra.id, rb.front⟩ := rec_eq _ _ hc.1 hc.2
            rw [this]
          · next hc =>
            rw [hxo] at hk; cases hk
            refine ⟨k', rfl, runOf_joinPaths_other _ _ _ _ _ ?_⟩
            intro hh
            exact (recs_no_dup n pre rest a b h x hx k' hxo).2 (by rw [hb, rec_eq k' rb hh.1 hh.2])

theorem localMax_run_edges (kind : SegKind) (pt : Pt) (n : Nat) (pre rest : List SEdge) (a b : SEdge) (ra rb : Rec) (g : SEdge → SEdge) (o : Out)
    (h : RecsOK n (pre ++ a :: b :: rest)) (ha : a.orec = some ra) (hb : b.orec = some rb) (hg : addLocalMaxFn ra rb = .ok g)
    (hA : LiveAt o.rings ra.id) (hB : LiveAt o.rings rb.id) :
    ∀ x ∈ pre ++ rest, ∀ k', (g x).orec = some k' → ∃ k, x.orec = some k ∧ runOf (localMaxOut kind ra rb pt o).rings k' = runOf o.rings k := by
  intro x hx k' hk
  unfold localMaxOut
  simp only
  have hr1 := logSeg_rings kind rb.id rb.front ra.id ra.front (addOutPt ra.id ra.front pt o)
  obtain ⟨k, hk1, hk2⟩ := closeOrJoin_run_edges n pre rest a b ra rb g (logSeg kind rb.id rb.front ra.id ra.front (addOutPt ra.id ra.front pt o))
    h ha hb hg (by rw [hr1]; exact liveAt_addOutPt _ _ _ _ _ hA) (by rw [hr1]; exact liveAt_addOutPt _ _ _ _ _ hB) x hx k' hk
  refine ⟨k, hk1, ?_⟩
  rw [hk2, runOf_logSeg, runOf_addOutPt]

theorem nrun_prim (n0 : Nat) (pt : Pt) : PrimPres pt (fun o => n0 ≤ o.nrun) := by
  refine ⟨?_, ?_, ?_, ?_, ?_, ?_⟩
  · intro o h; simp only [newRec]; omega
  · intro id f o h; unfold addOutPt; split
    · split <;> exact h
    · exact h
  · intro id f o h; exact Nat.le_trans h (nrun_handOver id f o)
  · intro id f o h; unfold finish; split <;> exact h
  · intro A B f o h; unfold joinPaths; split
    · split <;> exact h
    · exact h
  · intro k i1 f1 i2 f2 o h; unfold logSeg; split
    · split <;> exact h
    · exact h

/-- after `SwapOutrecs` both ring ends involved start a new run -/
theorem runOf_swapOut_fresh (r1 r2 : Option Rec) (pt : Pt) (o : Out) (k : Rec) (ρ : Nat) (hk : r1 = some k ∨ r2 = some k)
    (h : runOf (swapOut r1 r2 pt o).rings k = some ρ) : o.nrun ≤ ρ := by
  unfold swapOut at h
  have hn2 : o.nrun ≤ (addOn r2 pt (addOn r1 pt o)).nrun :=
    pres_addOn (nrun_prim o.nrun pt) _ _ (pres_addOn (nrun_prim o.nrun pt) _ _ (Nat.le_refl _))
  have hn3 : (addOn r2 pt (addOn r1 pt o)).nrun ≤ (handOn r1 (addOn r2 pt (addOn r1 pt o))).nrun := by
    cases r1 with
    | none => exact Nat.le_refl _
    | some x => exact nrun_handOver _ _ _
  by_cases h2 : r2 = some k
  · subst h2
    have := runOf_handOver_self k.id k.front _ ρ h
    omega
  · have h1 : r1 = some k := hk.resolve_right h2
    subst h1
    cases r2 with
    | none =>
      have := runOf_handOver_self k.id k.front _ ρ h
      omega
    | some k2 =>
      by_cases e : k.id = k2.id ∧ k.front = k2.front
      · exact absurd (by rw [rec_eq k k2 e.1 e.2]) h2
      · simp only [handOn] at h
        rw [runOf_handOver_other _ _ _ _ e] at h
        have := runOf_handOver_self k.id k.front _ ρ h
        omega

theorem runOf_swapOut_other (r1 r2 : Option Rec) (pt : Pt) (o : Out) (k : Rec) (h1 : r1 ≠ some k) (h2 : r2 ≠ some k) :
    runOf (swapOut r1 r2 pt o).rings k = runOf o.rings k := by
  unfold swapOut
  have e1 : ∀ (r : Option Rec) (o' : Out), r ≠ some k → runOf (handOn r o').rings k = runOf o'.rings k := by
    intro r o' hr
    cases r with
    | none => rfl
    | some x =>
      refine runOf_handOver_other _ _ _ _ ?_
      intro hh; exact hr (by rw [rec_eq k x hh.1 hh.2])
  have e2 : ∀ (r : Option Rec) (o' : Out), runOf (addOn r pt o').rings k = runOf o'.rings k := by
    intro r o'
    cases r with
    | none => rfl
    | some x => exact runOf_addOutPt _ _ _ _ _
  rw [e1 _ _ h2, e1 _ _ h1, e2, e2]

theorem act_swap_diff : ∀ (h1 h2 i1 i2 q1 q2 dt nx go f1 sr : Bool),
    decideActB h1 h2 i1 i2 q1 q2 dt nx go f1 sr = .swap → h1 = true → h2 = true → sr = false := by decide

/-- under the `swap` continuation the two records (if there are two) are different, so `SwapOutrecs` just exchanges them -/
theorem swapOutrecs_keys (cfg : Cfg) (e1 e2 : Edge) (r1 r2 : Option Rec) (hact : decideAct cfg e1 e2 r1 r2 = .swap) :
    swapOutrecs r1 r2 = (r2, r1) := by
  unfold swapOutrecs
  split
  · next x y =>
    split
    · next e =>
      unfold decideAct at hact
      have := act_swap_diff _ _ _ _ _ _ _ _ _ _ _ hact rfl rfl
      simp [sameRec, e] at this
    · rfl
  · rfl


/-! ## the stages of the events -/

theorem runOf_fresh_of_new (pt : Pt) (o : Out) (k : Rec) (ρ : Nat) (hk : k.id = o.rings.length) (h : runOf (newRec pt o).rings k = some ρ) : o.nrun ≤ ρ := by
  rcases runOf_newRec pt o k ρ h with h | h
  · exact h
  · unfold runOf at h; rw [hk, List.getElem?_eq_none (Nat.le_refl _)] at h; simp at h

theorem follows_splitPair (k : Nat) (pt : Pt) (s s1 : SState) (o : Out) (h : OInv s.next s.ael o) (hs : splitPair k s = .ok s1) :
    Follows o.nrun some s.ael o.rings s1.ael (newRec pt o).rings := by
  match hd : s.ael.drop k with
  | a :: b :: rest =>
    rw [splitPair_eq k s a b rest hd] at hs
    cases hs
    have hl := window_split _ _ _ _ _ hd
    have hlen := take_length_of_drop _ _ _ _ hd
    have key := follows_window o.nrun some (s.ael.take k) rest a b
      { a with join := .none, orec := some (minRecs (s.ael.take k) true s.next).1 }
      { b with join := .none, orec := some (minRecs (s.ael.take k) true s.next).2 } id o.rings (newRec pt o).rings
      (fun p _ _ => rfl)
      (by
        intro x hx k' hk'
        refine ⟨k', hk', runOf_newRec_old pt o k' (liveAt_lt _ _ (h.hot x ?_ k' hk'))⟩
        rw [hl]; exact mem_window_of _ _ _ _ _ hx)
      (by
        intro k' ρ hk' hr
        left
        simp only [Option.some.injEq] at hk'
        exact runOf_fresh_of_new pt o k' ρ (by rw [← hk', (minRecs_ids _ _ _).1, h.len]) hr)
      (by
        intro k' ρ hk' hr
        left
        simp only [Option.some.injEq] at hk'
        exact runOf_fresh_of_new pt o k' ρ (by rw [← hk', (minRecs_ids _ _ _).2, h.len]) hr)
    simp only [List.map_id] at key
    rw [← hl] at key
    exact key
  | [] => unfold splitPair at hs; simp [hd] at hs
  | [_] => unfold splitPair at hs; simp [hd] at hs

theorem follows_splitAt (i : Nat) (pt : Pt) (s s1 : SState) (o : Out) (h : OInv s.next s.ael o) (hs : splitAt i s = .ok s1) :
    Follows o.nrun some s.ael o.rings s1.ael (splitOut i pt s o).rings := by
  unfold splitAt at hs
  unfold splitOut
  cases hx : s.ael[i]? with
  | none => simp [hx] at hs
  | some x =>
    simp only [hx] at hs ⊢
    by_cases hj : x.join = .none
    · simp only [hj, if_true] at hs ⊢
      cases hs; exact follows_refl _ _ _
    · simp only [hj, if_false] at hs ⊢
      obtain ⟨k, hk⟩ := splitJoined_pair _ _ _ _ hs
      exact follows_splitPair k pt s s1 o h hk

theorem follows_splitS (i : Nat) (pt : Pt) (s s1 : SState) (o : Out) (h : OInv s.next s.ael o) (hs : splitS i s = .ok s1) :
    Follows o.nrun some s.ael o.rings s1.ael (splitOut i pt s o).rings := by
  unfold splitS at hs
  unfold splitOut
  cases hx : s.ael[i]? with
  | none => simp [hx] at hs
  | some x =>
    simp only [hx] at hs ⊢
    by_cases hj : x.join = .none
    · simp [hj] at hs
    · simp only [hj, if_false] at hs ⊢
      obtain ⟨k, hk⟩ := splitJoined_pair _ _ _ _ hs
      exact follows_splitPair k pt s s1 o h hk

/-- `SwapPositionsInAEL` at position `i` -/
def swapAt (i p : Nat) : Option Nat := some (if p = i then i + 1 else if p = i + 1 then i else p)

theorem holderRun_window_a (pre rest : List SEdge) (a b : SEdge) (rings : List Ring) (k : Rec) (hk : a.orec = some k) :
    holderRun (pre ++ a :: b :: rest) rings pre.length = runOf rings k := by
  unfold holderRun; rw [getElem?_window]; simp [hk]

theorem holderRun_window_b (pre rest : List SEdge) (a b : SEdge) (rings : List Ring) (k : Rec) (hk : b.orec = some k) :
    holderRun (pre ++ a :: b :: rest) rings (pre.length + 1) = runOf rings k := by
  unfold holderRun; rw [getElem?_window]
  have h1 : ¬ pre.length + 1 < pre.length := by omega
  have h2 : ¬ pre.length + 1 = pre.length := by omega
  simp only [h1, h2, if_false, if_true, hk]

theorem follows_core (cfg : Cfg) (pre : List SEdge) (a b : SEdge) (rest : List SEdge) (n : Nat) (pt : Pt) (o : Out) (s' : SState)
    (h : OInv n (pre ++ a :: b :: rest) o) (hr : RecsOK n (pre ++ a :: b :: rest))
    (hc : intersectCore cfg pre a b rest n = .ok s') :
    Follows o.nrun (swapAt pre.length) (pre ++ a :: b :: rest) o.rings s'.ael (coreOut cfg a b pt o).rings := by
  have hal : a ∈ pre ++ a :: b :: rest := List.mem_append_right _ List.mem_cons_self
  have hbl : b ∈ pre ++ a :: b :: rest := List.mem_append_right _ (List.mem_cons_of_mem _ List.mem_cons_self)
  have htr : ∀ p, p ≠ pre.length → p ≠ pre.length + 1 → swapAt pre.length p = some p := by
    intro p h1 h2; simp [swapAt, h1, h2]
  have t1 : swapAt pre.length (pre.length + 1) = some pre.length := by simp [swapAt]
  have t2 : swapAt pre.length pre.length = some (pre.length + 1) := by simp [swapAt]
  have hlt : ∀ x ∈ pre ++ rest, ∀ k, x.orec = some k → k.id < o.rings.length :=
    fun x hx k hk => liveAt_lt _ _ (h.hot x (mem_window_of _ _ _ _ _ hx) k hk)
  unfold intersectCore at hc
  unfold coreOut
  simp only at hc ⊢
  cases hact : decideAct cfg (updateWinds cfg.fr a.e b.e).1 (updateWinds cfg.fr a.e b.e).2 a.orec b.orec with
  | nothing =>
    simp only [hact] at hc ⊢
    cases hc
    have key := follows_window o.nrun (swapAt pre.length) pre rest a b
      { b with e := (intersectPair cfg a.e b.e).2 } { a with e := (intersectPair cfg a.e b.e).1 } id o.rings o.rings htr
      (fun x _ k' hk' => ⟨k', hk', rfl⟩)
      (fun k' ρ hk' hρ => Or.inr ⟨pre.length + 1, t1, by rw [holderRun_window_b pre rest a b o.rings k' hk']; exact hρ⟩)
      (fun k' ρ hk' hρ => Or.inr ⟨pre.length, t2, by rw [holderRun_window_a pre rest a b o.rings k' hk']; exact hρ⟩)
    simpa only [List.map_id] using key
  | swap =>
    simp only [hact] at hc ⊢
    cases hc
    have hsw := swapOutrecs_keys cfg _ _ a.orec b.orec hact
    have key := follows_window o.nrun (swapAt pre.length) pre rest a b
      { b with e := (intersectPair cfg a.e b.e).2, orec := (swapOutrecs a.orec b.orec).2 }
      { a with e := (intersectPair cfg a.e b.e).1, orec := (swapOutrecs a.orec b.orec).1 } id o.rings (swapOut a.orec b.orec pt o).rings htr
      (by
        intro x hx k' hk'
        have nd := recs_no_dup n pre rest a b hr x hx k' hk'
        exact ⟨k', hk', runOf_swapOut_other _ _ _ _ _ nd.1 nd.2⟩)
      (by
        intro k' ρ hk' hρ
        left
        rw [hsw] at hk'
        exact runOf_swapOut_fresh _ _ _ _ _ _ (Or.inl hk') hρ)
      (by
        intro k' ρ hk' hρ
        left
        rw [hsw] at hk'
        exact runOf_swapOut_fresh _ _ _ _ _ _ (Or.inr hk') hρ)
    simpa only [List.map_id] using key
  | localMin =>
    simp only [hact] at hc ⊢
    cases hc
    have key := follows_window o.nrun (swapAt pre.length) pre rest a b
      { b with e := (intersectPair cfg a.e b.e).2, orec := some (minRecs pre false n).2 }
      { a with e := (intersectPair cfg a.e b.e).1, orec := some (minRecs pre false n).1 } id o.rings (newRec pt o).rings htr
      (fun x hx k' hk' => ⟨k', hk', runOf_newRec_old pt o k' (hlt x hx k' hk')⟩)
      (by
        intro k' ρ hk' hρ
        left
        simp only [Option.some.injEq] at hk'
        exact runOf_fresh_of_new pt o k' ρ (by rw [← hk', (minRecs_ids _ _ _).2, h.len]) hρ)
      (by
        intro k' ρ hk' hρ
        left
        simp only [Option.some.injEq] at hk'
        exact runOf_fresh_of_new pt o k' ρ (by rw [← hk', (minRecs_ids _ _ _).1, h.len]) hρ)
    simpa only [List.map_id] using key
  | localMax =>
    simp only [hact] at hc ⊢
    cases ha : a.orec with
    | none => simp [ha] at hc
    | some ra =>
      cases hb : b.orec with
      | none => simp [ha, hb] at hc
      | some rb =>
        simp only [ha, hb] at hc ⊢
        cases hg : addLocalMaxFn ra rb with
        | error f => simp [hg] at hc
        | ok g =>
          simp only [hg] at hc
          cases hc
          exact follows_window o.nrun (swapAt pre.length) pre rest a b _ _ g o.rings _ htr
            (localMax_run_edges .meet pt n pre rest a b ra rb g o hr ha hb hg (h.hot a hal ra ha) (h.hot b hbl rb hb))
            (fun k' ρ hk' _ => by simp at hk') (fun k' ρ hk' _ => by simp at hk')
  | maxThenMin =>
    simp only [hact] at hc ⊢
    cases ha : a.orec with
    | none => simp [ha] at hc
    | some ra =>
      cases hb : b.orec with
      | none => simp [ha, hb] at hc
      | some rb =>
        simp only [ha, hb] at hc ⊢
        cases hg : addLocalMaxFn ra rb with
        | error f => simp [hg] at hc
        | ok g =>
          simp only [hg] at hc
          cases hc
          have hf : ra.front ≠ rb.front := by
            intro e; unfold addLocalMaxFn at hg; simp [e] at hg
          have hm := localMaxOut_spec .meet ra rb pt o (h.hot a hal ra ha) (h.hot b hbl rb hb) hf h.nolost h.segs
          have hk := localMax_keys n pre rest a b ra rb g hr ha hb hg
          have h1 : OInv n (pre.map g ++ rest.map g) (localMaxOut .meet ra rb pt o) := oinv_maxPost n _ _ ra rb o _ h hm hk
          refine follows_window o.nrun (swapAt pre.length) pre rest a b _ _ g o.rings _ htr ?_ ?_ ?_
          · intro x hx k' hk'
            obtain ⟨k, hk1, hk2⟩ := localMax_run_edges .meet pt n pre rest a b ra rb g o hr ha hb hg (h.hot a hal ra ha) (h.hot b hbl rb hb) x hx k' hk'
            refine ⟨k, hk1, ?_⟩
            rw [← hk2]
            refine runOf_newRec_old pt _ k' (liveAt_lt _ _ (h1.hot (g x) ?_ k' hk'))
            rw [← List.map_append]; exact List.mem_map_of_mem hx
          · intro k' ρ hk' hρ
            left
            simp only [Option.some.injEq] at hk'
            have := runOf_fresh_of_new pt (localMaxOut .meet ra rb pt o) k' ρ (by rw [← hk', (minRecs_ids _ _ _).2, hm.len, h.len]) hρ
            exact Nat.le_trans (pres_localMaxOut (nrun_prim o.nrun pt) _ _ _ _ (Nat.le_refl _)) this
          · intro k' ρ hk' hρ
            left
            simp only [Option.some.injEq] at hk'
            have := runOf_fresh_of_new pt (localMaxOut .meet ra rb pt o) k' ρ (by rw [← hk', (minRecs_ids _ _ _).1, hm.len, h.len]) hρ
            exact Nat.le_trans (pres_localMaxOut (nrun_prim o.nrun pt) _ _ _ _ (Nat.le_refl _)) this


/-! ## stages that change the length of the AEL -/

def remove2At (i p : Nat) : Option Nat := if p < i then some p else if p < i + 2 then none else some (p - 2)
def remove1At (i p : Nat) : Option Nat := if p < i then some p else if p = i then none else some (p - 1)
def insert2At (i p : Nat) : Option Nat := some (if p < i then p else p + 2)
def insert1At (i p : Nat) : Option Nat := some (if p < i then p else p + 1)

theorem getElem?_window1 {α} (pre rest : List α) (a : α) (k : Nat) :
    (pre ++ a :: rest)[k]? = if k < pre.length then pre[k]? else if k = pre.length then some a else rest[k - pre.length - 1]? := by
  by_cases h1 : k < pre.length
  · simp [h1, List.getElem?_append_left h1]
  · simp only [h1, if_false]
    rw [List.getElem?_append_right (by omega)]
    by_cases h2 : k = pre.length
    · subst h2; simp
    · simp only [h2, if_false]
      obtain ⟨m, rfl⟩ : ∃ m, k = pre.length + 1 + m := ⟨k - pre.length - 1, by omega⟩
      have e1 : pre.length + 1 + m - pre.length = m + 1 := by omega
      have e2 : pre.length + 1 + m - pre.length - 1 = m := by omega
      simp [e1, e2]

theorem holderRun_of_get (l : List SEdge) (rings : List Ring) (p : Nat) (x : SEdge) (k : Rec) (hx : l[p]? = some x) (hk : x.orec = some k) :
    holderRun l rings p = runOf rings k := by
  unfold holderRun; simp only [hx, hk]

/-- what `holderRun = some ρ` says -/
theorem holderRun_some (l : List SEdge) (rings : List Ring) (p ρ : Nat) (h : holderRun l rings p = some ρ) :
    ∃ x k, l[p]? = some x ∧ x.orec = some k ∧ runOf rings k = some ρ := by
  unfold holderRun at h
  cases hx : l[p]? with
  | none => simp [hx] at h
  | some x =>
    cases hk : x.orec with
    | none => simp [hx, hk] at h
    | some k => simp only [hx, hk] at h; exact ⟨x, k, rfl, hk, h⟩

theorem follows_remove2 (n0 : Nat) (pre rest : List SEdge) (a b : SEdge) (g : SEdge → SEdge) (rings rings' : List Ring)
    (hctx : ∀ x ∈ pre ++ rest, ∀ k', (g x).orec = some k' → ∃ k, x.orec = some k ∧ runOf rings' k' = runOf rings k) :
    Follows n0 (remove2At pre.length) (pre ++ a :: b :: rest) rings (pre.map g ++ rest.map g) rings' := by
  intro p' ρ h
  obtain ⟨x', k', hx', hk', hr'⟩ := holderRun_some _ _ _ _ h
  right
  by_cases h1 : p' < pre.length
  · rw [List.getElem?_append_left (by simpa using h1), List.getElem?_map] at hx'
    cases hx : pre[p']? with
    | none => simp [hx] at hx'
    | some x =>
      simp only [hx, Option.map_some, Option.some.injEq] at hx'
      subst hx'
      obtain ⟨k, hk1, hk2⟩ := hctx x (List.mem_append_left _ (mem_of_get _ _ _ hx)) k' hk'
      refine ⟨p', by simp [remove2At, h1], ?_⟩
      rw [holderRun_of_get _ _ p' x k (by rw [getElem?_window, if_pos h1]; exact hx) hk1, ← hk2]; exact hr'
  · rw [List.getElem?_append_right (by simpa using Nat.le_of_not_lt h1), List.getElem?_map] at hx'
    simp only [List.length_map] at hx'
    cases hx : rest[p' - pre.length]? with
    | none => simp [hx] at hx'
    | some x =>
      simp only [hx, Option.map_some, Option.some.injEq] at hx'
      subst hx'
      obtain ⟨k, hk1, hk2⟩ := hctx x (List.mem_append_right _ (mem_of_get _ _ _ hx)) k' hk'
      refine ⟨p' + 2, ?_, ?_⟩
      · have e1 : ¬ p' + 2 < pre.length := by omega
        have e2 : ¬ p' + 2 < pre.length + 2 := by omega
        simp [remove2At, e1, e2]
      · have e1 : ¬ p' + 2 < pre.length := by omega
        have e2 : ¬ p' + 2 = pre.length := by omega
        have e3 : ¬ p' + 2 = pre.length + 1 := by omega
        have e4 : p' + 2 - pre.length - 2 = p' - pre.length := by omega
        rw [holderRun_of_get _ _ (p' + 2) x k (by rw [getElem?_window, if_neg e1, if_neg e2, if_neg e3, e4]; exact hx) hk1, ← hk2]; exact hr'

theorem follows_remove1 (n0 : Nat) (pre rest : List SEdge) (a : SEdge) (rings : List Ring) :
    Follows n0 (remove1At pre.length) (pre ++ a :: rest) rings (pre ++ rest) rings := by
  intro p' ρ h
  obtain ⟨x, k, hx, hk, hr⟩ := holderRun_some _ _ _ _ h
  right
  by_cases h1 : p' < pre.length
  · rw [List.getElem?_append_left h1] at hx
    refine ⟨p', by simp [remove1At, h1], ?_⟩
    rw [holderRun_of_get _ _ p' x k (by rw [getElem?_window1, if_pos h1]; exact hx) hk]; exact hr
  · rw [List.getElem?_append_right (Nat.le_of_not_lt h1)] at hx
    refine ⟨p' + 1, ?_, ?_⟩
    · have e1 : ¬ p' + 1 < pre.length := by omega
      have e2 : ¬ p' + 1 = pre.length := by omega
      simp [remove1At, e1, e2]
    · have e1 : ¬ p' + 1 < pre.length := by omega
      have e2 : ¬ p' + 1 = pre.length := by omega
      have e4 : p' + 1 - pre.length - 1 = p' - pre.length := by omega
      rw [holderRun_of_get _ _ (p' + 1) x k (by rw [getElem?_window1, if_neg e1, if_neg e2, e4]; exact hx) hk]; exact hr

theorem follows_insert2 (n0 : Nat) (pre post : List SEdge) (x y : SEdge) (rings rings' : List Ring)
    (hctx : ∀ z ∈ pre ++ post, ∀ k, z.orec = some k → runOf rings' k = runOf rings k)
    (hx : ∀ k ρ, x.orec = some k → runOf rings' k = some ρ → n0 ≤ ρ) (hy : ∀ k ρ, y.orec = some k → runOf rings' k = some ρ → n0 ≤ ρ) :
    Follows n0 (insert2At pre.length) (pre ++ post) rings (pre ++ x :: y :: post) rings' := by
  intro p' ρ h
  obtain ⟨z, k, hz, hk, hr⟩ := holderRun_some _ _ _ _ h
  rw [getElem?_window] at hz
  by_cases h1 : p' < pre.length
  · rw [if_pos h1] at hz
    right
    refine ⟨p', by simp [insert2At, h1], ?_⟩
    rw [holderRun_of_get _ _ p' z k (by rw [List.getElem?_append_left h1]; exact hz) hk,
      ← hctx z (List.mem_append_left _ (mem_of_get _ _ _ hz)) k hk]; exact hr
  · rw [if_neg h1] at hz
    by_cases h2 : p' = pre.length
    · rw [if_pos h2] at hz; cases hz; left; exact hx k ρ hk hr
    · rw [if_neg h2] at hz
      by_cases h3 : p' = pre.length + 1
      · rw [if_pos h3] at hz; cases hz; left; exact hy k ρ hk hr
      · rw [if_neg h3] at hz
        right
        refine ⟨p' - 2, ?_, ?_⟩
        · have e1 : ¬ p' - 2 < pre.length := by omega
          have e2 : p' - 2 + 2 = p' := by omega
          simp [insert2At, e1, e2]
        · have e4 : p' - 2 - pre.length = p' - pre.length - 2 := by omega
          rw [holderRun_of_get _ _ (p' - 2) z k (by rw [List.getElem?_append_right (by omega), e4]; exact hz) hk,
            ← hctx z (List.mem_append_right _ (mem_of_get _ _ _ hz)) k hk]; exact hr

theorem follows_insert1 (n0 : Nat) (pre post : List SEdge) (x : SEdge) (rings : List Ring) (hx : x.orec = none) :
    Follows n0 (insert1At pre.length) (pre ++ post) rings (pre ++ x :: post) rings := by
  intro p' ρ h
  obtain ⟨z, k, hz, hk, hr⟩ := holderRun_some _ _ _ _ h
  rw [getElem?_window1] at hz
  right
  by_cases h1 : p' < pre.length
  · rw [if_pos h1] at hz
    refine ⟨p', by simp [insert1At, h1], ?_⟩
    rw [holderRun_of_get _ _ p' z k (by rw [List.getElem?_append_left h1]; exact hz) hk]; exact hr
  · rw [if_neg h1] at hz
    by_cases h2 : p' = pre.length
    · rw [if_pos h2] at hz; cases hz; rw [hx] at hk; cases hk
    · rw [if_neg h2] at hz
      refine ⟨p' - 1, ?_, ?_⟩
      · have e1 : ¬ p' - 1 < pre.length := by omega
        have e2 : p' - 1 + 1 = p' := by omega
        simp [insert1At, e1, e2]
      · have e4 : p' - 1 - pre.length = p' - pre.length - 1 := by omega
        rw [holderRun_of_get _ _ (p' - 1) z k (by rw [List.getElem?_append_right (by omega), e4]; exact hz) hk]; exact hr


/-! ## the events -/

/-- where the `Active` at position `p` of the AEL is after the event (`none`: it has left the AEL) -/
def trackPos : ROp → Nat → Option Nat
  | .base (.insertPair pos _ _ _) _, p => insert2At pos p
  | .base (.insertOne pos _ _) _, p => insert1At pos p
  | .base (.intersect i) _, p => swapAt i p
  | .base (.removePair i) _, p => remove2At i p
  | .base (.removeOne i) _, p => remove1At i p
  | .join _ _, p => some p
  | .split _ _, p => some p
  | .update _ _, p => some p

theorem nrun_splitOut (i : Nat) (pt : Pt) (s : SState) (o : Out) : o.nrun ≤ (splitOut i pt s o).nrun :=
  pres_splitOut (nrun_prim o.nrun pt) _ _ _ (Nat.le_refl _)

theorem follows_intersect (cfg : Cfg) (i : Nat) (pt : Pt) (s s' : SState) (o : Out) (hside : Side s.ael) (hr : RecsOK s.next s.ael)
    (h : OInv s.next s.ael o) (hs : intersectS cfg i s = .ok s') :
    Follows o.nrun (swapAt i) s.ael o.rings s'.ael (intersectOut cfg i pt s o).rings := by
  unfold intersectS at hs
  unfold intersectOut
  match hd0 : s.ael.drop i with
  | [] => simp [hd0] at hs
  | [_] => simp [hd0] at hs
  | a0 :: b0 :: rest0 =>
    simp only [hd0] at hs ⊢
    by_cases hopen : (a0.e.isOpen || b0.e.isOpen) = true
    · simp only [hopen, if_true] at hs ⊢
      obtain ⟨s1, h1, h2⟩ := bind_ok _ _ _ hs
      have st1 : Follows o.nrun some s.ael o.rings s1.ael
          (if (a0.e.isOpen && b0.e.isOpen) = true then o else if a0.e.isOpen = true then splitOut (i + 1) pt s o else splitOut i pt s o).rings := by
        by_cases hb : (a0.e.isOpen && b0.e.isOpen) = true
        · simp only [hb, if_true] at h1 ⊢; cases h1; exact follows_refl _ _ _
        · simp only [hb, if_false] at h1 ⊢
          by_cases ha : a0.e.isOpen = true
          · simp only [ha, if_true] at h1 ⊢; exact follows_splitAt _ pt _ _ _ h h1
          · simp only [ha, if_false] at h1 ⊢; exact follows_splitAt _ pt _ _ _ h h1
      generalize (if (a0.e.isOpen && b0.e.isOpen) = true then o else if a0.e.isOpen = true then splitOut (i + 1) pt s o else splitOut i pt s o) = o1 at st1 ⊢
      match hd1 : s1.ael.drop i with
      | [] => simp [hd1] at h2
      | [_] => simp [hd1] at h2
      | a :: b :: rest =>
        simp only [hd1] at h2
        cases h2
        have hl := window_split _ _ _ _ _ hd1
        have hlen := take_length_of_drop _ _ _ _ hd1
        have st2 := follows_window o.nrun (swapAt i) (s1.ael.take i) rest a b
          { b with e := (intersectPair cfg a.e b.e).2 } { a with e := (intersectPair cfg a.e b.e).1 } id o1.rings o1.rings
          (by intro p h1 h2; rw [hlen] at h1 h2; simp [swapAt, h1, h2])
          (fun x _ k' hk' => ⟨k', hk', rfl⟩)
          (fun k' ρ hk' hρ => Or.inr ⟨i + 1, by simp [swapAt, hlen], by
            have := holderRun_window_b (s1.ael.take i) rest a b o1.rings k' hk'
            rw [hlen] at this; rw [this]; exact hρ⟩)
          (fun k' ρ hk' hρ => Or.inr ⟨i, by simp [swapAt, hlen], by
            have := holderRun_window_a (s1.ael.take i) rest a b o1.rings k' hk'
            rw [hlen] at this; rw [this]; exact hρ⟩)
        simp only [List.map_id] at st2
        rw [← hl] at st2
        exact follows_mono _ _ _ _ _ _ _ (follows_trans o.nrun o.nrun _ _ _ _ _ _ _ _ st1 st2 (Nat.le_refl _)) (by intro p p' hp; simpa using hp)
    · simp only [hopen, if_false] at hs ⊢
      obtain ⟨s1, h1, hs⟩ := bind_ok _ _ _ hs
      obtain ⟨s2, h2, hs⟩ := bind_ok _ _ _ hs
      have p1 := splitPost_of _ _ _ hside h1
      have p2 := splitPost_of _ _ _ p1.side h2
      have i1 := oinv_splitAt i pt s s1 o h h1
      have i2 := oinv_splitAt (i + 1) pt s1 s2 _ i1 h2
      have f1 := follows_splitAt i pt s s1 o h h1
      have f2 := follows_splitAt (i + 1) pt s1 s2 _ i1 h2
      have n1 := nrun_splitOut i pt s o
      have n2 := nrun_splitOut (i + 1) pt s1 (splitOut i pt s o)
      match hd2 : s2.ael.drop i with
      | [] => simp [hd2] at hs
      | [_] => simp [hd2] at hs
      | a :: b :: rest =>
        simp only [hd2] at hs
        rw [twoSplits_eq i pt s s1 s2 o a b rest h1 h2 hd2]
        simp only
        have hl := window_split _ _ _ _ _ hd2
        have hlen := take_length_of_drop _ _ _ _ hd2
        have r2 := p2.recs (p1.recs hr)
        rw [hl] at r2 i2
        have f3 := follows_core cfg _ a b rest _ pt _ s' i2 r2 hs
        rw [← hl, hlen] at f3
        have f12 := follows_trans o.nrun _ _ _ _ _ _ _ _ _ f1 f2 n1
        have f123 := follows_trans o.nrun _ _ _ _ _ _ _ _ _ f12 f3 (Nat.le_trans n1 n2)
        exact follows_mono _ _ _ _ _ _ _ f123 (by intro p p' hp; simpa using hp)

theorem follows_removePair (i : Nat) (pt : Pt) (s s' : SState) (o : Out) (hside : Side s.ael) (hr : RecsOK s.next s.ael)
    (h : OInv s.next s.ael o) (hs : removePairS i s = .ok s') :
    Follows o.nrun (remove2At i) s.ael o.rings s'.ael (removePairOut i pt s o).rings := by
  unfold removePairS at hs
  unfold removePairOut
  match hd0 : s.ael.drop i with
  | [] => simp [hd0] at hs
  | [_] => simp [hd0] at hs
  | a0 :: b0 :: rest0 =>
    simp only [hd0] at hs ⊢
    split at hs
    · by_cases ha : a0.e.isOpen = true
      · simp only [ha, if_true] at hs ⊢
        cases hs
        have hl := window_split _ _ _ _ _ hd0
        have hlen := take_length_of_drop _ _ _ _ hd0
        have key := follows_remove2 o.nrun (s.ael.take i) rest0 a0 b0 id o.rings o.rings (fun x _ k' hk' => ⟨k', hk', rfl⟩)
        simp only [List.map_id] at key
        rw [← hl, hlen] at key
        exact key
      · simp only [ha, if_false] at hs ⊢
        obtain ⟨s1, h1, hs⟩ := bind_ok _ _ _ hs
        obtain ⟨s2, h2, hs⟩ := bind_ok _ _ _ hs
        have p1 := splitPost_of _ _ _ hside h1
        have p2 := splitPost_of _ _ _ p1.side h2
        have i1 := oinv_splitAt i pt s s1 o h h1
        have i2 := oinv_splitAt (i + 1) pt s1 s2 _ i1 h2
        have f1 := follows_splitAt i pt s s1 o h h1
        have f2 := follows_splitAt (i + 1) pt s1 s2 _ i1 h2
        have n1 := nrun_splitOut i pt s o
        have n2 := nrun_splitOut (i + 1) pt s1 (splitOut i pt s o)
        have f12 := follows_trans o.nrun _ _ _ _ _ _ _ _ _ f1 f2 n1
        match hd2 : s2.ael.drop i with
        | [] => simp [hd2] at hs
        | [_] => simp [hd2] at hs
        | a :: b :: rest =>
          simp only [hd2] at hs
          rw [twoSplits_eq i pt s s1 s2 o a b rest h1 h2 hd2]
          simp only
          have hl := window_split _ _ _ _ _ hd2
          have hlen := take_length_of_drop _ _ _ _ hd2
          have r2 := p2.recs (p1.recs hr)
          rw [hl] at r2 i2
          have hal : a ∈ s2.ael.take i ++ a :: b :: rest := by simp
          have hbl : b ∈ s2.ael.take i ++ a :: b :: rest := by simp
          cases hao : a.orec with
          | none =>
            cases hbo : b.orec with
            | none =>
              simp only [hao, hbo] at hs ⊢
              cases hs
              have f3 := follows_remove2 (splitOut (i + 1) pt s1 (splitOut i pt s o)).nrun (s2.ael.take i) rest a b id
                (splitOut (i + 1) pt s1 (splitOut i pt s o)).rings (splitOut (i + 1) pt s1 (splitOut i pt s o)).rings (fun x _ k' hk' => ⟨k', hk', rfl⟩)
              simp only [List.map_id] at f3
              rw [← hl, hlen] at f3
              exact follows_mono _ _ _ _ _ _ _ (follows_trans o.nrun _ _ _ _ _ _ _ _ _ f12 f3 (Nat.le_trans n1 n2)) (by intro p p' hp; simpa using hp)
            | some rb => simp [hao, hbo] at hs
          | some ra =>
            cases hbo : b.orec with
            | none => simp [hao, hbo] at hs
            | some rb =>
              simp only [hao, hbo] at hs ⊢
              cases hg : addLocalMaxFn ra rb with
              | error f => simp [hg] at hs
              | ok g =>
                simp only [hg] at hs
                cases hs
                have f3 := follows_remove2 (splitOut (i + 1) pt s1 (splitOut i pt s o)).nrun (s2.ael.take i) rest a b g _ _
                  (localMax_run_edges .meet pt _ _ rest a b ra rb g _ r2 hao hbo hg (i2.hot a hal ra hao) (i2.hot b hbl rb hbo))
                rw [← hl, hlen] at f3
                exact follows_mono _ _ _ _ _ _ _ (follows_trans o.nrun _ _ _ _ _ _ _ _ _ f12 f3 (Nat.le_trans n1 n2)) (by intro p p' hp; simpa using hp)
    · cases hs

theorem follows_join (i : Nat) (pt : Pt) (s s' : SState) (o : Out) (hr : RecsOK s.next s.ael)
    (h : OInv s.next s.ael o) (hs : joinS i s = .ok s') : Follows o.nrun some s.ael o.rings s'.ael (joinOut i pt s o).rings := by
  unfold joinS at hs
  unfold joinOut
  match hd : s.ael.drop i with
  | [] => simp [hd] at hs
  | [_] => simp [hd] at hs
  | a :: b :: rest =>
    simp only [hd] at hs ⊢
    split at hs
    · cases hs
    · have hl := window_split _ _ _ _ _ hd
      have r2 := hr
      rw [hl] at r2
      have h2 := h
      rw [hl] at h2
      have hal : a ∈ s.ael.take i ++ a :: b :: rest := by simp
      have hbl : b ∈ s.ael.take i ++ a :: b :: rest := by simp
      cases hao : a.orec with
      | none => simp [hao] at hs
      | some ra =>
        cases hbo : b.orec with
        | none => simp [hao, hbo] at hs
        | some rb =>
          simp only [hao, hbo] at hs ⊢
          split at hs
          · cases hs
          · cases hg : addLocalMaxFn ra rb with
            | error f => simp [hg] at hs
            | ok g =>
              simp only [hg] at hs
              cases hs
              have hA := h2.hot a hal ra hao
              have hB := h2.hot b hbl rb hbo
              by_cases e : ra.id = rb.id
              · simp only [e, if_true]
                have key := follows_window o.nrun some (s.ael.take i) rest a b
                  { a with join := .right, orec := none } { b with join := .left, orec := none } g o.rings _ (fun p _ _ => rfl)
                  (localMax_run_edges .joinMeet pt _ _ rest a b ra rb g o r2 hao hbo hg hA hB)
                  (fun k' ρ hk' _ => by simp at hk') (fun k' ρ hk' _ => by simp at hk')
                rw [← hl] at key
                simpa only [e, if_true] using key
              · simp only [e, if_false]
                have hr1 := logSeg_rings .joinSeam ra.id ra.front rb.id rb.front o
                have hctx := closeOrJoin_run_edges _ _ rest a b ra rb g (logSeg .joinSeam ra.id ra.front rb.id rb.front o) r2 hao hbo hg
                  (by rw [hr1]; exact hA) (by rw [hr1]; exact hB)
                simp only [e, if_false] at hctx
                have key := follows_window o.nrun some (s.ael.take i) rest a b
                  { a with join := .right, orec := none } { b with join := .left, orec := none } g o.rings
                  (if ra.id < rb.id then joinPaths ra.id rb.id ra.front (logSeg .joinSeam ra.id ra.front rb.id rb.front o)
                    else joinPaths rb.id ra.id rb.front (logSeg .joinSeam ra.id ra.front rb.id rb.front o)).rings (fun p _ _ => rfl)
                  (by
                    intro x hx k' hk'
                    obtain ⟨k, hk1, hk2⟩ := hctx x hx k' hk'
                    refine ⟨k, hk1, ?_⟩
                    rw [runOf_logSeg] at hk2
                    by_cases lt : ra.id < rb.id
                    · simp only [lt, if_true] at hk2 ⊢; exact hk2
                    · simp only [lt, if_false] at hk2 ⊢; exact hk2)
                  (fun k' ρ hk' _ => by simp at hk') (fun k' ρ hk' _ => by simp at hk')
                rw [← hl] at key
                by_cases lt : ra.id < rb.id
                · simp only [lt, if_true] at key ⊢; exact key
                · simp only [lt, if_false] at key ⊢; exact key

theorem follows_insertPair (cfg : Cfg) (pos : Nat) (t : PathType) (isOpen : Bool) (dx : Int) (pt : Pt) (s s' : SState) (o : Out)
    (h : OInv s.next s.ael o) (hs : insertPairS cfg pos t isOpen dx s = .ok s') :
    Follows o.nrun (insert2At pos) s.ael o.rings s'.ael (insertPairOut cfg pos t isOpen dx pt s o).rings := by
  unfold insertPairS at hs
  unfold insertPairOut
  split at hs
  · next hc =>
    simp only at hs ⊢
    have hlen : (s.ael.take pos).length = pos := by rw [List.length_take]; omega
    have hfrom : ∀ x ∈ s.ael.take pos ++ s.ael.drop pos, x ∈ s.ael := by intro x hx; rw [List.take_append_drop] at hx; exact hx
    by_cases hcon : ((newLeft cfg (erase (s.ael.take pos)) t isOpen dx).2 && !isOpen) = true
    · simp only [hcon, if_true] at hs ⊢
      rw [addLocalMin_eq pos true (s.ael.take pos) _ _ (s.ael.drop pos) s.next hlen] at hs
      cases hs
      rw [show insert2At pos = insert2At (s.ael.take pos).length from by rw [hlen]]
      conv => arg 3; rw [← List.take_append_drop pos s.ael]
      exact follows_insert2 o.nrun (s.ael.take pos) (s.ael.drop pos) _ _ o.rings (newRec pt o).rings
        (fun z hz k hk => runOf_newRec_old pt o k (liveAt_lt _ _ (h.hot z (hfrom z hz) k hk)))
        (fun k ρ hk hρ => by
          simp only [Option.some.injEq] at hk
          exact runOf_fresh_of_new pt o k ρ (by rw [← hk, (minRecs_ids _ _ _).1, h.len]) hρ)
        (fun k ρ hk hρ => by
          simp only [Option.some.injEq] at hk
          exact runOf_fresh_of_new pt o k ρ (by rw [← hk, (minRecs_ids _ _ _).2, h.len]) hρ)
    · simp only [hcon, if_false] at hs ⊢
      cases hs
      rw [show insert2At pos = insert2At (s.ael.take pos).length from by rw [hlen]]
      conv => arg 3; rw [← List.take_append_drop pos s.ael]
      exact follows_insert2 o.nrun (s.ael.take pos) (s.ael.drop pos) _ _ o.rings o.rings (fun z _ k _ => rfl)
        (fun k ρ hk _ => by simp at hk) (fun k ρ hk _ => by simp at hk)
  · cases hs

theorem follows_insertOne (cfg : Cfg) (pos : Nat) (t : PathType) (dx : Int) (s s' : SState) (o : Out)
    (hs : insertOneS cfg pos t dx s = .ok s') : Follows o.nrun (insert1At pos) s.ael o.rings s'.ael o.rings := by
  unfold insertOneS at hs
  split at hs
  · next hc =>
    simp only at hs
    cases hs
    have hlen : (s.ael.take pos).length = pos := by rw [List.length_take]; omega
    rw [show insert1At pos = insert1At (s.ael.take pos).length from by rw [hlen]]
    conv => arg 3; rw [← List.take_append_drop pos s.ael]
    exact follows_insert1 o.nrun (s.ael.take pos) (s.ael.drop pos) _ o.rings rfl
  · cases hs

theorem follows_removeOne (i : Nat) (s s' : SState) (o : Out) (hs : removeOneS i s = .ok s') :
    Follows o.nrun (remove1At i) s.ael o.rings s'.ael o.rings := by
  unfold removeOneS at hs
  match hd : s.ael.drop i with
  | [] => simp [hd] at hs
  | x :: rest =>
    simp only [hd] at hs
    split at hs
    · cases hs
      have hlen := take_length_of_drop _ _ _ _ hd
      have key := follows_remove1 o.nrun (s.ael.take i) rest x o.rings
      have hl : s.ael = s.ael.take i ++ x :: rest := by rw [← hd]; exact (List.take_append_drop i s.ael).symm
      rw [← hl, hlen] at key
      exact key
    · cases hs

theorem follows_update (i : Nat) (pt : Pt) (s : SState) (o : Out) : Follows o.nrun some s.ael o.rings s.ael (updateOut i pt s o).rings := by
  intro p' ρ h
  right
  refine ⟨p', rfl, ?_⟩
  obtain ⟨x, k, hx, hk, hr⟩ := holderRun_some _ _ _ _ h
  rw [holderRun_of_get _ _ p' x k hx hk, ← hr]
  unfold updateOut
  split
  · split
    · rfl
    · next y _ _ =>
      cases y.orec with
      | none => rfl
      | some kk => exact (runOf_addOutPt _ _ _ _ _).symm
  · rfl


/-- one event: every run held afterwards is new or was held before by the same `Active` -/
theorem follows_step (cfg : Cfg) (r r' : RState) (op : ROp) (hS : SInv cfg r.s) (hR : RecsOK r.s.next r.s.ael)
    (h : OInv r.s.next r.s.ael r.o) (hs : stepR cfg r op = .ok r') :
    Follows r.o.nrun (trackPos op) r.s.ael r.o.rings r'.s.ael r'.o.rings := by
  unfold stepR at hs
  cases op with
  | base b p =>
    simp only [ROp.erase] at hs
    cases hss : stepS cfg r.s (.base b) with
    | error e => simp [hss] at hs
    | ok s' =>
      simp only [hss] at hs
      cases hs
      cases b with
      | insertPair pos t isOpen dx => exact follows_insertPair cfg pos t isOpen dx p r.s s' r.o h hss
      | insertOne pos t dx => exact follows_insertOne cfg pos t dx r.s s' r.o hss
      | intersect i => exact follows_intersect cfg i p r.s s' r.o hS.side hR h hss
      | removePair i => exact follows_removePair i p r.s s' r.o hS.side hR h hss
      | removeOne i => exact follows_removeOne i r.s s' r.o hss
  | join i p =>
    simp only [ROp.erase] at hs
    cases hss : stepS cfg r.s (.join i) with
    | error e => simp [hss] at hs
    | ok s' =>
      simp only [hss] at hs
      cases hs
      exact follows_join i p r.s s' r.o hR h hss
  | split i p =>
    simp only [ROp.erase] at hs
    cases hss : stepS cfg r.s (.split i) with
    | error e => simp [hss] at hs
    | ok s' =>
      simp only [hss] at hs
      cases hs
      exact follows_splitS i p r.s s' r.o h hss
  | update i p =>
    simp only [ROp.erase] at hs
    split at hs
    · cases hs; exact follows_update i p r.s r.o
    · cases hs

/-! ## run ids are below `nrun` -/

def RunsBound (o : Out) : Prop := ∀ g ∈ o.rings, g.frun < o.nrun ∧ g.brun < o.nrun

theorem runsBound_prim (pt : Pt) : PrimPres pt RunsBound := by
  refine ⟨?_, ?_, ?_, ?_, ?_, ?_⟩
  · intro o h g hg
    simp only [newRec, List.mem_append, List.mem_singleton] at hg ⊢
    rcases hg with hg | rfl
    · have := h g hg; omega
    · simp
  · intro id f o h g hg
    have hn : (addOutPt id f pt o).nrun = o.nrun := by
      unfold addOutPt; split
      · split <;> rfl
      · rfl
    rw [hn]
    rw [addOutPt_rings] at hg
    split at hg
    · next r hr =>
      split at hg
      · rcases List.mem_or_eq_of_mem_set hg with hg | rfl
        · exact h g hg
        · have := h r (mem_of_get _ _ _ hr)
          have e1 := addPt_run f true pt r
          have e2 := addPt_run f false pt r
          simp only [Ring.run, if_true, Bool.false_eq_true, if_false] at e1 e2
          rw [e1, e2]; exact this
      · exact h g hg
    · exact h g hg
  · intro id f o h g hg
    cases hr : o.rings[id]? with
    | none => simp only [handOver, hr] at hg ⊢; exact h g hg
    | some r =>
      simp only [handOver, hr] at hg ⊢
      rcases List.mem_or_eq_of_mem_set hg with hg | rfl
      · have := h g hg; omega
      · have := h r (mem_of_get _ _ _ hr)
        cases f <;> simp <;> omega
  · intro id f o h g hg
    cases hr : o.rings[id]? with
    | none => simp only [finish, hr] at hg ⊢; exact h g hg
    | some r =>
      simp only [finish, hr] at hg ⊢
      rcases List.mem_or_eq_of_mem_set hg with hg | rfl
      · exact h g hg
      · exact h r (mem_of_get _ _ _ hr)
  · intro A B f o h g hg
    have hn : (joinPaths A B f o).nrun = o.nrun := by
      unfold joinPaths; split
      · split <;> rfl
      · rfl
    rw [hn]
    unfold joinPaths at hg
    split at hg
    · next ra rb hA hB =>
      split at hg
      · next hc =>
        have ha := h ra (mem_of_get _ _ _ hA)
        have hb := h rb (mem_of_get _ _ _ hB)
        rcases List.mem_or_eq_of_mem_set hg with hg | rfl
        · rcases List.mem_or_eq_of_mem_set hg with hg | rfl
          · exact h g hg
          · cases f <;> simp <;> omega
        · exact hb
      · exact h g hg
    · exact h g hg
  · intro k i1 f1 i2 f2 o h g hg
    rw [logSeg_rings] at hg
    have hn : (logSeg k i1 f1 i2 f2 o).nrun = o.nrun := by
      unfold logSeg; split
      · split <;> rfl
      · rfl
    rw [hn]; exact h g hg

end Clipper.Model
