/-
Depth parity: `IsHole` alternates with the level, and a placed outrec is nested inside the rings of all its ancestors.
-/
import ClipperVerif.Lemmas.OwnerBuild
namespace Clipper.Model.Owner
open Clipper

theorem isHole_eq (a : List Nat) : isHole a = (decide (1 ≤ level a) && decide (level a % 2 = 0)) := by
  unfold isHole
  rw [Bool.eq_iff_iff]
  simp
  omega

theorem isHole_top (k : Nat) : isHole [k] = false := by simp [isHole, level]

theorem isHole_child (pa : List Nat) (k : Nat) (h : pa ≠ []) : isHole (pa ++ [k]) = !isHole pa := by
  have hl : 1 ≤ pa.length := by
    cases pa with
    | nil => exact absurd rfl h
    | cons _ _ => simp
  unfold isHole level
  simp only [List.length_append, List.length_singleton]
  generalize pa.length = n at hl
  rcases Nat.mod_two_eq_zero_or_one n with h0 | h1
  · have : (n + 1) % 2 = 1 := by omega
    have hn : n ≠ 0 := by omega
    simp [h0, this, hn]
  · have : (n + 1) % 2 = 0 := by omega
    simp [h1, this]

/-- the ancestor `k` owner links above a placed outrec owns the node `k` levels up and geometrically contains it -/
theorem TInv.ancestors {inside : Nat → Nat → Bool} {S : St} (hT : TInv inside S) {Geo : Nat → Nat → Prop}
    (G1 : ∀ c p, inside c p = true → Geo c p) (G2 : ∀ a b c, Geo a b → Geo b c → Geo a c) :
    ∀ (k : Nat) (c : Nat) (r : OutRec) (a : List Nat), S.recs[c]? = some r → r.polypath = some a → 1 ≤ k → k < level a →
      ∃ (anc : Nat) (ra : OutRec), ownerSteps S.recs k c = some anc ∧ S.recs[anc]? = some ra ∧
        ra.polypath = some (a.take (level a - k)) ∧ Geo c anc := by
  intro k
  induction k with
  | zero => intro c r a _ _ h1; omega
  | succ k ih =>
    intro c r a hc ha _ hk
    rcases (hT c r a hc ha).2.2 with ⟨_, k', hk'⟩ | ⟨p, rp, pa, k', ho, hp, hppa, hak, _, hins⟩
    · subst hk'; simp [level] at hk
    · have hlen : level a = level pa + 1 := by simp [level, hak]
      have hstep : ownerSteps S.recs (k + 1) c = ownerSteps S.recs k p := by
        simp only [ownerSteps, hc, ho]
      by_cases hk0 : k = 0
      · subst hk0
        refine ⟨p, rp, by rw [hstep]; rfl, hp, ?_, G1 c p hins⟩
        rw [hppa, hlen, hak]
        simp [level]
      · obtain ⟨anc, ra, h1, h2, h3, h4⟩ := ih p rp pa hp hppa (by omega) (by omega)
        refine ⟨anc, ra, hstep.trans h1, h2, ?_, G2 _ _ _ (G1 c p hins) h4⟩
        rw [h3, hlen, hak]
        have : level pa + 1 - (k + 1) = level pa - k := by omega
        rw [this, List.take_append_of_le_length (by simp [level])]

end Clipper.Model.Owner
