/-
`ProcessHorzJoins` terminates without a fault on a well-formed heap: every fuel bound of the model suffices
(`GetRealOutRec`, `FixOutRecPts`, the ring readers feeding `Path1InsidePath2`, and — under `using_polytree_`, for an acyclic
owner graph — `SetOwner`).  Helper file of `Props/C02Horz.lean`.  Core Lean only.
-/
import ClipperVerif.Lemmas.HorzJoinsProcWF
namespace Clipper.Model.HorzJoins
open Clipper

theorem keepPts_total {H : Heap} {o1 o2 op1 p : Nat} {rc : ORec} (hrc : H.recs[o1]? = some rc) (hp : rc.pts = some p)
    (hpl : p < H.ops.size) (hop : op1 < H.ops.size) : ∃ H', keepPts H o1 o2 op1 = .ok H' := by
  obtain ⟨np, hnp⟩ := node_of_lt hpl
  unfold keepPts
  have hpr : ptsOfRec H o1 = .ok p := by simp [ptsOfRec, Heap.orec, hrc, hp]
  simp only [hpr, node_ok.2 hnp]
  split
  · obtain ⟨H1, h1⟩ := updRec_of_lt H (fun x => { x with pts := some op1 }) (lt_of_rec hrc)
    rw [h1]
    simp only
    exact updNode_of_lt H1 _ (by rw [(updRec_ok h1).2.1]; exact hop)
  · exact ⟨H, rfl⟩

/-- `SetOwner` of the join model terminates whenever `SetOwner` of the ownership model does -/
theorem setOwner_of_view {H : Heap} {i no : Nat} {T' : Owner.Table}
    (h : Owner.setOwner (toTable H) ((toTable H).size + 2) i no = some T') : ∃ H', setOwner H i no = .ok H' := by
  unfold Owner.setOwner at h
  rw [toTable_size] at h
  cases h1 : Owner.skipDeadOwners (toTable H) (H.recs.size + 2) no with
  | none => simp [h1] at h
  | some T1 =>
    simp only [h1] at h
    obtain ⟨H1, e1, rfl⟩ := (skipDeadOwners_view no _ H).2 T1 h1
    cases h2 : Owner.isValidOwner (toTable H1) (H.recs.size + 2) i (some no) with
    | none => simp [h2] at h
    | some valid =>
      simp only [h2] at h
      have e2 := (isValidOwner_view H1 i _ _ valid).2 h2
      cases h3 : (toTable H1)[i]? with
      | none => simp [h3] at h
      | some r' =>
        rw [toTable_get] at h3
        cases h3' : H1.recs[i]? with
        | none => simp [h3'] at h3
        | some r =>
          have hi : i < H1.recs.size := lt_of_rec h3'
          -- new_owner is in the table: skipDeadOwners read it
          have hno : no < H1.recs.size := by
            rw [skipDeadOwners_size _ _ _ _ e1]
            unfold skipDeadOwners at e1
            cases ho : H.orec no with
            | error e => simp [ho] at e1
            | ok rn => exact lt_of_rec (orec_ok.1 ho)
          unfold setOwner
          simp only [bind, Except.bind, e1, e2, orec_ok.2 h3']
          unfold breakCycle
          cases valid with
          | true =>
            simp only [if_true]
            exact updRec_of_lt H1 _ hi
          | false =>
            simp only [Bool.false_eq_true, if_false]
            obtain ⟨H2, h2'⟩ := updRec_of_lt H1 (fun x => { x with owner := r.owner }) hno
            rw [h2']
            simp only
            exact updRec_of_lt H2 _ (by rw [(updRec_ok h2').2.2.1]; exact hi)

theorem moveSplits_total {H : Heap} {a b : Nat} (ha : a < H.recs.size) (hb : b < H.recs.size) : ∃ H', moveSplits H a b = .ok H' := by
  unfold moveSplits
  have hra : H.recs[a]? = some H.recs[a] := by simp [ha]
  simp only [bind, Except.bind, orec_ok.2 hra]
  cases H.recs[a].splits with
  | none => exact ⟨H, rfl⟩
  | some fs =>
    simp only
    obtain ⟨H1, h1⟩ := updRec_of_lt H (fun x => { x with splits := some (x.splits.getD [] ++ fs) }) hb
    rw [h1]
    simp only
    exact updRec_of_lt H1 _ (by rw [(updRec_ok h1).2.2.1]; exact ha)

theorem toTable_hasPts_false {H H1 : Heap} {r2 : Nat} (e : H.updRec r2 (fun x => { x with pts := none }) = .ok H1) :
    toTable H1 = (toTable H).modify r2 (fun x => { x with hasPts := false }) :=
  toTable_updRec e (by intro r; rfl)

/-- the two-ring branch terminates (under `using_polytree_`: for an acyclic owner graph with in-range owners) -/
theorem mergeBranch_total {tree : Bool} {H : Heap} {r1 r2 : Nat} (h1 : r1 < H.recs.size) (h2 : r2 < H.recs.size)
    (hA : tree = true → Owner.Acyclic (toTable H) ∧ Owner.OwnersInRange (toTable H)) :
    ∃ H', mergeBranch tree H (some r1) (some r2) = .ok H' := by
  obtain ⟨H1, e1⟩ := updRec_of_lt H (fun x => { x with pts := none }) h2
  have z1 := (updRec_ok e1).2.2.1
  unfold mergeBranch
  simp only [bind, Except.bind, e1]
  cases tree with
  | false =>
    simp only [Bool.false_eq_true, if_false]
    exact updRec_of_lt H1 _ (by rw [z1]; exact h2)
  | true =>
    simp only [if_true]
    obtain ⟨hAc, hO⟩ := hA rfl
    have eT := toTable_hasPts_false e1
    have hAc1 : Owner.Acyclic (toTable H1) := by
      apply hAc.of_same_owner
      intro j r' hj
      rw [eT, Array.getElem?_modify] at hj
      by_cases hjr : r2 = j
      · subst hjr
        simp only [if_true] at hj
        cases a : (toTable H)[r2]? with
        | none => simp [a] at hj
        | some r => simp [a] at hj; exact ⟨r, rfl, by rw [← hj]⟩
      · simp only [hjr, if_false] at hj; exact ⟨r', hj, rfl⟩
    have hO1 : Owner.OwnersInRange (toTable H1) := by
      intro j r' o hj ho
      rw [toTable_size, z1, ← toTable_size]
      rw [eT, Array.getElem?_modify] at hj
      by_cases hjr : r2 = j
      · subst hjr
        simp only [if_true] at hj
        cases a : (toTable H)[r2]? with
        | none => simp [a] at hj
        | some r => simp [a] at hj; exact hO r2 r o a (by rw [← hj] at ho; exact ho)
      · simp only [hjr, if_false] at hj; exact hO j r' o hj ho
    have hne := Owner.setOwner_total hAc1 hO1 (i := r2) (no := r1) (by rw [toTable_size, z1]; exact h2) (by rw [toTable_size, z1]; exact h1)
    cases hs : Owner.setOwner (toTable H1) ((toTable H1).size + 2) r2 r1 with
    | none => exact absurd hs hne
    | some T' =>
      obtain ⟨H2, e2⟩ := setOwner_of_view hs
      have z2 := (setOwner_onlyOwners e2).1
      rw [e2]
      simp only
      exact moveSplits_total (by rw [z2, z1]; exact h2) (by rw [z2, z1]; exact h1)

/-- the three-way decision of the split branch terminates -/
theorem splitOwnerChoice_total {H : Heap} {R1 X' : List Nat} {rest : List (List Nat)} {r N x0 p1 : Nat} {a b : Bool}
    (R : Rings H (R1 :: (x0 :: X') :: rest)) (hr : r < H.recs.size) (hN : N < H.recs.size) (hrN : r ≠ N) (hp1 : p1 ∈ R1) :
    ∃ H', splitOwnerChoice H r N p1 x0 a b = .ok H' := by
  unfold splitOwnerChoice
  cases a with
  | true =>
    simp only [if_true]
    obtain ⟨Ha, e1⟩ := updRec_of_lt H (fun x => { x with pts := some x0 }) hr
    obtain ⟨_, oa, za, ga⟩ := updRec_ok e1
    obtain ⟨Hb, e2⟩ := updRec_of_lt Ha (fun x => { x with pts := some p1 }) (by rw [za]; exact hN)
    obtain ⟨_, ob, zb, gb⟩ := updRec_ok e2
    have slb : SameLinks H Hb := (SameLinks.of_ops_eq oa).trans (SameLinks.of_ops_eq ob)
    have Rb := R.of_sameLinks slb
    have hrr : H.recs[r]? = some H.recs[r] := by simp [hr]
    have hNN : H.recs[N]? = some H.recs[N] := by simp [hN]
    have hbr : Hb.recs[r]? = some { H.recs[r] with pts := some x0 } := by
      rw [gb r, if_neg hrN, ga r, if_pos rfl, hrr]; rfl
    have hbN : Hb.recs[N]? = some { H.recs[N] with pts := some p1 } := by
      rw [gb N, if_pos rfl, ga N, if_neg (Ne.symm hrN), hNN]; rfl
    obtain ⟨Hc, e3, slc, erc, _⟩ := fixOutRecPts_spec (a := x0) (t := X') Rb (by simp) hbr rfl
    have Rc := Rb.of_sameLinks slc
    obtain ⟨pre, post, hR1⟩ := List.append_of_mem hp1
    have Rc' : Rings Hc ((p1 :: (post ++ pre)) :: (x0 :: X') :: rest) := by
      have := (hR1 ▸ Rc).rot_head
      simpa using this
    have hcN : Hc.recs[N]? = some { H.recs[N] with pts := some p1 } := by rw [erc]; exact hbN
    obtain ⟨Hd, e4, _, erd, _⟩ := fixOutRecPts_spec (a := p1) (t := post ++ pre) Rc' (by simp) hcN rfl
    simp only [e1, e2, e3, e4]
    exact updRec_of_lt Hd _ (by rw [erd, erc, zb, za]; exact hN)
  | false =>
    simp only [Bool.false_eq_true, if_false]
    cases b with
    | true => simp only [if_true]; exact updRec_of_lt H _ hN
    | false =>
      simp only [Bool.false_eq_true, if_false]
      have hrr : H.recs[r]? = some H.recs[r] := by simp [hr]
      rw [orec_ok.2 hrr]
      exact updRec_of_lt H _ hN

theorem toTable_of_recs {H H' : Heap} (h : H'.recs = H.recs) : toTable H' = toTable H := by unfold toTable; rw [h]

/-- **one iteration of `ProcessHorzJoins` terminates without a fault on a well-formed heap** (non-degenerate join; under
`using_polytree_` the owner graph must be acyclic with in-range owners, as `SetOwner` requires) -/
theorem processJoin_total {inside : List Pt → List Pt → Bool} {tree : Bool} {H : Heap} {j : HorzJoin}
    (W : WF H) (h1 : j.op1 < H.ops.size) (h2 : j.op2 < H.ops.size) (hne : j.op1 ≠ j.op2)
    (hnd : nextOf H j.op1 ≠ some j.op2)
    (hA : tree = true → Owner.Acyclic (toTable H) ∧ Owner.OwnersInRange (toTable H)) :
    ∃ H', processJoin inside tree H j = .ok H' := by
  obtain ⟨rs, R, K⟩ := W
  obtain ⟨n1, hn1⟩ := node_of_lt h1
  obtain ⟨n2, hn2⟩ := node_of_lt h2
  rcases R.focus2_relist h1 h2 hne with ⟨X, Y, rest, R1, L⟩ | ⟨X, Y, rest, R1, L⟩
  · cases X with
    | nil =>
      exfalso
      exact hnd ((R1.ring _ (by simp)).next_head (a := j.op1) (b := j.op2) (t := Y)).1
    | cons x0 X' =>
      have K1 := K.relist L
      have hc : (j.op1 :: (x0 :: X') ++ j.op2 :: Y) ∈ (j.op1 :: (x0 :: X') ++ j.op2 :: Y) :: rest := by simp
      obtain ⟨r, pr, hrp, hprc, hall⟩ := K1.ring_rec _ hc
      have e1 := hall j.op1 (by simp) n1.orec (orecOf_some.2 ⟨n1, hn1, rfl⟩)
      have e2 := hall j.op2 (by simp) n2.orec (orecOf_some.2 ⟨n2, hn2, rfl⟩)
      obtain ⟨xl, hxl⟩ : ∃ xl, (x0 :: X').getLast? = some xl := by
        rw [List.getLast?_eq_some_getLast (by simp)]; exact ⟨_, rfl⟩
      obtain ⟨Hs, hs, Rs, eos, _, ers, ess⟩ := splice_rings_same R1 (x0 := x0) (by simp) hxl
      unfold processJoin
      simp only [bind, Except.bind, node_ok.2 hn1, node_ok.2 hn2, e1, e2, hs, if_true]
      -- the same-ring branch
      have Ks : RecsOK Hs ((j.op1 :: (x0 :: X') ++ j.op2 :: Y) :: rest) := K1.of_eqs ers eos
      have hrps : (Hs.recs[r]?).bind (·.pts) = some pr := by rw [ers]; exact hrp
      have hcr : ∀ i ∈ j.op1 :: (x0 :: X') ++ j.op2 :: Y, ∀ o, orecOf Hs i = some o → Res Hs o r := by
        intro i hi o hio
        rw [eos] at hio
        have := hall i hi o hio
        rw [← realOf_congr ers] at this
        exact res_iff.1 this
      have hmem : ∀ i, i ∈ j.op1 :: (x0 :: X') ++ j.op2 :: Y ↔ i ∈ j.op1 :: j.op2 :: Y ∨ i ∈ x0 :: X' := by
        intro i; simp only [List.mem_cons, List.mem_append]; grind
      obtain ⟨rcr, hrcr, hrcrp⟩ : ∃ rc, Hs.recs[r]? = some rc ∧ rc.pts = some pr := by
        cases a : Hs.recs[r]? with
        | none => simp [a] at hrps
        | some rc => simp [a] at hrps; exact ⟨rc, rfl, hrps⟩
      have hrlt : r < Hs.recs.size := lt_of_rec hrcr
      have hprlt : pr < Hs.ops.size := by
        rcases (hmem pr).1 hprc with h | h
        · exact Rs.mem_lt (by simp) h
        · exact Rs.mem_lt (by simp) h
      have hN : (newOutRec Hs).2 = Hs.recs.size := rfl
      obtain ⟨H1, e1'⟩ := updRec_of_lt (newOutRec Hs).1 (fun x => { x with pts := some x0 }) (i := (newOutRec Hs).2) (by simp [newOutRec])
      obtain ⟨_, o1, z1, g1⟩ := updRec_ok e1'
      have sl1 : SameLinks Hs H1 := SameLinks.of_ops_eq o1
      have hrcN : H1.recs[Hs.recs.size]? = some { pts := some x0 } := by rw [g1]; simp [newOutRec]
      obtain ⟨H2, e2', sl2, er2, _⟩ := fixOutRecPts_spec (a := x0) (t := X') (Rs.of_sameLinks sl1) (by simp) hrcN rfl
      have hr2 : H2.recs[r]? = some rcr := by
        rw [er2, g1 r, hN, if_neg (Nat.ne_of_lt hrlt)]
        simp [newOutRec, Array.getElem?_push, Nat.ne_of_lt hrlt, hrcr]
      obtain ⟨H3, e3'⟩ := keepPts_total (o2 := Hs.recs.size) (op1 := j.op1) hr2 hrcrp
        (by rw [sl2.2.2.2, sl1.2.2.2]; exact hprlt) (by rw [sl2.2.2.2, sl1.2.2.2, ess]; exact h1)
      have e1s : (newOutRec Hs).1.updRec Hs.recs.size (fun x => { x with pts := some x0 }) = .ok H1 := e1'
      unfold splitBranch
      simp only [hN, bind, Except.bind, e1s, e2', e3']
      obtain ⟨pA, rc3, hpA, hr3, hp3, g3, gN3, z3, sl3, _⟩ := split_state3 Rs hmem (by simp) hrps hprc hcr e1' e2' e3'
      cases tree with
      | false =>
        simp only [Bool.false_eq_true, if_false]
        exact updRec_of_lt H3 _ (i := Hs.recs.size) (by rw [z3]; omega)
      | true =>
        simp only [if_true]
        have R3 := Rs.of_sameLinks sl3
        have hpAlt : pA < H3.ops.size := R3.mem_lt (by simp) hpA
        have hx0lt : x0 < H3.ops.size := R3.mem_lt (List.mem_cons_of_mem _ (List.mem_cons_self)) (by simp)
        obtain ⟨ps1, hps1⟩ := ringPts_total R3 hpAlt
        obtain ⟨ps2, hps2⟩ := ringPts_total R3 hx0lt
        obtain ⟨H4, e4⟩ := splitOwnerChoice_total (a := inside ps1 ps2) (b := !inside ps1 ps2 && inside ps2 ps1) R3
          (by rw [z3]; omega : r < H3.recs.size) (by rw [z3]; omega : Hs.recs.size < H3.recs.size) (Nat.ne_of_lt hrlt) hpA
        have z4 := (splitOwnerChoice_sameSplits e4).2
        unfold splitOwners
        have hq1 : ptsOfRec H3 r = .ok pA := by simp [ptsOfRec, Heap.orec, hr3, hp3]
        have hq2 : ptsOfRec H3 Hs.recs.size = .ok x0 := by simp [ptsOfRec, Heap.orec, gN3]
        simp only [bind, Except.bind, hq1, hq2, hps1, hps2, e4]
        exact updRec_of_lt H4 _ (i := r) (by rw [z4, z3]; omega)
  · have K1 := K.relist L
    have hc1 : (j.op1 :: X) ∈ (j.op1 :: X) :: (j.op2 :: Y) :: rest := by simp
    have hc2 : (j.op2 :: Y) ∈ (j.op1 :: X) :: (j.op2 :: Y) :: rest := by simp
    obtain ⟨r1, p1, hp1, hp1c, hall1⟩ := K1.ring_rec _ hc1
    obtain ⟨r2, p2, hp2, hp2c, hall2⟩ := K1.ring_rec _ hc2
    have hdis : ∀ a ∈ j.op1 :: X, a ∉ j.op2 :: Y := by
      have hnd' := R1.nodup
      simp only [List.flatten_cons] at hnd'
      intro a ha hb
      grind [List.nodup_append]
    have hr12 : r1 ≠ r2 := K1.rec_ne hdis hp1 hp1c hp2 hp2c
    have e1 := hall1 j.op1 (by simp) n1.orec (orecOf_some.2 ⟨n1, hn1, rfl⟩)
    have e2 := hall2 j.op2 (by simp) n2.orec (orecOf_some.2 ⟨n2, hn2, rfl⟩)
    obtain ⟨Hs, b1, b2, hs, _, _, _, _, _, ers, _⟩ := splice_rings_diff R1
    have hr1lt : r1 < Hs.recs.size := by
      rw [ers]
      cases a : H.recs[r1]? with
      | none => simp [a] at hp1
      | some rc => exact lt_of_rec a
    have hr2lt : r2 < Hs.recs.size := by
      rw [ers]
      cases a : H.recs[r2]? with
      | none => simp [a] at hp2
      | some rc => exact lt_of_rec a
    obtain ⟨H', hm⟩ := mergeBranch_total (tree := tree) hr1lt hr2lt (by rw [toTable_of_recs ers]; exact hA)
    refine ⟨H', ?_⟩
    unfold processJoin
    simp only [bind, Except.bind, node_ok.2 hn1, node_ok.2 hn2, e1, e2, hs]
    rw [if_neg (by simp [hr12])]
    exact hm

end Clipper.Model.HorzJoins
