/-
Lemmas about the Z layer of the open-path assembly model (`Model/AelOpenRingsZ.lean`; theorems: `Props/C15OpenRings.lean`).
The primitives are those of `Model/AelRingsZ.lean`, so the primitive-level facts of `Lemmas/AelRingsZ.lean` are reused; new here: the lifting of a
primitive-closed relation through the control flow of the open layer (`rel_openStepZ`), the shared callback counter, and `BuildPath64` with z.
-/
import ClipperVerif.Model.AelOpenRingsZ
import ClipperVerif.Lemmas.AelRingsZ
namespace Clipper.Model
open Clipper.Model.ZFill

/-! ## lifting through the control flow of the open layer -/

section relO
variable {zc : ZCfg} {S : Bool} {ends : ZEnds} {pt : PtZ} {R : ZOut → Out → Prop}

theorem rel_openBranch (hp : PrimRel zc true S ends pt R) (cfg : Cfg) (l : List SEdge) (io : Nat) (eo ec : SEdge) (lm : Option (Option Nat))
    (oo : Out) (om : List EndMarks) (zo : ZOut) (r : Option Rec × Out × List EndMarks)
    (hs : openBranch cfg l io eo ec (xy pt) lm oo om = some r) (h : R zo oo) : R (openBranchZ cfg zc l io eo ec pt ends lm zo) r.2.1 := by
  unfold openBranch at hs
  unfold openBranchZ
  have g1 : (some (eo.e.pt == PathType.subject)).isSome = true := rfl
  have g2 : (some (eo.e.pt == PathType.subject)).isSome = true → ends = ends := fun _ => rfl
  have g3 : (some (eo.e.pt == PathType.subject)).isSome = true → true = true ∧ ends = ends := fun _ => ⟨rfl, rfl⟩
  have g4 : (some (eo.e.pt == PathType.subject)) = none → true = true → S = true := by intro hh; cases hh
  simp only
  by_cases ht : openToggles cfg ec.e = true
  · simp only [ht, if_true] at hs ⊢
    cases ho : eo.orec with
    | some k =>
      simp only [ho] at hs ⊢
      cases hs
      exact hp.addOutPt _ _ _ _ _ _ g1 g2 h
    | none =>
      simp only [ho] at hs ⊢
      cases lm with
      | none =>
        simp only at hs ⊢
        cases hs
        exact hp.newRec _ _ _ _ g3 g4 h
      | some lj =>
        cases lj with
        | none =>
          simp only at hs ⊢
          cases hs
          exact hp.newRec _ _ _ _ g3 g4 h
        | some j =>
          simp only at hs ⊢
          cases hl : l[j]? with
          | none => simp [hl] at hs
          | some e3 =>
            simp only [hl] at hs ⊢
            by_cases hc : e3.e.isOpen = true ∧ j ≠ io ∧ e3.e.dx + eo.e.dx = 0
            · simp only [hc] at hs ⊢
              simp only [ne_eq, hc.2.1, not_false_eq_true, and_self, if_true] at hs ⊢
              cases h3 : e3.orec with
              | some rr =>
                simp only [h3] at hs ⊢
                split at hs
                · cases hs; exact hp.handOver _ _ _ _ h
                · cases hs
              | none =>
                simp only [h3] at hs ⊢
                cases hs
                exact hp.newRec _ _ _ _ g3 g4 h
            · simp only [hc, if_false] at hs
              cases hs
  · simp only [ht] at hs ⊢
    simp only [Bool.false_eq_true, if_false] at hs ⊢
    cases hs
    exact h

end relO

/-- is the event an `IntersectEdges` call; the `bot/top` record; the triple -/
def ZOOp.isX : ZOOp → Bool
  | .ev op => op.isX
  | .locMinX _ _ _ _ => true
  | _ => false

def ZOOp.ends : ZOOp → ZEnds
  | .ev op => op.ends
  | .locMinX _ _ e _ => e
  | _ => ZEnds.none

theorem rel_oIntersect {zc : ZCfg} {S : Bool} {ends : ZEnds} {pt : PtZ} {R : ZOut → Out → Prop}
    (hp1 : PrimRel zc true S ends pt R) (hp2 : PrimRel zc true S ends.swap pt R) (cfg : Cfg) (i : Nat) (lm : Option (Option Nat))
    (x x' : OX) (zo : ZOut) (hs : oIntersect cfg i (xy pt) lm x = some x') (h : R zo x.oo) : R (oIntersectZ cfg zc i pt ends lm x zo) x'.oo := by
  unfold oIntersect at hs
  unfold oIntersectZ
  cases hd : x.ol.drop i with
  | nil => simp [hd] at hs
  | cons a t =>
    cases t with
    | nil => simp [hd] at hs
    | cons b rest =>
      simp only [hd] at hs ⊢
      by_cases he : a.e.isOpen = b.e.isOpen
      · simp only [he, if_true] at hs ⊢
        cases hs; exact h
      · simp only [he, if_false] at hs ⊢
        by_cases ha : a.e.isOpen = true
        · simp only [ha, if_true] at hs ⊢
          cases hb : openBranch cfg x.ol i a b (xy pt) lm x.oo x.om with
          | none => simp [hb] at hs
          | some r =>
            simp only [hb] at hs
            cases hs
            exact rel_openBranch hp1 cfg _ _ _ _ _ _ _ _ r hb h
        · simp only [ha] at hs ⊢
          simp only [Bool.false_eq_true, if_false] at hs ⊢
          cases hb : openBranch cfg x.ol (i + 1) b a (xy pt) lm x.oo x.om with
          | none => simp [hb] at hs
          | some r =>
            simp only [hb] at hs
            cases hs
            exact rel_openBranch hp2 cfg _ _ _ _ _ _ _ _ r hb h

theorem rel_oInsertPair {zc : ZCfg} {S : Bool} {ends : ZEnds} {pt : PtZ} {R : ZOut → Out → Prop} (hp : PrimRel zc false S ends pt R)
    (cfg : Cfg) (pos : Nat) (t : PathType) (isOpen : Bool) (dx : Int) (x x' : OX) (zo : ZOut)
    (hs : oInsertPair cfg pos t isOpen dx (xy pt) x = some x') (h : R zo x.oo) : R (oInsertPairZ cfg zc pos t isOpen dx pt x zo) x'.oo := by
  unfold oInsertPair at hs
  unfold oInsertPairZ
  split at hs
  · simp only at hs ⊢
    split at hs
    · next hc =>
      cases hs
      simp only [hc, if_true]
      exact hp.newRec _ _ _ _ (by intro hh; cases hh) (by intro _ hh; cases hh) h
    · next hc =>
      cases hs
      simp only [hc]
      exact h
  · cases hs

theorem rel_oInsertOne {zc : ZCfg} {S : Bool} {ends : ZEnds} {pt : PtZ} {R : ZOut → Out → Prop} (hp : PrimRel zc false S ends pt R)
    (cfg : Cfg) (pos : Nat) (t : PathType) (dx : Int) (x x' : OX) (zo : ZOut)
    (hs : oInsertOne cfg pos t dx (xy pt) x = some x') (h : R zo x.oo) : R (oInsertOneZ cfg zc pos t dx pt x zo) x'.oo := by
  unfold oInsertOne at hs
  unfold oInsertOneZ
  split at hs
  · simp only at hs ⊢
    split at hs
    · next hc =>
      cases hs
      simp only [hc, if_true, startOpen]
      exact hp.newRec _ _ _ _ (by intro hh; cases hh) (by intro _ hh; cases hh) h
    · next hc =>
      cases hs
      simp only [hc]
      exact h
  · cases hs

theorem rel_oRemovePair {zc : ZCfg} {S : Bool} {ends : ZEnds} {pt : PtZ} {R : ZOut → Out → Prop} (hp : PrimRel zc false S ends pt R)
    (i : Nat) (x x' : OX) (zo : ZOut) (hs : oRemovePair i (xy pt) x = some x') (h : R zo x.oo) : R (oRemovePairZ zc i pt x zo) x'.oo := by
  unfold oRemovePair at hs
  unfold oRemovePairZ
  cases hd : x.ol.drop i with
  | nil => simp [hd] at hs
  | cons a t =>
    cases t with
    | nil => simp [hd] at hs
    | cons b rest =>
      simp only [hd] at hs ⊢
      split at hs
      · by_cases ha : a.e.isOpen = true
        · simp only [ha, if_true] at hs ⊢
          cases hra : a.orec with
          | none =>
            cases hrb : b.orec with
            | none => simp only [hra, hrb] at hs ⊢; cases hs; exact h
            | some rb => simp only [hra, hrb] at hs ⊢; cases hs; exact h
          | some ra =>
            cases hrb : b.orec with
            | none => simp only [hra, hrb] at hs ⊢; cases hs; exact h
            | some rb =>
              simp only [hra, hrb] at hs ⊢
              by_cases hf : ra.front = rb.front
              · simp only [hf, if_true] at hs ⊢; cases hs; exact h
              · simp only [hf, if_false] at hs ⊢
                by_cases hi : ra.id = rb.id
                · simp only [hi, if_true] at hs; cases hs
                · simp only [hi, if_false] at hs ⊢
                  cases hs
                  exact hp.joinPaths _ _ _ _ _ (hp.logSeg _ _ _ _ _ _ _ (hp.addOutPt _ _ _ _ _ _ rfl (by intro hh; cases hh) h))
        · simp only [ha] at hs ⊢
          simp only [Bool.false_eq_true, if_false] at hs ⊢
          cases hs; exact h
      · cases hs

theorem rel_oRemoveOne {zc : ZCfg} {S : Bool} {ends : ZEnds} {pt : PtZ} {R : ZOut → Out → Prop} (hp : PrimRel zc false S ends pt R)
    (i : Nat) (x x' : OX) (zo : ZOut) (hs : oRemoveOne i (xy pt) x = some x') (h : R zo x.oo) : R (oRemoveOneZ zc i pt x zo) x'.oo := by
  unfold oRemoveOne at hs
  unfold oRemoveOneZ
  cases hd : x.ol.drop i with
  | nil => simp [hd] at hs
  | cons a rest =>
    simp only [hd] at hs ⊢
    by_cases ha : a.e.isOpen = true
    · simp only [ha, if_true] at hs ⊢
      cases hra : a.orec with
      | none => simp only [hra] at hs ⊢; cases hs; exact h
      | some k =>
        simp only [hra] at hs ⊢
        cases hs
        simp only [stopOpen]
        exact hp.addOutPt _ _ _ _ _ _ rfl (by intro hh; cases hh) h
    · simp only [ha] at hs
      simp only [Bool.false_eq_true, if_false] at hs
      cases hs

theorem rel_oUpdate {zc : ZCfg} {S : Bool} {ends : ZEnds} {pt : PtZ} {R : ZOut → Out → Prop} (hp : PrimRel zc false S ends pt R)
    (i : Nat) (x x' : OX) (zo : ZOut) (hs : oUpdate i (xy pt) x = some x') (h : R zo x.oo) : R (oUpdateZ zc i pt x zo) x'.oo := by
  unfold oUpdate at hs
  unfold oUpdateZ
  cases hd : x.ol[i]? with
  | none => simp [hd] at hs
  | some a =>
    simp only [hd] at hs ⊢
    by_cases ha : a.e.isOpen = true
    · simp only [ha, if_true] at hs ⊢
      cases hra : a.orec with
      | none => simp only [hra] at hs ⊢; cases hs; exact h
      | some k =>
        simp only [hra] at hs ⊢
        cases hs
        exact hp.addOutPt _ _ _ _ _ _ rfl (by intro hh; cases hh) h
    · simp only [ha] at hs ⊢
      simp only [Bool.false_eq_true, if_false] at hs ⊢
      cases hs; exact h

/-- every Z effect of an event on the open records is a composition of Z primitives running in step with the open model's primitives; in an `IntersectEdges` event `SetZ` is
called with the open edge first, i.e. with the event's end points as they stand or exchanged -/
theorem rel_openStepZ (cfg : Cfg) (zc : ZCfg) (S : Bool) (x x' : OX) (zo : ZOut) (op : ZOOp) (R : ZOut → Out → Prop)
    (hp1 : PrimRel zc op.isX S op.ends op.ptz R) (hp2 : PrimRel zc op.isX S op.ends.swap op.ptz R)
    (hs : openStep cfg x op.erase = some x') (h : R zo x.oo) : R (openStepZ cfg zc x zo op) x'.oo := by
  cases op with
  | insertOne pos t dx bot => exact rel_oInsertOne hp1 cfg _ _ _ _ _ _ hs h
  | removeOne i top => exact rel_oRemoveOne hp1 _ _ _ _ hs h
  | locMinX i p e e3 => exact rel_oIntersect hp1 hp2 cfg _ _ _ _ _ hs h
  | ev o =>
    cases o with
    | insertPair pos t isOpen dx p => exact rel_oInsertPair hp1 cfg _ _ _ _ _ _ _ hs h
    | insertOne pos t dx => exact rel_oInsertOne hp1 cfg _ _ _ _ _ _ hs h
    | intersect i p e => exact rel_oIntersect hp1 hp2 cfg _ _ _ _ _ hs h
    | removePair i p => exact rel_oRemovePair hp1 _ _ _ _ hs h
    | removeOne i => exact rel_oRemoveOne hp1 _ _ _ _ hs h
    | join i p => simp only [ZOOp.erase, ZOp.erase, openStep] at hs; cases hs; exact h
    | split i p => simp only [ZOOp.erase, ZOp.erase, openStep] at hs; cases hs; exact h
    | update i p => exact rel_oUpdate hp1 _ _ _ _ hs h

/-! ## the shared callback counter -/

theorem withCounter_rings (z src : ZOut) : (z.withCounter src).rings = z.rings := rfl
theorem withCounter_log (z src : ZOut) : (z.withCounter src).log = z.log := rfl
theorem withCounter_ncb (z src : ZOut) : (z.withCounter src).ncb = src.ncb := rfl
theorem withCounter_calls (z src : ZOut) : (z.withCounter src).calls = src.calls := rfl

/-- the callback counter never decreases, through any primitive -/
theorem ncbMono_prim (n : Nat) (zc : ZCfg) (X S : Bool) (ends : ZEnds) (pt : PtZ) : PrimRel zc X S ends pt (fun z _ => n ≤ z.ncb) := by
  have hst : ∀ ends' how z, n ≤ z.ncb → n ≤ (stamp zc ends' how pt z).ncb := by
    intro ends' how z h
    rcases stamp_spec zc ends' how pt z with ⟨_, _, h3, _⟩ | ⟨_, _, _, _, _, _, h3, _⟩
    · rw [h3]; exact h
    · rw [h3]; exact Nat.le_succ_of_le h
  refine prim_unary zc X S ends pt (fun z => n ≤ z.ncb) ?_ ?_ ?_ ?_
  · intro ends' how z _ _ h; exact hst ends' how z h
  · intro ends' id f how z _ _ h
    rw [(addOutPtZ_cases zc ends' id f how pt z).1]; exact hst ends' how z h
  · intro id f z h; rw [(finishZ_triples id f z).2.2.1]; exact h
  · intro A B f z h; rw [(joinPathsZ_triples A B f z).2.2.1]; exact h

/-- taking over the counter and log of an output that is at least as far: the callback-log invariant carries over -/
theorem callsOK_withCounter (zc : ZCfg) (a b : ZOut) (hb : CallsOK zc b) (ha : ∀ e ∈ a.log, ∀ k, e.src = .setz k → k < b.ncb) : CallsOK zc (a.withCounter b) :=
  ⟨hb.1, hb.2.1, ha⟩

/-! ## `BuildPath64` on open records, with z -/

theorem dedupFromZ_sublist (last : PtZ) (l : List PtZ) : (dedupFromZ last l).Sublist l := by
  induction l generalizing last with
  | nil => exact List.Sublist.slnil
  | cons p ps ih =>
    simp only [dedupFromZ]
    split
    · exact (ih last).cons p
    · exact (ih p).cons_cons p

theorem dedupZ_sublist (l : List PtZ) : (dedupZ l).Sublist l := by
  cases l with
  | nil => exact List.Sublist.slnil
  | cons p ps => exact (dedupFromZ_sublist p ps).cons_cons p

theorem dedupFromZ_map (last : PtZ) (l : List PtZ) : (dedupFromZ last l).map xy = dedupFrom (xy last) (l.map xy) := by
  induction l generalizing last with
  | nil => rfl
  | cons p ps ih =>
    simp only [dedupFromZ, List.map_cons, dedupFrom]
    by_cases h : xy p = xy last
    · simp only [h, if_true]; exact ih last
    · simp only [h, if_false, List.map_cons]; rw [ih p]

theorem dedupZ_map (l : List PtZ) : (dedupZ l).map xy = dedup (l.map xy) := by
  cases l with
  | nil => rfl
  | cons p ps => simp only [dedupZ, dedup, List.map_cons, dedupFromZ_map]

/-- every vertex of a path built from an open record is a triple of that record -/
theorem buildOpenPathZ_mem (rev dApi : Bool) (pts path : List PtZ) (h : buildOpenPathZ rev dApi pts = some path) : ∀ q ∈ path, q ∈ pts := by
  unfold buildOpenPathZ at h
  cases pts with
  | nil => cases h
  | cons a t =>
    cases t with
    | nil => cases h
    | cons b t' =>
      simp only at h
      by_cases hc : (dApi && (dedupZ (if rev = true then a :: b :: t' else (a :: b :: t').reverse)).length == 3 && verySmallTriangleZ (a :: b :: t')) = true
      · rw [if_pos hc] at h; cases h
      · rw [if_neg hc] at h
        cases h
        intro q hq
        have := (dedupZ_sublist _).subset hq
        cases rev
        · simp only [Bool.false_eq_true, if_false, List.mem_reverse] at this; exact this
        · simpa using this

/-- forgetting z, `BuildPath64` on an open Z record is `Model.buildOpenPath` on its x, y points -/
theorem buildOpenPathZ_erase (rev : Bool) (pts : List PtZ) : (buildOpenPathZ rev false pts).map (·.map xy) = buildOpenPath rev (pts.map xy) := by
  unfold buildOpenPathZ buildOpenPath
  cases pts with
  | nil => rfl
  | cons a t =>
    cases t with
    | nil => rfl
    | cons b t' =>
      simp only [Bool.false_and, Bool.false_eq_true, if_false, List.map_cons, Option.map_some, dedupZ_map]
      cases rev <;> simp [List.map_reverse]

end Clipper.Model
