/-
Helper definitions and lemmas shared by the bridge files `Props/Bridges/*.lean` (bridges between the definitions
`tools/cpp2lean.py` generates from the C++ source and the hand models): the log type of generated skeletons, pointer
identities for a list-shaped AEL, the logged index of a `Location`.  Core Lean only.
-/
import ClipperVerif.Spec.Enums
namespace Clipper.Lemmas.Bridges
open Clipper

/-- the log of a generated skeleton: untranslated calls `name(record arguments)` with their scalar arguments, and pointer
assignments `location := record` -/
abbrev Log := List (String × List Int)

theorem ite_ne_bne (x y : Int) : (if decide (x ≠ y) = true then true else false) = (x != y) := by
  by_cases h : x = y <;> simp [h]

/-! ## the AEL as a list of keys (`Model/IntersectList.lean`) -/

/-- `(a) == (b)` on two C++ `bool`s (compared as `int`s) -/
theorem bool_int_eq (a b : Prop) [Decidable a] [Decidable b] :
    decide ((if a then (1 : Int) else 0) = (if b then (1 : Int) else 0)) = (decide a == decide b) := by
  by_cases ha : a <;> by_cases hb : b <;> simp [ha, hb]

/-- identity of an optional AEL neighbour as the generated side sees a pointer: 0 = nullptr, key `k` = `k + 1` -/
def enc : Option Nat → Nat
  | none => 0
  | some k => k + 1

/-- `next_in_ael` of the edge with key `a` in the AEL `π` -/
def nextOf : List Nat → Nat → Option Nat
  | x :: y :: t, a => if x = a then some y else nextOf (y :: t) a
  | _, _ => none

/-- `prev_in_ael` of the edge with key `a` in the AEL `π` -/
def prevOf : List Nat → Nat → Option Nat
  | x :: y :: t, a => if y = a then some x else prevOf (y :: t) a
  | _, _ => none

theorem nextOf_none_of_not_mem : ∀ (l : List Nat) (a : Nat), a ∉ l → nextOf l a = none
  | [], _, _ => rfl
  | [_], _, _ => rfl
  | x :: y :: t, a, h => by
    have hx : x ≠ a := fun e => h (by simp [e])
    have : a ∉ y :: t := fun m => h (List.mem_cons_of_mem _ m)
    simp [nextOf, hx, nextOf_none_of_not_mem (y :: t) a this]

theorem prevOf_none_of_not_mem : ∀ (l : List Nat) (a : Nat), a ∉ l → prevOf l a = none
  | [], _, _ => rfl
  | [_], _, _ => rfl
  | x :: y :: t, a, h => by
    have hy : y ≠ a := fun e => h (by simp [e])
    have : a ∉ y :: t := fun m => h (List.mem_cons_of_mem _ m)
    simp [prevOf, hy, prevOf_none_of_not_mem (y :: t) a this]

/-- the index `static_cast<size_t>(loc)` as the generated skeleton logs it -/
def locIdx (l : Location) : Int := Gen.ofU64 (Gen.toU64 (Gen.enumToInt l))

end Clipper.Lemmas.Bridges
