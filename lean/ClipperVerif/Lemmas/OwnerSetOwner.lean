/-
`SetOwner`: frame and preservation of acyclicity.
-/
import ClipperVerif.Lemmas.OwnerAcyclic
namespace Clipper.Model.Owner
open Clipper

/-- tables that differ at most in the `owner` field of record `k` -/
def SameBut (k : Nat) (T T' : Table) : Prop :=
  T'.size = T.size ∧ (∀ j : Nat, j ≠ k → T'[j]? = T[j]?)

theorem SameBut.refl (k : Nat) (T : Table) : SameBut k T T := ⟨rfl, fun _ _ => rfl⟩
theorem SameBut.trans {k : Nat} {A B C : Table} (h1 : SameBut k A B) (h2 : SameBut k B C) : SameBut k A C :=
  ⟨h2.1.trans h1.1, fun j hj => (h2.2 j hj).trans (h1.2 j hj)⟩
theorem SameBut.modify (k : Nat) (T : Table) (g : OutRec → OutRec) : SameBut k T (T.modify k g) :=
  ⟨Array.size_modify, fun j hj => by rw [Array.getElem?_modify, if_neg (fun e => hj e.symm)]⟩

theorem skipDeadOwners_spec {f no : Nat} : ∀ {T T1 : Table}, skipDeadOwners T f no = some T1 →
    SameBut no T T1 ∧ (Acyclic T → Acyclic T1) := by
  induction f with
  | zero => intro T T1 h; simp [skipDeadOwners] at h
  | succ f ih =>
    intro T T1 h
    simp only [skipDeadOwners] at h
    split at h
    · simp at h
    · rename_i r hr
      split at h
      · simp only [Option.some.injEq] at h; subst h; exact ⟨SameBut.refl _ _, id⟩
      · rename_i o ho
        split at h
        · simp at h
        · rename_i orc horc
          split at h
          · simp only [Option.some.injEq] at h; subst h; exact ⟨SameBut.refl _ _, id⟩
          · obtain ⟨s, a⟩ := ih h
            exact ⟨(SameBut.modify _ _ _).trans s, fun hA => a (hA.skip_owner hr ho horc)⟩

/-- an owner path of `T.modify k …` either is an owner path of `T` or reaches `k` in `T` -/
theorem Reach.of_modify {T : Table} {k : Nat} {g : OutRec → OutRec} {a b : Nat}
    (h : Reach (T.modify k g) a b) : Reach T a b ∨ Reach T a k := by
  induction h with
  | refl => exact Or.inl (Reach.refl _)
  | @step j' k' o' r' hj ho _ ih =>
    by_cases hjk : j' = k
    · subst hjk; exact Or.inr (Reach.refl _)
    · obtain ⟨r, hr, e⟩ := getElem?_modify_some hj
      rw [if_neg (fun e => hjk e.symm)] at e
      subst e
      rcases ih with h | h
      · exact Or.inl (Reach.step hr ho h)
      · exact Or.inr (Reach.step hr ho h)

theorem setOwner_spec' {T T' : Table} {fuel i no : Nat} (h : setOwner T fuel i no = some T') :
    T'.size = T.size ∧ (∃ r : OutRec, T'[i]? = some r ∧ r.owner = some no) ∧
    (∀ j : Nat, j ≠ i → j ≠ no → T'[j]? = T[j]?) ∧ (Acyclic T → i ≠ no → Acyclic T') := by
  unfold setOwner at h
  split at h
  · simp at h
  · rename_i T1 hsk
    obtain ⟨hsb, hac⟩ := skipDeadOwners_spec hsk
    split at h
    · simp at h
    · rename_i valid hv
      split at h
      · simp at h
      · rename_i r hr
        simp only [Option.some.injEq] at h
        subst h
        have hlt := getElem?_lt' hr
        refine ⟨?_, ?_, ?_, ?_⟩
        · rw [Array.size_modify]; split
          · exact hsb.1
          · rw [Array.size_modify]; exact hsb.1
        · rw [Array.getElem?_modify]
          simp only [if_true]
          split
          · rw [hr]; exact ⟨_, rfl, rfl⟩
          · rw [Array.getElem?_modify]
            split
            · rw [hr]; exact ⟨_, rfl, rfl⟩
            · rw [hr]; exact ⟨_, rfl, rfl⟩
        · intro j hji hjno
          rw [Array.getElem?_modify, if_neg (fun e => hji e.symm)]
          split
          · exact hsb.2 j hjno
          · rw [Array.getElem?_modify, if_neg (fun e => hjno e.symm)]; exact hsb.2 j hjno
        · intro hA hne
          have hA1 := hac hA
          cases valid with
          | true =>
            simp only [if_true]
            exact hA1.set_valid (isValidOwner_true hv no rfl)
          | false =>
            simp only [Bool.false_eq_true, if_false]
            obtain ⟨t, ht, hreach⟩ := isValidOwner_false hv
            simp only [Option.some.injEq] at ht
            subst ht
            -- `no` reaches `i` in T1 by at least one step
            have hP : ReachP T1 no i := by
              rcases hreach.cases_head with e | hp
              · exact absurd e.symm hne
              · exact hp
            have hA2 : Acyclic (T1.modify no (fun x => { x with owner := r.owner })) := by
              refine hA1.of_edges (fun j r' o hj ho => ?_)
              obtain ⟨r0, hr0, e⟩ := getElem?_modify_some hj
              by_cases htj : no = j
              · subst htj
                rw [if_pos rfl] at e
                subst e
                simp only at ho
                exact hP.trans_reach (Reach.step hr ho (Reach.refl _))
              · rw [if_neg htj] at e
                subst e
                exact ⟨_, o, hr0, ho, Reach.refl _⟩
            refine hA2.set_valid (fun hbad => ?_)
            -- a path t →* i in T2 gives a cycle in T1
            rcases hbad.cases_head with e | ⟨r2, o2, hr2, ho2, hre2⟩
            · exact hne e.symm
            · obtain ⟨r0, hr0, e⟩ := getElem?_modify_some hr2
              rw [if_pos rfl] at e
              subst e
              simp only at ho2
              -- r.owner = some o2, so i → o2 in T1, and o2 →* i or o2 →* t in T1
              have hio2 : ReachP T1 i o2 := ⟨r, o2, hr, ho2, Reach.refl _⟩
              rcases hre2.of_modify with h' | h'
              · exact hA1.not_reachP_self i (hio2.trans_reach h')
              · exact hA1.not_reachP_self i ((hio2.trans_reach h').trans_reach hP.reach)

end Clipper.Model.Owner
