/-
`ProcessHorzJoins`, two-ring branch, on a well-formed heap: the result is well formed (the merged ring is owned by `or1`; the
`OutPt`s that resolved to `or2` now resolve to `or1` through the emptied `or2`).  Helper file of `Props/C02Horz.lean`.  Core Lean only.
-/
import ClipperVerif.Lemmas.HorzJoinsReal
import ClipperVerif.Lemmas.HorzJoinsWF
namespace Clipper.Model.HorzJoins
open Clipper

/-- record `o` resolves to the live record `r` -/
def Res (H : Heap) (o r : Nat) : Prop := ∃ l, DeadChain H o l r

theorem res_iff {H : Heap} {o r : Nat} : realOf H o = .ok (some r) ↔ Res H o r := realOf_iff_chain

theorem Res.det {H : Heap} {o r r' : Nat} (h : Res H o r) (h' : Res H o r') : r = r' := by
  obtain ⟨l, hl⟩ := h; obtain ⟨l', hl'⟩ := h'; exact (hl.det hl').2

theorem Res.live {H : Heap} {o r : Nat} (h : Res H o r) : ∃ rc, H.recs[r]? = some rc ∧ rc.pts.isSome = true := by
  obtain ⟨l, hl⟩ := h; exact hl.elems.2

theorem res_self {H : Heap} {k : Nat} {rc : ORec} (h : H.recs[k]? = some rc) (hp : rc.pts.isSome = true) : Res H k k :=
  ⟨[], .live h hp⟩

/-- the view of `GetRealOutRec` read off the table of `Model/Owner.lean` -/
theorem recView_toTable (H : Heap) (k : Nat) :
    recView H k = ((toTable H)[k]?).map (fun r => (r.hasPts, if r.hasPts then none else r.owner)) := by
  rw [toTable_get]; unfold recView; cases H.recs[k]? <;> simp [toOwnerRec]

/-- resolution survives writes to records that are live before and after, and to records outside the table -/
theorem Res.congr {H H' : Heap} {o r : Nat} (h : Res H o r) (hv : ∀ d, recView H d ≠ none → (∃ rc, H.recs[d]? = some rc ∧ rc.pts.isSome = false) ∨ d = r →
    recView H' d = recView H d) : Res H' o r := by
  obtain ⟨l, hl⟩ := h
  refine ⟨l, hl.congr ?_⟩
  intro d hd
  have hne : recView H d ≠ none := by
    rcases hd with hd | rfl
    · obtain ⟨rc, hrc, _⟩ := hl.elems.1 d hd; simp [recView, hrc]
    · obtain ⟨rc, hrc, _⟩ := hl.elems.2; simp [recView, hrc]
  apply hv d hne
  rcases hd with hd | rfl
  · exact Or.inl (hl.elems.1 d hd)
  · exact Or.inr rfl

/-- `outrec->pts` of record `k` (outer `none`: no such record) -/
def recPts (H : Heap) (k : Nat) : Option (Option Nat) := (H.recs[k]?).map (fun (r : ORec) => r.pts)

/-- what the two-ring branch does to the record table, as far as `GetRealOutRec` can see: `or2` is emptied and handed to `or1`,
`or1` keeps its `pts`, nothing else changes; no `OutPt` is written -/
theorem mergeBranch_view {tree : Bool} {H H' : Heap} {r1 r2 : Nat} (hne : r1 ≠ r2)
    {rc1 : ORec} (h1 : H.recs[r1]? = some rc1)
    (h : mergeBranch tree H (some r1) (some r2) = .ok H') :
    H'.ops = H.ops ∧ H'.recs.size = H.recs.size ∧
    (∀ k, k ≠ r1 → k ≠ r2 → recView H' k = recView H k ∧ recPts H' k = recPts H k) ∧
    recView H' r2 = some (false, some r1) ∧ (∃ rc', H'.recs[r1]? = some rc' ∧ rc'.pts = rc1.pts) := by
  unfold mergeBranch at h
  simp only [bind_ok] at h
  obtain ⟨H1, e1, h⟩ := h
  obtain ⟨hi2, o1, z1, g1⟩ := updRec_ok e1
  have hr2 : H.recs[r2]? = some H.recs[r2] := by simp [hi2]
  cases tree with
  | false =>
    simp only [Bool.false_eq_true, if_false] at h
    obtain ⟨_, o2, z2, g2⟩ := updRec_ok h
    refine ⟨o2.trans o1, z2.trans z1, ?_, ?_, ?_⟩
    · intro k hk1 hk2
      have : H'.recs[k]? = H.recs[k]? := by rw [g2 k, if_neg hk2, g1 k, if_neg hk2]
      unfold recView recPts; rw [this]; exact ⟨rfl, rfl⟩
    · unfold recView
      rw [g2 r2, if_pos rfl, g1 r2, if_pos rfl, hr2]; rfl
    · exact ⟨rc1, by rw [g2 r1, if_neg hne, g1 r1, if_neg hne, h1], rfl⟩
  | true =>
    simp only [if_true, bind_ok] at h
    obtain ⟨H2, e2, e3⟩ := h
    have oo := setOwner_onlyOwners e2
    have v2 := setOwner_view e2
    obtain ⟨zt, ⟨ri, hri, hown⟩, hsame, _⟩ := Owner.setOwner_spec' v2
    obtain ⟨_, _, _, o3, z3, fr⟩ := moveSplits_spec (Ne.symm hne) e3
    -- recView through MoveSplits
    have hv3 : ∀ k, recView H' k = recView H2 k := by
      intro k
      have := fr k
      unfold recView
      cases a : H'.recs[k]? <;> cases b : H2.recs[k]? <;> simp [a, b] at this ⊢
      obtain ⟨x, y, _, _⟩ := this
      rw [x, y]; exact ⟨rfl, rfl⟩
    have hp3 : ∀ k, recPts H' k = recPts H2 k := by
      intro k
      have := fr k
      unfold recPts
      cases a : H'.recs[k]? <;> cases b : H2.recs[k]? <;> simp [a, b] at this ⊢
      exact this.1
    have hp2 : ∀ k, recPts H2 k = recPts H1 k := by
      intro k
      have := oo.2 k
      unfold recPts
      cases a : H2.recs[k]? <;> cases b : H1.recs[k]? <;> simp [a, b] at this ⊢
      exact this.1
    refine ⟨(o3.trans (setOwner_ops e2)).trans o1, (z3.trans oo.1).trans z1, ?_, ?_, ?_⟩
    · intro k hk1 hk2
      constructor
      · rw [hv3 k, recView_toTable, hsame k hk2 hk1, ← recView_toTable]
        unfold recView; rw [g1 k, if_neg hk2]
      · rw [hp3 k, hp2 k]; unfold recPts; rw [g1 k, if_neg hk2]
    · rw [hv3 r2, recView_toTable, hri]
      have hpts : ri.hasPts = false := by
        have := hp2 r2
        unfold recPts at this
        rw [g1 r2, if_pos rfl, hr2] at this
        rw [toTable_get] at hri
        cases b : H2.recs[r2]? with
        | none => rw [b] at hri; simp at hri
        | some rc2 =>
          rw [b] at hri this
          simp only [Option.map_some, Option.some.injEq] at hri this
          rw [← hri]; simp [toOwnerRec, this]
      simp [hpts, hown]
    · have := (hp3 r1).trans (hp2 r1)
      unfold recPts at this
      rw [g1 r1, if_neg hne, h1] at this
      cases a : H'.recs[r1]? with
      | none => rw [a] at this; simp at this
      | some rc' => rw [a] at this; simp at this; exact ⟨rc', rfl, this⟩

theorem recView_of_recs {H H' : Heap} (h : H'.recs = H.recs) (k : Nat) : recView H' k = recView H k := by
  unfold recView; rw [h]

theorem orecOf_of_ops {H H' : Heap} (h : H'.ops = H.ops) : orecOf H' = orecOf H := by
  unfold orecOf; rw [h]

/-- the records of two different rings of a well-formed heap are different -/
theorem RecsOK.rec_ne {H : Heap} {rs : List (List Nat)} (K : RecsOK H rs) {c1 c2 : List Nat}
    (hdis : ∀ a ∈ c1, a ∉ c2) {r1 r2 p1 p2 : Nat}
    (h1 : (H.recs[r1]?).bind (·.pts) = some p1) (hp1 : p1 ∈ c1) (h2 : (H.recs[r2]?).bind (·.pts) = some p2) (hp2 : p2 ∈ c2) : r1 ≠ r2 := by
  intro e; subst e
  rw [h1] at h2; cases h2
  exact hdis _ hp1 hp2

/-- **the two-ring branch keeps a heap well formed**: the merged ring is owned by `or1` -/
theorem processJoin_merge_wf {inside : List Pt → List Pt → Bool} {tree : Bool} {H H' : Heap} {j : HorzJoin}
    {X Y : List Nat} {rest : List (List Nat)} (R : Rings H ((j.op1 :: X) :: (j.op2 :: Y) :: rest))
    (K : RecsOK H ((j.op1 :: X) :: (j.op2 :: Y) :: rest)) (h : processJoin inside tree H j = .ok H') :
    RecsOK H' ((j.op1 :: j.op2 :: (Y ++ X)) :: rest) := by
  have hc1 : (j.op1 :: X) ∈ (j.op1 :: X) :: (j.op2 :: Y) :: rest := by simp
  have hc2 : (j.op2 :: Y) ∈ (j.op1 :: X) :: (j.op2 :: Y) :: rest := by simp
  obtain ⟨r1, p1, hp1, hp1c, hall1⟩ := K.ring_rec _ hc1
  obtain ⟨r2, p2, hp2, hp2c, hall2⟩ := K.ring_rec _ hc2
  have hnd := R.nodup
  have hdis : ∀ a ∈ j.op1 :: X, a ∉ j.op2 :: Y := by
    simp only [List.flatten_cons] at hnd
    intro a ha hb
    grind [List.nodup_append]
  have hne : r1 ≠ r2 := K.rec_ne hdis hp1 hp1c hp2 hp2c
  -- the computation
  unfold processJoin at h
  simp only [bind_ok] at h
  obtain ⟨n1, hn1, or1, hr1, n2, hn2, or2, hr2, ⟨Hs, b1, b2⟩, hs, h⟩ := h
  have e1 := hall1 j.op1 (by simp) n1.orec (orecOf_some.2 ⟨n1, node_ok.1 hn1, rfl⟩)
  have e2 := hall2 j.op2 (by simp) n2.orec (orecOf_some.2 ⟨n2, node_ok.1 hn2, rfl⟩)
  rw [e1] at hr1; rw [e2] at hr2
  simp only [Except.ok.injEq] at hr1 hr2
  subst hr1; subst hr2
  simp only at h
  rw [if_neg (by simp [hne])] at h
  obtain ⟨_, _, _, _, eos, _, ers, _⟩ := splice_ok_eqs hs
  obtain ⟨rc1, hrc1, hrc1p⟩ : ∃ rc1, H.recs[r1]? = some rc1 ∧ rc1.pts = some p1 := by
    cases a : H.recs[r1]? with
    | none => simp [a] at hp1
    | some rc => simp [a] at hp1; exact ⟨rc, rfl, hp1⟩
  obtain ⟨eops, _, hk, hr2v, rc1', hrc1', hrc1p'⟩ := mergeBranch_view hne (by rw [ers]; exact hrc1) h
  have eo : orecOf H' = orecOf H := (orecOf_of_ops eops).trans eos
  have hv : ∀ k, recView Hs k = recView H k := recView_of_recs ers
  have hlive1 : recView H' r1 = some (true, none) := recView_live hrc1' (by rw [hrc1p', hrc1p]; rfl)
  -- resolution transfers
  have keep : ∀ o r, r ≠ r2 → Res H o r → Res H' o r := by
    intro o r hr hres
    apply hres.congr
    intro d hdne hd
    rcases hd with ⟨rc, hrc, hdead⟩ | rfl
    · -- a dead record of H is neither r1 nor r2
      have hd1 : d ≠ r1 := by
        intro e; subst e
        rw [hrc1] at hrc; cases hrc; rw [hrc1p] at hdead; cases hdead
      have hd2 : d ≠ r2 := by
        intro e; subst e
        cases a : H.recs[d]? with
        | none => simp [a] at hp2
        | some rcx => rw [a] at hrc; cases hrc; simp [a] at hp2; rw [hp2] at hdead; cases hdead
      rw [(hk d hd1 hd2).1, hv]
    · by_cases hd1 : d = r1
      · subst hd1; rw [hlive1, recView_live hrc1 (by rw [hrc1p]; rfl)]
      · rw [(hk d hd1 hr).1, hv]
  have move : ∀ o, Res H o r2 → Res H' o r1 := by
    rintro o ⟨l, hl⟩
    refine ⟨l ++ [r2], hl.extend ?_ hr2v hlive1⟩
    intro d hd
    obtain ⟨rc, hrc, hdead⟩ := hl.elems.1 d hd
    have hd1 : d ≠ r1 := by
      intro e; subst e
      rw [hrc1] at hrc; cases hrc; rw [hrc1p] at hdead; cases hdead
    have hd2 : d ≠ r2 := by
      intro e; subst e
      cases a : H.recs[d]? with
      | none => simp [a] at hp2
      | some rcx => rw [a] at hrc; cases hrc; simp [a] at hp2; rw [hp2] at hdead; cases hdead
    rw [(hk d hd1 hd2).1, hv]
  constructor
  · intro c hc
    rcases List.mem_cons.1 hc with rfl | hc
    · refine ⟨r1, p1, by rw [hrc1']; simp [hrc1p', hrc1p], by
        have : p1 = j.op1 ∨ p1 ∈ X := by simpa using hp1c
        grind, ?_⟩
      intro i hi o hio
      rw [eo] at hio
      rw [res_iff]
      have hi' : i ∈ j.op1 :: X ∨ i ∈ j.op2 :: Y := by
        have : i = j.op1 ∨ i = j.op2 ∨ i ∈ Y ∨ i ∈ X := by simpa using hi
        simp only [List.mem_cons]; grind
      rcases hi' with hi' | hi'
      · exact keep o r1 hne (res_iff.1 (hall1 i hi' o hio))
      · exact move o (res_iff.1 (hall2 i hi' o hio))
    · obtain ⟨r, p, hp, hpc, hall⟩ := K.ring_rec c (List.mem_cons_of_mem _ (List.mem_cons_of_mem _ hc))
      have hdis1 : ∀ a ∈ c, a ∉ j.op1 :: X := by
        intro a ha hb
        have : a ∈ rest.flatten := List.mem_flatten.2 ⟨c, hc, ha⟩
        simp only [List.flatten_cons] at hnd
        grind [List.nodup_append]
      have hdis2 : ∀ a ∈ c, a ∉ j.op2 :: Y := by
        intro a ha hb
        have : a ∈ rest.flatten := List.mem_flatten.2 ⟨c, hc, ha⟩
        simp only [List.flatten_cons] at hnd
        grind [List.nodup_append]
      have hr1' : r ≠ r1 := K.rec_ne hdis1 hp hpc hp1 hp1c
      have hr2' : r ≠ r2 := K.rec_ne hdis2 hp hpc hp2 hp2c
      refine ⟨r, p, ?_, hpc, ?_⟩
      · have := (hk r hr1' hr2').2
        unfold recPts at this
        rw [ers] at this
        cases a : H'.recs[r]? <;> cases b : H.recs[r]? <;> simp [a, b] at this hp ⊢
        rw [this]; exact hp
      · intro i hi o hio
        rw [eo] at hio
        rw [res_iff]
        exact keep o r hr2' (res_iff.1 (hall i hi o hio))
  · intro r rc p hrc hp
    -- a live record of H' is not r2
    have hr2' : r ≠ r2 := by
      intro e; subst e
      obtain ⟨rc', hrc', hd, _⟩ := of_recView_dead hr2v
      rw [hrc] at hrc'; cases hrc'; rw [hp] at hd; cases hd
    have hold : ∃ rc0, H.recs[r]? = some rc0 ∧ rc0.pts = some p := by
      by_cases hr1' : r = r1
      · subst hr1'
        rw [hrc1'] at hrc; cases hrc
        exact ⟨rc1, hrc1, by rw [← hrc1p', hp]⟩
      · have := (hk r hr1' hr2').2
        unfold recPts at this
        rw [ers, hrc] at this
        cases b : H.recs[r]? with
        | none => simp [b] at this
        | some rc0 => simp [b] at this; exact ⟨rc0, rfl, by rw [← this, hp]⟩
    obtain ⟨rc0, hrc0, hp0⟩ := hold
    obtain ⟨o, ho, hre⟩ := K.rec_ring r rc0 p hrc0 hp0
    exact ⟨o, by rw [eo]; exact ho, res_iff.2 (keep o r hr2' (res_iff.1 hre))⟩

end Clipper.Model.HorzJoins
