/-
The ring surgery of `ProcessHorzJoins` on a heap of rings: the four pointer writes (`splice`) split a ring in two or merge two
rings into one; no point moves; rectilinear rings stay rectilinear when the join is flat.  Also: rectilinearity under `DuplicateOp`.
Helper file of `Props/C02Horz.lean`.  Core Lean only.
-/
import ClipperVerif.Lemmas.HorzJoins
namespace Clipper.Model.HorzJoins
open Clipper

/-! ## reordering the list of rings -/

theorem Rings.perm' {H : Heap} {rs rs' : List (List Nat)} (R : Rings H rs) (h : rs.Perm rs') : Rings H rs' :=
  ⟨fun c hc => R.ring c (h.mem_iff.2 hc), (h.symm.flatten).trans R.perm⟩

/-- the first ring may be listed from any of its nodes -/
theorem Rings.rot_head {H : Heap} {a b : List Nat} {rest : List (List Nat)} (R : Rings H ((a ++ b) :: rest)) :
    Rings H ((b ++ a) :: rest) := by
  refine ⟨?_, ?_⟩
  · intro c hc
    rcases List.mem_cons.1 hc with rfl | hc
    · exact isRingF_rot a b (R.ring _ (by simp))
    · exact R.ring c (List.mem_cons_of_mem _ hc)
  · have : ((b ++ a) :: rest).flatten.Perm ((a ++ b) :: rest).flatten := by
      simp only [List.flatten_cons]
      exact List.Perm.append_right _ List.perm_append_comm
    exact this.trans R.perm

/-- bring the ring containing `x` to the front, listed from `x` -/
theorem Rings.focus {H : Heap} {rs : List (List Nat)} (R : Rings H rs) {x : Nat} (hx : x < H.ops.size) :
    ∃ t rest, Rings H ((x :: t) :: rest) ∧ (∃ c ∈ rs, c.Perm (x :: t)) ∧ rs.length = rest.length + 1 := by
  obtain ⟨c, hc, hxc⟩ := R.exists_ring hx
  obtain ⟨A, B, rfl⟩ := List.append_of_mem hc
  obtain ⟨pre, post, rfl⟩ := List.append_of_mem hxc
  have h1 : Rings H ((pre ++ x :: post) :: (A ++ B)) := R.perm' List.perm_middle
  have h2 := h1.rot_head
  refine ⟨post ++ pre, A ++ B, by simpa using h2, ⟨_, hc, by simpa using (List.perm_append_comm : (pre ++ x :: post).Perm _)⟩, by simp; omega⟩

/-! ## `splice` -/

/-- the effect of the four writes on the link structure -/
theorem splice_eqs {H : Heap} {j : HorzJoin} {n1 n2 : Node} (h1 : H.ops[j.op1]? = some n1) (h2 : H.ops[j.op2]? = some n2)
    (hb1 : n1.next < H.ops.size) (hb2 : n2.prev < H.ops.size) :
    ∃ H', splice H j = .ok (H', n1.next, n2.prev) ∧
      nextOf H' = upd (upd (nextOf H) j.op1 j.op2) n2.prev n1.next ∧
      prevOf H' = upd (upd (prevOf H) j.op2 j.op1) n1.next n2.prev ∧
      orecOf H' = orecOf H ∧ ptOf H' = ptOf H ∧ H'.recs = H.recs ∧ H'.ops.size = H.ops.size := by
  have l1 := lt_of_node h1
  have l2 := lt_of_node h2
  obtain ⟨H1, e1⟩ := updNode_of_lt H (fun x => { x with next := j.op2 }) l1
  obtain ⟨a1, a2, a3, a4, a5, a6⟩ := upd_next_eqs e1
  obtain ⟨H2, e2⟩ := updNode_of_lt H1 (fun x => { x with prev := j.op1 }) (i := j.op2) (by omega)
  obtain ⟨b1, b2, b3, b4, b5, b6⟩ := upd_prev_eqs e2
  obtain ⟨H3, e3⟩ := updNode_of_lt H2 (fun x => { x with prev := n2.prev }) (i := n1.next) (by omega)
  obtain ⟨c1, c2, c3, c4, c5, c6⟩ := upd_prev_eqs e3
  obtain ⟨H4, e4⟩ := updNode_of_lt H3 (fun x => { x with next := n1.next }) (i := n2.prev) (by omega)
  obtain ⟨d1, d2, d3, d4, d5, d6⟩ := upd_next_eqs e4
  refine ⟨H4, ?_, ?_, ?_, ?_, ?_, ?_, ?_⟩
  · unfold splice
    simp only [node_ok.2 h1, node_ok.2 h2, bind, Except.bind, e1, e2, e3, e4, pure, Except.pure]
  · rw [d1, c1, b1, a1]
  · rw [d2, c2, b2, a2]
  · rw [d3, c3, b3, a3]
  · rw [d4, c4, b4, a4]
  · rw [d5, c5, b5, a5]
  · rw [d6, c6, b6, a6]

/-- rings not containing any of the written nodes stay rings -/
theorem rings_rest_frame {H H' : Heap} {rest : List (List Nat)} {touched : List Nat}
    (hold : ∀ c ∈ rest, IsRingF (nextOf H) (prevOf H) c)
    (hdis : ∀ c ∈ rest, ∀ a ∈ c, a ∉ touched)
    (hn : ∀ a, a ∉ touched → nextOf H' a = nextOf H a) (hp : ∀ a, a ∉ touched → prevOf H' a = prevOf H a) :
    ∀ c ∈ rest, IsRingF (nextOf H') (prevOf H') c := fun c hc =>
  isRingF_congr (hold c hc) (fun a ha => hn a (hdis c hc a ha)) (fun a ha => hp a (hdis c hc a ha))

theorem rings_head_disjoint {c : List Nat} {rest : List (List Nat)} (hnd : (c :: rest).flatten.Nodup) :
    ∀ c' ∈ rest, ∀ a ∈ c', a ∉ c := by
  intro c' hc' a ha
  have : a ∈ rest.flatten := List.mem_flatten.2 ⟨c', hc', ha⟩
  simp only [List.flatten_cons] at hnd
  grind [List.nodup_append]

/-- **split**: both join ops on the ring `op1 :: X ++ op2 :: Y`, `X ≠ []` (i.e. `op1->next != op2`).
The surgery succeeds, `op1b`/`op2b` are the first and last node of `X`, and the ring falls into `op1 :: op2 :: Y` and `X`;
all other rings, all points and all `outrec` fields are unchanged. -/
theorem splice_rings_same {H : Heap} {j : HorzJoin} {X Y : List Nat} {x0 xl : Nat} {rest : List (List Nat)}
    (R : Rings H ((j.op1 :: X ++ j.op2 :: Y) :: rest)) (hx0 : X.head? = some x0) (hxl : X.getLast? = some xl) :
    ∃ H', splice H j = .ok (H', x0, xl) ∧ Rings H' ((j.op1 :: j.op2 :: Y) :: X :: rest) ∧
      orecOf H' = orecOf H ∧ ptOf H' = ptOf H ∧ H'.recs = H.recs ∧ H'.ops.size = H.ops.size := by
  have hc : (j.op1 :: X ++ j.op2 :: Y) ∈ (j.op1 :: X ++ j.op2 :: Y) :: rest := by simp
  have hring := R.ring _ hc
  have m1 : j.op1 ∈ j.op1 :: X ++ j.op2 :: Y := by simp
  have m2 : j.op2 ∈ j.op1 :: X ++ j.op2 :: Y := by simp
  have m0 : x0 ∈ j.op1 :: X ++ j.op2 :: Y := by have := mem_of_head? hx0; simp [this]
  have ml : xl ∈ j.op1 :: X ++ j.op2 :: Y := by have := mem_of_getLast? hxl; simp [this]
  obtain ⟨n1, hn1⟩ := node_of_lt (R.mem_lt hc m1)
  obtain ⟨n2, hn2⟩ := node_of_lt (R.mem_lt hc m2)
  -- op1->next = x0, op2->prev = xl
  have hch : ChainF (nextOf H) (prevOf H) ((j.op1 :: X) ++ j.op2 :: (Y ++ [j.op1])) := by
    have := hring.2; simpa using this
  rw [chainF_append] at hch
  have hcX : ChainF (nextOf H) (prevOf H) (j.op1 :: (X ++ [j.op2])) := by simpa using hch.1
  have hX1 : (X ++ [j.op2]).head? = some x0 := by cases X <;> simp_all
  rw [chainF_cons_head hX1] at hcX
  have hl2 : LinkF (nextOf H) (prevOf H) xl j.op2 := ((chainF_snoc_last hxl).1 hcX.2).2
  have e1 : n1.next = x0 := by
    obtain ⟨n', hn', e⟩ := nextOf_some.1 hcX.1.1
    rw [hn1] at hn'; cases hn'; exact e
  have e2 : n2.prev = xl := by
    obtain ⟨n', hn', e⟩ := prevOf_some.1 hl2.2
    rw [hn2] at hn'; cases hn'; exact e
  obtain ⟨H', hs, en, ep, eo, ept, er, es⟩ := splice_eqs hn1 hn2 (by rw [e1]; exact R.mem_lt hc m0) (by rw [e2]; exact R.mem_lt hc ml)
  rw [e1, e2] at hs en ep
  refine ⟨H', hs, ⟨?_, ?_⟩, eo, ept, er, es⟩
  · have hsp := splice_same hring hx0 hxl
    rw [← en, ← ep] at hsp
    intro c' hc'
    rcases List.mem_cons.1 hc' with rfl | hc'
    · exact hsp.1
    rcases List.mem_cons.1 hc' with rfl | hc'
    · exact hsp.2
    · apply rings_rest_frame (touched := j.op1 :: X ++ j.op2 :: Y) (fun c h => R.ring c (List.mem_cons_of_mem _ h))
        (rings_head_disjoint R.nodup) _ _ c' hc'
      · intro a ha
        have h1 : a ≠ xl := fun e => ha (e ▸ ml)
        have h2 : a ≠ j.op1 := fun e => ha (e ▸ m1)
        rw [en, upd_ne _ _ h1, upd_ne _ _ h2]
      · intro a ha
        have h1 : a ≠ x0 := fun e => ha (e ▸ m0)
        have h2 : a ≠ j.op2 := fun e => ha (e ▸ m2)
        rw [ep, upd_ne _ _ h1, upd_ne _ _ h2]
  · rw [es]
    refine List.Perm.trans ?_ R.perm
    simp only [List.flatten_cons]
    rw [← List.append_assoc]
    apply List.Perm.append_right
    -- (op1 :: op2 :: Y) ++ X  ~  op1 :: X ++ op2 :: Y
    have : (j.op1 :: j.op2 :: Y) ++ X = j.op1 :: ((j.op2 :: Y) ++ X) := by simp
    rw [this]
    exact List.Perm.cons _ List.perm_append_comm

/-- **merge**: the join ops on two different rings `op1 :: X` and `op2 :: Y`.  The surgery succeeds and the two rings become
the one ring `op1 :: op2 :: Y ++ X`. -/
theorem splice_rings_diff {H : Heap} {j : HorzJoin} {X Y : List Nat} {rest : List (List Nat)}
    (R : Rings H ((j.op1 :: X) :: (j.op2 :: Y) :: rest)) :
    ∃ H' op1b op2b, splice H j = .ok (H', op1b, op2b) ∧ (X ++ [j.op1]).head? = some op1b ∧ (j.op2 :: Y).getLast? = some op2b ∧
      Rings H' ((j.op1 :: j.op2 :: (Y ++ X)) :: rest) ∧
      orecOf H' = orecOf H ∧ ptOf H' = ptOf H ∧ H'.recs = H.recs ∧ H'.ops.size = H.ops.size := by
  have hc1 : (j.op1 :: X) ∈ (j.op1 :: X) :: (j.op2 :: Y) :: rest := by simp
  have hc2 : (j.op2 :: Y) ∈ (j.op1 :: X) :: (j.op2 :: Y) :: rest := by simp
  have hr1 := R.ring _ hc1
  have hr2 := R.ring _ hc2
  obtain ⟨x0, hx0⟩ : ∃ x0, (X ++ [j.op1]).head? = some x0 := by
    cases h : X ++ [j.op1] with
    | nil => simp at h
    | cons a t => exact ⟨a, rfl⟩
  obtain ⟨yl, hyl⟩ : ∃ yl, (j.op2 :: Y).getLast? = some yl := by
    rw [List.getLast?_eq_some_getLast (by simp)]; exact ⟨_, rfl⟩
  have m0 : x0 ∈ j.op1 :: X := by
    have := mem_of_head? hx0
    have : x0 ∈ X ∨ x0 = j.op1 := by simpa using this
    grind
  have ml : yl ∈ j.op2 :: Y := mem_of_getLast? hyl
  obtain ⟨n1, hn1⟩ := node_of_lt (R.mem_lt hc1 (by simp : j.op1 ∈ j.op1 :: X))
  obtain ⟨n2, hn2⟩ := node_of_lt (R.mem_lt hc2 (by simp : j.op2 ∈ j.op2 :: Y))
  have hl1 : LinkF (nextOf H) (prevOf H) j.op1 x0 := by
    have := hr1.2
    rw [List.cons_append, chainF_cons_head hx0] at this; exact this.1
  have hl2 : LinkF (nextOf H) (prevOf H) yl j.op2 := by
    have := hr2.2
    rw [chainF_snoc_last hyl] at this; exact this.2
  have e1 : n1.next = x0 := by
    obtain ⟨n', hn', e⟩ := nextOf_some.1 hl1.1
    rw [hn1] at hn'; cases hn'; exact e
  have e2 : n2.prev = yl := by
    obtain ⟨n', hn', e⟩ := prevOf_some.1 hl2.2
    rw [hn2] at hn'; cases hn'; exact e
  obtain ⟨H', hs, en, ep, eo, ept, er, es⟩ := splice_eqs hn1 hn2 (by rw [e1]; exact R.mem_lt hc1 m0) (by rw [e2]; exact R.mem_lt hc2 ml)
  rw [e1, e2] at hs en ep
  have hnd := R.nodup
  have hdis : ∀ a ∈ j.op1 :: X, ∀ b ∈ j.op2 :: Y, a ≠ b := by
    simp only [List.flatten_cons] at hnd
    intro a ha b hb
    grind [List.nodup_append]
  refine ⟨H', x0, yl, hs, hx0, hyl, ⟨?_, ?_⟩, eo, ept, er, es⟩
  · have hsp := splice_diff hr1 hr2 hdis hx0 hyl
    rw [← en, ← ep] at hsp
    intro c' hc'
    rcases List.mem_cons.1 hc' with rfl | hc'
    · exact hsp
    · have hdis' : ∀ c ∈ rest, ∀ a ∈ c, a ∉ (j.op1 :: X) ++ (j.op2 :: Y) := by
        intro c hc a ha
        have : a ∈ rest.flatten := List.mem_flatten.2 ⟨c, hc, ha⟩
        simp only [List.flatten_cons] at hnd
        grind [List.nodup_append]
      apply rings_rest_frame (touched := (j.op1 :: X) ++ (j.op2 :: Y))
        (fun c h => R.ring c (List.mem_cons_of_mem _ (List.mem_cons_of_mem _ h))) hdis' _ _ c' hc'
      · intro a ha
        have h1 : a ≠ yl := fun e => ha (e ▸ List.mem_append_right _ ml)
        have h2 : a ≠ j.op1 := fun e => ha (e ▸ by simp)
        rw [en, upd_ne _ _ h1, upd_ne _ _ h2]
      · intro a ha
        have h1 : a ≠ x0 := fun e => ha (e ▸ List.mem_append_left _ m0)
        have h2 : a ≠ j.op2 := fun e => ha (e ▸ by simp)
        rw [ep, upd_ne _ _ h1, upd_ne _ _ h2]
  · rw [es]
    refine List.Perm.trans ?_ R.perm
    simp only [List.flatten_cons]
    rw [← List.append_assoc]
    apply List.Perm.append_right
    have : j.op1 :: j.op2 :: (Y ++ X) = [j.op1] ++ ((j.op2 :: Y) ++ X) := by simp
    rw [this]
    have : (j.op1 :: X) ++ (j.op2 :: Y) = [j.op1] ++ (X ++ (j.op2 :: Y)) := by simp
    rw [this]
    exact List.Perm.append_left _ List.perm_append_comm

end Clipper.Model.HorzJoins
