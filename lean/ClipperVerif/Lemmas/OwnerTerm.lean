/-
Fuel sufficiency for `checkSplitOwner`, `ownerLoop`, `skipDeadOwners` (the inductions; measures in `OwnerFuel`).
-/
import ClipperVerif.Lemmas.OwnerFuel
namespace Clipper.Model.Owner
open Clipper

theorem ownC_true (T : Table) : OwnC (fun _ => True) T :=
  fun _ _ _ _ => ⟨fun _ _ => trivial, fun _ _ => trivial⟩

section
variable {clean : Nat → CleanRes} {inside : Nat → Nat → Bool} {rk : Nat → Nat} {R M : Nat} {i : Nat}

/-- a table update that keeps the termination invariant and does not increase the number of unmarked live outrecs -/
def Mono (clean : Nat → CleanRes) (rk : Nat → Nat) (R M i : Nat) (T T' : Table) : Prop :=
  T'.size = T.size ∧ (TermInv clean rk R M T → TermInv clean rk R M T') ∧ unmarked T' i ≤ unmarked T i

theorem Mono.refl (T : Table) : Mono clean rk R M i T T := ⟨rfl, id, Nat.le_refl _⟩

theorem Mono.trans {A B D : Table} (h1 : Mono clean rk R M i A B) (h2 : Mono clean rk R M i B D) :
    Mono clean rk R M i A D :=
  ⟨h2.1.trans h1.1, fun h => h2.2.1 (h1.2.1 h), Nat.le_trans h2.2.2 h1.2.2⟩

theorem mono_good_none {T T' : Table} (hg : Good clean none T T') (hm : MarkFrame i T T') :
    Mono clean rk R M i T T' :=
  ⟨hg.1.1, fun h => h.good_none hg, unmarked_mono hg.1 hm⟩

theorem mono_checkBounds {T T' : Table} {k : Nat} {b : Bool} (h : checkBounds clean T k = some (T', b)) :
    Mono clean rk R M i T T' :=
  mono_good_none (checkBounds_good h) (checkBounds_x (C := fun _ => True) (i := i) h (ownC_true T) trivial).1.2

theorem mono_mark (T : Table) (s' : Nat) :
    Mono clean rk R M i T (T.modify s' (fun x => { x with recursiveSplit := some i })) :=
  mono_good_none (Good.modify_static (fun _ _ => ⟨RecStep.of_eq rfl rfl rfl rfl rfl, rfl, rfl⟩))
    (xok_modify (C := fun _ => True) (i := i) (k := s') (g := fun x => { x with recursiveSplit := some i })
      (ownC_true T) trivial (fun _ _ => ⟨rfl, Or.inr rfl, fun _ _ => trivial⟩)).1.2

/-- any successful run of `CheckSplitOwner` -/
theorem mono_cso {f : Nat} {T T' : Table} {L : List Nat} {b : Bool}
    (h : checkSplitOwner clean inside f T i L = some (T', b)) : Mono clean rk R M i T T' := by
  have hs := checkSplitOwner_spec _ _ _ _ _ h
  have hm : MarkFrame i T T' :=
    (checkSplitOwner_x (C := fun _ => True) trivial _ _ _ _ _ h (ownC_true T) (fun _ _ => trivial)).1.2
  cases b with
  | false => exact mono_good_none (hs.1 rfl) hm
  | true =>
    obtain ⟨hg, ri, s, rs, hri, hris, hrs, _⟩ := hs.2 rfl
    refine ⟨hg.1.1, fun hT => hT.step hg.1 (hg.2 hT.acyc) (hT.own.of_step hg.1 (fun j r o e hj ho => ?_)),
      unmarked_mono hg.1 hm⟩
    simp only [Option.some.injEq] at e
    subst e
    rw [hri] at hj
    simp only [Option.some.injEq] at hj
    subst hj
    rw [hris] at ho
    simp only [Option.some.injEq] at ho
    subst ho
    exact getElem?_lt hrs

theorem checkBounds_ne_none {T : Table} {k : Nat} (hk : k < T.size) : checkBounds clean T k ≠ none := by
  unfold checkBounds
  rw [getElem?_of_lt hk]
  simp only
  split
  · simp
  · split
    · simp
    · split <;> simp

/-! ### `checkSplitOwner` -/

theorem csoFinal_total {f : Nat} {T3 : Table} {s' : Nat} {rest : List Nat}
    (hT : TermInv clean rk R M T3) (hi : i < T3.size) (hs' : s' < T3.size)
    (hcont : ∀ T' : Table, Mono clean rk R M i T3 T' → checkSplitOwner clean inside f T' i rest ≠ none) :
    csoFinal clean inside f T3 i s' rest ≠ none := by
  unfold csoFinal
  cases hcb : checkBounds clean T3 s' with
  | none => exact absurd hcb (checkBounds_ne_none hs')
  | some p =>
    obtain ⟨T4, b4⟩ := p
    have hm : Mono clean rk R M i T3 T4 := mono_checkBounds hcb
    have hT4 := hm.2.1 hT
    cases b4 with
    | false => exact hcont T4 hm
    | true =>
      simp only
      have hs4 : s' < T4.size := by rw [hm.1]; exact hs'
      have hi4 : i < T4.size := by rw [hm.1]; exact hi
      have hv := isValidOwner_fuel hT4.acyc hT4.own i (some s')
        (fun t h => by simp only [Option.some.injEq] at h; exact h ▸ hs4)
      cases hv' : isValidOwner T4 (T4.size + 1) i (some s') with
      | none => exact absurd hv' hv
      | some valid =>
        rw [getElem?_of_lt hs4, getElem?_of_lt hi4]
        simp only
        split
        · simp
        · exact hcont T4 hm

theorem csoRest_total {f : Nat} {T1 : Table} {s : Nat} {rest : List Nat}
    (hT : TermInv clean rk R M T1) (hi : i < T1.size) (hs : s < T1.size)
    (hcont : ∀ T' : Table, Mono clean rk R M i T1 T' → checkSplitOwner clean inside f T' i rest ≠ none)
    (hnest : ∀ (T2 : Table) (L : List Nat), Mono clean rk R M i T1 T2 → unmarked T2 i + 1 ≤ unmarked T1 i →
      (∀ x ∈ L, x < T2.size) → L.length ≤ M → checkSplitOwner clean inside f T2 i L ≠ none) :
    csoRest clean inside f T1 i s rest ≠ none := by
  unfold csoRest
  have hg := getRealOutRec_fuel hT.acyc hT.own (some s) (fun t h => by simp only [Option.some.injEq] at h; exact h ▸ hs)
  cases hgr : getRealOutRec T1 (T1.size + 1) (some s) with
  | none => exact absurd hgr hg
  | some os =>
    cases os with
    | none => exact hcont T1 (Mono.refl _)
    | some s' =>
      obtain ⟨⟨sr', hsr', hp'⟩, _⟩ := getRealOutRec_some hgr
      have hs' : s' < T1.size := getElem?_lt hsr'
      simp only [hsr']
      split
      · exact hcont T1 (Mono.refl _)
      · rename_i hcond
        simp only [Bool.or_eq_true, decide_eq_true_eq, not_or] at hcond
        have hm2 : Mono clean rk R M i T1 (T1.modify s' (fun x => { x with recursiveSplit := some i })) := mono_mark T1 s'
        have hlt2 := unmarked_mark hsr' hp' hcond.2
        have hT2 := hm2.2.1 hT
        have hsz2 : (T1.modify s' (fun x => { x with recursiveSplit := some i })).size = T1.size := hm2.1
        by_cases hc : (!sr'.splits.isEmpty) = true
        · simp only [hc, if_true]
          cases hr2 : checkSplitOwner clean inside f (T1.modify s' (fun x => { x with recursiveSplit := some i })) i sr'.splits with
          | none =>
            exact absurd hr2 (hnest _ _ hm2 hlt2 (fun x hx => by rw [hsz2]; exact hT.spl s' sr' x hsr' hx) (hT.len s' sr' hsr'))
          | some p =>
            obtain ⟨T3, b3⟩ := p
            cases b3 with
            | true => simp
            | false =>
              simp only
              have hm3 : Mono clean rk R M i T1 T3 := hm2.trans (mono_cso hr2)
              exact csoFinal_total (hm3.2.1 hT) (by rw [hm3.1]; exact hi) (by rw [hm3.1]; exact hs')
                (fun T' hm' => hcont T' (hm3.trans hm'))
        · simp only [hc]
          exact csoFinal_total hT2 (by rw [hsz2]; exact hi) (by rw [hsz2]; exact hs')
            (fun T' hm' => hcont T' (hm2.trans hm'))

/-- **Fuel sufficiency for `CheckSplitOwner`.**  Under the termination invariant, `csoFuel` of the measure
`(unmarked, maxRk, length)` is enough fuel. -/
theorem checkSplitOwner_total :
    ∀ (f : Nat) (T : Table) (L : List Nat), TermInv clean rk R M T → i < T.size → (∀ s ∈ L, s < T.size) →
      csoFuel R M (unmarked T i) (maxRk rk L) L.length ≤ f → checkSplitOwner clean inside f T i L ≠ none := by
  intro f
  induction f with
  | zero => intro T L _ _ _ hf; unfold csoFuel at hf; omega
  | succ f IH =>
    intro T L hT hi hL hf
    cases L with
    | nil => simp [checkSplitOwner]
    | cons s rest =>
      rw [cso_unfold]
      have hs : s < T.size := hL s (List.mem_cons_self ..)
      have hrest : ∀ x ∈ rest, x < T.size := fun x hx => hL x (List.mem_cons_of_mem _ hx)
      simp only [List.length_cons] at hf
      have hf' : csoFuel R M (unmarked T i) (maxRk rk (s :: rest)) (rest.length + 1) - 1 ≤ f := by omega
      have hρrest : maxRk rk rest ≤ maxRk rk (s :: rest) := by simp only [maxRk]; omega
      -- continuing with the rest of the list, and entering a freshly marked outrec, from any later table
      have hcont : ∀ T' : Table, Mono clean rk R M i T T' → checkSplitOwner clean inside f T' i rest ≠ none :=
        fun T' hm => IH T' rest (hm.2.1 hT) (by rw [hm.1]; exact hi) (by rw [hm.1]; exact hrest)
          (Nat.le_trans (csoFuel_rest hm.2.2 hρrest) hf')
      have hnest : ∀ (T1 T2 : Table) (L : List Nat), Mono clean rk R M i T T1 → Mono clean rk R M i T1 T2 →
          unmarked T2 i + 1 ≤ unmarked T1 i → (∀ x ∈ L, x < T2.size) → L.length ≤ M →
          checkSplitOwner clean inside f T2 i L ≠ none :=
        fun T1 T2 L hm1 hm2 hlt hL2 hlen => IH T2 L (hm2.2.1 (hm1.2.1 hT))
          (by rw [hm2.1, hm1.1]; exact hi) hL2
          (Nat.le_trans (csoFuel_mark (by have := hm1.2.2; omega) (maxRk_le (fun s _ => hT.rkR s)) hlen) hf')
      rw [getElem?_of_lt hs]
      simp only
      by_cases hc : (!(T[s]).hasPts && !(T[s]).splits.isEmpty) = true
      · simp only [hc, if_true]
        have hdead : (T[s]).hasPts = false := by
          simp only [Bool.and_eq_true, Bool.not_eq_true'] at hc
          exact hc.1
        cases hr1 : checkSplitOwner clean inside f T i (T[s]).splits with
        | none =>
          refine absurd hr1 (IH T _ hT hi (fun x hx => hT.spl s _ x (getElem?_of_lt hs) hx) ?_)
          refine Nat.le_trans (csoFuel_942 (Nat.le_refl _) ?_ (hT.len s _ (getElem?_of_lt hs))) hf'
          have : maxRk rk (T[s]).splits ≤ rk s :=
            maxRk_le (fun x hx => hT.wf s _ x (getElem?_of_lt hs) (Or.inl hdead) hx)
          simp only [maxRk]
          omega
        | some p =>
          obtain ⟨T1, b1⟩ := p
          cases b1 with
          | true => simp
          | false =>
            simp only
            have hm1 : Mono clean rk R M i T T1 := mono_cso hr1
            exact csoRest_total (hm1.2.1 hT) (by rw [hm1.1]; exact hi) (by rw [hm1.1]; exact hs)
              (fun T' hm' => hcont T' (hm1.trans hm')) (fun T2 L hm2 => hnest T1 T2 L hm1 hm2)
      · simp only [hc]
        exact csoRest_total hT hi hs hcont (fun T2 L hm2 => hnest T T2 L (Mono.refl _) hm2)

/-! ### `ownerLoop` -/

/-- the measure of the `while (outrec->owner)` loop: 1 + the rank of `outrec->owner`, 0 for a null owner -/
def ownerRank (rank : Nat → Nat) (T : Table) (i : Nat) : Nat :=
  match T[i]? with
  | none => 0
  | some r =>
    match r.owner with
    | none => 0
    | some o => rank o + 1

/-- fuel that suffices for every `CheckSplitOwner` call on a table of `n` outrecs -/
def csoMax (R M n : Nat) : Nat := csoFuel R M n R M

theorem RankOK.same_owner {io : Option Nat} {T T' : Table} {rank : Nat → Nat} (hr : RankOK T rank)
    (hs : Step clean io T T') (hio : io = none) : RankOK T' rank := by
  intro j r' o hj ho
  obtain ⟨r, hr', _, _, ow⟩ := hs.back hj
  exact hr j r o hr' ((ow (by simp [hio])) ▸ ho)

theorem RankOK.skip_owner {T : Table} {rank : Nat → Nat} (hr : RankOK T rank) {i o : Nat} {ri ro : OutRec}
    (hi : T[i]? = some ri) (hio : ri.owner = some o) (ho : T[o]? = some ro) :
    RankOK (T.modify i (fun x => { x with owner := ro.owner })) rank := by
  refine hr.of_edges ?_
  intro j r' o' hj ho'
  obtain ⟨r, hTj, hr'⟩ := getElem?_modify_some hj
  by_cases hij : i = j
  · subst hij
    simp only [if_true] at hr'
    subst hr'
    simp only at ho'
    rw [hi] at hTj
    simp only [Option.some.injEq] at hTj
    subst hTj
    exact ⟨_, o, hi, hio, Reach.step ho ho' (Reach.refl _)⟩
  · simp only [if_neg hij] at hr'
    subst hr'
    exact ⟨_, o', hTj, ho', Reach.refl _⟩

theorem OwnersInRange.modify_owner {T : Table} (h : OwnersInRange T) (k : Nat) (ow : Option Nat)
    (how : ∀ o, ow = some o → o < T.size) : OwnersInRange (T.modify k (fun x => { x with owner := ow })) := by
  intro j r' o hj ho
  rw [Array.size_modify]
  obtain ⟨r, hr, e⟩ := getElem?_modify_some hj
  by_cases hkj : k = j
  · rw [if_pos hkj] at e; subst e; exact how o ho
  · rw [if_neg hkj] at e; subst e; exact h j _ o hr ho

theorem ownerRank_skip {T : Table} {rank : Nat → Nat} (hr : RankOK T rank) {i o : Nat} {ri ro : OutRec}
    (hi : T[i]? = some ri) (ho : T[o]? = some ro) :
    ownerRank rank (T.modify i (fun x => { x with owner := ro.owner })) i ≤ rank o := by
  unfold ownerRank
  rw [Array.getElem?_modify]
  simp only [if_true, hi, Option.map_some]
  cases hoo : ro.owner with
  | none => simp
  | some o2 => have := hr o ro o2 ho hoo; simp only; omega

theorem olRest_total {f : Nat} {T1 : Table} {o : Nat} (hi : i < T1.size) (ho : o < T1.size)
    (hnext : ∀ T' : Table, Good clean none T1 T' → olNext clean inside f T' i o ≠ none) :
    olRest clean inside f T1 i o ≠ none := by
  unfold olRest
  rw [getElem?_of_lt ho]
  simp only
  split
  · exact hnext T1 (Good.refl _ _ _)
  · cases hcb : checkBounds clean T1 o with
    | none => exact absurd hcb (checkBounds_ne_none ho)
    | some p =>
      obtain ⟨T2, b2⟩ := p
      have hg := checkBounds_good hcb
      cases b2 with
      | false => exact hnext T2 hg
      | true =>
        simp only
        rw [getElem?_of_lt (by rw [hg.1.1]; exact ho), getElem?_of_lt (by rw [hg.1.1]; exact hi)]
        simp only
        split
        · simp
        · exact hnext T2 hg

/-- **Fuel sufficiency for the `while (outrec->owner)` loop of `RecursiveCheckOwners`.**  The measure is the rank of
`outrec->owner` in the owner graph; every `CheckSplitOwner` call inside gets `csoMax`. -/
theorem ownerLoop_total {rank : Nat → Nat} :
    ∀ (f : Nat) (T : Table), TermInv clean rk R M T → i < T.size → RankOK T rank →
      csoMax R M T.size + ownerRank rank T i + 1 ≤ f → ownerLoop clean inside f T i ≠ none := by
  intro f
  induction f with
  | zero => intro T _ _ _ hf; omega
  | succ f IH =>
    intro T hT hi hr hf
    rw [ol_unfold]
    have hTi := getElem?_of_lt hi
    rw [hTi]
    simp only
    cases hown : (T[i]).owner with
    | none => simp
    | some o =>
      simp only
      have ho : o < T.size := hT.own i _ o hTi hown
      have hTo := getElem?_of_lt ho
      rw [hTo]
      simp only
      have hrk : ownerRank rank T i = rank o + 1 := by simp only [ownerRank, hTi, hown]
      -- one more turn of the loop from a later table with the same owners
      have hnext : ∀ T' : Table, Good clean none T T' → olNext clean inside f T' i o ≠ none := by
        intro T' hg
        have hT' := hT.good_none hg
        have hr' : RankOK T' rank := hr.same_owner hg.1 rfl
        have hsz : T'.size = T.size := hg.1.1
        obtain ⟨ri', hri', _, _, ow⟩ := hg.1.2 i _ hTi
        have hio' : ri'.owner = some o := (ow (by simp)).trans hown
        unfold olNext
        rw [getElem?_of_lt (by rw [hsz]; exact ho)]
        simp only
        have ho' : T'[o]? = some T'[o] := getElem?_of_lt (by rw [hsz]; exact ho)
        have hstep : Step clean (some i) T' (T'.modify i (fun x => { x with owner := (T'[o]).owner })) :=
          Step.modify (fun r _ => ⟨RecStep.of_eq rfl rfl rfl rfl rfl, rfl, fun hne => absurd rfl hne⟩)
        have hO'' := hT'.own.modify_owner i (T'[o]).owner (fun o2 ho2 => hT'.own o _ o2 ho' ho2)
        refine IH _ (hT'.step hstep (hT'.acyc.skip_owner hri' hio' ho') hO'') (by rw [Array.size_modify, hsz]; exact hi)
          (hr'.skip_owner hri' hio' ho') ?_
        have := ownerRank_skip hr' hri' ho' (i := i)
        have hcs := congrArg (csoMax R M) hsz
        rw [Array.size_modify, hcs]
        omega
      by_cases hc : (!(T[o]).splits.isEmpty) = true
      · simp only [hc, if_true]
        cases hr1 : checkSplitOwner clean inside f T i (T[o]).splits with
        | none =>
          refine absurd hr1 (checkSplitOwner_total f T _ hT hi (fun x hx => hT.spl o _ x hTo hx) ?_)
          have : csoFuel R M (unmarked T i) (maxRk rk (T[o]).splits) (T[o]).splits.length ≤ csoMax R M T.size :=
            csoFuel_mono (unmarked_le_size T i) (maxRk_le (fun s _ => hT.rkR s)) (hT.len o _ hTo)
          omega
        | some p =>
          obtain ⟨T1, b1⟩ := p
          cases b1 with
          | true => simp
          | false =>
            simp only
            have hg1 : Good clean none T T1 := (checkSplitOwner_spec _ _ _ _ _ hr1).1 rfl
            exact olRest_total (by rw [hg1.1.1]; exact hi) (by rw [hg1.1.1]; exact ho)
              (fun T' hg' => hnext T' (hg1.trans hg'))
      · simp only [hc]
        exact olRest_total hi ho hnext

/-! ### `skipDeadOwners` -/

/-- **Fuel sufficiency for the first loop of `SetOwner`**: the measure is the rank of `new_owner->owner`. -/
theorem skipDeadOwners_total {rank : Nat → Nat} :
    ∀ (f : Nat) (T : Table) (no : Nat), RankOK T rank → OwnersInRange T → no < T.size →
      ownerRank rank T no + 1 ≤ f →
      ∃ T1 : Table, skipDeadOwners T f no = some T1 ∧ RankOK T1 rank ∧ OwnersInRange T1 ∧ T1.size = T.size := by
  intro f
  induction f with
  | zero => intro T no _ _ _ hf; omega
  | succ f IH =>
    intro T no hr hO hno hf
    simp only [skipDeadOwners]
    have hTn := getElem?_of_lt hno
    rw [hTn]
    simp only
    cases hown : (T[no]).owner with
    | none => exact ⟨T, rfl, hr, hO, rfl⟩
    | some o =>
      simp only
      have ho : o < T.size := hO no _ o hTn hown
      have hTo := getElem?_of_lt ho
      rw [hTo]
      simp only
      split
      · exact ⟨T, rfl, hr, hO, rfl⟩
      · have hrk : ownerRank rank T no = rank o + 1 := by simp only [ownerRank, hTn, hown]
        have := ownerRank_skip hr hTn hTo (i := no)
        obtain ⟨T1, h1, h2, h3, h4⟩ := IH _ no (hr.skip_owner hTn hown hTo)
          (hO.modify_owner no (T[o]).owner (fun o2 ho2 => hO o _ o2 hTo ho2))
          (by rw [Array.size_modify]; exact hno) (by omega)
        exact ⟨T1, h1, h2, h3, by rw [h4, Array.size_modify]⟩

theorem isValidOwner_succ {T : Table} {f i : Nat} {ot : Option Nat} {v : Bool}
    (h : isValidOwner T f i ot = some v) : isValidOwner T (f + 1) i ot = some v := by
  induction f generalizing ot with
  | zero => simp [isValidOwner] at h
  | succ f ih =>
    cases ot with
    | none => simp only [isValidOwner] at h ⊢; exact h
    | some t =>
      rw [isValidOwner] at h
      rw [isValidOwner]
      split
      · rename_i hti; simpa [hti] using h
      · rename_i hti
        simp only [if_neg hti] at h
        split
        · rename_i hT; simp [hT] at h
        · rename_i r hT
          simp only [hT] at h
          exact ih h

/-- `SetOwner` terminates with `size + 2` units of fuel on an acyclic table with in-range owners. -/
theorem setOwner_total {T : Table} {i no : Nat} (hA : Acyclic T) (hO : OwnersInRange T) (hi : i < T.size)
    (hno : no < T.size) : setOwner T (T.size + 2) i no ≠ none := by
  obtain ⟨rank, hr, hb⟩ := hA.bounded hO
  have hrk : ownerRank rank T no ≤ T.size + 1 := by
    unfold ownerRank
    split
    · omega
    · split
      · omega
      · rename_i o _; have := hb o; omega
  obtain ⟨T1, h1, h2, h3, h4⟩ := skipDeadOwners_total (T.size + 2) T no hr hO hno (by omega)
  unfold setOwner
  rw [h1]
  simp only
  have hv := isValidOwner_fuel ⟨rank, h2⟩ h3 i (some no) (fun t h => by simp only [Option.some.injEq] at h; rw [h4]; exact h ▸ hno)
  cases hv' : isValidOwner T1 (T.size + 2) i (some no) with
  | none =>
    exfalso
    cases hv1 : isValidOwner T1 (T1.size + 1) i (some no) with
    | none => exact hv hv1
    | some v =>
      have := isValidOwner_succ hv1
      rw [h4, hv'] at this
      simp at this
  | some valid =>
    simp only
    rw [getElem?_of_lt (by rw [h4]; exact hi)]
    simp

end

end Clipper.Model.Owner
