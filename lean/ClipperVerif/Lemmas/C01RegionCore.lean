/-
Helper lemmas for `Props/C01Region.lean`, part 5: the label table of a built input, sums over labelled edge lists, and the core of
the region theorem (coverage_1d read geometrically).  Core Lean only.
-/
import ClipperVerif.Lemmas.C01RegionWind
import ClipperVerif.Lemmas.C01RegionBeam
import ClipperVerif.Props.C01
namespace Clipper.Lemmas.C01Region
open Clipper Clipper.WindSpec Clipper.Model Clipper.Model.AelOrder Clipper.Model.SweepOrder Clipper.Model.SweepEvents
open Clipper.Lemmas.SweepOrder

/-! ## the label table lists the edges of `build` -/

theorem pathLabels_fst (off : Nat) (t : PathType) (p : Path) : (pathLabels off t p).map (·.1) = pathEdges off p := by
  simp [pathLabels, pathEdges, List.map_map, Function.comp_def]

theorem buildFrom_edges (t : PathType) : ∀ (ps : Paths) (off : Nat),
    (buildFrom off ps).edges = (labelsFrom off t ps).map (·.1) := by
  intro ps
  induction ps with
  | nil => intro off; rfl
  | cons p ps ih =>
    intro off
    simp only [buildFrom, labelsFrom]
    by_cases h : p.length < 3
    · simp [h, ih]
    · simp [h, ih, pathLabels_fst]

theorem buildFrom_edges_append (clip : Paths) : ∀ (subj : Paths) (off : Nat),
    (buildFrom off (subj ++ clip)).edges =
      (labelsFrom off .subject subj).map (·.1) ++ (buildFrom (off + totalLen subj) clip).edges := by
  intro subj
  induction subj with
  | nil => intro off; simp [labelsFrom, totalLen]
  | cons p ps ih =>
    intro off
    have e : off + totalLen (p :: ps) = off + p.length + totalLen ps := by simp [totalLen]; omega
    simp only [List.cons_append, buildFrom, labelsFrom, e]
    by_cases h : p.length < 3
    · simp [h, ih]
    · simp [h, ih, pathLabels_fst]

/-- **the label table lists exactly the edges of `build (subj ++ clip)`, in order** -/
theorem labelTbl_fst (subj clip : Paths) : (labelTbl subj clip).map (·.1) = (build (subj ++ clip)).edges := by
  show _ = (buildFrom 0 (subj ++ clip)).edges
  rw [buildFrom_edges_append, buildFrom_edges .clip]
  simp [labelTbl]

theorem labelsFrom_pt (t : PathType) : ∀ (ps : Paths) (off : Nat), ∀ r ∈ labelsFrom off t ps, r.2.1 = t := by
  intro ps
  induction ps with
  | nil => intro off r hr; simp [labelsFrom] at hr
  | cons p ps ih =>
    intro off r hr
    simp only [labelsFrom, List.mem_append] at hr
    rcases hr with hr | hr
    · split at hr
      · simp at hr
      · simp only [pathLabels, List.mem_map] at hr
        obtain ⟨_, _, rfl⟩ := hr
        rfl
    · exact ih _ r hr

theorem find_of_nodup {β : Type} : ∀ (tbl : List (SEdge × β)), (tbl.map (·.1)).Nodup → ∀ r ∈ tbl,
    tbl.find? (fun q => q.1 == r.1) = some r := by
  intro tbl
  induction tbl with
  | nil => intro _ r hr; cases hr
  | cons q tbl ih =>
    intro hnd r hr
    simp only [List.map_cons, List.nodup_cons] at hnd
    rcases List.mem_cons.1 hr with rfl | hr
    · simp
    · have hne : ¬ q.1 = r.1 := fun h => hnd.1 (h ▸ List.mem_map_of_mem (f := (·.1)) hr)
      have hb : (q.1 == r.1) = false := by simpa using hne
      rw [List.find?_cons, hb]
      exact ih hnd.2 r hr

/-- the labelling reads the table -/
theorem labOf_row (subj clip : Paths) (hnd : (build (subj ++ clip)).edges.Nodup) :
    ∀ r ∈ labelTbl subj clip, labOf subj clip r.1 = r.2 := by
  intro r hr
  rw [← labelTbl_fst] at hnd
  simp only [labOf, find_of_nodup _ hnd r hr]

/-! ## sums over labelled edge lists -/

/-- winding sum of type `t` over a list of sweep edges under a labelling -/
def labSum (lab : Lab) (t : PathType) (es : List SEdge) : Int :=
  (es.map (fun e => if (lab e).1 = t then (lab e).2 else 0)).sum

theorem sumT_tracks (lab : Lab) (t : PathType) : ∀ (l : Ael) (es : List SEdge), Tracks lab l es → sumT t l = labSum lab t es := by
  intro l
  induction l with
  | nil =>
    intro es h
    have : es = [] := by cases es with
      | nil => rfl
      | cons _ _ => simp [Tracks] at h
    subst this; rfl
  | cons x l ih =>
    intro es h
    cases es with
    | nil => simp [Tracks] at h
    | cons e es =>
      simp only [Tracks, List.map_cons, List.cons.injEq] at h
      obtain ⟨hk, hr⟩ := h
      simp only [key, labKey, Prod.mk.injEq] at hk
      simp only [sumT, labSum, List.map_cons, List.sum_cons, contrib, hk.1, hk.2.1, hk.2.2, and_true]
      rw [ih es hr]; rfl

theorem tracks_take {lab : Lab} {l : Ael} {es : List SEdge} (h : Tracks lab l es) (k : Nat) : Tracks lab (l.take k) (es.take k) := by
  unfold Tracks at *
  rw [List.map_take, List.map_take, h]

theorem labSum_perm (lab : Lab) (t : PathType) {es es' : List SEdge} (h : es.Perm es') : labSum lab t es = labSum lab t es' :=
  sum_perm (h.map _)

theorem sum_filter_ite {α : Type} (p : α → Bool) (f : α → Int) : ∀ (l : List α),
    (l.map (fun a => if p a = true then f a else 0)).sum = ((l.filter p).map f).sum := by
  intro l
  induction l with
  | nil => rfl
  | cons a l ih =>
    by_cases h : p a = true
    · simp [h, ih]
    · simp [h, ih]

/-! ## hot edges left of a point -/

/-- number of hot closed edges of the L2 state whose sweep edge is strictly left of the point -/
def hotLeftCount (xn yn yd : Int) : Ael → List SEdge → Nat
  | e :: l, s :: es => (if e.isOpen = false ∧ e.hot = true ∧ leftOfPt s xn yn yd then 1 else 0) + hotLeftCount xn yn yd l es
  | _, _ => 0

theorem hotLeftCount_eq (xn yn yd : Int) : ∀ (l : Ael) (es : List SEdge),
    hotLeftCount xn yn yd l es = ((hotEdges l es).filter (fun e => decide (leftOfPt e xn yn yd))).length := by
  intro l
  induction l with
  | nil => intro es; simp [hotLeftCount, hotEdges]
  | cons e l ih =>
    intro es
    cases es with
    | nil => simp [hotLeftCount, hotEdges]
    | cons s es =>
      have ih' := ih es
      simp only [hotEdges] at ih' ⊢
      simp only [hotLeftCount, List.zip_cons_cons, List.filter_cons, ih']
      cases ho : e.isOpen <;> cases hh : e.hot <;> by_cases hl : leftOfPt s xn yn yd <;> simp [hl] <;> omega

theorem hotLeftCount_none (xn yn yd : Int) : ∀ (l : Ael) (es : List SEdge), (∀ s ∈ es, ¬ leftOfPt s xn yn yd) →
    hotLeftCount xn yn yd l es = 0 := by
  intro l
  induction l with
  | nil => intro es _; simp [hotLeftCount]
  | cons e l ih =>
    intro es h
    cases es with
    | nil => simp [hotLeftCount]
    | cons s es =>
      simp only [hotLeftCount, h s (by simp), and_false, if_false, Nat.zero_add]
      exact ih es (fun x hx => h x (by simp [hx]))

/-- in a list along which "left of the point" is downward closed, the edges left of the point are a prefix, and the hot edges
left of the point are the hot edges of that prefix -/
theorem left_prefix (xn yn yd : Int) : ∀ (es : List SEdge) (l : Ael), l.length = es.length →
    es.Pairwise (fun a b => leftOfPt b xn yn yd → leftOfPt a xn yn yd) →
    ∃ k, es.filter (fun e => decide (leftOfPt e xn yn yd)) = es.take k ∧ hotLeftCount xn yn yd l es = hotCount (l.take k) := by
  intro es
  induction es with
  | nil => intro l _ _; exact ⟨0, rfl, by cases l <;> simp [hotLeftCount, hotCount]⟩
  | cons s es ih =>
    intro l hl hp
    cases l with
    | nil => simp at hl
    | cons e l =>
      rw [List.pairwise_cons] at hp
      by_cases hs : leftOfPt s xn yn yd
      · obtain ⟨k, h1, h2⟩ := ih l (by simpa using hl) hp.2
        refine ⟨k + 1, by simp [hs, h1], ?_⟩
        simp only [hotLeftCount, List.take_succ_cons, hotCount, h2, hs, and_true]
      · have hnone : ∀ x ∈ es, ¬ leftOfPt x xn yn yd := fun x hx hxl => hs (hp.1 x hx hxl)
        refine ⟨0, ?_, ?_⟩
        · have : es.filter (fun e => decide (leftOfPt e xn yn yd)) = [] :=
            List.filter_eq_nil_iff.2 (fun x hx => by simpa using hnone x hx)
          simp [hs, this]
        · simp only [hotLeftCount, hs, and_false, if_false, Nat.zero_add, List.take_zero, hotCount]
          exact hotLeftCount_none xn yn yd l es hnone

/-- **the core: `coverage_1d` read geometrically.**  An L2 state `l` satisfying the invariant that tracks a list `es` of sweep
edges along which "left of the point" is downward closed (e.g. sorted by x on the scanline of the point): the point is in the region
`inR` of the winding sums of the edges to its left IFF an odd number of hot edges is to its left. -/
theorem region_core (cfg : Cfg) (lab : Lab) (l : Ael) (es : List SEdge) (xn yn yd : Int)
    (hinv : Inv cfg l) (htr : Tracks lab l es)
    (hp : es.Pairwise (fun a b => leftOfPt b xn yn yd → leftOfPt a xn yn yd)) :
    inR cfg.ct cfg.fr (labSum lab .subject (es.filter (fun e => decide (leftOfPt e xn yn yd))))
        (labSum lab .clip (es.filter (fun e => decide (leftOfPt e xn yn yd)))) =
      decide (hotLeftCount xn yn yd l es % 2 = 1) := by
  obtain ⟨k, h1, h2⟩ := left_prefix xn yn yd es l (tracks_length htr) hp
  rw [h1, h2, ← sumT_tracks lab .subject _ _ (tracks_take htr k), ← sumT_tracks lab .clip _ _ (tracks_take htr k)]
  exact Clipper.Props.C01.coverage_1d cfg l hinv k

/-! ## insertion sort with a comparison that is a total preorder on the members only -/
section SortMem
variable {α : Type} {le : α → α → Bool}

theorem stableSort_perm (l : List α) : (stableSort le l).Perm l := by
  induction l with
  | nil => exact List.Perm.refl _
  | cons a l ih => exact (insertBefore_perm a _).trans (List.Perm.cons a ih)

theorem insertBefore_sorted_mem (S : α → Prop) (trans : ∀ a b c, S a → S b → S c → le a b → le b c → le a c)
    (total : ∀ a b, S a → S b → le a b || le b a) (a : α) (l : List α) (ha : S a) (hl : ∀ x ∈ l, S x)
    (h : l.Pairwise (fun x y => le x y)) : (insertBefore le a l).Pairwise (fun x y => le x y) := by
  induction l with
  | nil => simp [insertBefore]
  | cons b l ih =>
    rw [List.pairwise_cons] at h
    simp only [insertBefore]
    split
    · rename_i hab
      rw [List.pairwise_cons]
      refine ⟨?_, List.pairwise_cons.2 h⟩
      intro c hc
      rcases List.mem_cons.1 hc with rfl | hc
      · exact hab
      · exact trans _ _ _ ha (hl b (by simp)) (hl c (by simp [hc])) hab (h.1 c hc)
    · rename_i hab
      have hba : le b a = true := by
        have := total a b ha (hl b (by simp))
        simp only [Bool.or_eq_true] at this
        rcases this with h | h
        · exact absurd h hab
        · exact h
      rw [List.pairwise_cons]
      refine ⟨?_, ih (fun x hx => hl x (by simp [hx])) h.2⟩
      intro c hc
      rcases List.mem_cons.1 ((insertBefore_perm a l).mem_iff.1 hc) with rfl | hc
      · exact hba
      · exact h.1 c hc

theorem stableSort_sorted_mem (S : α → Prop) (trans : ∀ a b c, S a → S b → S c → le a b → le b c → le a c)
    (total : ∀ a b, S a → S b → le a b || le b a) (l : List α) (hl : ∀ x ∈ l, S x) :
    (stableSort le l).Pairwise (fun x y => le x y) := by
  induction l with
  | nil => simp [stableSort]
  | cons a l ih =>
    have hl' : ∀ x ∈ l, S x := fun x hx => hl x (by simp [hx])
    exact insertBefore_sorted_mem S trans total a _ (hl a (by simp))
      (fun x hx => hl' x ((stableSort_perm l).mem_iff.1 hx)) (ih hl')

/-- a sorted list is left alone: no transposition, same list -/
theorem insertBefore_of_sorted (a : α) (l : List α) (h : ∀ x ∈ l, le a x = true) : insertBefore le a l = a :: l := by
  cases l with
  | nil => rfl
  | cons b l => simp [insertBefore, h b (by simp)]

theorem insSwaps_of_sorted (k : Nat) (a : α) (l : List α) (h : ∀ x ∈ l, le a x = true) : insSwaps le k a l = [] := by
  cases l with
  | nil => rfl
  | cons b l => simp [insSwaps, h b (by simp)]

theorem sort_of_sorted : ∀ (l : List α) (k : Nat), l.Pairwise (fun x y => le x y) →
    stableSort le l = l ∧ sortSwaps le k l = [] := by
  intro l
  induction l with
  | nil => intro k _; exact ⟨rfl, rfl⟩
  | cons a l ih =>
    intro k h
    rw [List.pairwise_cons] at h
    obtain ⟨e1, e2⟩ := ih (k + 1) h.2
    refine ⟨?_, ?_⟩
    · rw [stableSort_cons, e1]; exact insertBefore_of_sorted a l h.1
    · simp only [sortSwaps, e2, e1, List.nil_append]; exact insSwaps_of_sorted k a l h.1

end SortMem

/-! ## the order on a scanline at a rational height -/

theorem xDen_pos {e : SEdge} (h : e.Up) {yd : Int} (hd : 0 < yd) : 0 < xDen e.bot e.top yd := by
  unfold xDen; exact Int.mul_pos (by unfold SEdge.Up at h; omega) hd

theorem leAt_iff (yn yd : Int) (a b : SEdge) :
    leAt yn yd a b = true ↔ xNum a.bot a.top yn yd * xDen b.bot b.top yd ≤ xNum b.bot b.top yn yd * xDen a.bot a.top yd := by
  unfold leAt xLt; rw [decide_eq_true_iff]; omega

theorem leAt_trans {yn yd : Int} (hd : 0 < yd) (a b c : SEdge) (ha : a.Up) (hb : b.Up) (hc : c.Up)
    (h1 : leAt yn yd a b = true) (h2 : leAt yn yd b c = true) : leAt yn yd a c = true := by
  rw [leAt_iff] at *
  exact fle_trans (xDen_pos ha hd) (xDen_pos hb hd) (xDen_pos hc hd) h1 h2

theorem leAt_total (yn yd : Int) (a b : SEdge) : (leAt yn yd a b || leAt yn yd b a) = true := by
  simp only [Bool.or_eq_true, leAt_iff]; omega

/-- an edge left of (or at) an edge that is left of the point is left of the point -/
theorem leftOfPt_of_leAt {xn yn yd : Int} (hd : 0 < yd) {a b : SEdge} (ha : a.Up) (hb : b.Up)
    (h : leAt yn yd a b = true) (hl : leftOfPt b xn yn yd) : leftOfPt a xn yn yd := by
  rw [leAt_iff] at h
  unfold leftOfPt at *
  have pa := xDen_pos ha hd; have pb := xDen_pos hb hd
  have h2 : xNum b.bot b.top yn yd * yd < xn * xDen b.bot b.top yd := by
    have := Int.mul_lt_mul_of_pos_right hl hd
    have e : xn * exD b * yd = xn * xDen b.bot b.top yd := by simp only [exD, xDen]; grind
    omega
  have h3 := fle_lt_trans pa pb hd h h2
  have e : xn * xDen a.bot a.top yd = xn * exD a * yd := by simp only [exD, xDen]; grind
  rw [e] at h3
  exact Int.lt_of_mul_lt_mul_right h3 (Int.le_of_lt hd)

/-- the edges of a scanbeam sorted at a height: a permutation, in non-strict left-to-right order -/
theorem sortedAt_facts {yn yd : Int} (hd : 0 < yd) (es : List SEdge) (hup : ∀ e ∈ es, e.Up) :
    (sortedAt yn yd es).Perm es ∧ (sortedAt yn yd es).Pairwise (fun a b => leAt yn yd a b = true) :=
  ⟨stableSort_perm es, stableSort_sorted_mem (fun e => e.Up) (fun a b c ha hb hc => leAt_trans hd a b c ha hb hc)
    (fun a b _ _ => leAt_total yn yd a b) es hup⟩

theorem closed_of_sorted {xn yn yd : Int} (hd : 0 < yd) (es : List SEdge) (hup : ∀ e ∈ es, e.Up)
    (h : es.Pairwise (fun a b => leAt yn yd a b = true)) :
    es.Pairwise (fun a b => leftOfPt b xn yn yd → leftOfPt a xn yn yd) :=
  h.imp_of_mem (fun {a b} ha hb hab hl => leftOfPt_of_leAt hd (hup a ha) (hup b hb) hab hl)

/-! ## the hot edges as a list -/

theorem hotEdges_sublist : ∀ (l : Ael) (es : List SEdge), (hotEdges l es).Sublist es := by
  intro l
  induction l with
  | nil => intro es; simp [hotEdges]
  | cons e l ih =>
    intro es
    cases es with
    | nil => simp [hotEdges]
    | cons s es =>
      have ih' := ih es
      simp only [hotEdges] at ih' ⊢
      simp only [List.zip_cons_cons, List.filter_cons]
      split
      · exact List.Sublist.cons₂ _ ih'
      · exact List.Sublist.cons _ ih'

theorem hotEdges_length : ∀ (l : Ael) (es : List SEdge), l.length = es.length → (hotEdges l es).length = hotCount l := by
  intro l
  induction l with
  | nil => intro es _; simp [hotEdges, hotCount]
  | cons e l ih =>
    intro es h
    cases es with
    | nil => simp at h
    | cons s es =>
      have ih' := ih es (by simpa using h)
      simp only [hotEdges] at ih' ⊢
      simp only [List.zip_cons_cons, List.filter_cons, hotCount]
      cases ho : e.isOpen <;> cases hh : e.hot <;> simp [ih'] <;> omega

/-! ## hot flags are a function of the labelled order -/

theorem hot_of_inv (cfg : Cfg) : ∀ (l l' : Ael) (s c : Int), InvFrom cfg s c l → InvFrom cfg s c l' →
    l.map key = l'.map key → (∀ e ∈ l, e.isOpen = false) → l.map (·.hot) = l'.map (·.hot) := by
  intro l
  induction l with
  | nil => intro l' s c _ _ hk _; cases l' with
    | nil => rfl
    | cons _ _ => simp at hk
  | cons e l ih =>
    intro l' s c h h' hk ho
    cases l' with
    | nil => simp at hk
    | cons e' l' =>
      simp only [List.map_cons, List.cons.injEq] at hk ⊢
      obtain ⟨hke, hkl⟩ := hk
      simp only [key, Prod.mk.injEq] at hke
      obtain ⟨k1, k2, k3⟩ := hke
      have hoe : e.isOpen = false := ho e (by simp)
      have hoe' : e'.isOpen = false := by rw [← k2]; exact hoe
      obtain ⟨hd, hw, hh⟩ := h.1 hoe
      obtain ⟨hd', hw', hh'⟩ := h'.1 hoe'
      have b1 := icc_boundary cfg.ct cfg.fr e.pt e.wc e.dx e.wc2 _ _ hd hw
      have b2 := icc_boundary cfg.ct cfg.fr e'.pt e'.wc e'.dx e'.wc2 _ _ hd' hw'
      have hc1 : ∀ t, contrib t e' = contrib t e := fun t => contrib_congr t e e' k1.symm k2.symm k3.symm
      refine ⟨?_, ?_⟩
      · rw [hh, hh', b1, b2, ← k1, ← k3]
      · have h2 := h'.2
        rw [hc1, hc1] at h2
        exact ih l' _ _ h.2 h2 hkl (fun x hx => ho x (by simp [hx]))

end Clipper.Lemmas.C01Region
