/-
Combinatorics of circular doubly linked lists, independent of the heap representation: a link structure is a pair of partial
functions `nx pv : Nat → Option Nat` (`->next`, `->prev`); a *ring* is a duplicate-free list `c = a :: t` whose consecutive
elements are linked both ways, the last one back to `a`.  Pointer surgery is function update (`upd`).

Used by `Lemmas/HorzJoins.lean` (which reads `nx`/`pv` off the heap of `Model/HorzJoins.lean`).  Core Lean only.
-/
namespace Clipper.Model.HorzJoins

abbrev PF := Nat → Option Nat

/-- `f[i] := v` -/
def upd (f : PF) (i v : Nat) : PF := fun j => if j = i then some v else f j

@[simp] theorem upd_same (f : PF) (i v : Nat) : upd f i v i = some v := by simp [upd]
theorem upd_ne (f : PF) {i j : Nat} (v : Nat) (h : j ≠ i) : upd f i v j = f j := by simp [upd, h]

/-- `a->next == b && b->prev == a` -/
def LinkF (nx pv : PF) (a b : Nat) : Prop := nx a = some b ∧ pv b = some a

/-- consecutive elements are linked -/
def ChainF (nx pv : PF) : List Nat → Prop
  | [] => True
  | [_] => True
  | a :: b :: r => LinkF nx pv a b ∧ ChainF nx pv (b :: r)

@[simp] theorem chainF_nil (nx pv : PF) : ChainF nx pv [] = True := rfl
@[simp] theorem chainF_single (nx pv : PF) (a : Nat) : ChainF nx pv [a] = True := rfl
@[simp] theorem chainF_cons2 (nx pv : PF) (a b : Nat) (r : List Nat) :
    ChainF nx pv (a :: b :: r) = (LinkF nx pv a b ∧ ChainF nx pv (b :: r)) := rfl

/-- a chain through `m` is a chain up to `m` and a chain from `m` -/
theorem chainF_append (nx pv : PF) (l1 : List Nat) (m : Nat) (l2 : List Nat) :
    ChainF nx pv (l1 ++ m :: l2) ↔ ChainF nx pv (l1 ++ [m]) ∧ ChainF nx pv (m :: l2) := by
  induction l1 with
  | nil => simp
  | cons a t ih =>
    cases t with
    | nil => simp
    | cons b t' =>
      simp only [List.cons_append, chainF_cons2] at ih ⊢
      rw [ih]; exact and_assoc.symm

/-- a chain survives every surgery that writes no `next` of its non-final and no `prev` of its non-initial elements -/
theorem chainF_frame {nx pv nx' pv' : PF} : ∀ (l : List Nat), ChainF nx pv l →
    (∀ a ∈ l.dropLast, nx' a = nx a) → (∀ b ∈ l.tail, pv' b = pv b) → ChainF nx' pv' l
  | [], _, _, _ => trivial
  | [_], _, _, _ => trivial
  | a :: b :: r, h, hn, hp => by
    simp only [chainF_cons2] at h ⊢
    refine ⟨⟨?_, ?_⟩, chainF_frame (b :: r) h.2 ?_ ?_⟩
    · rw [hn a (by simp [List.dropLast])]; exact h.1.1
    · rw [hp b (by simp)]; exact h.1.2
    · intro x hx; exact hn x (by simp only [List.dropLast_cons_cons]; exact List.mem_cons_of_mem _ hx)
    · intro x hx; exact hp x (by simp only [List.tail_cons] at hx ⊢; exact List.mem_cons_of_mem _ hx)

/-- `c` is a ring: no repetition, consecutive elements linked, the last linked to the first -/
def IsRingF (nx pv : PF) : List Nat → Prop
  | [] => False
  | a :: t => (a :: t).Nodup ∧ ChainF nx pv (a :: t ++ [a])

theorem IsRingF.nodup {nx pv : PF} : ∀ {c : List Nat}, IsRingF nx pv c → c.Nodup
  | [], h => h.elim
  | _ :: _, h => h.1

theorem IsRingF.ne_nil {nx pv : PF} : ∀ {c : List Nat}, IsRingF nx pv c → c ≠ []
  | [], h => h.elim
  | _ :: _, _ => by simp

/-- rotating a ring -/
theorem isRingF_rot {nx pv : PF} (a b : List Nat) (h : IsRingF nx pv (a ++ b)) : IsRingF nx pv (b ++ a) := by
  cases a with
  | nil => simpa using h
  | cons x a' =>
    cases b with
    | nil => simpa using h
    | cons y b' =>
      obtain ⟨hnd, hch⟩ := h
      have hnd : ((x :: a') ++ (y :: b')).Nodup := hnd
      refine ⟨?_, ?_⟩
      · exact (List.perm_append_comm.nodup_iff).1 hnd
      · -- x :: a' ++ y :: b' ++ [x]   ↦   y :: b' ++ x :: a' ++ [y]
        have h1 : ChainF nx pv ((x :: a') ++ y :: (b' ++ [x])) := by simpa using hch
        rw [chainF_append] at h1
        have h2 : ChainF nx pv ((y :: b') ++ x :: (a' ++ [y])) := by
          rw [chainF_append]
          exact ⟨by simpa using h1.2, by simpa using h1.1⟩
        simpa using h2

/-- in a ring `a :: b :: t` the successor of `a` is `b` -/
theorem IsRingF.next_head {nx pv : PF} {a b : Nat} {t : List Nat} (h : IsRingF nx pv (a :: b :: t)) : LinkF nx pv a b := by
  have := h.2; simp only [List.cons_append, chainF_cons2] at this; exact this.1

/-- in a one-element ring the element is its own neighbour -/
theorem IsRingF.single {nx pv : PF} {a : Nat} (h : IsRingF nx pv [a]) : LinkF nx pv a a := by
  have := h.2; simpa using this

/-- the last element of a ring is linked to the first -/
theorem IsRingF.last_first {nx pv : PF} {a : Nat} {t : List Nat} {z : Nat} (h : IsRingF nx pv (a :: t ++ [z])) : LinkF nx pv z a := by
  have h2 := isRingF_rot (a :: t) [z] h
  simp only [List.singleton_append] at h2
  exact h2.next_head

/-! ### the ring as a chain from an element back to itself -/

/-- a ring rotated to start at one of its elements -/
theorem IsRingF.rotate_to {nx pv : PF} {c : List Nat} (h : IsRingF nx pv c) {x : Nat} (hx : x ∈ c) :
    ∃ pre post, c = pre ++ x :: post ∧ IsRingF nx pv (x :: post ++ pre) := by
  obtain ⟨pre, post, rfl⟩ := List.append_of_mem hx
  exact ⟨pre, post, rfl, by simpa using isRingF_rot pre (x :: post) h⟩

/-! ### insertion of a new node (`DuplicateOp`) -/

/-- `DuplicateOp(op, true)` on the ring `op :: rest`: the node `new` (not in the ring) is linked in behind `op`.
`s` is `op->next` before the call (`head (rest ++ [op])`). -/
theorem ring_insert_after {nx pv : PF} {op new s : Nat} {rest : List Nat}
    (h : IsRingF nx pv (op :: rest)) (hs : (rest ++ [op]).head? = some s) (hnew : new ∉ op :: rest) :
    IsRingF (upd (upd nx new s) op new) (upd (upd pv new op) s new) (op :: new :: rest) := by
  obtain ⟨hnd, hch⟩ := h
  have hnd' : (op :: new :: rest).Nodup := by
    simp only [List.nodup_cons, List.mem_cons, not_or] at hnd hnew ⊢
    exact ⟨⟨fun e => hnew.1 e.symm, hnd.1⟩, hnew.2, hnd.2⟩
  refine ⟨hnd', ?_⟩
  have hne : op ≠ new := fun e => hnew (by simp [e])
  cases rest with
  | nil =>
    -- ring [op]: s = op
    simp only [List.nil_append, List.head?_cons, Option.some.injEq] at hs
    have hs : s = op := hs.symm
    subst hs
    simp only [List.cons_append, List.nil_append, chainF_cons2, chainF_single, and_true, LinkF]
    refine ⟨⟨by simp, ?_⟩, ⟨?_, by simp⟩⟩
    · rw [upd_ne _ _ (Ne.symm hne)]; simp
    · rw [upd_ne _ _ (Ne.symm hne)]; simp
  | cons s' t =>
    simp only [List.cons_append, List.head?_cons, Option.some.injEq] at hs
    have hs : s = s' := hs.symm
    subst hs
    have hbn : s ≠ new := fun e => hnew (by simp [e])
    have hbo : s ≠ op := fun e => by simp [e] at hnd
    simp only [List.cons_append, chainF_cons2] at hch ⊢
    refine ⟨⟨by simp, ?_⟩, ⟨?_, by simp⟩, ?_⟩
    · rw [upd_ne _ _ (Ne.symm hbn)]; simp
    · rw [upd_ne _ _ (Ne.symm hne)]; simp
    · -- the chain s :: t ++ [op] is untouched
      apply chainF_frame _ hch.2
      · intro a ha
        have ha' : a ∈ s :: t := by
          have : (s :: (t ++ [op])).dropLast = s :: t := by
            rw [← List.cons_append, List.dropLast_concat]
          rw [this] at ha; exact ha
        have hao : a ≠ op := fun e => by
          subst e; simp only [List.nodup_cons] at hnd; exact hnd.1 ha'
        have han : a ≠ new := fun e => hnew (by subst e; exact List.mem_cons_of_mem _ ha')
        rw [upd_ne _ _ hao, upd_ne _ _ han]
      · intro b hb
        simp only [List.tail_cons] at hb
        have hb' : b ∈ t ++ [op] := hb
        have hbs : b ≠ s := by
          intro e; subst e
          simp only [List.nodup_cons, List.mem_cons, not_or] at hnd
          rcases List.mem_append.1 hb' with h1 | h1
          · exact hnd.2.1 h1
          · simp at h1; exact hnd.1.1 h1.symm
        have hbn' : b ≠ new := by
          intro e; subst e
          rcases List.mem_append.1 hb' with h1 | h1
          · exact hnew (by simp [h1])
          · simp at h1; exact hne h1.symm
        rw [upd_ne _ _ hbs, upd_ne _ _ hbn']

/-! ### reversal: `next` and `prev` change roles -/

theorem chainF_reverse {nx pv : PF} : ∀ (l : List Nat), ChainF nx pv l → ChainF pv nx l.reverse
  | [], _ => by simp
  | [_], _ => by simp
  | a :: b :: r, h => by
    simp only [chainF_cons2] at h
    have ih := chainF_reverse (b :: r) h.2
    have : (a :: b :: r).reverse = r.reverse ++ b :: [a] := by simp
    rw [this, chainF_append]
    refine ⟨by simpa using ih, ?_⟩
    simp only [chainF_cons2, chainF_single, and_true]
    exact ⟨h.1.2, h.1.1⟩

theorem isRingF_reverse {nx pv : PF} {a : Nat} {t : List Nat} (h : IsRingF nx pv (a :: t)) : IsRingF pv nx (a :: t.reverse) := by
  obtain ⟨hnd, hch⟩ := h
  refine ⟨?_, ?_⟩
  · simp only [List.nodup_cons, List.mem_reverse] at hnd ⊢
    exact ⟨hnd.1, ((List.reverse_perm t).nodup_iff).2 hnd.2⟩
  · have := chainF_reverse _ hch
    simpa using this

/-- `DuplicateOp(op, false)` on the ring `op :: rest`: `new` is linked in in front of `op`, i.e. at the end of the list.
`p` is `op->prev` before the call (the last element of `op :: rest`). -/
theorem ring_insert_before {nx pv : PF} {op new p : Nat} {rest : List Nat}
    (h : IsRingF nx pv (op :: rest)) (hp : (op :: rest).getLast? = some p) (hnew : new ∉ op :: rest) :
    IsRingF (upd (upd nx new op) p new) (upd (upd pv new p) op new) (op :: rest ++ [new]) := by
  have h1 := isRingF_reverse h
  have hs : (rest.reverse ++ [op]).head? = some p := by
    have : rest.reverse ++ [op] = (op :: rest).reverse := by simp
    rw [this, List.head?_reverse]; exact hp
  have hnew' : new ∉ op :: rest.reverse := by simpa using hnew
  have h2 := ring_insert_after h1 hs hnew'
  have h3 := isRingF_reverse h2
  simpa using h3

/-! ### the surgery of `ProcessHorzJoins` -/

theorem eq_dropLast_snoc {l : List Nat} {x : Nat} (hx : l.getLast? = some x) : l.dropLast ++ [x] = l := by
  obtain ⟨ys, rfl⟩ := List.getLast?_eq_some_iff.1 hx
  simp

theorem mem_of_mem_dropLast {l : List Nat} {a : Nat} (h : a ∈ l.dropLast) : a ∈ l := List.dropLast_subset l h

theorem chainF_cons_head {nx pv : PF} {a x : Nat} {l : List Nat} (hx : l.head? = some x) :
    ChainF nx pv (a :: l) ↔ LinkF nx pv a x ∧ ChainF nx pv l := by
  cases l with
  | nil => simp at hx
  | cons b r => simp at hx; subst hx; rfl

theorem chainF_snoc_last {nx pv : PF} {z x : Nat} {l : List Nat} (hx : l.getLast? = some x) :
    ChainF nx pv (l ++ [z]) ↔ ChainF nx pv l ∧ LinkF nx pv x z := by
  obtain ⟨l0, rfl⟩ := List.getLast?_eq_some_iff.1 hx
  have : l0 ++ [x] ++ [z] = l0 ++ x :: [z] := by simp
  rw [this, chainF_append]
  simp

theorem mem_of_head? {l : List Nat} {x : Nat} (h : l.head? = some x) : x ∈ l := by
  cases l with
  | nil => simp at h
  | cons a r => simp at h; subst h; simp

theorem mem_of_getLast? {l : List Nat} {x : Nat} (h : l.getLast? = some x) : x ∈ l :=
  List.mem_of_getLast? h

theorem tail_nodup_ne_head {l : List Nat} {x b : Nat} (hnd : l.Nodup) (hx : l.head? = some x) (hb : b ∈ l.tail) : b ≠ x := by
  cases l with
  | nil => simp at hx
  | cons a r => simp at hx hb; subst hx; grind [List.nodup_cons]

theorem dropLast_nodup_ne_last {l : List Nat} {x a : Nat} (hnd : l.Nodup) (hx : l.getLast? = some x) (ha : a ∈ l.dropLast) : a ≠ x := by
  rw [← eq_dropLast_snoc hx] at hnd
  grind [List.nodup_append]

/-- both join ops on one ring `op1 :: X ++ op2 :: Y` with `X ≠ []`: after

    op1->next = op2; op2->prev = op1; op1b->prev = op2b; op2b->next = op1b;      (op1b = x0 = head X, op2b = xl = last X)

the ring has fallen into `op1 :: op2 :: Y` and `X`. -/
theorem splice_same {nx pv : PF} {op1 op2 x0 xl : Nat} {X Y : List Nat}
    (h : IsRingF nx pv (op1 :: X ++ op2 :: Y)) (hx0 : X.head? = some x0) (hxl : X.getLast? = some xl) :
    IsRingF (upd (upd nx op1 op2) xl x0) (upd (upd pv op2 op1) x0 xl) (op1 :: op2 :: Y) ∧
    IsRingF (upd (upd nx op1 op2) xl x0) (upd (upd pv op2 op1) x0 xl) X := by
  obtain ⟨hnd, hch⟩ := h
  have hnd1 : (op1 :: (X ++ op2 :: Y)).Nodup := hnd
  have m0 := mem_of_head? hx0
  have ml := mem_of_getLast? hxl
  have hndX : X.Nodup := by grind [List.nodup_cons, List.nodup_append]
  have e1 : op1 ≠ xl := by grind [List.nodup_cons, List.nodup_append]
  have e2 : op2 ≠ x0 := by grind [List.nodup_cons, List.nodup_append]
  -- split the old chain:  op1 :: X ++ [op2]   and   op2 :: Y ++ [op1]
  have hch1 : ChainF nx pv ((op1 :: X) ++ op2 :: (Y ++ [op1])) := by simpa using hch
  rw [chainF_append] at hch1
  obtain ⟨hcX, hcY⟩ := hch1
  have hcX' : ChainF nx pv X := by
    have : ChainF nx pv (op1 :: (X ++ [op2])) := by simpa using hcX
    rw [chainF_cons_head (x := x0) (by cases X <;> simp_all)] at this
    exact ((chainF_snoc_last hxl).1 this.2).1
  refine ⟨⟨?_, ?_⟩, ?_⟩
  · grind [List.nodup_cons, List.nodup_append]
  · simp only [List.cons_append, chainF_cons2]
    refine ⟨⟨?_, ?_⟩, ?_⟩
    · rw [upd_ne _ _ e1]; simp
    · rw [upd_ne _ _ e2]; simp
    · apply chainF_frame _ hcY
      · intro a ha
        have ha' : a ∈ op2 :: Y := by
          have : (op2 :: (Y ++ [op1])).dropLast = op2 :: Y := by rw [← List.cons_append, List.dropLast_concat]
          rw [this] at ha; exact ha
        have n1 : a ≠ op1 := by grind [List.nodup_cons, List.nodup_append]
        have n2 : a ≠ xl := by grind [List.nodup_cons, List.nodup_append]
        rw [upd_ne _ _ n2, upd_ne _ _ n1]
      · intro b hb
        have hb' : b ∈ Y ++ [op1] := by simpa using hb
        have n1 : b ≠ op2 := by grind [List.nodup_cons, List.nodup_append]
        have n2 : b ≠ x0 := by grind [List.nodup_cons, List.nodup_append]
        rw [upd_ne _ _ n2, upd_ne _ _ n1]
  · -- the ring X, shown for the rotation xl :: X.dropLast
    have hX : X = X.dropLast ++ [xl] := (eq_dropLast_snoc hxl).symm
    have hr : IsRingF (upd (upd nx op1 op2) xl x0) (upd (upd pv op2 op1) x0 xl) (xl :: X.dropLast) := by
      refine ⟨?_, ?_⟩
      · rw [hX] at hndX; grind [List.nodup_cons, List.nodup_append]
      · have : xl :: X.dropLast ++ [xl] = xl :: X := by rw [List.cons_append, ← hX]
        rw [this, chainF_cons_head hx0]
        refine ⟨⟨by simp, by simp⟩, ?_⟩
        apply chainF_frame _ hcX'
        · intro a ha
          have n2 : a ≠ xl := dropLast_nodup_ne_last hndX hxl ha
          have n1 : a ≠ op1 := by
            have : a ∈ X := mem_of_mem_dropLast ha
            grind [List.nodup_cons, List.nodup_append]
          rw [upd_ne _ _ n2, upd_ne _ _ n1]
        · intro b hb
          have n2 : b ≠ x0 := tail_nodup_ne_head hndX hx0 hb
          have n1 : b ≠ op2 := by
            have : b ∈ X := List.mem_of_mem_tail hb
            grind [List.nodup_cons, List.nodup_append]
          rw [upd_ne _ _ n2, upd_ne _ _ n1]
    have := isRingF_rot [xl] X.dropLast hr
    rw [← hX] at this; exact this

/-- the join ops on two different rings `op1 :: X` and `op2 :: Y`: the same four writes (`op1b = head (X ++ [op1])`,
`op2b = last (op2 :: Y)`) give the single ring `op1 :: op2 :: Y ++ X`. -/
theorem splice_diff {nx pv : PF} {op1 op2 x0 yl : Nat} {X Y : List Nat}
    (h1 : IsRingF nx pv (op1 :: X)) (h2 : IsRingF nx pv (op2 :: Y)) (hdis : ∀ a ∈ op1 :: X, ∀ b ∈ op2 :: Y, a ≠ b)
    (hx0 : (X ++ [op1]).head? = some x0) (hyl : (op2 :: Y).getLast? = some yl) :
    IsRingF (upd (upd nx op1 op2) yl x0) (upd (upd pv op2 op1) x0 yl) (op1 :: op2 :: (Y ++ X)) := by
  obtain ⟨hnd1, hch1⟩ := h1
  obtain ⟨hnd2, hch2⟩ := h2
  have m0 := mem_of_head? hx0
  have ml := mem_of_getLast? hyl
  have e1 : op1 ≠ yl := by grind
  have e2 : op2 ≠ x0 := by grind
  have hndXo : (X ++ [op1]).Nodup := by grind [List.nodup_cons, List.nodup_append]
  refine ⟨?_, ?_⟩
  · grind [List.nodup_cons, List.nodup_append]
  · -- op1 :: op2 :: Y ++ X ++ [op1]
    have : op1 :: op2 :: (Y ++ X) ++ [op1] = op1 :: ((op2 :: Y).dropLast ++ yl :: (X ++ [op1])) := by
      have hY : op2 :: Y = (op2 :: Y).dropLast ++ [yl] := (eq_dropLast_snoc hyl).symm
      calc op1 :: op2 :: (Y ++ X) ++ [op1] = op1 :: ((op2 :: Y) ++ (X ++ [op1])) := by simp
        _ = op1 :: (((op2 :: Y).dropLast ++ [yl]) ++ (X ++ [op1])) := by rw [← hY]
        _ = _ := by simp
    rw [this]
    have hhead : ((op2 :: Y).dropLast ++ yl :: (X ++ [op1])).head? = some op2 := by
      cases Y <;> simp_all
    rw [chainF_cons_head hhead, chainF_append]
    have hYold : ChainF nx pv (op2 :: Y) := by
      have : ChainF nx pv ((op2 :: Y).dropLast ++ yl :: [op2]) := by
        have hY : op2 :: Y = (op2 :: Y).dropLast ++ [yl] := (eq_dropLast_snoc hyl).symm
        have e : (op2 :: Y).dropLast ++ yl :: [op2] = op2 :: Y ++ [op2] := by
          calc (op2 :: Y).dropLast ++ yl :: [op2] = ((op2 :: Y).dropLast ++ [yl]) ++ [op2] := by simp
            _ = _ := by rw [← hY]
        rw [e]; exact hch2
      rw [chainF_append] at this
      have hY : (op2 :: Y).dropLast ++ [yl] = op2 :: Y := eq_dropLast_snoc hyl
      rw [hY] at this; exact this.1
    have hXold : ChainF nx pv (X ++ [op1]) := by
      have : ChainF nx pv (op1 :: (X ++ [op1])) := by simpa using hch1
      rw [chainF_cons_head hx0] at this; exact this.2
    refine ⟨⟨?_, ?_⟩, ?_, ?_⟩
    · rw [upd_ne _ _ e1]; simp
    · rw [upd_ne _ _ e2]; simp
    · -- (op2 :: Y).dropLast ++ [yl] = op2 :: Y, framed
      have hY : (op2 :: Y).dropLast ++ [yl] = op2 :: Y := eq_dropLast_snoc hyl
      rw [hY]
      apply chainF_frame _ hYold
      · intro a ha
        have n2 : a ≠ yl := dropLast_nodup_ne_last hnd2 hyl ha
        have n1 : a ≠ op1 := by
          have : a ∈ op2 :: Y := mem_of_mem_dropLast ha
          grind
        rw [upd_ne _ _ n2, upd_ne _ _ n1]
      · intro b hb
        have hb' : b ∈ Y := by simpa using hb
        have n1 : b ≠ op2 := by grind [List.nodup_cons]
        have n2 : b ≠ x0 := by grind
        rw [upd_ne _ _ n2, upd_ne _ _ n1]
    · rw [chainF_cons_head hx0]
      refine ⟨⟨by simp, by simp⟩, ?_⟩
      apply chainF_frame _ hXold
      · intro a ha
        have ha' : a ∈ X := by simpa using ha
        have n1 : a ≠ op1 := by grind [List.nodup_cons]
        have n2 : a ≠ yl := by grind
        rw [upd_ne _ _ n2, upd_ne _ _ n1]
      · intro b hb
        have n2 : b ≠ x0 := tail_nodup_ne_head hndXo hx0 hb
        have n1 : b ≠ op2 := by
          have : b ∈ X ++ [op1] := List.mem_of_mem_tail hb
          grind
        rw [upd_ne _ _ n2, upd_ne _ _ n1]

end Clipper.Model.HorzJoins
